(* C16 - the cache is transparent; every sample is the nearest source pixel or the fill value *)
From Coq Require Import ZArith QArith Qround Qabs Lqa List Bool Lia.
Import ListNotations.
From GV Require Import Common.Wire C16.Model.
From GV Require Export C16.Lemmas1.
Open Scope Q_scope.

(* ---------- small list facts ---------- *)
Lemma nth_map' : forall {A B} (f : A -> B) l p d d', (p < length l)%nat -> nth p (map f l) d = f (nth p l d').
Proof.
  intros A B f l p d d' Hp. rewrite (nth_indep _ d (f d')) by (rewrite map_length; exact Hp). apply map_nth.
Qed.

Lemma nth_map_seq : forall {A} (f : nat -> A) n j d, (j < n)%nat -> nth j (map f (seq 0 n)) d = f j.
Proof.
  intros A f n j d Hj. rewrite (nth_map' f (seq 0 n) j d 0%nat) by (rewrite seq_length; exact Hj).
  rewrite seq_nth by exact Hj. reflexivity.
Qed.

Lemma list_as_map_seq : forall {A} (l : list A) d, l = map (fun i => nth i l d) (seq 0 (length l)).
Proof.
  intros A l d. apply (nth_ext _ _ d d).
  - rewrite map_length, seq_length. reflexivity.
  - intros n Hn. rewrite nth_map_seq by exact Hn. reflexivity.
Qed.

Lemma existsb_ext_in : forall {A} (f g : A -> bool) l, (forall x, In x l -> f x = g x) -> existsb f l = existsb g l.
Proof.
  intros A f g l; induction l as [|a l IH]; intros H; simpl; [reflexivity|].
  rewrite (H a (or_introl eq_refl)). rewrite IH; [reflexivity|]. intros x Hx; apply H; right; exact Hx.
Qed.

Lemma existsb_negb_forallb : forall {A} (f : A -> bool) l, existsb f l = negb (forallb (fun x => negb (f x)) l).
Proof.
  intros A f l; induction l as [|a l IH]; simpl; [reflexivity|]. rewrite IH. destruct (f a); reflexivity.
Qed.

Lemma forallb_ext_in : forall {A} (f g : A -> bool) l, (forall x, In x l -> f x = g x) -> forallb f l = forallb g l.
Proof.
  intros A f g l; induction l as [|a l IH]; intros H; simpl; [reflexivity|].
  rewrite (H a (or_introl eq_refl)). rewrite IH; [reflexivity|]. intros x Hx; apply H; right; exact Hx.
Qed.

Lemma forallb_map' : forall {A B} (f : B -> bool) (h : A -> B) l, forallb f (map h l) = forallb (fun x => f (h x)) l.
Proof. intros A B f h l; induction l as [|a l IH]; simpl; [reflexivity|]. rewrite IH. reflexivity. Qed.

Lemma mapM_spec : forall {A B} (f : A -> option B) l r, mapM f l = Some r ->
  length r = length l /\ forall k d d', (k < length l)%nat -> f (nth k l d) = Some (nth k r d').
Proof.
  intros A B f l; induction l as [|a l IH]; intros r H; simpl in H.
  - inversion H; subst. split; [reflexivity|]. intros k d d' Hk; simpl in Hk; lia.
  - destruct (f a) eqn:Ea; [|discriminate]. destruct (mapM f l) eqn:El; [|discriminate].
    inversion H; subst. destruct (IH l0 eq_refl) as [Hl Hn]. split; [simpl; lia|].
    intros k d d' Hk. destruct k as [|k]; simpl; [exact Ea|]. apply Hn. simpl in Hk. lia.
Qed.

(* ---------- cache transparency ---------- *)
(* every link expression of the world reports, for its world-coordinate leaves, dimensions that cover the pixel axes used *)
Definition wf_world (W : world) : Prop :=
  forall s t i e, nth_error (get_links W s t) i = Some (Some e) -> wf_exprb e = true.

Section Cache.
Variable W : world.
Hypothesis HW : wf_world W.

Definition good_a (ae : option aentry) : Prop :=
  match ae with
  | None => True
  | Some a => forall bs, cbs_match (a_cbs a) bs = true ->
                         frb_core W (a_s a) (a_t a) (a_w a) (a_bc a) bs = OkArr (a_shape a) (a_vals a)
  end.

Definition good_items (s t : nat) (items : list (nat * (triple * list cbound))) : Prop :=
  forall i tr cbs, lookup_item i items = Some (tr, cbs) ->
                   forall bs, cbs_match cbs bs = true -> axis_of W s t i bs = Some tr.

Definition good_p (pe : option pentry) : Prop :=
  match pe with None => True | Some p => good_items (p_s p) (p_t p) (p_items p) end.

Definition good_p_for (s t : nat) (pe : option pentry) : Prop :=
  match pe with None => True | Some p => p_s p = s /\ p_t p = t /\ good_items s t (p_items p) end.

(* the invariant: every cache entry equals the uncached value for every request its wildcard key matches *)
Definition Inv (st : cstate) : Prop := forall cid, good_a (fst (st cid)) /\ good_p (snd (st cid)).

Lemma Inv_empty : Inv empty_state.
Proof. intros cid. simpl. split; exact I. Qed.

Lemma good_p_for_good : forall s t pe, good_p_for s t pe -> good_p pe.
Proof. intros s t [p|] H; simpl in *; [|exact I]. destruct H as [Hs [Ht H]]. subst. exact H. Qed.

Lemma Inv_upd : forall st cid ae pe, Inv st -> good_a ae -> good_p pe -> Inv (upd st cid (ae, pe)).
Proof.
  intros st cid ae pe HI Ha Hp k. unfold upd. destruct (Nat.eqb k cid); simpl; [split; assumption|apply HI].
Qed.

Lemma axis_of_like : forall s t i D bs bs' tr,
  like_except D bs bs' -> axis_of W s t i bs = Some tr -> (forall j, In j (tdims tr) -> In j D) ->
  axis_of W s t i bs' = Some tr.
Proof.
  intros s t i D bs bs' tr HL H Hd. unfold axis_of in *.
  destruct (nth_error (get_links W s t) i) as [[e|]|] eqn:EN; try discriminate.
  inversion H; subst. f_equal. apply (axis_result_like e _ D); [exact (HW s t i e EN)|exact HL|]. exact Hd.
Qed.

Lemma mapM_like : forall s t D bs bs' l axes,
  like_except D bs bs' -> mapM (fun i => axis_of W s t i bs) l = Some axes ->
  (forall tr j, In tr axes -> In j (tdims tr) -> In j D) ->
  mapM (fun i => axis_of W s t i bs') l = Some axes.
Proof.
  intros s t D bs bs' l; induction l as [|a l IH]; intros axes HL H Hd; simpl in *; [exact H|].
  destruct (axis_of W s t a bs) eqn:Ea; [|discriminate].
  destruct (mapM (fun i => axis_of W s t i bs) l) eqn:El; [|discriminate].
  inversion H; subst.
  rewrite (axis_of_like s t a D bs bs' t0 HL Ea) by (intros j Hj; apply (Hd t0 j); [left; reflexivity|exact Hj]).
  rewrite (IH l0 HL eq_refl) by (intros tr j Htr Hj; apply (Hd tr j); [right; exact Htr|exact Hj]).
  reflexivity.
Qed.

Lemma assemble_like : forall s t w bc D bs bs' axes,
  like_except D bs bs' -> assemble W s t w bc bs' axes = assemble W s t w bc bs axes.
Proof.
  intros s t w bc D bs bs' axes HL. unfold assemble.
  rewrite (like_except_grid D bs bs' HL), (like_except_oshape D bs bs' HL).
  destruct HL as [Hl H0]. rewrite Hl.
  rewrite (existsb_ext_in
             (fun i => negb (is_scalar (nth i bs' (BScalar 0))) && negb (memn i (flat_map tdims axes)))
             (fun i => negb (is_scalar (nth i bs (BScalar 0))) && negb (memn i (flat_map tdims axes))));
    [reflexivity|].
  intros i _. rewrite (like_except_scalar D bs bs' i (conj Hl H0)). reflexivity.
Qed.

Lemma lookup_item_cons : forall i j v items,
  lookup_item i ((j, v) :: items) = if Nat.eqb j i then Some v else lookup_item i items.
Proof. intros i j v items. unfold lookup_item. simpl. destruct (Nat.eqb j i); reflexivity. Qed.

Lemma good_items_store : forall s t items i tr bs,
  good_items s t items -> axis_of W s t i bs = Some tr ->
  good_items s t ((i, (tr, bounds_for_cache bs (tdims tr))) :: items).
Proof.
  intros s t items i tr bs HG Ha j tr' cbs HL bs' HM.
  rewrite lookup_item_cons in HL. destruct (Nat.eqb i j) eqn:E.
  - apply Nat.eqb_eq in E. subst j. inversion HL; subst.
    apply match_like_except in HM. apply (axis_of_like s t i (tdims tr') bs bs' tr' HM Ha). auto.
  - apply (HG j tr' cbs HL bs' HM).
Qed.

Lemma pixel_hit_sound : forall s t pe i bs tr, good_p_for s t pe -> pixel_hit pe i bs = Some tr -> axis_of W s t i bs = Some tr.
Proof.
  intros s t [p|] i bs tr HG H; simpl in *; [|discriminate].
  destruct HG as [Hs [Ht HG]].
  destruct (lookup_item i (p_items p)) as [[tr' cbs]|] eqn:EL; [|discriminate].
  destruct (cbs_match cbs bs) eqn:EM; [|discriminate]. inversion H; subst.
  apply (HG i tr cbs EL bs EM).
Qed.

Lemma pixel_store_good : forall s t pe i tr bs, good_p_for s t pe -> axis_of W s t i bs = Some tr ->
  good_p_for s t (pixel_store pe s t i tr (bounds_for_cache bs (tdims tr))).
Proof.
  intros s t [p|] i tr bs HG Ha; simpl in *.
  - destruct HG as [Hs [Ht HG]]. split; [exact Hs|]. split; [exact Ht|]. apply good_items_store; assumption.
  - split; [reflexivity|]. split; [reflexivity|]. apply good_items_store; [|exact Ha].
    intros j tr' cbs HL. unfold lookup_item in HL. simpl in HL. discriminate.
Qed.

Lemma pix_loop_spec : forall s t bs ipixs pe acc, good_p_for s t pe ->
  good_p_for s t (snd (pix_loop W s t bs ipixs pe acc)) /\
  fst (pix_loop W s t bs ipixs pe acc) =
    match mapM (fun i => axis_of W s t i bs) ipixs with Some l => Some (rev acc ++ l) | None => None end.
Proof.
  intros s t bs ipixs; induction ipixs as [|i rest IH]; intros pe acc HG; simpl.
  - split; [exact HG|]. rewrite app_nil_r. reflexivity.
  - destruct (pixel_hit pe i bs) as [tr|] eqn:EH.
    + rewrite (pixel_hit_sound s t pe i bs tr HG EH).
      destruct (IH pe (tr :: acc) HG) as [H1 H2]. split; [exact H1|]. rewrite H2.
      destruct (mapM (fun i0 => axis_of W s t i0 bs) rest); [|reflexivity]. simpl. rewrite <- app_assoc. reflexivity.
    + destruct (axis_of W s t i bs) as [tr|] eqn:EA.
      * destruct (IH (pixel_store pe s t i tr (bounds_for_cache bs (tdims tr))) (tr :: acc)
                     (pixel_store_good s t pe i tr bs HG EA)) as [H1 H2].
        split; [exact H1|]. rewrite H2.
        destruct (mapM (fun i0 => axis_of W s t i0 bs) rest); [|reflexivity]. simpl. rewrite <- app_assoc. reflexivity.
      * simpl. split; [exact HG|reflexivity].
Qed.

Lemma what_eqb_eq : forall a b, what_eqb a b = true -> a = b.
Proof.
  intros [|k|k|k m] [|k'|k'|k' m']; simpl; intros H; try discriminate; try reflexivity.
  - apply Nat.eqb_eq in H. subst. reflexivity.
  - apply Nat.eqb_eq in H. subst. reflexivity.
  - apply andb_true_iff in H. destruct H as [H1 H2]. apply Nat.eqb_eq in H1. apply Nat.eqb_eq in H2. subst. reflexivity.
Qed.

Lemma array_hit_sound : forall ae s t w bc bs sh vals, good_a ae -> array_hit ae s t w bc bs = Some (sh, vals) ->
  frb_core W s t w bc bs = OkArr sh vals.
Proof.
  intros [a|] s t w bc bs sh vals HG H; simpl in H; [|discriminate].
  destruct (Nat.eqb (a_s a) s && cbs_match (a_cbs a) bs && Nat.eqb (a_t a) t && what_eqb (a_w a) w && Bool.eqb (a_bc a) bc) eqn:E;
    [|discriminate].
  inversion H; subst.
  repeat (apply andb_true_iff in E; let E' := fresh "E" in destruct E as [E E']).
  apply Nat.eqb_eq in E. apply Nat.eqb_eq in E2. apply what_eqb_eq in E1. apply eqb_prop in E0.
  simpl in HG. rewrite <- E, <- E2, <- E1, <- E0. apply HG. exact E3.
Qed.

Lemma new_array_entry_good : forall s t w bc bs axes sh vals,
  mapM (fun i => axis_of W s t i bs) (seq 0 (ndim W s)) = Some axes ->
  assemble W s t w bc bs axes = OkArr sh vals ->
  good_a (Some (mkA s (bounds_for_cache bs (flat_map tdims axes)) t w bc sh vals)).
Proof.
  intros s t w bc bs axes sh vals HM HA bs' Hmatch. simpl in *.
  apply match_like_except in Hmatch.
  unfold frb_core.
  rewrite (mapM_like s t (flat_map tdims axes) bs bs' _ axes Hmatch HM).
  - rewrite (assemble_like s t w bc _ bs bs' axes Hmatch). exact HA.
  - intros tr j Htr Hj. apply in_flat_map. exists tr. split; assumption.
Qed.

(* one request: the cached function returns what the uncached function returns, and keeps the invariant *)
Lemma step_sound : forall st r, Inv st -> fst (step W st r) = frb W r /\ Inv (snd (step W st r)).
Proof.
  intros st r HI. unfold step, frb.
  destruct (prechecks W r) as [e|]; [split; [reflexivity|exact HI]|].
  set (bs := map norm_bound (rbounds r)).
  destruct (rcache r) as [cid|]; [|split; [reflexivity|exact HI]].
  destruct (HI cid) as [Ha Hp].
  destruct (array_hit (fst (st cid)) (rs r) (rt r) (rwhat r) (rbc r) bs) as [[sh vals]|] eqn:EH.
  - simpl. split; [|exact HI]. symmetry. apply (array_hit_sound _ _ _ _ _ _ _ _ Ha EH).
  - set (pe1 := match snd (st cid) with
                | Some p => if Nat.eqb (p_s p) (rs r) && Nat.eqb (p_t p) (rt r) then Some p else None
                | None => None
                end).
    assert (Hpe1 : good_p_for (rs r) (rt r) pe1).
    { unfold pe1. destruct (snd (st cid)) as [p|]; [|exact I].
      destruct (Nat.eqb (p_s p) (rs r) && Nat.eqb (p_t p) (rt r)) eqn:E; [|exact I].
      apply andb_true_iff in E. destruct E as [E1 E2]. apply Nat.eqb_eq in E1. apply Nat.eqb_eq in E2.
      simpl. split; [exact E1|]. split; [exact E2|]. simpl in Hp. rewrite <- E1, <- E2. exact Hp. }
    destruct (pix_loop_spec (rs r) (rt r) bs (seq 0 (ndim W (rs r))) pe1 [] Hpe1) as [Hg Hres].
    destruct (pix_loop W (rs r) (rt r) bs (seq 0 (ndim W (rs r))) pe1 []) as [res pe2].
    simpl in Hg, Hres. unfold frb_core.
    destruct (mapM (fun i => axis_of W (rs r) (rt r) i bs) (seq 0 (ndim W (rs r)))) as [axes|] eqn:EM; subst res.
    + destruct (assemble W (rs r) (rt r) (rwhat r) (rbc r) bs axes) as [sh vals|e] eqn:EA; simpl.
      * split; [reflexivity|]. apply Inv_upd; [exact HI| |apply (good_p_for_good _ _ _ Hg)].
        apply new_array_entry_good; assumption.
      * split; [reflexivity|]. apply Inv_upd; [exact HI|exact Ha|apply (good_p_for_good _ _ _ Hg)].
    + simpl. split; [reflexivity|]. apply Inv_upd; [exact HI|exact Ha|apply (good_p_for_good _ _ _ Hg)].
Qed.

Lemma run_cached_sound : forall reqs st, Inv st -> run_cached W st reqs = map (frb W) reqs.
Proof.
  induction reqs as [|r reqs IH]; intros st HI; simpl; [reflexivity|].
  destruct (step_sound st r HI) as [H1 H2].
  destruct (step W st r) as [o st']. simpl in H1, H2. subst o. f_equal. apply IH. exact H2.
Qed.

Lemma cache_transparent : forall reqs, run_cached W empty_state reqs = map (frb W) reqs.
Proof. intros reqs. apply run_cached_sound. apply Inv_empty. Qed.

End Cache.

(* ---------- every sample is the nearest source pixel, or the fill value ---------- *)
Definition inrange (k : Z) (size : nat) : bool := (0 <=? k)%Z && (k <? Z.of_nat size)%Z.
Definition inrange_o (k : option Z) (size : nat) : bool := match k with Some z => inrange z size | None => false end.
Definition to_nat_o (k : option Z) : nat := match k with Some z => Z.to_nat z | None => 0%nat end.

Lemma invalid_inrange : forall k size, invalid_idx size k = negb (inrange_o k size).
Proof.
  intros [k|] size; [|reflexivity]. unfold invalid_idx, inrange_o, inrange.
  destruct (k <? 0)%Z eqn:E1, (k >=? Z.of_nat size)%Z eqn:E2, (0 <=? k)%Z eqn:E3, (k <? Z.of_nat size)%Z eqn:E4; simpl; try reflexivity;
    rewrite ?Z.ltb_lt, ?Z.ltb_ge, ?Z.leb_le, ?Z.leb_gt, ?Z.geb_leb in *; rewrite ?Z.leb_le, ?Z.leb_gt in *; lia.
Qed.

(* the rounded linked position of source axis i at sample g; None when the position is not a finite number *)
Definition raw_idx (W : world) (s t : nat) (bs : list bound) (g : list nat) (i : nat) : option Z :=
  match nth_error (get_links W s t) i with
  | Some (Some e) => option_map round_half_even (eval e (pos_at bs g))
  | _ => None
  end.

Lemma frb_nearest : forall W s t w bc bs sh vals,
  frb_core W s t w bc bs = OkArr sh vals ->
  sh = oshape bs /\ length vals = length (all_indices (grid_shape bs)) /\
  forall p, (p < length (all_indices (grid_shape bs)))%nat ->
    let g := nth p (all_indices (grid_shape bs)) [] in
    let d := get_data W s in
    exists idx : list (option Z),
      length idx = ndim W s /\
      (forall i, (i < ndim W s)%nat ->
         exists e, nth_error (get_links W s t) i = Some (Some e) /\
                   match eval e (pos_at bs g) with
                   | Some x => exists k, nth i idx None = Some k /\
                                         Qabs (inject_Z k - x) <= 1 # 2 /\
                                         (forall k', Qabs (inject_Z k' - x) < 1 # 2 -> k = k')
                   | None => nth i idx None = None
                   end) /\
      nth p vals None =
        (if forallb (fun i => inrange_o (nth i idx None) (nth i (dshape d) 0%nat)) (seq 0 (ndim W s))
         then nth (flat_index (dshape d) (map to_nat_o idx)) (src_vals d w) (fill w)
         else fill w).
Proof.
  intros W s t w bc bs sh vals H. unfold frb_core in H.
  destruct (mapM (fun i => axis_of W s t i bs) (seq 0 (ndim W s))) as [axes|] eqn:EM; [|discriminate].
  unfold assemble in H.
  destruct (negb (Nat.eqb s t) && negb bc &&
            existsb (fun i => negb (is_scalar (nth i bs (BScalar 0))) && negb (memn i (flat_map tdims axes))) (seq 0 (length bs)));
    [discriminate|].
  inversion H; subst sh vals; clear H.
  split; [reflexivity|]. split; [rewrite map_length, seq_length; reflexivity|].
  intros p Hp g d.
  set (nd := ndim W s) in *.
  destruct (mapM_spec _ _ _ EM) as [Hlen Hnth]. rewrite seq_length in Hlen, Hnth.
  set (dflt := mkTriple [] [] []).
  assert (Hax : forall i, (i < nd)%nat -> exists e, nth_error (get_links W s t) i = Some (Some e) /\
                 nth i axes dflt = axis_result e (nth i (dshape d) 0%nat) bs).
  { intros i Hi. specialize (Hnth i 0%nat dflt Hi). rewrite seq_nth in Hnth by exact Hi. simpl in Hnth.
    unfold axis_of in Hnth. destruct (nth_error (get_links W s t) i) as [[e|]|]; try discriminate.
    exists e. split; [reflexivity|]. inversion Hnth. reflexivity. }
  set (npts := length (all_indices (grid_shape bs))) in *.
  assert (Hraw : forall i, (i < nd)%nat ->
            nth p (inval (nth i axes dflt)) false = negb (inrange_o (raw_idx W s t bs g i) (nth i (dshape d) 0%nat)) /\
            (inrange_o (raw_idx W s t bs g i) (nth i (dshape d) 0%nat) = true ->
             Z.to_nat (nth p (tc (nth i axes dflt)) 0%Z) = to_nat_o (raw_idx W s t bs g i))).
  { intros i Hi. destruct (Hax i Hi) as [e [He Ha]]. rewrite Ha. unfold raw_idx. rewrite He. unfold axis_result. simpl.
    split.
    - rewrite (nth_map' _ _ p false None) by (rewrite map_length; exact Hp).
      rewrite (nth_map' _ _ p None []) by exact Hp. fold g. apply invalid_inrange.
    - intros Hin. rewrite (nth_map' _ _ p 0%Z None) by (rewrite map_length; exact Hp).
      rewrite (nth_map' _ _ p None []) by exact Hp. fold g.
      destruct (option_map round_half_even (eval e (pos_at bs g))) as [z|] eqn:EO; [|discriminate].
      unfold clamp_idx. rewrite invalid_inrange. rewrite Hin. reflexivity. }
  exists (map (raw_idx W s t bs g) (seq 0 nd)).
  split; [rewrite map_length, seq_length; reflexivity|]. split.
  - intros i Hi. destruct (Hax i Hi) as [e [He _]]. exists e. split; [exact He|].
    rewrite nth_map_seq by exact Hi. unfold raw_idx. rewrite He.
    destruct (eval e (pos_at bs g)) as [x|]; simpl; [|reflexivity].
    exists (round_half_even x). split; [reflexivity|]. split; [apply round_nearest|].
    intros k' Hk. apply round_unique. exact Hk.
  - rewrite nth_map_seq by exact Hp.
    rewrite (list_as_map_seq axes dflt) at 1. rewrite Hlen.
    rewrite existsb_negb_forallb. rewrite forallb_map'.
    rewrite (forallb_ext_in
               (fun x => negb (nth p (inval (nth x axes dflt)) false))
               (fun i => inrange_o (nth i (map (raw_idx W s t bs g) (seq 0 nd)) None) (nth i (dshape d) 0%nat))).
    2:{ intros i Hi. apply in_seq in Hi. destruct (Hraw i ltac:(lia)) as [H1 _]. rewrite H1. rewrite negb_involutive.
        rewrite nth_map_seq by lia. reflexivity. }
    destruct (forallb (fun i => inrange_o (nth i (map (raw_idx W s t bs g) (seq 0 nd)) None) (nth i (dshape d) 0%nat)) (seq 0 nd)) eqn:EF;
      simpl; [|reflexivity].
    f_equal. f_equal.
    rewrite (list_as_map_seq axes dflt) at 1. rewrite Hlen. rewrite !map_map.
    apply map_ext_in. intros i Hi. apply in_seq in Hi.
    rewrite forallb_forall in EF. specialize (EF i). rewrite nth_map_seq in EF by lia.
    destruct (Hraw i ltac:(lia)) as [_ H2]. apply H2. apply EF. apply in_seq. lia.
Qed.

(* a sample whose linked position is not a finite number on some source axis holds the fill value *)
Lemma undefined_position_is_fill : forall W s t w bc bs sh vals p i e,
  frb_core W s t w bc bs = OkArr sh vals ->
  (p < length (all_indices (grid_shape bs)))%nat -> (i < ndim W s)%nat ->
  nth_error (get_links W s t) i = Some (Some e) ->
  eval e (pos_at bs (nth p (all_indices (grid_shape bs)) [])) = None ->
  nth p vals None = fill w.
Proof.
  intros W s t w bc bs sh vals p i e H Hp Hi He Hev.
  destruct (frb_nearest W s t w bc bs sh vals H) as [_ [_ Hs]].
  destruct (Hs p Hp) as [idx [Hlen [Hidx Hval]]]. rewrite Hval.
  destruct (Hidx i Hi) as [e' [He' Hm]]. rewrite He in He'. inversion He'; subst e'. rewrite Hev in Hm.
  destruct (forallb (fun i0 => inrange_o (nth i0 idx None) (nth i0 (dshape (get_data W s)) 0%nat)) (seq 0 (ndim W s))) eqn:EF; [|reflexivity].
  rewrite forallb_forall in EF. specialize (EF i). rewrite Hm in EF. simpl in EF.
  assert (In i (seq 0 (ndim W s))) by (apply in_seq; lia). specialize (EF H0). discriminate.
Qed.

(* a computable check of the well-formedness hypothesis *)
Definition wf_worldb (W : world) : bool :=
  forallb (fun l => forallb (fun oe : option pexpr => match oe with Some e => wf_exprb e | None => true end) (snd l)) (links W).

Lemma wf_worldb_sound : forall W, wf_worldb W = true -> wf_world W.
Proof.
  intros W H s t i e Hn. unfold wf_worldb in H. rewrite forallb_forall in H.
  unfold get_links in Hn.
  destruct (find (fun x => Nat.eqb (fst (fst x)) s && Nat.eqb (snd (fst x)) t) (links W)) as [x|] eqn:EF.
  - apply find_some in EF. destruct EF as [Hin _]. specialize (H x Hin). rewrite forallb_forall in H.
    apply nth_error_In in Hn. exact (H (Some e) Hn).
  - destruct i; discriminate.
Qed.
