(* C16 - non-vacuity and sanity runs of the executable model *)
From Coq Require Import ZArith QArith List Bool Lia.
Import ListNotations.
From GV Require Import Common.Wire C16.Model C16.Lemmas.
Open Scope Q_scope.

(* reference: a 2 x 3 x 2 cube; source: a 3 x 2 image whose axis 0 is reference axis 1 and whose axis 1 is
   2 * (reference axis 2) - 1; reference axis 0 does not matter ("slicing through the cube") *)
Definition ref : dataset := mkData [2; 3; 2]%nat [[0; 1; 2; 3; 4; 5; 6; 7; 8; 9; 10; 11]%Z] [].
Definition src : dataset := mkData [3; 2]%nat [[10; 11; 12; 13; 14; 15]%Z] [[true; false; false; true; true; false]].
Definition W0 : world :=
  mkWorld [ref; src]
          [(0%nat, 0%nat, [Some (PixT 0); Some (PixT 1); Some (PixT 2)]);
           (1%nat, 0%nat, [Some (Lnk [1] 0 [PixT 1]); Some (Lnk [2] (-1) [PixT 2])]);
           (1%nat, 1%nat, [Some (PixT 0); Some (PixT 1)]);
           (0%nat, 1%nat, [None; Some (Lnk [1] 0 [PixT 0]); Some (Lnk [1 # 2] (1 # 2) [PixT 1])])].

Definition req (slice : Q) (w : what) : request :=
  mkReq 1 0 [BScalar slice; BRange 0 2 3; BRange 0 1 2] w true (Some 7%nat).

(* the buffer: source rows 0..2; reference x = 0 falls at source column -1 (outside), x = 1 at column 1 *)
Example buffer_values :
  frb W0 (req 0 (WAttr 0)) = OkArr [3; 2]%nat [None; Some 11; None; Some 13; None; Some 15]%Z.
Proof. vm_compute. reflexivity. Qed.
Example buffer_mask :
  frb W0 (req 0 (WMask 0)) = OkArr [3; 2]%nat [Some 0; Some 0; Some 0; Some 1; Some 0; Some 0]%Z.
Proof. vm_compute. reflexivity. Qed.
Example not_derivable : frb W0 (mkReq 0 1 [BScalar 0; BScalar 0] (WAttr 0) true None) = Err E_IncompatibleAttribute.
Proof. vm_compute. reflexivity. Qed.
Example no_broadcast : frb W0 (mkReq 1 0 [BRange 0 1 2; BRange 0 2 3; BRange 0 1 2] (WAttr 0) false None) = Err E_IncompatibleData.
Proof. vm_compute. reflexivity. Qed.
Example bad_nsteps : frb W0 (mkReq 1 0 [BScalar 0; BRange 0 2 0; BScalar 1] (WAttr 0) true None) = Err E_Value.
Proof. vm_compute. reflexivity. Qed.

(* the wildcard really is used: after the request at slice 0 the stored key has AnyScalar on axis 0, and the
   request at slice 1 is answered from ARRAY_CACHE (the hypotheses of the invariant are met by a non-empty state) *)
Definition st1 := snd (step W0 empty_state (req 0 (WAttr 0))).
Example stored_key_has_wildcard :
  match fst (st1 7%nat) with Some a => a_cbs a = [CAny; CB (BRange 0 2 3); CB (BRange 0 1 2)] | None => False end.
Proof. vm_compute. reflexivity. Qed.
Example second_slice_hits :
  array_hit (fst (st1 7%nat)) 1 0 (WAttr 0) true (map norm_bound (rbounds (req 1 (WAttr 0)))) <> None.
Proof. vm_compute. discriminate. Qed.
Example other_attribute_misses_array_but_hits_pixels :
  array_hit (fst (st1 7%nat)) 1 0 (WMask 0) true (map norm_bound (rbounds (req 1 (WMask 0)))) = None /\
  pixel_hit (snd (st1 7%nat)) 0 (map norm_bound (rbounds (req 1 (WMask 0)))) <> None.
Proof. split; vm_compute; [reflexivity|discriminate]. Qed.
Example st1_invariant : Inv W0 st1.
Proof. apply (step_sound W0 empty_state (req 0 (WAttr 0))). apply Inv_empty. Qed.

(* a ranged bound never matches the wildcard *)
Example wildcard_only_scalars : cb_match CAny (BRange 0 1 2) = false /\ cb_match CAny (BScalar (5 # 4)) = true.
Proof. split; reflexivity. Qed.

(* rounding: half to even, and nearest elsewhere *)
Example rounding : map round_half_even [5 # 2; 7 # 2; -(1 # 2); -(3 # 2); 9 # 4; -(9 # 4); 3] = [2; 4; 0; -2; 2; -2; 3]%Z.
Proof. vm_compute. reflexivity. Qed.

(* dims: sorted, duplicates removed; a coefficient 0 still counts (the tracking is syntactic) *)
Example dims_example : dims (Lnk [1; 0] 0 [Lnk [2] 1 [PixT 2]; PixT 0]) = [0; 2]%nat.
Proof. reflexivity. Qed.

Eval vm_compute in (run_cached W0 empty_state [req 0 (WAttr 0); req 1 (WAttr 0); req 1 (WMask 0)]).
