(* C16 - non-vacuity and sanity runs of the executable model *)
From Coq Require Import ZArith QArith List Bool Lia.
Import ListNotations.
From GV Require Import Common.Wire C16.Model C16.Lemmas C16.Lemmas2.
Open Scope Q_scope.

(* reference: a 2 x 3 x 2 cube; source: a 3 x 2 image whose axis 0 is reference axis 1 and whose axis 1 is
   2 * (reference axis 2) - 1; reference axis 0 does not matter ("slicing through the cube") *)
Definition ref : dataset := mkData [2; 3; 2]%nat [[0; 1; 2; 3; 4; 5; 6; 7; 8; 9; 10; 11]%Z] [].
Definition src : dataset := mkData [3; 2]%nat [[10; 11; 12; 13; 14; 15]%Z] [[true; false; false; true; true; false]].
Definition W0 : world :=
  mkWorld [ref; src]
          [(0%nat, 0%nat, [Some (PixT 0); Some (PixT 1); Some (PixT 2)]);
           (1%nat, 0%nat, [Some (Lnk [1] 0 [PixT 1]); Some (Lnk [2] (-1) [PixT 2])]);
           (1%nat, 1%nat, [Some (PixT 0); Some (PixT 1)]);
           (0%nat, 1%nat, [None; Some (Lnk [1] 0 [PixT 0]); Some (Lnk [1 # 2] (1 # 2) [PixT 1])])].

Definition req (slice : Q) (w : what) : request :=
  mkReq 1 0 [BScalar slice; BRange 0 2 3; BRange 0 1 2] w true (Some 7%nat).

(* the buffer: source rows 0..2; reference x = 0 falls at source column -1 (outside), x = 1 at column 1 *)
Example buffer_values :
  frb W0 (req 0 (WAttr 0)) = OkArr [3; 2]%nat [None; Some 11; None; Some 13; None; Some 15]%Z.
Proof. vm_compute. reflexivity. Qed.
Example buffer_mask :
  frb W0 (req 0 (WMask 0)) = OkArr [3; 2]%nat [Some 0; Some 0; Some 0; Some 1; Some 0; Some 0]%Z.
Proof. vm_compute. reflexivity. Qed.
Example not_derivable : frb W0 (mkReq 0 1 [BScalar 0; BScalar 0] (WAttr 0) true None) = Err E_IncompatibleAttribute.
Proof. vm_compute. reflexivity. Qed.
Example no_broadcast : frb W0 (mkReq 1 0 [BRange 0 1 2; BRange 0 2 3; BRange 0 1 2] (WAttr 0) false None) = Err E_IncompatibleData.
Proof. vm_compute. reflexivity. Qed.
Example bad_nsteps : frb W0 (mkReq 1 0 [BScalar 0; BRange 0 2 0; BScalar 1] (WAttr 0) true None) = Err E_Value.
Proof. vm_compute. reflexivity. Qed.

(* the wildcard really is used: after the request at slice 0 the stored key has AnyScalar on axis 0, and the
   request at slice 1 is answered from ARRAY_CACHE (the hypotheses of the invariant are met by a non-empty state) *)
Definition st1 := snd (step W0 empty_state (req 0 (WAttr 0))).
Example stored_key_has_wildcard :
  match fst (st1 7%nat) with Some a => a_cbs a = [CAny; CB (BRange 0 2 3); CB (BRange 0 1 2)] | None => False end.
Proof. vm_compute. reflexivity. Qed.
Example second_slice_hits :
  array_hit (fst (st1 7%nat)) 1 0 (WAttr 0) true (map norm_bound (rbounds (req 1 (WAttr 0)))) <> None.
Proof. vm_compute. discriminate. Qed.
Example other_attribute_misses_array_but_hits_pixels :
  array_hit (fst (st1 7%nat)) 1 0 (WMask 0) true (map norm_bound (rbounds (req 1 (WMask 0)))) = None /\
  pixel_hit (snd (st1 7%nat)) 0 (map norm_bound (rbounds (req 1 (WMask 0)))) <> None.
Proof. split; vm_compute; [reflexivity|discriminate]. Qed.
Example W0_wf : wf_world W0.
Proof. apply wf_worldb_sound. reflexivity. Qed.
Example st1_invariant : Inv W0 st1.
Proof. apply (step_sound W0 W0_wf empty_state (req 0 (WAttr 0))). apply Inv_empty. Qed.

(* a ranged bound never matches the wildcard *)
Example wildcard_only_scalars : cb_match CAny (BRange 0 1 2) = false /\ cb_match CAny (BScalar (5 # 4)) = true.
Proof. split; reflexivity. Qed.

(* rounding: half to even, and nearest elsewhere *)
Example rounding : map round_half_even [5 # 2; 7 # 2; -(1 # 2); -(3 # 2); 9 # 4; -(9 # 4); 3] = [2; 4; 0; -2; 2; -2; 3]%Z.
Proof. vm_compute. reflexivity. Qed.

(* dims: sorted, duplicates removed; a coefficient 0 still counts (the tracking is syntactic) *)
Example dims_example : dims (Lnk [1; 0] 0 [Lnk [2] 1 [PixT 2]; PixT 0]) = [0; 2]%nat.
Proof. reflexivity. Qed.

(* a reference cube with sheared world coordinates (world_x = x + 2 z, world_y = y, world_z = z) and an image linked through
   world x, y: the x position of the image depends on z, the reported dimensions [0; 2] say so, the scalar z bound is NOT
   wild-carded, and stepping through z under one cache id gives a different plane each time *)
Definition cube : dataset := mkData [3; 2; 2]%nat [[0; 1; 2; 3; 4; 5; 6; 7; 8; 9; 10; 11]%Z] [].
Definition img : dataset := mkData [2; 6]%nat [[100; 101; 102; 103; 104; 105; 106; 107; 108; 109; 110; 111]%Z] [].
Definition W1 : world :=
  mkWorld [cube; img]
          [(1%nat, 0%nat, [Some (Lnk [1] 0 [Lnk [1] 0 [WorldT [(1%nat, 1)] 0 [1%nat]]]);
                           Some (Lnk [1] 0 [Lnk [1] 0 [WorldT [(2%nat, 1); (0%nat, 2)] 0 [0%nat; 2%nat]]])])].
Definition zreq (z : Q) : request := mkReq 1 0 [BScalar z; BRange 0 1 2; BRange 0 1 2] (WAttr 0) true (Some 3%nat).
Example W1_wf : wf_world W1.
Proof. apply wf_worldb_sound. reflexivity. Qed.
Example sheared_planes :
  run_cached W1 empty_state [zreq 0; zreq 1; zreq 2] =
  [OkArr [2; 2]%nat [Some 100; Some 101; Some 106; Some 107]%Z;
   OkArr [2; 2]%nat [Some 102; Some 103; Some 108; Some 109]%Z;
   OkArr [2; 2]%nat [Some 104; Some 105; Some 110; Some 111]%Z].
Proof. vm_compute. reflexivity. Qed.
(* with dimensions that miss the sheared axis the hypothesis of the theorems fails (and the cached run does go wrong) *)
Definition W1_bad : world :=
  mkWorld [cube; img]
          [(1%nat, 0%nat, [Some (Lnk [1] 0 [Lnk [1] 0 [WorldT [(1%nat, 1)] 0 [1%nat]]]);
                           Some (Lnk [1] 0 [Lnk [1] 0 [WorldT [(2%nat, 1); (0%nat, 2)] 0 [2%nat]]])])].
Example bad_dims_rejected : wf_worldb W1_bad = false.
Proof. reflexivity. Qed.
Example bad_dims_stale : run_cached W1_bad empty_state [zreq 0; zreq 1] <> map (frb W1_bad) [zreq 0; zreq 1].
Proof. vm_compute. discriminate. Qed.

(* a link that is only defined for reference x >= 1 (a logarithmic axis): samples at x = -1, 0 hold NaN / not selected,
   although index 0 would be inside the source *)
Definition W2 : world :=
  mkWorld [mkData [4]%nat [[0; 0; 0; 0]%Z] []; mkData [3]%nat [[7; 8; 9]%Z] [[true; true; false]]]
          [(1%nat, 0%nat, [Some (Lnk [1] (-1) [Guard 1 (PixT 0)])])].
Example partial_link_values :
  frb W2 (mkReq 1 0 [BRange (-1) 3 5] (WAttr 0) true None) = OkArr [5]%nat [None; None; Some 7; Some 8; Some 9]%Z.
Proof. vm_compute. reflexivity. Qed.
Example partial_link_mask :
  frb W2 (mkReq 1 0 [BRange (-1) 3 5] (WMask 0) true None) = OkArr [5]%nat [Some 0; Some 0; Some 1; Some 1; Some 0]%Z.
Proof. vm_compute. reflexivity. Qed.

Eval vm_compute in (run_cached W0 empty_state [req 0 (WAttr 0); req 1 (WAttr 0); req 1 (WMask 0)]).

(* ---------- round 4: the caller's objects ---------- *)
(* the caller keeps ONE bounds list for the cube W0 and updates it in place (slice 0 -> slice 1, then the y range) *)
Definition H0 : heap := mkHeap (fun _ => [BScalar 0; BRange 0 2 3; BRange 0 1 2]) (fun a => a).
Definition hreq0 : hrequest := mkHReq 1 0 0 (HAttr 0) true (Some 7%nat).
Definition hist0 : list hop :=
  [HReq hreq0; HSetBound 0 0 (BScalar 1); HReq hreq0; HSetBound 0 1 (BRange 1 2 2); HReq hreq0].
(* the hypotheses of glue_keys_transparent are met by a history that really changes the list in place and really hits the cache *)
Example hist0_no_state_change : no_state_change hist0.
Proof. intros o [Ho|[Ho|[Ho|[Ho|[Ho|[]]]]]]; subst o; simpl; intros F; exact F. Qed.
Example hist0_results :
  run_hist glue_policy W0 H0 empty_hstate hist0 =
  [OkArr [3; 2]%nat [None; Some 11; None; Some 13; None; Some 15]%Z;
   OkArr [3; 2]%nat [None; Some 11; None; Some 13; None; Some 15]%Z;
   OkArr [2; 2]%nat [None; Some 13; None; Some 15]%Z].
Proof. vm_compute. reflexivity. Qed.
Example hist0_transparent : run_hist glue_policy W0 H0 empty_hstate hist0 = plain_hist W0 H0 hist0.
Proof. apply glue_keys_transparent; [exact W0_wf|intros a a' E; exact E|exact hist0_no_state_change]. Qed.
(* the stored key is a private list: after the first request it still says "slice: any scalar, y: 0..2" whatever the caller's list holds *)
Example stored_key_is_a_value :
  match fst (snd (hstep glue_policy W0 H0 empty_hstate hreq0) 7%nat) with
  | Some a => ha_key a = KVal [CAny; CB (BRange 0 2 3); CB (BRange 0 1 2)]
  | None => False
  end.
Proof. vm_compute. reflexivity. Qed.
(* with ranged bounds only, "return the bounds as they are" stores the caller's list, and the third result is stale *)
Definition H0r : heap := mkHeap (fun _ => [BRange 0 0 1; BRange 0 2 3; BRange 0 1 2]) (fun a => a).
Definition hist0r : list hop := [HReq hreq0; HSetBound 0 1 (BRange 1 2 2); HReq hreq0].
Example returned_list_is_a_reference :
  match fst (snd (hstep return_bounds_policy W0 H0r empty_hstate hreq0) 7%nat) with Some a => ha_key a = KRef 0 | None => False end.
Proof. vm_compute. reflexivity. Qed.
Example returned_list_goes_stale :
  nth 1 (run_hist return_bounds_policy W0 H0r empty_hstate hist0r) (Err 0) = OkArr [1; 3; 2]%nat [None; Some 11; None; Some 13; None; Some 15]%Z /\
  nth 1 (plain_hist W0 H0r hist0r) (Err 0) = OkArr [1; 2; 2]%nat [None; Some 13; None; Some 15]%Z.
Proof. split; vm_compute; reflexivity. Qed.
