(* C16 - rounding to the nearest pixel; the `dimensions` of a translated coordinate are sound *)
From Coq Require Import ZArith QArith Qround Qabs Lqa List Bool Lia.
Import ListNotations.
From GV Require Import Common.Wire C16.Model.
Open Scope Q_scope.

(* ---------- round half to even is a nearest integer, and the only one away from halves ---------- *)
Lemma floor_bounds : forall q, inject_Z (Qfloor q) <= q /\ q < inject_Z (Qfloor q) + 1.
Proof.
  intros q. split; [apply Qfloor_le|].
  pose proof (Qlt_floor q) as H. rewrite inject_Z_plus in H. exact H.
Qed.

Lemma round_cases : forall q,
  let f := Qfloor q in
  (q - inject_Z f < 1 # 2 /\ round_half_even q = f) \/
  (1 # 2 < q - inject_Z f /\ round_half_even q = (f + 1)%Z) \/
  (q - inject_Z f == 1 # 2 /\ (round_half_even q = f \/ round_half_even q = (f + 1)%Z)).
Proof.
  intros q f. unfold round_half_even. fold f.
  destruct (Qcompare (q - inject_Z f) (1 # 2)) eqn:E.
  - right; right. split; [apply Qeq_alt; exact E|]. destruct (Z.even f); auto.
  - left. split; [apply Qlt_alt; exact E|reflexivity].
  - right; left. split; [apply Qgt_alt; exact E|reflexivity].
Qed.

Lemma round_nearest : forall q, Qabs (inject_Z (round_half_even q) - q) <= 1 # 2.
Proof.
  intros q. destruct (floor_bounds q) as [H1 H2].
  apply Qabs_Qle_condition.
  destruct (round_cases q) as [[H R]|[[H R]|[H [R|R]]]]; rewrite R; try rewrite inject_Z_plus;
    change (inject_Z 1) with 1; split; lra.
Qed.

Lemma round_unique : forall q k, Qabs (inject_Z k - q) < 1 # 2 -> round_half_even q = k.
Proof.
  intros q k H.
  assert (Hk : - (1 # 2) < inject_Z k - q /\ inject_Z k - q < 1 # 2).
  { apply Qabs_Qlt_condition. exact H. }
  destruct Hk as [Hk1 Hk2].
  destruct (floor_bounds q) as [H1 H2].
  set (f := Qfloor q) in *.
  assert (Hf1 : (f < k + 1)%Z).
  { rewrite Zlt_Qlt. rewrite inject_Z_plus. change (inject_Z 1) with 1. lra. }
  assert (Hf2 : (k < f + 2)%Z).
  { rewrite Zlt_Qlt. rewrite inject_Z_plus. change (inject_Z 2) with 2. lra. }
  assert (Hc : f = k \/ f = (k - 1)%Z) by lia.
  assert (Hcase : (f = k /\ inject_Z k == inject_Z f) \/ ((f + 1)%Z = k /\ inject_Z k == inject_Z f + 1)).
  { destruct Hc as [Hc|Hc]; [left|right]; split; try lia.
    - rewrite Hc. reflexivity.
    - replace k with (f + 1)%Z by lia. rewrite inject_Z_plus. reflexivity. }
  destruct (round_cases q) as [[Hr R]|[[Hr R]|[Hr [R|R]]]]; fold f in Hr, R; rewrite R;
    destruct Hcase as [[Hz Hq]|[Hz Hq]]; try exact Hz; exfalso; change (inject_Z 1) with 1 in Hq; lra.
Qed.

(* ---------- an induction principle for link expressions ---------- *)
Fixpoint pexpr_rect' (P : pexpr -> Prop)
         (HP : forall j, P (PixT j))
         (HL : forall c k args, Forall P args -> P (Lnk c k args))
         (HW : forall terms k ds, P (WorldT terms k ds))
         (HG : forall c a, P a -> P (Guard c a)) (e : pexpr) : P e :=
  match e with
  | PixT j => HP j
  | Lnk c k args =>
    HL c k args ((fix go (l : list pexpr) : Forall P l :=
                    match l with
                    | [] => Forall_nil P
                    | a :: r => Forall_cons a (pexpr_rect' P HP HL HW HG a) (go r)
                    end) args)
  | WorldT terms k ds => HW terms k ds
  | Guard c a => HG c a (pexpr_rect' P HP HL HW HG a)
  end.

Lemma insert_sorted_In : forall x y l, In y (insert_sorted x l) <-> y = x \/ In y l.
Proof.
  intros x y l; induction l as [|a l IH]; simpl.
  - split; intros [H|H]; auto; contradiction.
  - destruct (x <? a)%nat eqn:E1.
    + simpl. split; intros [H|H]; auto.
    + destruct (x =? a)%nat eqn:E2.
      * apply Nat.eqb_eq in E2. subst a. simpl. split; intros H; [right; exact H|]. destruct H as [H|H]; [left; auto|exact H].
      * simpl. rewrite IH. split; intros H; intuition.
Qed.

Lemma sort_set_In : forall y l, In y (sort_set l) <-> In y l.
Proof.
  intros y l; induction l as [|a l IH]; simpl; [reflexivity|].
  unfold sort_set in *. simpl. rewrite insert_sorted_In. rewrite IH. split; intros [H|H]; auto.
Qed.

Lemma memn_In : forall i l, memn i l = true <-> In i l.
Proof.
  intros i l. unfold memn. rewrite existsb_exists. split.
  - intros [x [Hx E]]. apply Nat.eqb_eq in E. subst x. exact Hx.
  - intros H. exists i. split; [exact H|apply Nat.eqb_refl].
Qed.

(* dims_sound: the translated coordinate (a number, or undefined) only depends on the reference axes listed in its `dimensions`,
   provided the dimensions reported for world coordinates cover the pixel axes they are computed from *)
Lemma dims_sound : forall e pos pos', wf_exprb e = true ->
  (forall j, In j (dims e) -> pos j = pos' j) -> eval e pos = eval e pos'.
Proof.
  intros e. induction e as [j|c k args IH|terms k ds|c a IH] using pexpr_rect'; intros pos pos' Hwf H.
  - simpl. f_equal. apply H. simpl. auto.
  - simpl.
    assert (E : map (fun a => eval a pos) args = map (fun a => eval a pos') args).
    { simpl in H, Hwf.
      assert (H' : forall j, In j (flat_map (fun a => dims a) args) -> pos j = pos' j).
      { intros j Hj. apply H. apply sort_set_In. exact Hj. }
      clear H. induction args as [|a args IHa]; [reflexivity|].
      simpl in Hwf. apply andb_true_iff in Hwf. destruct Hwf as [Hw1 Hw2].
      simpl. inversion IH as [|? ? Ha Hargs]; subst. f_equal.
      - apply Ha; [exact Hw1|]. intros j Hj. apply H'. simpl. apply in_or_app. left. exact Hj.
      - apply IHa; [exact Hargs|exact Hw2|]. intros j Hj. apply H'. simpl. apply in_or_app. right. exact Hj. }
    rewrite E. reflexivity.
  - simpl. f_equal. simpl in H, Hwf. rewrite forallb_forall in Hwf.
    induction terms as [|[j q] terms IHt]; [reflexivity|].
    simpl. rewrite IHt by (intros x Hx; apply Hwf; right; exact Hx).
    rewrite (H j); [reflexivity|]. apply memn_In. apply (Hwf (j, q)). left. reflexivity.
  - simpl. simpl in H, Hwf. rewrite (IH pos pos' Hwf H). reflexivity.
Qed.

(* ---------- bounds that match a cached key ---------- *)
Lemma q_eqb_eq : forall a b, q_eqb a b = true -> a = b.
Proof.
  intros [an ad] [bn bd]; unfold q_eqb; simpl. intros H. apply andb_true_iff in H. destruct H as [H1 H2].
  apply Z.eqb_eq in H1. apply Pos.eqb_eq in H2. subst. reflexivity.
Qed.

Lemma q_eqb_refl : forall a, q_eqb a a = true.
Proof. intros [an ad]; unfold q_eqb; simpl. rewrite Z.eqb_refl, Pos.eqb_refl. reflexivity. Qed.

Lemma bound_eqb_eq : forall a b, bound_eqb a b = true -> a = b.
Proof.
  intros [v|lo hi n] [v'|lo' hi' n']; simpl; intros H; try discriminate.
  - apply q_eqb_eq in H. subst. reflexivity.
  - apply andb_true_iff in H. destruct H as [H H3]. apply andb_true_iff in H. destruct H as [H1 H2].
    apply q_eqb_eq in H1. apply q_eqb_eq in H2. apply Z.eqb_eq in H3. subst. reflexivity.
Qed.

Lemma bound_eqb_refl : forall a, bound_eqb a a = true.
Proof. intros [v|lo hi n]; simpl; rewrite ?q_eqb_refl, ?Z.eqb_refl; reflexivity. Qed.

(* bs' is like bs except for scalars on axes outside D, which may be any scalar *)
Definition like_except (D : list nat) (bs bs' : list bound) : Prop :=
  length bs' = length bs /\
  forall i, (i < length bs)%nat ->
    (nth i bs' (BScalar 0) = nth i bs (BScalar 0)) \/
    (~ In i D /\ is_scalar (nth i bs (BScalar 0)) = true /\ is_scalar (nth i bs' (BScalar 0)) = true).

Lemma bfc_match : forall bs bs' D k, cbs_match (bfc_from k bs D) bs' = true ->
  length bs' = length bs /\
  forall i, (i < length bs)%nat ->
    (nth i bs' (BScalar 0) = nth i bs (BScalar 0)) \/
    (~ In (k + i)%nat D /\ is_scalar (nth i bs (BScalar 0)) = true /\ is_scalar (nth i bs' (BScalar 0)) = true).
Proof.
  induction bs as [|b bs IH]; intros bs' D k H; destruct bs' as [|b' bs']; simpl in H; try discriminate.
  - split; [reflexivity|]. intros i Hi; simpl in Hi; lia.
  - apply andb_true_iff in H. destruct H as [H1 H2].
    destruct (IH bs' D (S k) H2) as [Hl Hr].
    split; [simpl; lia|].
    intros i Hi. destruct i as [|i].
    + simpl. rewrite Nat.add_0_r.
      destruct (negb (memn k D) && is_scalar b) eqn:E.
      * right. apply andb_true_iff in E. destruct E as [E1 E2]. simpl in H1.
        split; [|split; assumption].
        intros Hin. apply memn_In in Hin. rewrite Hin in E1. discriminate.
      * left. simpl in H1. apply bound_eqb_eq in H1. symmetry. exact H1.
    + simpl in Hi. simpl. replace (k + S i)%nat with (S k + i)%nat by lia. apply Hr. lia.
Qed.

Lemma match_like_except : forall bs bs' D,
  cbs_match (bounds_for_cache bs D) bs' = true -> like_except D bs bs'.
Proof.
  intros bs bs' D H. unfold bounds_for_cache in H. apply bfc_match in H. destruct H as [Hl Hr].
  split; [exact Hl|]. intros i Hi. specialize (Hr i Hi). simpl in Hr. exact Hr.
Qed.

Lemma bfc_self : forall bs D k, cbs_match (bfc_from k bs D) bs = true.
Proof.
  induction bs as [|b bs IH]; intros D k; simpl; [reflexivity|].
  rewrite IH. rewrite andb_true_r.
  destruct (negb (memn k D) && is_scalar b) eqn:E; simpl.
  - apply andb_true_iff in E. tauto.
  - apply bound_eqb_refl.
Qed.

Lemma like_except_mono : forall D D' bs bs', (forall j, In j D' -> In j D) -> like_except D bs bs' -> like_except D' bs bs'.
Proof.
  intros D D' bs bs' Hsub [Hl H]. split; [exact Hl|]. intros i Hi.
  destruct (H i Hi) as [E|[Hn [S1 S2]]]; [left; exact E|right]. split; [|split; assumption].
  intros Hin. apply Hn. apply Hsub. exact Hin.
Qed.

Lemma coords_scalar_len : forall b, is_scalar b = true -> length (coords_of b) = 1%nat.
Proof. intros [v|lo hi n] H; [reflexivity|discriminate]. Qed.

Lemma like_except_grid : forall D bs bs', like_except D bs bs' -> grid_shape bs' = grid_shape bs.
Proof.
  intros D bs bs' [Hl H]. unfold grid_shape.
  apply (nth_ext _ _ 0%nat 0%nat); [rewrite !map_length; exact Hl|].
  intros i Hi. rewrite map_length in Hi.
  rewrite (nth_indep _ 0%nat (length (coords_of (BScalar 0)))) by (rewrite map_length; exact Hi).
  rewrite (nth_indep (map _ bs) 0%nat (length (coords_of (BScalar 0)))) by (rewrite map_length; lia).
  rewrite !(map_nth (fun b => length (coords_of b))).
  destruct (H i ltac:(lia)) as [E|[_ [S1 S2]]].
  - rewrite E. reflexivity.
  - rewrite !coords_scalar_len by assumption. reflexivity.
Qed.

Lemma like_except_pos : forall D bs bs' g j, like_except D bs bs' -> In j D -> pos_at bs' g j = pos_at bs g j.
Proof.
  intros D bs bs' g j [Hl H] Hj. unfold pos_at.
  destruct (Nat.lt_ge_cases j (length bs)) as [Hlt|Hge].
  - destruct (H j Hlt) as [E|[Hn _]]; [rewrite E; reflexivity|contradiction].
  - rewrite (nth_overflow bs') by lia. rewrite (nth_overflow bs) by lia. reflexivity.
Qed.

(* dims_sound lifted to bounds: requests that match a PIXEL_CACHE key give the cached coordinate *)
Lemma axis_result_like : forall e size D bs bs', wf_exprb e = true ->
  like_except D bs bs' -> (forall j, In j (dims e) -> In j D) -> axis_result e size bs' = axis_result e size bs.
Proof.
  intros e size D bs bs' Hwf HL Hd. unfold axis_result.
  rewrite (like_except_grid D bs bs' HL).
  assert (E : map (fun g => option_map round_half_even (eval e (pos_at bs' g))) (all_indices (grid_shape bs)) =
              map (fun g => option_map round_half_even (eval e (pos_at bs g))) (all_indices (grid_shape bs))).
  { apply map_ext. intros g. f_equal. apply dims_sound; [exact Hwf|]. intros j Hj. apply (like_except_pos D); [exact HL|]. apply Hd. exact Hj. }
  rewrite E. reflexivity.
Qed.

Lemma like_except_scalar : forall D bs bs' i, like_except D bs bs' ->
  is_scalar (nth i bs' (BScalar 0)) = is_scalar (nth i bs (BScalar 0)).
Proof.
  intros D bs bs' i [Hl H]. destruct (Nat.lt_ge_cases i (length bs)) as [Hlt|Hge].
  - destruct (H i Hlt) as [E|[_ [S1 S2]]]; [rewrite E; reflexivity|rewrite S1, S2; reflexivity].
  - rewrite !nth_overflow by lia. reflexivity.
Qed.

Lemma oshape_same : forall bs bs', length bs' = length bs ->
  (forall i, (i < length bs)%nat ->
     nth i bs' (BScalar 0) = nth i bs (BScalar 0) \/
     (is_scalar (nth i bs (BScalar 0)) = true /\ is_scalar (nth i bs' (BScalar 0)) = true)) ->
  oshape bs' = oshape bs.
Proof.
  unfold oshape.
  induction bs as [|b bs IH]; intros bs' Hl H; destruct bs' as [|b' bs']; simpl in Hl; try discriminate; [reflexivity|].
  assert (IH' : map (fun b0 => length (coords_of b0)) (filter (fun b0 => negb (is_scalar b0)) bs') =
                map (fun b0 => length (coords_of b0)) (filter (fun b0 => negb (is_scalar b0)) bs)).
  { apply IH; [lia|]. intros i Hi. specialize (H (S i)). simpl in H. apply H. lia. }
  specialize (H 0%nat). simpl in H. destruct (H ltac:(lia)) as [E|[S1 S2]].
  - subst b'. simpl. destruct (is_scalar b); simpl; rewrite ?IH'; reflexivity.
  - simpl. rewrite S1, S2. simpl. exact IH'.
Qed.

Lemma like_except_oshape : forall D bs bs', like_except D bs bs' -> oshape bs' = oshape bs.
Proof.
  intros D bs bs' [Hl H]. apply oshape_same; [exact Hl|].
  intros i Hi. destruct (H i Hi) as [E|[_ [S1 S2]]]; [left; exact E|right; split; assumption].
Qed.

Lemma dims_sound_bounds : forall e size bs bs', wf_exprb e = true ->
  cbs_match (bounds_for_cache bs (dims e)) bs' = true -> axis_result e size bs' = axis_result e size bs.
Proof.
  intros e size bs bs' Hwf H. apply (axis_result_like e size (dims e)); [exact Hwf|apply match_like_except; exact H|auto].
Qed.
