From Coq Require Import ZArith QArith Qabs List Bool.
Import ListNotations.
From GV Require Import Common.Wire C16.Model C16.Lemmas gen.Gen_frbcache C16.Lemmas2.
Open Scope Q_scope.

(* np.round (half to even) returns an integer within 1/2 of its argument ... *)
Theorem round_nearest : forall q, Qabs (inject_Z (round_half_even q) - q) <= 1 # 2.
Proof. exact Lemmas1.round_nearest. Qed.
Print Assumptions round_nearest.

(* ... and THE nearest integer whenever the argument is not exactly at a half. *)
Theorem round_unique : forall q k, Qabs (inject_Z k - q) < 1 # 2 -> round_half_even q = k.
Proof. exact Lemmas1.round_unique. Qed.
Print Assumptions round_unique.

(* frb_nearest: whenever a buffer is returned, it has the shape of the ranged bounds and each sample p holds the source
   value at the index idx with |idx_i - x_i| <= 1/2 on every source axis (x_i = the linked position of the sample;
   idx_i is the unique such integer when x_i is not at a half), or the fill value (NaN / False) iff that index is
   outside the source or the linked position is not a finite number on some axis (idx_i = None). *)
Theorem frb_nearest : forall W s t w bc bs sh vals,
  frb_core W s t w bc bs = OkArr sh vals ->
  sh = oshape bs /\ length vals = length (all_indices (grid_shape bs)) /\
  forall p, (p < length (all_indices (grid_shape bs)))%nat ->
    let g := nth p (all_indices (grid_shape bs)) [] in
    let d := get_data W s in
    exists idx : list (option Z),
      length idx = ndim W s /\
      (forall i, (i < ndim W s)%nat ->
         exists e, nth_error (get_links W s t) i = Some (Some e) /\
                   match eval e (pos_at bs g) with
                   | Some x => exists k, nth i idx None = Some k /\
                                         Qabs (inject_Z k - x) <= 1 # 2 /\
                                         (forall k', Qabs (inject_Z k' - x) < 1 # 2 -> k = k')
                   | None => nth i idx None = None
                   end) /\
      nth p vals None =
        (if forallb (fun i => inrange_o (nth i idx None) (nth i (dshape d) 0%nat)) (seq 0 (ndim W s))
         then nth (flat_index (dshape d) (map to_nat_o idx)) (src_vals d w) (fill w)
         else fill w).
Proof. exact Lemmas.frb_nearest. Qed.
Print Assumptions frb_nearest.

(* In particular a sample whose linked position is NaN / infinite on some source axis holds NaN / 'not selected'. *)
Theorem undefined_position_is_fill : forall W s t w bc bs sh vals p i e,
  frb_core W s t w bc bs = OkArr sh vals ->
  (p < length (all_indices (grid_shape bs)))%nat -> (i < ndim W s)%nat ->
  nth_error (get_links W s t) i = Some (Some e) ->
  eval e (pos_at bs (nth p (all_indices (grid_shape bs)) [])) = None ->
  nth p vals None = fill w.
Proof. exact Lemmas.undefined_position_is_fill. Qed.
Print Assumptions undefined_position_is_fill.

(* dims_sound: a translated coordinate (a number or undefined) depends on the reference position only through the axes
   listed in its `dimensions` (as tracked by translate_pixel), provided the dimensions reported for a world coordinate
   of the reference contain the pixel axes it is computed from (wf_exprb; for glue: C15.dependent_axes_covers_forward) ... *)
Theorem dims_sound : forall e pos pos', wf_exprb e = true ->
  (forall j, In j (dims e) -> pos j = pos' j) -> eval e pos = eval e pos'.
Proof. exact Lemmas1.dims_sound. Qed.
Print Assumptions dims_sound.

(* ... hence bounds that match a PIXEL_CACHE key built with the wildcard (any scalar on a scalar-bound axis outside
   the dimensions, everything else equal) give exactly the cached rounded coordinate, validity mask and dimensions. *)
Theorem dims_sound_bounds : forall e size bs bs', wf_exprb e = true ->
  cbs_match (bounds_for_cache bs (dims e)) bs' = true -> axis_result e size bs' = axis_result e size bs.
Proof. exact Lemmas1.dims_sound_bounds. Qed.
Print Assumptions dims_sound_bounds.

(* The invariant behind the cache: one request keeps "every entry equals the uncached value for every request its
   wildcard key matches", and returns what the uncached function returns. *)
Theorem cache_step_sound : forall W, wf_world W ->
  forall st r, Inv W st -> fst (step W st r) = frb W r /\ Inv W (snd (step W st r)).
Proof. exact Lemmas.step_sound. Qed.
Print Assumptions cache_step_sound.

(* cache_transparent: for every world (datasets, links), every sequence of requests (any bounds, attribute or
   selection, datasets, broadcast flag, cache ids or none), the run with ARRAY_CACHE / PIXEL_CACHE returns for each
   request what compute_fixed_resolution_buffer returns without cache_id. *)
Theorem cache_transparent : forall W, wf_world W -> forall reqs, run_cached W empty_state reqs = map (frb W) reqs.
Proof. exact Lemmas.cache_transparent. Qed.
Print Assumptions cache_transparent.

(* ---- round 4: the caller's objects.  A history interleaves in-place changes of the caller's bounds lists and subset-state
   objects with requests that pass those objects (Model.hop); run_hist P is compute_fixed_resolution_buffer with its caches
   under the key policy P (which parts of a key are private values, which are the caller's objects read again at every
   comparison), plain_hist is the function without cache_id on what the objects contain when each call is made. ---- *)

(* snapshot_keys_transparent: if every part of a key is stored by value (a snapshot taken when the entry is stored), the cache is
   transparent under EVERY interleaving of in-place changes (bounds[i] = ..., bounds[:] = ..., state changed in place) and requests. *)
Theorem snapshot_keys_transparent : forall P, by_value_bounds P -> pol_sref P = false ->
  forall W, wf_world W -> forall H h, run_hist P W H empty_hstate h = plain_hist W H h.
Proof. exact Lemmas2.snapshot_keys_transparent. Qed.
Print Assumptions snapshot_keys_transparent.

(* glue_keys_transparent (the partial statement that holds for the code as it is: bounds_for_cache builds a new list, the
   subset state is kept as the object and compared by identity): transparent under every interleaving of in-place changes of the
   bounds lists and requests, as long as no subset-state object is changed in place.  (injective: distinct state objects are
   distinct mask slots of the world; slots may hold equal masks.)
   Full statement, refuted below:  forall W H h, wf_world W -> run_hist glue_policy W H empty_hstate h = plain_hist W H h. *)
Theorem glue_keys_transparent : forall W, wf_world W -> forall H h, injective (hs H) -> no_state_change h ->
  run_hist glue_policy W H empty_hstate h = plain_hist W H h.
Proof. exact Lemmas2.glue_keys_transparent. Qed.
Print Assumptions glue_keys_transparent.

(* state_object_key_refuted (known finding subset-state-changed-in-place): with the subset state kept as the object, a state
   changed in place between two mask requests under one cache id gets the mask of its earlier content. *)
Theorem state_object_key_refuted : exists W H h, wf_world W /\ injective (hs H) /\
  run_hist glue_policy W H empty_hstate h <> plain_hist W H h.
Proof. exact Lemmas2.state_object_key_refuted. Qed.
Print Assumptions state_object_key_refuted.

(* caller_list_key_refuted: why the bounds key must be a snapshot - an implementation that keeps the caller's list itself when all
   bounds are ranges (return_bounds_policy) is not transparent, even when no subset state is ever changed. *)
Theorem caller_list_key_refuted : exists W H h, wf_world W /\ no_state_change h /\ injective (hs H) /\
  run_hist return_bounds_policy W H empty_hstate h <> plain_hist W H h.
Proof. exact Lemmas2.caller_list_key_refuted. Qed.
Print Assumptions caller_list_key_refuted.

From Coq Require Import String.
(* key_functions_translated: bounds_for_cache and AnyScalar.__eq__ AS TRANSLATED FROM THE CURRENT SOURCE (coq/gen/Gen_frbcache.v,
   regenerated on every run) are the model's key function under glue_policy - for every argument a private list (KVal, never the
   caller's object) with the wildcard exactly on the scalar bounds outside the dimensions - and the model's wildcard equality. *)
Theorem key_functions_translated :
  (forall a bs D, bounds_for_cache_gen a bs D = mk_bkey glue_policy a bs D) /\
  (forall b, any_scalar_eq_gen b = cb_match CAny b).
Proof. exact Lemmas2.key_functions_translated. Qed.
Print Assumptions key_functions_translated.

(* key_layout_translated: the components of the ARRAY_CACHE / PIXEL_CACHE keys in the current source are the ones the model keys on
   (data, bounds -> bounds_for_cache(bounds, all dimensions), target_data, target_cid.uuid | subset_state, broadcast; (data, target_data);
   per-axis entries bounds_for_cache(bounds, dimensions)). *)
Theorem key_layout_translated :
  array_key_attr_gen = ["data"; "bounds"; "target_data"; "target_cid.uuid"; "broadcast"]%string /\
  array_key_state_gen = ["data"; "bounds"; "target_data"; "subset_state"; "broadcast"]%string /\
  pixel_key_gen = ["data"; "target_data"]%string /\
  array_key_replaced_gen = (1%nat, "cache_bounds"%string) /\
  key_bounds_calls_gen = [("bounds", "dimensions"); ("bounds", "dimensions_all")]%string.
Proof. exact Lemmas2.key_layout_translated. Qed.
Print Assumptions key_layout_translated.
