From Coq Require Import ZArith QArith ExtrOcamlBasic.
From GV Require Import Common.Wire C16.Model.
Extraction "c16_model.ml" run_case Z.add Z.mul Z.div_eucl Z.opp.
