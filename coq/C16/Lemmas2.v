(* C16, round 4 - the caller's objects: cache keys stored as values (snapshots) or as references.
   With keys stored by value the cache is transparent under every interleaving of in-place changes of the caller's
   objects and requests; with a key that is the caller's own object it is not. *)
From Coq Require Import ZArith QArith List Bool Lia String.
Import ListNotations.
From GV Require Import Common.Wire C16.Model C16.Lemmas gen.Gen_frbcache.

(* the bounds part of every key is a private value *)
Definition by_value_bounds (P : policy) : Prop := forall bs, pol_bref P bs = false.
Definition injective (f : nat -> nat) : Prop := forall a a', f a = f a' -> a = a'.
Definition is_state_change (o : hop) : Prop := match o with HSetState _ _ => True | _ => False end.
Definition no_state_change (h : list hop) : Prop := forall o, In o h -> ~ is_state_change o.

(* ---------- the object-level cache state against the value-level cache state of Model.step ---------- *)
Definition wkey_rel (sref : bool) (f : nat -> nat) (k : wkey) (w : what) : Prop :=
  match k with WKVal w0 => w0 = w | WKRef a => sref = true /\ w = WMask (f a) end.

Definition rel_a (sref : bool) (f : nat -> nat) (x : option haentry) (y : option aentry) : Prop :=
  match x, y with
  | None, None => True
  | Some ha, Some a =>
    ha_key ha = KVal (a_cbs a) /\ wkey_rel sref f (ha_w ha) (a_w a) /\ ha_s ha = a_s a /\ ha_t ha = a_t a /\
    ha_bc ha = a_bc a /\ ha_shape ha = a_shape a /\ ha_vals ha = a_vals a
  | _, _ => False
  end.

Definition lift_item (it : nat * (triple * list cbound)) : nat * (triple * bkey) :=
  (fst it, (fst (snd it), KVal (snd (snd it)))).

Definition rel_p (x : option hpentry) (y : option pentry) : Prop :=
  match x, y with
  | None, None => True
  | Some hp, Some p => hp_s hp = p_s p /\ hp_t hp = p_t p /\ hp_items hp = map lift_item (p_items p)
  | _, _ => False
  end.

Definition Rel (sref : bool) (f : nat -> nat) (hst : hcstate) (st : cstate) : Prop :=
  forall cid, rel_a sref f (fst (hst cid)) (fst (st cid)) /\ rel_p (snd (hst cid)) (snd (st cid)).

Lemma Rel_empty : forall sref f, Rel sref f empty_hstate empty_state.
Proof. intros sref f cid. simpl. split; exact I. Qed.

Lemma eqb_inj : forall f a a', injective f -> Nat.eqb a a' = Nat.eqb (f a) (f a').
Proof.
  intros f a a' Hi. destruct (Nat.eqb a a') eqn:E1.
  - apply Nat.eqb_eq in E1. subst. symmetry. apply Nat.eqb_refl.
  - destruct (Nat.eqb (f a) (f a')) eqn:E2; [|reflexivity].
    apply Nat.eqb_eq in E2. apply Hi in E2. subst. rewrite Nat.eqb_refl in E1. discriminate.
Qed.

Lemma wkey_match_rel : forall sref H k w0 w, (sref = true -> injective (hs H)) ->
  wkey_rel sref (hs H) k w0 -> wkey_match H k w = what_eqb w0 (resolve_what H w).
Proof.
  intros sref H k w0 w Hinj HR. destruct k as [w1|a]; simpl in *.
  - subst. reflexivity.
  - destruct HR as [Hs Hw]. subst w0. destruct w as [|k|a'|k a']; simpl; try reflexivity.
    apply eqb_inj. apply Hinj. exact Hs.
Qed.

Lemma harray_hit_rel : forall sref H hae ae s t w bc bs, (sref = true -> injective (hs H)) ->
  rel_a sref (hs H) hae ae -> harray_hit H hae s t w bc bs = array_hit ae s t (resolve_what H w) bc bs.
Proof.
  intros sref H [ha|] [a|] s t w bc bs Hinj HR; simpl in HR; try contradiction; [|reflexivity].
  destruct HR as [Hk [Hw [Hs [Ht [Hb [Hsh Hv]]]]]]. unfold harray_hit, array_hit.
  rewrite Hk, Hs, Ht, Hb, Hsh, Hv. simpl. rewrite (wkey_match_rel sref H _ _ w Hinj Hw). reflexivity.
Qed.

Lemma hlookup_lift : forall i items,
  hlookup_item i (map lift_item items) =
  match lookup_item i items with Some x => Some (fst x, KVal (snd x)) | None => None end.
Proof.
  intros i items. unfold hlookup_item, lookup_item. induction items as [|it items IH]; simpl; [reflexivity|].
  destruct (Nat.eqb (fst it) i); simpl; [reflexivity|exact IH].
Qed.

Lemma hpixel_hit_rel : forall H hpe pe i bs, rel_p hpe pe -> hpixel_hit H hpe i bs = pixel_hit pe i bs.
Proof.
  intros H [hp|] [p|] i bs HR; simpl in HR; try contradiction; [|reflexivity].
  destruct HR as [_ [_ Hi]]. unfold hpixel_hit, pixel_hit. rewrite Hi, hlookup_lift.
  destruct (lookup_item i (p_items p)) as [[tr cbs]|]; simpl; reflexivity.
Qed.

Lemma hpixel_store_rel : forall hpe pe s t i tr cbs, rel_p hpe pe ->
  rel_p (hpixel_store hpe s t i tr (KVal cbs)) (pixel_store pe s t i tr cbs).
Proof.
  intros [hp|] [p|] s t i tr cbs HR; simpl in HR; try contradiction; simpl.
  - destruct HR as [Hs [Ht Hi]]. split; [exact Hs|]. split; [exact Ht|]. rewrite Hi. reflexivity.
  - split; [reflexivity|]. split; reflexivity.
Qed.

Lemma hpix_loop_rel : forall P W H s t a bs, by_value_bounds P ->
  forall ipixs hpe pe acc, rel_p hpe pe ->
  fst (hpix_loop P W H s t a bs ipixs hpe acc) = fst (pix_loop W s t bs ipixs pe acc) /\
  rel_p (snd (hpix_loop P W H s t a bs ipixs hpe acc)) (snd (pix_loop W s t bs ipixs pe acc)).
Proof.
  intros P W H s t a bs HP ipixs; induction ipixs as [|i rest IH]; intros hpe pe acc HR; simpl.
  - split; [reflexivity|exact HR].
  - rewrite (hpixel_hit_rel H hpe pe i bs HR).
    destruct (pixel_hit pe i bs) as [tr|]; [apply IH; exact HR|].
    destruct (axis_of W s t i bs) as [tr|]; [|simpl; split; [reflexivity|exact HR]].
    unfold mk_bkey. rewrite (HP bs). apply IH. apply hpixel_store_rel. exact HR.
Qed.

Lemma Rel_hupd : forall sref f hst st cid hae ae hpe pe, Rel sref f hst st -> rel_a sref f hae ae -> rel_p hpe pe ->
  Rel sref f (hupd hst cid (hae, hpe)) (upd st cid (ae, pe)).
Proof.
  intros sref f hst st cid hae ae hpe pe HR Ha Hp k. unfold hupd, upd.
  destruct (Nat.eqb k cid); simpl; [split; assumption|apply HR].
Qed.

Lemma mk_wkey_rel : forall P H w, wkey_rel (pol_sref P) (hs H) (mk_wkey P H w) (resolve_what H w).
Proof.
  intros P H [|k|a|k a]; simpl; try reflexivity.
  destruct (pol_sref P) eqn:E; simpl; [split; reflexivity|reflexivity].
Qed.

(* one call with the caller's objects = one step of the value-level model on the request as a value *)
Lemma hstep_rel : forall P W H hst st r, by_value_bounds P -> (pol_sref P = true -> injective (hs H)) ->
  Rel (pol_sref P) (hs H) hst st ->
  fst (hstep P W H hst r) = fst (step W st (resolve H r)) /\
  Rel (pol_sref P) (hs H) (snd (hstep P W H hst r)) (snd (step W st (resolve H r))).
Proof.
  intros P W H hst st r HP Hinj HR. unfold hstep, step.
  destruct (prechecks W (resolve H r)) as [e|]; [simpl; split; [reflexivity|exact HR]|].
  simpl rbounds. simpl rcache. simpl rs. simpl rt. simpl rwhat. simpl rbc.
  destruct (hr_cache r) as [cid|]; [|simpl; split; [reflexivity|exact HR]].
  destruct (HR cid) as [Ha Hp].
  rewrite (harray_hit_rel (pol_sref P) H _ _ (hr_s r) (hr_t r) (hr_w r) (hr_bc r) _ Hinj Ha).
  destruct (array_hit (fst (st cid)) (hr_s r) (hr_t r) (resolve_what H (hr_w r)) (hr_bc r) (map norm_bound (hb H (hr_b r)))) as [[sh vals]|];
    [simpl; split; [reflexivity|exact HR]|].
  set (hpe1 := match snd (hst cid) with
               | Some p => if Nat.eqb (hp_s p) (hr_s r) && Nat.eqb (hp_t p) (hr_t r) then Some p else None
               | None => None end).
  set (pe1 := match snd (st cid) with
              | Some p => if Nat.eqb (p_s p) (hr_s r) && Nat.eqb (p_t p) (hr_t r) then Some p else None
              | None => None end).
  assert (Hp1 : rel_p hpe1 pe1).
  { unfold hpe1, pe1. destruct (snd (hst cid)) as [hp|], (snd (st cid)) as [p|]; simpl in Hp; try contradiction; [|exact I].
    destruct Hp as [Hs [Ht Hi]]. rewrite Hs, Ht.
    destruct (Nat.eqb (p_s p) (hr_s r) && Nat.eqb (p_t p) (hr_t r)); simpl; [|exact I].
    split; [exact Hs|]. split; [exact Ht|exact Hi]. }
  destruct (hpix_loop_rel P W H (hr_s r) (hr_t r) (hr_b r) (map norm_bound (hb H (hr_b r))) HP
                          (seq 0 (ndim W (hr_s r))) hpe1 pe1 [] Hp1) as [Hf Hsnd].
  destruct (hpix_loop P W H (hr_s r) (hr_t r) (hr_b r) (map norm_bound (hb H (hr_b r))) (seq 0 (ndim W (hr_s r))) hpe1 [])
    as [hres hpe2].
  destruct (pix_loop W (hr_s r) (hr_t r) (map norm_bound (hb H (hr_b r))) (seq 0 (ndim W (hr_s r))) pe1 []) as [res pe2].
  simpl in Hf, Hsnd. subst hres.
  destruct res as [axes|]; [|simpl; split; [reflexivity|apply Rel_hupd; assumption]].
  destruct (assemble W (hr_s r) (hr_t r) (resolve_what H (hr_w r)) (hr_bc r) (map norm_bound (hb H (hr_b r))) axes) as [sh vals|e];
    [|simpl; split; [reflexivity|apply Rel_hupd; assumption]].
  simpl. split; [reflexivity|]. apply Rel_hupd; [exact HR| |exact Hsnd].
  simpl. unfold mk_bkey. rewrite (HP _). repeat split. apply mk_wkey_rel.
Qed.

Lemma wkey_rel_false : forall f f' k w, wkey_rel false f k w -> wkey_rel false f' k w.
Proof. intros f f' [w0|a] w HR; simpl in *; [exact HR|]. destruct HR as [HF _]. discriminate. Qed.

Lemma Rel_false : forall f f' hst st, Rel false f hst st -> Rel false f' hst st.
Proof.
  intros f f' hst st HR cid. destruct (HR cid) as [Ha Hp]. split; [|exact Hp].
  destruct (fst (hst cid)) as [ha|], (fst (st cid)) as [a|]; simpl in *; try contradiction; [|exact I].
  destruct Ha as [Hk [Hw Hrest]]. split; [exact Hk|]. split; [apply (wkey_rel_false f f'); exact Hw|exact Hrest].
Qed.

Section History.
Variable P : policy.
Variable W : world.
Hypothesis HW : wf_world W.
Hypothesis HP : by_value_bounds P.

Lemma run_hist_sim : forall h H hst st,
  Rel (pol_sref P) (hs H) hst st -> Inv W st ->
  (pol_sref P = true -> injective (hs H) /\ no_state_change h) ->
  run_hist P W H hst h = plain_hist W H h.
Proof.
  induction h as [|o rest IH]; intros H hst st HR HI Hg; [reflexivity|].
  assert (Hrest : forall H', hs H' = hs H -> pol_sref P = true -> injective (hs H') /\ no_state_change rest).
  { intros H' EH Ht. destruct (Hg Ht) as [Hi Hn]. rewrite EH. split; [exact Hi|].
    intros o' Ho'. apply Hn. right. exact Ho'. }
  destruct o as [a i b|a bs|a k|r]; simpl.
  - apply (IH _ hst st); [exact HR|exact HI|apply Hrest; reflexivity].
  - apply (IH _ hst st); [exact HR|exact HI|apply Hrest; reflexivity].
  - destruct (pol_sref P) eqn:ES.
    + destruct (Hg eq_refl) as [_ Hn]. exfalso. apply (Hn (HSetState a k)); [left; reflexivity|exact I].
    + apply (IH _ hst st); [apply (Rel_false (hs H)); exact HR|exact HI|intros Ht; discriminate].
  - assert (Hinj : pol_sref P = true -> injective (hs H)) by (intros Ht; apply (Hg Ht)).
    destruct (hstep_rel P W H hst st r HP Hinj HR) as [Ho Hst].
    destruct (step_sound W HW st (resolve H r) HI) as [Hfrb HI'].
    destruct (hstep P W H hst r) as [o hst']. simpl in Ho, Hst. rewrite Ho, Hfrb. f_equal.
    apply (IH H hst' (snd (step W st (resolve H r)))); [exact Hst|exact HI'|apply Hrest; reflexivity].
Qed.

End History.

(* keys stored by value (bounds and selection): transparent under EVERY interleaving of in-place changes and requests *)
Lemma snapshot_keys_transparent : forall P, by_value_bounds P -> pol_sref P = false ->
  forall W, wf_world W -> forall H h, run_hist P W H empty_hstate h = plain_hist W H h.
Proof.
  intros P HP HS W HW H h. apply (run_hist_sim P W HW HP h H empty_hstate empty_state).
  - apply Rel_empty.
  - apply Inv_empty.
  - intros Ht. rewrite HS in Ht. discriminate.
Qed.

(* bounds stored by value, the subset state stored as the object (what glue does): transparent as long as no state object is
   changed in place (distinct state objects select distinct mask slots of the world; slots may hold equal masks) *)
Lemma value_bounds_transparent : forall P, by_value_bounds P ->
  forall W, wf_world W -> forall H h, injective (hs H) -> no_state_change h ->
  run_hist P W H empty_hstate h = plain_hist W H h.
Proof.
  intros P HP W HW H h Hi Hn. apply (run_hist_sim P W HW HP h H empty_hstate empty_state).
  - apply Rel_empty.
  - apply Inv_empty.
  - intros _. split; assumption.
Qed.

Lemma glue_by_value_bounds : by_value_bounds glue_policy.
Proof. intros bs. reflexivity. Qed.

Lemma glue_keys_transparent : forall W, wf_world W -> forall H h, injective (hs H) -> no_state_change h ->
  run_hist glue_policy W H empty_hstate h = plain_hist W H h.
Proof. intros W HW H h. apply (value_bounds_transparent glue_policy glue_by_value_bounds W HW). Qed.

(* ---------- reference keys are not transparent: the two witnesses ---------- *)
(* one 1-d dataset of two pixels in its own frame, two masks *)
Definition Wr : world :=
  mkWorld [mkData [2%nat] [[10; 11]%Z] [[true; false]; [false; true]]] [(0%nat, 0%nat, [Some (PixT 0)])].
Definition Hr : heap := mkHeap (fun _ => [BRange 0 1 2]) (fun a => a).
Definition rq (w : hwhat) : hrequest := mkHReq 0 0 0 w true (Some 1%nat).

Lemma Wr_wf : wf_world Wr.
Proof. apply wf_worldb_sound. reflexivity. Qed.

(* glue as it is: the subset-state object 0 is changed in place (it now selects mask 1) between two mask requests *)
Definition h_state : list hop := [HReq (rq (HState 0)); HSetState 0 1; HReq (rq (HState 0))].
Lemma state_object_key_refuted : exists W H h, wf_world W /\ injective (hs H) /\
  run_hist glue_policy W H empty_hstate h <> plain_hist W H h.
Proof.
  exists Wr, Hr, h_state. split; [exact Wr_wf|]. split; [intros a a' E; exact E|].
  intros E. vm_compute in E. discriminate E.
Qed.

(* "return bounds as they are when all of them are ranges": the list object 0 is changed in place between two requests *)
Definition h_list : list hop := [HReq (rq (HAttr 0)); HSetBound 0 0 (BRange 1 1 1); HReq (rq (HAttr 0))].
Lemma caller_list_key_refuted : exists W H h, wf_world W /\ no_state_change h /\ injective (hs H) /\
  run_hist return_bounds_policy W H empty_hstate h <> plain_hist W H h.
Proof.
  exists Wr, Hr, h_list. split; [exact Wr_wf|]. split.
  - intros o [Ho|[Ho|[Ho|[]]]]; subst o; simpl; intros F; exact F.
  - split; [intros a a' E; exact E|]. intros E. vm_compute in E. discriminate E.
Qed.

(* ---------- the key functions translated from the current source (coq/gen/Gen_frbcache.v) are the model's ---------- *)
Lemma bfc_loop_gen_eq : forall bs all D i, bfc_loop_gen i all bs D = bfc_from i bs D.
Proof.
  induction bs as [|b r IH]; intros all D i; simpl; [reflexivity|]. rewrite IH.
  destruct (memn i D); destruct (is_scalar b); reflexivity.
Qed.

(* bounds_for_cache as written today returns, for every argument, a private list (never the caller's object) whose items are
   the model's: AnyScalar exactly on the scalar bounds outside the dimensions *)
Lemma bounds_key_translated : forall a bs D, bounds_for_cache_gen a bs D = KVal (bounds_for_cache bs D).
Proof. intros a bs D. unfold bounds_for_cache_gen, bounds_for_cache. rewrite bfc_loop_gen_eq. reflexivity. Qed.

Lemma any_scalar_translated : forall b, any_scalar_eq_gen b = cb_match CAny b.
Proof. intros b. reflexivity. Qed.

Local Open Scope string_scope.
(* which arguments go into the keys, in which order; which component is replaced by the wildcard list; what bounds_for_cache is called on *)
Lemma key_layout_translated :
  array_key_attr_gen = ["data"; "bounds"; "target_data"; "target_cid.uuid"; "broadcast"] /\
  array_key_state_gen = ["data"; "bounds"; "target_data"; "subset_state"; "broadcast"] /\
  pixel_key_gen = ["data"; "target_data"] /\
  array_key_replaced_gen = (1%nat, "cache_bounds") /\
  key_bounds_calls_gen = [("bounds", "dimensions"); ("bounds", "dimensions_all")].
Proof. repeat split. Qed.
Local Close Scope string_scope.

Lemma key_functions_translated :
  (forall a bs D, bounds_for_cache_gen a bs D = mk_bkey glue_policy a bs D) /\
  (forall b, any_scalar_eq_gen b = cb_match CAny b).
Proof. split; [intros a bs D; rewrite bounds_key_translated; reflexivity|exact any_scalar_translated]. Qed.
