(* C07 — the property-level theorems transported to the functions translated from glue/core/hub.py
   (gen/Gen_hub.v) through the simulation [GenEquiv.gen_refines], and facts that hold of the translated functions
   for every callback semantics. *)
From Coq Require Import ZArith List Bool Arith Lia Permutation.
Import ListNotations.
From GV Require Import gen.Gen_hub.
From GV Require Import C07.Model C07.Spec C07.Lemmas0 C07.Lemmas1 C07.Lemmas2 C07.Lemmas C07.GenEquiv.
Open Scope nat_scope.

Theorem gen_refines : forall fuel w s g t, R g s -> Rres (run fuel w s t) (grun fuel w g (emb_task t)).
Proof. exact GenEquiv.gen_refines. Qed.

Lemma gen_back : forall fuel w s g t gst g' lg,
  R g s -> grun fuel w g (emb_task t) = Some (gst, g', lg) ->
  exists st s', run fuel w s t = Some (st, s', lg) /\ gst = emb_status st /\ R g' s'.
Proof.
  intros fuel w s g t gst g' lg HR HG. pose proof (GenEquiv.gen_refines fuel w s g t HR) as H.
  rewrite HG in H. unfold Rres in H. destruct (run fuel w s t) as [[[st s'] l]|]; [|contradiction].
  destruct H as (-> & -> & HR'). exists st, s'. auto.
Qed.

Theorem gen_start : R gempty empty_hub.
Proof. repeat split. Qed.

(* the translated _find_handlers computes the model's find_handlers *)
Theorem gen_find_handlers : forall w m (g : ghub) S,
  g_subscriptions g = emb_subs S ->
  hub_find_handlers (gops w) g m = Some (emb_hs (find_handlers w S m)).
Proof. exact GenEquiv.find_handlers_gen. Qed.

Theorem gen_recipients_priority_order : forall w m (g : ghub) S,
  g_subscriptions g = emb_subs S ->
  exists cs,
    hub_find_handlers (gops w) g m = Some (emb_hs (map fst cs)) /\
    Permutation cs (candidates w S m) /\
    desc cs /\
    (forall p, filter (fun y => (prio y =? p)%Z) cs = filter (fun y => (prio y =? p)%Z) (candidates w S m)) /\
    Subseq (map (fun x => fst (fst x)) (candidates w S m)) (map fst S).
Proof.
  intros w m g S HS. destruct (recipients_priority_order w S m) as [cs [E H]].
  exists cs. split; [|exact H]. rewrite <- E. apply GenEquiv.find_handlers_gen. exact HS.
Qed.

(* the KeyError / ValueError paths of the translated methods are never taken, and the representation invariant is kept *)
Theorem gen_never_crashes : forall fuel w s g t gst g' lg,
  R g s -> grun fuel w g (emb_task t) = Some (gst, g', lg) ->
  gst <> GCrash /\ exists s', R g' s'.
Proof.
  intros fuel w s g t gst g' lg HR HG.
  destruct (gen_back _ _ _ _ _ _ _ _ HR HG) as (st & s' & _ & -> & HR').
  split; [destruct st; discriminate|eauto].
Qed.

Lemma ctr_same : forall c c' ig, ctr_agree c ig -> ctr_agree c' ig -> forall k, ctr_getitem k c' = ctr_getitem k c.
Proof. intros c c' ig H H' k. now rewrite H, H'. Qed.

(* while any delay block is open nothing is delivered, whatever the nesting; the queue grows by the non-ignored broadcasts *)
Theorem gen_open_block_only_queues : forall fuel w s g sc gst g' lg,
  R g s -> g_paused g <> 0%Z ->
  grun fuel w g (GScript sc) = Some (gst, g', lg) ->
  no_delivery lg /\
  g_queue g' = g_queue g ++ fst (queued (ign s) sc) /\
  gst = emb_status (status_of (snd (queued (ign s) sc))) /\
  g_paused g' = g_paused g /\
  (forall k, ctr_getitem k (g_ignore g') = ctr_getitem k (g_ignore g)).
Proof.
  intros fuel w s g sc gst g' lg HR Hp HG.
  destruct (gen_back fuel w s g (TScript sc) _ _ _ HR HG) as (st & s' & Hrun & -> & HR').
  assert (Hps : paused s <> 0). { destruct HR as (_ & H2 & _). intros E. apply Hp. now rewrite H2, E. }
  destruct (open_block_only_queues _ _ _ _ _ _ _ Hps Hrun) as (A & B & C & D & E).
  destruct HR as (H1 & H2 & H3 & H4). destruct HR' as (H1' & H2' & H3' & H4').
  repeat split.
  - exact A.
  - now rewrite H3', B, H3.
  - now rewrite C.
  - now rewrite H2', D, H2.
  - rewrite E in H4'. eapply ctr_same; eassumption.
Qed.

(* an outermost delay block holds everything back and, when it closes (normally or by an exception, which then
   propagates), delivers each queued message once, in order; afterwards no block is open and the queue is empty *)
Theorem gen_delay_holds_everything : forall fuel w s g body gst g' lg,
  R g s -> handlers_rf w -> wf_subs (subs s) ->
  g_paused g = 0%Z -> g_queue g = [] ->
  grun fuel w g (GAct (Delay body)) = Some (gst, g', lg) ->
  let q := fst (queued (ign s) body) in
  let raised := snd (queued (ign s) body) in
  exists lbody lflush,
    lg = EOpen :: lbody ++ EEnd :: lflush ++ [EClose] /\
    no_delivery lbody /\
    Blocks q (top 0 lflush) /\
    gst = emb_status (status_of raised) /\
    g_paused g' = 0%Z /\ g_queue g' = [] /\
    (forall k, ctr_getitem k (g_ignore g') = ctr_getitem k (g_ignore g)).
Proof.
  intros fuel w s g body gst g' lg HR Hrf Hwf Hp Hq HG q raised.
  destruct (gen_back fuel w s g (TAct (Delay body)) _ _ _ HR HG) as (st & s' & Hrun & -> & HR').
  destruct HR as (H1 & H2 & H3 & H4). destruct HR' as (H1' & H2' & H3' & H4').
  assert (Hps : paused s = 0) by lia.
  assert (Hqs : queue s = []) by (now rewrite <- H3).
  destruct (delay_holds_everything _ _ _ _ _ _ _ Hrf Hwf Hps Hqs Hrun)
    as (n & s1 & lbody & lflush & _ & A & B & _ & _ & C & D & E & F & G).
  exists lbody, lflush. repeat split; try assumption.
  - now rewrite D.
  - now rewrite H2', E.
  - now rewrite H3', F.
  - rewrite G in H4'. eapply ctr_same; eassumption.
Qed.

(* ignore blocks: an ignored message is dropped by the translated broadcast whatever the handlers are; every task
   restores every count *)
Theorem gen_ignored_broadcast_dropped : forall (H F E : Type) (o : @ops H F) (r : @recs H F E) m g,
  (ctr_getitem (py_type m) (g_ignore g) > 0)%Z ->
  hub_broadcast o r m g = Some (GNormal, g, []).
Proof.
  intros H F E o r m g Hi. unfold hub_broadcast.
  change (d_get (py_type m) 0%Z (g_ignore g)) with (ctr_getitem (py_type m) (g_ignore g)).
  replace (ctr_getitem (py_type m) (g_ignore g) >? 0)%Z with true by (symmetry; apply Z.gtb_lt; lia).
  reflexivity.
Qed.

Theorem gen_ignore_counts_restored : forall fuel w s g t gst g' lg,
  R g s -> grun fuel w g (emb_task t) = Some (gst, g', lg) ->
  forall k, ctr_getitem k (g_ignore g') = ctr_getitem k (g_ignore g).
Proof.
  intros fuel w s g t gst g' lg HR HG.
  destruct (gen_back _ _ _ _ _ _ _ _ HR HG) as (st & s' & Hrun & _ & HR').
  destruct (frame_run _ _ _ _ _ _ _ Hrun) as [Hi _].
  destruct HR as (_ & _ & _ & H4). destruct HR' as (_ & _ & _ & H4'). rewrite Hi in H4'.
  eapply ctr_same; eassumption.
Qed.

(* a non-ignored message broadcast while a delay block is open is appended to the queue and nothing else happens,
   whatever the handlers are *)
Theorem gen_paused_broadcast_queued : forall (H F E : Type) (o : @ops H F) (r : @recs H F E) m g,
  (ctr_getitem (py_type m) (g_ignore g) <= 0)%Z -> g_paused g <> 0%Z ->
  hub_broadcast o r m g = Some (GNormal, gset_queue g (g_queue g ++ [m]), []).
Proof.
  intros H F E o r m g Hi Hp. unfold hub_broadcast.
  change (d_get (py_type m) 0%Z (g_ignore g)) with (ctr_getitem (py_type m) (g_ignore g)).
  replace (ctr_getitem (py_type m) (g_ignore g) >? 0)%Z with false by (symmetry; rewrite Z.gtb_ltb; apply Z.ltb_ge; lia).
  replace (g_paused g =? 0)%Z with false by (symmetry; apply Z.eqb_neq; exact Hp).
  reflexivity.
Qed.

(* leaving an inner delay block only decrements the depth: no flush, the queue is not touched, whatever the body did *)
Theorem gen_inner_delay_exit_does_not_flush : forall (H F E : Type) (o : @ops H F) (r : @recs H F E) (body : @M H F E) g st g1 l1,
  body (gset_paused g (g_paused g + 1)%Z) = Some (st, g1, l1) ->
  (g_paused g1 - 1 <> 0)%Z ->
  hub_delay_callbacks o r body g = Some (st, gset_paused g1 (g_paused g1 - 1)%Z, l1 ++ []).
Proof.
  intros H F E o r body g st g1 l1 Hb Hp. unfold hub_delay_callbacks, try_finally. rewrite Hb.
  cbn [g_paused gset_paused].
  replace (g_paused g1 - 1 =? 0)%Z with false by (symmetry; apply Z.eqb_neq; exact Hp).
  reflexivity.
Qed.

(* leaving the outermost one detaches the queue (the hub's queue is empty during the flush) and hands it, in order, to the flush loop *)
Theorem gen_outer_delay_exit_flushes_detached_queue : forall (H F E : Type) (o : @ops H F) (r : @recs H F E) (body : @M H F E) g st g1 l1,
  body (gset_paused g (g_paused g + 1)%Z) = Some (st, g1, l1) ->
  (g_paused g1 - 1 = 0)%Z ->
  hub_delay_callbacks o r body g =
  match rec_delay_callbacks_loop1 r (g_queue g1) (gset_queue (gset_paused g1 (g_paused g1 - 1)%Z) []) with
  | None => None
  | Some (st', g2, l2) => Some (match st' with GNormal => st | _ => st' end, g2, l1 ++ l2)
  end.
Proof.
  intros H F E o r body g st g1 l1 Hb Hp. unfold hub_delay_callbacks, try_finally. rewrite Hb.
  cbn [g_paused gset_paused g_queue].
  replace (g_paused g1 - 1 =? 0)%Z with true by (symmetry; apply Z.eqb_eq; exact Hp).
  reflexivity.
Qed.

(* the outermost deliveries of a script come in blocks that follow the program order of its broadcasts, one block per
   broadcast, at most one delivery per listener in a block (exactly once, in order); the hub is left idle *)
Theorem gen_per_listener_order : forall fuel w s g sc gst g' lg,
  R g s -> handlers_rf w -> wf_subs (subs s) ->
  g_paused g = 0%Z -> g_queue g = [] ->
  grun fuel w g (GScript sc) = Some (gst, g', lg) ->
  Blocks (bcasts sc) (top 0 lg) /\ balanced lg /\
  g_paused g' = 0%Z /\ g_queue g' = [] /\
  (forall k, ctr_getitem k (g_ignore g') = ctr_getitem k (g_ignore g)).
Proof.
  intros fuel w s g sc gst g' lg HR Hrf Hwf Hp Hq HG.
  destruct (gen_back fuel w s g (TScript sc) _ _ _ HR HG) as (st & s' & Hrun & -> & HR').
  destruct HR as (H1 & H2 & H3 & H4). destruct HR' as (H1' & H2' & H3' & H4').
  assert (Hps : paused s = 0) by lia.
  assert (Hqs : queue s = []) by (now rewrite <- H3).
  destruct (per_listener_order _ _ _ _ _ _ _ Hrf Hwf Hps Hqs Hrun) as (A & B & C & D & E & _).
  repeat split; try assumption.
  - now rewrite H2', C.
  - now rewrite H3', D.
  - rewrite E in H4'. eapply ctr_same; eassumption.
Qed.

(* a broadcast with no block open and a class that is not ignored calls exactly the handlers the translated
   _find_handlers returns, in that order, each listener at most once *)
Theorem gen_deliver_once_right_listeners : forall fuel w s g m gst g' lg,
  R g s -> handlers_rf w -> wf_subs (subs s) ->
  g_paused g = 0%Z -> (ctr_getitem (py_type m) (g_ignore g) <= 0)%Z ->
  grun fuel w g (GBcast m) = Some (gst, g', lg) ->
  exists hs,
    hub_find_handlers (gops w) g m = Some (emb_hs hs) /\
    top 0 lg = to_calls m hs /\
    balanced lg /\ gst = GNormal /\ NoDup (map fst hs).
Proof.
  intros fuel w s g m gst g' lg HR Hrf Hwf Hp Hi HG.
  destruct (gen_back fuel w s g (TBcast m) _ _ _ HR HG) as (st & s' & Hrun & -> & HR').
  destruct HR as (H1 & H2 & H3 & H4).
  assert (Hps : paused s = 0) by lia.
  assert (Hig : ignored s m = false).
  { unfold ignored. rewrite <- (ctr_agree_ignored _ _ m H4).
    change (d_get (py_type m) 0%Z (g_ignore g)) with (ctr_getitem (py_type m) (g_ignore g)).
    rewrite Z.gtb_ltb. apply Z.ltb_ge. lia. }
  destruct (deliver_once_right_listeners _ _ _ _ _ _ _ Hrf Hwf Hps Hig Hrun) as (A & B & C & D & _).
  exists (find_handlers w (subs s) m). repeat split; try assumption.
  - apply GenEquiv.find_handlers_gen. exact H1.
  - now rewrite C.
Qed.

(* the message classes of glue/core/message.py (table dumped from the live package into gen/Gen_hub.v) form a single-
   inheritance tree: the model's class tree built from their first bases reproduces issubclass and _mro_count (the
   latter counts [object] as well) for every one of them *)
Definition class_row_ok (i : nat) : bool :=
  (nth i msg_nbases 0 =? 1) &&
  (Z.of_nat (tree_mro msg_parents i) + 1 =? nth i msg_mro_counts 0%Z)%Z &&
  forallb (fun j => Bool.eqb (tree_issub msg_parents i j) (nth j (nth i msg_issubclass []) false))
          (seq 0 (length msg_parents)).

Theorem gen_message_classes_form_a_tree :
  length msg_nbases = length msg_parents /\ length msg_mro_counts = length msg_parents /\
  length msg_issubclass = length msg_parents /\
  forall i, i < length msg_parents ->
    nth i msg_nbases 0 = 1 /\
    (Z.of_nat (tree_mro msg_parents i) + 1)%Z = nth i msg_mro_counts 0%Z /\
    forall j, j < length msg_parents ->
      tree_issub msg_parents i j = nth j (nth i msg_issubclass []) false.
Proof.
  split; [vm_compute; reflexivity|]. split; [vm_compute; reflexivity|]. split; [vm_compute; reflexivity|].
  assert (H : forallb class_row_ok (seq 0 (length msg_parents)) = true) by (vm_compute; reflexivity).
  intros i Hi. rewrite forallb_forall in H. specialize (H i).
  assert (Hin : In i (seq 0 (length msg_parents))) by (apply in_seq; lia).
  specialize (H Hin). unfold class_row_ok in H.
  apply andb_true_iff in H. destruct H as [H H3]. apply andb_true_iff in H. destruct H as [H1 H2].
  split; [now apply Nat.eqb_eq|]. split; [now apply Z.eqb_eq|].
  intros j Hj. rewrite forallb_forall in H3. specialize (H3 j).
  assert (Hjn : In j (seq 0 (length msg_parents))) by (apply in_seq; lia).
  specialize (H3 Hjn). now apply Bool.eqb_prop.
Qed.
