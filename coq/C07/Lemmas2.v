(* C07 — invariants of the interpreter, by induction on [Eval]. *)
From Coq Require Import ZArith List Bool Arith Lia Permutation.
Import ListNotations.
From GV Require Import C07.Model C07.Spec C07.Lemmas0 C07.Lemmas1.
Open Scope nat_scope.

(* (I1) every task leaves the ignore stack and the number of open delay blocks as it found them *)
Lemma Eval_frame : forall w s t st s' lg, Eval w s t st s' lg -> ign s' = ign s /\ paused s' = paused s.
Proof.
  induction 1; simpl in *;
    repeat match goal with H : _ /\ _ |- _ => destruct H end;
    try (split; congruence).
  - split; [congruence|lia].
  - split; [congruence|lia].
  - split; auto. rewrite H0. simpl. rewrite Nat.eqb_refl. reflexivity.
Qed.

(* (I4) without [Raise] nothing raises *)
Definition task_rf (t : task) : bool :=
  match t with TScript sc => raise_free sc | TAct a => raise_free_a a | _ => true end.

Lemma rf_normal : forall w s t st s' lg, Eval w s t st s' lg -> handlers_rf w -> task_rf t = true -> st = Normal.
Proof.
  induction 1; simpl; intros Hw Ht; auto;
    try (apply andb_true_iff in Ht; destruct Ht as [Ht1 Ht2]).
  - apply IHEval; auto.
  - apply IHEval2; auto.
  - rewrite IHEval1, IHEval2; auto.
  - discriminate.
  - apply IHEval; auto. apply Hw.
Qed.

(* (I5) calls and returns are bracketed *)
Lemma Eval_balanced : forall w s t st s' lg, Eval w s t st s' lg -> handlers_rf w -> balanced lg.
Proof.
  induction 1; intros Hw; try (constructor; fail); auto.
  - apply balanced_app; auto.
  - apply bal_mark; [exact I|]. apply balanced_app; auto.
    apply bal_mark; [exact I|]. apply balanced_app; auto. apply bal_mark; [exact I|constructor].
  - apply bal_mark; [exact I|]. apply balanced_app; auto.
    apply bal_mark; [exact I|]. apply bal_mark; [exact I|constructor].
  - exfalso. assert (Raised = Normal) by (eapply rf_normal; eauto; apply Hw). discriminate.
  - apply bal_call; auto.
  - apply balanced_app; auto.
Qed.

(* (I2) while a delay block is open a script only queues: nothing is delivered, the queue grows by exactly
   the non-ignored broadcasts, and the exception status is that of the script itself *)
Definition qspec (s : hub) (t : task) : list msg * bool :=
  match t with
  | TScript sc => queued (ign s) sc
  | TAct a => queued_a (ign s) a
  | TBcast m => (if ignored s m then [] else [m], false)
  | _ => ([], false)
  end.
Definition pausable (t : task) : Prop :=
  match t with THandlers _ _ | TFlush _ => False | _ => True end.

Lemma status_of_raised : forall b, Raised = status_of b -> b = true.
Proof. destruct b; simpl; congruence. Qed.
Lemma status_of_normal : forall b, Normal = status_of b -> b = false.
Proof. destruct b; simpl; congruence. Qed.

Lemma paused_queue : forall w s t st s' lg, Eval w s t st s' lg ->
  paused s <> 0 -> pausable t ->
  Forall is_mark lg /\ queue s' = queue s ++ fst (qspec s t) /\ st = status_of (snd (qspec s t)).
Proof.
  induction 1; intros Hp Ht; simpl in Ht; try contradiction.
  - (* nil *) simpl. rewrite app_nil_r. auto.
  - (* seq raise *)
    destruct (IHEval Hp I) as [A [B C]]. simpl in *.
    apply status_of_raised in C. rewrite C. simpl. rewrite C. simpl. auto.
  - (* seq *)
    destruct (IHEval1 Hp I) as [A [B C]].
    destruct (Eval_frame _ _ _ _ _ _ H) as [Fi Fp].
    assert (Hp1 : paused s1 <> 0) by congruence.
    destruct (IHEval2 Hp1 I) as [A2 [B2 C2]]. simpl in *.
    apply status_of_normal in C. rewrite C. simpl.
    rewrite Fi in *. repeat split.
    + apply Forall_app; auto.
    + rewrite B2, B. rewrite app_assoc. reflexivity.
    + exact C2.
  - (* broadcast action *) destruct (IHEval Hp I) as [A [B C]]. simpl in *. auto.
  - (* delay that flushes: impossible while a block is open *)
    destruct (Eval_frame _ _ _ _ _ _ H) as [_ Fp]. simpl in Fp. lia.
  - (* inner delay *)
    assert (Hp1 : paused (set_paused s (S (paused s))) <> 0) by (simpl; lia).
    destruct (IHEval Hp1 I) as [A [B C]]. simpl in *. repeat split; auto.
    constructor; [exact I|]. apply Forall_app; split; auto; repeat constructor.
  - (* ignore *)
    assert (Hp1 : paused (set_ign s (c :: ign s)) <> 0) by (simpl; auto).
    destruct (IHEval Hp1 I) as [A [B C]]. simpl in *. auto.
  - simpl. rewrite app_nil_r. auto.
  - simpl. rewrite app_nil_r. auto.
  - simpl. rewrite app_nil_r. auto.
  - simpl. rewrite app_nil_r. auto.
  - simpl. rewrite H. rewrite app_nil_r. auto.
  - simpl. rewrite H. auto.
Qed.

(* (I3) a hub with no open block and an empty queue is left that way *)
Lemma Eval_idle : forall w s t st s' lg, Eval w s t st s' lg ->
  paused s = 0 -> queue s = [] -> queue s' = [].
Proof.
  induction 1; intros Hp Hq; simpl in *; auto.
  - destruct (Eval_frame _ _ _ _ _ _ H) as [_ Fp]. apply IHEval2; auto. congruence.
  - destruct (Eval_frame _ _ _ _ _ _ H) as [_ Fp]. simpl in Fp. lia.
  - congruence.
  - destruct (Eval_frame _ _ _ _ _ _ H) as [_ Fp]. apply IHEval2; auto. congruence.
  - destruct (Eval_frame _ _ _ _ _ _ H) as [_ Fp]. apply IHEval2; auto. congruence.
Qed.

(* (I6) listeners and, per listener, classes stay distinct keys *)
Lemma Eval_wf : forall w s t st s' lg, Eval w s t st s' lg -> wf_subs (subs s) -> wf_subs (subs s').
Proof.
  induction 1; intros Hw; simpl in *; auto.
  - apply subscribe_wf; auto.
  - apply unsubscribe_wf; auto.
  - apply unsubscribe_all_wf; auto.
Qed.

(* the outermost calls of a delivery round are exactly the handlers that were found, in that order *)
Lemma handlers_top : forall w hs s m st s' lg, Eval w s (THandlers m hs) st s' lg -> handlers_rf w ->
  top 0 lg = to_calls m hs /\ st = Normal.
Proof.
  induction hs as [|[l h] hs IH]; intros s m st s' lg H Hw; inversion H; subst.
  - auto.
  - exfalso. assert (Raised = Normal) by (eapply rf_normal; eauto; apply Hw). discriminate.
  - destruct (IH _ _ _ _ _ H9 Hw) as [A B]. split; auto.
    rewrite top_call by (eapply Eval_balanced; eauto). rewrite A. reflexivity.
Qed.

Lemma ignored_ign : forall s s' m, ign s' = ign s -> ignored s' m = ignored s m.
Proof. unfold ignored. intros. congruence. Qed.

(* delivering a queue: message by message, to the handlers found at that moment *)
Lemma flush_flushed : forall w q s st s' lg, Eval w s (TFlush q) st s' lg -> handlers_rf w ->
  paused s = 0 -> (forall m, In m q -> ignored s m = false) ->
  Flushed w s q lg s' /\ st = Normal.
Proof.
  induction q as [|m q IH]; intros s st s' lg H Hw Hp Hi; inversion H; subst.
  - split; constructor.
  - exfalso. assert (Raised = Normal) by (eapply rf_normal; eauto). discriminate.
  - assert (Hm : ignored s m = false) by (apply Hi; left; auto).
    destruct (Eval_frame _ _ _ _ _ _ H3) as [Fi Fp].
    destruct (IH _ _ _ _ H7 Hw) as [A B]; [congruence| |].
    { intros x Hx. rewrite (ignored_ign _ _ _ Fi). apply Hi. right. exact Hx. }
    split; auto.
    inversion H3; subst; try congruence.
    destruct (handlers_top _ _ _ _ _ _ _ H5 Hw) as [T _].
    destruct (run_complete _ _ _ _ _ _ H5) as [n Hn].
    eapply Fl_cons; eauto. eapply Eval_balanced; eauto.
Qed.

Lemma Flushed_blocks : forall w s q lg s', Flushed w s q lg s' ->
  wf_subs (subs s) -> (forall s1 t st s2 l, Eval w s1 t st s2 l -> wf_subs (subs s1) -> wf_subs (subs s2)) ->
  Blocks q (top 0 lg).
Proof.
  induction 1; intros Hw Hpres; simpl; [constructor|].
  rewrite top_bal_0 by assumption. rewrite H0.
  apply (Blocks_app [m] _ q _).
  - apply Blocks_single. apply find_handlers_nodup. apply Hw.
  - apply IHFlushed; auto. apply run_sound in H. eapply Hpres; eauto.
Qed.

(* (I7) the outermost deliveries made by a task, when no block is open and the queue is empty, come in blocks that follow
   the program order of the broadcasts the task itself makes *)
Lemma Eval_top : forall w s t st s' lg, Eval w s t st s' lg ->
  handlers_rf w -> paused s = 0 -> queue s = [] -> wf_subs (subs s) ->
  match t with
  | TScript sc => Blocks (bcasts sc) (top 0 lg)
  | TAct a => Blocks (bcasts_a a) (top 0 lg)
  | TBcast m => Blocks [m] (top 0 lg)
  | THandlers m hs => top 0 lg = to_calls m hs
  | TFlush q => Blocks q (top 0 lg)
  end.
Proof.
  induction 1; intros Hw Hp Hq Hs.
  - constructor.
  - (* seq raise *)
    simpl. rewrite <- (app_nil_r (top 0 l1)). apply Blocks_app; auto. apply Blocks_nil_r.
  - (* seq *)
    destruct (Eval_frame _ _ _ _ _ _ H) as [Fi Fp].
    simpl. rewrite top_bal_0 by (eapply Eval_balanced; eauto).
    apply Blocks_app; auto. apply IHEval2; auto.
    + congruence.
    + eapply Eval_idle; eauto.
    + eapply Eval_wf; eauto.
  - (* broadcast action *) simpl. apply IHEval; auto.
  - (* outermost delay *)
    assert (Hp1 : paused (set_paused s (S (paused s))) <> 0) by (simpl; lia).
    destruct (paused_queue _ _ _ _ _ _ H Hp1 I) as [A [B C]]. simpl in B. rewrite Hq in B. simpl in B.
    simpl. rewrite top_marks by assumption. simpl.
    assert (Hb : balanced l3) by (eapply Eval_balanced; eauto).
    rewrite top_bal_0 by assumption. simpl. rewrite app_nil_r.
    eapply Blocks_subseq; [apply (queued_subseq b (ign s))|].
    rewrite <- B. apply IHEval2; auto.
    simpl. eapply Eval_wf in H; eauto.
  - (* inner delay: impossible with no block open *)
    destruct (Eval_frame _ _ _ _ _ _ H) as [_ Fp]. simpl in Fp. lia.
  - (* ignore *) simpl. apply IHEval; auto.
  - simpl. constructor.
  - simpl. constructor.
  - simpl. constructor.
  - simpl. constructor.
  - simpl. apply Blocks_nil_r.
  - congruence.
  - rewrite IHEval; auto. apply Blocks_single. apply find_handlers_nodup. apply Hs.
  - reflexivity.
  - exfalso. assert (Raised = Normal) by (eapply rf_normal; eauto; apply Hw). discriminate.
  - destruct (Eval_frame _ _ _ _ _ _ H) as [Fi Fp].
    rewrite top_call by (eapply Eval_balanced; eauto).
    rewrite IHEval2; auto.
    + congruence.
    + eapply Eval_idle; eauto.
    + eapply Eval_wf; eauto.
  - constructor.
  - exfalso. assert (Raised = Normal) by (eapply rf_normal; eauto). discriminate.
  - destruct (Eval_frame _ _ _ _ _ _ H) as [Fi Fp].
    rewrite top_bal_0 by (eapply Eval_balanced; eauto).
    apply (Blocks_app [m] _ q _); auto. apply IHEval2; auto.
    + congruence.
    + eapply Eval_idle; eauto.
    + eapply Eval_wf; eauto.
Qed.
