(* C07 — executable script semantics of glue.core.hub.Hub (definitions only).

   The model follows the hub after the two repairs of DESIGN section 7
   (F-C07a: `_paused` is a counter of open delay blocks; F-C07b: the queue is
   detached before it is delivered).

   Python                                    model
   ------                                    -----
   hub._subscriptions (WeakKeyDictionary     subs : list (lid * list sub), both levels in
     subscriber -> HubCallbackContainer)       insertion order (dict order)
   hub._paused (int)                         paused : nat
   hub._queue                                queue : list msg
   hub._ignore (Counter)                     ign : list cls   (a stack: count = occurrences)
   handler(message)                          running the handler's script  hscript w h
   Message subclass tree                     issub / mro of the world
*)
From Coq Require Import ZArith List Bool Arith.
Import ListNotations.
From GV Require Import Common.Wire gen.Gen_hub.
Open Scope nat_scope.

Definition cls := nat.
Definition lid := nat.   (* listener *)
Definition hid := nat.   (* handler = index of a script *)
Definition msg := (Z * cls)%type.          (* (identity, class) *)
Definition mid (m : msg) : Z := fst m.
Definition mcls (m : msg) : cls := snd m.

Inductive action :=
| Broadcast (i : Z) (c : cls)
| Delay (body : list action)                       (* with hub.delay_callbacks(): body *)
| Ignore (c : cls) (body : list action)            (* with hub.ignore_callbacks(c): body *)
| Subscribe (l : lid) (c : cls) (h : hid) (f : Z) (p : Z)
| Unsubscribe (l : lid) (c : cls)
| UnsubscribeAll (l : lid)
| Raise.                                           (* raise an exception here *)

Record world := {
  issub : cls -> cls -> bool;        (* issubclass c1 c2 *)
  mro : cls -> nat;                  (* _mro_count *)
  hscript : hid -> list action;      (* what handler h does when called *)
  fpass : Z -> msg -> bool           (* filter f applied to a message *)
}.

Record sub := { s_cls : cls; s_h : hid; s_f : Z; s_p : Z }.

Record hub := {
  subs : list (lid * list sub);
  paused : nat;
  queue : list msg;
  ign : list cls
}.

Definition empty_hub : hub := {| subs := []; paused := 0; queue := []; ign := [] |}.
Definition set_subs (s : hub) (x : list (lid * list sub)) : hub :=
  {| subs := x; paused := paused s; queue := queue s; ign := ign s |}.
Definition set_paused (s : hub) (x : nat) : hub :=
  {| subs := subs s; paused := x; queue := queue s; ign := ign s |}.
Definition set_queue (s : hub) (x : list msg) : hub :=
  {| subs := subs s; paused := paused s; queue := x; ign := ign s |}.
Definition set_ign (s : hub) (x : list cls) : hub :=
  {| subs := subs s; paused := paused s; queue := queue s; ign := x |}.

Inductive event :=
| ECall (l : lid) (h : hid) (m : msg)     (* handler h of listener l is entered with m *)
| ERet (l : lid) (h : hid) (m : msg)      (* ... and returns *)
| EOpen                                   (* a delay block is entered *)
| EEnd                                    (* its body has ended (normally or by an exception) *)
| EClose.                                 (* the with statement is left (after any flush) *)

Inductive status := Normal | Raised.
Definition join (a b : status) : status :=
  match a, b with Normal, Normal => Normal | _, _ => Raised end.

(* ---------- subscriptions (dict semantics, insertion order kept) ---------- *)

Fixpoint set_sub (sb : sub) (ss : list sub) : list sub :=
  match ss with
  | [] => [sb]
  | x :: t => if s_cls x =? s_cls sb then sb :: t else x :: set_sub sb t
  end.

Fixpoint subscribe_op (l : lid) (sb : sub) (S : list (lid * list sub)) : list (lid * list sub) :=
  match S with
  | [] => [(l, [sb])]
  | e :: t => if fst e =? l then (fst e, set_sub sb (snd e)) :: t else e :: subscribe_op l sb t
  end.

Definition drop_cls (c : cls) (ss : list sub) : list sub :=
  filter (fun x : sub => negb (s_cls x =? c)) ss.

Fixpoint unsubscribe_op (l : lid) (c : cls) (S : list (lid * list sub)) : list (lid * list sub) :=
  match S with
  | [] => []
  | e :: t => if fst e =? l then (fst e, drop_cls c (snd e)) :: t else e :: unsubscribe_op l c t
  end.

Definition unsubscribe_all_op (l : lid) (S : list (lid * list sub)) : list (lid * list sub) :=
  filter (fun e : lid * list sub => negb (fst e =? l)) S.

(* ---------- _find_handlers ---------- *)

Definition matches (w : world) (m : msg) (sb : sub) : bool := issub w (mcls m) (s_cls sb).

(* max(messages, key=_mro_count): the first of the maximal ones *)
Fixpoint best (w : world) (m : msg) (ss : list sub) : option sub :=
  match ss with
  | [] => None
  | sb :: t =>
    if matches w m sb then
      match best w m t with
      | Some b => if mro w (s_cls sb) <? mro w (s_cls b) then Some b else Some sb
      | None => Some sb
      end
    else best w m t
  end.

Definition cand (w : world) (m : msg) (e : lid * list sub) : list (lid * hid * Z) :=
  match best w m (snd e) with
  | Some sb => if fpass w (s_f sb) m then [(fst e, s_h sb, s_p sb)] else []
  | None => []
  end.

(* sorted(..., key=priority, reverse=True) is stable: equal priorities keep their order *)
Fixpoint insert_desc (x : lid * hid * Z) (l : list (lid * hid * Z)) : list (lid * hid * Z) :=
  match l with
  | [] => [x]
  | y :: t => if (snd x <? snd y)%Z then y :: insert_desc x t else x :: l
  end.
Definition sort_desc (l : list (lid * hid * Z)) : list (lid * hid * Z) := fold_right insert_desc [] l.

Definition candidates (w : world) (S : list (lid * list sub)) (m : msg) : list (lid * hid * Z) :=
  flat_map (cand w m) S.
Definition find_handlers (w : world) (S : list (lid * list sub)) (m : msg) : list (lid * hid) :=
  map fst (sort_desc (candidates w S m)).

(* ---------- ignore counter ---------- *)
Definition ignored (s : hub) (m : msg) : bool := existsb (Nat.eqb (mcls m)) (ign s).
Fixpoint remove_first (c : cls) (l : list cls) : list cls :=
  match l with
  | [] => []
  | x :: t => if x =? c then t else x :: remove_first c t
  end.

(* ---------- execution ---------- *)

Inductive task :=
| TScript (acts : list action)                  (* run a block of actions *)
| TAct (a : action)                             (* run one action *)
| TBcast (m : msg)                              (* Hub.broadcast(m) *)
| THandlers (m : msg) (hs : list (lid * hid))   (* the loop over _find_handlers(m) *)
| TFlush (q : list msg).                        (* for message in queue: self.broadcast(message) *)

Definition res := (status * hub * list event)%type.

(* one unfolding of the interpreter; [rec] is the interpreter with less fuel *)
Definition step (w : world) (rec : hub -> task -> option res) (s : hub) (t : task) : option res :=
  match t with
  | TScript [] => Some (Normal, s, [])
  | TScript (a :: rest) =>
    match rec s (TAct a) with
    | None => None
    | Some (Raised, s1, l1) => Some (Raised, s1, l1)
    | Some (Normal, s1, l1) =>
      match rec s1 (TScript rest) with
      | None => None
      | Some (st, s2, l2) => Some (st, s2, l1 ++ l2)
      end
    end
  | TAct (Broadcast i c) => rec s (TBcast (i, c))
  | TAct (Delay b) =>
    (* self._paused += 1; try: body; finally: self._paused -= 1; if 0: swap the queue out and deliver it *)
    match rec (set_paused s (S (paused s))) (TScript b) with
    | None => None
    | Some (st, s1, l1) =>
      let s2 := set_paused s1 (pred (paused s1)) in
      match paused s2 with
      | O =>
        match rec (set_queue s2 []) (TFlush (queue s2)) with
        | None => None
        | Some (st', s3, l3) => Some (join st st', s3, EOpen :: l1 ++ EEnd :: l3 ++ [EClose])
        end
      | S _ => Some (st, s2, EOpen :: l1 ++ [EEnd; EClose])
      end
    end
  | TAct (Ignore c b) =>
    match rec (set_ign s (c :: ign s)) (TScript b) with
    | None => None
    | Some (st, s1, l1) => Some (st, set_ign s1 (remove_first c (ign s1)), l1)
    end
  | TAct (Subscribe l c h f p) =>
    Some (Normal, set_subs s (subscribe_op l {| s_cls := c; s_h := h; s_f := f; s_p := p |} (subs s)), [])
  | TAct (Unsubscribe l c) => Some (Normal, set_subs s (unsubscribe_op l c (subs s)), [])
  | TAct (UnsubscribeAll l) => Some (Normal, set_subs s (unsubscribe_all_op l (subs s)), [])
  | TAct Raise => Some (Raised, s, [])
  | TBcast m =>
    if ignored s m then Some (Normal, s, [])
    else match paused s with
         | S _ => Some (Normal, set_queue s (queue s ++ [m]), [])
         | O => rec s (THandlers m (find_handlers w (subs s) m))
         end
  | THandlers m [] => Some (Normal, s, [])
  | THandlers m ((l, h) :: hs) =>
    match rec s (TScript (hscript w h)) with
    | None => None
    | Some (Raised, s1, l1) => Some (Raised, s1, ECall l h m :: l1)
    | Some (Normal, s1, l1) =>
      match rec s1 (THandlers m hs) with
      | None => None
      | Some (st, s2, l2) => Some (st, s2, ECall l h m :: l1 ++ ERet l h m :: l2)
      end
    end
  | TFlush [] => Some (Normal, s, [])
  | TFlush (m :: q) =>
    match rec s (TBcast m) with
    | None => None
    | Some (Raised, s1, l1) => Some (Raised, s1, l1)
    | Some (Normal, s1, l1) =>
      match rec s1 (TFlush q) with
      | None => None
      | Some (st, s2, l2) => Some (st, s2, l1 ++ l2)
      end
    end
  end.

(* fuel bounds the depth of the call tree; None = fuel exhausted (a RecursionError in Python) *)
Fixpoint run (fuel : nat) (w : world) (s : hub) (t : task) : option res :=
  match fuel with
  | O => None
  | S n => step w (run n w) s t
  end.

(* ---------- the concrete world of the wire format ---------- *)

(* class i has parent [nth i ps i]; a class that is its own parent is a root *)
Fixpoint mro_list (fuel : nat) (ps : list nat) (c : nat) : list nat :=
  match fuel with
  | O => [c]
  | S n => let p := nth c ps c in if p =? c then [c] else c :: mro_list n ps p
  end.
Definition tree_issub (ps : list nat) (c1 c2 : cls) : bool :=
  existsb (Nat.eqb c2) (mro_list (length ps) ps c1).
Definition tree_mro (ps : list nat) (c : cls) : nat := length (mro_list (length ps) ps c).

(* filters: 0 accept all, 1 reject all, 2 even identities, 3 odd identities *)
Definition std_fpass (f : Z) (m : msg) : bool :=
  match f with
  | 1%Z => false
  | 2%Z => Z.even (mid m)
  | 3%Z => Z.odd (mid m)
  | _ => true
  end.

Definition tree_world (ps : list nat) (scripts : list (list action)) : world :=
  {| issub := tree_issub ps; mro := tree_mro ps;
     hscript := fun h => nth h scripts []; fpass := std_fpass |}.

(* ---------- the same interpreter over the TRANSLATED hub methods (gen/Gen_hub.v, regenerated from hub.py) ----------
   Only the script interpreter is written by hand (it plays the part of the harness: it runs scripts, logs the block marks
   and the handler entries / returns); every hub operation is the generated function.  The hub's loops and its calls of
   itself go through [rec] (the interpreter with less fuel), exactly where [step] uses [rec]. *)
Definition GH := (lid * hid)%type.       (* a handler object: (the listener it acts for, the script it runs) *)
Definition ghub := @Gen_hub.ghub GH Z.
Definition gres := @Gen_hub.gres GH Z event.
Definition gempty : ghub := hub_init.   (* Hub.__init__ *)

Definition gops (w : world) : @ops GH Z :=
  {| issubclass := issub w;
     getmro := fun c => repeat c (mro w c);            (* only its length is used: _mro_count *)
     h_truthy := fun h => negb (snd h =? 0);            (* handler 0 = "no handler given" (None) *)
     notify_of := fun l => (l, 0);                      (* subscriber.notify *)
     call_filter := fpass w |}.

Inductive gtask :=
| GScript (acts : list action)
| GAct (a : action)
| GBcast (m : msg)
| GHandlers (m : msg) (hs : list (lid * GH))
| GFlush (q : list msg).

Definition grecs (w : world) (rec : ghub -> gtask -> option gres) : @recs GH Z event :=
  {| call_handler := fun h m g =>
       match rec g (GScript (hscript w (snd h))) with
       | None => None
       | Some (GNormal, g1, l1) => Some (GNormal, g1, ECall (fst h) (snd h) m :: l1 ++ [ERet (fst h) (snd h) m])
       | Some (st, g1, l1) => Some (st, g1, ECall (fst h) (snd h) m :: l1)
       end;
     rec_broadcast := fun m g => rec g (GBcast m);
     rec_broadcast_loop1 := fun m hs g => rec g (GHandlers m hs);
     rec_delay_callbacks_loop1 := fun q g => rec g (GFlush q) |}.

Definition gstep (w : world) (rec : ghub -> gtask -> option gres) (g : ghub) (t : gtask) : option gres :=
  let o := gops w in
  let r := grecs w rec in
  match t with
  | GScript [] => Some (GNormal, g, [])
  | GScript (a :: rest) => seq_k (rec g (GAct a)) (fun g1 => rec g1 (GScript rest))
  | GAct (Broadcast i c) => rec g (GBcast (i, c))
  | GAct (Delay b) =>
    match hub_delay_callbacks o r
            (fun g0 => match rec g0 (GScript b) with
                       | None => None
                       | Some (st, g1, l1) => Some (st, g1, l1 ++ [EEnd])
                       end) g with
    | None => None
    | Some (st, g1, l1) => Some (st, g1, EOpen :: l1 ++ [EClose])
    end
  | GAct (Ignore c b) => hub_ignore_callbacks o r (fun g0 => rec g0 (GScript b)) c g
  | GAct (Subscribe l c h f p) => hub_subscribe o r l c (l, h) f p g
  | GAct (Unsubscribe l c) => hub_unsubscribe o r l c g
  | GAct (UnsubscribeAll l) => hub_unsubscribe_all o r l g
  | GAct Raise => Some (GRaised, g, [])
  | GBcast m => hub_broadcast o r m g
  | GHandlers m hs => hub_broadcast_loop1 o r m hs g
  | GFlush q => hub_delay_callbacks_loop1 o r q g
  end.

Fixpoint grun (fuel : nat) (w : world) (g : ghub) (t : gtask) : option gres :=
  match fuel with
  | O => None
  | S n => gstep w (grun n w) g t
  end.

(* ---------- wire ---------- *)
Definition tnat (t : tree) : nat := Z.to_nat (tag t).

Fixpoint dec_action (t : tree) : action :=
  match t with
  | T 1 [T i _; c] => Broadcast i (tnat c)
  | T 2 ks => Delay (map dec_action ks)
  | T 3 (c :: ks) => Ignore (tnat c) (map dec_action ks)
  | T 4 [l; c; h; T f _; T p _] => Subscribe (tnat l) (tnat c) (tnat h) f p
  | T 5 [l; c] => Unsubscribe (tnat l) (tnat c)
  | T 6 [l] => UnsubscribeAll (tnat l)
  | _ => Raise
  end.

Definition znat (n : nat) : tree := leaf (Z.of_nat n).
Definition enc_msg (m : msg) : list tree := [leaf (mid m); znat (mcls m)].
Definition enc_event (e : event) : tree :=
  match e with
  | ECall l h m => T 1 (znat l :: znat h :: enc_msg m)
  | ERet l h m => T 2 (znat l :: znat h :: enc_msg m)
  | EOpen => leaf 3
  | EEnd => leaf 4
  | EClose => leaf 5
  end.
Definition enc_sub (sb : sub) : tree :=
  T 0 [znat (s_cls sb); znat (s_h sb); leaf (s_f sb); leaf (s_p sb)].
Definition enc_hub (s : hub) : tree :=
  T 0 [znat (paused s);
       T 0 (map (fun m => T 0 (enc_msg m)) (queue s));
       T 0 (map znat (ign s));
       T 0 (map (fun e => T (Z.of_nat (fst e)) (map enc_sub (snd e))) (subs s))].
Definition enc_status (st : status) : tree := leaf (match st with Normal => 0 | Raised => 1 end).

Definition enc_gstatus (st : gstatus) : tree := leaf (match st with GNormal => 0 | GRaised => 1 | GCrash => 2 end).
Definition enc_ghub (g : ghub) : tree :=
  T 0 [leaf (g_paused g);
       T 0 (map (fun m => T 0 (enc_msg m)) (g_queue g));
       T 0 (flat_map (fun e : nat * Z => repeat (znat (fst e)) (Z.to_nat (snd e))) (g_ignore g));
       T 0 (map (fun e : nat * container => T (Z.of_nat (fst e))
                   (map (fun x : nat * (GH * Z * Z) =>
                           T 0 [znat (fst x); znat (snd (fst (fst (snd x)))); leaf (snd (fst (snd x))); leaf (snd (snd x))])
                        (snd e))) (g_subscriptions g))].

(* (1 fuel (0 parents...) (0 (0 handler-script...)...) (0 script...))  ->  (1 status (0 events...) hub) | (-1 3) *)
Definition run_case (t : tree) : tree :=
  match t with
  | T 1 [T fuel _; ps; T _ hs; T _ sc] =>
    let w := tree_world (map tnat (kids ps)) (map (fun h => map dec_action (kids h)) hs) in
    match run (Z.to_nat fuel) w empty_hub (TScript (map dec_action sc)) with
    | Some (st, s, lg) => T 1 [enc_status st; T 0 (map enc_event lg); enc_hub s]
    | None => err 3
    end
  (* _find_handlers alone: (2 (0 parents...) (0 (l sub...)...) id cls) -> (0 (0 l h)...) *)
  | T 2 [ps; T _ ss; T i _; c] =>
    let w := tree_world (map tnat (kids ps)) [] in
    let S := map (fun e => (tnat e, map (fun x => {| s_cls := tnat (kid 0 x); s_h := tnat (kid 1 x);
                                                       s_f := tag (kid 2 x); s_p := tag (kid 3 x) |}) (kids e))) ss in
    T 0 (map (fun lh => T 0 [znat (fst lh); znat (snd lh)]) (find_handlers w S (i, tnat c)))
  (* the same two entry points on the translated hub: (3 ...) as (1 ...), (4 ...) as (2 ...) *)
  | T 3 [T fuel _; ps; T _ hs; T _ sc] =>
    let w := tree_world (map tnat (kids ps)) (map (fun h => map dec_action (kids h)) hs) in
    match grun (Z.to_nat fuel) w gempty (GScript (map dec_action sc)) with
    | Some (st, g, lg) => T 1 [enc_gstatus st; T 0 (map enc_event lg); enc_ghub g]
    | None => err 3
    end
  | T 4 [ps; T _ ss; T i _; c] =>
    let w := tree_world (map tnat (kids ps)) [] in
    let S := map (fun e => (tnat e, map (fun x => (tnat (kid 0 x), ((tnat e, tnat (kid 1 x)), tag (kid 2 x), tag (kid 3 x)))) (kids e))) ss in
    match hub_find_handlers (gops w) (gset_subscriptions gempty S) (i, tnat c) with
    | Some hs => T 0 (map (fun lh => T 0 [znat (fst lh); znat (snd (snd lh)); znat (fst (snd lh))]) hs)
    | None => err 5
    end
  | _ => err (-2)
  end.
