(* C07 — the functions translated from glue/core/hub.py (gen/Gen_hub.v, regenerated on every run) agree with the
   hand-written model of Model.v: [hub_find_handlers] computes [find_handlers], the three subscription operations
   compute [subscribe_op] / [unsubscribe_op] / [unsubscribe_all_op], and the interpreter [grun] over the translated
   methods simulates [run] step for step (same fuel, same status, same log, related states). *)
From Coq Require Import ZArith List Bool Arith Lia.
Import ListNotations.
From GV Require Import gen.Gen_hub C07.Model C07.Spec C07.Lemmas0 C07.Lemmas1 C07.Lemmas2.
Open Scope nat_scope.

(* ---------- how a model state is represented in the translated hub ---------- *)
Definition emb_sub (l : lid) (sb : sub) : nat * (GH * Z * Z) := (s_cls sb, ((l, s_h sb), s_f sb, s_p sb)).
Definition emb_entry (e : lid * list sub) : nat * @container GH Z := (fst e, map (emb_sub (fst e)) (snd e)).
Definition emb_subs (S : list (lid * list sub)) : dict (@container GH Z) := map emb_entry S.
Definition emb_hs (hs : list (lid * hid)) : list (lid * GH) := map (fun lh => (fst lh, lh)) hs.
Definition emb_c (x : lid * hid * Z) : lid * GH * Z := (fst (fst x), fst x, snd x).

(* the Counter agrees with the stack of ignored classes: the count of a class is the number of its occurrences *)
Definition ctr_agree (c : dict Z) (ig : list cls) : Prop :=
  forall k, ctr_getitem k c = Z.of_nat (count_occ Nat.eq_dec ig k).

Definition R (g : ghub) (s : hub) : Prop :=
  g_subscriptions g = emb_subs (subs s) /\
  g_paused g = Z.of_nat (paused s) /\
  g_queue g = queue s /\
  ctr_agree (g_ignore g) (ign s).

Definition emb_status (st : status) : gstatus := match st with Normal => GNormal | Raised => GRaised end.

Definition emb_task (t : task) : gtask :=
  match t with
  | TScript sc => GScript sc
  | TAct a => GAct a
  | TBcast m => GBcast m
  | THandlers m hs => GHandlers m (emb_hs hs)
  | TFlush q => GFlush q
  end.

Definition Rres (a : option res) (b : option gres) : Prop :=
  match a, b with
  | None, None => True
  | Some (st, s, l), Some (st', g, l') => st' = emb_status st /\ l' = l /\ R g s
  | _, _ => False
  end.

(* the aliases for [nat] of the two files hide in implicit arguments and make [rewrite] miss: unfold them on both sides *)
Ltac nrm := cbv delta [Gen_hub.lid Gen_hub.cls Model.lid Model.cls hid GH msg gmsg] in *.
Ltac nrw L := let H := fresh "Hn" in pose proof L as H; nrm; rewrite H; clear H.

(* ---------- dict lemmas ---------- *)
Section Dict.
Context {V : Type}.
Implicit Types d : dict V.

Lemma d_getitem_setitem_same : forall k (v : V) d, d_getitem k (d_setitem k v d) = Some v.
Proof.
  induction d as [|e t IH]; simpl; [now rewrite Nat.eqb_refl|].
  destruct (fst e =? k) eqn:E; simpl; [now rewrite E|rewrite E; exact IH].
Qed.

Lemma d_setitem_setitem : forall k (v1 v2 : V) d, d_setitem k v2 (d_setitem k v1 d) = d_setitem k v2 d.
Proof.
  induction d as [|e t IH]; simpl; [now rewrite Nat.eqb_refl|].
  destruct (fst e =? k) eqn:E; simpl; rewrite E; [reflexivity|now rewrite IH].
Qed.

Lemma d_contains_getitem : forall k d, d_contains k d = true -> exists v, d_getitem k d = Some v.
Proof.
  induction d as [|e t IH]; simpl; [discriminate|].
  destruct (fst e =? k); simpl; eauto.
Qed.

Lemma d_getitem_contains : forall k d v, d_getitem k d = Some v -> d_contains k d = true.
Proof.
  induction d as [|e t IH]; simpl; [discriminate|].
  intros v. destruct (fst e =? k); simpl; eauto.
Qed.

Lemma d_get_setitem : forall k k' (v dflt : V) d,
  d_get k' dflt (d_setitem k v d) = if k' =? k then v else d_get k' dflt d.
Proof.
  unfold d_get. induction d as [|e t IH]; simpl.
  - rewrite (Nat.eqb_sym k k'). destruct (k' =? k); reflexivity.
  - destruct (fst e =? k) eqn:E; simpl.
    + apply Nat.eqb_eq in E. subst k. rewrite (Nat.eqb_sym (fst e) k'). destruct (k' =? fst e); reflexivity.
    + destruct (fst e =? k') eqn:E'.
      * apply Nat.eqb_eq in E'. subst k'. rewrite E. reflexivity.
      * exact IH.
Qed.
End Dict.

(* ---------- the Counter of ignored classes ---------- *)
Lemma ctr_agree_ignored : forall c ig m, ctr_agree c ig ->
  (d_get (py_type m) 0%Z c >? 0)%Z = existsb (Nat.eqb (mcls m)) ig.
Proof.
  intros c ig m H. pose proof (H (mcls m)) as E.
  change (ctr_getitem (mcls m) c) with (d_get (py_type m) 0%Z c) in E. rewrite E.
  clear H E. unfold mcls. induction ig as [|x t IH]; [reflexivity|]. simpl existsb.
  destruct (Nat.eq_dec x (snd m)) as [Ex|N].
  - rewrite (count_occ_cons_eq _ _ Ex). subst x.
    match goal with |- _ = (?b || _) => replace b with true by (symmetry; apply Nat.eqb_refl) end.
    simpl orb. apply Z.gtb_lt. lia.
  - rewrite (count_occ_cons_neq _ _ N).
    match goal with |- _ = (?b || _) => destruct b eqn:E end; [apply Nat.eqb_eq in E; exfalso; apply N; symmetry; exact E|]. simpl. exact IH.
Qed.

Lemma ctr_agree_push : forall c ig k, ctr_agree c ig ->
  ctr_agree (d_setitem k (ctr_getitem k c + 1)%Z c) (k :: ig).
Proof.
  intros c ig k H k'. unfold ctr_getitem. rewrite d_get_setitem.
  destruct (Nat.eq_dec k k') as [Ek|N].
  - rewrite (count_occ_cons_eq _ _ Ek). subst k'. rewrite Nat.eqb_refl. fold (ctr_getitem k c). rewrite H. lia.
  - rewrite (count_occ_cons_neq _ _ N).
    destruct (k' =? k) eqn:E; [apply Nat.eqb_eq in E; congruence|]. apply H.
Qed.

Lemma ctr_agree_pop : forall c ig k, ctr_agree c (k :: ig) ->
  ctr_agree (d_setitem k (ctr_getitem k c - 1)%Z c) ig.
Proof.
  intros c ig k H k'. unfold ctr_getitem. rewrite d_get_setitem.
  specialize (H k') as Hk'.
  destruct (Nat.eq_dec k k') as [Ek|N].
  - rewrite (count_occ_cons_eq _ _ Ek) in Hk'. subst k'. rewrite Nat.eqb_refl. fold (ctr_getitem k c). rewrite Hk'. lia.
  - rewrite (count_occ_cons_neq _ _ N) in Hk'.
    destruct (k' =? k) eqn:E; [apply Nat.eqb_eq in E; congruence|]. exact Hk'.
Qed.

(* ---------- _find_handlers ---------- *)
Section Find.
Variable w : world.
Variable m : msg.
Let o := gops w.
Let key := @hub_mro_count GH Z o.

Lemma key_mro : forall c, key c = Z.of_nat (mro w c).
Proof. intros c. unfold key, hub_mro_count, o, gops. simpl. now rewrite repeat_length. Qed.

(* max(.., key=..) as a right fold *)
Fixpoint rmax (l : list nat) : option nat :=
  match l with
  | [] => None
  | x :: t => match rmax t with
              | Some b => if (key x <? key b)%Z then Some b else Some x
              | None => Some x
              end
  end.

Lemma py_max_from_rmax : forall l cur,
  py_max_from key cur l = match rmax l with
                          | None => cur
                          | Some b => if (key cur <? key b)%Z then b else cur
                          end.
Proof.
  induction l as [|x t IH]; intros cur; simpl; [reflexivity|].
  rewrite !IH. destruct (rmax t) as [b|].
  - destruct (Z.ltb_spec (key x) (key b)); destruct (Z.ltb_spec (key cur) (key x));
      destruct (Z.ltb_spec (key cur) (key b)); try reflexivity; try lia.
  - destruct (Z.ltb_spec (key cur) (key x)); reflexivity.
Qed.

Lemma py_max_rmax : forall l, py_max key l = rmax l.
Proof.
  destruct l as [|x t]; simpl; [reflexivity|]. rewrite py_max_from_rmax.
  destruct (rmax t); [destruct (_ <? _)%Z|]; reflexivity.
Qed.

Lemma best_gen : forall l ss,
  let ks := filter (fun c => issub w (mcls m) c) (map s_cls ss) in
  match best w m ss with
  | None => ks = []
  | Some sb => rmax ks = Some (s_cls sb) /\
               d_getitem (s_cls sb) (map (emb_sub l) ss) = Some (l, s_h sb, s_f sb, s_p sb)
  end.
Proof.
  intros l. induction ss as [|a t IH]; simpl; [reflexivity|].
  unfold matches at 1. destruct (issub w (mcls m) (s_cls a)) eqn:Ea; simpl.
  - destruct (best w m t) as [b|] eqn:Eb; simpl in IH.
    + destruct IH as [IH1 IH2]. rewrite IH1. rewrite !key_mro.
      destruct (mro w (s_cls a) <? mro w (s_cls b)) eqn:El.
      * apply Nat.ltb_lt in El.
        replace (Z.of_nat (mro w (s_cls a)) <? Z.of_nat (mro w (s_cls b)))%Z with true
          by (symmetry; apply Z.ltb_lt; lia).
        split; [reflexivity|].
        destruct (s_cls a =? s_cls b) eqn:Ec; [apply Nat.eqb_eq in Ec; rewrite Ec in El; lia|exact IH2].
      * apply Nat.ltb_ge in El.
        replace (Z.of_nat (mro w (s_cls a)) <? Z.of_nat (mro w (s_cls b)))%Z with false
          by (symmetry; apply Z.ltb_ge; lia).
        split; [reflexivity|]. now rewrite Nat.eqb_refl.
    + rewrite IH. simpl. split; [reflexivity|]. now rewrite Nat.eqb_refl.
  - destruct (best w m t) as [b|] eqn:Eb; simpl in IH; [|exact IH].
    destruct IH as [IH1 IH2]. split; [exact IH1|].
    destruct (s_cls a =? s_cls b) eqn:Ec; [|exact IH2].
    apply Nat.eqb_eq in Ec. destruct (best_spec _ _ _ _ Eb) as [_ [Hm _]].
    unfold matches in Hm. rewrite <- Ec in Hm. congruence.
Qed.

Lemma loop1_candidates : forall (g : ghub) S acc,
  hub_find_handlers_loop1 o g m (emb_subs S) (map emb_c acc) = Some (map emb_c (acc ++ candidates w S m)).
Proof.
  intros g. induction S as [|e t IH]; intros acc; simpl.
  - now rewrite app_nil_r.
  - unfold hcc_keys, hcc_getitem, d_keys. rewrite map_map. simpl.
    change (map (fun x : sub => s_cls x) (snd e)) with (map s_cls (snd e)).
    pose proof (best_gen (fst e) (snd e)) as HB. simpl in HB.
    unfold candidates. simpl. fold (candidates w t m). unfold cand at 1.
    set (ks0 := filter (fun c : cls => issub w (mcls m) c) (map s_cls (snd e))) in *.
    change (filter (fun msg : Gen_hub.cls => issub w (py_type m) msg) (map s_cls (snd e))) with ks0.
    destruct (best w m (snd e)) as [sb|] eqn:Eb.
    + destruct HB as [HB1 HB2].
      destruct ks0 as [|k ks] eqn:Ef; [simpl in HB1; discriminate|].
      simpl length. simpl Z.of_nat.
      replace (Z.pos (Pos.of_succ_nat (length ks)) =? 0)%Z with false by reflexivity.
      fold key. rewrite py_max_rmax, HB1, HB2. simpl.
      destruct (fpass w (s_f sb) m) eqn:Ep; simpl.
      * change (map emb_c acc ++ [(fst e, (fst e, s_h sb), s_p sb)])
          with (map emb_c acc ++ map emb_c [(fst e, s_h sb, s_p sb)]).
        rewrite <- map_app, IH, <- app_assoc. reflexivity.
      * apply IH.
    + rewrite HB. simpl. apply IH.
Qed.

Lemma insert_emb : forall x l,
  py_insert (fun y : lid * GH * Z => snd y) true (emb_c x) (map emb_c l) = map emb_c (insert_desc x l).
Proof.
  induction l as [|y t IH]; simpl; [reflexivity|].
  destruct (snd x <? snd y)%Z; simpl; [now rewrite IH|reflexivity].
Qed.

Lemma sorted_emb : forall l,
  py_sorted (fun y : lid * GH * Z => snd y) true (map emb_c l) = map emb_c (sort_desc l).
Proof.
  unfold py_sorted, sort_desc. induction l as [|x t IH]; simpl; [reflexivity|].
  now rewrite IH, insert_emb.
Qed.

Theorem find_handlers_gen : forall (g : ghub) S,
  g_subscriptions g = emb_subs S ->
  hub_find_handlers o g m = Some (emb_hs (find_handlers w S m)).
Proof.
  intros g S HS. unfold hub_find_handlers. unfold d_items. rewrite HS.
  pose proof (loop1_candidates g S []) as HL. simpl in HL. nrm. rewrite HL. nrw sorted_emb.
  unfold find_handlers, emb_hs. rewrite !map_map. f_equal.
Qed.
End Find.

(* ---------- subscribe / unsubscribe / unsubscribe_all on the table ---------- *)
Lemma emb_contains : forall l S, d_contains l (emb_subs S) = existsb (fun e => fst e =? l) S.
Proof. intros. unfold d_contains, emb_subs. induction S as [|e t IH]; simpl; [reflexivity|now rewrite IH]. Qed.

Lemma setitem_emb_sub : forall l sb ss,
  d_setitem (s_cls sb) (l, s_h sb, s_f sb, s_p sb) (map (emb_sub l) ss) = map (emb_sub l) (set_sub sb ss).
Proof.
  induction ss as [|x t IH]; simpl; [reflexivity|].
  destruct (s_cls x =? s_cls sb) eqn:E; simpl; [|now rewrite IH].
  apply Nat.eqb_eq in E. unfold emb_sub at 2. simpl. now rewrite E.
Qed.

Lemma emb_subscribe : forall l sb S,
  (d_contains l (emb_subs S) = false ->
   d_setitem l [emb_sub l sb] (emb_subs S) = emb_subs (subscribe_op l sb S)) /\
  (forall c_, d_getitem l (emb_subs S) = Some c_ ->
   d_setitem l (d_setitem (s_cls sb) (l, s_h sb, s_f sb, s_p sb) c_) (emb_subs S) = emb_subs (subscribe_op l sb S)).
Proof.
  induction S as [|e t [IH1 IH2]]; simpl.
  - split; [reflexivity|discriminate].
  - unfold d_contains in *. simpl. destruct (fst e =? l) eqn:E; simpl.
    + split; [discriminate|]. intros c_ Hc. inversion Hc; subst c_.
      apply Nat.eqb_eq in E. unfold emb_entry. simpl. rewrite E. now rewrite setitem_emb_sub.
    + split.
      * intros H. now rewrite IH1.
      * intros c_ Hc. now rewrite (IH2 _ Hc).
Qed.

Lemma pop_emb_sub : forall l c ss,
  filter (fun e : nat * (GH * Z * Z) => negb (fst e =? c)) (map (emb_sub l) ss) = map (emb_sub l) (drop_cls c ss).
Proof.
  induction ss as [|x t IH]; simpl; [reflexivity|].
  destruct (s_cls x =? c); simpl; [exact IH|now rewrite IH].
Qed.

Lemma drop_cls_absent : forall l c ss,
  d_contains c (map (emb_sub l) ss) = false -> drop_cls c ss = ss.
Proof.
  unfold d_contains. induction ss as [|x t IH]; simpl; [reflexivity|].
  destruct (s_cls x =? c); simpl; [discriminate|]. intros H. now rewrite IH.
Qed.

Lemma emb_unsubscribe : forall l c S c_,
  d_getitem l (emb_subs S) = Some c_ ->
  (d_contains c c_ = true ->
   exists c', d_pop c c_ = Some c' /\ d_setitem l c' (emb_subs S) = emb_subs (unsubscribe_op l c S)) /\
  (d_contains c c_ = false -> emb_subs S = emb_subs (unsubscribe_op l c S)).
Proof.
  induction S as [|e t IH]; simpl; [discriminate|].
  intros c_ Hc. destruct (fst e =? l) eqn:E; simpl.
  - inversion Hc; subst c_. clear Hc. split.
    + intros H. unfold d_pop. rewrite H. eexists. split; [reflexivity|].
      unfold emb_entry. simpl. now rewrite pop_emb_sub.
    + intros H. unfold emb_entry. simpl. now rewrite (drop_cls_absent _ _ _ H).
  - destruct (IH _ Hc) as [I1 I2]. split.
    + intros H. destruct (I1 H) as [c' [P1 P2]]. exists c'. split; [exact P1|now rewrite P2].
    + intros H. now rewrite <- (I2 H).
Qed.

Lemma unsubscribe_absent : forall l c S, d_contains l (emb_subs S) = false -> unsubscribe_op l c S = S.
Proof.
  unfold d_contains. induction S as [|e t IH]; simpl; [reflexivity|].
  destruct (fst e =? l); simpl; [discriminate|]. intros H. now rewrite IH.
Qed.

Lemma emb_unsubscribe_all : forall l S,
  filter (fun e : nat * @container GH Z => negb (fst e =? l)) (emb_subs S) = emb_subs (unsubscribe_all_op l S).
Proof.
  unfold unsubscribe_all_op. induction S as [|e t IH]; simpl; [reflexivity|].
  destruct (fst e =? l); simpl; [exact IH|now rewrite IH].
Qed.

Lemma unsubscribe_all_absent : forall l S, d_contains l (emb_subs S) = false -> unsubscribe_all_op l S = S.
Proof.
  unfold d_contains, unsubscribe_all_op. induction S as [|e t IH]; simpl; [reflexivity|].
  destruct (fst e =? l); simpl; [discriminate|]. intros H. now rewrite IH.
Qed.

(* ---------- the simulation: [grun] over the translated methods follows [run] ---------- *)
Lemma frame_run : forall n w s t st s' lg,
  run n w s t = Some (st, s', lg) -> ign s' = ign s /\ paused s' = paused s.
Proof. intros n w s t st s' lg H. eapply Eval_frame. eapply run_sound. exact H. Qed.

Lemma R_set_subs : forall g s S, R g s -> R (gset_subscriptions g (emb_subs S)) (set_subs s S).
Proof. intros g s S (H1 & H2 & H3 & H4). repeat split; assumption. Qed.

(* both sides of a recursive call, related by the induction hypothesis *)
Ltac sim IH w s g t HR :=
  let H := fresh "Hsim" in
  pose proof (IH w s g t HR) as H; simpl emb_task in H; unfold Rres in H;
  let st := fresh "st" in let s1 := fresh "s" in let l1 := fresh "l" in
  let gst := fresh "gst" in let g1 := fresh "g" in let gl := fresh "gl" in
  let Er := fresh "Er" in
  destruct (run _ w s t) as [[[st s1] l1]|] eqn:Er;
  match type of H with
  | context [match ?x with _ => _ end] => destruct x as [[[gst g1] gl]|]
  end; try contradiction;
  [ destruct H as (-> & -> & H) | ].

Ltac fin := simpl; split; [reflexivity|split; [try reflexivity|try assumption]].

Theorem gen_refines : forall fuel w s g t, R g s -> Rres (run fuel w s t) (grun fuel w g (emb_task t)).
Proof.
  induction fuel as [|n IH]; intros w s g t HR; [exact I|].
  simpl run. simpl grun.
  destruct t as [sc | a | m | m hs | q]; simpl emb_task.
  - (* TScript *)
    destruct sc as [|a rest]; [fin|]. simpl.
    sim IH w s g (TAct a) HR; [|exact I].
    destruct st; [|fin]. simpl.
    sim IH w s0 g0 (TScript rest) Hsim; [|exact I].
    fin.
  - (* TAct *)
    destruct a as [i c | b | c b | l c h f p | l c | l | ].
    + (* Broadcast *) exact (IH w s g (TBcast (i, c)) HR).
    + (* Delay *)
      cbn [step gstep]. unfold hub_delay_callbacks, try_finally.
      assert (HR0 : R (gset_paused g (g_paused g + 1)%Z) (set_paused s (S (paused s)))).
      { destruct HR as (H1 & H2 & H3 & H4). repeat split; try assumption. simpl. rewrite H2. lia. }
      sim IH w (set_paused s (S (paused s))) (gset_paused g (g_paused g + 1)%Z) (TScript b) HR0; [|exact I].
      destruct (frame_run _ _ _ _ _ _ _ Er) as [_ Hp]. simpl in Hp.
      assert (HR1 : R (gset_paused g0 (g_paused g0 - 1)%Z) (set_paused s0 (paused s))).
      { destruct Hsim as (G1 & G2 & G3 & G4). repeat split; try assumption. simpl. rewrite G2, Hp. lia. }
      rewrite Hp. cbn [Init.Nat.pred].
      assert (Hz : (g_paused (gset_paused g0 (g_paused g0 - 1)) =? 0)%Z = (paused s =? 0)).
      { destruct HR1 as (_ & G2 & _). rewrite G2. simpl. destruct (paused s); reflexivity. }
      rewrite Hz. cbn [paused set_paused].
      destruct (paused s) as [|k] eqn:Eps; cbn [Nat.eqb].
      * cbn [rec_delay_callbacks_loop1 grecs queue set_paused].
        assert (HR2 : R (gset_queue (gset_paused g0 (g_paused g0 - 1)%Z) []) (set_queue (set_paused s0 0) [])).
        { destruct HR1 as (G1 & G2 & G3 & G4). repeat split; assumption. }
        replace (g_queue (gset_paused g0 (g_paused g0 - 1)%Z)) with (queue s0)
          by (destruct Hsim as (_ & _ & G3 & _); symmetry; exact G3).
        sim IH w (set_queue (set_paused s0 0) []) (gset_queue (gset_paused g0 (g_paused g0 - 1)%Z) []) (TFlush (queue s0)) HR2; [|exact I].
        simpl. split; [destruct st, st0; reflexivity|]. split; [|assumption].
        rewrite <- !app_assoc. reflexivity.
      * simpl. split; [destruct st; reflexivity|]. split; [|assumption].
        rewrite app_nil_r, <- app_assoc. reflexivity.
    + (* Ignore *)
      cbn [step gstep]. unfold hub_ignore_callbacks, try_finally.
      set (g' := gset_ignore g (d_setitem c (ctr_getitem c (g_ignore g) + 1)%Z (g_ignore g))).
      assert (HR0 : R g' (set_ign s (c :: ign s))).
      { destruct HR as (H1 & H2 & H3 & H4). repeat split; try assumption. apply ctr_agree_push. exact H4. }
      sim IH w (set_ign s (c :: ign s)) g' (TScript b) HR0; [|exact I].
      destruct (frame_run _ _ _ _ _ _ _ Er) as [Hi _]. simpl in Hi.
      rewrite Hi. simpl remove_first. rewrite Nat.eqb_refl.
      simpl. split; [destruct st; reflexivity|]. split; [now rewrite app_nil_r|].
      destruct Hsim as (G1 & G2 & G3 & G4). repeat split; try assumption.
      simpl. apply ctr_agree_pop. rewrite <- Hi. exact G4.
    + (* Subscribe *)
      cbn [step gstep]. unfold hub_subscribe.
      cbn [h_truthy notify_of gops snd].
      set (sb := {| s_cls := c; s_h := h; s_f := f; s_p := p |}).
      assert (Hh : (if negb (negb (h =? 0)) then (l, 0) else (l, h)) = (l, h)).
      { destruct (h =? 0) eqn:E; [apply Nat.eqb_eq in E; now subst|reflexivity]. }
      destruct HR as (H1 & H2 & H3 & H4).
      pose proof (emb_subscribe l sb (subs s)) as [E1 E2].
      unfold sb in E1, E2. cbn [s_cls s_h s_f s_p emb_sub] in E1, E2. fold sb in E1, E2.
      assert (Hcore : forall hv, hv = (l, h) ->
        Rres (Some (Normal, set_subs s (subscribe_op l sb (subs s)), []))
          (if negb (d_contains l (g_subscriptions g))
           then match d_getitem l (g_subscriptions (gset_subscriptions g (d_setitem l hcc_new (g_subscriptions g)))) with
                | Some c_ => Some (GNormal,
                    gset_subscriptions (gset_subscriptions g (d_setitem l hcc_new (g_subscriptions g)))
                      (d_setitem l (d_setitem c (hv, f, p) c_)
                         (g_subscriptions (gset_subscriptions g (d_setitem l hcc_new (g_subscriptions g))))), [])
                | None => Some (GCrash, gset_subscriptions g (d_setitem l hcc_new (g_subscriptions g)), [])
                end
           else match d_getitem l (g_subscriptions g) with
                | Some c_ => Some (GNormal, gset_subscriptions g (d_setitem l (d_setitem c (hv, f, p) c_) (g_subscriptions g)), [])
                | None => Some (GCrash, g, [])
                end)).
      { intros hv ->. cbn [g_subscriptions gset_subscriptions]. rewrite H1.
        destruct (d_contains l (emb_subs (subs s))) eqn:Ec; cbn [negb].
        - destruct (d_contains_getitem _ _ Ec) as [c_ Hc]. rewrite Hc.
          simpl. split; [reflexivity|split; [reflexivity|]].
          repeat split; try assumption. simpl. exact (E2 _ Hc).
        - rewrite d_getitem_setitem_same. unfold hcc_new. cbn [d_setitem]. rewrite d_setitem_setitem.
          simpl. split; [reflexivity|split; [reflexivity|]].
          repeat split; try assumption. simpl. exact (E1 eq_refl). }
      destruct (h =? 0) eqn:E0; cbn [negb].
      * apply Nat.eqb_eq in E0. apply Hcore. now subst h.
      * apply Hcore. reflexivity.
    + (* Unsubscribe *)
      cbn [step gstep]. unfold hub_unsubscribe, hcc_contains, hcc_pop.
      destruct HR as (H1 & H2 & H3 & H4). rewrite H1.
      destruct (d_contains l (emb_subs (subs s))) eqn:Ec; cbn [negb].
      * destruct (d_contains_getitem _ _ Ec) as [c_ Hc]. rewrite Hc.
        destruct (emb_unsubscribe l c (subs s) c_ Hc) as [U1 U2].
        destruct (d_contains c c_) eqn:Ecc.
        -- destruct (U1 eq_refl) as [c' [P1 P2]]. rewrite P1.
           simpl. split; [reflexivity|split; [reflexivity|]].
           repeat split; try assumption.
        -- simpl. split; [reflexivity|split; [reflexivity|]].
           repeat split; try assumption; simpl; rewrite H1; exact (U2 eq_refl).
      * simpl. split; [reflexivity|split; [reflexivity|]].
        repeat split; try assumption. simpl. now rewrite (unsubscribe_absent _ _ _ Ec).
    + (* UnsubscribeAll *)
      cbn [step gstep]. unfold hub_unsubscribe_all, d_pop.
      destruct HR as (H1 & H2 & H3 & H4). rewrite H1.
      destruct (d_contains l (emb_subs (subs s))) eqn:Ec.
      * simpl. split; [reflexivity|split; [reflexivity|]].
        repeat split; try assumption. simpl. apply emb_unsubscribe_all.
      * simpl. split; [reflexivity|split; [reflexivity|]].
        repeat split; try assumption. simpl. now rewrite (unsubscribe_all_absent _ _ Ec).
    + fin.
  - (* TBcast *)
    cbn [step gstep]. unfold hub_broadcast.
    destruct HR as (H1 & H2 & H3 & H4).
    rewrite (ctr_agree_ignored _ _ m H4). fold (ignored s m).
    destruct (ignored s m); [fin; repeat split; assumption|].
    rewrite H2.
    destruct (paused s) as [|k] eqn:Eps.
    + cbn [Z.of_nat Z.eqb negb].
      rewrite (find_handlers_gen w m g (subs s) H1). cbn [rec_broadcast_loop1 grecs].
      apply (IH w s g (THandlers m (find_handlers w (subs s) m))). repeat split; try assumption. now rewrite Eps.
    + replace (negb (Z.of_nat (S k) =? 0)%Z) with true by reflexivity.
      simpl. split; [reflexivity|split; [reflexivity|]].
      repeat split; try assumption; simpl; [now rewrite Eps|now rewrite H3].
  - (* THandlers *)
    cbn [step gstep]. destruct hs as [|[l h] hs]; [fin|].
    cbn [emb_hs map fst]. unfold hub_broadcast_loop1. cbn [call_handler grecs fst snd].
    sim IH w s g (TScript (hscript w h)) HR; [|exact I].
    destruct st; [|fin]. cbn [emb_status seq_k rec_broadcast_loop1 grecs].
    fold (emb_hs hs).
    sim IH w s0 g0 (THandlers m hs) Hsim; [|exact I].
    simpl. split; [reflexivity|split; [|assumption]].
    now rewrite <- app_assoc.
  - (* TFlush *)
    cbn [step gstep]. destruct q as [|m q]; [fin|].
    unfold hub_delay_callbacks_loop1. cbn [rec_broadcast grecs].
    sim IH w s g (TBcast m) HR; [|exact I].
    destruct st; [|fin]. cbn [emb_status seq_k rec_delay_callbacks_loop1 grecs].
    sim IH w s0 g0 (TFlush q) Hsim; [|exact I].
    fin.
Qed.
