(* C07 — sanity runs of the model and non-vacuity of the theorems' hypotheses. *)
From Coq Require Import ZArith List Bool Arith Lia.
Import ListNotations.
From GV Require Import C07.Lemmas.
Open Scope nat_scope.

(* class tree of the harness: 0 root, 1 < 0, 2 < 1, 3 < 0 *)
Definition ps := [0; 0; 1; 0].
(* handler 0 records; 1 broadcasts class 3; 2 opens a delay block and broadcasts; 3 unsubscribes listener 1 *)
Definition scripts : list (list action) :=
  [ [];
    [Broadcast 900 3];
    [Delay [Broadcast 901 3]; Broadcast 902 3];
    [UnsubscribeAll 1] ].
Definition w0 := tree_world ps scripts.

Lemma w0_rf : handlers_rf w0.
Proof.
  intros h. unfold w0, tree_world, scripts; simpl.
  do 5 (destruct h as [|h]; [reflexivity|]). destruct h; reflexivity.
Qed.

Definition setup : list action :=
  [Subscribe 0 0 0 0 10; Subscribe 1 1 2 0 20; Subscribe 1 3 0 0 5; Subscribe 2 2 1 2 20].

Definition logof (r : option res) : list event :=
  match r with Some (_, _, lg) => lg | None => [] end.
Definition hubof (r : option res) : hub :=
  match r with Some (_, s, _) => s | None => empty_hub end.

Definition s0 : hub := hubof (run 50 w0 empty_hub (TScript setup)).

Example s0_wf : wf_subs (subs s0) /\ paused s0 = 0 /\ queue s0 = [].
Proof.
  vm_compute. repeat split; repeat constructor; simpl; intuition congruence.
Qed.

(* most specific subscription, priorities: a class-2 message with an even identity goes to listener 2 (class 2, prio 20, filter even),
   listener 1 (its class-1 subscription, prio 20, found earlier) comes first among equal priorities, then listener 0 (prio 10) *)
Example find_example : find_handlers w0 (subs s0) (4%Z, 2) = [(1, 2); (2, 1); (0, 0)].
Proof. vm_compute. reflexivity. Qed.
Example find_example_odd : find_handlers w0 (subs s0) (5%Z, 2) = [(1, 2); (0, 0)].
Proof. vm_compute. reflexivity. Qed.
Example find_example_sibling : find_handlers w0 (subs s0) (5%Z, 3) = [(0, 0); (1, 0)].
Proof. vm_compute. reflexivity. Qed.

(* nested delay blocks (F-C07a): nothing is delivered before the outermost block closes *)
Example nested_delay :
  logof (run 50 w0 s0 (TScript [Delay [Broadcast 1 3; Delay [Broadcast 2 3]; Broadcast 3 3]])) =
  [EOpen; EOpen; EEnd; EClose; EEnd;
   ECall 0 0 (1%Z, 3); ERet 0 0 (1%Z, 3); ECall 1 0 (1%Z, 3); ERet 1 0 (1%Z, 3);
   ECall 0 0 (2%Z, 3); ERet 0 0 (2%Z, 3); ECall 1 0 (2%Z, 3); ERet 1 0 (2%Z, 3);
   ECall 0 0 (3%Z, 3); ERet 0 0 (3%Z, 3); ECall 1 0 (3%Z, 3); ERet 1 0 (3%Z, 3);
   EClose].
Proof. vm_compute. reflexivity. Qed.

(* a handler that opens a delay block while the queue is being delivered (F-C07b): each queued message once *)
Example delay_in_handler_during_flush :
  logof (run 80 w0 s0 (TScript [Delay [Broadcast 1 1; Broadcast 2 1]])) =
  [EOpen; EEnd;
   ECall 1 2 (1%Z, 1);
     EOpen; EEnd; ECall 0 0 (901%Z, 3); ERet 0 0 (901%Z, 3); ECall 1 0 (901%Z, 3); ERet 1 0 (901%Z, 3); EClose;
     ECall 0 0 (902%Z, 3); ERet 0 0 (902%Z, 3); ECall 1 0 (902%Z, 3); ERet 1 0 (902%Z, 3);
   ERet 1 2 (1%Z, 1);
   ECall 0 0 (1%Z, 1); ERet 0 0 (1%Z, 1);
   ECall 1 2 (2%Z, 1);
     EOpen; EEnd; ECall 0 0 (901%Z, 3); ERet 0 0 (901%Z, 3); ECall 1 0 (901%Z, 3); ERet 1 0 (901%Z, 3); EClose;
     ECall 0 0 (902%Z, 3); ERet 0 0 (902%Z, 3); ECall 1 0 (902%Z, 3); ERet 1 0 (902%Z, 3);
   ERet 1 2 (2%Z, 1);
   ECall 0 0 (2%Z, 1); ERet 0 0 (2%Z, 1);
   EClose].
Proof. vm_compute. reflexivity. Qed.

(* an exception inside the block: the queue is still delivered, the exception propagates, ignored classes are dropped *)
Example raise_in_delay :
  run 50 w0 s0 (TScript [Delay [Broadcast 1 3; Ignore 3 [Broadcast 2 3]; Raise; Broadcast 3 3]; Broadcast 4 3]) =
  Some (Raised, s0,
        [EOpen; EEnd; ECall 0 0 (1%Z, 3); ERet 0 0 (1%Z, 3); ECall 1 0 (1%Z, 3); ERet 1 0 (1%Z, 3); EClose]).
Proof. vm_compute. reflexivity. Qed.

(* fuel exhaustion is an explicit outcome: a handler that re-broadcasts the class it receives *)
Example divergence :
  run 200 (tree_world ps [[]; [Broadcast 9 1]]) empty_hub (TScript [Subscribe 0 0 1 0 10; Broadcast 1 2]) = None.
Proof. vm_compute. reflexivity. Qed.

(* ---------- non-vacuity: concrete non-trivial instances of the hypotheses of each theorem ---------- *)

Example nv_deliver_once :
  handlers_rf w0 /\ wf_subs (subs s0) /\ paused s0 = 0 /\ ignored s0 (4%Z, 2) = false /\
  exists st s' lg, run 50 w0 s0 (TBcast (4%Z, 2)) = Some (st, s', lg) /\ length (top 0 lg) = 3.
Proof.
  split; [exact w0_rf|]. destruct s0_wf as [A [B C]].
  split; [exact A|]. split; [exact B|]. split; [vm_compute; reflexivity|].
  eexists _, _, _. split; [vm_compute; reflexivity|reflexivity].
Qed.

Example nv_delay_holds :
  exists st s' lg,
    run 80 w0 s0 (TAct (Delay [Broadcast 1 1; Delay [Broadcast 2 3]; Ignore 3 [Broadcast 3 3]; Raise])) = Some (st, s', lg) /\
    fst (queued (ign s0) [Broadcast 1 1; Delay [Broadcast 2 3]; Ignore 3 [Broadcast 3 3]; Raise]) = [(1%Z, 1); (2%Z, 3)] /\
    snd (queued (ign s0) [Broadcast 1 1; Delay [Broadcast 2 3]; Ignore 3 [Broadcast 3 3]; Raise]) = true /\
    st = Raised.
Proof. eexists _, _, _. split; [vm_compute; reflexivity|]. repeat split. Qed.

Example nv_open_block :
  let s := set_paused s0 2 in
  paused s <> 0 /\
  exists st s' lg, run 50 w0 s (TScript [Broadcast 1 3; Delay [Broadcast 2 1]]) = Some (st, s', lg) /\ queue s' = [(1%Z, 3); (2%Z, 1)].
Proof. split; [simpl; lia|]. eexists _, _, _. split; [vm_compute; reflexivity|reflexivity]. Qed.

Example nv_nested_broadcast :
  hscript w0 2 = [Delay [Broadcast 901 3]] ++ Broadcast 902 3 :: [] /\
  exists st s' lg, run 50 w0 s0 (THandlers (7%Z, 1) [(1, 2); (0, 0)]) = Some (st, s', lg).
Proof. split; [reflexivity|]. eexists _, _, _. vm_compute. reflexivity. Qed.

Example nv_per_listener_order :
  exists st s' lg,
    run 80 w0 s0 (TScript [Broadcast 1 3; Delay [Broadcast 2 1; Broadcast 3 3]; Broadcast 4 2]) = Some (st, s', lg) /\
    map snd (top 0 lg) = [(1%Z, 3); (1%Z, 3); (2%Z, 1); (2%Z, 1); (3%Z, 3); (3%Z, 3); (4%Z, 2); (4%Z, 2); (4%Z, 2)].
Proof. eexists _, _, _. split; [vm_compute; reflexivity|reflexivity]. Qed.

Example nv_ignore :
  ignored (set_ign s0 [3]) (1%Z, 3) = true /\ ignored (set_ign s0 [3]) (1%Z, 0) = false /\
  exists st s' lg, run 50 w0 s0 (TAct (Ignore 3 [Broadcast 1 3; Ignore 3 [Raise]])) = Some (st, s', lg) /\ ign s' = ign s0.
Proof. repeat split. eexists _, _, _. split; [vm_compute; reflexivity|reflexivity]. Qed.

(* a handler that unsubscribes another listener does not change who receives the message being delivered *)
Example nv_unsubscribe_during_delivery :
  logof (run 50 w0 empty_hub (TScript [Subscribe 0 1 3 0 10; Subscribe 1 1 0 0 5; Broadcast 1 1; Broadcast 2 1])) =
  [ECall 0 3 (1%Z, 1); ERet 0 3 (1%Z, 1); ECall 1 0 (1%Z, 1); ERet 1 0 (1%Z, 1);
   ECall 0 3 (2%Z, 1); ERet 0 3 (2%Z, 1)].
Proof. vm_compute. reflexivity. Qed.

(* the same identity broadcast several times - inside a delay block, in a nested block, before an exception -
   is delivered every time, at its own position (two listeners receive class 3 here) *)
Example same_identity_several_times :
  map snd (top 0 (logof (run 80 w0 s0
     (TScript [Broadcast 1 3; Delay [Broadcast 1 3; Broadcast 2 3; Broadcast 1 3; Delay [Broadcast 1 3]; Raise]])))) =
  [(1%Z, 3); (1%Z, 3);
   (1%Z, 3); (1%Z, 3); (2%Z, 3); (2%Z, 3); (1%Z, 3); (1%Z, 3); (1%Z, 3); (1%Z, 3)].
Proof. vm_compute. reflexivity. Qed.

Example nv_same_message_twice :
  ignored s0 (1%Z, 3) = false /\
  exists st s' lg, run 80 w0 s0 (TAct (Delay [Broadcast 1 3; Broadcast 1 3])) = Some (st, s', lg) /\ length (top 0 lg) = 4.
Proof. split; [vm_compute; reflexivity|]. eexists _, _, _. split; [vm_compute; reflexivity|reflexivity]. Qed.

(* ---------- the translated hub (gen/Gen_hub.v): sanity runs and non-vacuity of the gen_* theorems ---------- *)
From GV Require Import gen.Gen_hub C07.GenEquiv C07.GenLemmas.

Definition glogof (r : option Model.gres) : list event :=
  match r with Some (_, _, lg) => lg | None => [] end.
Definition ghubof (r : option Model.gres) : Model.ghub :=
  match r with Some (_, g, _) => g | None => gempty end.

(* the translated hub after the same set-up: it represents s0 *)
Definition g0 : Model.ghub := ghubof (grun 50 w0 gempty (GScript setup)).

Example g0_represents_s0 : R g0 s0.
Proof.
  pose proof (GenLemmas.gen_refines 50 w0 empty_hub gempty (TScript setup) GenLemmas.gen_start) as H.
  unfold g0, s0. simpl emb_task in H.
  destruct (run 50 w0 empty_hub (TScript setup)) as [[[st s] l]|] eqn:E1;
    destruct (grun 50 w0 gempty (GScript setup)) as [[[gst g] gl]|] eqn:E2; try contradiction.
  - exact (proj2 (proj2 H)).
  - vm_compute in E1. discriminate E1.
Qed.

Example g0_table : g_subscriptions g0 =
  [(0, [(0, ((0, 0), 0%Z, 10%Z))]);
   (1, [(1, ((1, 2), 0%Z, 20%Z)); (3, ((1, 0), 0%Z, 5%Z))]);
   (2, [(2, ((2, 1), 2%Z, 20%Z))])].
Proof. vm_compute. reflexivity. Qed.

(* the translated _find_handlers on the examples above: (listener, handler object) with the handler object = (listener, script) *)
Example gen_find_example :
  hub_find_handlers (gops w0) g0 (4%Z, 2) = Some [(1, (1, 2)); (2, (2, 1)); (0, (0, 0))].
Proof. vm_compute. reflexivity. Qed.
Example gen_find_example_odd :
  hub_find_handlers (gops w0) g0 (5%Z, 2) = Some [(1, (1, 2)); (0, (0, 0))].
Proof. vm_compute. reflexivity. Qed.

(* nested delay blocks through the translated delay_callbacks / broadcast: the same log as the model *)
Example gen_nested_delay :
  glogof (grun 50 w0 g0 (GScript [Delay [Broadcast 1 3; Delay [Broadcast 2 3]; Broadcast 3 3]])) =
  logof (run 50 w0 s0 (TScript [Delay [Broadcast 1 3; Delay [Broadcast 2 3]; Broadcast 3 3]])).
Proof. vm_compute. reflexivity. Qed.

Example gen_delay_in_handler_during_flush :
  glogof (grun 80 w0 g0 (GScript [Delay [Broadcast 1 1; Broadcast 2 1]])) =
  logof (run 80 w0 s0 (TScript [Delay [Broadcast 1 1; Broadcast 2 1]])) /\
  glogof (grun 80 w0 g0 (GScript [Delay [Broadcast 1 1; Broadcast 2 1]])) <> [].
Proof. vm_compute. split; [reflexivity|discriminate]. Qed.

(* an ignore block inside a delay block, a raise inside a delay block: status 1 = GRaised, the queue is flushed, counts back to 0 *)
Example gen_raise_in_delay :
  match grun 50 w0 g0 (GScript [Delay [Ignore 3 [Broadcast 1 3]; Broadcast 2 3; Raise]]) with
  | Some (st, g, lg) => st = GRaised /\ g_paused g = 0%Z /\ g_queue g = [] /\ ctr_getitem 3 (g_ignore g) = 0%Z /\
                        top 0 lg = [((0, 0), (2%Z, 3)); ((1, 0), (2%Z, 3))]
  | None => False
  end.
Proof. vm_compute. repeat split; reflexivity. Qed.

(* hypotheses of gen_open_block_only_queues / gen_delay_holds_everything / gen_per_listener_order / gen_deliver_once_right_listeners are met by g0 *)
Example nv_gen_delay_holds :
  R g0 s0 /\ handlers_rf w0 /\ wf_subs (subs s0) /\ g_paused g0 = 0%Z /\ g_queue g0 = [] /\
  exists r, grun 80 w0 g0 (GAct (Delay [Broadcast 1 1; Delay [Broadcast 2 3]])) = Some r.
Proof.
  split; [exact g0_represents_s0|]. split; [exact w0_rf|]. split; [exact (proj1 s0_wf)|].
  split; [vm_compute; reflexivity|]. split; [vm_compute; reflexivity|].
  vm_compute. eexists. reflexivity.
Qed.

Example nv_gen_open_block :
  let g1 := gset_paused g0 2%Z in
  R g1 (set_paused s0 2) /\ g_paused g1 <> 0%Z /\
  exists g', grun 50 w0 g1 (GScript [Broadcast 1 3; Delay [Broadcast 2 3]; Ignore 3 [Broadcast 3 3]]) = Some (GNormal, g', [EOpen; EEnd; EClose]) /\
             g_queue g' = [(1%Z, 3); (2%Z, 3)].
Proof.
  simpl. split; [|split; [discriminate|]].
  - destruct g0_represents_s0 as (H1 & H2 & H3 & H4). repeat split; assumption.
  - vm_compute. eexists. split; reflexivity.
Qed.

Example nv_gen_deliver_once :
  (ctr_getitem (py_type (4%Z, 2%nat)) (g_ignore g0) <= 0)%Z /\
  exists g', grun 50 w0 g0 (GBcast (4%Z, 2)) = Some (GNormal, g', glogof (grun 50 w0 g0 (GBcast (4%Z, 2)))) /\
             top 0 (glogof (grun 50 w0 g0 (GBcast (4%Z, 2)))) = to_calls (4%Z, 2) [(1, 2); (2, 1); (0, 0)].
Proof. vm_compute. split; [discriminate|]. eexists. split; reflexivity. Qed.

(* the direct facts about the translated methods are used with non-trivial callbacks by gstep; here with constant ones *)
Example nv_gen_inner_exit :
  let r := grecs w0 (fun _ _ => None) in
  hub_delay_callbacks (gops w0) r (fun g => Some (GRaised, g, [EEnd])) (gset_paused g0 1%Z) =
  Some (GRaised, gset_paused g0 1%Z, [EEnd]).
Proof. vm_compute. reflexivity. Qed.

(* the real message classes: DataMessage (7) is a parent of ComponentsChangedMessage (14), parent of ComponentReplacedMessage (15) *)
Example real_class_tree :
  length msg_parents = 32 /\ tree_issub msg_parents 15 7 = true /\ tree_issub msg_parents 15 3 = false /\
  nth 15 msg_mro_counts 0%Z = 5%Z.
Proof. vm_compute. repeat split; reflexivity. Qed.
