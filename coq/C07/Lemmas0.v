(* C07 — list-level lemmas: logs (top / balanced), Blocks, Subseq, static script functions,
   _find_handlers (best / candidates / stable sort) and the subscription operations. *)
From Coq Require Import ZArith List Bool Arith Lia Permutation.
Import ListNotations.
From GV Require Import C07.Model C07.Spec.
Open Scope nat_scope.

(* ---------- logs ---------- *)

Lemma balanced_app : forall a b, balanced a -> balanced b -> balanced (a ++ b).
Proof.
  intros a b Ha Hb. induction Ha as [|e lg He Ha IH|l h m l1 l2 H1 IH1 H2 IH2]; simpl; auto.
  - constructor; auto.
  - rewrite <- app_assoc. simpl. apply bal_call; auto.
Qed.

Lemma marks_balanced : forall lg, Forall is_mark lg -> balanced lg.
Proof. induction 1; constructor; auto. Qed.

Lemma top_marks : forall lg, Forall is_mark lg -> forall d rest, top d (lg ++ rest) = top d rest.
Proof.
  induction 1 as [|e lg He Hl IH]; intros d rest; simpl; auto.
  destruct e; simpl in He; try contradiction; apply IH.
Qed.

Lemma top_bal_S : forall lg, balanced lg -> forall d rest, top (S d) (lg ++ rest) = top (S d) rest.
Proof.
  induction 1 as [|e lg He Ha IH|l h m l1 l2 H1 IH1 H2 IH2]; intros d rest; simpl; auto.
  - destruct e; simpl in He; try contradiction; apply IH.
  - rewrite <- app_assoc. rewrite IH1. simpl. apply IH2.
Qed.

Lemma top_call : forall l h m l1 l2, balanced l1 ->
  top 0 (ECall l h m :: l1 ++ ERet l h m :: l2) = (l, h, m) :: top 0 l2.
Proof. intros. simpl. rewrite top_bal_S by assumption. reflexivity. Qed.

Lemma top_bal_0 : forall lg, balanced lg -> forall rest, top 0 (lg ++ rest) = top 0 lg ++ top 0 rest.
Proof.
  induction 1 as [|e lg He Ha IH|l h m l1 l2 H1 IH1 H2 IH2]; intros rest; auto.
  - simpl. destruct e; simpl in He; try contradiction; apply IH.
  - rewrite top_call by assumption.
    change ((ECall l h m :: l1 ++ ERet l h m :: l2) ++ rest) with (ECall l h m :: (l1 ++ ERet l h m :: l2) ++ rest).
    rewrite <- app_assoc. simpl app. rewrite top_call by assumption. rewrite IH2. reflexivity.
Qed.

Lemma top_marks_nil : forall lg d, Forall is_mark lg -> top d lg = [].
Proof. intros lg d H. rewrite <- (app_nil_r lg). rewrite top_marks by assumption. reflexivity. Qed.

(* ---------- Subseq ---------- *)

Lemma Subseq_nil : forall A (l : list A), Subseq [] l.
Proof. induction l; constructor; auto. Qed.

Lemma Subseq_refl : forall A (l : list A), Subseq l l.
Proof. induction l; constructor; auto. Qed.

Lemma Subseq_app : forall A (a b c d : list A), Subseq a b -> Subseq c d -> Subseq (a ++ c) (b ++ d).
Proof. induction 1; intros; simpl; auto; constructor; auto. Qed.

Lemma Subseq_app_r : forall A (a b c : list A), Subseq a b -> Subseq a (b ++ c).
Proof.
  intros. rewrite <- (app_nil_r a). apply Subseq_app; auto. apply Subseq_nil.
Qed.

(* ---------- Blocks ---------- *)

Lemma Blocks_nil_r : forall ms, Blocks ms [].
Proof.
  induction ms as [|m ms IH]; [constructor|].
  change (Blocks (m :: ms) ([] ++ [])). constructor; auto.
  - intros c [].
  - constructor.
Qed.

Lemma Blocks_app : forall a x b y, Blocks a x -> Blocks b y -> Blocks (a ++ b) (x ++ y).
Proof.
  induction 1; intros; simpl; auto.
  rewrite <- app_assoc. constructor; auto.
Qed.

Lemma Blocks_subseq : forall q ms, Subseq q ms -> forall cs, Blocks q cs -> Blocks ms cs.
Proof.
  induction 1 as [|x a b Hs IH|x a b Hs IH]; intros cs Hb; auto.
  - inversion Hb; subst. constructor; auto.
  - change (Blocks (x :: b) ([] ++ cs)). constructor; auto.
    + intros c [].
    + constructor.
Qed.

Lemma Blocks_single : forall m hs, NoDup (map fst hs) -> Blocks [m] (to_calls m hs).
Proof.
  intros m hs Hn. rewrite <- (app_nil_r (to_calls m hs)). constructor.
  - unfold to_calls. intros c Hc. apply in_map_iff in Hc. destruct Hc as [lh [E _]]. subst c. reflexivity.
  - unfold to_calls. rewrite map_map. simpl. exact Hn.
  - constructor.
Qed.

(* ---------- induction on actions (nested through lists) ---------- *)

Lemma action_ind2 : forall P : action -> Prop,
  (forall i c, P (Broadcast i c)) ->
  (forall b, Forall P b -> P (Delay b)) ->
  (forall c b, Forall P b -> P (Ignore c b)) ->
  (forall l c h f p, P (Subscribe l c h f p)) ->
  (forall l c, P (Unsubscribe l c)) ->
  (forall l, P (UnsubscribeAll l)) ->
  P Raise ->
  forall a, P a.
Proof.
  intros P HB HD HI HS HU HUA HR.
  fix IH 1. intros a. destruct a.
  - apply HB.
  - apply HD. induction body; constructor; auto.
  - apply HI. induction body; constructor; auto.
  - apply HS.
  - apply HU.
  - apply HUA.
  - apply HR.
Qed.

Lemma seqq_cons : forall f a t,
  seqq f (a :: t) = if snd (f a) then f a else (fst (f a) ++ fst (seqq f t), snd (seqq f t)).
Proof. reflexivity. Qed.

Lemma seqq_subseq : forall (f : action -> list msg * bool) b,
  Forall (fun a => Subseq (fst (f a)) (bcasts_a a)) b ->
  Subseq (fst (seqq f b)) (flat_map bcasts_a b).
Proof.
  induction 1 as [|a t Ha Ht IH]; [constructor|].
  rewrite seqq_cons. simpl flat_map. destruct (snd (f a)).
  - apply Subseq_app_r. exact Ha.
  - simpl. apply Subseq_app; auto.
Qed.

Lemma queued_a_subseq : forall a ig, Subseq (fst (queued_a ig a)) (bcasts_a a).
Proof.
  intros a. induction a using action_ind2; intros ig; simpl; try apply sub_nil.
  - destruct (ignoredl ig c); [apply Subseq_nil|apply Subseq_refl].
  - apply seqq_subseq. eapply Forall_impl; [|exact H]. simpl. auto.
  - apply seqq_subseq. eapply Forall_impl; [|exact H]. simpl. auto.
Qed.

Lemma queued_subseq : forall sc ig, Subseq (fst (queued ig sc)) (bcasts sc).
Proof.
  intros. apply seqq_subseq. apply Forall_forall. intros. apply queued_a_subseq.
Qed.

Lemma ignoredl_cons : forall c ig x, ignoredl (c :: ig) x = false -> ignoredl ig x = false.
Proof. unfold ignoredl. simpl. intros c ig x H. apply orb_false_iff in H. tauto. Qed.

Lemma seqq_in : forall (f : action -> list msg * bool) (Q : msg -> Prop) b,
  Forall (fun a => forall m, In m (fst (f a)) -> Q m) b ->
  forall m, In m (fst (seqq f b)) -> Q m.
Proof.
  induction 1 as [|a t Ha Ht IH]; intros m Hm; [destruct Hm|].
  rewrite seqq_cons in Hm. destruct (snd (f a)); auto.
  simpl in Hm. apply in_app_or in Hm. destruct Hm; auto.
Qed.

Lemma queued_a_not_ignored : forall a ig m, In m (fst (queued_a ig a)) -> ignoredl ig (mcls m) = false.
Proof.
  intros a. induction a using action_ind2; intros ig m Hm; simpl in Hm; try contradiction.
  - destruct (ignoredl ig c) eqn:E; simpl in Hm; [contradiction|].
    destruct Hm as [<-|[]]. exact E.
  - revert m Hm. apply seqq_in. eapply Forall_impl; [|exact H]. simpl. auto.
  - revert m Hm. apply seqq_in. eapply Forall_impl; [|exact H]. simpl.
    intros a Ha m Hm. eapply ignoredl_cons. eauto.
Qed.

Lemma queued_not_ignored : forall sc ig m, In m (fst (queued ig sc)) -> ignoredl ig (mcls m) = false.
Proof.
  intros sc ig. apply seqq_in. apply Forall_forall. intros a _ m. apply queued_a_not_ignored.
Qed.

(* ---------- _find_handlers ---------- *)

Lemma best_spec : forall w m ss sb, best w m ss = Some sb ->
  In sb ss /\ matches w m sb = true /\
  (forall x, In x ss -> matches w m x = true -> mro w (s_cls x) <= mro w (s_cls sb)).
Proof.
  induction ss as [|a t IH]; intros sb H; simpl in H; [discriminate|].
  destruct (matches w m a) eqn:Ea.
  - destruct (best w m t) as [b|] eqn:Eb.
    + destruct (IH b eq_refl) as [Hin [Hm Hmax]].
      destruct (mro w (s_cls a) <? mro w (s_cls b)) eqn:El; inversion H; subst.
      * apply Nat.ltb_lt in El. repeat split; simpl; auto.
        intros x [<-|Hx] Hxm; [lia|auto].
      * apply Nat.ltb_ge in El. repeat split; simpl; auto.
        intros x [<-|Hx] Hxm; [lia|]. specialize (Hmax x Hx Hxm). lia.
    + inversion H; subst. repeat split; simpl; auto.
      intros x [<-|Hx] Hxm; [lia|].
      exfalso. clear -Eb Hx Hxm. induction t as [|y t IHt]; simpl in *; [contradiction|].
      destruct (matches w m y) eqn:Ey.
      * destruct (best w m t); [destruct (_ <? _)|]; discriminate.
      * destruct Hx as [<-|Hx]; [congruence|auto].
  - destruct (IH sb H) as [Hin [Hm Hmax]]. repeat split; simpl; auto.
    intros x [<-|Hx] Hxm; [congruence|auto].
Qed.

Lemma best_none : forall w m ss, best w m ss = None <-> (forall x, In x ss -> matches w m x = false).
Proof.
  induction ss as [|a t IH]; simpl.
  - split; auto. intros _ x [].
  - destruct (matches w m a) eqn:Ea.
    + split.
      * destruct (best w m t); [destruct (_ <? _)|]; discriminate.
      * intros H. specialize (H a (or_introl eq_refl)). congruence.
    + rewrite IH. split; intros H x; [intros [<-|Hx]; auto|auto].
Qed.

(* the first maximal one is chosen: nothing before it is as specific *)
Lemma best_first : forall w m ss sb, best w m ss = Some sb ->
  exists pre post, ss = pre ++ sb :: post /\
    forall x, In x pre -> matches w m x = true -> mro w (s_cls x) < mro w (s_cls sb).
Proof.
  induction ss as [|a t IH]; intros sb H; simpl in H; [discriminate|].
  destruct (matches w m a) eqn:Ea.
  - destruct (best w m t) as [b|] eqn:Eb.
    + destruct (mro w (s_cls a) <? mro w (s_cls b)) eqn:El; inversion H; subst.
      * apply Nat.ltb_lt in El. destruct (IH sb eq_refl) as [pre [post [E Hp]]].
        exists (a :: pre), post. split; [simpl; congruence|].
        intros x [<-|Hx] Hm; auto.
      * exists [], t. split; auto. intros x [].
    + inversion H; subst. exists [], t. split; auto. intros x [].
  - destruct (IH sb H) as [pre [post [E Hp]]].
    exists (a :: pre), post. split; [simpl; congruence|].
    intros x [<-|Hx] Hm; [congruence|auto].
Qed.

Lemma insert_perm : forall x l, Permutation (insert_desc x l) (x :: l).
Proof.
  induction l as [|y t IH]; simpl; auto.
  destruct (snd x <? snd y)%Z; auto.
  eapply perm_trans; [apply perm_skip; exact IH|apply perm_swap].
Qed.

Lemma sort_perm : forall l, Permutation (sort_desc l) l.
Proof.
  induction l as [|x t IH]; simpl; auto.
  eapply perm_trans; [apply insert_perm|]. auto.
Qed.

Lemma insert_desc_ok : forall x l, desc l -> desc (insert_desc x l).
Proof.
  induction 1 as [|y t Hy Ht IH]; simpl.
  - constructor; [intros y []|constructor].
  - destruct (snd x <? snd y)%Z eqn:E.
    + apply Z.ltb_lt in E. constructor; auto.
      intros z Hz. apply (Permutation_in _ (insert_perm x t)) in Hz.
      destruct Hz as [<-|Hz]; [unfold prio; lia|auto].
    + apply Z.ltb_ge in E. constructor; [|constructor; auto].
      intros z [<-|Hz]; [unfold prio; lia|]. specialize (Hy z Hz). unfold prio in *. lia.
Qed.

Lemma sort_desc_ok : forall l, desc (sort_desc l).
Proof. induction l; simpl; [constructor|apply insert_desc_ok; auto]. Qed.

Lemma insert_stable : forall p x l,
  filter (fun y => (prio y =? p)%Z) (insert_desc x l) = filter (fun y => (prio y =? p)%Z) (x :: l).
Proof.
  induction l as [|y t IH]; auto.
  simpl insert_desc. destruct (snd x <? snd y)%Z eqn:E; auto.
  apply Z.ltb_lt in E.
  change (filter (fun y0 => (prio y0 =? p)%Z) (y :: insert_desc x t))
    with (if (prio y =? p)%Z then y :: filter (fun y0 => (prio y0 =? p)%Z) (insert_desc x t)
          else filter (fun y0 => (prio y0 =? p)%Z) (insert_desc x t)).
  rewrite IH. simpl. unfold prio in *.
  destruct (snd y =? p)%Z eqn:Ey; destruct (snd x =? p)%Z eqn:Ex; auto.
  apply Z.eqb_eq in Ey, Ex. lia.
Qed.

(* equal priorities keep the order in which the candidates were found *)
Lemma sort_stable : forall p l,
  filter (fun y => (prio y =? p)%Z) (sort_desc l) = filter (fun y => (prio y =? p)%Z) l.
Proof.
  induction l as [|x t IH]; auto.
  simpl sort_desc. rewrite insert_stable. simpl. rewrite IH. reflexivity.
Qed.

Definition lst_of (x : lid * hid * Z) : lid := fst (fst x).

Lemma cand_cases : forall w m e, cand w m e = [] \/ exists h p, cand w m e = [(fst e, h, p)].
Proof.
  intros. unfold cand. destruct (best w m (snd e)); auto.
  destruct (fpass w (s_f s) m); eauto.
Qed.

Lemma candidates_listeners : forall w m S,
  NoDup (map fst S) ->
  NoDup (map lst_of (candidates w S m)) /\
  (forall x, In x (map lst_of (candidates w S m)) -> In x (map fst S)).
Proof.
  induction S as [|e t IH]; intros Hn; simpl.
  - split; [constructor|auto].
  - inversion Hn as [|? ? Hnot Hn']; subst. destruct (IH Hn') as [IH1 IH2].
    destruct (cand_cases w m e) as [E|[h [p E]]]; unfold candidates in *; simpl; rewrite E; simpl.
    + split; auto.
    + split.
      * constructor; auto.
      * intros x [<-|Hx]; auto.
Qed.

Lemma find_handlers_listeners : forall w S m,
  map fst (find_handlers w S m) = map lst_of (sort_desc (candidates w S m)).
Proof. intros. unfold find_handlers. rewrite map_map. reflexivity. Qed.

Lemma find_handlers_nodup : forall w S m, NoDup (map fst S) -> NoDup (map fst (find_handlers w S m)).
Proof.
  intros w S m Hn. rewrite find_handlers_listeners.
  eapply Permutation_NoDup.
  - apply Permutation_map. apply Permutation_sym. apply sort_perm.
  - apply candidates_listeners. exact Hn.
Qed.

Lemma subs_of_in : forall l ss S, NoDup (map fst S) -> In (l, ss) S -> subs_of l S = ss.
Proof.
  induction S as [|e t IH]; intros Hn Hin; [destruct Hin|].
  inversion Hn as [|? ? Hnot Hn']; subst. simpl. destruct Hin as [->|Hin].
  - simpl. rewrite Nat.eqb_refl. reflexivity.
  - destruct (fst e =? l) eqn:E.
    + apply Nat.eqb_eq in E. exfalso. apply Hnot. rewrite E.
      change l with (fst (l, ss)). apply in_map. exact Hin.
    + auto.
Qed.

(* who receives a message: exactly the listeners whose most specific matching subscription accepts it *)
Lemma find_handlers_in : forall w S m l h, NoDup (map fst S) ->
  (In (l, h) (find_handlers w S m) <->
   In l (map fst S) /\ exists sb, best w m (subs_of l S) = Some sb /\ fpass w (s_f sb) m = true /\ s_h sb = h).
Proof.
  intros w S m l h Hn. unfold find_handlers.
  assert (Hc : forall p, In (l, h, p) (candidates w S m) <->
            In l (map fst S) /\ exists sb, best w m (subs_of l S) = Some sb /\ fpass w (s_f sb) m = true /\ s_h sb = h /\ s_p sb = p).
  { intros p. unfold candidates. rewrite in_flat_map. split.
    - intros [e [He Hx]]. destruct e as [l' ss]. unfold cand in Hx. simpl in Hx.
      destruct (best w m ss) as [sb|] eqn:Eb; [|destruct Hx].
      destruct (fpass w (s_f sb) m) eqn:Ef; [|destruct Hx].
      destruct Hx as [Hx|[]]. inversion Hx; subst.
      split; [change l with (fst (l, ss)); apply in_map; exact He|].
      exists sb. rewrite (subs_of_in _ _ _ Hn He). auto.
    - intros [Hl [sb [Eb [Ef [Eh Ep]]]]].
      apply in_map_iff in Hl. destruct Hl as [[l' ss] [El He]]. simpl in El. subst l'.
      exists (l, ss). split; auto. unfold cand. simpl.
      rewrite (subs_of_in _ _ _ Hn He) in Eb. rewrite Eb, Ef. left. congruence. }
  split.
  - intros H. apply in_map_iff in H. destruct H as [[[l' h'] p] [E H]]. simpl in E. inversion E; subst.
    apply (Permutation_in _ (sort_perm _)) in H. apply Hc in H.
    destruct H as [Hl [sb [? [? [? ?]]]]]. split; auto. exists sb. auto.
  - intros [Hl [sb [Eb [Ef Eh]]]].
    apply in_map_iff. exists (l, h, s_p sb). split; auto.
    apply (Permutation_in _ (Permutation_sym (sort_perm _))). apply Hc. split; auto. exists sb. auto.
Qed.

(* ---------- subscription operations ---------- *)

Lemma set_sub_in : forall sb ss x, In x (set_sub sb ss) -> x = sb \/ In x ss.
Proof.
  induction ss as [|y t IH]; simpl; intros x H.
  - destruct H as [<-|[]]; auto.
  - destruct (s_cls y =? s_cls sb); simpl in H.
    + destruct H; auto.
    + destruct H as [<-|H]; auto. destruct (IH x H); auto.
Qed.

Lemma set_sub_cls : forall sb ss c, In c (map s_cls (set_sub sb ss)) -> c = s_cls sb \/ In c (map s_cls ss).
Proof.
  intros sb ss c H. apply in_map_iff in H. destruct H as [x [<- Hx]].
  destruct (set_sub_in _ _ _ Hx) as [->|Hi]; auto. right. apply in_map. exact Hi.
Qed.

Lemma set_sub_nodup : forall sb ss, NoDup (map s_cls ss) -> NoDup (map s_cls (set_sub sb ss)).
Proof.
  induction ss as [|y t IH]; simpl; intros Hn.
  - constructor; [intros []|constructor].
  - inversion Hn as [|? ? Hnot Hn']; subst.
    destruct (s_cls y =? s_cls sb) eqn:E; simpl.
    + apply Nat.eqb_eq in E. rewrite <- E. constructor; auto.
    + apply Nat.eqb_neq in E. constructor; auto.
      intros Hc. destruct (set_sub_cls _ _ _ Hc); auto.
Qed.

Lemma subscribe_keys : forall l sb S x, In x (map fst (subscribe_op l sb S)) -> x = l \/ In x (map fst S).
Proof.
  induction S as [|e t IH]; simpl; intros x H.
  - destruct H as [<-|[]]; auto.
  - destruct (fst e =? l); simpl in H.
    + destruct H; auto.
    + destruct H as [<-|H]; auto. destruct (IH x H); auto.
Qed.

Lemma subscribe_wf : forall l sb S, wf_subs S -> wf_subs (subscribe_op l sb S).
Proof.
  unfold wf_subs. induction S as [|e t IH]; simpl; intros [Hn Hf].
  - split; repeat constructor; auto.
  - inversion Hn as [|? ? Hnot Hn']; subst. inversion Hf as [|? ? He Hf']; subst.
    destruct (fst e =? l) eqn:E; simpl.
    + split; constructor; auto. simpl. apply set_sub_nodup. exact He.
    + apply Nat.eqb_neq in E. destruct (IH (conj Hn' Hf')) as [I1 I2].
      split; constructor; auto.
      intros Hc. destruct (subscribe_keys _ _ _ _ Hc); auto.
Qed.

Lemma NoDup_map_filter : forall A B (f : A -> B) (p : A -> bool) l, NoDup (map f l) -> NoDup (map f (filter p l)).
Proof.
  induction l as [|x t IH]; simpl; intros Hn; auto.
  inversion Hn as [|? ? Hnot Hn']; subst. destruct (p x); simpl; auto.
  constructor; auto. intros Hc. apply Hnot.
  apply in_map_iff in Hc. destruct Hc as [y [E Hy]]. apply filter_In in Hy.
  rewrite <- E. apply in_map. tauto.
Qed.

Lemma unsubscribe_keys : forall l c S, map fst (unsubscribe_op l c S) = map fst S.
Proof.
  induction S as [|e t IH]; simpl; auto.
  destruct (fst e =? l); simpl; congruence.
Qed.

Lemma unsubscribe_wf : forall l c S, wf_subs S -> wf_subs (unsubscribe_op l c S).
Proof.
  unfold wf_subs. intros l c S [Hn Hf]. split; [rewrite unsubscribe_keys; auto|].
  clear Hn. induction Hf as [|e t He Hf IH]; simpl; auto.
  destruct (fst e =? l); constructor; auto.
  simpl. unfold drop_cls. apply NoDup_map_filter. exact He.
Qed.

Lemma unsubscribe_all_wf : forall l S, wf_subs S -> wf_subs (unsubscribe_all_op l S).
Proof.
  unfold wf_subs, unsubscribe_all_op. intros l S [Hn Hf]. split.
  - apply NoDup_map_filter. exact Hn.
  - apply Forall_forall. intros e He. apply filter_In in He.
    rewrite Forall_forall in Hf. apply Hf. tauto.
Qed.

(* what the operations do to each listener's subscriptions *)
Lemma subs_of_subscribe_same : forall l sb S, subs_of l (subscribe_op l sb S) = set_sub sb (subs_of l S).
Proof.
  induction S as [|e t IH]; simpl.
  - rewrite Nat.eqb_refl. reflexivity.
  - destruct (fst e =? l) eqn:E; simpl; rewrite E; auto.
Qed.

Lemma subs_of_subscribe_other : forall l l' sb S, l' <> l -> subs_of l' (subscribe_op l sb S) = subs_of l' S.
Proof.
  induction S as [|e t IH]; simpl; intros Hne.
  - destruct (l =? l') eqn:E; auto. apply Nat.eqb_eq in E. congruence.
  - destruct (fst e =? l) eqn:E; simpl.
    + apply Nat.eqb_eq in E. destruct (fst e =? l') eqn:E'; auto.
      apply Nat.eqb_eq in E'. congruence.
    + destruct (fst e =? l'); auto.
Qed.

Lemma subs_of_unsubscribe_same : forall l c S, subs_of l (unsubscribe_op l c S) = drop_cls c (subs_of l S).
Proof.
  induction S as [|e t IH]; simpl; auto.
  destruct (fst e =? l) eqn:E; simpl; rewrite E; auto.
Qed.

Lemma subs_of_unsubscribe_other : forall l l' c S, l' <> l -> subs_of l' (unsubscribe_op l c S) = subs_of l' S.
Proof.
  induction S as [|e t IH]; simpl; intros Hne; auto.
  destruct (fst e =? l) eqn:E; simpl.
  - apply Nat.eqb_eq in E. destruct (fst e =? l') eqn:E'; auto.
    apply Nat.eqb_eq in E'. congruence.
  - destruct (fst e =? l'); auto.
Qed.

Lemma subs_of_unsubscribe_all_same : forall l S, subs_of l (unsubscribe_all_op l S) = [].
Proof.
  unfold unsubscribe_all_op. induction S as [|e t IH]; simpl; auto.
  destruct (fst e =? l) eqn:E; simpl; auto. rewrite E. auto.
Qed.

Lemma subs_of_unsubscribe_all_other : forall l l' S, l' <> l -> subs_of l' (unsubscribe_all_op l S) = subs_of l' S.
Proof.
  unfold unsubscribe_all_op. induction S as [|e t IH]; simpl; intros Hne; auto.
  destruct (fst e =? l) eqn:E; simpl.
  - apply Nat.eqb_eq in E. destruct (fst e =? l') eqn:E'; auto.
    apply Nat.eqb_eq in E'. congruence.
  - destruct (fst e =? l'); auto.
Qed.

Lemma unsubscribe_all_keys : forall l S, ~ In l (map fst (unsubscribe_all_op l S)).
Proof.
  unfold unsubscribe_all_op. intros l S H. apply in_map_iff in H. destruct H as [e [E He]].
  apply filter_In in He. destruct He as [_ He]. rewrite E, Nat.eqb_refl in He. discriminate.
Qed.

(* a (re)subscription replaces the entry of its class and leaves the others alone *)
Lemma set_sub_spec : forall sb ss x, NoDup (map s_cls ss) ->
  (In x (set_sub sb ss) <-> x = sb \/ (In x ss /\ s_cls x <> s_cls sb)).
Proof.
  induction ss as [|y t IH]; simpl; intros x Hn.
  - split; [intros [<-|[]]; auto|intros [->|[[] _]]; auto].
  - inversion Hn as [|? ? Hnot Hn']; subst.
    destruct (s_cls y =? s_cls sb) eqn:E; simpl.
    + apply Nat.eqb_eq in E. split.
      * intros [<-|H]; auto. right. split; auto. intros Hc. apply Hnot. rewrite E, <- Hc. apply in_map. exact H.
      * intros [->|[[<-|H] Hne]]; auto. congruence.
    + apply Nat.eqb_neq in E. rewrite (IH x Hn'). split.
      * intros [<-|[->|[H Hne]]]; auto.
      * intros [->|[[<-|H] Hne]]; auto.
Qed.

Lemma drop_cls_spec : forall c ss x, In x (drop_cls c ss) <-> In x ss /\ s_cls x <> c.
Proof.
  intros. unfold drop_cls. rewrite filter_In. rewrite negb_true_iff, Nat.eqb_neq. tauto.
Qed.
