(* C07 — big-step relation [Eval] equivalent to the fuelled interpreter [run]:
   [run_sound] (run -> Eval), [run_mono], [run_complete] (Eval -> exists fuel, run). *)
From Coq Require Import ZArith List Bool Arith Lia.
Import ListNotations.
From GV Require Import C07.Model C07.Spec.
Open Scope nat_scope.

Inductive Eval (w : world) : hub -> task -> status -> hub -> list event -> Prop :=
| E_nil s : Eval w s (TScript []) Normal s []
| E_seq_raise s a rest s1 l1 :
    Eval w s (TAct a) Raised s1 l1 ->
    Eval w s (TScript (a :: rest)) Raised s1 l1
| E_seq s a rest s1 l1 st s2 l2 :
    Eval w s (TAct a) Normal s1 l1 ->
    Eval w s1 (TScript rest) st s2 l2 ->
    Eval w s (TScript (a :: rest)) st s2 (l1 ++ l2)
| E_bcast s i c st s1 l1 :
    Eval w s (TBcast (i, c)) st s1 l1 ->
    Eval w s (TAct (Broadcast i c)) st s1 l1
| E_delay_flush s b st s1 l1 st' s3 l3 :
    Eval w (set_paused s (S (paused s))) (TScript b) st s1 l1 ->
    pred (paused s1) = 0 ->
    Eval w (set_queue (set_paused s1 (pred (paused s1))) []) (TFlush (queue s1)) st' s3 l3 ->
    Eval w s (TAct (Delay b)) (join st st') s3 (EOpen :: l1 ++ EEnd :: l3 ++ [EClose])
| E_delay_inner s b st s1 l1 k :
    Eval w (set_paused s (S (paused s))) (TScript b) st s1 l1 ->
    pred (paused s1) = S k ->
    Eval w s (TAct (Delay b)) st (set_paused s1 (pred (paused s1))) (EOpen :: l1 ++ [EEnd; EClose])
| E_ignore s c b st s1 l1 :
    Eval w (set_ign s (c :: ign s)) (TScript b) st s1 l1 ->
    Eval w s (TAct (Ignore c b)) st (set_ign s1 (remove_first c (ign s1))) l1
| E_subscribe s l c h f p :
    Eval w s (TAct (Subscribe l c h f p)) Normal
         (set_subs s (subscribe_op l {| s_cls := c; s_h := h; s_f := f; s_p := p |} (subs s))) []
| E_unsubscribe s l c :
    Eval w s (TAct (Unsubscribe l c)) Normal (set_subs s (unsubscribe_op l c (subs s))) []
| E_unsubscribe_all s l :
    Eval w s (TAct (UnsubscribeAll l)) Normal (set_subs s (unsubscribe_all_op l (subs s))) []
| E_raise s : Eval w s (TAct Raise) Raised s []
| E_b_ignored s m : ignored s m = true -> Eval w s (TBcast m) Normal s []
| E_b_queued s m k :
    ignored s m = false -> paused s = S k ->
    Eval w s (TBcast m) Normal (set_queue s (queue s ++ [m])) []
| E_b_deliver s m st s1 l1 :
    ignored s m = false -> paused s = 0 ->
    Eval w s (THandlers m (find_handlers w (subs s) m)) st s1 l1 ->
    Eval w s (TBcast m) st s1 l1
| E_h_nil s m : Eval w s (THandlers m []) Normal s []
| E_h_raise s m l h hs s1 l1 :
    Eval w s (TScript (hscript w h)) Raised s1 l1 ->
    Eval w s (THandlers m ((l, h) :: hs)) Raised s1 (ECall l h m :: l1)
| E_h_cons s m l h hs s1 l1 st s2 l2 :
    Eval w s (TScript (hscript w h)) Normal s1 l1 ->
    Eval w s1 (THandlers m hs) st s2 l2 ->
    Eval w s (THandlers m ((l, h) :: hs)) st s2 (ECall l h m :: l1 ++ ERet l h m :: l2)
| E_f_nil s : Eval w s (TFlush []) Normal s []
| E_f_raise s m q s1 l1 :
    Eval w s (TBcast m) Raised s1 l1 ->
    Eval w s (TFlush (m :: q)) Raised s1 l1
| E_f_cons s m q s1 l1 st s2 l2 :
    Eval w s (TBcast m) Normal s1 l1 ->
    Eval w s1 (TFlush q) st s2 l2 ->
    Eval w s (TFlush (m :: q)) st s2 (l1 ++ l2).

(* destruct the next [match run n w _ _ with] in hypothesis H *)
Ltac crunch H :=
  repeat match type of H with
         | context [match run ?n ?w ?s ?t with _ => _ end] =>
           let E := fresh "E" in
           destruct (run n w s t) as [[[[|] ?] ?]|] eqn:E; try discriminate H
         | context [match paused ?x with _ => _ end] =>
           let E := fresh "Ep" in destruct (paused x) eqn:E; try discriminate H
         | context [if ignored ?s ?m then _ else _] =>
           let E := fresh "Ei" in destruct (ignored s m) eqn:E; try discriminate H
         end.

Lemma run_sound : forall n w s t st s' lg,
  run n w s t = Some (st, s', lg) -> Eval w s t st s' lg.
Proof.
  induction n as [|n IH]; intros w s t st s' lg H; [discriminate H|].
  simpl in H. destruct t as [acts|a|m|m hs|q]; simpl in H.
  - destruct acts as [|a rest].
    + inversion H; subst. constructor.
    + crunch H; inversion H; subst.
      * eapply E_seq; eauto.
      * eapply E_seq; eauto.
      * eapply E_seq_raise; eauto.
  - destruct a; simpl in H.
    + apply E_bcast. eauto.
    + destruct (run n w (set_paused s (S (paused s))) (TScript body)) as [[[stb s1] l1]|] eqn:Eb; [|discriminate H].
      simpl in H.
      destruct (pred (paused s1)) eqn:Ep.
      * destruct (run n w (set_queue (set_paused s1 0) []) (TFlush (queue s1))) as [[[stf s3] l3]|] eqn:Ef; [|discriminate H].
        inversion H; subst.
        eapply E_delay_flush; eauto. rewrite Ep. eauto.
      * inversion H; subst. rewrite <- Ep. eapply E_delay_inner; eauto.
    + destruct (run n w (set_ign s (c :: ign s)) (TScript body)) as [[[stb s1] l1]|] eqn:Eb; [|discriminate H].
      inversion H; subst. apply E_ignore. eauto.
    + inversion H; subst. constructor.
    + inversion H; subst. constructor.
    + inversion H; subst. constructor.
    + inversion H; subst. constructor.
  - destruct (ignored s m) eqn:Ei.
    + inversion H; subst. constructor; auto.
    + destruct (paused s) eqn:Ep.
      * eapply E_b_deliver; eauto.
      * inversion H; subst. eapply E_b_queued; eauto.
  - destruct hs as [|[l h] hs].
    + inversion H; subst. constructor.
    + crunch H; inversion H; subst.
      * eapply E_h_cons; eauto.
      * eapply E_h_cons; eauto.
      * eapply E_h_raise; eauto.
  - destruct q as [|m q].
    + inversion H; subst. constructor.
    + crunch H; inversion H; subst.
      * eapply E_f_cons; eauto.
      * eapply E_f_cons; eauto.
      * eapply E_f_raise; eauto.
Qed.

Section RunS.
Local Arguments run : simpl never.
Lemma run_S : forall n w s t r, run n w s t = Some r -> run (S n) w s t = Some r.
Proof.
  induction n as [|n IH]; intros w s t r H; [discriminate H|].
  change (step w (run (S n) w) s t = Some r).
  change (step w (run n w) s t = Some r) in H.
  destruct t as [acts|a|m|m hs|q]; simpl in *.
  - destruct acts as [|a rest]; auto.
    destruct (run n w s (TAct a)) as [[[[|] s1] l1]|] eqn:E1; try discriminate H.
    + rewrite (IH _ _ _ _ E1).
      destruct (run n w s1 (TScript rest)) as [[[st2 s2] l2]|] eqn:E2; try discriminate H.
      rewrite (IH _ _ _ _ E2). auto.
    + rewrite (IH _ _ _ _ E1). auto.
  - destruct a; auto.
    + destruct (run n w (set_paused s (S (paused s))) (TScript body)) as [[[stb s1] l1]|] eqn:Eb; [|discriminate H].
      rewrite (IH _ _ _ _ Eb). simpl in *.
      destruct (pred (paused s1)); auto.
      destruct (run n w (set_queue (set_paused s1 0) []) (TFlush (queue s1))) as [[[stf s3] l3]|] eqn:Ef; [|discriminate H].
      rewrite (IH _ _ _ _ Ef). auto.
    + destruct (run n w (set_ign s (c :: ign s)) (TScript body)) as [[[stb s1] l1]|] eqn:Eb; [|discriminate H].
      rewrite (IH _ _ _ _ Eb). auto.
  - destruct (ignored s m); auto. destruct (paused s); auto.
  - destruct hs as [|[l h] hs]; auto.
    destruct (run n w s (TScript (hscript w h))) as [[[[|] s1] l1]|] eqn:E1; try discriminate H.
    + rewrite (IH _ _ _ _ E1).
      destruct (run n w s1 (THandlers m hs)) as [[[st2 s2] l2]|] eqn:E2; try discriminate H.
      rewrite (IH _ _ _ _ E2). auto.
    + rewrite (IH _ _ _ _ E1). auto.
  - destruct q as [|m q]; auto.
    destruct (run n w s (TBcast m)) as [[[[|] s1] l1]|] eqn:E1; try discriminate H.
    + rewrite (IH _ _ _ _ E1).
      destruct (run n w s1 (TFlush q)) as [[[st2 s2] l2]|] eqn:E2; try discriminate H.
      rewrite (IH _ _ _ _ E2). auto.
    + rewrite (IH _ _ _ _ E1). auto.
Qed.

End RunS.

Lemma run_mono : forall n n' w s t r, n <= n' -> run n w s t = Some r -> run n' w s t = Some r.
Proof.
  intros n n' w s t r Hle H. induction Hle; auto using run_S.
Qed.

Lemma run_complete : forall w s t st s' lg,
  Eval w s t st s' lg -> exists n, run n w s t = Some (st, s', lg).
Proof.
  assert (two : forall w a b s t r s2 t2 r2,
             run a w s t = Some r -> run b w s2 t2 = Some r2 ->
             run (a + b) w s t = Some r /\ run (a + b) w s2 t2 = Some r2).
  { intros. split; eapply run_mono; try eassumption; lia. }
  induction 1.
  - exists 1. reflexivity.
  - destruct IHEval as [n IH]. exists (S n). simpl. rewrite IH. reflexivity.
  - destruct IHEval1 as [n IH1]. destruct IHEval2 as [n0 IH2].
    destruct (two _ _ _ _ _ _ _ _ _ IH1 IH2) as [A B].
    exists (S (n + n0)). simpl. rewrite A, B. reflexivity.
  - destruct IHEval as [n IH]. exists (S n). simpl. exact IH.
  - destruct IHEval1 as [n IH1]. destruct IHEval2 as [n0 IH2].
    destruct (two _ _ _ _ _ _ _ _ _ IH1 IH2) as [A B].
    exists (S (n + n0)). simpl. rewrite A. simpl. rewrite H0 in *. rewrite B. reflexivity.
  - destruct IHEval as [n IH]. exists (S n). simpl. rewrite IH. simpl. rewrite H0. reflexivity.
  - destruct IHEval as [n IH]. exists (S n). simpl. rewrite IH. reflexivity.
  - exists 1. reflexivity.
  - exists 1. reflexivity.
  - exists 1. reflexivity.
  - exists 1. reflexivity.
  - exists 1. simpl. rewrite H. reflexivity.
  - exists 1. simpl. rewrite H, H0. reflexivity.
  - destruct IHEval as [n IH]. exists (S n). simpl. rewrite H, H0. exact IH.
  - exists 1. reflexivity.
  - destruct IHEval as [n IH]. exists (S n). simpl. rewrite IH. reflexivity.
  - destruct IHEval1 as [n IH1]. destruct IHEval2 as [n0 IH2].
    destruct (two _ _ _ _ _ _ _ _ _ IH1 IH2) as [A B].
    exists (S (n + n0)). simpl. rewrite A, B. reflexivity.
  - exists 1. reflexivity.
  - destruct IHEval as [n IH]. exists (S n). simpl. rewrite IH. reflexivity.
  - destruct IHEval1 as [n IH1]. destruct IHEval2 as [n0 IH2].
    destruct (two _ _ _ _ _ _ _ _ _ IH1 IH2) as [A B].
    exists (S (n + n0)). simpl. rewrite A, B. reflexivity.
Qed.
