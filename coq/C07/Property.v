(* C07 — the hub delivers each message exactly once, in order, to the right listeners.
   Statements only; proofs are in Lemmas*.v.  Vocabulary: Spec.v; executable model: Model.v. *)

From Coq Require Import ZArith List Bool Arith Permutation.
Import ListNotations.
From GV Require Import gen.Gen_hub.
From GV Require Import C07.Lemmas C07.GenEquiv C07.GenLemmas.
Open Scope nat_scope.

(* the subscription chosen for a listener is one of its subscriptions whose class is an ancestor of the message's class, and none of its matching subscriptions is more derived; none is chosen only when none matches *)
Theorem most_specific_subscription : forall w m ss,
  match best w m ss with
  | Some sb =>
    In sb ss /\ matches w m sb = true /\
    (forall x, In x ss -> matches w m x = true -> mro w (s_cls x) <= mro w (s_cls sb))
  | None => forall x, In x ss -> matches w m x = false
  end.
Proof. exact Lemmas.most_specific_subscription. Qed.
Print Assumptions most_specific_subscription.

(* the handlers found are the candidates (one per accepting listener, in subscription order) stably sorted by descending priority *)
Theorem recipients_priority_order : forall w S m,
  exists cs,
    find_handlers w S m = map fst cs /\
    Permutation cs (candidates w S m) /\
    desc cs /\
    (forall p, filter (fun y => (prio y =? p)%Z) cs = filter (fun y => (prio y =? p)%Z) (candidates w S m)) /\
    Subseq (map (fun x => fst (fst x)) (candidates w S m)) (map fst S).
Proof. exact Lemmas.recipients_priority_order. Qed.
Print Assumptions recipients_priority_order.

(* a broadcast with no delay block open and its class not ignored calls, as outermost calls, exactly the handlers found in the hub state of that moment, in that order, each listener at most once; and those are the listeners whose most specific matching subscription accepts the message, and nobody else *)
Theorem deliver_once_right_listeners : forall fuel w s m st s' lg,
  handlers_rf w ->
  wf_subs (subs s) ->
  paused s = 0 -> ignored s m = false ->
  run fuel w s (TBcast m) = Some (st, s', lg) ->
  top 0 lg = to_calls m (find_handlers w (subs s) m) /\
  balanced lg /\ st = Normal /\
  NoDup (map fst (find_handlers w (subs s) m)) /\
  (forall l h, In (l, h) (find_handlers w (subs s) m) <->
     In l (map fst (subs s)) /\
     exists sb, best w m (subs_of l (subs s)) = Some sb /\ fpass w (s_f sb) m = true /\ s_h sb = h).
Proof. exact Lemmas.deliver_once_right_listeners. Qed.
Print Assumptions deliver_once_right_listeners.

(* a handler call is its entry, one complete run of its script (whatever that broadcasts is delivered inside), its return; then the remaining handlers *)
Theorem handler_runs_to_completion : forall fuel w s l h m hs st s' lg,
  handlers_rf w ->
  run fuel w s (THandlers m ((l, h) :: hs)) = Some (st, s', lg) ->
  exists n s1 l1 l2,
    run n w s (TScript (hscript w h)) = Some (Normal, s1, l1) /\
    run n w s1 (THandlers m hs) = Some (st, s', l2) /\
    lg = ECall l h m :: l1 ++ ERet l h m :: l2 /\
    balanced l1.
Proof. exact Lemmas.handler_runs_to_completion. Qed.
Print Assumptions handler_runs_to_completion.

(* a broadcast made inside a handler is completely delivered before that handler returns *)
Theorem nested_broadcast_before_return : forall fuel w s l h m hs pre i c post st s' lg,
  handlers_rf w ->
  hscript w h = pre ++ Broadcast i c :: post ->
  run fuel w s (THandlers m ((l, h) :: hs)) = Some (st, s', lg) ->
  exists n s1 lpre s2 lb lpost lrest,
    run n w s (TScript pre) = Some (Normal, s1, lpre) /\
    run n w s1 (TBcast (i, c)) = Some (Normal, s2, lb) /\
    lg = ECall l h m :: lpre ++ lb ++ lpost ++ ERet l h m :: lrest.
Proof. exact Lemmas.nested_broadcast_before_return. Qed.
Print Assumptions nested_broadcast_before_return.

(* while any delay block is open, under any nesting of further delay / ignore blocks, nothing is delivered; the queue grows by the script's non-ignored broadcasts in order; exceptions propagate; depth and ignore counts are restored *)
Theorem open_block_only_queues : forall fuel w s sc st s' lg,
  paused s <> 0 ->
  run fuel w s (TScript sc) = Some (st, s', lg) ->
  no_delivery lg /\
  queue s' = queue s ++ fst (queued (ign s) sc) /\
  st = status_of (snd (queued (ign s) sc)) /\
  paused s' = paused s /\ ign s' = ign s.
Proof. exact Lemmas.open_block_only_queues. Qed.
Print Assumptions open_block_only_queues.

(* an outermost delay block: nothing is delivered while it is open; when it closes - normally or by an exception, which then propagates - every queued message is delivered once, in order, to the handlers found at that moment; afterwards the queue is empty and no block is open *)
Theorem delay_holds_everything : forall fuel w s body st s' lg,
  handlers_rf w -> wf_subs (subs s) ->
  paused s = 0 -> queue s = [] ->
  run fuel w s (TAct (Delay body)) = Some (st, s', lg) ->
  let q := fst (queued (ign s) body) in
  let raised := snd (queued (ign s) body) in
  exists n s1 lbody lflush,
    run n w (set_paused s 1) (TScript body) = Some (status_of raised, s1, lbody) /\
    lg = EOpen :: lbody ++ EEnd :: lflush ++ [EClose] /\
    no_delivery lbody /\
    queue s1 = q /\
    Flushed w (set_queue (set_paused s1 0) []) q lflush s' /\
    Blocks q (top 0 lflush) /\
    st = status_of raised /\
    paused s' = 0 /\ queue s' = [] /\ ign s' = ign s.
Proof. exact Lemmas.delay_holds_everything. Qed.
Print Assumptions delay_holds_everything.

(* a message whose exact class is ignored is neither delivered nor queued; ignore blocks nest (counts add up) and every task, also one ending by an exception, restores the counts *)
Theorem ignore_drops_and_nests :
  (forall fuel w s m r, ignored s m = true -> run fuel w s (TBcast m) = Some r -> r = (Normal, s, [])) /\
  (forall fuel w s c body st s' lg,
      run fuel w s (TAct (Ignore c body)) = Some (st, s', lg) ->
      exists n s1, run n w (set_ign s (c :: ign s)) (TScript body) = Some (st, s1, lg) /\
                   ign s1 = c :: ign s /\ s' = set_ign s1 (ign s)) /\
  (forall s c m, ignored (set_ign s (c :: ign s)) m = (mcls m =? c) || ignored s m) /\
  (forall fuel w s t st s' lg, run fuel w s t = Some (st, s', lg) -> ign s' = ign s).
Proof. exact Lemmas.ignore_drops_and_nests. Qed.
Print Assumptions ignore_drops_and_nests.

(* the outermost deliveries of a script come in blocks that follow the program order of its broadcasts (through delay and ignore blocks), one block per broadcast, at most one delivery per listener in a block; the hub is left idle and well formed *)
Theorem per_listener_order : forall fuel w s sc st s' lg,
  handlers_rf w -> wf_subs (subs s) ->
  paused s = 0 -> queue s = [] ->
  run fuel w s (TScript sc) = Some (st, s', lg) ->
  Blocks (bcasts sc) (top 0 lg) /\ balanced lg /\
  paused s' = 0 /\ queue s' = [] /\ ign s' = ign s /\ wf_subs (subs s').
Proof. exact Lemmas.per_listener_order. Qed.
Print Assumptions per_listener_order.

(* hence no delivery of a later broadcast precedes a delivery of an earlier one *)
Theorem blocks_respect_order : forall ms cs, Blocks ms cs -> NoDup ms ->
  forall x c2 y c1 z a b d,
    cs = x ++ c2 :: y ++ c1 :: z ->
    ms = a ++ snd c1 :: b ++ snd c2 :: d ->
    False.
Proof. exact Lemmas.blocks_respect_order. Qed.
Print Assumptions blocks_respect_order.

(* subscribe / unsubscribe / unsubscribe_all act on the table at once and only on the entry named (a delivery in progress uses the handlers found before its first handler ran: deliver_once_right_listeners) *)
Theorem subscribe_unsubscribe_effect :
  (* the three operations change the subscription table only, and at once *)
  (forall fuel w s l c h f p r,
      run fuel w s (TAct (Subscribe l c h f p)) = Some r ->
      r = (Normal, set_subs s (subscribe_op l {| s_cls := c; s_h := h; s_f := f; s_p := p |} (subs s)), [])) /\
  (forall fuel w s l c r,
      run fuel w s (TAct (Unsubscribe l c)) = Some r -> r = (Normal, set_subs s (unsubscribe_op l c (subs s)), [])) /\
  (forall fuel w s l r,
      run fuel w s (TAct (UnsubscribeAll l)) = Some r -> r = (Normal, set_subs s (unsubscribe_all_op l (subs s)), [])) /\
  (* what they do to the table: the entry of (listener, class) is set / removed, every other entry is kept *)
  (forall l sb S, wf_subs S ->
      wf_subs (subscribe_op l sb S) /\
      (forall x, In x (subs_of l (subscribe_op l sb S)) <-> x = sb \/ (In x (subs_of l S) /\ s_cls x <> s_cls sb)) /\
      (forall l', l' <> l -> subs_of l' (subscribe_op l sb S) = subs_of l' S)) /\
  (forall l c S, wf_subs S ->
      wf_subs (unsubscribe_op l c S) /\
      (forall x, In x (subs_of l (unsubscribe_op l c S)) <-> In x (subs_of l S) /\ s_cls x <> c) /\
      (forall l', l' <> l -> subs_of l' (unsubscribe_op l c S) = subs_of l' S)) /\
  (forall l S, wf_subs S ->
      wf_subs (unsubscribe_all_op l S) /\
      ~ In l (map fst (unsubscribe_all_op l S)) /\
      (forall l', l' <> l -> subs_of l' (unsubscribe_all_op l S) = subs_of l' S)).
Proof. exact Lemmas.subscribe_unsubscribe_effect. Qed.
Print Assumptions subscribe_unsubscribe_effect.

(* deliveries are per broadcast event, not per message identity: the same identity broadcast twice inside a delay block is queued twice and gets two delivery rounds, in order, when the block closes (no de-duplication) *)
Theorem same_message_twice_delivered_twice : forall fuel w s i c st s' lg,
  handlers_rf w -> wf_subs (subs s) ->
  paused s = 0 -> queue s = [] -> ignored s (i, c) = false ->
  run fuel w s (TAct (Delay [Broadcast i c; Broadcast i c])) = Some (st, s', lg) ->
  bcasts [Broadcast i c; Broadcast i c] = [(i, c); (i, c)] /\
  fst (queued (ign s) [Broadcast i c; Broadcast i c]) = [(i, c); (i, c)] /\
  exists s1,
    top 0 lg = to_calls (i, c) (find_handlers w (subs s) (i, c)) ++
               to_calls (i, c) (find_handlers w (subs s1) (i, c)).
Proof. exact Lemmas.same_message_twice_delivered_twice. Qed.
Print Assumptions same_message_twice_delivered_twice.

(* ================= the functions translated from glue/core/hub.py (gen/Gen_hub.v, regenerated on every run) =================
   [grun] is the script interpreter of Model.v whose hub operations are the translated methods hub_broadcast,
   hub_delay_callbacks, hub_ignore_callbacks, hub_subscribe, hub_unsubscribe, hub_unsubscribe_all, hub_find_handlers and
   their loops; [R g s] says that the translated hub state [g] represents the model state [s] (GenEquiv.v). *)

(* the interpreter over the translated methods does, with the same fuel, exactly what the model does: same status, same log, related final states (or both run out of fuel) *)
Theorem gen_refines : forall fuel w s g t, R g s -> Rres (run fuel w s t) (grun fuel w g (emb_task t)).
Proof. exact GenLemmas.gen_refines. Qed.
Print Assumptions gen_refines.

(* the empty translated hub represents the empty model hub *)
Theorem gen_start : R gempty empty_hub.
Proof. exact GenLemmas.gen_start. Qed.
Print Assumptions gen_start.

(* the translated _find_handlers never raises and returns the model's find_handlers *)
Theorem gen_find_handlers : forall w m (g : ghub) S,
  g_subscriptions g = emb_subs S ->
  hub_find_handlers (gops w) g m = Some (emb_hs (find_handlers w S m)).
Proof. exact GenLemmas.gen_find_handlers. Qed.
Print Assumptions gen_find_handlers.

(* hence its result is the candidates (one per accepting listener, in subscription order) stably sorted by descending priority *)
Theorem gen_recipients_priority_order : forall w m (g : ghub) S,
  g_subscriptions g = emb_subs S ->
  exists cs,
    hub_find_handlers (gops w) g m = Some (emb_hs (map fst cs)) /\
    Permutation cs (candidates w S m) /\
    desc cs /\
    (forall p, filter (fun y => (prio y =? p)%Z) cs = filter (fun y => (prio y =? p)%Z) (candidates w S m)) /\
    Subseq (map (fun x => fst (fst x)) (candidates w S m)) (map fst S).
Proof. exact GenLemmas.gen_recipients_priority_order. Qed.
Print Assumptions gen_recipients_priority_order.

(* the KeyError / ValueError paths of the translated methods are never taken and the representation invariant is kept *)
Theorem gen_never_crashes : forall fuel w s g t gst g' lg,
  R g s -> grun fuel w g (emb_task t) = Some (gst, g', lg) ->
  gst <> GCrash /\ exists s', R g' s'.
Proof. exact GenLemmas.gen_never_crashes. Qed.
Print Assumptions gen_never_crashes.

(* translated code: while any delay block is open, under any nesting of further delay / ignore blocks, nothing is delivered (in particular leaving an inner block does not flush); the queue grows by the script's non-ignored broadcasts in order; depth and ignore counts are restored *)
Theorem gen_open_block_only_queues : forall fuel w s g sc gst g' lg,
  R g s -> g_paused g <> 0%Z ->
  grun fuel w g (GScript sc) = Some (gst, g', lg) ->
  no_delivery lg /\
  g_queue g' = g_queue g ++ fst (queued (ign s) sc) /\
  gst = emb_status (status_of (snd (queued (ign s) sc))) /\
  g_paused g' = g_paused g /\
  (forall k, ctr_getitem k (g_ignore g') = ctr_getitem k (g_ignore g)).
Proof. exact GenLemmas.gen_open_block_only_queues. Qed.
Print Assumptions gen_open_block_only_queues.

(* translated code: an outermost delay block delivers nothing while it is open; when it closes - normally or by an exception, which then propagates - every queued message is delivered once, in order; afterwards the queue is empty and no block is open *)
Theorem gen_delay_holds_everything : forall fuel w s g body gst g' lg,
  R g s -> handlers_rf w -> wf_subs (subs s) ->
  g_paused g = 0%Z -> g_queue g = [] ->
  grun fuel w g (GAct (Delay body)) = Some (gst, g', lg) ->
  let q := fst (queued (ign s) body) in
  let raised := snd (queued (ign s) body) in
  exists lbody lflush,
    lg = EOpen :: lbody ++ EEnd :: lflush ++ [EClose] /\
    no_delivery lbody /\
    Blocks q (top 0 lflush) /\
    gst = emb_status (status_of raised) /\
    g_paused g' = 0%Z /\ g_queue g' = [] /\
    (forall k, ctr_getitem k (g_ignore g') = ctr_getitem k (g_ignore g)).
Proof. exact GenLemmas.gen_delay_holds_everything. Qed.
Print Assumptions gen_delay_holds_everything.

(* translated broadcast, for every handler semantics: a message whose exact class has a positive ignore count is neither delivered nor queued *)
Theorem gen_ignored_broadcast_dropped : forall (H F E : Type) (o : @ops H F) (r : @recs H F E) m g,
  (ctr_getitem (py_type m) (g_ignore g) > 0)%Z ->
  hub_broadcast o r m g = Some (GNormal, g, []).
Proof. exact GenLemmas.gen_ignored_broadcast_dropped. Qed.
Print Assumptions gen_ignored_broadcast_dropped.

(* translated code: every task, also one ending by an exception, restores every ignore count (ignore blocks nest) *)
Theorem gen_ignore_counts_restored : forall fuel w s g t gst g' lg,
  R g s -> grun fuel w g (emb_task t) = Some (gst, g', lg) ->
  forall k, ctr_getitem k (g_ignore g') = ctr_getitem k (g_ignore g).
Proof. exact GenLemmas.gen_ignore_counts_restored. Qed.
Print Assumptions gen_ignore_counts_restored.

(* translated broadcast, for every handler semantics: a non-ignored message broadcast while a delay block is open is appended to the queue, and nothing else happens *)
Theorem gen_paused_broadcast_queued : forall (H F E : Type) (o : @ops H F) (r : @recs H F E) m g,
  (ctr_getitem (py_type m) (g_ignore g) <= 0)%Z -> g_paused g <> 0%Z ->
  hub_broadcast o r m g = Some (GNormal, gset_queue g (g_queue g ++ [m]), []).
Proof. exact GenLemmas.gen_paused_broadcast_queued. Qed.
Print Assumptions gen_paused_broadcast_queued.

(* translated delay_callbacks, for every body and handler semantics: leaving an inner block only decrements the depth - no flush, the queue is untouched *)
Theorem gen_inner_delay_exit_does_not_flush : forall (H F E : Type) (o : @ops H F) (r : @recs H F E) (body : @M H F E) g st g1 l1,
  body (gset_paused g (g_paused g + 1)%Z) = Some (st, g1, l1) ->
  (g_paused g1 - 1 <> 0)%Z ->
  hub_delay_callbacks o r body g = Some (st, gset_paused g1 (g_paused g1 - 1)%Z, l1 ++ []).
Proof. exact GenLemmas.gen_inner_delay_exit_does_not_flush. Qed.
Print Assumptions gen_inner_delay_exit_does_not_flush.

(* ... and leaving the outermost one detaches the queue (the hub's own queue is empty during the flush) and hands it, in order, to the flush loop, whatever the status of the body; a non-normal status of the flush wins, else the body's status stands *)
Theorem gen_outer_delay_exit_flushes_detached_queue : forall (H F E : Type) (o : @ops H F) (r : @recs H F E) (body : @M H F E) g st g1 l1,
  body (gset_paused g (g_paused g + 1)%Z) = Some (st, g1, l1) ->
  (g_paused g1 - 1 = 0)%Z ->
  hub_delay_callbacks o r body g =
  match rec_delay_callbacks_loop1 r (g_queue g1) (gset_queue (gset_paused g1 (g_paused g1 - 1)%Z) []) with
  | None => None
  | Some (st', g2, l2) => Some (match st' with GNormal => st | _ => st' end, g2, l1 ++ l2)
  end.
Proof. exact GenLemmas.gen_outer_delay_exit_flushes_detached_queue. Qed.
Print Assumptions gen_outer_delay_exit_flushes_detached_queue.

(* translated code: the outermost deliveries of a script come in blocks that follow the program order of its broadcasts, one block per broadcast, at most one delivery per listener in a block; the hub is left idle *)
Theorem gen_per_listener_order : forall fuel w s g sc gst g' lg,
  R g s -> handlers_rf w -> wf_subs (subs s) ->
  g_paused g = 0%Z -> g_queue g = [] ->
  grun fuel w g (GScript sc) = Some (gst, g', lg) ->
  Blocks (bcasts sc) (top 0 lg) /\ balanced lg /\
  g_paused g' = 0%Z /\ g_queue g' = [] /\
  (forall k, ctr_getitem k (g_ignore g') = ctr_getitem k (g_ignore g)).
Proof. exact GenLemmas.gen_per_listener_order. Qed.
Print Assumptions gen_per_listener_order.

(* translated code: a broadcast with no block open and a class that is not ignored calls, as outermost calls, exactly the handlers the translated _find_handlers returns, in that order, each listener at most once *)
Theorem gen_deliver_once_right_listeners : forall fuel w s g m gst g' lg,
  R g s -> handlers_rf w -> wf_subs (subs s) ->
  g_paused g = 0%Z -> (ctr_getitem (py_type m) (g_ignore g) <= 0)%Z ->
  grun fuel w g (GBcast m) = Some (gst, g', lg) ->
  exists hs,
    hub_find_handlers (gops w) g m = Some (emb_hs hs) /\
    top 0 lg = to_calls m hs /\
    balanced lg /\ gst = GNormal /\ NoDup (map fst hs).
Proof. exact GenLemmas.gen_deliver_once_right_listeners. Qed.
Print Assumptions gen_deliver_once_right_listeners.

(* the message classes of glue/core/message.py (table dumped from the live package) form a single-inheritance tree: the model's class tree built from their first bases reproduces issubclass and _mro_count (which also counts object) for every one of them *)
Theorem gen_message_classes_form_a_tree :
  length msg_nbases = length msg_parents /\ length msg_mro_counts = length msg_parents /\
  length msg_issubclass = length msg_parents /\
  forall i, i < length msg_parents ->
    nth i msg_nbases 0 = 1 /\
    (Z.of_nat (tree_mro msg_parents i) + 1)%Z = nth i msg_mro_counts 0%Z /\
    forall j, j < length msg_parents ->
      tree_issub msg_parents i j = nth j (nth i msg_issubclass []) false.
Proof. exact GenLemmas.gen_message_classes_form_a_tree. Qed.
Print Assumptions gen_message_classes_form_a_tree.
