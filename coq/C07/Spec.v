(* C07 — vocabulary of the theorem statements (definitions only, no proofs).
   Everything here is about the executable model of Model.v. *)
From Coq Require Import ZArith List Bool Arith.
Import ListNotations.
From GV Require Import C07.Model.
Open Scope nat_scope.

(* ---------- static facts about scripts ---------- *)

(* no [Raise] anywhere in the script: the assumption "handlers do not raise" *)
Fixpoint raise_free_a (a : action) : bool :=
  match a with
  | Raise => false
  | Delay b => forallb raise_free_a b
  | Ignore _ b => forallb raise_free_a b
  | _ => true
  end.
Definition raise_free (sc : list action) : bool := forallb raise_free_a sc.
Definition handlers_rf (w : world) : Prop := forall h, raise_free (hscript w h) = true.

(* the broadcasts a script itself makes, in program order *)
Fixpoint bcasts_a (a : action) : list msg :=
  match a with
  | Broadcast i c => [(i, c)]
  | Delay b => flat_map bcasts_a b
  | Ignore _ b => flat_map bcasts_a b
  | _ => []
  end.
Definition bcasts (sc : list action) : list msg := flat_map bcasts_a sc.

(* sequential composition of "messages queued, raised?" *)
Definition seqq (f : action -> list msg * bool) : list action -> list msg * bool :=
  fix go (l : list action) : list msg * bool :=
  match l with
  | [] => ([], false)
  | a :: t =>
    if snd (f a) then f a
    else (fst (f a) ++ fst (go t), snd (go t))
  end.

Definition ignoredl (ig : list cls) (c : cls) : bool := existsb (Nat.eqb c) ig.

(* what a script run while some delay block is open leaves in the queue: its broadcasts, in order,
   except those whose exact class is ignored at that point, up to the first [Raise];
   the boolean says whether the script ends by that exception *)
Fixpoint queued_a (ig : list cls) (a : action) : list msg * bool :=
  match a with
  | Broadcast i c => (if ignoredl ig c then [] else [(i, c)], false)
  | Delay b => seqq (queued_a ig) b
  | Ignore c b => seqq (queued_a (c :: ig)) b
  | Raise => ([], true)
  | _ => ([], false)
  end.
Definition queued (ig : list cls) (sc : list action) : list msg * bool := seqq (queued_a ig) sc.

Definition status_of (raised : bool) : status := if raised then Raised else Normal.

(* ---------- reading a log ---------- *)

Definition is_mark (e : event) : Prop :=
  match e with EOpen | EEnd | EClose => True | _ => False end.

(* no handler is entered or left: nothing is delivered *)
Definition no_delivery (lg : list event) : Prop := Forall is_mark lg.

(* handler entries that are not inside another handler call, [d] = current call depth *)
Fixpoint top (d : nat) (lg : list event) : list (lid * hid * msg) :=
  match lg with
  | [] => []
  | ECall l h m :: t => match d with O => (l, h, m) :: top 1 t | S _ => top (S d) t end
  | ERet _ _ _ :: t => top (pred d) t
  | _ :: t => top d t
  end.

(* calls and returns are properly bracketed *)
Inductive balanced : list event -> Prop :=
| bal_nil : balanced []
| bal_mark e lg : is_mark e -> balanced lg -> balanced (e :: lg)
| bal_call l h m l1 l2 : balanced l1 -> balanced l2 -> balanced (ECall l h m :: l1 ++ ERet l h m :: l2).

Definition to_calls (m : msg) (hs : list (lid * hid)) : list (lid * hid * msg) :=
  map (fun lh => (lh, m)) hs.

Inductive Subseq {A : Type} : list A -> list A -> Prop :=
| sub_nil : Subseq [] []
| sub_take x a b : Subseq a b -> Subseq (x :: a) (x :: b)
| sub_skip x a b : Subseq a b -> Subseq a (x :: b).

(* [cs] is a concatenation of blocks, one per message of [ms] and in that order; the block of a message
   contains only deliveries of that message, at most one per listener (a block may be empty) *)
Inductive Blocks : list msg -> list (lid * hid * msg) -> Prop :=
| Bl_nil : Blocks [] []
| Bl_cons m ms blk cs :
    (forall c, In c blk -> snd c = m) ->
    NoDup (map (fun c => fst (fst c)) blk) ->
    Blocks ms cs ->
    Blocks (m :: ms) (blk ++ cs).

(* ---------- hub invariants ---------- *)
Definition idle (s : hub) : Prop := paused s = 0 /\ queue s = [].
Definition wf_subs (S : list (lid * list sub)) : Prop :=
  NoDup (map fst S) /\ Forall (fun e => NoDup (map s_cls (snd e))) S.

(* the subscriptions of one listener *)
Fixpoint subs_of (l : lid) (S : list (lid * list sub)) : list sub :=
  match S with
  | [] => []
  | e :: t => if fst e =? l then snd e else subs_of l t
  end.

(* ---------- delivering a queue ---------- *)
(* [Flushed w s q lg s']: starting from hub state [s], [lg] is, message by message in the order of [q], one complete
   delivery round of that message to the handlers found in the hub state of that moment (the handlers found are exactly
   the outermost calls of the round); [s'] is the final state. *)
Inductive Flushed (w : world) : hub -> list msg -> list event -> hub -> Prop :=
| Fl_nil s : Flushed w s [] [] s
| Fl_cons s m q n s1 l1 s2 l2 :
    run n w s (THandlers m (find_handlers w (subs s) m)) = Some (Normal, s1, l1) ->
    top 0 l1 = to_calls m (find_handlers w (subs s) m) ->
    balanced l1 ->
    Flushed w s1 q l2 s2 ->
    Flushed w s (m :: q) (l1 ++ l2) s2.

(* priorities of a candidate list are in descending order *)
Definition prio (x : lid * hid * Z) : Z := snd x.
Inductive desc : list (lid * hid * Z) -> Prop :=
| desc_nil : desc []
| desc_cons x l : (forall y, In y l -> (prio y <= prio x)%Z) -> desc l -> desc (x :: l).
