(* C07 — the theorems of Property.v, stated on the executable interpreter [run]. *)
From Coq Require Import ZArith List Bool Arith Lia Permutation.
Import ListNotations.
From GV Require Export C07.Model C07.Spec.
From GV Require Import C07.Lemmas0 C07.Lemmas1 C07.Lemmas2.
Open Scope nat_scope.

(* ------------------------------------------------------------------ who receives a broadcast *)

Theorem most_specific_subscription : forall w m ss,
  match best w m ss with
  | Some sb =>
    In sb ss /\ matches w m sb = true /\
    (forall x, In x ss -> matches w m x = true -> mro w (s_cls x) <= mro w (s_cls sb))
  | None => forall x, In x ss -> matches w m x = false
  end.
Proof.
  intros. destruct (best w m ss) eqn:E.
  - apply best_spec. exact E.
  - apply best_none. exact E.
Qed.

Lemma candidates_order : forall w S m, Subseq (map lst_of (candidates w S m)) (map fst S).
Proof.
  induction S as [|e t IH]; intros m; simpl; [constructor|].
  destruct (cand_cases w m e) as [E|[h [p E]]]; unfold candidates in *; simpl; rewrite E; simpl.
  - apply sub_skip. apply IH.
  - apply sub_take. apply IH.
Qed.

Theorem recipients_priority_order : forall w S m,
  exists cs,
    find_handlers w S m = map fst cs /\
    Permutation cs (candidates w S m) /\
    desc cs /\
    (forall p, filter (fun y => (prio y =? p)%Z) cs = filter (fun y => (prio y =? p)%Z) (candidates w S m)) /\
    Subseq (map (fun x => fst (fst x)) (candidates w S m)) (map fst S).
Proof.
  intros. exists (sort_desc (candidates w S m)). repeat split.
  - apply sort_perm.
  - apply sort_desc_ok.
  - intros. apply sort_stable.
  - apply candidates_order.
Qed.

Theorem deliver_once_right_listeners : forall fuel w s m st s' lg,
  handlers_rf w ->
  wf_subs (subs s) ->
  paused s = 0 -> ignored s m = false ->
  run fuel w s (TBcast m) = Some (st, s', lg) ->
  top 0 lg = to_calls m (find_handlers w (subs s) m) /\
  balanced lg /\ st = Normal /\
  NoDup (map fst (find_handlers w (subs s) m)) /\
  (forall l h, In (l, h) (find_handlers w (subs s) m) <->
     In l (map fst (subs s)) /\
     exists sb, best w m (subs_of l (subs s)) = Some sb /\ fpass w (s_f sb) m = true /\ s_h sb = h).
Proof.
  intros fuel w s m st s' lg Hw Hs Hp Hi H. apply run_sound in H.
  assert (Hb : balanced lg) by (eapply Eval_balanced; eauto).
  inversion H; subst; try congruence.
  match goal with HH : Eval _ _ (THandlers _ _) _ _ _ |- _ => destruct (handlers_top _ _ _ _ _ _ _ HH Hw) as [A B] end.
  split; [exact A|]. split; [exact Hb|]. split; [exact B|].
  split; [apply find_handlers_nodup; apply Hs|].
  intros. apply find_handlers_in. apply Hs.
Qed.

(* ------------------------------------------------------------------ a broadcast made inside a handler *)

Lemma Eval_script_app : forall w pre post s st s' lg,
  Eval w s (TScript (pre ++ post)) st s' lg ->
  (Eval w s (TScript pre) Raised s' lg /\ st = Raised) \/
  (exists s1 l1 l2, Eval w s (TScript pre) Normal s1 l1 /\ Eval w s1 (TScript post) st s' l2 /\ lg = l1 ++ l2).
Proof.
  induction pre as [|a pre IH]; intros post s st s' lg H; simpl in H.
  - right. exists s, [], lg. repeat split; auto. constructor.
  - inversion H; subst.
    + left. split; auto. apply E_seq_raise. auto.
    + match goal with HH : Eval _ _ (TScript (pre ++ post)) _ _ _ |- _ =>
        destruct (IH _ _ _ _ _ HH) as [[A B]|[s3 [l3 [l4 [A [B C]]]]]] end.
      * left. split; auto. eapply E_seq; eauto.
      * right. exists s3, (l1 ++ l3), l4. repeat split; auto.
        -- eapply E_seq; eauto.
        -- subst. rewrite app_assoc. reflexivity.
Qed.

Theorem nested_broadcast_before_return : forall fuel w s l h m hs pre i c post st s' lg,
  handlers_rf w ->
  hscript w h = pre ++ Broadcast i c :: post ->
  run fuel w s (THandlers m ((l, h) :: hs)) = Some (st, s', lg) ->
  exists n s1 lpre s2 lb lpost lrest,
    run n w s (TScript pre) = Some (Normal, s1, lpre) /\
    run n w s1 (TBcast (i, c)) = Some (Normal, s2, lb) /\
    lg = ECall l h m :: lpre ++ lb ++ lpost ++ ERet l h m :: lrest.
Proof.
  intros fuel w s l h m hs pre i c post st s' lg Hw Hh H. apply run_sound in H.
  inversion H; subst.
  - exfalso. assert (Raised = Normal) by (eapply rf_normal; eauto; apply Hw). discriminate.
  - match goal with HH : Eval _ _ (TScript (hscript w h)) _ _ _ |- _ =>
      rewrite Hh in HH; apply Eval_script_app in HH;
      destruct HH as [[_ E]|[s3 [l3 [l4 [A [B C]]]]]]; [discriminate|] end.
    inversion B; subst.
    match goal with HH : Eval _ _ (TAct (Broadcast i c)) _ _ _ |- _ => inversion HH; subst end.
    match goal with HH : Eval _ _ (TBcast (i, c)) _ _ _ |- _ => destruct (run_complete _ _ _ _ _ _ HH) as [n2 R2] end.
    destruct (run_complete _ _ _ _ _ _ A) as [n1 R1].
    match goal with |- context [ECall l h m :: (l3 ++ ?lb ++ ?lpost) ++ ERet l h m :: ?lrest] =>
      exists (n1 + n2), s3, l3, s2, lb, lpost, lrest end.
    split; [eapply run_mono; [|exact R1]; lia|].
    split; [eapply run_mono; [|exact R2]; lia|].
    repeat rewrite <- app_assoc. reflexivity.
Qed.

(* ------------------------------------------------------------------ delay blocks *)

Theorem open_block_only_queues : forall fuel w s sc st s' lg,
  paused s <> 0 ->
  run fuel w s (TScript sc) = Some (st, s', lg) ->
  no_delivery lg /\
  queue s' = queue s ++ fst (queued (ign s) sc) /\
  st = status_of (snd (queued (ign s) sc)) /\
  paused s' = paused s /\ ign s' = ign s.
Proof.
  intros fuel w s sc st s' lg Hp H. apply run_sound in H.
  destruct (paused_queue _ _ _ _ _ _ H Hp I) as [A [B C]].
  destruct (Eval_frame _ _ _ _ _ _ H) as [Fi Fp]. simpl in *. auto.
Qed.

Theorem delay_holds_everything : forall fuel w s body st s' lg,
  handlers_rf w -> wf_subs (subs s) ->
  paused s = 0 -> queue s = [] ->
  run fuel w s (TAct (Delay body)) = Some (st, s', lg) ->
  let q := fst (queued (ign s) body) in
  let raised := snd (queued (ign s) body) in
  exists n s1 lbody lflush,
    run n w (set_paused s 1) (TScript body) = Some (status_of raised, s1, lbody) /\
    lg = EOpen :: lbody ++ EEnd :: lflush ++ [EClose] /\
    no_delivery lbody /\
    queue s1 = q /\
    Flushed w (set_queue (set_paused s1 0) []) q lflush s' /\
    Blocks q (top 0 lflush) /\
    st = status_of raised /\
    paused s' = 0 /\ queue s' = [] /\ ign s' = ign s.
Proof.
  intros fuel w s body st s' lg Hw Hs Hp Hq H q raised. apply run_sound in H.
  inversion H; subst.
  - (* the outermost block *)
    rewrite Hp in *.
    match goal with HB : Eval _ (set_paused s 1) (TScript body) _ _ _ |- _ => rename HB into Hbody end.
    match goal with HB : pred (paused _) = 0 |- _ => rename HB into Hpred end.
    match goal with HB : Eval _ _ (TFlush _) _ _ _ |- _ => rename HB into Hflush end.
    assert (Hp1 : paused (set_paused s 1) <> 0) by (simpl; lia).
    destruct (paused_queue _ _ _ _ _ _ Hbody Hp1 I) as [A [B C]]. simpl in B, C. rewrite Hq in B. simpl in B.
    destruct (Eval_frame _ _ _ _ _ _ Hbody) as [Fi Fp]. simpl in Fi, Fp.
    rewrite Hpred in *.
    assert (Hwf1 : wf_subs (subs s1)) by (eapply Eval_wf in Hbody; eauto).
    destruct (flush_flushed _ _ _ _ _ _ Hflush Hw) as [F N]; [reflexivity| |].
    { intros x Hx. unfold ignored. simpl. rewrite Fi. rewrite B in Hx.
      apply (queued_not_ignored body (ign s) x Hx). }
    destruct (Eval_frame _ _ _ _ _ _ Hflush) as [Fi2 Fp2]. simpl in Fi2, Fp2.
    destruct (run_complete _ _ _ _ _ _ Hbody) as [n Rn].
    exists n, s1, l1, l3. fold q in B. fold raised in C. rewrite B in F. subst.
    split; [exact Rn|]. split; [reflexivity|]. split; [exact A|]. split; [exact B|].
    split; [exact F|].
    split; [eapply Flushed_blocks; eauto; intros; eapply Eval_wf; eauto|].
    split; [destruct (status_of raised); reflexivity|].
    split; [exact Fp2|].
    split; [eapply Eval_idle; eauto|].
    congruence.
  - (* not outermost: impossible, no block was open *)
    match goal with HB : Eval _ _ (TScript body) _ _ _ |- _ =>
      destruct (Eval_frame _ _ _ _ _ _ HB) as [_ Fp] end. simpl in Fp. lia.
Qed.

(* ------------------------------------------------------------------ ignore blocks *)

Theorem ignore_drops_and_nests :
  (forall fuel w s m r, ignored s m = true -> run fuel w s (TBcast m) = Some r -> r = (Normal, s, [])) /\
  (forall fuel w s c body st s' lg,
      run fuel w s (TAct (Ignore c body)) = Some (st, s', lg) ->
      exists n s1, run n w (set_ign s (c :: ign s)) (TScript body) = Some (st, s1, lg) /\
                   ign s1 = c :: ign s /\ s' = set_ign s1 (ign s)) /\
  (forall s c m, ignored (set_ign s (c :: ign s)) m = (mcls m =? c) || ignored s m) /\
  (forall fuel w s t st s' lg, run fuel w s t = Some (st, s', lg) -> ign s' = ign s).
Proof.
  repeat split.
  - intros fuel w s m r Hi H. destruct fuel; [discriminate|]. simpl in H. rewrite Hi in H. congruence.
  - intros fuel w s c body st s' lg H. apply run_sound in H. inversion H; subst.
    match goal with HB : Eval _ _ (TScript body) _ _ _ |- _ => rename HB into Hbody end.
    destruct (Eval_frame _ _ _ _ _ _ Hbody) as [Fi _]. simpl in Fi.
    destruct (run_complete _ _ _ _ _ _ Hbody) as [n Rn].
    exists n, s1. repeat split; auto. rewrite Fi. simpl. rewrite Nat.eqb_refl. reflexivity.
  - intros fuel w s t st s' lg H. apply run_sound in H. apply (Eval_frame _ _ _ _ _ _ H).
Qed.

(* ------------------------------------------------------------------ order seen by the listeners *)

Theorem per_listener_order : forall fuel w s sc st s' lg,
  handlers_rf w -> wf_subs (subs s) ->
  paused s = 0 -> queue s = [] ->
  run fuel w s (TScript sc) = Some (st, s', lg) ->
  Blocks (bcasts sc) (top 0 lg) /\ balanced lg /\
  paused s' = 0 /\ queue s' = [] /\ ign s' = ign s /\ wf_subs (subs s').
Proof.
  intros fuel w s sc st s' lg Hw Hs Hp Hq H. apply run_sound in H.
  destruct (Eval_frame _ _ _ _ _ _ H) as [Fi Fp].
  repeat split.
  - apply (Eval_top _ _ _ _ _ _ H Hw Hp Hq Hs).
  - eapply Eval_balanced; eauto.
  - congruence.
  - eapply Eval_idle; eauto.
  - exact Fi.
  - eapply Eval_wf in H; eauto. apply H.
  - eapply Eval_wf in H; eauto. apply H.
Qed.

(* in a sequence of blocks no delivery of a later message comes before a delivery of an earlier one *)
Lemma Blocks_msgs : forall ms cs, Blocks ms cs -> forall c, In c cs -> In (snd c) ms.
Proof.
  induction 1; intros c Hc; [destruct Hc|].
  apply in_app_or in Hc. destruct Hc as [Hc|Hc].
  - left. symmetry. auto.
  - right. auto.
Qed.

Theorem blocks_respect_order : forall ms cs, Blocks ms cs -> NoDup ms ->
  forall x c2 y c1 z a b d,
    cs = x ++ c2 :: y ++ c1 :: z ->
    ms = a ++ snd c1 :: b ++ snd c2 :: d ->
    False.
Proof.
  induction 1 as [|m ms blk cs Hm Hn Hb IH]; intros Hnd x c2 y c1 z a b d Hcs Hms.
  - destruct x; discriminate.
  - inversion Hnd as [|? ? Hnot Hnd']; subst.
    (* where is c2: in the first block or later *)
    assert (Hc2 : In c2 (blk ++ cs)) by (rewrite Hcs; apply in_or_app; right; left; auto).
    assert (Hc1 : In c1 (blk ++ cs)) by (rewrite Hcs; apply in_or_app; right; right; apply in_or_app; right; left; auto).
    destruct a as [|a0 a].
    + (* snd c1 = m is the first message; c2's message is later, so c2 is not in blk, so c2 is in cs, and c1 comes after c2 hence also in cs *)
      simpl in Hms. inversion Hms; subst.
      assert (Hne : snd c2 <> snd c1).
      { intros E. apply Hnot. rewrite <- E. apply in_or_app. right. left. auto. }
      (* split blk ++ cs = x ++ c2 :: ... : c2 must lie in the cs part *)
      assert (Hlen : exists x', x = blk ++ x').
      { clear -Hcs Hm Hne. revert x Hcs. induction blk as [|k blk IHb]; intros x Hcs.
        - exists x. reflexivity.
        - destruct x as [|x0 x].
          + simpl in Hcs. inversion Hcs; subst. exfalso. apply Hne. apply Hm. left. auto.
          + simpl in Hcs. inversion Hcs; subst.
            destruct (IHb (fun c Hc => Hm c (or_intror Hc)) x H1) as [x' ->]. exists x'. reflexivity. }
      destruct Hlen as [x' ->]. rewrite <- app_assoc in Hcs. apply app_inv_head in Hcs.
      assert (In c1 cs) by (rewrite Hcs; apply in_or_app; right; right; apply in_or_app; right; left; auto).
      apply (Blocks_msgs _ _ Hb) in H. auto.
    + simpl in Hms. inversion Hms; subst.
      (* both messages are in ms: neither delivery is in blk *)
      assert (N1 : snd c1 <> a0).
      { intros E. apply Hnot. rewrite <- E. apply in_or_app. right. left. auto. }
      assert (N2 : snd c2 <> a0).
      { intros E. apply Hnot. rewrite <- E. apply in_or_app. right. right. apply in_or_app. right. left. auto. }
      assert (Hlen : exists x', x = blk ++ x').
      { clear -Hcs Hm N2. revert x Hcs. induction blk as [|k blk IHb]; intros x Hcs.
        - exists x. reflexivity.
        - destruct x as [|x0 x].
          + simpl in Hcs. inversion Hcs; subst. exfalso. apply N2. apply Hm. left. auto.
          + simpl in Hcs. inversion Hcs; subst.
            destruct (IHb (fun c Hc => Hm c (or_intror Hc)) x H1) as [x' ->]. exists x'. reflexivity. }
      destruct Hlen as [x' ->]. rewrite <- app_assoc in Hcs. apply app_inv_head in Hcs.
      eapply IH; eauto.
Qed.

(* ------------------------------------------------------------------ subscribing and unsubscribing *)

Lemma subs_of_nodup : forall l S, wf_subs S -> NoDup (map s_cls (subs_of l S)).
Proof.
  intros l S [Hn Hf]. clear Hn. induction Hf as [|e t He Hf IH]; simpl; [constructor|].
  destruct (fst e =? l); auto.
Qed.

Theorem subscribe_unsubscribe_effect :
  (* the three operations change the subscription table only, and at once *)
  (forall fuel w s l c h f p r,
      run fuel w s (TAct (Subscribe l c h f p)) = Some r ->
      r = (Normal, set_subs s (subscribe_op l {| s_cls := c; s_h := h; s_f := f; s_p := p |} (subs s)), [])) /\
  (forall fuel w s l c r,
      run fuel w s (TAct (Unsubscribe l c)) = Some r -> r = (Normal, set_subs s (unsubscribe_op l c (subs s)), [])) /\
  (forall fuel w s l r,
      run fuel w s (TAct (UnsubscribeAll l)) = Some r -> r = (Normal, set_subs s (unsubscribe_all_op l (subs s)), [])) /\
  (* what they do to the table: the entry of (listener, class) is set / removed, every other entry is kept *)
  (forall l sb S, wf_subs S ->
      wf_subs (subscribe_op l sb S) /\
      (forall x, In x (subs_of l (subscribe_op l sb S)) <-> x = sb \/ (In x (subs_of l S) /\ s_cls x <> s_cls sb)) /\
      (forall l', l' <> l -> subs_of l' (subscribe_op l sb S) = subs_of l' S)) /\
  (forall l c S, wf_subs S ->
      wf_subs (unsubscribe_op l c S) /\
      (forall x, In x (subs_of l (unsubscribe_op l c S)) <-> In x (subs_of l S) /\ s_cls x <> c) /\
      (forall l', l' <> l -> subs_of l' (unsubscribe_op l c S) = subs_of l' S)) /\
  (forall l S, wf_subs S ->
      wf_subs (unsubscribe_all_op l S) /\
      ~ In l (map fst (unsubscribe_all_op l S)) /\
      (forall l', l' <> l -> subs_of l' (unsubscribe_all_op l S) = subs_of l' S)).
Proof.
  split; [intros; destruct fuel; [discriminate|]; simpl in *; congruence|].
  split; [intros; destruct fuel; [discriminate|]; simpl in *; congruence|].
  split; [intros; destruct fuel; [discriminate|]; simpl in *; congruence|].
  split; [|split].
  - intros l sb S H. split; [apply subscribe_wf; auto|]. split.
    + intros x. rewrite subs_of_subscribe_same. apply set_sub_spec. apply subs_of_nodup. exact H.
    + intros. apply subs_of_subscribe_other; auto.
  - intros l c S H. split; [apply unsubscribe_wf; auto|]. split.
    + intros x. rewrite subs_of_unsubscribe_same. apply drop_cls_spec.
    + intros. apply subs_of_unsubscribe_other; auto.
  - intros l S H. split; [apply unsubscribe_all_wf; auto|]. split.
    + apply unsubscribe_all_keys.
    + intros. apply subs_of_unsubscribe_all_other; auto.
Qed.

(* ------------------------------------------------------------------ a handler call is one contiguous, complete run of its script *)

Theorem handler_runs_to_completion : forall fuel w s l h m hs st s' lg,
  handlers_rf w ->
  run fuel w s (THandlers m ((l, h) :: hs)) = Some (st, s', lg) ->
  exists n s1 l1 l2,
    run n w s (TScript (hscript w h)) = Some (Normal, s1, l1) /\
    run n w s1 (THandlers m hs) = Some (st, s', l2) /\
    lg = ECall l h m :: l1 ++ ERet l h m :: l2 /\
    balanced l1.
Proof.
  intros fuel w s l h m hs st s' lg Hw H.
  destruct fuel; [discriminate|]. simpl in H.
  destruct (run fuel w s (TScript (hscript w h))) as [[[[|] s1] l1]|] eqn:E1; try discriminate.
  - destruct (run fuel w s1 (THandlers m hs)) as [[[st2 s2] l2]|] eqn:E2; try discriminate.
    inversion H; subst. exists fuel, s1, l1, l2. repeat split; auto.
    apply run_sound in E1. eapply Eval_balanced; eauto.
  - exfalso. apply run_sound in E1.
    assert (Raised = Normal) by (eapply rf_normal; eauto; apply Hw). discriminate.
Qed.

(* ------------------------------------------------------------------ deliveries are counted per broadcast event, not per message identity *)
(* [Broadcast i c] twice - the same identity (in the implementation possibly the very same object) - inside one delay block:
   both stay in the queue and each gets its own delivery round when the block closes. *)

Theorem same_message_twice_delivered_twice : forall fuel w s i c st s' lg,
  handlers_rf w -> wf_subs (subs s) ->
  paused s = 0 -> queue s = [] -> ignored s (i, c) = false ->
  run fuel w s (TAct (Delay [Broadcast i c; Broadcast i c])) = Some (st, s', lg) ->
  bcasts [Broadcast i c; Broadcast i c] = [(i, c); (i, c)] /\
  fst (queued (ign s) [Broadcast i c; Broadcast i c]) = [(i, c); (i, c)] /\
  exists s1,
    top 0 lg = to_calls (i, c) (find_handlers w (subs s) (i, c)) ++
               to_calls (i, c) (find_handlers w (subs s1) (i, c)).
Proof.
  intros fuel w s i c st s' lg Hw Hs Hp Hq Hi H.
  assert (Hig : ignoredl (ign s) c = false) by exact Hi.
  assert (Eq : queued (ign s) [Broadcast i c; Broadcast i c] = ([(i, c); (i, c)], false)).
  { unfold queued. simpl. rewrite Hig. reflexivity. }
  split; [reflexivity|]. split; [rewrite Eq; reflexivity|].
  destruct (delay_holds_everything _ _ _ _ _ _ _ Hw Hs Hp Hq H)
    as [n [s1 [lbody [lflush [Hb [Hlg [Hnd [Hqueue [Hfl _]]]]]]]]].
  rewrite Eq in Hfl. simpl in Hfl.
  inversion Hfl as [|? ? ? ? sA lA ? lrest HrA HtA HbA Hrest]; subst.
  inversion Hrest as [|? ? ? ? sB lB ? lrest2 HrB HtB HbB Hrest2]; subst.
  inversion Hrest2; subst.
  exists sA.
  rewrite Eq in Hb. simpl in Hb.
  assert (Hsub : subs (set_queue (set_paused s1 0) []) = subs s).
  { simpl. apply run_sound in Hb. clear -Hb.
    assert (B1 : forall x st0 x' l0, Eval w x (TBcast (i, c)) st0 x' l0 -> paused x <> 0 -> subs x' = subs x /\ paused x' = paused x).
    { intros x st0 x' l0 HE Hx. inversion HE; subst; simpl; auto. contradiction. }
    assert (A1 : forall x st0 x' l0, Eval w x (TAct (Broadcast i c)) st0 x' l0 -> paused x <> 0 -> subs x' = subs x /\ paused x' = paused x).
    { intros x st0 x' l0 HE Hx. inversion HE; subst. eapply B1; eauto. }
    inversion Hb; subst.
    match goal with HH : Eval _ (set_paused s 1) (TAct _) _ _ _ |- _ => apply A1 in HH; [|simpl; lia]; simpl in HH; destruct HH as [S1 P1] end.
    match goal with HH : Eval _ _ (TScript [_]) _ _ _ |- _ => inversion HH; subst end.
    match goal with HH : Eval _ _ (TScript []) _ _ _ |- _ => inversion HH; subst end.
    match goal with HH : Eval _ _ (TAct _) Normal s1 _ |- _ => apply A1 in HH; [|lia]; destruct HH; congruence end. }
  rewrite Hsub in *.
  simpl. rewrite top_marks by exact Hnd. simpl.
  rewrite app_nil_r. rewrite <- app_assoc.
  rewrite top_bal_0 by assumption. rewrite top_bal_0 by assumption.
  rewrite HtA, HtB. simpl. rewrite app_nil_r. reflexivity.
Qed.
