(* C10 — the statements used by Property.v, assembled from Lemmas1..4. *)
From Coq Require Import ZArith List Bool Lia QArith Qround.
Import ListNotations.
From GV Require Import Common.PyInt C10.Model.
From GV Require Export C10.Lemmas1 C10.Lemmas2 C10.Lemmas3 C10.Lemmas4 C10.Lemmas5 C10.Lemmas6.
From GV Require C20.Model.
Open Scope Z_scope.

(* ---- histograms ---- *)
Lemma histogram_partition :
  forall (lo hi : Q) (n : Z) (pts : list (option Q * bool * Q)), (0 < n)%Z ->
    (* the bins sum to the number (weight) of selected finite values inside the closed range *)
    (qsum (hist1 lo hi n pts) == in_range_total lo hi pts)%Q /\
    zlen (hist1 lo hi n pts) = n /\
    (* reversed ranges are sorted first *)
    (~ (lo == hi)%Q -> hist1 hi lo n pts = hist1 lo hi n pts /\ in_range_total hi lo pts = in_range_total lo hi pts) /\
    (* each in-range value is counted in exactly one bin, none outside *)
    ((lo <= hi)%Q -> forall x : Q,
        ((lo <= x <= hi)%Q -> length (filter (opt_eqb (bin_index lo hi n x)) (range0 n)) = 1%nat) /\
        (~ (lo <= x <= hi)%Q -> filter (opt_eqb (bin_index lo hi n x)) (range0 n) = [])) /\
    (* the bin is the equal-width interval that contains the value; both ends of the range are counted *)
    ((lo < hi)%Q ->
        bin_index lo hi n hi = Some (n - 1) /\ bin_index lo hi n lo = Some 0 /\
        (forall x k, bin_index lo hi n x = Some k ->
                     0 <= k < n /\
                     (lo + inject_Z k * bin_width lo hi n <= x)%Q /\ (x <= lo + (inject_Z k + 1) * bin_width lo hi n)%Q) /\
        (* a value flagged as sitting on an interior edge is exactly on the common end of bins k-1 and k *)
        (forall x k, on_edge lo hi n x = Some k ->
                     0 < k < n /\ (x == lo + inject_Z k * bin_width lo hi n)%Q /\ bin_index lo hi n x = Some k)).
Proof.
  intros lo hi n pts Hn. split; [apply hist1_total; exact Hn|].
  split; [apply hist1_length; lia|].
  split; [intros H; split; [apply hist1_reversed|apply in_range_total_reversed]; exact H|].
  split.
  - intros Hle x. split; [apply one_bin; assumption|apply no_bin_outside; assumption].
  - intros Hlt. split; [apply bin_index_hi; assumption|]. split; [apply bin_index_lo; assumption|].
    split; intros x k H; [apply bin_index_spec|apply on_edge_spec]; assumption.
Qed.

(* the code-shaped 1-d histogram (range sorting, closed-range keep, log early returns, binning of the
   images under a monotone map): whenever it returns bins they sum to the weight of the selected
   finite values inside the closed range of the RAW values *)
Lemma histogram_code_total :
  forall (L : Q -> Q), (forall a b : Q, (0 < a)%Q -> (a <= b)%Q -> (L a <= L b)%Q) ->
  forall lg lo hi n pts l e, (0 < n)%Z ->
    images_ok L pts ->
    histogram1 lg lo hi (L lo) (L hi) n pts = HBins l e ->
    (qsum l == in_range_total lo hi (raw pts))%Q.
Proof. intros L HL. apply histogram1_total. exact HL. Qed.

(* ---- statistics ---- *)
Lemma statistic_equals_definition :
  forall (A res : Type) (R : list A -> res) (nan : res), R [] = nan ->
  forall shape (a : idx -> A) (filt : A -> bool) (m : option (idx -> bool)) (view : list slice) (red : list bool),
    Forall (fun n => 0 <= n) shape ->
    length red = length shape ->
    (* documented shape *)
    fst (stat_view A res R nan shape a filt m view red) = out_shape (vshape (view_pos shape view)) red /\
    (* every element: R applied to the kept values (selected, filtered) of the corresponding lane of the viewed
       array, listed in row-major order over the cells of the full array *)
    forall o, in_box (out_shape (vshape (view_pos shape view)) red) o ->
      snd (stat_view A res R nan shape a filt m view red) o =
      R (map a (filter (fun c => mask_fun m c && filt (a c)) (lanep (view_pos shape view) red o))).
Proof.
  intros A res R nan Hnil shape a filt m view red Hsh Hl.
  destruct (stat_view_correct A res R nan Hnil shape a filt m view red Hsh Hl) as [H1 H2].
  split; [exact H1|]. intros o Ho. rewrite (H2 o Ho). apply textbook_lanep.
Qed.

(* the same for views that contain integers: a dimension of the data disappears, so that the position in
   subarray_slices (mask_idim) and the axis of the data (idim) run apart in the view recombination *)
Lemma statistic_equals_definition_int_views :
  forall (A res : Type) (R : list A -> res) (nan : res), R [] = nan ->
  forall shape (a : idx -> A) (filt : A -> bool) (m : option (idx -> bool)) (view : list ventry) (red : list bool),
    Forall (fun n => 0 <= n) shape ->
    length red = length (sel_shape (view_sel shape view)) ->
    fst (stat_view_e A res R nan shape a filt m view red) = out_shape (sel_shape (view_sel shape view)) red /\
    forall o, in_box (out_shape (sel_shape (view_sel shape view)) red) o ->
      snd (stat_view_e A res R nan shape a filt m view red) o =
      R (map a (filter (fun c => mask_fun_e m c && filt (a c))
                       (map (to_under_e (view_sel shape view)) (lane0 (sel_shape (view_sel shape view)) red o)))).
Proof. intros A res R nan Hnil. apply stat_view_e_correct. exact Hnil. Qed.

(* Data.compute_statistic outside the chunk loop and the SliceSubsetState shortcut *)
Lemma compute_statistic_unchunked :
  forall (A res : Type) (R : list A -> res) (nan zero : res), R [] = nan ->
  forall fuel shape (a : idx -> A) filt (s : selection) view axes ncm r,
    Forall (fun n => 0 <= n) shape ->
    (match view, axes with
     | None, Some ax => (0 <? zlen ax) && (zlen ax =? zlen shape - 1) && (zprod shape >? ncm) && negb (is_slices s)
     | _, _ => false
     end = false) ->
    (is_slices s = true -> view <> None \/ axes <> None) ->
    compute_statistic A res R nan zero fuel shape a filt s view axes ncm = Ok r ->
    let v := match view with None => [] | Some v => v end in
    let red := red_of_axes (zlen shape) axes in
    fst r = out_shape (vshape (view_pos shape v)) red /\
    forall o, in_box (out_shape (vshape (view_pos shape v)) red) o ->
      snd r o = R (map a (filter (fun c => mask_fun (mask_of shape s) c && filt (a c)) (lanep (view_pos shape v) red o))).
Proof.
  intros A res R nan zero Hnil fuel shape a filt s view axes ncm r Hsh Hch Hsl Hr v red.
  assert (Hlen : length (red_of_axes (zlen shape) axes) = length shape).
  { unfold red_of_axes. destruct axes; rewrite map_length; unfold range0; rewrite py_range1_length; unfold zlen; lia. }
  assert (Hr' : r = stat_view A res R nan shape a filt (mask_of shape s) v red).
  { unfold compute_statistic in Hr. cbv zeta in Hr. subst v red.
    destruct view as [vw|]; destruct axes as [ax|]; cbv beta iota in Hch, Hr; try rewrite Hch in Hr;
      destruct s as [|m|sl]; try (injection Hr as Hr; subst r; reflexivity).
    exfalso. destruct (Hsl eq_refl) as [C|C]; apply C; reflexivity. }
  subst r. apply statistic_equals_definition; assumption.
Qed.

(* the SliceSubsetState shortcut (view=None, axis=None): data[slices] reduced as a whole *)
Lemma slice_shortcut :
  forall (A res : Type) (R : list A -> res) (nan : res), R [] = nan ->
  forall shape (a : idx -> A) (filt : A -> bool) (sl : list slice) (red : list bool),
    Forall (fun n => 0 <= n) shape -> Forall Lemmas5.pos_step sl ->
    length red = length shape -> (forall b, In b red -> b = true) ->
    fst (stat_view A res R nan shape a filt None sl red) = [] /\
    snd (stat_view A res R nan shape a filt None sl red) [] =
    R (map a (filter (fun c => slices_mask shape sl c && filt (a c)) (lanep (view_pos shape []) red []))).
Proof.
  intros A res R nan Hnil shape a filt sl red Hsh Hsl Hl Hall.
  destruct (slice_shortcut_correct A res R nan shape a filt sl red Hsh Hsl Hl Hall) as [H1 [_ H3]].
  split; [exact H1|]. rewrite H3. apply textbook_lanep.
Qed.

(* ---- chunking ---- *)
Lemma chunking_irrelevant :
  forall (A res : Type) (R : list A -> res) (nan zero : res), R [] = nan ->
  forall shape (a : idx -> A) filt (m : option (idx -> bool)) (ai : nat) (chunks : list (list (Z * Z))) (k : Z),
    Forall (fun n => 0 <= n) shape -> (ai < length shape)%nat ->
    (* any list of chunks [ca, cb) x (everything) that lie inside the array and cover the kept axis *)
    chunks_ok shape ai chunks ->
    (forall j, 0 <= j < nth ai shape 0 -> covered ai chunks j) ->
    0 <= k < nth ai shape 0 ->
    nth (Z.to_nat k) (chunk_loop A res R nan zero shape a filt m (red_axis (length shape) ai) (Z.of_nat ai) chunks) nan
    = R (map a (filter (fun c => mask_fun m c && filt (a c)) (lanep (view_pos shape []) (red_axis (length shape) ai) [k]))).
Proof.
  intros A res R nan zero Hnil shape a filt m ai chunks k Hsh Hai Hok Hcov Hk.
  rewrite (chunk_loop_correct A res R nan zero Hnil shape a filt m ai chunks k Hsh Hai Hok Hcov Hk).
  unfold whole. apply textbook_lanep.
Qed.

(* the two hypotheses hold for the hand model of iterate_chunks with compute_statistic's chunk shape *)
Lemma chunking_hypotheses_hold_for_m_chunks :
  forall shape ai c, Forall (fun n => 0 < n) shape -> (ai < length shape)%nat -> 0 < c ->
    chunks_ok shape ai (C20.Model.m_chunks shape (cs_of shape ai c)) /\
    forall j, 0 <= j < nth ai shape 0 -> covered ai (C20.Model.m_chunks shape (cs_of shape ai c)) j.
Proof. exact m_chunks_ok. Qed.
