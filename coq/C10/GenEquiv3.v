(* C10 -- translated skeleton vs hand model, part 3: the body of Data.compute_statistic below the chunk loop. *)
From Coq Require Import ZArith List Bool Lia ZifyBool.
Import ListNotations.
From GV Require Import Common.PyInt gen.Gen_array C10.Model C10.Lemmas1 C10.Lemmas2 C10.Lemmas3 C10.Lemmas6 C10.GenEquiv1 C10.GenEquiv2.
Open Scope Z_scope.

Definition pv (o : option (list ventry)) : pyview := match o with None => PVNone | Some l => PVTuple l end.
Definition entries (o : option (list ventry)) : list ventry := match o with None => [] | Some l => l end.

Section Body.
  Variables A res : Type.
  Variable R : list A -> res.
  Variable nan zero : res.
  Variables isfin ispos : A -> bool.
  Variable shape : list Z.
  Variable a : idx -> A.
  Variable unb : garr A -> garr A.      (* glue.utils.unbroadcast on the data array *)
  Variable st : Z.                      (* the statistic R is the reducer of: minimum 0, maximum 1, mean 2, median 3, sum 4, percentile 5 *)

  (* the guard of the translated code for the unbroadcast shortcut, and what the shortcut needs: for the statistics it is applied to,
     the kernel gives the same overall result on the unbroadcast array (R is invariant under the uniform repetition of its sample) *)
  Definition unb_guard : bool := negb (existsb (Z.eqb st) [4; 5]).
  Definition unb_sound : Prop :=
    unb_guard = true -> forall (d : garr A) fin pos,
      g_compute_statistic A res R isfin ispos st (unb d) None AxNone fin pos tt = g_compute_statistic A res R isfin ispos st d None AxNone fin pos tt.

  Definition res_eq (r r' : gres res) : Prop := fst r = fst r' /\ forall o, in_box (fst r) o -> snd r o = snd r' o.

  Definition chunk_cond (s : selection) (ax : pyaxis) (v : pyview) (ncm : Z) : bool :=
    view_is_none v && axis_is_tuple ax && (axis_len ax >? 0) && (axis_len ax =? self_ndim shape - 1) && (self_size shape >? ncm)
    && negb (g_is_slice_state s).
  Definition shortcut (s : selection) (ax : pyaxis) (v : pyview) : bool := g_is_slice_state s && view_is_none v && axis_is_none ax.

  Local Notation GSTEP := (gen_step A res R nan zero isfin ispos shape a unb).

  Lemma if_same : forall (X : Type) (b : bool) (x : X), (if b then x else x) = x.
  Proof. intros X b x. destruct b; reflexivity. Qed.

  Ltac gcbv := cbv beta iota zeta delta [pv view_is_list to_tuple view_is_none view_is_ellipsis view_is_tuple g_truthy g_is_slice_state
                                          oz_truthy oz_get is_none andb orb negb unopt].
  Ltac gcbv_in H := cbv beta iota zeta delta [pv view_is_list to_tuple view_is_none view_is_ellipsis view_is_tuple g_truthy g_is_slice_state
                                          oz_truthy oz_get is_none andb orb negb unopt] in H.

  Ltac gax := cbv beta iota zeta delta [axis_is_none axis_is_tuple axis_is_int axis_int negb andb orb is_none unopt oz_truthy oz_get axis_mem].

  (* no selection *)
  Lemma body_none : forall rec fuel ax fin pos o ncm,
    unb_sound ->
    chunk_cond SelNone ax (pv o) ncm = false ->
    GSTEP rec fuel st SelNone ax fin pos (pv o) ncm =
    Ok (stat_view_e A res R nan shape a (filt_of A isfin ispos fin pos) None (entries o)
          (red_of_axes (zlen (sel_shape (view_sel shape (entries o)))) (axes_of ax))).
  Proof.
    intros rec fuel ax fin pos o ncm Hunb Hch. unfold gen_step, compute_statistic_step. unfold chunk_cond in Hch.
    destruct o as [l|]; destruct ax as [|i|L]; cbn [pv] in Hch; gcbv; gcbv_in Hch; try rewrite Hch; gax; rewrite ?if_same; try reflexivity.
    all: destruct (existsb (Z.eqb st) [4; 5]) eqn:E; rewrite ?if_same; [reflexivity|];
      rewrite Hunb by (unfold unb_guard; rewrite E; reflexivity); reflexivity.
  Qed.

  Lemma existsb_filter : forall (X : Type) (f : X -> bool) (l : list X),
    existsb f l = match filter f l with [] => false | _ :: _ => true end.
  Proof. induction l as [|x l IH]; simpl; [reflexivity|]. destruct (f x); simpl; [reflexivity|exact IH]. Qed.

  Lemma sel_shape_nil : forall sh, Forall (fun n => 0 <= n) sh -> sel_shape (view_sel sh []) = sh.
  Proof.
    induction sh as [|n sh IH]; intros H; [reflexivity|]. inversion H; subst. simpl. rewrite IH by assumption.
    rewrite zlen_range0. f_equal. lia.
  Qed.

  Lemma red_of_axes_len : forall (sh sh' : list Z) axes, length sh = length sh' -> red_of_axes (zlen sh) axes = red_of_axes (zlen sh') axes.
  Proof. intros sh sh' axes H. unfold zlen. rewrite H. reflexivity. Qed.

  Lemma red_of_axes_length : forall (sh : list Z) axes, length (red_of_axes (zlen sh) axes) = length sh.
  Proof. intros sh axes. unfold red_of_axes. destruct axes; rewrite map_length; unfold range0; rewrite py_range1_length; unfold zlen; lia. Qed.

  Lemma lohi_snth : forall (sub : list (Z * Z)) i,
    (sl_lo (snth (map slice_of_pair sub) i), sl_hi (snth (map slice_of_pair sub) i)) = nth (Z.to_nat i) sub (0, 0).
  Proof.
    intros sub i. unfold snth. generalize (Z.to_nat i) as k. induction sub as [|[s e] sub IH]; intros k; destruct k; simpl; try reflexivity.
    apply IH.
  Qed.

  Lemma map_lo_sub : forall (sub : list (Z * Z)), map sl_lo (map slice_of_pair sub) = map fst sub.
  Proof. intros sub. rewrite map_map. apply map_ext. intros [s e]. reflexivity. Qed.

  Lemma g_loop1_bbox' : forall (vsh : list Z) (mv : idx -> bool),
    filter mv (box vsh) <> [] ->
    fold_left (compute_statistic_loop1 gmarr g_ndim fst g_any_axes g_broadcast_to g_where0 list_min list_max (vsh, mv) (vsh, mv))
              (py_range 0 (g_ndim (vsh, mv)) 1) []
    = map slice_of_pair (bbox (length vsh) (filter mv (box vsh))).
  Proof. exact g_loop1_bbox. Qed.

  Lemma length_zero_nil : forall (X : Type) (l : list X), zlen l = 0 -> l = [].
  Proof. intros X l H. destruct l; [reflexivity|]. unfold zlen in H. simpl in H. lia. Qed.

  Lemma in_box_nil : forall o, in_box [] o -> o = [].
  Proof. intros o H. inversion H. reflexivity. Qed.

  Lemma match_nonnil : forall (X Y : Type) (l : list X) (y1 y2 : Y), l <> [] -> match l with [] => y1 | _ :: _ => y2 end = y2.
  Proof. intros X Y l y1 y2 H. destruct l; [congruence|reflexivity]. Qed.

  Section Crop.
    Variable o : option (list ventry).
    Variable s : selection.
    Variables fin pos : bool.
    Let vsh := sel_shape (view_sel shape (entries o)).
    Let mv := fun j => g_mask_fun shape s (to_under_e (view_sel shape (entries o)) j).
    Let trues := filter mv (box vsh).
    Let sub := bbox (length vsh) trues.
    Let filt := filt_of A isfin ispos fin pos.
    Hypothesis Hsh : Forall (fun n => 0 <= n) shape.
    Hypothesis Hne : trues <> [].

    Lemma sub_bounds : bounds_ok sub vsh.
    Proof.
      apply bbox_within; [exact Hne|]. intros c Hc. unfold trues in Hc. apply filter_In in Hc. apply In_box_iff. apply Hc.
    Qed.

    Lemma sub_length : length sub = length vsh.
    Proof. apply bbox_length. Qed.

    Variable nv : list ventry.
    Hypothesis Hnv : new_view_e shape (entries o) sub = Some nv.

    Let csh := sel_shape (view_sel shape nv).
    Let data' := fun j => a (to_under_e (view_sel shape nv) j).

    Lemma csh_length : length csh = length vsh.
    Proof.
      destruct (view_crop_e shape (entries o) sub nv Hsh sub_bounds Hnv) as [H _]. unfold csh. rewrite H.
      unfold csh_of. rewrite map_length. apply sub_length.
    Qed.

    (* what the hand model computes in this case *)
    Definition model_crop (red : list bool) : gres res :=
      (out_shape vsh red,
       pad res nan (out_pairs sub red) (reduce A res R csh data' (fun j => mv (zadd j (map fst sub)) && filt (data' j)) red)).

    Lemma stat_view_e_crop : forall red,
      stat_view_e A res R nan shape a filt (Some (g_mask_fun shape s)) (entries o) red = model_crop red.
    Proof.
      intros red. unfold stat_view_e. cbv zeta. fold vsh. fold mv. fold trues.
      rewrite (match_nonnil _ _ trues _ _ Hne). fold sub. rewrite Hnv. reflexivity.
    Qed.

    (* the kernel call of the translated code on the cropped data and mask *)
    Lemma kernel_crop : forall ax,
      g_compute_statistic A res R isfin ispos st (g_get_data A shape a tt (PVTuple nv))
        (Some (g_mask_getitem (vsh, mv) (map slice_of_pair sub))) ax fin pos tt
      = (out_shape csh (red_of_axes (zlen vsh) (axes_of ax)),
         reduce A res R csh data' (fun j => mv (zadd j (map fst sub)) && filt (data' j)) (red_of_axes (zlen vsh) (axes_of ax))).
    Proof.
      intros ax. unfold g_compute_statistic, g_get_data, g_mask_getitem. cbn [fst snd view_entries]. fold csh.
      rewrite (red_of_axes_len csh vsh _ csh_length). rewrite map_lo_sub. reflexivity.
    Qed.

    (* the result is returned as it is: all axes are collapsed *)
    Lemma no_pad_eq : forall red, length red = length vsh -> zlen (out_shape csh red) = 0 ->
      res_eq (out_shape csh red, reduce A res R csh data' (fun j => mv (zadd j (map fst sub)) && filt (data' j)) red) (model_crop red).
    Proof.
      intros red Hl Hz. apply length_zero_nil in Hz.
      assert (Hv0 : out_shape vsh red = []).
      { apply length_zero_nil. unfold zlen. rewrite <- (out_shape_length_eq csh vsh red csh_length). rewrite Hz. reflexivity. }
      assert (Hp0 : out_pairs sub red = []).
      { apply length_zero_nil. unfold zlen. rewrite (out_pairs_length_eq sub vsh red sub_length). rewrite Hv0. reflexivity. }
      unfold res_eq, model_crop. cbn [fst snd]. rewrite Hz, Hv0. split; [reflexivity|].
      intros o' Ho'. apply in_box_nil in Ho'. subst o'. unfold pad. rewrite Hp0. reflexivity.
    Qed.

    (* the result is inserted into a NaN array of the full shape *)
    Lemma pad_eq : forall (L : list Z) full_shape,
      full_shape = out_shape vsh (red_of_axes (zlen vsh) (Some L)) ->
      g_setitem res (full_shape, fun _ => nan)
        (map (fun idim => snth (map slice_of_pair sub) idim)
             (filter (fun idim => negb (existsb (Z.eqb idim) L)) (py_range 0 (zlen (map slice_of_pair sub)) 1)))
        (out_shape csh (red_of_axes (zlen vsh) (Some L)),
         reduce A res R csh data' (fun j => mv (zadd j (map fst sub)) && filt (data' j)) (red_of_axes (zlen vsh) (Some L)))
      = model_crop (red_of_axes (zlen vsh) (Some L)).
    Proof.
      intros L full_shape Hfs. unfold g_setitem, model_crop, pad. cbn [fst snd]. rewrite Hfs. f_equal.
      assert (Hb : map (fun s0 => (sl_lo s0, sl_hi s0))
                     (map (fun idim => snth (map slice_of_pair sub) idim)
                          (filter (fun idim => negb (existsb (Z.eqb idim) L)) (py_range 0 (zlen (map slice_of_pair sub)) 1)))
                   = out_pairs sub (red_of_axes (zlen vsh) (Some L))).
      { rewrite map_map. unfold red_of_axes.
        assert (Hz : zlen vsh = zlen sub) by (unfold zlen; rewrite sub_length; reflexivity).
        assert (Hz' : zlen (map slice_of_pair sub) = zlen sub) by (unfold zlen; rewrite map_length; reflexivity).
        rewrite Hz, Hz'. rewrite (out_pairs_filter (fun i => existsb (Z.eqb i) L) sub).
        apply map_ext. intros i. apply lohi_snth. }
      rewrite Hb. reflexivity.
    Qed.
  End Crop.

  (* a selection (a mask, or a SliceSubsetState outside its shortcut) *)
  Lemma body_mask : forall rec fuel s ax fin pos o ncm,
    Forall (fun n => 0 <= n) shape ->
    g_truthy s = true ->
    chunk_cond s ax (pv o) ncm = false ->
    shortcut s ax (pv o) = false ->
    exists r, GSTEP rec fuel st s ax fin pos (pv o) ncm = Ok r /\
      res_eq r (stat_view_e A res R nan shape a (filt_of A isfin ispos fin pos) (Some (g_mask_fun shape s)) (entries o)
                 (red_of_axes (zlen (sel_shape (view_sel shape (entries o)))) (axes_of ax))).
  Proof.
    intros rec fuel s ax fin pos o ncm Hsh Htr Hch Hsc. unfold gen_step, compute_statistic_step.
    unfold chunk_cond in Hch. unfold shortcut in Hsc.
    set (vsh := sel_shape (view_sel shape (entries o))).
    set (mv := fun j => g_mask_fun shape s (to_under_e (view_sel shape (entries o)) j)).
    assert (Hmask : g_to_mask shape s (pv o) = (vsh, mv)) by (destruct o; reflexivity).
    assert (Hv : (if view_is_list (pv o) then to_tuple (pv o) else pv o) = pv o) by (destruct o; reflexivity).
    cbv beta zeta. rewrite !Hv.
    rewrite Hch, Htr, Hsc, Hmask.
    unfold g_any. cbn [fst snd]. rewrite existsb_filter.
    destruct (filter mv (box vsh)) as [|c0 rest] eqn:Et.
    - (* nothing of the selection lies in the view *)
      assert (Hm : forall red, stat_view_e A res R nan shape a (filt_of A isfin ispos fin pos) (Some (g_mask_fun shape s)) (entries o) red
                       = (out_shape vsh red, fun _ => nan)).
      { intros red. unfold stat_view_e. cbv zeta. fold vsh. fold mv. rewrite Et. reflexivity. }
      rewrite Hm. unfold res_eq.
      destruct ax as [|i|L]; gax; eexists; (split; [reflexivity|]); cbn [fst snd axes_of]; (split; [|reflexivity]).
      + symmetry. apply out_shape_all_true; [|apply (red_of_axes_length vsh None)].
        intros b Hb. unfold red_of_axes in Hb. apply in_map_iff in Hb. destruct Hb as [x [Hx _]]. auto.
      + symmetry. exact (out_shape_filter (fun i0 => existsb (Z.eqb i0) [i]) vsh).
      + symmetry. exact (out_shape_filter (fun i0 => existsb (Z.eqb i0) L) vsh).
    - assert (Hne : filter mv (box vsh) <> []) by (rewrite Et; discriminate).
      clear Et c0 rest.
      rewrite (g_loop1_bbox' vsh mv Hne).
      set (sub := bbox (length vsh) (filter mv (box vsh))).
      assert (Hredl : forall axes, length (red_of_axes (zlen vsh) axes) = length vsh) by (intros; apply red_of_axes_length).
      (* the common tail: the data is read through the recombined view nv, the mask is cropped, the result is padded *)
      assert (Tail : forall (chunk_view : pyview) nv,
                 new_view_e shape (entries o) sub = Some nv ->
                 (forall L, (if view_is_none chunk_view
                             then map (fun idim => znth shape idim)
                                      (filter (fun idim => negb (existsb (Z.eqb idim) L)) (py_range 0 (self_ndim shape) 1))
                             else map (fun idim => znth (fst (g_to_mask shape s chunk_view)) idim)
                                      (filter (fun idim => negb (existsb (Z.eqb idim) L))
                                              (py_range 0 (zlen (fst (g_to_mask shape s chunk_view))) 1)))
                            = out_shape vsh (red_of_axes (zlen vsh) (Some L))) ->
                 exists r,
                   (let '(view, chunk_view, use_subarray_slices) := (PVTuple nv, chunk_view, true) in
                    (let '(mask, subarray_slices) :=
                       if use_subarray_slices
                       then (g_mask_getitem (vsh, mv) (map slice_of_pair sub), Some (map slice_of_pair sub))
                       else (vsh, mv, None) in
                     let '(data, mask0) :=
                       if oz_truthy None &&
                          (zprod (fst (if axis_is_none ax && is_none (Some mask) && negb (existsb (Z.eqb st) [4; 5])
                                       then unb (g_get_data A shape a tt view) else g_get_data A shape a tt view)) >? oz_get None)
                       then (if axis_is_none ax && is_none (Some mask) && negb (existsb (Z.eqb st) [4; 5])
                             then unb (g_get_data A shape a tt view) else g_get_data A shape a tt view, Some mask)
                       else (if axis_is_none ax && is_none (Some mask) && negb (existsb (Z.eqb st) [4; 5])
                             then unb (g_get_data A shape a tt view) else g_get_data A shape a tt view, Some mask) in
                     if is_none subarray_slices || axis_is_none ax
                        || (zlen (fst (g_compute_statistic A res R isfin ispos st data mask0 ax fin pos tt)) =? 0)
                     then Ok (g_compute_statistic A res R isfin ispos st data mask0 ax fin pos tt)
                     else Ok (g_setitem res
                                (if view_is_none chunk_view
                                 then map (fun idim => znth shape idim)
                                          (filter (fun idim => negb (axis_mem idim (if negb (axis_is_tuple ax) then AxTuple [axis_int ax] else ax)))
                                                  (py_range 0 (self_ndim shape) 1))
                                 else map (fun idim => znth (fst (g_to_mask shape s chunk_view)) idim)
                                          (filter (fun idim => negb (axis_mem idim (if negb (axis_is_tuple ax) then AxTuple [axis_int ax] else ax)))
                                                  (py_range 0 (zlen (fst (g_to_mask shape s chunk_view))) 1)),
                                 fun _ : list Z => nan)
                                (map (fun idim => snth (unopt subarray_slices) idim)
                                     (filter (fun idim => negb (axis_mem idim (if negb (axis_is_tuple ax) then AxTuple [axis_int ax] else ax)))
                                             (py_range 0 (zlen (unopt subarray_slices)) 1)))
                                (g_compute_statistic A res R isfin ispos st data mask0 ax fin pos tt)))) = Ok r /\
                   res_eq r (stat_view_e A res R nan shape a (filt_of A isfin ispos fin pos) (Some (g_mask_fun shape s)) (entries o)
                               (red_of_axes (zlen vsh) (axes_of ax)))).
      { intros chunk_view nv Env Hfs.
        rewrite (stat_view_e_crop o s fin pos Hne nv Env).
        destruct ax as [|i|L]; cbv beta iota; gcbv; gax; rewrite ?if_same;
          rewrite (kernel_crop o s fin pos Hsh Hne nv Env); cbn [fst axes_of].
        - eexists. split; [reflexivity|]. apply no_pad_eq; try assumption; [apply Hredl|].
          rewrite out_shape_all_true; [reflexivity| |].
          + intros b Hb. unfold red_of_axes in Hb. apply in_map_iff in Hb. destruct Hb as [x [Hx _]]. auto.
          + rewrite Hredl. symmetry. apply (csh_length o s Hsh Hne nv Env).
        - match goal with |- context [if ?c then _ else _] => destruct c eqn:Ez end.
          + eexists. split; [reflexivity|]. apply no_pad_eq; try assumption; [apply Hredl|apply Z.eqb_eq in Ez; exact Ez].
          + eexists. split; [reflexivity|]. erewrite (pad_eq o s fin pos nv [i]); [split; reflexivity|]. apply Hfs.
        - match goal with |- context [if ?c then _ else _] => destruct c eqn:Ez end.
          + eexists. split; [reflexivity|]. apply no_pad_eq; try assumption; [apply Hredl|apply Z.eqb_eq in Ez; exact Ez].
          + eexists. split; [reflexivity|]. erewrite (pad_eq o s fin pos nv L); [split; reflexivity|]. apply Hfs. }
      assert (Hw : bounds_ok sub vsh) by (apply sub_bounds; assumption).
      assert (Hsl : length sub = length vsh) by apply bbox_length.
      destruct o as [l|].
      + (* a tuple view: the recombination loop *)
        cbn [pv] in *.
        cbv beta iota delta [view_is_none view_is_ellipsis view_is_list view_is_tuple orb].
        pose proof (loop2_new_view_e shape l sub vsh mv shape 0 l sub 0 [] eq_refl eq_refl eq_refl eq_refl Hsh Hw) as HL.
        unfold g_loop2 in HL. cbn [Z.of_nat Nat.add app] in HL. unfold self_ndim, zlen.
        destruct (new_view_e shape l sub) as [nv|] eqn:Env.
        * rewrite HL. apply (Tail (PVTuple l) nv Env). intros L.
          cbn [view_is_none]. rewrite Hmask. cbn [fst]. symmetry. exact (out_shape_filter (fun i0 => existsb (Z.eqb i0) L) vsh).
        * destruct HL as [mi' HL]. rewrite HL. cbv beta iota. gcbv. rewrite ?if_same. cbv beta iota. rewrite ?if_same.
          eexists. split; [reflexivity|].
          assert (Hm : forall red, stat_view_e A res R nan shape a (filt_of A isfin ispos fin pos) (Some (g_mask_fun shape s)) l red
                           = (out_shape vsh red, reduce A res R vsh (fun j => a (to_under_e (view_sel shape l) j))
                                                   (fun j => mv j && filt_of A isfin ispos fin pos (a (to_under_e (view_sel shape l) j))) red)).
          { intros red. unfold stat_view_e. cbv zeta.
            change (sel_shape (view_sel shape l)) with vsh.
            change (fun j => g_mask_fun shape s (to_under_e (view_sel shape l) j)) with mv.
            rewrite (match_nonnil _ _ (filter mv (box vsh)) _ _ Hne). fold sub. rewrite Env. reflexivity. }
          cbn [entries]. rewrite Hm. split; reflexivity.
      + (* view = None: the data is read through subarray_slices itself *)
        cbn [pv] in *.
        cbv beta iota delta [view_is_none view_is_ellipsis orb view_of_slices].
        assert (Hvs : vsh = shape) by (apply sel_shape_nil; exact Hsh).
        assert (Env : new_view_e shape (entries None) sub = Some (map VSlice (map slice_of_pair sub))).
        { apply new_view_e_nil. rewrite Hsl, Hvs. reflexivity. }
        apply (Tail PVNone _ Env). intros L. cbn [view_is_none]. rewrite Hvs. symmetry.
        exact (out_shape_filter (fun i0 => existsb (Z.eqb i0) L) shape).
  Qed.
End Body.
