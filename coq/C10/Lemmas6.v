(* C10 — lemmas, part 6: views that contain integers (a dimension of the data disappears, so the
   position in subarray_slices and the axis of the data run apart). *)
From Coq Require Import ZArith List Bool Lia ZifyBool.
Import ListNotations.
From GV Require Import Common.PyInt C10.Model C10.Lemmas1 C10.Lemmas2.
Open Scope Z_scope.

Lemma new_view_e_cons_slice : forall n shape v view s e sub,
  new_view_e (n :: shape) (VSlice v :: view) ((s, e) :: sub) =
  if step_not_one v then None
  else match slice_indices v n with
       | Some (view_start, _, _) =>
         match new_view_e shape view sub with
         | Some r => Some (VSlice (Slice (Some (view_start + s)) (Some (view_start + e)) None) :: r)
         | None => None
         end
       | None => None
       end.
Proof. reflexivity. Qed.

Lemma view_crop_e : forall shape view sub nv,
  Forall (fun n => 0 <= n) shape ->
  Forall2 (fun p len => 0 <= fst p /\ fst p < snd p /\ snd p <= len) sub (sel_shape (view_sel shape view)) ->
  new_view_e shape view sub = Some nv ->
  sel_shape (view_sel shape nv) = csh_of sub /\
  forall j', in_box (csh_of sub) j' ->
             to_under_e (view_sel shape nv) j' = to_under_e (view_sel shape view) (zadd j' (map fst sub)).
Proof.
  induction shape as [|n shape IH]; intros view sub nv Hsh Hsub Hnv.
  - simpl in Hsub. inversion Hsub; subst. simpl in Hnv. injection Hnv as Hnv. subst nv. simpl.
    split; [reflexivity|]. intros j' Hj. inversion Hj. reflexivity.
  - inversion Hsh as [|? ? Hn Hsh']; subst.
    destruct view as [|[i|v] view].
    + simpl in Hsub. inversion Hsub as [|[s e] ? sub' ? Hp Hsub']; subst. simpl in Hp.
      rewrite zlen_range0 in Hp.
      simpl in Hnv. destruct (new_view_e shape [] sub') as [r|] eqn:Er; [|discriminate].
      injection Hnv as Hnv. subst nv.
      destruct (IH [] sub' r Hsh' Hsub' Er) as [IH1 IH2].
      simpl view_sel. unfold slice_elems. rewrite slice_indices_new by lia.
      split.
      * simpl. rewrite IH1, zlen_py_range1. f_equal. lia.
      * intros j' Hj. inversion Hj as [|? i' ? j'' Hi' Hj'']; subst. simpl.
        rewrite (IH2 j'' Hj''). f_equal.
        rewrite nth_py_range1 by lia. unfold range0. rewrite nth_py_range1 by lia. lia.
    + (* integer entry: passed through, sub not consumed *)
      simpl in Hsub. simpl in Hnv.
      destruct (new_view_e shape view sub) as [r|] eqn:Er; [|discriminate].
      injection Hnv as Hnv. subst nv.
      destruct (IH view sub r Hsh' Hsub Er) as [IH1 IH2].
      simpl. split; [exact IH1|]. intros j' Hj. rewrite (IH2 j' Hj). reflexivity.
    + simpl in Hsub. inversion Hsub as [|[s e] ? sub' ? Hp Hsub']; subst. simpl in Hp.
      rewrite new_view_e_cons_slice in Hnv.
      destruct (step_not_one v) eqn:Es; [discriminate|].
      destruct (slice_indices_step1 v n Hn Es) as [vb [ve [Hsi [Hvb Hve]]]].
      rewrite Hsi in Hnv.
      unfold slice_elems in Hp. rewrite Hsi in Hp.
      rewrite zlen_py_range1 in Hp.
      destruct (new_view_e shape view sub') as [r|] eqn:Er; [|discriminate].
      injection Hnv as Hnv. subst nv.
      destruct (IH view sub' r Hsh' Hsub' Er) as [IH1 IH2].
      simpl view_sel. unfold slice_elems. rewrite Hsi. rewrite slice_indices_new by lia.
      split.
      * simpl. rewrite IH1, zlen_py_range1. f_equal. lia.
      * intros j' Hj. inversion Hj as [|? i' ? j'' Hi' Hj'']; subst. simpl.
        rewrite (IH2 j'' Hj''). f_equal.
        rewrite !nth_py_range1 by lia. lia.
Qed.

Section StatCorrectE.
  Variables A res : Type.
  Variable R : list A -> res.
  Variable nan : res.
  Hypothesis R_nil : R [] = nan.

  Lemma stat_view_e_mask_correct : forall shape (a : idx -> A) (filt : A -> bool) (m : idx -> bool) view red,
    Forall (fun n => 0 <= n) shape ->
    length red = length (sel_shape (view_sel shape view)) ->
    fst (stat_view_e A res R nan shape a filt (Some m) view red) = fst (textbook_e A res R shape a filt m view red) /\
    forall o, in_box (fst (textbook_e A res R shape a filt m view red)) o ->
              snd (stat_view_e A res R nan shape a filt (Some m) view red) o = snd (textbook_e A res R shape a filt m view red) o.
  Proof.
    intros shape a filt m view red Hsh Hlv. unfold stat_view_e, textbook_e.
    set (sels := view_sel shape view) in *. set (vsh := sel_shape sels) in *.
    set (data := fun j => a (to_under_e sels j)). set (mv := fun j => m (to_under_e sels j)).
    set (keep := fun j => m (to_under_e sels j) && filt (a (to_under_e sels j))).
    assert (Hkeep : forall c, keep c = true -> mv c = true).
    { intros c Hc. unfold keep in Hc. apply andb_true_iff in Hc. destruct Hc as [Hc _]. exact Hc. }
    destruct (filter mv (box vsh)) as [|c0 rest] eqn:Et.
    - simpl. split; [reflexivity|]. intros o Ho. unfold reduce.
      rewrite (filter_none _ keep); [symmetry; exact R_nil|].
      intros c Hc. destruct (keep c) eqn:Ek; [|reflexivity]. exfalso.
      assert (Hb : in_box vsh c) by (apply (lane0_in_box vsh red o c Hlv Ho Hc)).
      assert (Hin : In c (filter mv (box vsh))).
      { apply filter_In. split; [apply In_box_iff; exact Hb|apply Hkeep; exact Ek]. }
      rewrite Et in Hin. destruct Hin.
    - rewrite <- Et. set (trues := filter mv (box vsh)).
      assert (Hne : trues <> []) by (unfold trues; rewrite Et; discriminate).
      assert (Hall : forall c, In c trues -> in_box vsh c).
      { intros c Hc. unfold trues in Hc. apply filter_In in Hc. apply In_box_iff. apply Hc. }
      set (sub := bbox (length vsh) trues).
      pose proof (bbox_within vsh trues Hne Hall) as Hw. fold sub in Hw.
      assert (Hls : length sub = length vsh) by (unfold sub; apply bbox_length).
      assert (HK : forall c, in_box vsh c -> keep c = true -> in_pairs sub c).
      { intros c Hb Hk. unfold sub. apply bbox_contains.
        - unfold trues. apply filter_In. split; [apply In_box_iff; exact Hb|apply Hkeep; exact Hk].
        - apply in_box_length. exact Hb. }
      destruct (new_view_e shape view sub) as [nv|] eqn:Env.
      + simpl. split; [reflexivity|]. intros o Ho.
        destruct (view_crop_e shape view sub nv Hsh Hw Env) as [Hc1 Hc2].
        unfold pad. destruct (inside (out_pairs sub red) o) eqn:Ein.
        * unfold reduce. f_equal. fold sels. rewrite Hc1.
          fold keep.
          rewrite (lane_crop vsh red sub o keep Hlv).
          -- rewrite map_map.
             set (o' := zsub_starts o (out_pairs sub red)).
             assert (Ho' : in_box (out_shape (csh_of sub) red) o').
             { apply zsub_in_box with (sh := vsh); assumption. }
             assert (Hlc : length red = length (csh_of sub)).
             { unfold csh_of. rewrite map_length, Hls. exact Hlv. }
             transitivity (map (fun j => a (to_under_e sels (zadd j (map fst sub))))
                               (filter (fun j => mv (zadd j (map fst sub)) && filt (a (to_under_e (view_sel shape nv) j)))
                                       (lane0 (csh_of sub) red o'))).
             ++ apply map_ext_in'. intros c' Hc'. apply filter_In in Hc'. destruct Hc' as [Hc' _].
                rewrite Hc2; [reflexivity|]. apply (lane0_in_box _ red o' c' Hlc Ho' Hc').
             ++ f_equal. apply filter_ext_in'. intros c' Hc'.
                unfold keep, mv. rewrite Hc2; [reflexivity|]. apply (lane0_in_box _ red o' c' Hlc Ho' Hc').
          -- eapply Forall2_impl'; [|exact Hw]. intros p n H. simpl in H. lia.
          -- exact Ho.
          -- exact HK.
          -- exact Ein.
        * unfold reduce. fold keep.
          rewrite (lane_outside vsh red sub o keep Hlv Hls Ho HK Ein). symmetry. exact R_nil.
      + simpl. split; [reflexivity|]. intros o _. reflexivity.
  Qed.

  Definition mask_fun_e (m : option (idx -> bool)) : idx -> bool :=
    match m with Some m => m | None => fun _ => true end.

  (* with or without a selection; the result is stated directly on the cells of the full array *)
  Lemma stat_view_e_correct : forall shape (a : idx -> A) (filt : A -> bool) m view red,
    Forall (fun n => 0 <= n) shape ->
    length red = length (sel_shape (view_sel shape view)) ->
    fst (stat_view_e A res R nan shape a filt m view red) = out_shape (sel_shape (view_sel shape view)) red /\
    forall o, in_box (out_shape (sel_shape (view_sel shape view)) red) o ->
      snd (stat_view_e A res R nan shape a filt m view red) o =
      R (map a (filter (fun c => mask_fun_e m c && filt (a c))
                       (map (to_under_e (view_sel shape view)) (lane0 (sel_shape (view_sel shape view)) red o)))).
  Proof.
    intros shape a filt m view red Hsh Hl.
    assert (Htb : forall mm o, snd (textbook_e A res R shape a filt mm view red) o =
                    R (map a (filter (fun c => mm c && filt (a c))
                       (map (to_under_e (view_sel shape view)) (lane0 (sel_shape (view_sel shape view)) red o))))).
    { intros mm o. unfold textbook_e, reduce. simpl. f_equal. rewrite filter_map_comm, map_map. reflexivity. }
    destruct m as [m|].
    - destruct (stat_view_e_mask_correct shape a filt m view red Hsh Hl) as [H1 H2].
      split; [exact H1|]. intros o Ho. rewrite (H2 o Ho). apply Htb.
    - split; [reflexivity|]. intros o _.
      change (stat_view_e A res R nan shape a filt None view red) with (textbook_e A res R shape a filt (fun _ => true) view red).
      apply Htb.
  Qed.
End StatCorrectE.
