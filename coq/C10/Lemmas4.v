(* C10 — lemmas, part 4: the hypotheses of chunk_loop_correct hold for the hand model of
   iterate_chunks (C20.Model.m_chunks) with the chunk shape used by Data.compute_statistic
   (the full shape except along the kept axis). *)
From Coq Require Import ZArith List Bool Lia.
Import ListNotations.
From GV Require Import Common.PyInt C10.Model C10.Lemmas1 C10.Lemmas2 C10.Lemmas3.
From GV Require C20.Model.
Open Scope Z_scope.

(* chunk_shape = list(self.shape); chunk_shape[axis_index] = c *)
Fixpoint cs_of (shape : list Z) (ai : nat) (c : Z) : list Z :=
  match shape with
  | [] => []
  | n :: shape' => match ai with O => c :: shape' | S ai' => n :: cs_of shape' ai' c end
  end.

Lemma range_len_pos : forall n c, 0 < n -> 0 < c -> range_len 0 n c = (n + c - 1) / c.
Proof.
  intros n c Hn Hc. unfold range_len.
  replace (c <=? 0) with false by lia. replace (n <=? 0) with false by lia.
  f_equal. lia.
Qed.

Lemma tiles_full : forall n, 0 < n -> C20.Model.tiles n n = [(0, n)].
Proof.
  intros n Hn. unfold C20.Model.tiles, py_range. rewrite range_len_pos by lia.
  replace ((n + n - 1) / n) with 1.
  - simpl. f_equal. f_equal. lia.
  - apply Z.div_unique with (r := n - 1); lia.
Qed.

Lemma m_chunks_full : forall shape, Forall (fun n => 0 < n) shape ->
  C20.Model.m_chunks shape shape = [map (fun n => (0, n)) shape].
Proof.
  induction shape as [|n shape IH]; intros H; [reflexivity|].
  inversion H; subst. simpl. rewrite IH by assumption. simpl.
  rewrite tiles_full by assumption. reflexivity.
Qed.

Lemma flat_map_singleton : forall (X Y : Type) (f : X -> Y) (l : list X),
  flat_map (fun a => map (fun t => t) [f a]) l = map f l.
Proof. intros X Y f l. induction l as [|x l IH]; simpl; [reflexivity|]. rewrite <- IH. reflexivity. Qed.

Lemma m_chunks_axis : forall shape ai c, Forall (fun n => 0 < n) shape -> (ai < length shape)%nat ->
  C20.Model.m_chunks shape (cs_of shape ai c) =
  map (fun t => chunk_of shape ai (fst t) (snd t)) (C20.Model.tiles (nth ai shape 0) c).
Proof.
  induction shape as [|n shape IH]; intros ai c H Hai; [simpl in Hai; lia|].
  inversion H; subst. destruct ai.
  - simpl. rewrite m_chunks_full by assumption. simpl. rewrite app_nil_r.
    apply map_ext. intros [x y]. reflexivity.
  - simpl in Hai. simpl. rewrite IH by (assumption || lia).
    rewrite tiles_full by assumption.
    rewrite flat_map_map.
    apply flat_map_singleton.
Qed.

Lemma In_tiles : forall n c t, 0 < n -> 0 < c ->
  In t (C20.Model.tiles n c) -> 0 <= fst t /\ fst t < snd t /\ snd t <= n.
Proof.
  intros n c t Hn Hc Ht. unfold C20.Model.tiles in Ht. apply in_map_iff in Ht.
  destruct Ht as [b [Et Hb]]. subst t. simpl.
  unfold py_range in Hb. apply in_map_iff in Hb. destruct Hb as [j [Eb Hj]]. apply in_seq in Hj.
  rewrite range_len_pos in Hj by lia.
  assert (Hjz : 0 <= Z.of_nat j < (n + c - 1) / c) by lia.
  assert (Hlt : Z.of_nat j * c < n).
  { assert (c * ((n + c - 1) / c) <= n + c - 1) by (apply Z.mul_div_le; lia). nia. }
  nia.
Qed.

Lemma tiles_cover : forall n c k, 0 < c -> 0 <= k < n ->
  exists t, In t (C20.Model.tiles n c) /\ fst t <= k < snd t.
Proof.
  intros n c k Hc Hk. exists ((k / c) * c, Z.min ((k / c) * c + c) n). split.
  - unfold C20.Model.tiles. apply in_map_iff. exists ((k / c) * c). split; [reflexivity|].
    unfold py_range. apply in_map_iff. exists (Z.to_nat (k / c)).
    assert (Hq : 0 <= k / c) by (apply Z.div_pos; lia).
    split; [lia|]. apply in_seq. rewrite range_len_pos by lia.
    assert (k / c < (n + c - 1) / c).
    { replace (n + c - 1) with ((n - 1) + 1 * c) by lia. rewrite Z.div_add by lia.
      assert (k / c <= (n - 1) / c) by (apply Z.div_le_mono; lia). lia. }
    lia.
  - simpl. pose proof (Z.mul_div_le k c Hc). pose proof (Z.mul_succ_div_gt k c Hc). nia.
Qed.

(* the hand model of iterate_chunks satisfies the hypotheses of chunk_loop_correct *)
Lemma m_chunks_ok : forall shape ai c, Forall (fun n => 0 < n) shape -> (ai < length shape)%nat -> 0 < c ->
  chunks_ok shape ai (C20.Model.m_chunks shape (cs_of shape ai c)) /\
  forall j, 0 <= j < nth ai shape 0 -> covered ai (C20.Model.m_chunks shape (cs_of shape ai c)) j.
Proof.
  intros shape ai c Hsh Hai Hc.
  assert (Hn : 0 < nth ai shape 0).
  { clear c Hc. revert ai Hai. induction Hsh as [|n shape Hn Hsh IH]; intros ai Hai; [simpl in Hai; lia|].
    destruct ai; simpl; [exact Hn|]. apply IH. simpl in Hai. lia. }
  rewrite m_chunks_axis by assumption. split.
  - intros ch Hch. apply in_map_iff in Hch. destruct Hch as [t [Ech Ht]].
    destruct (In_tiles _ _ _ Hn Hc Ht) as [H1 [H2 H3]].
    exists (fst t), (snd t). repeat split; try assumption. symmetry. exact Ech.
  - intros j Hj. destruct (tiles_cover (nth ai shape 0) c j Hc Hj) as [t [Ht Hr]].
    exists (chunk_of shape ai (fst t) (snd t)). split.
    + apply in_map_iff. exists t. split; [reflexivity|exact Ht].
    + rewrite chunk_of_nth by exact Hai. exact Hr.
Qed.
