(* C10 -- the skeleton translated from glue/core/data.py (coq/gen/Gen_stat.v), instantiated on the model's arrays
   (Model.v, Section GenInst), agrees with the hand model.  Part 1: the loop that computes subarray_slices
   (any over all other axes -> where -> min / max) is the bounding box [bbox] of the hand model. *)
From Coq Require Import ZArith List Bool Lia ZifyBool.
Import ListNotations.
From GV Require Import Common.PyInt C10.Model C10.Lemmas1 C10.Lemmas2 C10.Lemmas3.
Open Scope Z_scope.

Lemma fold_left_snoc : forall (X Y : Type) (f : Y -> X) (l : list Y) (init : list X),
  fold_left (fun acc i => acc ++ [f i]) l init = init ++ map f l.
Proof.
  intros X Y f l. induction l as [|y l IH]; intros init; simpl; [rewrite app_nil_r; reflexivity|].
  rewrite IH, <- app_assoc. reflexivity.
Qed.

Lemma range0_of_nat : forall n, range0 (Z.of_nat n) = map Z.of_nat (seq 0 n).
Proof.
  intros n. unfold range0, py_range. rewrite range_len_1.
  replace (Z.to_nat (Z.max 0 (Z.of_nat n - 0))) with n by lia.
  apply map_ext. intros k. lia.
Qed.

Lemma hd_zslice : forall (l : list Z) k, hd 0 (zslice l (Z.of_nat k) (Z.of_nat k + 1)) = nth k l 0.
Proof.
  intros l k. unfold zslice. replace (Z.to_nat (Z.of_nat k + 1 - Z.of_nat k)) with 1%nat by lia. rewrite Nat2Z.id.
  revert k. induction l as [|x l IH]; intros k; destruct k; simpl; try reflexivity. apply IH.
Qed.

(* every axis collapsed: the lane is the whole box *)
Lemma lane0_all_true : forall sh o, lane0 sh (repeat true (length sh)) o = box sh.
Proof.
  induction sh as [|n sh IH]; intros o; [reflexivity|].
  simpl. unfold box. simpl. apply flat_map_ext_in. intros i _. f_equal. apply IH.
Qed.

(* the lane of element j when every axis except k is collapsed: the cells whose k-th coordinate is j *)
Lemma lane0_red_axis_mem : forall sh k j c, (k < length sh)%nat -> 0 <= j < nth k sh 0 ->
  (In c (lane0 sh (red_axis (length sh) k) [j]) <-> in_box sh c /\ nth k c 0 = j).
Proof.
  induction sh as [|n sh IH]; intros k j c Hk Hj; [simpl in Hk; lia|].
  destruct k as [|k].
  - simpl in Hj. simpl. rewrite lane0_all_true. rewrite in_map_iff. split.
    + intros [c' [Hc Hin]]. subst c. apply In_box_iff in Hin. split; [constructor; [lia|exact Hin]|reflexivity].
    + intros [Hb Hn]. inversion Hb as [|? i ? c' Hi Hc']; subst. simpl. exists c'. split; [reflexivity|apply In_box_iff; exact Hc'].
  - simpl in Hj, Hk. simpl. rewrite in_flat_map. split.
    + intros [i [Hi Hin]]. apply in_map_iff in Hin. destruct Hin as [c' [Hc Hin]]. subst c.
      apply IH in Hin; [|lia|exact Hj]. destruct Hin as [Hb Hn]. apply In_range0 in Hi.
      split; [constructor; assumption|exact Hn].
    + intros [Hb Hn]. inversion Hb as [|? i ? c' Hi Hc']; subst. exists i. split; [apply In_range0; exact Hi|].
      apply in_map. apply IH; [lia|exact Hj|]. split; [exact Hc'|reflexivity].
Qed.

Lemma nth_red_axis : forall n k j, (j < n)%nat -> nth j (red_axis n k) true = negb (Nat.eqb j k).
Proof.
  induction n as [|n IH]; intros k j Hj; [lia|].
  destruct k as [|k]; destruct j as [|j]; simpl; try reflexivity.
  - clear. revert j. induction n; intros j; destruct j; simpl; auto.
  - apply IH. lia.
Qed.

Lemma nth_map_range0 : forall (X : Type) (f : Z -> X) n j d, (j < n)%nat ->
  nth j (map f (range0 (Z.of_nat n))) d = f (Z.of_nat j).
Proof.
  intros X f n j d Hj. rewrite nth_indep with (d' := f 0).
  - rewrite map_nth. f_equal. unfold range0.
    replace j with (Z.to_nat (Z.of_nat j)) at 1 by lia. rewrite nth_py_range1 by lia. lia.
  - rewrite map_length. unfold range0. rewrite py_range1_length. lia.
Qed.

(* the `collapse_axes` of the source: every axis except idim *)
Lemma collapse_red_axis : forall n k, (k < n)%nat ->
  map (fun i => existsb (Z.eqb i) (filter (fun index => negb (index =? Z.of_nat k)) (py_range 0 (Z.of_nat n) 1))) (range0 (Z.of_nat n))
  = red_axis n k.
Proof.
  intros n k Hk. apply nth_ext with (d := true) (d' := true).
  - rewrite map_length, red_axis_length. unfold range0. rewrite py_range1_length. lia.
  - intros j Hj. rewrite map_length in Hj. unfold range0 in Hj. rewrite py_range1_length in Hj.
    assert (Hjn : (j < n)%nat) by lia.
    rewrite nth_red_axis by exact Hjn.
    rewrite (nth_map_range0 _ _ n j true Hjn).
    destruct (Nat.eqb j k) eqn:E.
    + apply Nat.eqb_eq in E. subst j. simpl.
      destruct (existsb _ _) eqn:Ex; [|reflexivity]. exfalso.
      apply existsb_exists in Ex. destruct Ex as [x [Hx Hxe]]. apply filter_In in Hx. lia.
    + apply Nat.eqb_neq in E. simpl. apply existsb_exists. exists (Z.of_nat j). split; [|lia].
      apply filter_In. split; [apply In_py_range1; lia|lia].
Qed.

Lemma list_min_set : forall l1 l2, l1 <> [] -> (forall x, In x l1 <-> In x l2) -> list_min l1 = list_min l2.
Proof.
  intros l1 l2 Hne H.
  assert (Hne2 : l2 <> []).
  { destruct l1 as [|x l1]; [congruence|]. intros ->. destruct (proj1 (H x) (or_introl eq_refl)). }
  pose proof (list_min_in l1 Hne) as H1. pose proof (list_min_in l2 Hne2) as H2.
  apply H in H1. apply H in H2.
  pose proof (list_min_le l2 _ H1). pose proof (list_min_le l1 _ H2). lia.
Qed.

Lemma list_max_set : forall l1 l2, l1 <> [] -> (forall x, In x l1 <-> In x l2) -> list_max l1 = list_max l2.
Proof.
  intros l1 l2 Hne H.
  assert (Hne2 : l2 <> []).
  { destruct l1 as [|x l1]; [congruence|]. intros ->. destruct (proj1 (H x) (or_introl eq_refl)). }
  pose proof (list_max_in l1 Hne) as H1. pose proof (list_max_in l2 Hne2) as H2.
  apply H in H1. apply H in H2.
  pose proof (list_max_ge l2 _ H1). pose proof (list_max_ge l1 _ H2). lia.
Qed.

(* np.where(any over the other axes)[0] has the same elements as the k-th coordinates of the true cells *)
Lemma where_any_elems : forall (vsh : list Z) (mv : idx -> bool) k x, (k < length vsh)%nat ->
  In x (g_where0 (g_broadcast_to (g_any_axes (vsh, mv)
           (filter (fun index => negb (index =? Z.of_nat k)) (py_range 0 (g_ndim (vsh, mv)) 1)))
           (zslice vsh (Z.of_nat k) (Z.of_nat k + 1))))
  <-> In x (map (fun c => nth k c 0) (filter mv (box vsh))).
Proof.
  intros vsh mv k x Hk. unfold g_where0, g_broadcast_to, g_any_axes, g_ndim. cbn [fst snd].
  rewrite hd_zslice. unfold zlen. rewrite collapse_red_axis by exact Hk.
  rewrite filter_In, In_range0, in_map_iff. split.
  - intros [Hx Hex]. apply existsb_exists in Hex. destruct Hex as [c [Hc Hm]].
    apply lane0_red_axis_mem in Hc; [|exact Hk|exact Hx]. destruct Hc as [Hb Hn].
    exists c. split; [exact Hn|]. apply filter_In. split; [apply In_box_iff; exact Hb|exact Hm].
  - intros [c [Hn Hc]]. apply filter_In in Hc. destruct Hc as [Hb Hm]. apply In_box_iff in Hb.
    assert (Hx : 0 <= x < nth k vsh 0) by (subst x; apply in_box_nth; assumption).
    split; [exact Hx|]. apply existsb_exists. exists c. split; [|exact Hm].
    apply lane0_red_axis_mem; [exact Hk|exact Hx|]. split; assumption.
Qed.

(* the translated loop "for idim in range(mask.ndim): ... subarray_slices.append(slice(min, max + 1))" *)
Lemma g_loop1_bbox : forall (vsh : list Z) (mv : idx -> bool),
  filter mv (box vsh) <> [] ->
  fold_left (g_loop1 (vsh, mv) (vsh, mv)) (py_range 0 (g_ndim (vsh, mv)) 1) []
  = map slice_of_pair (bbox (length vsh) (filter mv (box vsh))).
Proof.
  intros vsh mv Hne. unfold g_loop1, compute_statistic_loop1. cbv zeta.
  rewrite (fold_left_snoc slice Z
             (fun idim => Slice (Some (list_min (g_where0 (g_broadcast_to (g_any_axes (vsh, mv)
                 (filter (fun index => negb (index =? idim)) (py_range 0 (g_ndim (vsh, mv)) 1))) (zslice (fst (vsh, mv)) idim (idim + 1))))))
                                (Some (list_max (g_where0 (g_broadcast_to (g_any_axes (vsh, mv)
                 (filter (fun index => negb (index =? idim)) (py_range 0 (g_ndim (vsh, mv)) 1))) (zslice (fst (vsh, mv)) idim (idim + 1)))) + 1)) None)).
  simpl app. cbn [fst].
  match goal with |- map ?f _ = _ => set (F := f) end.
  change (py_range 0 (g_ndim (vsh, mv)) 1) with (range0 (Z.of_nat (length vsh))).
  rewrite range0_of_nat, map_map. unfold bbox. rewrite map_map.
  apply map_ext_in. intros k Hk. apply in_seq in Hk. subst F. cbv beta.
  assert (Hne' : map (fun c => nth k c 0) (filter mv (box vsh)) <> []).
  { destruct (filter mv (box vsh)); [congruence|discriminate]. }
  unfold slice_of_pair. cbn [fst snd].
  assert (Hset : forall x, In x (map (fun c => nth k c 0) (filter mv (box vsh))) <->
                           In x (g_where0 (g_broadcast_to (g_any_axes (vsh, mv)
                                   (filter (fun index => negb (index =? Z.of_nat k)) (py_range 0 (g_ndim (vsh, mv)) 1)))
                                   (zslice vsh (Z.of_nat k) (Z.of_nat k + 1))))).
  { intros x. symmetry. apply where_any_elems. lia. }
  rewrite <- (list_min_set _ _ Hne' Hset), <- (list_max_set _ _ Hne' Hset). reflexivity.
Qed.
