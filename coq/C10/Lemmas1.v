(* C10 — lemmas, part 1: integer ranges and the histogram binning. *)
From Coq Require Import ZArith List Bool Lia QArith Qround Lqa Qabs FinFun.
Import ListNotations.
From GV Require Import Common.PyInt C10.Model.
Open Scope Z_scope.

(* ---------- py_range with step 1 ---------- *)

Lemma range_len_1 : forall a b, range_len a b 1 = Z.max 0 (b - a).
Proof.
  intros a b. unfold range_len. simpl.
  destruct (b <=? a) eqn:E.
  - apply Z.leb_le in E. lia.
  - apply Z.leb_gt in E. replace (b - a + 1 - 1) with (b - a) by lia. rewrite Z.div_1_r. lia.
Qed.

Lemma py_range1_eq : forall a b,
  py_range a b 1 = map (fun k => a + Z.of_nat k) (seq 0 (Z.to_nat (b - a))).
Proof.
  intros a b. unfold py_range. rewrite range_len_1.
  replace (Z.to_nat (Z.max 0 (b - a))) with (Z.to_nat (b - a)) by lia.
  apply map_ext. intros k. lia.
Qed.

Lemma In_py_range1 : forall a b x, In x (py_range a b 1) <-> a <= x < b.
Proof.
  intros a b x. rewrite py_range1_eq, in_map_iff. split.
  - intros [k [Hk Hin]]. apply in_seq in Hin. lia.
  - intros H. exists (Z.to_nat (x - a)). split; [lia|]. apply in_seq. lia.
Qed.

Lemma py_range1_length : forall a b, length (py_range a b 1) = Z.to_nat (b - a).
Proof. intros. rewrite py_range1_eq, map_length, seq_length. reflexivity. Qed.

Lemma py_range1_nil : forall a b, b <= a -> py_range a b 1 = [].
Proof. intros. rewrite py_range1_eq. replace (Z.to_nat (b - a)) with O by lia. reflexivity. Qed.

Lemma py_range1_cons : forall a b, a < b -> py_range a b 1 = a :: py_range (a + 1) b 1.
Proof.
  intros a b H. rewrite !py_range1_eq.
  replace (Z.to_nat (b - a)) with (S (Z.to_nat (b - (a + 1)))) by lia.
  simpl. f_equal; [lia|].
  rewrite <- seq_shift, map_map. apply map_ext. intros k. lia.
Qed.

Lemma seq_add : forall a m s, seq (a + s) m = map (fun k => (a + k)%nat) (seq s m).
Proof.
  intros a m. induction m as [|m IH]; intros s; simpl; [reflexivity|].
  f_equal. rewrite <- Nat.add_succ_r. apply IH.
Qed.

Lemma py_range1_app : forall a b c, a <= b <= c -> py_range a c 1 = py_range a b 1 ++ py_range b c 1.
Proof.
  intros a b c H. rewrite !py_range1_eq.
  replace (Z.to_nat (c - a)) with (Z.to_nat (b - a) + Z.to_nat (c - b))%nat by lia.
  rewrite seq_app, map_app. f_equal. simpl.
  rewrite <- (Nat.add_0_r (Z.to_nat (b - a))) at 1.
  rewrite seq_add, map_map. apply map_ext. intros k. lia.
Qed.

Lemma py_range1_shift : forall a b s, py_range (a + s) (b + s) 1 = map (fun k => k + s) (py_range a b 1).
Proof.
  intros. rewrite !py_range1_eq, map_map. replace (b + s - (a + s)) with (b - a) by lia.
  apply map_ext. intros k. lia.
Qed.

Lemma nth_py_range1 : forall a b k d, 0 <= k < b - a -> nth (Z.to_nat k) (py_range a b 1) d = a + k.
Proof.
  intros a b k d H. rewrite py_range1_eq.
  set (f := fun k => a + Z.of_nat k).
  rewrite nth_indep with (d' := f O) by (rewrite map_length, seq_length; lia).
  rewrite map_nth, seq_nth by lia. unfold f. lia.
Qed.

Lemma zlen_range0 : forall n, zlen (range0 n) = Z.max 0 n.
Proof. intros. unfold zlen, range0. rewrite py_range1_length. lia. Qed.

Lemma In_range0 : forall n x, In x (range0 n) <-> 0 <= x < n.
Proof. intros. unfold range0. apply In_py_range1. Qed.

Lemma NoDup_py_range1 : forall a b, NoDup (py_range a b 1).
Proof.
  intros a b. rewrite py_range1_eq. apply FinFun.Injective_map_NoDup.
  - intros x y H. lia.
  - apply seq_NoDup.
Qed.

(* ---------- rationals: boolean comparisons ---------- *)
Open Scope Q_scope.

Lemma qle_b_iff : forall a b, qle_b a b = true <-> a <= b.
Proof. intros. unfold qle_b. apply Qle_bool_iff. Qed.

Lemma qlt_b_iff : forall a b, qlt_b a b = true <-> a < b.
Proof.
  intros a b. unfold qlt_b. rewrite negb_true_iff. split.
  - intros H. apply Qnot_le_lt. intros C. apply Qle_bool_iff in C. congruence.
  - intros H. destruct (Qle_bool b a) eqn:E; [|reflexivity].
    apply Qle_bool_iff in E. exfalso. apply (Qlt_not_le _ _ H E).
Qed.

Lemma qlt_b_false_iff : forall a b, qlt_b a b = false <-> b <= a.
Proof.
  intros a b. unfold qlt_b. rewrite negb_false_iff. apply Qle_bool_iff.
Qed.

Lemma out_of_range_false : forall lo hi x,
  qlt_b x lo || qlt_b hi x = false <-> lo <= x <= hi.
Proof.
  intros. rewrite orb_false_iff, !qlt_b_false_iff. tauto.
Qed.

(* ---------- the bin of a value ---------- *)

Definition bin_width (lo hi : Q) (n : Z) : Q := (hi - lo) / inject_Z n.

Lemma inject_Z_pos : forall n, (0 < n)%Z -> 0 < inject_Z n.
Proof. intros n H. unfold Qlt, inject_Z. simpl. lia. Qed.

Lemma scaled_pos_eq : forall lo hi n x, lo < hi -> (0 < n)%Z ->
  ((x - lo) * inject_Z n / (hi - lo)) * bin_width lo hi n == x - lo.
Proof.
  intros lo hi n x H Hn. unfold bin_width.
  assert (Hd : ~ hi - lo == 0) by (intros C; lra).
  assert (HN : ~ inject_Z n == 0) by (pose proof (inject_Z_pos n Hn); intros C; lra).
  field. split; assumption.
Qed.

Lemma bin_width_pos : forall lo hi n, lo < hi -> (0 < n)%Z -> 0 < bin_width lo hi n.
Proof.
  intros lo hi n H Hn. unfold bin_width. apply Qlt_shift_div_l.
  - apply inject_Z_pos; assumption.
  - lra.
Qed.

(* t <= n  and  0 <= t  for an in-range value *)
Lemma scaled_bounds : forall lo hi n x, lo < hi -> (0 < n)%Z -> lo <= x <= hi ->
  0 <= (x - lo) * inject_Z n / (hi - lo) <= inject_Z n.
Proof.
  intros lo hi n x H Hn [H1 H2].
  pose proof (inject_Z_pos n Hn) as HN.
  assert (Hd : 0 < hi - lo) by lra.
  split.
  - apply Qle_shift_div_l; [assumption|]. rewrite Qmult_0_l.
    apply Qmult_le_0_compat; lra.
  - apply Qle_shift_div_r; [assumption|].
    rewrite (Qmult_comm (inject_Z n) (hi - lo)).
    apply Qmult_le_compat_r; lra.
Qed.

Lemma inject_Z_le_iff : forall a b, inject_Z a <= inject_Z b <-> (a <= b)%Z.
Proof. intros. rewrite <- Zle_Qle. tauto. Qed.

Lemma inject_Z_lt_iff : forall a b, inject_Z a < inject_Z b <-> (a < b)%Z.
Proof. intros. rewrite <- Zlt_Qlt. tauto. Qed.

Lemma inject_Z_minus1 : forall n, inject_Z (n - 1) == inject_Z n - 1.
Proof.
  intros n. unfold Z.sub. rewrite inject_Z_plus, inject_Z_opp. change (inject_Z 1) with 1. lra.
Qed.

Lemma floor_bounds : forall t, inject_Z (Qfloor t) <= t /\ t < inject_Z (Qfloor t) + 1.
Proof.
  intros t. split; [apply Qfloor_le|].
  pose proof (Qlt_floor t) as H. rewrite inject_Z_plus in H. exact H.
Qed.

(* every in-range value gets a bin 0 <= k < n whose closed interval contains it *)
Lemma bin_index_spec : forall lo hi n x k, lo < hi -> (0 < n)%Z ->
  bin_index lo hi n x = Some k ->
  (0 <= k < n)%Z /\
  lo + inject_Z k * bin_width lo hi n <= x /\ x <= lo + (inject_Z k + 1) * bin_width lo hi n.
Proof.
  intros lo hi n x k H Hn Hb. unfold bin_index in Hb.
  destruct (qlt_b x lo || qlt_b hi x) eqn:Eo; [discriminate|].
  apply out_of_range_false in Eo.
  destruct (Qeq_bool lo hi) eqn:Ee.
  { apply Qeq_bool_iff in Ee. lra. }
  pose proof (scaled_bounds lo hi n x H Hn Eo) as [Ht0 Htn].
  pose proof (floor_bounds ((x - lo) * inject_Z n / (hi - lo))) as [Hf1 Hf2].
  pose proof (scaled_pos_eq lo hi n x H Hn) as Hs.
  pose proof (bin_width_pos lo hi n H Hn) as Hw.
  remember ((x - lo) * inject_Z n / (hi - lo)) as t eqn:Et in *. clear Et.
  assert (Hk0 : (0 <= Qfloor t)%Z).
  { assert (H0 : inject_Z (-1) < inject_Z (Qfloor t)).
    { change (inject_Z (-1)) with (-1 # 1). clear Hs. lra. }
    rewrite <- Zlt_Qlt in H0. lia. }
  destruct (Qfloor t >=? n)%Z eqn:Eg.
  - (* clipped: t = n, i.e. x = hi *)
    injection Hb as Hb. subst k. apply Z.geb_le in Eg.
    assert (Hge : inject_Z n <= inject_Z (Qfloor t)) by (rewrite <- Zle_Qle; exact Eg).
    split; [lia|].
    assert (Htn' : t == inject_Z n) by lra.
    rewrite inject_Z_minus1.
    split.
    + assert ((inject_Z n - 1) * bin_width lo hi n <= t * bin_width lo hi n).
      { apply Qmult_le_compat_r; lra. }
      lra.
    + assert (t * bin_width lo hi n <= (inject_Z n - 1 + 1) * bin_width lo hi n).
      { apply Qmult_le_compat_r; lra. }
      lra.
  - injection Hb as Hb. subst k. rewrite Z.geb_leb in Eg. apply Z.leb_gt in Eg.
    split; [lia|]. split.
    + assert (inject_Z (Qfloor t) * bin_width lo hi n <= t * bin_width lo hi n).
      { apply Qmult_le_compat_r; lra. }
      lra.
    + assert (t * bin_width lo hi n <= (inject_Z (Qfloor t) + 1) * bin_width lo hi n).
      { apply Qmult_le_compat_r; lra. }
      lra.
Qed.

Lemma bin_index_some_iff : forall lo hi n x, lo <= hi ->
  (exists k, bin_index lo hi n x = Some k) <-> lo <= x <= hi.
Proof.
  intros lo hi n x H. unfold bin_index.
  destruct (qlt_b x lo || qlt_b hi x) eqn:Eo.
  - split; [intros [k Hk]; discriminate|]. intros Hr. apply out_of_range_false in Hr. congruence.
  - apply out_of_range_false in Eo. split; [intros _; exact Eo|]. intros _.
    destruct (Qeq_bool lo hi); eexists; reflexivity.
Qed.

Lemma bin_index_range : forall lo hi n x k, lo <= hi -> (0 < n)%Z ->
  bin_index lo hi n x = Some k -> (0 <= k < n)%Z.
Proof.
  intros lo hi n x k H Hn Hb.
  destruct (Qeq_bool lo hi) eqn:Ee.
  - unfold bin_index in Hb. rewrite Ee in Hb.
    destruct (qlt_b x lo || qlt_b hi x); [discriminate|]. injection Hb as Hb. lia.
  - assert (lo < hi).
    { apply Qle_lteq in H. destruct H as [H|H]; [exact H|]. apply Qeq_bool_iff in H. congruence. }
    apply (bin_index_spec lo hi n x k H0 Hn Hb).
Qed.

(* the upper end of the range is counted, in the last bin; the lower end in the first *)
Lemma bin_index_hi : forall lo hi n, lo < hi -> (0 < n)%Z -> bin_index lo hi n hi = Some (n - 1)%Z.
Proof.
  intros lo hi n H Hn. unfold bin_index.
  assert (Eo : qlt_b hi lo || qlt_b hi hi = false) by (apply out_of_range_false; lra).
  rewrite Eo.
  destruct (Qeq_bool lo hi) eqn:Ee; [apply Qeq_bool_iff in Ee; lra|].
  assert (Ht : (hi - lo) * inject_Z n / (hi - lo) == inject_Z n).
  { field. intros C. lra. }
  rewrite (Qfloor_comp _ _ Ht), Qfloor_Z.
  replace (n >=? n)%Z with true by (symmetry; apply Z.geb_le; lia). reflexivity.
Qed.

Lemma bin_index_lo : forall lo hi n, lo < hi -> (0 < n)%Z -> bin_index lo hi n lo = Some 0%Z.
Proof.
  intros lo hi n H Hn. unfold bin_index.
  assert (Eo : qlt_b lo lo || qlt_b hi lo = false) by (apply out_of_range_false; lra).
  rewrite Eo.
  destruct (Qeq_bool lo hi) eqn:Ee; [apply Qeq_bool_iff in Ee; lra|].
  assert (Ht : (lo - lo) * inject_Z n / (hi - lo) == inject_Z 0).
  { change (inject_Z 0) with 0. field. intros C. lra. }
  rewrite (Qfloor_comp _ _ Ht), Qfloor_Z.
  replace (0 >=? n)%Z with false by (symmetry; rewrite Z.geb_leb; apply Z.leb_gt; lia). reflexivity.
Qed.

(* a value flagged "on an interior edge" sits exactly on the common end of bins k-1 and k,
   and the textbook convention puts it in bin k: either neighbour contains it *)
Lemma on_edge_spec : forall lo hi n x k, lo < hi -> (0 < n)%Z ->
  on_edge lo hi n x = Some k ->
  (0 < k < n)%Z /\ x == lo + inject_Z k * bin_width lo hi n /\ bin_index lo hi n x = Some k.
Proof.
  intros lo hi n x k H Hn He. unfold on_edge in He. unfold bin_index.
  destruct (qlt_b x lo || qlt_b hi x) eqn:Eo; [discriminate|].
  destruct (Qeq_bool lo hi) eqn:Ee; [discriminate|].
  pose proof (scaled_pos_eq lo hi n x H Hn) as Hs.
  remember ((x - lo) * inject_Z n / (hi - lo)) as t eqn:Et in *. clear Et.
  destruct (Qeq_bool t (inject_Z (Qfloor t)) && (0 <? Qfloor t)%Z && (Qfloor t <? n)%Z) eqn:Ec; [|discriminate].
  injection He as He. subst k.
  apply andb_true_iff in Ec. destruct Ec as [Ec Ec3]. apply andb_true_iff in Ec. destruct Ec as [Ec1 Ec2].
  apply Qeq_bool_iff in Ec1. apply Z.ltb_lt in Ec2. apply Z.ltb_lt in Ec3.
  split; [lia|]. split.
  - rewrite <- Ec1. lra.
  - replace (Qfloor t >=? n)%Z with false by (symmetry; rewrite Z.geb_leb; apply Z.leb_gt; lia).
    reflexivity.
Qed.

(* ---------- sums ---------- *)

Lemma qsum_app : forall a b, qsum (a ++ b) == qsum a + qsum b.
Proof.
  induction a as [|x a IH]; intros b; simpl; [lra|]. rewrite IH. lra.
Qed.

Lemma qsum_map_plus : forall (A : Type) (f g : A -> Q) (l : list A),
  qsum (map (fun k => f k + g k) l) == qsum (map f l) + qsum (map g l).
Proof.
  intros A f g l. induction l as [|a l IH]; simpl; [lra|]. rewrite IH. lra.
Qed.

Lemma qsum_map_zero : forall (A : Type) (l : list A), qsum (map (fun _ => 0) l) == 0.
Proof. intros A l. induction l as [|a l IH]; simpl; [lra|]. rewrite IH. lra. Qed.

Lemma qsum_map_ext : forall (A : Type) (f g : A -> Q) (l : list A),
  (forall a, In a l -> f a == g a) -> qsum (map f l) == qsum (map g l).
Proof.
  intros A f g l H. induction l as [|a l IH]; simpl; [lra|].
  rewrite (H a (or_introl eq_refl)), IH; [lra|]. intros b Hb. apply H. right. exact Hb.
Qed.

(* one unit of weight placed in bin j of n shows up exactly once over the bins *)
Lemma qsum_indicator : forall (l : list Z) (j : Z) (w : Q), NoDup l -> In j l ->
  qsum (map (fun k => if (j =? k)%Z then w else 0) l) == w.
Proof.
  induction l as [|a l IH]; intros j w Hnd Hin; [destruct Hin|].
  inversion Hnd as [|? ? Hna Hnd']; subst. simpl.
  destruct Hin as [Hin|Hin].
  - subst a. rewrite Z.eqb_refl.
    rewrite (qsum_map_ext _ _ (fun _ => 0)); [rewrite qsum_map_zero; lra|].
    intros b Hb. destruct (j =? b)%Z eqn:E; [|reflexivity]. apply Z.eqb_eq in E. subst b. contradiction.
  - destruct (j =? a)%Z eqn:E.
    + apply Z.eqb_eq in E. subst a. contradiction.
    + rewrite (IH j w Hnd' Hin). lra.
Qed.

Lemma qsum_indicator_none : forall (l : list Z) (w : Q),
  qsum (map (fun k => if opt_eqb None k then w else 0) l) == 0.
Proof. intros. simpl. apply qsum_map_zero. Qed.

Definition pt_weight (lo hi : Q) (p : option Q * bool * Q) : Q :=
  let '(x, sel, w) := p in
  match x with
  | Some x => if sel && qle_b lo x && qle_b x hi then w else 0
  | None => 0
  end.

Definition pt_bin (lo hi : Q) (n : Z) (p : option Q * bool * Q) (k : Z) : Q :=
  let '(x, sel, w) := p in
  match x with
  | Some x => if sel && opt_eqb (bin_index lo hi n x) k then w else 0
  | None => 0
  end.

Lemma pt_bin_total : forall lo hi n p, lo <= hi -> (0 < n)%Z ->
  qsum (map (pt_bin lo hi n p) (range0 n)) == pt_weight lo hi p.
Proof.
  intros lo hi n [[x sel] w] H Hn. unfold pt_bin, pt_weight.
  destruct x as [x|]; [|apply qsum_map_zero].
  destruct sel; simpl; [|apply qsum_map_zero].
  destruct (bin_index lo hi n x) as [j|] eqn:Eb.
  - assert (Hr : lo <= x <= hi) by (apply (bin_index_some_iff lo hi n x H); exists j; exact Eb).
    destruct Hr as [H1 H2].
    apply qle_b_iff in H1. apply qle_b_iff in H2. rewrite H1, H2. simpl.
    apply qsum_indicator.
    + apply NoDup_py_range1.
    + apply In_range0. apply (bin_index_range lo hi n x j H Hn Eb).
  - simpl. rewrite qsum_map_zero.
    destruct (qle_b lo x && qle_b x hi) eqn:E; [|reflexivity].
    apply andb_true_iff in E. destruct E as [E1 E2].
    apply qle_b_iff in E1. apply qle_b_iff in E2.
    assert (Hex : exists k, bin_index lo hi n x = Some k) by (apply bin_index_some_iff; [exact H|split; assumption]).
    destruct Hex as [k Hk]. congruence.
Qed.

Lemma hist_sorted_total : forall lo hi n pts, lo <= hi -> (0 < n)%Z ->
  qsum (map (fun k => qsum (map (fun p => pt_bin lo hi n p k) pts)) (range0 n))
  == qsum (map (pt_weight lo hi) pts).
Proof.
  intros lo hi n pts H Hn. induction pts as [|p pts IH].
  - simpl. apply qsum_map_zero.
  - simpl.
    rewrite (qsum_map_plus Z (fun k => pt_bin lo hi n p k) (fun k => qsum (map (fun p0 => pt_bin lo hi n p0 k) pts))).
    rewrite IH. rewrite (pt_bin_total lo hi n p H Hn). reflexivity.
Qed.

Lemma sort_range_le : forall lo hi, fst (sort_range lo hi) <= snd (sort_range lo hi).
Proof.
  intros lo hi. unfold sort_range. destruct (qlt_b hi lo) eqn:E; simpl.
  - apply qlt_b_iff in E. lra.
  - apply qlt_b_false_iff in E. exact E.
Qed.

Lemma hist1_unfold : forall lo hi n pts,
  hist1 lo hi n pts =
  map (fun k => qsum (map (fun p => pt_bin (fst (sort_range lo hi)) (snd (sort_range lo hi)) n p k) pts)) (range0 n).
Proof.
  intros. unfold hist1. destruct (sort_range lo hi) as [a b]. simpl.
  apply map_ext. intros k. f_equal.
Qed.

Lemma in_range_total_unfold : forall lo hi pts,
  in_range_total lo hi pts = qsum (map (pt_weight (fst (sort_range lo hi)) (snd (sort_range lo hi))) pts).
Proof.
  intros. unfold in_range_total. destruct (sort_range lo hi) as [a b]. simpl.
  reflexivity.
Qed.

(* the bins sum to the number (weight) of selected finite values inside the closed range *)
Lemma hist1_total : forall lo hi n pts, (0 < n)%Z ->
  qsum (hist1 lo hi n pts) == in_range_total lo hi pts.
Proof.
  intros lo hi n pts Hn. rewrite hist1_unfold, in_range_total_unfold.
  apply hist_sorted_total; [apply sort_range_le|exact Hn].
Qed.

Lemma hist1_length : forall lo hi n pts, (0 <= n)%Z -> zlen (hist1 lo hi n pts) = n.
Proof.
  intros. rewrite hist1_unfold. unfold zlen. rewrite map_length.
  fold (zlen (range0 n)). rewrite zlen_range0. lia.
Qed.

(* reversed ranges are sorted first *)
Lemma sort_range_swap : forall lo hi, ~ lo == hi -> sort_range hi lo = sort_range lo hi.
Proof.
  intros lo hi H. unfold sort_range.
  destruct (qlt_b lo hi) eqn:E1; destruct (qlt_b hi lo) eqn:E2; try reflexivity.
  - apply qlt_b_iff in E1. apply qlt_b_iff in E2. lra.
  - apply qlt_b_false_iff in E1. apply qlt_b_false_iff in E2. exfalso. apply H. lra.
Qed.

Lemma hist1_reversed : forall lo hi n pts, ~ lo == hi -> hist1 hi lo n pts = hist1 lo hi n pts.
Proof. intros. unfold hist1. rewrite sort_range_swap by assumption. reflexivity. Qed.

Lemma in_range_total_reversed : forall lo hi pts, ~ lo == hi -> in_range_total hi lo pts = in_range_total lo hi pts.
Proof. intros. unfold in_range_total. rewrite sort_range_swap by assumption. reflexivity. Qed.

(* each value falls in exactly one bin *)
Lemma filter_none : forall (A : Type) (f : A -> bool) (l : list A),
  (forall a, In a l -> f a = false) -> filter f l = [].
Proof.
  intros A f l H. induction l as [|a l IH]; [reflexivity|]. simpl.
  rewrite (H a (or_introl eq_refl)). apply IH. intros b Hb. apply H. right. exact Hb.
Qed.

Lemma one_bin : forall lo hi n x, lo <= hi -> (0 < n)%Z -> lo <= x <= hi ->
  length (filter (opt_eqb (bin_index lo hi n x)) (range0 n)) = 1%nat.
Proof.
  intros lo hi n x H Hn Hr.
  destruct (proj2 (bin_index_some_iff lo hi n x H) Hr) as [j Hj]. rewrite Hj.
  pose proof (bin_index_range lo hi n x j H Hn Hj) as Hjr.
  unfold range0.
  rewrite (py_range1_app 0 j n) by lia. rewrite (py_range1_cons j n) by lia.
  rewrite !filter_app. simpl. rewrite Z.eqb_refl.
  rewrite (filter_none _ _ (py_range 0 j 1)), (filter_none _ _ (py_range (j + 1) n 1)); [reflexivity| |].
  - intros a Ha. apply In_py_range1 in Ha. simpl. apply Z.eqb_neq. lia.
  - intros a Ha. apply In_py_range1 in Ha. simpl. apply Z.eqb_neq. lia.
Qed.

Lemma no_bin_outside : forall lo hi n x, lo <= hi -> ~ (lo <= x <= hi) ->
  filter (opt_eqb (bin_index lo hi n x)) (range0 n) = [].
Proof.
  intros lo hi n x H Hr.
  destruct (bin_index lo hi n x) as [j|] eqn:Ej.
  - exfalso. apply Hr. apply (bin_index_some_iff lo hi n x H). exists j. exact Ej.
  - apply filter_none. intros. reflexivity.
Qed.

(* ---------- the code-shaped 1-d histogram, linear or through a monotone map ---------- *)
Section Log.
  Variable L : Q -> Q.                 (* log10 on the positive rationals: only monotonicity is used *)
  Hypothesis L_mono : forall a b, 0 < a -> a <= b -> L a <= L b.

  (* a point list is consistent with L when every finite positive value carries its image *)
  Definition images_ok (pts : list (option Q * option Q * bool * Q)) : Prop :=
    forall x lx sel w, In (Some x, lx, sel, w) pts -> 0 < x -> lx = Some (L x).

  Definition raw (pts : list (option Q * option Q * bool * Q)) : list (option Q * bool * Q) :=
    map (fun '(x, _, sel, w) => (x, sel, w)) pts.

  Lemma pt_weight_kept : forall lo hi pts,
    qsum (map (pt_weight lo hi) (raw (filter (fun '(x, _, sel, _) => match x with Some x => sel && qle_b lo x && qle_b x hi | None => false end) pts)))
    == qsum (map (pt_weight lo hi) (raw pts)).
  Proof.
    intros lo hi pts. induction pts as [|[[[x lx] sel] w] pts IH]; [reflexivity|].
    simpl. destruct x as [x|].
    - destruct (sel && qle_b lo x && qle_b x hi) eqn:E; simpl.
      + rewrite E. rewrite IH. reflexivity.
      + rewrite IH. lra.
    - simpl. rewrite IH. lra.
  Qed.

  (* whenever the code returns bins, they sum to the weight of the selected finite values in the closed range *)
  Lemma histogram1_total : forall lg lo hi n pts l e, (0 < n)%Z ->
    images_ok pts ->
    histogram1 lg lo hi (L lo) (L hi) n pts = HBins l e ->
    qsum l == in_range_total lo hi (raw pts).
  Proof.
    intros lg lo hi n pts l e Hn Himg Hh. unfold histogram1 in Hh.
    rewrite in_range_total_unfold.
    destruct (sort_range lo hi) as [slo shi] eqn:Es.
    assert (Hle : slo <= shi).
    { pose proof (sort_range_le lo hi) as Hs. rewrite Es in Hs. exact Hs. }
    simpl fst. simpl snd.
    set (keepf := fun '(x, _, sel, _) => match x with Some x => sel && qle_b slo x && qle_b x shi | None => false end) in *.
    rewrite <- (pt_weight_kept slo shi pts). fold keepf.
    destruct (filter keepf pts) as [|p0 kept'] eqn:Ek; [discriminate|].
    rewrite <- Ek in Hh. rewrite <- Ek.
    assert (Hk : forall x lx sel w, In (x, lx, sel, w) (filter keepf pts) ->
                 exists x', x = Some x' /\ sel = true /\ slo <= x' <= shi).
    { intros x lx sel w Hin. apply filter_In in Hin. destruct Hin as [_ Hc]. unfold keepf in Hc.
      destruct x as [x'|]; [|discriminate]. exists x'.
      apply andb_true_iff in Hc. destruct Hc as [Hc Hc2]. apply andb_true_iff in Hc. destruct Hc as [Hc0 Hc1].
      apply qle_b_iff in Hc1. apply qle_b_iff in Hc2. destruct sel; [|discriminate]. repeat split; assumption. }
    destruct lg.
    - (* log *)
      destruct (qlt_b slo 0 || qlt_b shi 0) eqn:Eneg; [discriminate|].
      destruct (Qeq_bool slo 0) eqn:Ez; [discriminate|].
      injection Hh as Hl _. subst l.
      apply orb_false_iff in Eneg. destruct Eneg as [En1 En2].
      apply qlt_b_false_iff in En1.
      assert (Hpos : 0 < slo).
      { apply Qle_lteq in En1. destruct En1 as [En1|En1]; [exact En1|].
        assert (slo == 0) by lra. apply Qeq_bool_iff in H. congruence. }
      rewrite hist1_total by exact Hn. rewrite in_range_total_unfold.
      (* images are ordered like the raw ends *)
      assert (HL : L slo <= L shi) by (apply L_mono; assumption).
      assert (Hsr : (fst (sort_range (L lo) (L hi)) == L slo /\ snd (sort_range (L lo) (L hi)) == L shi)).
      { unfold sort_range in Es. unfold sort_range.
        destruct (qlt_b hi lo) eqn:E1; injection Es as E2 E3; subst slo shi.
        - destruct (qlt_b (L hi) (L lo)) eqn:E4; simpl; [split; reflexivity|].
          apply qlt_b_false_iff in E4. split; lra.
        - destruct (qlt_b (L hi) (L lo)) eqn:E4; simpl; [|split; reflexivity].
          apply qlt_b_iff in E4. lra. }
      destruct Hsr as [Hs1 Hs2].
      set (a := fst (sort_range (L lo) (L hi))) in *. set (b := snd (sort_range (L lo) (L hi))) in *.
      clearbody a b.
      unfold raw. rewrite !map_map.
      apply qsum_map_ext. intros [[[x lx] sel] w] Hin.
      destruct (Hk x lx sel w Hin) as [x' [Hx [Hsel [Hr1 Hr2]]]]. subst x sel.
      assert (Hx'pos : 0 < x') by lra.
      apply filter_In in Hin. destruct Hin as [Hin _].
      rewrite (Himg x' lx true w Hin Hx'pos). simpl.
      assert (H1 : a <= L x') by (rewrite Hs1; apply L_mono; assumption).
      assert (H2 : L x' <= b) by (rewrite Hs2; apply L_mono; lra).
      apply qle_b_iff in H1. apply qle_b_iff in H2. rewrite H1, H2.
      apply qle_b_iff in Hr1. apply qle_b_iff in Hr2. rewrite Hr1, Hr2. reflexivity.
    - injection Hh as Hl _. subst l.
      rewrite hist1_total by exact Hn. rewrite in_range_total_unfold, Es. simpl fst. simpl snd.
      unfold raw. rewrite !map_map.
      apply qsum_map_ext. intros [[[x lx] sel] w] Hin. reflexivity.
  Qed.
End Log.
