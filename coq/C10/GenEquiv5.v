(* C10 -- translated skeleton, part 5: the chunk loop of the translated Data.compute_statistic
   ("for chunk_view in iterate_chunks(self.shape, chunk_shape=chunk_shape): result[chunk_view[axis_index]] = self.compute_statistic(.., view=chunk_view)")
   produces element by element the unchunked textbook value. *)
From Coq Require Import ZArith List Bool Lia ZifyBool.
Import ListNotations.
From GV Require Import Common.PyInt gen.Gen_array C10.Model C10.Lemmas C10.Discharge
     C10.GenEquiv1 C10.GenEquiv2 C10.GenEquiv3 C10.GenEquiv4.
From GV Require C20.Model C20.OdometerProof.
Open Scope Z_scope.

(* views made of slices only: the entry-wise model coincides with the slice-wise one *)
Lemma view_sel_slices : forall shape (v : list slice), view_sel shape (map VSlice v) = map Positions (view_pos shape v).
Proof.
  induction shape as [|n shape IH]; intros v; [reflexivity|]. destruct v as [|s v]; simpl.
  - rewrite <- (IH []). reflexivity.
  - rewrite IH. reflexivity.
Qed.

Lemma sel_shape_positions : forall pos, sel_shape (map Positions pos) = vshape pos.
Proof. induction pos as [|p pos IH]; simpl; [reflexivity|]. rewrite IH. reflexivity. Qed.

Lemma to_under_e_positions : forall pos j, to_under_e (map Positions pos) j = to_under pos j.
Proof. induction pos as [|p pos IH]; intros j; [reflexivity|]. destruct j as [|i j]; simpl; [reflexivity|]. rewrite IH. reflexivity. Qed.

Lemma red_of_axes_red_axis : forall n ai L, (ai < n)%nat ->
  (forall i, 0 <= i < Z.of_nat n -> existsb (Z.eqb i) L = negb (i =? Z.of_nat ai)) ->
  red_of_axes (Z.of_nat n) (Some L) = red_axis n ai.
Proof.
  intros n ai L Hai HL. unfold red_of_axes. apply nth_ext with (d := true) (d' := true).
  - rewrite map_length, red_axis_length. unfold range0. rewrite py_range1_length. lia.
  - intros j Hj. rewrite map_length in Hj. unfold range0 in Hj. rewrite py_range1_length in Hj.
    assert (Hjn : (j < n)%nat) by lia.
    rewrite (nth_map_range0 _ _ n j true Hjn), nth_red_axis by exact Hjn. rewrite HL by lia.
    destruct (Nat.eqb j ai) eqn:E; [apply Nat.eqb_eq in E|apply Nat.eqb_neq in E]; lia.
Qed.

Lemma filter_single : forall n ai L, (ai < n)%nat ->
  (forall i, 0 <= i < Z.of_nat n -> existsb (Z.eqb i) L = negb (i =? Z.of_nat ai)) ->
  filter (fun a0 => negb (existsb (Z.eqb a0) L)) (py_range 0 (Z.of_nat n) 1) = [Z.of_nat ai].
Proof.
  intros n ai L Hai HL.
  rewrite (py_range1_app 0 (Z.of_nat ai) (Z.of_nat n)) by lia.
  rewrite (py_range1_cons (Z.of_nat ai) (Z.of_nat n)) by lia.
  rewrite filter_app. simpl filter. rewrite HL by lia. rewrite Z.eqb_refl. simpl.
  rewrite !filter_none; [reflexivity| |].
  - intros x Hx. apply In_py_range1 in Hx. rewrite HL by lia. lia.
  - intros x Hx. apply In_py_range1 in Hx. rewrite HL by lia. lia.
Qed.

Section ChunkLoop.
  Variables A res : Type.
  Variable R : list A -> res.
  Variable nan zero : res.
  Hypothesis R_nil : R [] = nan.
  Variables isfin ispos : A -> bool.
  Variable shape : list Z.
  Variable a : idx -> A.
  Hypothesis Hpos : Forall (fun n => 0 < n) shape.
  Variable ai : nat.
  Hypothesis Hai : (ai < length shape)%nat.
  Variable L : list Z.                                     (* the axis tuple: every axis except ai *)
  Hypothesis HL : forall i, 0 <= i < zlen shape -> existsb (Z.eqb i) L = negb (i =? Z.of_nat ai).
  Variable s : selection.
  Hypothesis Hs : g_is_slice_state s = false.
  Variables fin pos : bool.
  Variable unb : garr A -> garr A.
  Variable st : Z.
  Hypothesis Hunb : unb_sound A res R isfin ispos unb st.

  Local Notation GSTEP := (gen_step A res R nan zero isfin ispos shape a unb).
  Local Notation GREC := (gen_rec A res R nan zero isfin ispos shape a unb).
  Local Notation FILT := (filt_of A isfin ispos fin pos).
  Local Notation RED := (red_axis (length shape) ai).

  Let Hsh : Forall (fun n => 0 <= n) shape.
  Proof. apply Forall_forall. intros n Hn. rewrite Forall_forall in Hpos. apply Hpos in Hn. lia. Qed.

  (* element k of the unchunked result, written over the cells of the full array *)
  Definition gwhole (k : Z) : res :=
    R (map a (filter (fun c => sel_fun shape s c && FILT (a c)) (lanep (view_pos shape []) RED [k]))).

  (* one recursive call self.compute_statistic(.., view=chunk_view) *)
  Lemma gen_one_chunk : forall rf fuel ca cb,
    0 <= ca -> ca < cb -> cb <= nth ai shape 0 ->
    exists r, GREC (S rf) fuel st tt s (AxTuple L) fin pos tt (view_of_chunk (chunk_of shape ai ca cb)) None 40000000 = Ok r /\
              forall k, ca <= k < cb -> snd r [k - ca] = gwhole k.
  Proof.
    intros rf fuel ca cb Hca Hcab Hcb.
    set (sl := map slice_of_pair (chunk_of shape ai ca cb)).
    assert (Hview : view_of_chunk (chunk_of shape ai ca cb) = pv (Some (map VSlice sl))).
    { unfold view_of_chunk, pv, sl. rewrite map_map. reflexivity. }
    assert (Hsc : shortcut s (AxTuple L) (pv (Some (map VSlice sl))) = false)
      by (unfold shortcut; rewrite Hs; reflexivity).
    destruct (gen_step_definition A res R nan zero R_nil isfin ispos shape a Hsh unb st Hunb (GREC rf fuel) fuel s (AxTuple L) fin pos
                (Some (map VSlice sl)) 40000000 eq_refl Hsc) as [r [Hr [_ H2]]].
    exists r. split.
    - rewrite Hview. exact Hr.
    - intros k Hk. cbv zeta in H2. cbn [entries axes_of] in H2.
      rewrite view_sel_slices, sel_shape_positions in H2.
      set (pos' := view_pos shape sl) in *.
      assert (Hlen : length (vshape pos') = length shape) by (unfold vshape, pos'; rewrite map_length; apply view_pos_length).
      assert (Hred : red_of_axes (zlen (vshape pos')) (Some L) = RED).
      { unfold zlen. rewrite Hlen. apply red_of_axes_red_axis; [exact Hai|]. intros i Hi. apply HL. unfold zlen. exact Hi. }
      rewrite Hred in H2. rewrite H2.
      + unfold gwhole. f_equal. f_equal. f_equal.
        rewrite (map_ext _ _ (to_under_e_positions pos')). rewrite lane_to_under.
        unfold pos', sl. apply chunk_lane; assumption || lia.
      + rewrite <- Hlen at 1. rewrite out_shape_red_axis by (rewrite Hlen; exact Hai).
        unfold pos', sl. rewrite vshape_chunk_nth by (assumption || lia). constructor; [lia|constructor].
  Qed.

  Local Notation LOOP3 rec := (compute_statistic_loop3 Z unit selection unit (gres res) (g_setitem res) rec st tt s (AxTuple L) fin pos tt (Z.of_nat ai)).

  Lemma setitem_at : forall sh0 (f : idx -> res) ca cb (r : gres res) k,
    snd (g_setitem res (sh0, f) [slice_of_pair (ca, cb)] r) [k] = if (ca <=? k) && (k <? cb) then snd r [k - ca] else f [k].
  Proof.
    intros. unfold g_setitem, slice_of_pair, sl_lo, sl_hi. simpl. destruct (ca <=? k), (k <? cb); reflexivity.
  Qed.

  Lemma loop3_step : forall (rec : g_rec_t res) (acc : gres res) ch,
    LOOP3 rec acc ch =
    match rec st tt s (AxTuple L) fin pos tt (view_of_chunk ch) None 40000000 with
    | Err e => Err e
    | Ok values => Ok (g_setitem res acc [slice_of_pair (pnth ch (Z.of_nat ai))] values)
    end.
  Proof. reflexivity. Qed.

  (* the loop over any list of chunks along axis ai that lie inside the array *)
  Lemma gen_chunk_fold : forall rf fuel chunks sh0 (f : idx -> res) k,
    chunks_ok shape ai chunks ->
    0 <= k < nth ai shape 0 ->
    f [k] = gwhole k \/ covered ai chunks k ->
    exists f',
      fold_left (fun acc_ x_ => match acc_ with Err e_ => Err e_ | Ok st_ => LOOP3 (GREC (S rf) fuel) st_ x_ end) chunks (Ok (sh0, f))
      = Ok (sh0, f') /\ f' [k] = gwhole k.
  Proof.
    intros rf fuel chunks. induction chunks as [|ch chunks IH]; intros sh0 f k Hok Hk Hcov.
    - simpl. exists f. split; [reflexivity|]. destruct Hcov as [H|[ch [[] _]]]. exact H.
    - rewrite fold_left_cons.
      destruct (Hok ch (or_introl eq_refl)) as [ca [cb [Ech [Hca [Hcab Hcb]]]]].
      destruct (gen_one_chunk rf fuel ca cb Hca Hcab Hcb) as [r [Hr Hrk]].
      subst ch.
      rewrite loop3_step. rewrite Hr.
      assert (Hp : pnth (chunk_of shape ai ca cb) (Z.of_nat ai) = (ca, cb)).
      { unfold pnth. rewrite Nat2Z.id. apply chunk_of_nth. exact Hai. }
      rewrite Hp.
      change (g_setitem res (sh0, f) [slice_of_pair (ca, cb)] r) with (sh0, snd (g_setitem res (sh0, f) [slice_of_pair (ca, cb)] r)).
      apply IH.
      + intros ch' Hch'. apply Hok. right. exact Hch'.
      + exact Hk.
      + rewrite setitem_at.
        destruct ((ca <=? k) && (k <? cb)) eqn:Ein.
        * left. apply Hrk. lia.
        * destruct Hcov as [H|[ch' [[Hch'|Hch'] Hr']]].
          -- left. exact H.
          -- subst ch'. rewrite chunk_of_nth in Hr' by exact Hai. simpl in Hr'. lia.
          -- right. exists ch'. split; assumption.
  Qed.

  (* ---- the translated function in the chunked case: every element is the unchunked textbook value ---- *)
  Theorem gen_chunked_definition : forall rf fuel ncm,
    0 < zlen L -> zlen L = zlen shape - 1 ->
    zprod shape > ncm ->
    (C20.Model.fuel_for shape <= fuel)%nat ->
    exists r,
      gen_compute_statistic A res R nan zero isfin ispos shape a unb (S (S rf)) fuel st s (AxTuple L) fin pos PVNone ncm = Ok r /\
      fst r = [nth ai shape 0] /\
      forall k, 0 <= k < nth ai shape 0 -> snd r [k] = gwhole k.
  Proof.
    intros rf fuel ncm HL0 HL1 Hncm Hfuel.
    rewrite gen_compute_statistic_S. unfold gen_step, compute_statistic_step. cbv beta zeta.
    assert (Hc : (view_is_none (if view_is_list PVNone then to_tuple PVNone else PVNone) && axis_is_tuple (AxTuple L) && (axis_len (AxTuple L) >? 0)
                  && (axis_len (AxTuple L) =? self_ndim shape - 1) && (self_size shape >? ncm) && negb (g_is_slice_state s)) = true).
    { rewrite Hs. unfold axis_len, self_ndim, self_size. cbn [view_is_list view_is_none axis_is_tuple negb]. lia. }
    rewrite Hc. cbn [negb].
    assert (Hidx : znth (filter (fun a0 => negb (axis_mem a0 (AxTuple L))) (py_range 0 (self_ndim shape) 1)) 0 = Z.of_nat ai).
    { unfold axis_mem, self_ndim, zlen. rewrite (filter_single (length shape) ai L Hai HL). reflexivity. }
    rewrite !Hidx.
    change (zupd shape (Z.of_nat ai) (Z.max 1 (py_int_div (znth shape (Z.of_nat ai)) (py_truediv (self_size shape) ncm))))
      with (zupd shape (Z.of_nat ai) (chunk_len shape (Z.of_nat ai) ncm)).
    rewrite cs_of_zupd.
    pose proof (chunk_len_fits shape ai ncm Hpos Hai Hncm) as Hcl.
    rewrite (C20.OdometerProof.iterate_chunks_is_product_fuel shape (cs_of shape ai (chunk_len shape (Z.of_nat ai) ncm)) fuel);
      [|intros ->; simpl in Hai; lia|apply cs_of_fits; assumption|exact Hfuel].
    destruct (chunking_hypotheses_hold_for_m_chunks shape ai (chunk_len shape (Z.of_nat ai) ncm) Hpos Hai ltac:(lia)) as [Hok Hcov].
    set (chunks := C20.Model.m_chunks shape (cs_of shape ai (chunk_len shape (Z.of_nat ai) ncm))) in *.
    (* the fold yields Ok with the same shape whatever k; take the function from k-independent existence *)
    assert (Hex : exists f', fold_left (fun acc_ x_ => match acc_ with Err e_ => Err e_ | Ok st_ => LOOP3 (GREC (S rf) fuel) st_ x_ end) chunks
                               (Ok ([znth shape (Z.of_nat ai)], fun _ : idx => zero)) = Ok ([znth shape (Z.of_nat ai)], f')).
    { assert (Hn : 0 < nth ai shape 0).
      { rewrite Forall_forall in Hpos. apply Hpos. apply nth_In. exact Hai. }
      destruct (gen_chunk_fold rf fuel chunks [znth shape (Z.of_nat ai)] (fun _ => zero) 0 Hok ltac:(lia) (or_intror (Hcov 0 ltac:(lia))))
        as [f' [Hf' _]]. exists f'. exact Hf'. }
    destruct Hex as [f' Hf'].
    match goal with |- context [fold_left ?F chunks ?I] => set (FOLD := fold_left F chunks I) end.
    assert (HF : FOLD = Ok ([znth shape (Z.of_nat ai)], f')) by exact Hf'. rewrite HF.
    exists ([znth shape (Z.of_nat ai)], f'). split; [reflexivity|]. split; [cbn [fst]; rewrite znth_nat; reflexivity|].
    intros k Hk.
    destruct (gen_chunk_fold rf fuel chunks [znth shape (Z.of_nat ai)] (fun _ => zero) k Hok Hk (or_intror (Hcov k Hk))) as [f'' [Hf'' Hk'']].
    rewrite Hf' in Hf''. injection Hf'' as <-. exact Hk''.
  Qed.
End ChunkLoop.
