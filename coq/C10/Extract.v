From Coq Require Import ZArith ExtrOcamlBasic.
From GV Require Import Common.Wire C10.Model.
Extraction "c10_model.ml" run_case Z.add Z.mul Z.div_eucl Z.opp.
