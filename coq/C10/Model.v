(* C10 — executable model of Data.compute_statistic's index arithmetic
   (glue/core/data.py) and of Data.compute_histogram's binning.
   Definitions only; the proofs are in Lemmas*.v.

   Arrays are (shape, f : idx -> X) in local 0-based coordinates.  A view is a
   list of Python slices, possibly shorter than the number of axes (None and
   Ellipsis are the empty list).  The reducer R (numpy's nan* function applied
   to the kept values of one lane) is abstract. *)
From Coq Require Import ZArith List Bool QArith Qround.
Import ListNotations.
From GV Require Import Common.Wire Common.PyInt gen.Gen_array.
From GV Require Export gen.Gen_stat.
Open Scope Z_scope.

Notation idx := (list Z) (only parsing).

Definition range0 (n : Z) : list Z := py_range 0 n 1.

(* all index tuples, row-major, given the list of positions of every axis *)
Fixpoint prod_idx (axes : list (list Z)) : list idx :=
  match axes with
  | [] => [[]]
  | p :: rest => flat_map (fun i => map (cons i) (prod_idx rest)) p
  end.

Definition box (sh : list Z) : list idx := prod_idx (map range0 sh).

Fixpoint zadd (a b : idx) : idx :=
  match a, b with
  | x :: a', y :: b' => (x + y) :: zadd a' b'
  | _, _ => []
  end.

(* ---------- views ---------- *)

(* positions (in the coordinates of the full array) selected on every axis *)
Fixpoint view_pos (shape : list Z) (view : list slice) : list (list Z) :=
  match shape with
  | [] => []
  | n :: shape' =>
    match view with
    | [] => range0 n :: view_pos shape' []
    | s :: view' => slice_elems s n :: view_pos shape' view'
    end
  end.

Definition vshape (pos : list (list Z)) : list Z := map (fun p => zlen p) pos.

(* index in the full array of the element j of the viewed array *)
Fixpoint to_under (pos : list (list Z)) (j : idx) : idx :=
  match pos, j with
  | p :: pos', i :: j' => nth (Z.to_nat i) p 0 :: to_under pos' j'
  | _, _ => []
  end.

(* ---------- reduction over a set of axes ---------- *)

(* red : one flag per axis, true = the axis is collapsed.
   cells of the lane that produces output element o, in row-major order *)
Fixpoint lane0 (sh : list Z) (red : list bool) (o : idx) : list idx :=
  match sh, red with
  | n :: sh', true :: red' => flat_map (fun i => map (cons i) (lane0 sh' red' o)) (range0 n)
  | n :: sh', false :: red' =>
      match o with
      | j :: o' => map (cons j) (lane0 sh' red' o')
      | [] => []
      end
  | _, _ => [[]]
  end.

Fixpoint out_shape (sh : list Z) (red : list bool) : list Z :=
  match sh, red with
  | n :: sh', r :: red' => if r then out_shape sh' red' else n :: out_shape sh' red'
  | _, _ => []
  end.

(* the (start, stop) pairs of the axes that are not collapsed *)
Fixpoint out_pairs (sub : list (Z * Z)) (red : list bool) : list (Z * Z) :=
  match sub, red with
  | p :: sub', r :: red' => if r then out_pairs sub' red' else p :: out_pairs sub' red'
  | _, _ => []
  end.

(* axis=None -> everything collapsed; axis=int/tuple -> the listed axes *)
Definition red_of_axes (ndim : Z) (axes : option (list Z)) : list bool :=
  match axes with
  | None => map (fun _ => true) (range0 ndim)
  | Some ax => map (fun i => existsb (Z.eqb i) ax) (range0 ndim)
  end.

(* ---------- minimal sub-array of a mask (subarray_slices) ---------- *)

Definition list_min (l : list Z) : Z := match l with [] => 0 | x :: t => fold_left Z.min t x end.
Definition list_max (l : list Z) : Z := match l with [] => 0 | x :: t => fold_left Z.max t x end.

(* slice(min(indices), max(indices) + 1) for every axis; trues = the index tuples where the mask is set *)
Definition bbox (ndim : nat) (trues : list idx) : list (Z * Z) :=
  map (fun i => (list_min (map (fun c => nth i c 0) trues), list_max (map (fun c => nth i c 0) trues) + 1)) (seq 0 ndim).

Definition step_not_one (v : slice) : bool :=
  match sl_step v with None => false | Some k => negb (k =? 1) end.

(* the view used to read the data: the original view combined with subarray_slices.
   None = "bail out" (a slice with a step other than 1) *)
Fixpoint new_view (shape : list Z) (view : list slice) (sub : list (Z * Z)) : option (list slice) :=
  match shape, sub with
  | n :: shape', (ss, se) :: sub' =>
    match view with
    | [] =>
      match new_view shape' [] sub' with
      | Some r => Some (Slice (Some ss) (Some se) None :: r)
      | None => None
      end
    | v :: view' =>
      if step_not_one v then None
      else match slice_indices v n with
           | Some (view_start, _, _) =>
             match new_view shape' view' sub' with
             | Some r => Some (Slice (Some (view_start + ss)) (Some (view_start + se)) None :: r)
             | None => None
             end
           | None => None
           end
    end
  | _, _ => Some []
  end.

Fixpoint inside (bounds : list (Z * Z)) (o : idx) : bool :=
  match bounds, o with
  | (s, e) :: b', j :: o' => (s <=? j) && (j <? e) && inside b' o'
  | _, _ => true
  end.

Fixpoint zsub_starts (o : idx) (bounds : list (Z * Z)) : idx :=
  match o, bounds with
  | j :: o', (s, _) :: b' => (j - s) :: zsub_starts o' b'
  | _, _ => []
  end.

(* membership mask of a SliceSubsetState (mask = zeros; mask[slices] = True) *)
Fixpoint slices_mask (shape : list Z) (sl : list slice) (i : idx) : bool :=
  match shape, i with
  | n :: shape', j :: i' =>
    match sl with
    | [] => slices_mask shape' [] i'
    | s :: sl' => existsb (Z.eqb j) (slice_elems s n) && slices_mask shape' sl' i'
    end
  | _, _ => true
  end.

(* ---------- views with integer entries (they reach compute_statistic through IndexedData and the public API) ---------- *)

(* ventry (VInt | VSlice) is defined in the generated file gen/Gen_stat.v *)

(* what a view does to one axis: fix a position (the axis disappears) or select positions *)
Inductive axis_sel := Fixed (p : Z) | Positions (l : list Z).

Definition norm_index (i n : Z) : Z := if i <? 0 then i + n else i.

Fixpoint view_sel (shape : list Z) (view : list ventry) : list axis_sel :=
  match shape with
  | [] => []
  | n :: shape' =>
    match view with
    | [] => Positions (range0 n) :: view_sel shape' []
    | VInt i :: view' => Fixed (norm_index i n) :: view_sel shape' view'
    | VSlice s :: view' => Positions (slice_elems s n) :: view_sel shape' view'
    end
  end.

Fixpoint sel_shape (sels : list axis_sel) : list Z :=
  match sels with
  | [] => []
  | Fixed _ :: r => sel_shape r
  | Positions l :: r => zlen l :: sel_shape r
  end.

Fixpoint to_under_e (sels : list axis_sel) (j : idx) : idx :=
  match sels with
  | [] => []
  | Fixed p :: r => p :: to_under_e r j
  | Positions l :: r =>
    match j with
    | i :: j' => nth (Z.to_nat i) l 0 :: to_under_e r j'
    | [] => []
    end
  end.

(* the recombined view: idim runs over the axes of the data, mask_idim (= the position in sub) only over
   those the view keeps; an integer entry is passed through *)
Fixpoint new_view_e (shape : list Z) (view : list ventry) (sub : list (Z * Z)) : option (list ventry) :=
  match shape with
  | [] => Some []
  | n :: shape' =>
    match view with
    | [] =>
      match sub with
      | (ss, se) :: sub' =>
        match new_view_e shape' [] sub' with
        | Some r => Some (VSlice (Slice (Some ss) (Some se) None) :: r)
        | None => None
        end
      | [] => Some []
      end
    | VInt i :: view' =>
      match new_view_e shape' view' sub with
      | Some r => Some (VInt i :: r)
      | None => None
      end
    | VSlice v :: view' =>
      if step_not_one v then None
      else match sub with
           | (ss, se) :: sub' =>
             match slice_indices v n with
             | Some (view_start, _, _) =>
               match new_view_e shape' view' sub' with
               | Some r => Some (VSlice (Slice (Some (view_start + ss)) (Some (view_start + se)) None) :: r)
               | None => None
               end
             | None => None
             end
           | [] => Some []
           end
    end
  end.

Fixpoint all_slices (view : list ventry) : option (list slice) :=
  match view with
  | [] => Some []
  | VSlice s :: v' => match all_slices v' with Some r => Some (s :: r) | None => None end
  | VInt _ :: _ => None
  end.

Inductive selection :=
| SelNone
| SelMask (m : idx -> bool)
| SelSlices (sl : list slice).

Section Stat.
  Variables A res : Type.
  Variable R : list A -> res.      (* numpy's NaN-aware reducer applied to the kept values of one lane *)
  Variable nan zero : res.

  (* utils.compute_statistic(data, mask, axis): values that are not kept become NaN and
     the nan* function is applied along the axes; R sees the kept values only *)
  Definition reduce (sh : list Z) (f : idx -> A) (keep : idx -> bool) (red : list bool) : idx -> res :=
    fun o => R (map f (filter keep (lane0 sh red o))).

  (* full_result = nan; full_result[result_slices] = result *)
  Definition pad (bounds : list (Z * Z)) (r : idx -> res) : idx -> res :=
    fun o => if inside bounds o then r (zsub_starts o bounds) else nan.

  (* the textbook definition: mask and filter on the full array, then view, then reduce *)
  Definition textbook (shape : list Z) (a : idx -> A) (filt : A -> bool) (m : idx -> bool)
             (view : list slice) (red : list bool) : list Z * (idx -> res) :=
    let pos := view_pos shape view in
    let vsh := vshape pos in
    (out_shape vsh red,
     reduce vsh (fun j => a (to_under pos j)) (fun j => m (to_under pos j) && filt (a (to_under pos j))) red).

  (* Data.compute_statistic below the chunk loop (data.py "subarray_slices = None" ... "return full_result") *)
  Definition stat_view (shape : list Z) (a : idx -> A) (filt : A -> bool) (m : option (idx -> bool))
             (view : list slice) (red : list bool) : list Z * (idx -> res) :=
    let pos := view_pos shape view in
    let vsh := vshape pos in
    let data := fun j => a (to_under pos j) in
    match m with
    | None => (out_shape vsh red, reduce vsh data (fun j => filt (data j)) red)
    | Some m =>
      let mv := fun j => m (to_under pos j) in
      let trues := filter mv (box vsh) in
      match trues with
      | [] => (out_shape vsh red, fun _ => nan)
      | _ :: _ =>
        let sub := bbox (length vsh) trues in
        match new_view shape view sub with
        | None =>
          (* bail out: neither cropped nor padded *)
          (out_shape vsh red, reduce vsh data (fun j => mv j && filt (data j)) red)
        | Some nv =>
          let pos' := view_pos shape nv in
          let csh := vshape pos' in
          let data' := fun j => a (to_under pos' j) in
          let mc := fun j => mv (zadd j (map fst sub)) in          (* mask[subarray_slices] *)
          let r := reduce csh data' (fun j => mc j && filt (data' j)) red in
          (out_shape vsh red, pad (out_pairs sub red) r)
        end
      end
    end.

  (* the same, for views that may contain integers (axes refer to the viewed array) *)
  Definition textbook_e (shape : list Z) (a : idx -> A) (filt : A -> bool) (m : idx -> bool)
             (view : list ventry) (red : list bool) : list Z * (idx -> res) :=
    let sels := view_sel shape view in
    let vsh := sel_shape sels in
    (out_shape vsh red,
     reduce vsh (fun j => a (to_under_e sels j)) (fun j => m (to_under_e sels j) && filt (a (to_under_e sels j))) red).

  Definition stat_view_e (shape : list Z) (a : idx -> A) (filt : A -> bool) (m : option (idx -> bool))
             (view : list ventry) (red : list bool) : list Z * (idx -> res) :=
    let sels := view_sel shape view in
    let vsh := sel_shape sels in
    let data := fun j => a (to_under_e sels j) in
    match m with
    | None => (out_shape vsh red, reduce vsh data (fun j => filt (data j)) red)
    | Some m =>
      let mv := fun j => m (to_under_e sels j) in
      let trues := filter mv (box vsh) in
      match trues with
      | [] => (out_shape vsh red, fun _ => nan)
      | _ :: _ =>
        let sub := bbox (length vsh) trues in
        match new_view_e shape view sub with
        | None => (out_shape vsh red, reduce vsh data (fun j => mv j && filt (data j)) red)
        | Some nv =>
          let sels' := view_sel shape nv in
          let csh := sel_shape sels' in
          let data' := fun j => a (to_under_e sels' j) in
          let mc := fun j => mv (zadd j (map fst sub)) in
          let r := reduce csh data' (fun j => mc j && filt (data' j)) red in
          (out_shape vsh red, pad (out_pairs sub red) r)
        end
      end
    end.

  (* result[a:b] = values *)
  Definition assign_range (l : list res) (a b : Z) (v : idx -> res) : list res :=
    map (fun '(k, x) => if (a <=? k) && (k <? b) then v [k - a] else x)
        (combine (range0 (zlen l)) l).

  (* slice_of_pair : gen/Gen_stat.v *)

  Definition chunk_len (shape : list Z) (ai : Z) (n_chunk_max : Z) : Z :=
    Z.max 1 (znth shape ai * n_chunk_max / zprod shape).

  (* the loop  "for chunk_view in iterate_chunks(...): result[chunk_view[axis_index]] = compute_statistic(view=chunk_view)" *)
  Definition chunk_loop (shape : list Z) (a : idx -> A) (filt : A -> bool) (m : option (idx -> bool))
             (red : list bool) (ai : Z) (chunks : list (list (Z * Z))) : list res :=
    fold_left (fun result ch =>
                 let '(_, v) := stat_view shape a filt m (map slice_of_pair ch) red in
                 let '(ca, cb) := nth (Z.to_nat ai) ch (0, 0) in
                 assign_range result ca cb v)
              chunks (map (fun _ => zero) (range0 (znth shape ai))).

  Definition mask_of (shape : list Z) (s : selection) : option (idx -> bool) :=
    match s with
    | SelNone => None
    | SelMask m => Some m
    | SelSlices sl => Some (slices_mask shape sl)
    end.

  Definition is_slices (s : selection) : bool := match s with SelSlices _ => true | _ => false end.

  (* Data.compute_statistic *)
  Definition compute_statistic (fuel : nat) (shape : list Z) (a : idx -> A) (filt : A -> bool) (s : selection)
             (view : option (list slice)) (axes : option (list Z)) (n_chunk_max : Z)
    : result (list Z * (idx -> res)) :=
    let ndim := zlen shape in
    let red := red_of_axes ndim axes in
    let chunked :=
        match view, axes with
        | None, Some ax => (0 <? zlen ax) && (zlen ax =? ndim - 1) && (zprod shape >? n_chunk_max) && negb (is_slices s)
        | _, _ => false
        end in
    if chunked then
      let ax := match axes with Some ax => ax | None => [] end in
      let ai := hd 0 (filter (fun i => negb (existsb (Z.eqb i) ax)) (range0 ndim)) in
      let chunk_shape := zupd shape ai (chunk_len shape ai n_chunk_max) in
      match iterate_chunks fuel shape (Some chunk_shape) None with
      | Err e => Err e
      | Ok chunks =>
        let l := chunk_loop shape a filt (mask_of shape s) red ai chunks in
        Ok ([znth shape ai], fun o => match o with [k] => nth (Z.to_nat k) l nan | _ => nan end)
      end
    else
      match s, view, axes with
      | SelSlices sl, None, None =>
        (* shortcut: data = subset_state.to_array(self, cid); mask = None *)
        Ok (stat_view shape a filt None sl red)
      | _, _, _ =>
        Ok (stat_view shape a filt (mask_of shape s) (match view with None => [] | Some v => v end) red)
      end.
  (* entry point for views that may contain integers *)
  Definition compute_statistic_e (fuel : nat) (shape : list Z) (a : idx -> A) (filt : A -> bool) (s : selection)
             (view : option (list ventry)) (axes : option (list Z)) (n_chunk_max : Z)
    : result (list Z * (idx -> res)) :=
    match view with
    | None => compute_statistic fuel shape a filt s None axes n_chunk_max
    | Some v =>
      match all_slices v with
      | Some sl => compute_statistic fuel shape a filt s (Some sl) axes n_chunk_max
      | None =>
        let red := red_of_axes (zlen (sel_shape (view_sel shape v))) axes in
        Ok (stat_view_e shape a filt (mask_of shape s) v red)
      end
    end.
End Stat.


(* ---------- the translated skeleton of Data.compute_statistic (coq/gen/Gen_stat.v) on the model's arrays ----------
   The K_* operations of the generated Section are instantiated with functional n-d arrays (shape, index -> value);
   this block is the hand-written model of numpy's semantics for exactly those operations. *)
Section GenInst.
  Variables A res : Type.
  Variable R : list A -> res.
  Variable nan zero : res.
  Variables isfin ispos : A -> bool.       (* np.isfinite(x), x > 0 *)
  Variable shape : list Z.
  Variable a : idx -> A.                   (* the component *)

  Definition garr : Type := (list Z * (idx -> A))%type.
  (* glue.utils.unbroadcast on a data array: the stride-0 axes are cut to length 1.  Which axes have stride 0 is a property of the
     component (pixel coordinates, stored np.broadcast_to arrays), so the operation is a parameter here; bc_unbroadcast below is
     its concrete form for a list of flags. *)
  Variable unb : garr -> garr.
  Definition gmarr : Type := (list Z * (idx -> bool))%type.
  Definition gres : Type := (list Z * (idx -> res))%type.

  (* utils.compute_statistic: keep = ones; if finite: keep &= isfinite(data); if positive: keep &= data > 0 *)
  Definition filt_of (finite positive : bool) : A -> bool :=
    fun x => (negb finite || isfin x) && (negb positive || ispos x).

  Definition axes_of (ax : pyaxis) : option (list Z) :=
    match ax with AxNone => None | AxInt i => Some [i] | AxTuple l => Some l end.

  Definition g_get_data (_ : unit) (v : pyview) : garr :=
    let sels := view_sel shape (view_entries v) in (sel_shape sels, fun j => a (to_under_e sels j)).
  Definition g_is_slice_state (s : selection) : bool := match s with SelSlices _ => true | _ => false end.
  Definition g_truthy (s : selection) : bool := match s with SelNone => false | _ => true end.
  Definition g_mask_fun (s : selection) : idx -> bool :=
    match s with SelNone => fun _ => false | SelMask m => m | SelSlices sl => slices_mask shape sl end.
  Definition g_to_mask (s : selection) (v : pyview) : gmarr :=
    let sels := view_sel shape (view_entries v) in (sel_shape sels, fun j => g_mask_fun s (to_under_e sels j)).
  Definition g_to_array (s : selection) (_ : unit) : garr :=
    let pos := view_pos shape (match s with SelSlices sl => sl | _ => [] end) in (vshape pos, fun j => a (to_under pos j)).
  Definition g_any (m : gmarr) : bool := existsb (snd m) (box (fst m)).
  Definition g_ndim (m : gmarr) : Z := zlen (fst m).
  Definition g_any_axes (m : gmarr) (axes : list Z) : gmarr :=
    let red := map (fun i => existsb (Z.eqb i) axes) (range0 (zlen (fst m))) in
    (out_shape (fst m) red, fun o => existsb (snd m) (lane0 (fst m) red o)).
  Definition g_broadcast_to (m : gmarr) (sh : list Z) : gmarr := (sh, snd m).
  Definition g_where0 (m : gmarr) : list Z := filter (fun i => snd m [i]) (range0 (hd 0 (fst m))).
  Definition sl_lo (s : slice) : Z := match sl_start s with Some k => k | None => 0 end.
  Definition sl_hi (s : slice) : Z := match sl_stop s with Some k => k | None => 0 end.
  (* m[slices] for slices slice(lo, hi) inside the array (the only ones the skeleton builds) *)
  Definition g_mask_getitem (m : gmarr) (sl : list slice) : gmarr :=
    (map (fun s => sl_hi s - sl_lo s) sl, fun j => snd m (zadd j (map sl_lo sl))).
  Definition g_compute_statistic (_ : Z) (d : garr) (m : option gmarr) (ax : pyaxis) (finite positive : bool) (_ : unit) : gres :=
    let red := red_of_axes (zlen (fst d)) (axes_of ax) in
    let filt := filt_of finite positive in
    (out_shape (fst d) red,
     reduce A res R (fst d) (snd d) (fun j => match m with Some m => snd m j | None => true end && filt (snd d j)) red).
  (* x[slices] = v  for slices slice(lo, hi) *)
  Definition g_setitem (x : gres) (sl : list slice) (v : gres) : gres :=
    let bounds := map (fun s => (sl_lo s, sl_hi s)) sl in
    (fst x, fun o => if inside bounds o then snd v (zsub_starts o bounds) else snd x o).

  Local Notation WITH_OPS f :=
    (f Z unit selection unit garr gmarr gres shape (fun st : Z => st)
      g_get_data g_is_slice_state g_truthy g_to_mask g_to_array (fun m : gmarr => m) unb g_any g_ndim (@fst (list Z) (idx -> bool))
      g_any_axes g_broadcast_to g_where0 list_min list_max g_mask_getitem
      (fun _ : garr => false) (fun d : garr => d) (fun d : garr => zprod (fst d)) (fun (d : garr) (m : option gmarr) (_ : option Z) => (d, m))
      g_compute_statistic (fun r : gres => zlen (fst r)) (([], fun _ => nan) : gres) (fun sh => ((sh, fun _ => nan) : gres))
      (fun sh => ((sh, fun _ => zero) : gres)) (fun r : gres => ((fst r, fun _ => nan) : gres)) g_setitem).

  Definition g_rec_t : Type := rec_t Z unit selection unit gres.
  (* the loop bodies and the function body of the generated file, on the model's arrays *)
  Definition g_loop1 : gmarr -> gmarr -> list slice -> Z -> list slice :=
    compute_statistic_loop1 gmarr g_ndim (@fst (list Z) (idx -> bool)) g_any_axes g_broadcast_to g_where0 list_min list_max.
  Definition g_loop2 : pyview -> list slice -> gmarr -> list ventry * Z * bool * bool -> Z -> list ventry * Z * bool * bool :=
    compute_statistic_loop2 gmarr shape (@fst (list Z) (idx -> bool)).
  Definition gen_step (rec : g_rec_t) (fuel : nat) (st : Z) (s : selection) (ax : pyaxis) (finite positive : bool) (v : pyview) (ncm : Z)
    : result gres :=
    WITH_OPS Gen_stat.compute_statistic_step rec fuel st tt s ax finite positive tt v None ncm.
  Definition gen_rec (rfuel fuel : nat) : g_rec_t := WITH_OPS Gen_stat.compute_statistic rfuel fuel.
  Definition gen_compute_statistic (rfuel fuel : nat) (st : Z) (s : selection) (ax : pyaxis) (finite positive : bool) (v : pyview) (ncm : Z)
    : result gres :=
    gen_rec rfuel fuel st tt s ax finite positive tt v None ncm.
End GenInst.

(* unbroadcast for a component whose stride-0 axes (of the array it is applied to) are flagged *)
Fixpoint bc_shape (bc : list bool) (sh : list Z) : list Z :=
  match bc, sh with
  | b :: bc', n :: sh' => (if b then Z.min 1 n else n) :: bc_shape bc' sh'
  | _, _ => sh
  end.
Definition bc_unbroadcast {A : Type} (bc : list bool) (d : list Z * (list Z -> A)) : list Z * (list Z -> A) := (bc_shape bc (fst d), snd d).
(* the flags of the axes that survive a view (integer entries remove their axis) *)
Fixpoint bc_view (sels : list axis_sel) (bc : list bool) : list bool :=
  match sels, bc with
  | Fixed _ :: r, _ :: bc' => bc_view r bc'
  | Positions _ :: r, b :: bc' => b :: bc_view r bc'
  | _, _ => []
  end.

(* ---------- histograms ---------- *)
Open Scope Q_scope.

Definition qle_b (a b : Q) : bool := Qle_bool a b.
Definition qlt_b (a b : Q) : bool := negb (Qle_bool b a).

(* equal-width bins over the closed range [lo, hi], lo <= hi, n >= 1:
   bin k = [lo + k w, lo + (k+1) w), the last one closed.  lo = hi: everything in bin 0. *)
Definition bin_index (lo hi : Q) (n : Z) (x : Q) : option Z :=
  if qlt_b x lo || qlt_b hi x then None
  else if Qeq_bool lo hi then Some 0%Z
  else let k := Qfloor ((x - lo) * inject_Z n / (hi - lo)) in
       Some (if (k >=? n)%Z then (n - 1)%Z else k).

(* x sits exactly on the edge between bins k-1 and k (0 < k < n): Some k *)
Definition on_edge (lo hi : Q) (n : Z) (x : Q) : option Z :=
  if qlt_b x lo || qlt_b hi x then None
  else if Qeq_bool lo hi then None
  else let t := (x - lo) * inject_Z n / (hi - lo) in
       let k := Qfloor t in
       if Qeq_bool t (inject_Z k) && (0 <? k)%Z && (k <? n)%Z then Some k else None.

Definition sort_range (lo hi : Q) : Q * Q := if qlt_b hi lo then (hi, lo) else (lo, hi).

Definition qsum (l : list Q) : Q := fold_right Qplus 0 l.

Definition opt_eqb (a : option Z) (k : Z) : bool := match a with Some j => (j =? k)%Z | None => false end.

(* points = (value or None for NaN / +-inf, selected?, weight) ; one count per bin *)
Definition hist1 (lo hi : Q) (n : Z) (pts : list (option Q * bool * Q)) : list Q :=
  let '(lo, hi) := sort_range lo hi in
  map (fun k => qsum (map (fun '(x, sel, w) =>
                             match x with
                             | Some x => if sel && opt_eqb (bin_index lo hi n x) k then w else 0
                             | None => 0
                             end) pts))
      (range0 n).

Definition edge1 (lo hi : Q) (n : Z) (pts : list (option Q * bool * Q)) : list Q :=
  let '(lo, hi) := sort_range lo hi in
  map (fun k => qsum (map (fun '(x, sel, w) =>
                             match x with
                             | Some x => if sel && opt_eqb (on_edge lo hi n x) k then w else 0
                             | None => 0
                             end) pts))
      (range0 n).

(* number (weight) of selected finite values inside the closed range *)
Definition in_range_total (lo hi : Q) (pts : list (option Q * bool * Q)) : Q :=
  let '(lo, hi) := sort_range lo hi in
  qsum (map (fun '(x, sel, w) =>
               match x with
               | Some x => if sel && qle_b lo x && qle_b x hi then w else 0
               | None => 0
               end) pts).

(* 2-d: bins (kx, ky), row-major nx x ny *)
Definition hist2 (xlo xhi ylo yhi : Q) (nx ny : Z) (pts : list (option Q * option Q * bool * Q)) : list Q :=
  let '(xlo, xhi) := sort_range xlo xhi in
  let '(ylo, yhi) := sort_range ylo yhi in
  flat_map (fun kx =>
    map (fun ky => qsum (map (fun '(x, y, sel, w) =>
                             match x, y with
                             | Some x, Some y =>
                               if sel && opt_eqb (bin_index xlo xhi nx x) kx && opt_eqb (bin_index ylo yhi ny y) ky then w else 0
                             | _, _ => 0
                             end) pts))
        (range0 ny))
    (range0 nx).

(* the code-shaped log handling of compute_histogram: raw range (lo, hi) decides the early
   returns; the binning happens on the images (llo, lhi, lx) under the monotone map *)
Inductive hist_out := HZeros | HError | HBins (l : list Q) (e : list Q).

Definition histogram1 (log : bool) (lo hi llo lhi : Q) (n : Z) (pts : list (option Q * option Q * bool * Q)) : hist_out :=
  (* pts = (raw value, image of the value under log, selected, weight) *)
  let '(slo, shi) := sort_range lo hi in
  let kept := filter (fun '(x, _, sel, _) => match x with Some x => sel && qle_b slo x && qle_b x shi | None => false end) pts in
  match kept with
  | [] => HZeros
  | _ :: _ =>
    if log then
      if qlt_b slo 0 || qlt_b shi 0 then HZeros
      else if Qeq_bool slo 0 then HError
      else let p := map (fun '(_, lx, sel, w) => (lx, sel, w)) kept in
           HBins (hist1 llo lhi n p) (edge1 llo lhi n p)
    else let p := map (fun '(x, _, sel, w) => (x, sel, w)) kept in
         HBins (hist1 lo hi n p) (edge1 lo hi n p)
  end.

Close Scope Q_scope.


(* ---------- the translated skeleton of Data.compute_histogram (coq/gen/Gen_stat.v) on lists of points ----------
   arrays = lists of (value, image of the value under log10), None = NaN / +-inf / log of a non-positive value;
   numbers (range ends) = the same pairs; booleans arrays = lists of bool.  This block is the hand-written model of numpy's
   semantics for the H_* operations; the 10-ulp widening of the upper range end has no counterpart in exact arithmetic
   (spacing = 0): its purpose -- values equal to the upper end fall into the last bin -- is the convention of hist1. *)
Section HistInst.
  Open Scope Q_scope.
  Definition hval : Type := (option Q * option Q)%type.
  Definition hnum : Type := (option Q * option Q)%type.
  Variable comps : list (list hval).          (* the components: 0 = x, 1 = y, 2 = weights *)

  Definition h_cmp (f : Q -> Q -> bool) (a : list hval) (n : hnum) : list bool :=
    map (fun v => match fst v, fst n with Some q, Some b => f q b | _, _ => false end) a.
  Definition h_num2 (f : Q -> Q -> Q) (a b : hnum) : hnum :=
    (match fst a, fst b with Some x, Some y => Some (f x y) | _, _ => None end, None).
  Definition h_numb (f : Q -> Q -> bool) (a b : hnum) : bool :=
    match fst a, fst b with Some x, Some y => f x y | _, _ => false end.
  Definition h_index (a : list hval) (m : list bool) : list hval := map fst (filter snd (combine a m)).
  Definition h_weights (n : nat) (w : option (list hval)) : list Q :=
    match w with Some ws => map (fun v => match fst v with Some q => q | None => 0 end) ws | None => repeat 1 n end.
  Definition h_hist1d (x : list hval) (r : hnum * hnum) (n : Z) (w : option (list hval)) : hist_out :=
    match fst (fst r), fst (snd r) with
    | Some lo, Some hi =>
      let p := map (fun '(v, wv) => (fst v, true, wv)) (combine x (h_weights (length x) w)) in
      HBins (hist1 lo hi n p) (edge1 lo hi n p)
    | _, _ => HError                       (* fast_histogram: range parameters must be finite *)
    end.
  Definition h_hist2d (x y : list hval) (r : list (hnum * hnum)) (bins : list Z) (w : option (list hval)) : hist_out :=
    match r with
    | [(xlo, xhi); (ylo, yhi)] =>
      match fst xlo, fst xhi, fst ylo, fst yhi with
      | Some a, Some b, Some c, Some d =>
        let p := map (fun '(vx, vy, wv) => (fst vx, fst vy, true, wv)) (combine (combine x y) (h_weights (length x) w)) in
        HBins (hist2 a b c d (znth bins 0) (znth bins 1) p) []
      | _, _, _, _ => HError
      end
    | _ => HError
    end.

  Definition gen_compute_histogram (cids : list Z) (hasw : bool) (range : list (hnum * hnum)) (bins : list Z) (log : option (list bool))
             (sel : option (list bool)) : result hist_out :=
    Gen_stat.compute_histogram Z (option (list bool)) (list hval) (list bool) hnum unit hist_out
      0%Z [] (None, None) HError
      (fun c => nth (Z.to_nat c) comps []) (fun st => match st with Some m => m | None => [] end)
      (fun st => match st with Some _ => false | None => true end)
      (fun _ => false) (fun a => a) h_index (fun a => zlen a) (fun a => zlen a) (fun x y w _ => (x, y, w, tt)) tt
      (h_cmp (fun q b => qle_b b q)) (h_cmp (fun q b => qle_b q b))
      (fun a b => map (fun '(u, v) => andb u v) (combine a b)) (map negb)
      (fun a => map (fun v => match fst v with Some _ => false | None => true end) a)
      (fun _ => false) (fun a => a) (fun n => n)
      (fun z => (Some (inject_Z z), None)) (h_numb qlt_b) (h_numb Qeq_bool) (h_num2 Qplus) (h_num2 Qmult)
      (fun n => n) (fun _ => (Some 0, None)) (fun n => (snd n, snd n)) (map (fun v => (snd v, snd v)))
      (fun _ => HZeros) h_hist1d h_hist2d (fun h _ => h)
      cids (if hasw then Some 2%Z else None) range bins log sel None.
  Close Scope Q_scope.
End HistInst.

(* ---------- wire ---------- *)
Definition dec_slice (t : tree) : slice :=
  Slice (opt_z (kid 0 t)) (opt_z (kid 1 t)) (opt_z (kid 2 t)).
Definition dec_slices (t : tree) : list slice := map dec_slice (kids t).
Definition dec_opt_slices (t : tree) : option (list slice) :=
  match t with T 0 _ => None | T _ l => Some (map dec_slice l) end.
Definition dec_ventry (t : tree) : ventry :=
  match t with T 1 (T i _ :: _) => VInt i | _ => VSlice (dec_slice t) end.
Definition dec_opt_view (t : tree) : option (list ventry) :=
  match t with T 0 _ => None | T _ l => Some (map dec_ventry l) end.
Definition dec_optl (t : tree) : option (list Z) :=
  match t with T 0 _ => None | T _ l => Some (map tag l) end.
Definition dec_q (t : tree) : Q :=
  match t with T _ (T a _ :: T b _ :: _) => Qmake a (Z.to_pos b) | _ => 0%Q end.
Definition dec_optq (t : tree) : option Q :=
  match t with T 0 _ => None | T _ (T a _ :: T b _ :: _) => Some (Qmake a (Z.to_pos b)) | _ => None end.
Definition enc_q (q : Q) : tree := let r := Qred q in T 0 [leaf (Qnum r); leaf (Zpos (Qden r))].

Fixpoint flat_index (shape i : list Z) : Z :=
  match shape, i with
  | n :: s', j :: i' => j * zprod s' + flat_index s' i'
  | _, _ => 0
  end.

Definition nthb (l : list bool) (k : Z) : bool := nth (Z.to_nat k) l false.

Definition fuel_for (shape : list Z) : nat := S (Z.to_nat (zprod (map (fun n => Z.max n 1) shape))).

(* statistic case: values are identified with their flat position in the full array;
   R returns the list of positions of the kept values of the lane ([] = NaN) *)
Definition run_stat (shape : list Z) (view : option (list ventry)) (selt : tree) (keepflags : list bool)
           (axes : option (list Z)) (ncm : Z) : tree :=
  let a := fun i => flat_index shape i in
  let filt := fun c => nthb keepflags c in
  let s := match selt with
           | T 0 _ => SelNone
           | T 1 [mk] => let mb := to_bools mk in SelMask (fun i => nthb mb (flat_index shape i))
           | T _ l => SelSlices (map dec_slice l)
           end in
  match compute_statistic_e Z (list Z) (fun l => l) [] [-1] (fuel_for shape) shape a filt s view axes ncm with
  | Err e => err e
  | Ok (osh, r) => T 1 [zs osh; T 0 (map (fun o => zs (r o)) (box osh))]
  end.

Definition dec_pt1 (t : tree) : option Q * option Q * bool * Q :=
  (dec_optq (kid 0 t), dec_optq (kid 1 t), negb (tag (kid 2 t) =? 0), dec_q (kid 3 t)).
Definition dec_pt2 (t : tree) : option Q * option Q * bool * Q :=
  (dec_optq (kid 0 t), dec_optq (kid 1 t), negb (tag (kid 2 t) =? 0), dec_q (kid 3 t)).


(* the same case through the TRANSLATED skeleton: the per-cell facts np.isfinite(x), x > 0 travel as flags, the
   finite / positive arguments as themselves; axis keeps its Python form (None | int | tuple) *)
Definition dec_axis (t : tree) : pyaxis :=
  match t with T 0 _ => AxNone | T 2 (T i _ :: _) => AxInt i | T _ l => AxTuple (map tag l) end.
Definition dec_pyview (t : tree) : pyview :=
  match t with T 0 _ => PVNone | T 2 l => PVList (map dec_ventry l) | T 3 _ => PVEllipsis | T _ l => PVTuple (map dec_ventry l) end.
Definition run_stat_gen (shape : list Z) (view : pyview) (selt : tree) (finflags posflags : list bool) (finite positive : bool)
           (ax : pyaxis) (ncm : Z) (st : Z) (bc : list bool) : tree :=
  let a := fun i => flat_index shape i in
  let s := match selt with
           | T 0 _ => SelNone
           | T 1 [mk] => let mb := to_bools mk in SelMask (fun i => nthb mb (flat_index shape i))
           | T _ l => SelSlices (map dec_slice l)
           end in
  (* unbroadcast is only ever applied to the data read through the view (or, in the shortcut, through the slices of the state) *)
  let bcv := match s, view with
             | SelSlices _, PVNone => bc
             | _, _ => bc_view (view_sel shape (view_entries view)) bc
             end in
  match gen_compute_statistic Z (list Z) (fun l => l) [] [-1] (fun c => nthb finflags c) (fun c => nthb posflags c) shape a (bc_unbroadcast bcv)
          2 (fuel_for shape) st s ax finite positive view ncm with
  | Err e => err e
  | Ok (osh, r) => T 1 [zs osh; T 0 (map (fun o => zs (r o)) (box osh))]
  end.

(* histogram cases through the TRANSLATED skeleton *)
Definition mk_num (v l : Q) : hnum := (Some v, if Qle_bool v 0 then None else Some l).
Definition enc_hist (r : result hist_out) (with_edges : bool) : tree :=
  match r with
  | Err e => err e
  | Ok HZeros => T 2 []
  | Ok HError => err ValueError
  | Ok (HBins l e) => if with_edges then T 1 [T 0 (map enc_q l); T 0 (map enc_q e)] else T 1 [T 0 (map enc_q l)]
  end.

Definition run_case (t : tree) : tree :=
  match t with
  | T 1 [sh; vw; selt; kf; ax; T ncm _] =>
      run_stat (to_zs sh) (dec_opt_view vw) selt (to_bools kf) (dec_optl ax) ncm
  | T 2 [T lg _; lo; hi; llo; lhi; T n _; T _ pts] =>
      match histogram1 (negb (lg =? 0)) (dec_q lo) (dec_q hi) (dec_q llo) (dec_q lhi) n (map dec_pt1 pts) with
      | HZeros => T 2 []
      | HError => err ValueError
      | HBins l e => T 1 [T 0 (map enc_q l); T 0 (map enc_q e)]
      end
  | T 3 [xlo; xhi; ylo; yhi; T nx _; T ny _; T _ pts] =>
      T 1 [T 0 (map enc_q (hist2 (dec_q xlo) (dec_q xhi) (dec_q ylo) (dec_q yhi) nx ny (map dec_pt2 pts)))]
  | T 6 [sh; vw; selt; ff; pf; T fin _; T pos _; ax; T ncm _; T st _; bc] =>
      run_stat_gen (to_zs sh) (dec_pyview vw) selt (to_bools ff) (to_bools pf) (negb (fin =? 0)) (negb (pos =? 0)) (dec_axis ax) ncm st (to_bools bc)
  | T 7 [T lg _; T haslog _; lo; hi; llo; lhi; T n _; T hasw _; T hassel _; T _ pts] =>
      let p := map dec_pt1 pts in
      let xs := map (fun '(x, lx, _, _) => (x, lx)) p in
      let ws := map (fun '(_, _, _, w) => (Some w, None)) p in
      let sel := if hassel =? 0 then None else Some (map (fun '(_, _, s, _) => s) p) in
      enc_hist (gen_compute_histogram [xs; []; ws] [0] (negb (hasw =? 0)) [(mk_num (dec_q lo) (dec_q llo), mk_num (dec_q hi) (dec_q lhi))] [n]
                                      (if haslog =? 0 then None else Some [negb (lg =? 0)]) sel) true
  | T 8 [xlo; xhi; ylo; yhi; T nx _; T ny _; T hasw _; T hassel _; T _ pts] =>
      let p := map dec_pt2 pts in
      let xs := map (fun '(x, _, _, _) => (x, None)) p in
      let ys := map (fun '(_, y, _, _) => (y, None)) p in
      let ws := map (fun '(_, _, _, w) => (Some w, None)) p in
      let sel := if hassel =? 0 then None else Some (map (fun '(_, _, s, _) => s) p) in
      enc_hist (gen_compute_histogram [xs; ys; ws] [0; 1] (negb (hasw =? 0))
                  [((Some (dec_q xlo), None), (Some (dec_q xhi), None)); ((Some (dec_q ylo), None), (Some (dec_q yhi), None))] [nx; ny] None sel) false
  (* pieces, for finer-grained correspondence *)
  | T 4 [sh; vw; T _ cells] =>
      (* subarray_slices and the recombined view for a set of true cells of the viewed mask *)
      let shape := to_zs sh in
      let view := dec_slices vw in
      let sub := bbox (length shape) (map to_zs cells) in
      match new_view shape view sub with
      | None => T 0 [T 0 (map (fun '(a, b) => zs [a; b]) sub)]
      | Some nv => T 1 [T 0 (map (fun '(a, b) => zs [a; b]) sub); T 0 (map zs (view_pos shape nv))]
      end
  | T 5 [lo; hi; T n _; x] =>
      T 0 [of_opt_z (bin_index (fst (sort_range (dec_q lo) (dec_q hi))) (snd (sort_range (dec_q lo) (dec_q hi))) n (dec_q x))]
  | _ => err (-2)
  end.
