(* C10 -- the statements about the TRANSLATED Data.compute_statistic (coq/gen/Gen_stat.v, regenerated from glue/core/data.py on every
   run, instantiated on the model's arrays in Model.v Section GenInst) that Property.v uses, assembled from GenEquiv1..5. *)
From Coq Require Import ZArith List Bool Lia QArith.
Import ListNotations.
From GV Require Import Common.PyInt gen.Gen_array C10.Model C10.Lemmas C10.Discharge.
From GV Require Export C10.GenEquiv1 C10.GenEquiv2 C10.GenEquiv3 C10.GenEquiv4 C10.GenEquiv5 C10.GenHist.
From GV Require C20.Model C20.OdometerProof.
Open Scope Z_scope.

(* equivalence: outside the chunk loop and the SliceSubsetState shortcut the translated function returns what the hand model's
   stat_view_e returns -- the same shape and the same value at every index of that shape *)
Lemma translated_equals_hand_model :
  forall (A res : Type) (R : list A -> res) (nan zero : res) (isfin ispos : A -> bool) shape (a : idx -> A) (unb : garr A -> garr A) (st : Z)
         rf fuel (s : selection) (ax : pyaxis) (fin pos : bool) (o : option (list ventry)) ncm,
    unb_sound A res R isfin ispos unb st ->
    Forall (fun n => 0 <= n) shape ->
    chunk_cond shape s ax (pv o) ncm = false ->
    shortcut s ax (pv o) = false ->
    let M := stat_view_e A res R nan shape a (filt_of A isfin ispos fin pos) (mask_of shape s) (entries o)
                         (red_of_axes (zlen (sel_shape (view_sel shape (entries o)))) (axes_of ax)) in
    exists r, gen_compute_statistic A res R nan zero isfin ispos shape a unb (S rf) fuel st s ax fin pos (pv o) ncm = Ok r /\
              fst r = fst M /\ forall o', in_box (fst r) o' -> snd r o' = snd M o'.
Proof.
  intros A res R nan zero isfin ispos shape a unb st rf fuel s ax fin pos o ncm Hunb Hsh Hch Hsc M. subst M.
  rewrite gen_compute_statistic_S. destruct s as [|m|sl].
  - eexists. split; [apply body_none; [exact Hunb|exact Hch]|]. split; reflexivity.
  - destruct (body_mask A res R nan zero isfin ispos shape a unb st (gen_rec A res R nan zero isfin ispos shape a unb rf fuel) fuel
                        (SelMask m) ax fin pos o ncm Hsh eq_refl Hch Hsc) as [r [Hr He]].
    exists r. split; [exact Hr|exact He].
  - destruct (body_mask A res R nan zero isfin ispos shape a unb st (gen_rec A res R nan zero isfin ispos shape a unb rf fuel) fuel
                        (SelSlices sl) ax fin pos o ncm Hsh eq_refl Hch Hsc) as [r [Hr He]].
    exists r. split; [exact Hr|exact He].
Qed.

Lemma translated_statistic_equals_definition :
  forall (A res : Type) (R : list A -> res) (nan zero : res), R [] = nan ->
  forall (isfin ispos : A -> bool) shape (a : idx -> A) (unb : garr A -> garr A) (st : Z) rf fuel (s : selection) (ax : pyaxis) (fin pos : bool)
         (o : option (list ventry)) ncm,
    unb_sound A res R isfin ispos unb st ->
    Forall (fun n => 0 <= n) shape ->
    chunk_cond shape s ax (pv o) ncm = false ->
    shortcut s ax (pv o) = false ->
    let sels := view_sel shape (entries o) in
    let vsh := sel_shape sels in
    let red := red_of_axes (zlen vsh) (axes_of ax) in
    exists r, gen_compute_statistic A res R nan zero isfin ispos shape a unb (S rf) fuel st s ax fin pos (pv o) ncm = Ok r /\
      fst r = out_shape vsh red /\
      forall o', in_box (out_shape vsh red) o' ->
        snd r o' = R (map a (filter (fun c => sel_fun shape s c && filt_of A isfin ispos fin pos (a c))
                                    (map (to_under_e sels) (lane0 vsh red o')))).
Proof.
  intros A res R nan zero Hnil isfin ispos shape a unb st rf fuel s ax fin pos o ncm Hunb Hsh Hch Hsc.
  rewrite gen_compute_statistic_S. apply gen_step_definition; assumption.
Qed.

Lemma translated_slice_shortcut :
  forall (A res : Type) (R : list A -> res) (nan zero : res), R [] = nan ->
  forall (isfin ispos : A -> bool) shape (a : idx -> A) (unb : garr A -> garr A) (st : Z) rf fuel (sl : list slice) (fin pos : bool) ncm,
    unb_sound A res R isfin ispos unb st ->
    Forall (fun n => 0 <= n) shape -> Forall Lemmas5.pos_step sl ->
    exists r, gen_compute_statistic A res R nan zero isfin ispos shape a unb (S rf) fuel st (SelSlices sl) AxNone fin pos PVNone ncm = Ok r /\
      fst r = [] /\
      snd r [] = R (map a (filter (fun c => slices_mask shape sl c && filt_of A isfin ispos fin pos (a c))
                                  (lanep (view_pos shape []) (red_of_axes (zlen shape) None) []))).
Proof.
  intros A res R nan zero Hnil isfin ispos shape a unb st rf fuel sl fin pos ncm Hunb Hsh Hsl.
  rewrite gen_compute_statistic_S, body_shortcut by exact Hunb. eexists. split; [reflexivity|].
  apply (slice_shortcut A res R nan Hnil shape a (filt_of A isfin ispos fin pos) sl (red_of_axes (zlen shape) None) Hsh Hsl).
  - apply red_of_axes_length.
  - intros b Hb. unfold red_of_axes in Hb. apply in_map_iff in Hb. destruct Hb as [x [Hx _]]. auto.
Qed.

Lemma translated_chunking_irrelevant :
  forall (A res : Type) (R : list A -> res) (nan zero : res), R [] = nan ->
  forall (isfin ispos : A -> bool) shape (a : idx -> A) (unb : garr A -> garr A) (st : Z) (ai : nat) (L : list Z) (s : selection) (fin pos : bool) rf fuel ncm,
    unb_sound A res R isfin ispos unb st ->
    Forall (fun n => 0 < n) shape -> (ai < length shape)%nat ->
    (forall i, 0 <= i < zlen shape -> existsb (Z.eqb i) L = negb (i =? Z.of_nat ai)) ->
    g_is_slice_state s = false ->
    0 < zlen L -> zlen L = zlen shape - 1 ->
    zprod shape > ncm ->
    (C20.Model.fuel_for shape <= fuel)%nat ->
    exists r,
      gen_compute_statistic A res R nan zero isfin ispos shape a unb (S (S rf)) fuel st s (AxTuple L) fin pos PVNone ncm = Ok r /\
      fst r = [nth ai shape 0] /\
      forall k, 0 <= k < nth ai shape 0 ->
        snd r [k] = R (map a (filter (fun c => sel_fun shape s c && filt_of A isfin ispos fin pos (a c))
                                     (lanep (view_pos shape []) (red_axis (length shape) ai) [k]))).
Proof.
  intros A res R nan zero Hnil isfin ispos shape a unb st ai L s fin pos rf fuel ncm Hunb Hpos Hai HL Hs HL0 HL1 Hncm Hfuel.
  exact (gen_chunked_definition A res R nan zero Hnil isfin ispos shape a Hpos ai Hai L HL s Hs fin pos unb st Hunb rf fuel ncm HL0 HL1 Hncm Hfuel).
Qed.

(* ---- the unbroadcast shortcut ("if axis is None and mask is None and statistic not in ('sum', 'percentile'): data = unbroadcast(data)") ---- *)
(* for the sum and the percentiles the translated code does not apply the shortcut: nothing has to be assumed about unbroadcast *)
Lemma unb_sound_sum_percentile :
  forall (A res : Type) (R : list A -> res) (isfin ispos : A -> bool) (unb : garr A -> garr A) (st : Z),
    st = 4 \/ st = 5 -> unb_sound A res R isfin ispos unb st.
Proof. intros A res R isfin ispos unb st [-> | ->] H; discriminate H. Qed.

(* without the guard the shortcut is wrong for the sum: the pixel coordinate of axis 1 of a 3 x 4 dataset (stride 0 along axis 0),
   unbroadcast to 1 x 4: the kernel returns 6 on the unbroadcast array and 18 on the array itself *)
Definition ex_pix1 : garr Z := ([3; 4], fun i => nth 1 i 0).
Definition R_sum (l : list Z) : Z := fold_right Z.add 0 l.
Lemma unbroadcast_sum_values :
  snd (g_compute_statistic Z Z R_sum (fun _ => true) (fun _ => true) 4 (bc_unbroadcast [true; false] ex_pix1) None AxNone true false tt) [] = 6 /\
  snd (g_compute_statistic Z Z R_sum (fun _ => true) (fun _ => true) 4 ex_pix1 None AxNone true false tt) [] = 18.
Proof. split; vm_compute; reflexivity. Qed.

(* ... so the hypothesis unb_sound is false for R = sum and this unbroadcast under any statistic code that passes the guard *)
Lemma unbroadcast_shortcut_sum_refuted :
  ~ unb_sound Z Z R_sum (fun _ => true) (fun _ => true) (bc_unbroadcast [true; false]) 0.
Proof.
  intros H. specialize (H eq_refl ex_pix1 true false).
  assert (E : snd (g_compute_statistic Z Z R_sum (fun _ => true) (fun _ => true) 0 (bc_unbroadcast [true; false] ex_pix1) None AxNone true false tt) [] =
              snd (g_compute_statistic Z Z R_sum (fun _ => true) (fun _ => true) 0 ex_pix1 None AxNone true false tt) []) by (rewrite H; reflexivity).
  vm_compute in E. discriminate E.
Qed.

(* ---- Data.compute_histogram ---- *)
(* equivalence: the translated 1-d histogram (selection, weights, log flag; sorted range, closed-range keep, NaN filter, empty return,
   log early return, log10 of the range and the values, zero-width branch, widening, kernel) returns what the hand model returns,
   for every range with distinct ends (in log mode: with distinct images) *)
Lemma translated_histogram_equals_hand_model :
  forall lg (lo hi llo lhi : Q) n (pts : list (option Q * option Q * bool * Q)),
    ~ (lo == hi)%Q -> (lg = true -> ~ (llo == lhi)%Q) ->
    gen_hist1 lg lo hi llo lhi n pts = Ok (histogram1 lg lo hi llo lhi n pts).
Proof. exact gen_hist1_equiv. Qed.

Lemma translated_histogram_code_total :
  forall (L : Q -> Q), (forall a b : Q, (0 < a)%Q -> (a <= b)%Q -> (L a <= L b)%Q) ->
  forall lg (lo hi : Q) n pts l e, (0 < n)%Z ->
    images_ok L pts ->
    ~ (lo == hi)%Q -> (lg = true -> ~ (L lo == L hi)%Q) ->
    gen_hist1 lg lo hi (L lo) (L hi) n pts = Ok (HBins l e) ->
    (qsum l == in_range_total lo hi (raw pts))%Q.
Proof.
  intros L HL lg lo hi n pts l e Hn Himg Hne Hlne H.
  rewrite gen_hist1_equiv in H by assumption. injection H as H.
  exact (histogram_code_total L HL lg lo hi n pts l e Hn Himg H).
Qed.
