(* C10 -- chunking irrelevance for the TRANSLATED generator Gen_array.iterate_chunks:
   composition of  C20.OdometerProof.iterate_chunks_is_product_fuel  (translated generator = m_chunks),
   chunking_hypotheses_hold_for_m_chunks  (m_chunks is inside the array and covers the kept axis)  and
   chunking_irrelevant  (any such chunk list gives the unchunked textbook value). *)
From Coq Require Import ZArith List Bool Lia.
Import ListNotations.
From GV Require Import Common.PyInt gen.Gen_array C10.Model C10.Lemmas.
From GV Require C20.Model C20.OdometerProof.
Open Scope Z_scope.

(* the chunk shape used by compute_statistic fits the shape, as the odometer proof requires *)
Lemma cs_of_fits : forall shape ai c,
  Forall (fun n => 0 < n) shape -> (ai < length shape)%nat -> 1 <= c <= nth ai shape 0 ->
  Forall2 (fun c n => 1 <= c <= n) (cs_of shape ai c) shape.
Proof.
  induction shape as [|n shape IH]; intros ai c H Hai Hc; [simpl in Hai; lia|].
  inversion H as [|? ? Hn Hsh]; subst. destruct ai as [|ai]; simpl in *.
  - constructor; [exact Hc|].
    clear -Hsh. induction Hsh as [|x l Hx Hl IHl]; constructor; [lia | exact IHl].
  - constructor; [lia|]. apply IH; [assumption | lia | exact Hc].
Qed.

(* chunk_shape = list(self.shape); chunk_shape[axis_index] = c, as written in the model of compute_statistic *)
Lemma cs_of_zupd : forall shape ai c, zupd shape (Z.of_nat ai) c = cs_of shape ai c.
Proof.
  intros shape ai c. unfold zupd. destruct (Z.of_nat ai <? 0) eqn:E; [lia|]. rewrite Nat2Z.id.
  clear E. revert ai. induction shape as [|n shape IH]; intros ai; [destruct ai; reflexivity|].
  destruct ai as [|ai]; simpl; [reflexivity|]. rewrite IH. reflexivity.
Qed.

Theorem chunking_irrelevant_translated :
  forall (A res : Type) (R : list A -> res) (nan zero : res), R [] = nan ->
  forall shape (a : idx -> A) filt (m : option (idx -> bool)) (ai : nat) (c : Z) (fuel : nat),
    Forall (fun n => 0 < n) shape -> (ai < length shape)%nat ->
    0 < c -> c <= nth ai shape 0 ->
    (C20.Model.fuel_for shape <= fuel)%nat ->
    exists chunks,
      iterate_chunks fuel shape (Some (cs_of shape ai c)) None = Ok chunks /\
      forall k, 0 <= k < nth ai shape 0 ->
        nth (Z.to_nat k) (chunk_loop A res R nan zero shape a filt m (red_axis (length shape) ai) (Z.of_nat ai) chunks) nan
        = R (map a (filter (fun c => mask_fun m c && filt (a c)) (lanep (view_pos shape []) (red_axis (length shape) ai) [k]))).
Proof.
  intros A res R nan zero Hnil shape a filt m ai c fuel Hpos Hai Hc Hcn Hfuel.
  exists (C20.Model.m_chunks shape (cs_of shape ai c)). split.
  - apply C20.OdometerProof.iterate_chunks_is_product_fuel.
    + intros ->. simpl in Hai. lia.
    + apply cs_of_fits; [assumption | assumption | lia].
    + exact Hfuel.
  - intros k Hk.
    destruct (chunking_hypotheses_hold_for_m_chunks shape ai c Hpos Hai Hc) as [Hok Hcov].
    apply chunking_irrelevant; try assumption.
    apply Forall_forall. intros n Hn. rewrite Forall_forall in Hpos. apply Hpos in Hn. lia.
Qed.

Print Assumptions chunking_irrelevant_translated.

(* ... and with the chunk length compute_statistic itself computes (chunk_len; the chunked branch is taken only
   when zprod shape > n_chunk_max, which is what makes it fit) and the chunk shape as the code writes it (zupd) *)
Lemma zprod_pos : forall l, Forall (fun n => 0 < n) l -> 0 < zprod l.
Proof.
  intros l H. unfold zprod. assert (Hacc : 0 < 1) by lia. revert Hacc. generalize 1.
  induction H as [|x l Hx Hl IH]; intros acc Hacc; simpl; [exact Hacc|]. apply IH. nia.
Qed.

Lemma chunk_len_fits : forall shape ai ncm,
  Forall (fun n => 0 < n) shape -> (ai < length shape)%nat -> zprod shape > ncm ->
  1 <= chunk_len shape (Z.of_nat ai) ncm <= nth ai shape 0.
Proof.
  intros shape ai ncm Hpos Hai Hncm. unfold chunk_len.
  rewrite C20.OdometerProof.znth_of_nat.
  pose proof (zprod_pos shape Hpos) as HP.
  assert (Hn : 0 < nth ai shape 0).
  { rewrite Forall_forall in Hpos. apply Hpos. apply nth_In. exact Hai. }
  assert (Hd : nth ai shape 0 * ncm / zprod shape <= nth ai shape 0).
  { apply Z.div_le_upper_bound; [exact HP | nia]. }
  lia.
Qed.

Theorem chunking_irrelevant_translated_chunk_len :
  forall (A res : Type) (R : list A -> res) (nan zero : res), R [] = nan ->
  forall shape (a : idx -> A) filt (m : option (idx -> bool)) (ai : nat) (ncm : Z) (fuel : nat),
    Forall (fun n => 0 < n) shape -> (ai < length shape)%nat ->
    zprod shape > ncm ->
    (C20.Model.fuel_for shape <= fuel)%nat ->
    exists chunks,
      iterate_chunks fuel shape (Some (zupd shape (Z.of_nat ai) (chunk_len shape (Z.of_nat ai) ncm))) None = Ok chunks /\
      forall k, 0 <= k < nth ai shape 0 ->
        nth (Z.to_nat k) (chunk_loop A res R nan zero shape a filt m (red_axis (length shape) ai) (Z.of_nat ai) chunks) nan
        = R (map a (filter (fun c => mask_fun m c && filt (a c)) (lanep (view_pos shape []) (red_axis (length shape) ai) [k]))).
Proof.
  intros A res R nan zero Hnil shape a filt m ai ncm fuel Hpos Hai Hncm Hfuel.
  rewrite cs_of_zupd.
  pose proof (chunk_len_fits shape ai ncm Hpos Hai Hncm) as Hc.
  apply chunking_irrelevant_translated; try assumption; lia.
Qed.

Print Assumptions chunking_irrelevant_translated_chunk_len.
