(* C10 — lemmas, part 3: the chunk loop gives the same result as the unchunked computation. *)
From Coq Require Import ZArith List Bool Lia.
Import ListNotations.
From GV Require Import Common.PyInt C10.Model C10.Lemmas1 C10.Lemmas2.
Open Scope Z_scope.

(* ---------- lanes in terms of positions ---------- *)

(* cells, in the coordinates of the full array, of the lane of output element o of a viewed array *)
Fixpoint lanep (pos : list (list Z)) (red : list bool) (o : idx) : list idx :=
  match pos, red with
  | p :: pos', true :: red' => flat_map (fun x => map (cons x) (lanep pos' red' o)) p
  | p :: pos', false :: red' =>
      match o with
      | j :: o' => map (cons (nth (Z.to_nat j) p 0)) (lanep pos' red' o')
      | [] => []
      end
  | _, _ => [[]]
  end.

Lemma map_nth_range0 : forall (p : list Z), map (fun i => nth (Z.to_nat i) p 0) (range0 (zlen p)) = p.
Proof.
  intros p. unfold range0, zlen. rewrite py_range1_eq.
  replace (Z.to_nat (Z.of_nat (length p) - 0)) with (length p) by lia.
  rewrite map_map.
  transitivity (map (fun k => nth k p 0) (seq 0 (length p))).
  - apply map_ext. intros k. f_equal. lia.
  - clear. induction p as [|x p IH]; simpl; [reflexivity|]. f_equal.
    rewrite <- seq_shift, map_map. exact IH.
Qed.

Lemma lane_to_under : forall pos red o,
  map (to_under pos) (lane0 (vshape pos) red o) = lanep pos red o.
Proof.
  induction pos as [|p pos IH]; intros red o.
  - simpl. destruct red; reflexivity.
  - destruct red as [|r red]; [reflexivity|]. destruct r.
    + change (lane0 (vshape (p :: pos)) (true :: red) o)
        with (flat_map (fun i => map (cons i) (lane0 (vshape pos) red o)) (range0 (zlen p))).
      rewrite map_flat_map.
      change (lanep (p :: pos) (true :: red) o) with (flat_map (fun x => map (cons x) (lanep pos red o)) p).
      rewrite <- (map_nth_range0 p) at 2. rewrite flat_map_map.
      apply flat_map_ext_in. intros i _. rewrite map_map. rewrite <- IH, map_map. reflexivity.
    + destruct o as [|j o]; [reflexivity|].
      change (lane0 (vshape (p :: pos)) (false :: red) (j :: o)) with (map (cons j) (lane0 (vshape pos) red o)).
      change (lanep (p :: pos) (false :: red) (j :: o)) with (map (cons (nth (Z.to_nat j) p 0)) (lanep pos red o)).
      rewrite map_map, <- IH, map_map. reflexivity.
Qed.

(* the textbook lane, written over the cells of the full array *)
Lemma textbook_lanep : forall (A res : Type) (R : list A -> res) shape (a : idx -> A) filt m view red o,
  snd (textbook A res R shape a filt m view red) o =
  R (map a (filter (fun c => m c && filt (a c)) (lanep (view_pos shape view) red o))).
Proof.
  intros. unfold textbook, reduce. simpl. f_equal.
  rewrite <- lane_to_under. rewrite filter_map_comm, map_map. reflexivity.
Qed.

(* ---------- one chunk ---------- *)

(* the chunk [ca, cb) along axis ai, everything along the other axes *)
Fixpoint chunk_of (shape : list Z) (ai : nat) (ca cb : Z) : list (Z * Z) :=
  match shape with
  | [] => []
  | n :: shape' =>
    match ai with
    | O => (ca, cb) :: map (fun n => (0, n)) shape'
    | S ai' => (0, n) :: chunk_of shape' ai' ca cb
    end
  end.

(* collapse every axis except ai *)
Fixpoint red_axis (ndim ai : nat) : list bool :=
  match ndim with
  | O => []
  | S nd => match ai with O => false :: repeat true nd | S ai' => true :: red_axis nd ai' end
  end.

Lemma red_axis_length : forall ndim ai, length (red_axis ndim ai) = ndim.
Proof.
  induction ndim as [|nd IH]; intros ai; simpl; [reflexivity|].
  destruct ai; simpl; [rewrite repeat_length|rewrite IH]; reflexivity.
Qed.

Lemma slice_elems_pair : forall a b n, 0 <= a <= n -> 0 <= b <= n ->
  slice_elems (slice_of_pair (a, b)) n = py_range a b 1.
Proof.
  intros a b n Ha Hb. unfold slice_elems, slice_of_pair. simpl fst. simpl snd.
  rewrite slice_indices_new by lia. reflexivity.
Qed.

Lemma view_pos_full : forall shape, Forall (fun n => 0 <= n) shape ->
  view_pos shape (map slice_of_pair (map (fun n => (0, n)) shape)) = view_pos shape [].
Proof.
  induction shape as [|n shape IH]; intros H; [reflexivity|].
  inversion H; subst. simpl. rewrite slice_elems_pair by lia.
  rewrite IH by assumption. destruct shape; reflexivity.
Qed.

Lemma view_pos_nil_tail : forall shape, view_pos shape [] = map range0 shape.
Proof. induction shape as [|n shape IH]; simpl; [reflexivity|]. rewrite IH. reflexivity. Qed.

Lemma lanep_all_red_ext : forall pos red o o', (forall b, In b red -> b = true) -> lanep pos red o = lanep pos red o'.
Proof.
  induction pos as [|p pos IH]; intros red o o' H; [destruct red; reflexivity|].
  destruct red as [|r red]; [reflexivity|].
  assert (r = true) by (apply H; left; reflexivity). subst r. simpl.
  apply flat_map_ext_in. intros x _. f_equal. apply IH. intros b Hb. apply H. right. exact Hb.
Qed.

(* the lane of element k - ca of the chunk is the lane of element k of the whole array *)
Lemma chunk_lane : forall shape ai ca cb k,
  Forall (fun n => 0 <= n) shape -> (ai < length shape)%nat ->
  0 <= ca -> ca <= k < cb -> cb <= nth ai shape 0 ->
  lanep (view_pos shape (map slice_of_pair (chunk_of shape ai ca cb))) (red_axis (length shape) ai) [k - ca] =
  lanep (view_pos shape []) (red_axis (length shape) ai) [k].
Proof.
  induction shape as [|n shape IH]; intros ai ca cb k Hsh Hai Hca Hk Hcb; [simpl in Hai; lia|].
  inversion Hsh as [|? ? Hn Hsh']; subst.
  destruct ai as [|ai].
  - simpl in Hcb. simpl chunk_of. simpl map. simpl view_pos.
    rewrite slice_elems_pair by lia. rewrite view_pos_full by assumption.
    simpl red_axis. simpl lanep.
    rewrite nth_py_range1 by lia. unfold range0. rewrite nth_py_range1 by lia.
    replace (ca + (k - ca)) with (0 + k) by lia. reflexivity.
  - simpl in Hcb, Hai. simpl chunk_of. simpl map. simpl view_pos.
    rewrite slice_elems_pair by lia. simpl red_axis. simpl lanep. fold (range0 n).
    apply flat_map_ext_in. intros x _. f_equal.
    rewrite (IH ai ca cb k Hsh') by (assumption || lia).
    destruct shape; reflexivity.
Qed.

(* ---------- the loop ---------- *)

Lemma assign_range_length : forall (res : Type) (l : list res) a b v, length (assign_range res l a b v) = length l.
Proof.
  intros. unfold assign_range. rewrite map_length, combine_length.
  unfold range0. rewrite py_range1_length. unfold zlen. lia.
Qed.

Lemma combine_nth' : forall (X Y : Type) (l1 : list X) (l2 : list Y) k dx dy,
  length l1 = length l2 -> nth k (combine l1 l2) (dx, dy) = (nth k l1 dx, nth k l2 dy).
Proof. intros. apply combine_nth. assumption. Qed.

Lemma assign_range_nth : forall (res : Type) (l : list res) a b v k d,
  0 <= k < zlen l ->
  nth (Z.to_nat k) (assign_range res l a b v) d =
  if (a <=? k) && (k <? b) then v [k - a] else nth (Z.to_nat k) l d.
Proof.
  intros res l a b v k d Hk. unfold assign_range.
  set (f := fun '(k0, x) => if (a <=? k0) && (k0 <? b) then v [k0 - a] else (x : res)).
  assert (Hlen : length (range0 (zlen l)) = length l).
  { unfold range0. rewrite py_range1_length. unfold zlen. lia. }
  rewrite nth_indep with (d' := f (0, d)).
  - rewrite map_nth. rewrite combine_nth' by exact Hlen.
    unfold range0. rewrite nth_py_range1 by lia. simpl. reflexivity.
  - rewrite map_length, combine_length, Hlen. unfold zlen in Hk. lia.
Qed.

Section Chunks.
  Variables A res : Type.
  Variable R : list A -> res.
  Variable nan zero : res.
  Hypothesis R_nil : R [] = nan.

  Definition mask_fun (m : option (idx -> bool)) : idx -> bool :=
    match m with Some m => m | None => fun _ => true end.

  (* stat_view agrees with the textbook definition, with or without a selection *)
  Lemma stat_view_correct : forall shape (a : idx -> A) (filt : A -> bool) m view red,
    Forall (fun n => 0 <= n) shape ->
    length red = length shape ->
    fst (stat_view A res R nan shape a filt m view red) = fst (textbook A res R shape a filt (mask_fun m) view red) /\
    forall o, in_box (fst (textbook A res R shape a filt (mask_fun m) view red)) o ->
              snd (stat_view A res R nan shape a filt m view red) o = snd (textbook A res R shape a filt (mask_fun m) view red) o.
  Proof.
    intros shape a filt m view red Hsh Hl. destruct m as [m|].
    - apply stat_view_mask_correct; assumption.
    - simpl. split; [reflexivity|]. intros o _. reflexivity.
  Qed.

  (* a list of chunks along axis ai: each one is [ca, cb) x everything, inside the array *)
  Definition chunks_ok (shape : list Z) (ai : nat) (chunks : list (list (Z * Z))) : Prop :=
    forall ch, In ch chunks -> exists ca cb, ch = chunk_of shape ai ca cb /\ 0 <= ca /\ ca < cb /\ cb <= nth ai shape 0.

  Definition covered (ai : nat) (chunks : list (list (Z * Z))) (k : Z) : Prop :=
    exists ch, In ch chunks /\ fst (nth ai ch (0, 0)) <= k < snd (nth ai ch (0, 0)).

  Lemma chunk_of_nth : forall shape ai ca cb, (ai < length shape)%nat -> nth ai (chunk_of shape ai ca cb) (0, 0) = (ca, cb).
  Proof.
    induction shape as [|n shape IH]; intros ai ca cb H; [simpl in H; lia|].
    destruct ai; simpl; [reflexivity|]. apply IH. simpl in H. lia.
  Qed.

  Lemma out_shape_red_axis : forall sh ai, (ai < length sh)%nat ->
    out_shape sh (red_axis (length sh) ai) = [nth ai sh 0].
  Proof.
    induction sh as [|n sh IH]; intros ai H; [simpl in H; lia|].
    destruct ai; simpl.
    - f_equal. clear. induction sh as [|x sh IH]; simpl; [reflexivity|exact IH].
    - apply IH. simpl in H. lia.
  Qed.

  (* value of element k of the unchunked result *)
  Definition whole (shape : list Z) (a : idx -> A) (filt : A -> bool) (m : option (idx -> bool)) (ai : nat) (k : Z) : res :=
    snd (textbook A res R shape a filt (mask_fun m) [] (red_axis (length shape) ai)) [k].

  Lemma vshape_chunk_nth : forall shape ai ca cb, Forall (fun n => 0 <= n) shape -> (ai < length shape)%nat ->
    0 <= ca -> ca <= cb -> cb <= nth ai shape 0 ->
    nth ai (vshape (view_pos shape (map slice_of_pair (chunk_of shape ai ca cb)))) 0 = cb - ca.
  Proof.
    induction shape as [|n shape IH]; intros ai ca cb Hsh Hai Hca Hcb Hn; [simpl in Hai; lia|].
    inversion Hsh; subst. destruct ai.
    - simpl in Hn. simpl chunk_of. simpl map. simpl view_pos. unfold vshape. simpl map. simpl nth.
      rewrite slice_elems_pair by lia. rewrite zlen_py_range1. lia.
    - simpl in Hn, Hai. simpl chunk_of. simpl map. simpl view_pos. unfold vshape. simpl map. simpl nth.
      apply IH; assumption || lia.
  Qed.

  Lemma one_chunk : forall shape a filt m ai ca cb k sh v,
    Forall (fun n => 0 <= n) shape -> (ai < length shape)%nat ->
    0 <= ca -> ca <= k < cb -> cb <= nth ai shape 0 ->
    stat_view A res R nan shape a filt m (map slice_of_pair (chunk_of shape ai ca cb)) (red_axis (length shape) ai) = (sh, v) ->
    v [k - ca] = whole shape a filt m ai k.
  Proof.
    intros shape a filt m ai ca cb k sh v Hsh Hai Hca Hk Hcb Hsv.
    pose proof (stat_view_correct shape a filt m (map slice_of_pair (chunk_of shape ai ca cb)) (red_axis (length shape) ai) Hsh
                                  (red_axis_length _ _)) as [_ Hc].
    rewrite Hsv in Hc. change (snd (sh, v)) with v in Hc. rewrite Hc.
    - unfold whole. rewrite !textbook_lanep. rewrite chunk_lane by (assumption || lia). reflexivity.
    - unfold textbook. simpl fst.
      assert (Hlen : length (vshape (view_pos shape (map slice_of_pair (chunk_of shape ai ca cb)))) = length shape).
      { unfold vshape. rewrite map_length, view_pos_length. reflexivity. }
      rewrite <- Hlen at 1. rewrite out_shape_red_axis by (rewrite Hlen; exact Hai).
      rewrite vshape_chunk_nth by (assumption || lia).
      constructor; [lia|constructor].
  Qed.

  Lemma chunk_loop_step : forall shape a filt m ai chunks result k,
    Forall (fun n => 0 <= n) shape -> (ai < length shape)%nat ->
    chunks_ok shape ai chunks ->
    zlen result = nth ai shape 0 ->
    0 <= k < nth ai shape 0 ->
    nth (Z.to_nat k) result nan = whole shape a filt m ai k \/ covered ai chunks k ->
    nth (Z.to_nat k)
        (fold_left (fun result ch =>
                      let '(_, v) := stat_view A res R nan shape a filt m (map slice_of_pair ch) (red_axis (length shape) ai) in
                      let '(ca, cb) := nth ai ch (0, 0) in
                      assign_range res result ca cb v) chunks result) nan
    = whole shape a filt m ai k.
  Proof.
    intros shape a filt m ai chunks. induction chunks as [|ch chunks IH]; intros result k Hsh Hai Hok Hlen Hk Hcov.
    - simpl. destruct Hcov as [H|[ch [[] _]]]. exact H.
    - simpl fold_left.
      destruct (Hok ch (or_introl eq_refl)) as [ca [cb [Ech [Hca [Hcab Hcb]]]]].
      destruct (stat_view A res R nan shape a filt m (map slice_of_pair ch) (red_axis (length shape) ai)) as [sh v] eqn:Esv.
      rewrite Ech at 1. rewrite chunk_of_nth by exact Hai.
      apply IH; try assumption.
      + intros ch' Hch'. apply Hok. right. exact Hch'.
      + unfold zlen. rewrite assign_range_length. exact Hlen.
      + rewrite assign_range_nth by lia.
        destruct ((ca <=? k) && (k <? cb)) eqn:Ein.
        * left. apply andb_true_iff in Ein. destruct Ein as [E1 E2].
          apply Z.leb_le in E1. apply Z.ltb_lt in E2.
          rewrite Ech in Esv. apply (one_chunk shape a filt m ai ca cb k sh v); assumption || lia.
        * destruct Hcov as [H|[ch' [[Hch'|Hch'] Hr]]].
          -- left. exact H.
          -- subst ch'. rewrite Ech in Hr. rewrite chunk_of_nth in Hr by exact Hai. simpl in Hr.
             apply andb_false_iff in Ein. destruct Ein as [E|E]; [apply Z.leb_gt in E|apply Z.ltb_ge in E]; lia.
          -- right. exists ch'. split; assumption.
  Qed.

  (* chunking is irrelevant: for any list of chunks along the kept axis that lie inside the array and
     cover it, the loop produces element by element the unchunked result *)
  Lemma chunk_loop_correct : forall shape a filt m ai chunks k,
    Forall (fun n => 0 <= n) shape -> (ai < length shape)%nat ->
    chunks_ok shape ai chunks ->
    (forall j, 0 <= j < nth ai shape 0 -> covered ai chunks j) ->
    0 <= k < nth ai shape 0 ->
    nth (Z.to_nat k) (chunk_loop A res R nan zero shape a filt m (red_axis (length shape) ai) (Z.of_nat ai) chunks) nan
    = whole shape a filt m ai k.
  Proof.
    intros shape a filt m ai chunks k Hsh Hai Hok Hcov Hk. unfold chunk_loop. rewrite Nat2Z.id.
    apply chunk_loop_step; try assumption.
    - unfold zlen. rewrite map_length. fold (zlen (range0 (znth shape (Z.of_nat ai)))). rewrite zlen_range0.
      unfold znth. replace (Z.of_nat ai <? 0) with false by lia. rewrite Nat2Z.id. lia.
    - right. apply Hcov. exact Hk.
  Qed.
End Chunks.
