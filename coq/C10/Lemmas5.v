(* C10 — lemmas, part 5: the SliceSubsetState shortcut of compute_statistic (view=None, axis=None):
   reading data[slices] and reducing everything equals the textbook statistic under the mask
   "mask[slices] = True". *)
From Coq Require Import ZArith List Bool Lia.
Import ListNotations.
From GV Require Import Common.PyInt C10.Model C10.Lemmas1 C10.Lemmas2 C10.Lemmas3.
Open Scope Z_scope.

Definition memz (l : list Z) (i : Z) : bool := existsb (Z.eqb i) l.

Lemma memz_cons_other : forall x l y, y <> x -> memz (x :: l) y = memz l y.
Proof. intros x l y H. unfold memz. simpl. replace (y =? x) with false by lia. reflexivity. Qed.

Lemma memz_false : forall l y, (forall x, In x l -> x <> y) -> memz l y = false.
Proof.
  intros l y H. unfold memz. destruct (existsb (Z.eqb y) l) eqn:E; [|reflexivity].
  apply existsb_exists in E. destruct E as [x [Hx E]]. apply Z.eqb_eq in E. subst x. exfalso. apply (H y Hx). reflexivity.
Qed.

(* an arithmetic progression inside [lo, n) is exactly what the membership filter keeps of range(lo, n) *)
Lemma filter_progression : forall (b k : Z) (L s : nat) (lo n : Z),
  0 < k ->
  lo <= b + Z.of_nat s * k ->
  (forall j, (j < L)%nat -> b + Z.of_nat (s + j) * k < n) ->
  filter (memz (map (fun j => b + Z.of_nat j * k) (seq s L))) (py_range lo n 1) = map (fun j => b + Z.of_nat j * k) (seq s L).
Proof.
  intros b k L. induction L as [|L IH]; intros s lo n Hk Hlo Hn.
  - simpl. apply filter_none. intros. reflexivity.
  - simpl seq. simpl map. set (x := b + Z.of_nat s * k).
    assert (Hx : x < n). { specialize (Hn O). rewrite Nat.add_0_r in Hn. apply Hn. lia. }
    rewrite (py_range1_app lo x n) by lia. rewrite (py_range1_cons x n) by lia.
    rewrite filter_app. simpl filter.
    assert (Hge : forall y, In y (map (fun j => b + Z.of_nat j * k) (seq (S s) L)) -> x < y).
    { intros y Hy. apply in_map_iff in Hy. destruct Hy as [j [Ey Hj]]. apply in_seq in Hj. subst y. unfold x. nia. }
    rewrite (filter_none _ _ (py_range lo x 1)).
    + simpl. unfold memz at 1. simpl. rewrite Z.eqb_refl. simpl. f_equal.
      rewrite (filter_ext_in' _ _ (memz (map (fun j => b + Z.of_nat j * k) (seq (S s) L)))).
      * apply IH; [exact Hk|unfold x; lia|].
        intros j Hj. specialize (Hn (S j)). replace (s + S j)%nat with (S s + j)%nat in Hn by lia. apply Hn. lia.
      * intros y Hy. apply In_py_range1 in Hy. apply memz_cons_other. lia.
    + intros y Hy. apply In_py_range1 in Hy. apply memz_false.
      intros z [Hz|Hz]; [lia|]. specialize (Hge z Hz). lia.
Qed.

Definition pos_step (s : slice) : Prop := match sl_step s with None => True | Some k => 0 < k end.

Lemma slice_indices_pos : forall s n, 0 <= n -> pos_step s ->
  exists b e k, slice_indices s n = Some (b, e, k) /\ 0 < k /\ 0 <= b <= n /\ 0 <= e <= n.
Proof.
  intros [st sp sk] n Hn Hs. unfold pos_step in Hs. simpl in Hs.
  unfold slice_indices. simpl sl_step.
  set (k := match sk with None => 1 | Some k => k end).
  assert (Hk : 0 < k) by (unfold k; destruct sk; lia).
  replace (k =? 0) with false by lia. replace (k <? 0) with false by lia. simpl.
  destruct st as [a|], sp as [b|]; simpl;
    repeat (match goal with |- context [if ?c then _ else _] => destruct c eqn:? end);
    eexists; eexists; eexists; (split; [reflexivity|]); lia.
Qed.

(* filtering range(n) by membership in the positions of a positive-step slice gives those positions, in order *)
Lemma filter_slice_elems : forall s n, 0 <= n -> pos_step s ->
  filter (memz (slice_elems s n)) (range0 n) = slice_elems s n.
Proof.
  intros s n Hn Hs. destruct (slice_indices_pos s n Hn Hs) as [b [e [k [E [Hk [Hb He]]]]]].
  unfold slice_elems. rewrite E. unfold range0. unfold py_range at 1 3.
  apply filter_progression; [exact Hk|lia|].
  intros j Hj. simpl.
  destruct (Z_lt_le_dec b e) as [Hbe|Hbe].
  - unfold range_len in Hj. replace (k <=? 0) with false in Hj by lia. replace (e <=? b) with false in Hj by lia.
    assert (Hm : k * ((e - b + k - 1) / k) <= e - b + k - 1) by (apply Z.mul_div_le; lia).
    assert (Z.of_nat j < (e - b + k - 1) / k) by lia. nia.
  - unfold range_len in Hj. destruct (k <=? 0); simpl in Hj; [lia|]. replace (e <=? b) with true in Hj by lia. simpl in Hj. lia.
Qed.

Lemma slices_mask_step : forall n shape s sl i (X : list (list Z)),
  filter (slices_mask (n :: shape) (s :: sl)) (map (cons i) X) =
  if memz (slice_elems s n) i then map (cons i) (filter (slices_mask shape sl) X) else [].
Proof.
  intros n shape s sl i X. rewrite filter_map_comm.
  change (fun a : list Z => slices_mask (n :: shape) (s :: sl) (i :: a))
    with (fun a : list Z => memz (slice_elems s n) i && slices_mask shape sl a).
  destruct (memz (slice_elems s n) i); simpl.
  - reflexivity.
  - rewrite (filter_none _ _ X); [reflexivity|]. intros. reflexivity.
Qed.

(* the cells selected by the slices, in row-major order, are the cells of the box on which the mask is set *)
Lemma filter_slices_mask : forall shape sl, Forall (fun n => 0 <= n) shape -> Forall pos_step sl ->
  filter (slices_mask shape sl) (prod_idx (view_pos shape [])) = prod_idx (view_pos shape sl).
Proof.
  induction shape as [|n shape IH]; intros sl Hsh Hsl.
  - simpl. reflexivity.
  - inversion Hsh as [|? ? Hn Hsh']; subst.
    destruct sl as [|s sl].
    + change (view_pos (n :: shape) []) with (range0 n :: view_pos shape []).
      change (prod_idx (range0 n :: view_pos shape [])) with (flat_map (fun i => map (cons i) (prod_idx (view_pos shape []))) (range0 n)).
      rewrite filter_flat_map. apply flat_map_ext_in. intros i _. rewrite filter_map_comm.
      f_equal. rewrite <- (IH [] Hsh' (Forall_nil _)) at 2. apply filter_ext_in'. intros c _. reflexivity.
    + inversion Hsl as [|? ? Hs Hsl']; subst.
      change (view_pos (n :: shape) []) with (range0 n :: view_pos shape []).
      change (view_pos (n :: shape) (s :: sl)) with (slice_elems s n :: view_pos shape sl).
      change (prod_idx (range0 n :: view_pos shape [])) with (flat_map (fun i => map (cons i) (prod_idx (view_pos shape []))) (range0 n)).
      change (prod_idx (slice_elems s n :: view_pos shape sl)) with (flat_map (fun i => map (cons i) (prod_idx (view_pos shape sl))) (slice_elems s n)).
      rewrite filter_flat_map.
      rewrite <- (filter_slice_elems s n Hn Hs) at 1.
      generalize (range0 n) as l. intros l. induction l as [|i l IHl]; [reflexivity|].
      change (flat_map (fun a : Z => filter (slices_mask (n :: shape) (s :: sl)) (map (cons a) (prod_idx (view_pos shape [])))) (i :: l))
        with (filter (slices_mask (n :: shape) (s :: sl)) (map (cons i) (prod_idx (view_pos shape []))) ++
              flat_map (fun a : Z => filter (slices_mask (n :: shape) (s :: sl)) (map (cons a) (prod_idx (view_pos shape [])))) l).
      rewrite IHl. rewrite (slices_mask_step n shape s sl i (prod_idx (view_pos shape []))).
      change (filter (memz (slice_elems s n)) (i :: l))
        with (if memz (slice_elems s n) i then i :: filter (memz (slice_elems s n)) l else filter (memz (slice_elems s n)) l).
      destruct (memz (slice_elems s n) i).
      * simpl flat_map. rewrite (IH sl Hsh' Hsl'). reflexivity.
      * reflexivity.
Qed.

Lemma lanep_all_red : forall pos red o, length red = length pos -> (forall b, In b red -> b = true) ->
  lanep pos red o = prod_idx pos.
Proof.
  induction pos as [|p pos IH]; intros red o Hl Hall.
  - destruct red; [reflexivity|discriminate].
  - destruct red as [|r red]; [discriminate|]. simpl in Hl. injection Hl as Hl.
    assert (r = true) by (apply Hall; left; reflexivity). subst r. simpl.
    apply flat_map_ext_in. intros x _. f_equal. apply IH; [exact Hl|]. intros b Hb. apply Hall. right. exact Hb.
Qed.

Lemma filter_andb : forall (X : Type) (f g : X -> bool) (l : list X),
  filter (fun c => f c && g c) l = filter g (filter f l).
Proof.
  intros X f g l. induction l as [|x l IH]; [reflexivity|]. simpl.
  destruct (f x); simpl; [destruct (g x); rewrite IH; reflexivity|exact IH].
Qed.

Section Shortcut.
  Variables A res : Type.
  Variable R : list A -> res.
  Variable nan : res.
  Hypothesis R_nil : R [] = nan.

  Lemma out_shape_all_red : forall sh red, length red = length sh -> (forall b, In b red -> b = true) -> out_shape sh red = [].
  Proof.
    induction sh as [|n sh IH]; intros red Hl Hall; [destruct red; reflexivity|].
    destruct red as [|r red]; [discriminate|]. simpl in Hl. injection Hl as Hl.
    assert (r = true) by (apply Hall; left; reflexivity). subst r. simpl.
    apply IH; [exact Hl|]. intros b Hb. apply Hall. right. exact Hb.
  Qed.

  (* compute_statistic(subset_state=SliceSubsetState(slices), view=None, axis=None):
     data = data[slices]; mask = None     equals the textbook statistic under the slices' mask *)
  Lemma slice_shortcut_correct : forall shape (a : idx -> A) (filt : A -> bool) (sl : list slice) (red : list bool),
    Forall (fun n => 0 <= n) shape -> Forall pos_step sl ->
    length red = length shape -> (forall b, In b red -> b = true) ->
    fst (stat_view A res R nan shape a filt None sl red) = [] /\
    fst (textbook A res R shape a filt (slices_mask shape sl) [] red) = [] /\
    snd (stat_view A res R nan shape a filt None sl red) [] =
    snd (textbook A res R shape a filt (slices_mask shape sl) [] red) [].
  Proof.
    intros shape a filt sl red Hsh Hsl Hl Hall.
    assert (Hlv : forall v, length red = length (vshape (view_pos shape v))).
    { intros v. unfold vshape. rewrite map_length, view_pos_length. exact Hl. }
    split; [simpl; apply out_shape_all_red; [apply Hlv|exact Hall]|].
    split; [simpl; apply out_shape_all_red; [apply Hlv|exact Hall]|].
    change (stat_view A res R nan shape a filt None sl red)
      with (textbook A res R shape a filt (fun _ => true) sl red).
    rewrite !textbook_lanep.
    rewrite !lanep_all_red by (try exact Hall; rewrite view_pos_length; exact Hl).
    f_equal. f_equal.
    rewrite (filter_andb _ (slices_mask shape sl)). rewrite filter_slices_mask by assumption.
    apply filter_ext_in'. intros c _. reflexivity.
  Qed.
End Shortcut.
