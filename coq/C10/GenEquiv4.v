(* C10 -- translated skeleton vs hand model, part 4: the SliceSubsetState shortcut, the property-level statement for the
   translated Data.compute_statistic outside the chunk loop, and the chunk loop of the translated code. *)
From Coq Require Import ZArith List Bool Lia ZifyBool.
Import ListNotations.
From GV Require Import Common.PyInt gen.Gen_array C10.Model C10.Lemmas1 C10.Lemmas2 C10.Lemmas3 C10.Lemmas4 C10.Lemmas5 C10.Lemmas6
     C10.GenEquiv1 C10.GenEquiv2 C10.GenEquiv3.
From GV Require C20.Model C20.OdometerProof.
Open Scope Z_scope.

(* the membership function of a selection (no selection = everything) *)
Definition sel_fun (shape : list Z) (s : selection) : idx -> bool :=
  match s with SelNone => fun _ => true | _ => g_mask_fun shape s end.

Section Whole.
  Variables A res : Type.
  Variable R : list A -> res.
  Variable nan zero : res.
  Hypothesis R_nil : R [] = nan.
  Variables isfin ispos : A -> bool.
  Variable shape : list Z.
  Variable a : idx -> A.
  Hypothesis Hsh : Forall (fun n => 0 <= n) shape.
  Variable unb : garr A -> garr A.
  Variable st : Z.
  Hypothesis Hunb : unb_sound A res R isfin ispos unb st.

  Local Notation GSTEP := (gen_step A res R nan zero isfin ispos shape a unb).
  Local Notation GREC := (gen_rec A res R nan zero isfin ispos shape a unb).
  Local Notation FILT := (filt_of A isfin ispos).

  Ltac gcbv := cbv beta iota zeta delta [pv view_is_list to_tuple view_is_none view_is_ellipsis view_is_tuple g_truthy g_is_slice_state
                                          oz_truthy oz_get is_none andb orb negb unopt axis_is_none axis_is_tuple axis_is_int].

  (* SliceSubsetState, view=None, axis=None: data = subset_state.to_array(self, cid), no mask *)
  Lemma body_shortcut : forall rec fuel sl fin pos ncm,
    GSTEP rec fuel st (SelSlices sl) AxNone fin pos PVNone ncm =
    Ok (stat_view A res R nan shape a (FILT fin pos) None sl (red_of_axes (zlen shape) None)).
  Proof.
    intros rec fuel sl fin pos ncm. unfold gen_step, compute_statistic_step. gcbv. rewrite ?if_same.
    assert (Hk : forall d, g_compute_statistic A res R isfin ispos st d None AxNone fin pos tt
                      = (out_shape (fst d) (red_of_axes (zlen (fst d)) None),
                         reduce A res R (fst d) (snd d) (fun j => true && FILT fin pos (snd d j)) (red_of_axes (zlen (fst d)) None))) by reflexivity.
    destruct (existsb (Z.eqb st) [4; 5]) eqn:E; rewrite ?if_same.
    2: rewrite Hunb by (unfold unb_guard; rewrite E; reflexivity).
    all: rewrite Hk; unfold g_to_array, stat_view; cbn [fst snd]; cbv zeta;
      rewrite (red_of_axes_len (vshape (view_pos shape sl)) shape None) by (unfold vshape; rewrite map_length; apply view_pos_length);
      reflexivity.
  Qed.

  (* ---- the translated function outside the chunk loop and outside the shortcut: shape and every element ---- *)
  Theorem gen_step_definition : forall rec fuel s ax fin pos o ncm,
    chunk_cond shape s ax (pv o) ncm = false ->
    shortcut s ax (pv o) = false ->
    exists r, GSTEP rec fuel st s ax fin pos (pv o) ncm = Ok r /\
      let sels := view_sel shape (entries o) in
      let vsh := sel_shape sels in
      let red := red_of_axes (zlen vsh) (axes_of ax) in
      fst r = out_shape vsh red /\
      forall o', in_box (out_shape vsh red) o' ->
        snd r o' = R (map a (filter (fun c => sel_fun shape s c && FILT fin pos (a c)) (map (to_under_e sels) (lane0 vsh red o')))).
  Proof.
    intros rec fuel s ax fin pos o ncm Hch Hsc. cbv zeta.
    set (sels := view_sel shape (entries o)). set (vsh := sel_shape sels). set (red := red_of_axes (zlen vsh) (axes_of ax)).
    assert (Hl : length red = length vsh) by apply red_of_axes_length.
    destruct s as [|m|sl].
    - exists (stat_view_e A res R nan shape a (FILT fin pos) None (entries o) red). split.
      + apply body_none; [exact Hunb|exact Hch].
      + exact (stat_view_e_correct A res R nan R_nil shape a (FILT fin pos) None (entries o) red Hsh Hl).
    - destruct (body_mask A res R nan zero isfin ispos shape a unb st rec fuel (SelMask m) ax fin pos o ncm Hsh eq_refl Hch Hsc) as [r [Hr [He1 He2]]].
      exists r. split; [exact Hr|].
      destruct (stat_view_e_correct A res R nan R_nil shape a (FILT fin pos) (Some (g_mask_fun shape (SelMask m))) (entries o) red Hsh Hl) as [H1 H2].
      fold sels vsh red in He1, He2. split; [rewrite He1; exact H1|].
      intros o' Ho'. rewrite He2 by (rewrite He1, H1; exact Ho'). apply H2. exact Ho'.
    - destruct (body_mask A res R nan zero isfin ispos shape a unb st rec fuel (SelSlices sl) ax fin pos o ncm Hsh eq_refl Hch Hsc) as [r [Hr [He1 He2]]].
      exists r. split; [exact Hr|].
      destruct (stat_view_e_correct A res R nan R_nil shape a (FILT fin pos) (Some (g_mask_fun shape (SelSlices sl))) (entries o) red Hsh Hl) as [H1 H2].
      fold sels vsh red in He1, He2. split; [rewrite He1; exact H1|].
      intros o' Ho'. rewrite He2 by (rewrite He1, H1; exact Ho'). apply H2. exact Ho'.
  Qed.

  (* the entry point with its explicit recursion fuel *)
  Lemma gen_compute_statistic_S : forall rf fuel s ax fin pos v ncm,
    gen_compute_statistic A res R nan zero isfin ispos shape a unb (S rf) fuel st s ax fin pos v ncm = GSTEP (GREC rf fuel) fuel st s ax fin pos v ncm.
  Proof. reflexivity. Qed.
End Whole.
