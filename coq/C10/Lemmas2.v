(* C10 — lemmas, part 2: lanes, minimal sub-array, view recombination, padding. *)
From Coq Require Import ZArith List Bool Lia.
Import ListNotations.
From GV Require Import Common.PyInt C10.Model C10.Lemmas1.
Open Scope Z_scope.

(* ---------- generic list facts ---------- *)

Lemma filter_flat_map : forall (A B : Type) (f : A -> list B) (p : B -> bool) (l : list A),
  filter p (flat_map f l) = flat_map (fun a => filter p (f a)) l.
Proof.
  intros A B f p l. induction l as [|a l IH]; simpl; [reflexivity|].
  rewrite filter_app, IH. reflexivity.
Qed.

Lemma filter_map_comm : forall (A B : Type) (f : A -> B) (p : B -> bool) (l : list A),
  filter p (map f l) = map f (filter (fun a => p (f a)) l).
Proof.
  intros A B f p l. induction l as [|a l IH]; simpl; [reflexivity|].
  destruct (p (f a)); simpl; rewrite IH; reflexivity.
Qed.

Lemma flat_map_map : forall (A B C : Type) (g : A -> B) (f : B -> list C) (l : list A),
  flat_map f (map g l) = flat_map (fun a => f (g a)) l.
Proof.
  intros A B C g f l. induction l as [|a l IH]; simpl; [reflexivity|]. rewrite IH. reflexivity.
Qed.

Lemma flat_map_nil : forall (A B : Type) (f : A -> list B) (l : list A),
  (forall a, In a l -> f a = []) -> flat_map f l = [].
Proof.
  intros A B f l H. induction l as [|a l IH]; simpl; [reflexivity|].
  rewrite (H a (or_introl eq_refl)). simpl. apply IH. intros b Hb. apply H. right. exact Hb.
Qed.

Lemma flat_map_ext_in : forall (A B : Type) (f g : A -> list B) (l : list A),
  (forall a, In a l -> f a = g a) -> flat_map f l = flat_map g l.
Proof.
  intros A B f g l H. induction l as [|a l IH]; simpl; [reflexivity|].
  rewrite (H a (or_introl eq_refl)), IH; [reflexivity|]. intros b Hb. apply H. right. exact Hb.
Qed.

Lemma map_ext_in' : forall (A B : Type) (f g : A -> B) (l : list A),
  (forall a, In a l -> f a = g a) -> map f l = map g l.
Proof. intros. apply map_ext_in. assumption. Qed.

Lemma filter_ext_in' : forall (A : Type) (f g : A -> bool) (l : list A),
  (forall a, In a l -> f a = g a) -> filter f l = filter g l.
Proof.
  intros A f g l H. induction l as [|a l IH]; simpl; [reflexivity|].
  rewrite (H a (or_introl eq_refl)), IH; [reflexivity|]. intros b Hb. apply H. right. exact Hb.
Qed.

(* ---------- index boxes ---------- *)

Definition in_box (sh : list Z) (c : idx) : Prop := Forall2 (fun n j => 0 <= j < n) sh c.

Lemma In_prod_idx : forall axes c, In c (prod_idx axes) <-> Forall2 (fun p j => In j p) axes c.
Proof.
  induction axes as [|p axes IH]; intros c; simpl.
  - split.
    + intros [H|[]]. subst c. constructor.
    + intros H. inversion H. left. reflexivity.
  - rewrite in_flat_map. split.
    + intros [i [Hi Hc]]. apply in_map_iff in Hc. destruct Hc as [c' [Hc Hc']]. subst c.
      constructor; [exact Hi|]. apply IH. exact Hc'.
    + intros H. inversion H as [|? j ? c' Hj Hc']; subst. exists j. split; [exact Hj|].
      apply in_map. apply IH. exact Hc'.
Qed.

Lemma In_box_iff : forall sh c, In c (box sh) <-> in_box sh c.
Proof.
  intros sh c. unfold box, in_box. rewrite In_prod_idx.
  revert c. induction sh as [|n sh IH]; intros c; simpl.
  - split; intros H; inversion H; constructor.
  - split; intros H; inversion H as [|? j ? c' Hj Hc']; subst; constructor.
    + apply In_range0. exact Hj.
    + apply IH. exact Hc'.
    + apply In_range0. exact Hj.
    + apply IH. exact Hc'.
Qed.

Lemma in_box_length : forall sh c, in_box sh c -> length c = length sh.
Proof. intros sh c H. induction H; simpl; [reflexivity|]. rewrite IHForall2. reflexivity. Qed.

(* cells of a lane lie in the box *)
Lemma lane0_in_box : forall sh red o c, length red = length sh ->
  in_box (out_shape sh red) o -> In c (lane0 sh red o) -> in_box sh c.
Proof.
  induction sh as [|n sh IH]; intros red o c Hl Ho Hc.
  - destruct red; simpl in Hc; destruct Hc as [Hc|[]]; subst c; constructor.
  - destruct red as [|r red]; [discriminate|]. simpl in Hl. injection Hl as Hl.
    destruct r; simpl in Hc, Ho.
    + apply in_flat_map in Hc. destruct Hc as [i [Hi Hc]]. apply in_map_iff in Hc.
      destruct Hc as [c' [Hc Hc']]. subst c. constructor.
      * apply In_range0. exact Hi.
      * apply (IH red o c' Hl Ho Hc').
    + destruct o as [|j o]; [destruct Hc|]. inversion Ho as [|? ? ? ? Hj Ho']; subst.
      apply in_map_iff in Hc. destruct Hc as [c' [Hc Hc']]. subst c. constructor; [exact Hj|].
      apply (IH red o c' Hl Ho' Hc').
Qed.

(* ---------- the crop lemma ---------- *)

Definition csh_of (sub : list (Z * Z)) : list Z := map (fun p => snd p - fst p) sub.

Definition in_pairs (sub : list (Z * Z)) (c : idx) : Prop := Forall2 (fun p j => fst p <= j < snd p) sub c.

Lemma zadd_cons : forall x a y b, zadd (x :: a) (y :: b) = (x + y) :: zadd a b.
Proof. reflexivity. Qed.

Lemma map_flat_map : forall (A B C : Type) (f : B -> C) (g : A -> list B) (l : list A),
  map f (flat_map g l) = flat_map (fun a => map f (g a)) l.
Proof.
  intros A B C f g l. induction l as [|a l IH]; simpl; [reflexivity|]. rewrite map_app, IH. reflexivity.
Qed.

(* one collapsed axis: positions outside [s, e) never hold a kept value *)
Lemma filter_lane_axis : forall n s e (L : list (list Z)) (K : list Z -> bool),
  0 <= s -> s <= e -> e <= n ->
  (forall i c, In c L -> 0 <= i < n -> i < s \/ e <= i -> K (i :: c) = false) ->
  filter K (flat_map (fun i => map (cons i) L) (range0 n)) =
  flat_map (fun i' => map (cons (i' + s)) (filter (fun c => K ((i' + s) :: c)) L)) (range0 (e - s)).
Proof.
  intros n s e L K Hs Hse Hen Hout.
  rewrite filter_flat_map.
  unfold range0 at 1. rewrite (py_range1_app 0 s n) by lia. rewrite (py_range1_app s e n) by lia.
  rewrite !flat_map_app.
  rewrite (flat_map_nil _ _ _ (py_range 0 s 1)), (flat_map_nil _ _ _ (py_range e n 1)).
  - rewrite app_nil_r. simpl app.
    replace (py_range s e 1) with (map (fun k => k + s) (range0 (e - s))).
    2:{ unfold range0. rewrite <- py_range1_shift. f_equal; lia. }
    rewrite flat_map_map. apply flat_map_ext_in. intros i _. apply filter_map_comm.
  - intros i Hi. apply In_py_range1 in Hi. rewrite filter_map_comm.
    rewrite (filter_none _ _ L); [reflexivity|]. intros c Hc. apply Hout; [exact Hc|lia|lia].
  - intros i Hi. apply In_py_range1 in Hi. rewrite filter_map_comm.
    rewrite (filter_none _ _ L); [reflexivity|]. intros c Hc. apply Hout; [exact Hc|lia|lia].
Qed.

Lemma lane_crop : forall sh red sub o (K : list Z -> bool),
  length red = length sh ->
  Forall2 (fun p n => 0 <= fst p /\ fst p <= snd p /\ snd p <= n) sub sh ->
  in_box (out_shape sh red) o ->
  (forall c, in_box sh c -> K c = true -> in_pairs sub c) ->
  inside (out_pairs sub red) o = true ->
  filter K (lane0 sh red o) =
  map (fun c' => zadd c' (map fst sub))
      (filter (fun c' => K (zadd c' (map fst sub)))
              (lane0 (csh_of sub) red (zsub_starts o (out_pairs sub red)))).
Proof.
  induction sh as [|n sh IH]; intros red sub o K Hl Hsub Ho HK Hin.
  - inversion Hsub; subst. destruct red; [|discriminate]. simpl.
    destruct (K []); reflexivity.
  - inversion Hsub as [|[s e] ? sub' ? Hp Hsub']; subst. simpl in Hp. destruct Hp as [Hs0 [Hse Hen]].
    destruct red as [|r red]; [discriminate|]. simpl in Hl. injection Hl as Hl.
    destruct r.
    + simpl in Ho. simpl out_pairs in *.
      change (lane0 (n :: sh) (true :: red) o) with (flat_map (fun i => map (cons i) (lane0 sh red o)) (range0 n)).
      change (csh_of ((s, e) :: sub')) with ((e - s) :: csh_of sub').
      change (lane0 ((e - s) :: csh_of sub') (true :: red) (zsub_starts o (out_pairs sub' red)))
        with (flat_map (fun i => map (cons i) (lane0 (csh_of sub') red (zsub_starts o (out_pairs sub' red)))) (range0 (e - s))).
      change (map fst ((s, e) :: sub')) with (s :: map fst sub').
      rewrite (filter_lane_axis n s e _ K Hs0 Hse Hen).
      * rewrite filter_flat_map, map_flat_map.
        apply flat_map_ext_in. intros i Hi. apply In_range0 in Hi.
        rewrite filter_map_comm, !map_map.
        rewrite (IH red sub' o (fun c => K ((i + s) :: c)) Hl Hsub' Ho).
        -- rewrite map_map. apply map_ext_in'. intros c' _. reflexivity.
        -- intros c Hc Hk. assert (Hb : in_box (n :: sh) ((i + s) :: c)) by (constructor; [lia|exact Hc]).
           specialize (HK _ Hb Hk). inversion HK; subst. assumption.
        -- exact Hin.
      * intros i c Hc Hi0 Hi. destruct (K (i :: c)) eqn:Ek; [|reflexivity]. exfalso.
        assert (Hcb : in_box sh c) by (apply (lane0_in_box sh red o c Hl Ho Hc)).
        assert (Hb : in_box (n :: sh) (i :: c)) by (constructor; assumption).
        specialize (HK _ Hb Ek). inversion HK as [|? ? ? ? Hr]; subst. simpl in Hr. lia.
    + simpl in Ho. simpl out_pairs in *.
      destruct o as [|j o]; [inversion Ho|].
      inversion Ho as [|? ? ? ? Hj Ho']; subst.
      simpl in Hin. apply andb_true_iff in Hin. destruct Hin as [Hin1 Hin].
      apply andb_true_iff in Hin1. destruct Hin1 as [Hsj Hje].
      apply Z.leb_le in Hsj. apply Z.ltb_lt in Hje.
      change (lane0 (n :: sh) (false :: red) (j :: o)) with (map (cons j) (lane0 sh red o)).
      change (csh_of ((s, e) :: sub')) with ((e - s) :: csh_of sub').
      change (zsub_starts (j :: o) ((s, e) :: out_pairs sub' red)) with ((j - s) :: zsub_starts o (out_pairs sub' red)).
      change (lane0 ((e - s) :: csh_of sub') (false :: red) ((j - s) :: zsub_starts o (out_pairs sub' red)))
        with (map (cons (j - s)) (lane0 (csh_of sub') red (zsub_starts o (out_pairs sub' red)))).
      change (map fst ((s, e) :: sub')) with (s :: map fst sub').
      rewrite !filter_map_comm, !map_map.
      rewrite (IH red sub' o (fun c => K (j :: c)) Hl Hsub' Ho').
      * rewrite map_map.
        assert (Ej : j - s + s = j) by lia.
        transitivity (map (fun c' => (j - s + s) :: zadd c' (map fst sub'))
                          (filter (fun c' => K ((j - s + s) :: zadd c' (map fst sub')))
                                  (lane0 (csh_of sub') red (zsub_starts o (out_pairs sub' red))))).
        -- rewrite Ej. reflexivity.
        -- reflexivity.
      * intros c Hc Hk. assert (Hb : in_box (n :: sh) (j :: c)) by (constructor; assumption).
        specialize (HK _ Hb Hk). inversion HK; subst. assumption.
      * exact Hin.
Qed.

(* an output element outside the bounding box has no kept value *)
Lemma lane_outside : forall sh red sub o (K : list Z -> bool),
  length red = length sh ->
  length sub = length sh ->
  in_box (out_shape sh red) o ->
  (forall c, in_box sh c -> K c = true -> in_pairs sub c) ->
  inside (out_pairs sub red) o = false ->
  filter K (lane0 sh red o) = [].
Proof.
  induction sh as [|n sh IH]; intros red sub o K Hl Hls Ho HK Hin.
  - destruct sub; [|discriminate]. destruct red; simpl in Hin; discriminate.
  - destruct sub as [|[s e] sub']; [discriminate|]. simpl in Hls. injection Hls as Hls.
    destruct red as [|r red]; [discriminate|]. simpl in Hl. injection Hl as Hl.
    destruct r.
    + simpl in Ho. simpl out_pairs in Hin.
      change (lane0 (n :: sh) (true :: red) o) with (flat_map (fun i => map (cons i) (lane0 sh red o)) (range0 n)).
      rewrite filter_flat_map. apply flat_map_nil. intros i Hi. apply In_range0 in Hi.
      rewrite filter_map_comm.
      rewrite (IH red sub' o (fun c => K (i :: c)) Hl Hls Ho); [reflexivity| |exact Hin].
      intros c Hc Hk. assert (Hb : in_box (n :: sh) (i :: c)) by (constructor; assumption).
      specialize (HK _ Hb Hk). inversion HK; subst. assumption.
    + simpl in Ho. simpl out_pairs in Hin.
      destruct o as [|j o]; [inversion Ho|].
      inversion Ho as [|? ? ? ? Hj Ho']; subst.
      change (lane0 (n :: sh) (false :: red) (j :: o)) with (map (cons j) (lane0 sh red o)).
      rewrite filter_map_comm.
      simpl in Hin.
      destruct ((s <=? j) && (j <? e)) eqn:Ej.
      * simpl in Hin.
        rewrite (IH red sub' o (fun c => K (j :: c)) Hl Hls Ho'); [reflexivity| |exact Hin].
        intros c Hc Hk. assert (Hb : in_box (n :: sh) (j :: c)) by (constructor; assumption).
        specialize (HK _ Hb Hk). inversion HK; subst. assumption.
      * rewrite (filter_none _ _ (lane0 sh red o)); [reflexivity|].
        intros c Hc. destruct (K (j :: c)) eqn:Ek; [|reflexivity]. exfalso.
        assert (Hcb : in_box sh c) by (apply (lane0_in_box sh red o c Hl Ho' Hc)).
        assert (Hb : in_box (n :: sh) (j :: c)) by (constructor; assumption).
        specialize (HK _ Hb Ek). inversion HK as [|? ? ? ? Hr]; subst. simpl in Hr.
        apply andb_false_iff in Ej. destruct Ej as [Ej|Ej].
        -- apply Z.leb_gt in Ej. lia.
        -- apply Z.ltb_ge in Ej. lia.
Qed.

(* ---------- subarray_slices: the bounding box of the set cells ---------- *)

Lemma fold_min_le_init : forall l x, fold_left Z.min l x <= x.
Proof.
  induction l as [|y l IH]; intros x; simpl; [lia|]. specialize (IH (Z.min x y)). lia.
Qed.

Lemma fold_min_le : forall l x y, In y l -> fold_left Z.min l x <= y.
Proof.
  induction l as [|z l IH]; intros x y Hy; [destruct Hy|]. simpl. destruct Hy as [Hy|Hy].
  - subst z. pose proof (fold_min_le_init l (Z.min x y)). lia.
  - apply IH. exact Hy.
Qed.

Lemma fold_min_in : forall l x, fold_left Z.min l x = x \/ In (fold_left Z.min l x) l.
Proof.
  induction l as [|y l IH]; intros x; simpl; [left; reflexivity|].
  destruct (IH (Z.min x y)) as [H|H].
  - rewrite H. destruct (Z.min_spec x y) as [[_ E]|[_ E]]; rewrite E; [left|right; left]; reflexivity.
  - right. right. exact H.
Qed.

Lemma fold_max_ge_init : forall l x, x <= fold_left Z.max l x.
Proof.
  induction l as [|y l IH]; intros x; simpl; [lia|]. specialize (IH (Z.max x y)). lia.
Qed.

Lemma fold_max_ge : forall l x y, In y l -> y <= fold_left Z.max l x.
Proof.
  induction l as [|z l IH]; intros x y Hy; [destruct Hy|]. simpl. destruct Hy as [Hy|Hy].
  - subst z. pose proof (fold_max_ge_init l (Z.max x y)). lia.
  - apply IH. exact Hy.
Qed.

Lemma fold_max_in : forall l x, fold_left Z.max l x = x \/ In (fold_left Z.max l x) l.
Proof.
  induction l as [|y l IH]; intros x; simpl; [left; reflexivity|].
  destruct (IH (Z.max x y)) as [H|H].
  - rewrite H. destruct (Z.max_spec x y) as [[_ E]|[_ E]]; rewrite E; [right; left|left]; reflexivity.
  - right. right. exact H.
Qed.

Lemma list_min_le : forall l y, In y l -> list_min l <= y.
Proof.
  intros [|x l] y Hy; [destruct Hy|]. simpl. destruct Hy as [Hy|Hy].
  - subst. apply fold_min_le_init.
  - apply fold_min_le. exact Hy.
Qed.

Lemma list_max_ge : forall l y, In y l -> y <= list_max l.
Proof.
  intros [|x l] y Hy; [destruct Hy|]. simpl. destruct Hy as [Hy|Hy].
  - subst. apply fold_max_ge_init.
  - apply fold_max_ge. exact Hy.
Qed.

Lemma list_min_in : forall l, l <> [] -> In (list_min l) l.
Proof.
  intros [|x l] H; [congruence|]. simpl. destruct (fold_min_in l x) as [E|E]; [left; symmetry; exact E|right; exact E].
Qed.

Lemma list_max_in : forall l, l <> [] -> In (list_max l) l.
Proof.
  intros [|x l] H; [congruence|]. simpl. destruct (fold_max_in l x) as [E|E]; [left; symmetry; exact E|right; exact E].
Qed.

Lemma Forall2_map_seq : forall (A : Type) (P : A -> Z -> Prop) (f : nat -> A) (c : list Z) (start : nat),
  (forall i, (i < length c)%nat -> P (f (start + i)%nat) (nth i c 0)) ->
  Forall2 P (map f (seq start (length c))) c.
Proof.
  intros A P f c. induction c as [|x c IH]; intros start H; simpl; [constructor|].
  constructor.
  - specialize (H O). simpl in H. rewrite Nat.add_0_r in H. apply H. lia.
  - apply IH. intros i Hi. specialize (H (S i)). simpl in H.
    replace (S start + i)%nat with (start + S i)%nat by lia. apply H. lia.
Qed.

Lemma Forall2_map_seq_l : forall (A B : Type) (P : A -> B -> Prop) (f : nat -> A) (l : list B) (d : B) (start : nat),
  (forall i, (i < length l)%nat -> P (f (start + i)%nat) (nth i l d)) ->
  Forall2 P (map f (seq start (length l))) l.
Proof.
  intros A B P f l d. induction l as [|x l IH]; intros start H; simpl; [constructor|].
  constructor.
  - specialize (H O). simpl in H. rewrite Nat.add_0_r in H. apply H. lia.
  - apply IH. intros i Hi. specialize (H (S i)). simpl in H.
    replace (S start + i)%nat with (start + S i)%nat by lia. apply H. lia.
Qed.

Lemma in_box_nth : forall sh c i, in_box sh c -> (i < length sh)%nat -> 0 <= nth i c 0 < nth i sh 0.
Proof.
  intros sh c i H. revert i. induction H as [|n j sh c Hj H IH]; intros i Hi; simpl in Hi; [lia|].
  destruct i as [|i]; simpl; [exact Hj|]. apply IH. lia.
Qed.

(* every set cell lies inside the bounding box *)
Lemma bbox_contains : forall ndim (trues : list idx) c,
  In c trues -> length c = ndim -> in_pairs (bbox ndim trues) c.
Proof.
  intros ndim trues c Hc Hl. unfold in_pairs, bbox. rewrite <- Hl.
  apply Forall2_map_seq. intros i Hi. simpl.
  assert (Hin : In (nth i c 0) (map (fun c0 : idx => nth i c0 0) trues)).
  { apply in_map_iff. exists c. split; [reflexivity|exact Hc]. }
  pose proof (list_min_le _ _ Hin). pose proof (list_max_ge _ _ Hin). lia.
Qed.

(* the bounding box of a non-empty set of cells of the box lies within the box, and is not empty *)
Lemma bbox_within : forall sh (trues : list idx),
  trues <> [] -> (forall c, In c trues -> in_box sh c) ->
  Forall2 (fun p n => 0 <= fst p /\ fst p < snd p /\ snd p <= n) (bbox (length sh) trues) sh.
Proof.
  intros sh trues Hne Hall. unfold bbox.
  apply (Forall2_map_seq_l _ _ _ _ sh 0 0%nat). intros i Hi. simpl.
  set (l := map (fun c0 : idx => nth i c0 0) trues).
  assert (Hlne : l <> []).
  { unfold l. destruct trues; [congruence|]. simpl. discriminate. }
  pose proof (list_min_in l Hlne) as Hmin. pose proof (list_max_in l Hlne) as Hmax.
  assert (Hmm : list_min l <= list_max l).
  { apply list_min_le. exact Hmax. }
  unfold l in Hmin, Hmax. apply in_map_iff in Hmin. apply in_map_iff in Hmax.
  destruct Hmin as [c1 [E1 Hc1]]. destruct Hmax as [c2 [E2 Hc2]].
  pose proof (in_box_nth sh c1 i (Hall c1 Hc1) Hi) as B1.
  pose proof (in_box_nth sh c2 i (Hall c2 Hc2) Hi) as B2.
  fold l in E1, E2. lia.
Qed.

Lemma bbox_length : forall ndim trues, length (bbox ndim trues) = ndim.
Proof. intros. unfold bbox. rewrite map_length, seq_length. reflexivity. Qed.

(* ---------- slices with step 1 and the recombined view ---------- *)
From Coq Require Import ZifyBool.

Lemma slice_indices_step1 : forall v n, 0 <= n -> step_not_one v = false ->
  exists b e, slice_indices v n = Some (b, e, 1) /\ 0 <= b <= n /\ 0 <= e <= n.
Proof.
  intros [st sp sk] n Hn Hs. unfold step_not_one in Hs. simpl in Hs.
  assert (Hk : match sk with None => 1 | Some k => k end = 1).
  { destruct sk as [k|]; [|reflexivity]. lia. }
  unfold slice_indices. simpl sl_step. rewrite Hk. simpl.
  destruct st as [a|], sp as [b|]; simpl;
    repeat (match goal with |- context [if ?c then _ else _] => destruct c eqn:? end);
    eexists; eexists; (split; [reflexivity|]); lia.
Qed.

Lemma slice_indices_new : forall a b n, 0 <= a <= n -> 0 <= b <= n ->
  slice_indices (Slice (Some a) (Some b) None) n = Some (a, b, 1).
Proof.
  intros a b n Ha Hb. unfold slice_indices. simpl.
  repeat (match goal with |- context [if ?c then _ else _] => destruct c eqn:? end); repeat f_equal; lia.
Qed.

Lemma view_pos_length : forall shape view, length (view_pos shape view) = length shape.
Proof.
  induction shape as [|n shape IH]; intros view; simpl; [reflexivity|].
  destruct view; simpl; rewrite IH; reflexivity.
Qed.

Lemma zlen_py_range1 : forall a b, zlen (py_range a b 1) = Z.max 0 (b - a).
Proof. intros. unfold zlen. rewrite py_range1_length. lia. Qed.

Lemma new_view_cons_cons : forall n shape v view s e sub,
  new_view (n :: shape) (v :: view) ((s, e) :: sub) =
  if step_not_one v then None
  else match slice_indices v n with
       | Some (view_start, _, _) =>
         match new_view shape view sub with
         | Some r => Some (Slice (Some (view_start + s)) (Some (view_start + e)) None :: r)
         | None => None
         end
       | None => None
       end.
Proof. reflexivity. Qed.

Lemma view_crop : forall shape view sub nv,
  Forall (fun n => 0 <= n) shape ->
  Forall2 (fun p len => 0 <= fst p /\ fst p < snd p /\ snd p <= len) sub (vshape (view_pos shape view)) ->
  new_view shape view sub = Some nv ->
  vshape (view_pos shape nv) = csh_of sub /\
  forall j', in_box (csh_of sub) j' ->
             to_under (view_pos shape nv) j' = to_under (view_pos shape view) (zadd j' (map fst sub)).
Proof.
  induction shape as [|n shape IH]; intros view sub nv Hsh Hsub Hnv.
  - simpl in Hsub. inversion Hsub; subst. simpl in Hnv. injection Hnv as Hnv. subst nv. simpl.
    split; [reflexivity|]. intros j' Hj. inversion Hj. reflexivity.
  - inversion Hsh as [|? ? Hn Hsh']; subst.
    destruct view as [|v view].
    + simpl in Hsub. inversion Hsub as [|[s e] ? sub' ? Hp Hsub']; subst. simpl in Hp.
      rewrite zlen_range0 in Hp.
      simpl in Hnv. destruct (new_view shape [] sub') as [r|] eqn:Er; [|discriminate].
      injection Hnv as Hnv. subst nv.
      destruct (IH [] sub' r Hsh' Hsub' Er) as [IH1 IH2].
      simpl view_pos. unfold slice_elems. rewrite slice_indices_new by lia.
      split.
      * simpl. rewrite IH1, zlen_py_range1. f_equal. lia.
      * intros j' Hj. inversion Hj as [|? i' ? j'' Hi' Hj'']; subst. simpl.
        rewrite (IH2 j'' Hj''). f_equal.
        rewrite nth_py_range1 by lia. unfold range0. rewrite nth_py_range1 by lia. lia.
    + simpl in Hsub. inversion Hsub as [|[s e] ? sub' ? Hp Hsub']; subst. simpl in Hp.
      rewrite new_view_cons_cons in Hnv.
      destruct (step_not_one v) eqn:Es; [discriminate|].
      destruct (slice_indices_step1 v n Hn Es) as [vb [ve [Hsi [Hvb Hve]]]].
      rewrite Hsi in Hnv.
      unfold slice_elems in Hp. rewrite Hsi in Hp.
      rewrite zlen_py_range1 in Hp.
      destruct (new_view shape view sub') as [r|] eqn:Er; [|discriminate].
      injection Hnv as Hnv. subst nv.
      destruct (IH view sub' r Hsh' Hsub' Er) as [IH1 IH2].
      simpl view_pos. unfold slice_elems. rewrite Hsi. rewrite slice_indices_new by lia.
      split.
      * simpl. rewrite IH1, zlen_py_range1. f_equal. lia.
      * intros j' Hj. inversion Hj as [|? i' ? j'' Hi' Hj'']; subst. simpl.
        rewrite (IH2 j'' Hj''). f_equal.
        rewrite !nth_py_range1 by lia. lia.
Qed.

(* ---------- the bounded output index of a cropped lane ---------- *)

Lemma zsub_in_box : forall sh red sub o,
  length red = length sh -> length sub = length sh ->
  in_box (out_shape sh red) o ->
  inside (out_pairs sub red) o = true ->
  in_box (out_shape (csh_of sub) red) (zsub_starts o (out_pairs sub red)).
Proof.
  induction sh as [|n sh IH]; intros red sub o Hl Hls Ho Hin.
  - destruct sub; [|discriminate]. destruct red; [|discriminate]. simpl in *. inversion Ho. constructor.
  - destruct sub as [|[s e] sub]; [discriminate|]. destruct red as [|r red]; [discriminate|].
    simpl in Hl, Hls. injection Hl as Hl. injection Hls as Hls.
    destruct r; simpl in *.
    + apply IH; assumption.
    + inversion Ho as [|? j ? o' Hj Ho']; subst. simpl in Hin.
      apply andb_true_iff in Hin. destruct Hin as [Hin1 Hin].
      constructor; [lia|]. apply IH; assumption.
Qed.

Lemma Forall2_impl' : forall (A B : Type) (P Q : A -> B -> Prop) l1 l2,
  (forall a b, P a b -> Q a b) -> Forall2 P l1 l2 -> Forall2 Q l1 l2.
Proof. intros A B P Q l1 l2 H F. induction F; constructor; auto. Qed.

Lemma Forall2_length' : forall (A B : Type) (P : A -> B -> Prop) l1 l2, Forall2 P l1 l2 -> length l1 = length l2.
Proof. intros A B P l1 l2 F. induction F; simpl; [reflexivity|]. rewrite IHF. reflexivity. Qed.

(* ---------- the optimised computation equals the textbook one ---------- *)
Section StatCorrect.
  Variables A res : Type.
  Variable R : list A -> res.
  Variable nan : res.
  Hypothesis R_nil : R [] = nan.

  Lemma stat_view_mask_correct : forall shape (a : idx -> A) (filt : A -> bool) (m : idx -> bool) view red,
    Forall (fun n => 0 <= n) shape ->
    length red = length shape ->
    fst (stat_view A res R nan shape a filt (Some m) view red) = fst (textbook A res R shape a filt m view red) /\
    forall o, in_box (fst (textbook A res R shape a filt m view red)) o ->
              snd (stat_view A res R nan shape a filt (Some m) view red) o = snd (textbook A res R shape a filt m view red) o.
  Proof.
    intros shape a filt m view red Hsh Hl. unfold stat_view, textbook.
    set (pos := view_pos shape view). set (vsh := vshape pos).
    set (data := fun j => a (to_under pos j)). set (mv := fun j => m (to_under pos j)).
    set (keep := fun j => m (to_under pos j) && filt (a (to_under pos j))).
    assert (Hlv : length red = length vsh).
    { unfold vsh, vshape, pos. rewrite map_length, view_pos_length. exact Hl. }
    assert (Hkeep : forall c, keep c = true -> mv c = true).
    { intros c Hc. unfold keep in Hc. apply andb_true_iff in Hc. destruct Hc as [Hc _]. exact Hc. }
    destruct (filter mv (box vsh)) as [|c0 rest] eqn:Et.
    - simpl. split; [reflexivity|]. intros o Ho. unfold reduce.
      rewrite (filter_none _ keep); [symmetry; exact R_nil|].
      intros c Hc. destruct (keep c) eqn:Ek; [|reflexivity]. exfalso.
      assert (Hb : in_box vsh c) by (apply (lane0_in_box vsh red o c Hlv Ho Hc)).
      assert (Hin : In c (filter mv (box vsh))).
      { apply filter_In. split; [apply In_box_iff; exact Hb|apply Hkeep; exact Ek]. }
      rewrite Et in Hin. destruct Hin.
    - rewrite <- Et. set (trues := filter mv (box vsh)).
      assert (Hne : trues <> []) by (unfold trues; rewrite Et; discriminate).
      assert (Hall : forall c, In c trues -> in_box vsh c).
      { intros c Hc. unfold trues in Hc. apply filter_In in Hc. apply In_box_iff. apply Hc. }
      set (sub := bbox (length vsh) trues).
      pose proof (bbox_within vsh trues Hne Hall) as Hw. fold sub in Hw.
      assert (Hls : length sub = length vsh) by (unfold sub; apply bbox_length).
      assert (HK : forall c, in_box vsh c -> keep c = true -> in_pairs sub c).
      { intros c Hb Hk. unfold sub. apply bbox_contains.
        - unfold trues. apply filter_In. split; [apply In_box_iff; exact Hb|apply Hkeep; exact Hk].
        - apply in_box_length. exact Hb. }
      destruct (new_view shape view sub) as [nv|] eqn:Env.
      + simpl. split; [reflexivity|]. intros o Ho.
        destruct (view_crop shape view sub nv Hsh Hw Env) as [Hc1 Hc2].
        unfold pad. destruct (inside (out_pairs sub red) o) eqn:Ein.
        * unfold reduce. f_equal. fold pos. rewrite Hc1.
          fold keep.
          rewrite (lane_crop vsh red sub o keep Hlv).
          -- rewrite map_map.
             set (o' := zsub_starts o (out_pairs sub red)).
             assert (Ho' : in_box (out_shape (csh_of sub) red) o').
             { apply zsub_in_box with (sh := vsh); assumption. }
             assert (Hlc : length red = length (csh_of sub)).
             { unfold csh_of. rewrite map_length, Hls. exact Hlv. }
             transitivity (map (fun j => a (to_under pos (zadd j (map fst sub))))
                               (filter (fun j => mv (zadd j (map fst sub)) && filt (a (to_under (view_pos shape nv) j)))
                                       (lane0 (csh_of sub) red o'))).
             ++ apply map_ext_in'. intros c' Hc'. apply filter_In in Hc'. destruct Hc' as [Hc' _].
                rewrite Hc2; [reflexivity|]. apply (lane0_in_box _ red o' c' Hlc Ho' Hc').
             ++ f_equal. apply filter_ext_in'. intros c' Hc'.
                unfold keep, mv. rewrite Hc2; [reflexivity|]. apply (lane0_in_box _ red o' c' Hlc Ho' Hc').
          -- eapply Forall2_impl'; [|exact Hw]. intros p n H. simpl in H. lia.
          -- exact Ho.
          -- exact HK.
          -- exact Ein.
        * unfold reduce. fold keep.
          rewrite (lane_outside vsh red sub o keep Hlv Hls Ho HK Ein). symmetry. exact R_nil.
      + simpl. split; [reflexivity|]. intros o _. reflexivity.
  Qed.
End StatCorrect.
