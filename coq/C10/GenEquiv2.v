(* C10 -- translated skeleton vs hand model, part 2: the loop that recombines the user's view with subarray_slices
   ("for idim in range(self.ndim): ...", with mask_idim running apart from idim at integer entries and the bail-out
   `break` on a step other than 1) is [new_view_e]; and the comprehensions "[x[i] for i in range(n) if i not in axis]"
   are [out_shape] / [out_pairs]. *)
From Coq Require Import ZArith List Bool Lia ZifyBool.
Import ListNotations.
From GV Require Import Common.PyInt gen.Gen_array C10.Model C10.Lemmas1 C10.Lemmas2 C10.Lemmas3 C10.Lemmas6 C10.GenEquiv1.
Open Scope Z_scope.

Lemma znth_nat : forall l k, znth l (Z.of_nat k) = nth k l 0.
Proof. intros l k. unfold znth. destruct (Z.of_nat k <? 0) eqn:E; [lia|]. rewrite Nat2Z.id. reflexivity. Qed.

Lemma skipn_cons_nth : forall (X : Type) k (l : list X) x r d, skipn k l = x :: r -> nth k l d = x /\ skipn (S k) l = r.
Proof.
  intros X k. induction k as [|k IH]; intros l x r d H.
  - destruct l; simpl in H; [discriminate|]. injection H as -> ->. split; reflexivity.
  - destruct l as [|y l]; simpl in H; [discriminate|]. apply (IH l x r d) in H. exact H.
Qed.

Lemma skipn_nil_length : forall (X : Type) k (l : list X), skipn k l = [] -> (length l <= k)%nat.
Proof.
  intros X k. induction k as [|k IH]; intros l H.
  - destruct l; simpl in *; [lia|discriminate].
  - destruct l as [|y l]; simpl in *; [lia|]. apply IH in H. lia.
Qed.

Lemma skipn_nil_S : forall (X : Type) k (l : list X), skipn k l = [] -> skipn (S k) l = [].
Proof. intros X k l H. apply skipn_all2. apply skipn_nil_length in H. lia. Qed.

Definition bounds_ok (sub : list (Z * Z)) (lens : list Z) : Prop :=
  Forall2 (fun p len => 0 <= fst p /\ fst p < snd p /\ snd p <= len) sub lens.

Lemma bounds_ok_cons_inv : forall sub' len lens, bounds_ok sub' (len :: lens) ->
  exists ss se sub'', sub' = (ss, se) :: sub'' /\ 0 <= ss /\ ss < se /\ se <= len /\ bounds_ok sub'' lens.
Proof.
  intros sub' len lens H. inversion H as [|[ss se] ? sub'' ? Hp Hb']; subst. simpl in Hp.
  exists ss, se, sub''. repeat split; try lia. exact Hb'.
Qed.

Lemma bounds_ok_nil_inv : forall sub', bounds_ok sub' [] -> sub' = [].
Proof. intros sub' H. inversion H. reflexivity. Qed.

Lemma fold_left_cons : forall (X Y : Type) (f : X -> Y -> X) y ys x, fold_left f (y :: ys) x = fold_left f ys (f x y).
Proof. reflexivity. Qed.

Section Loop2.
  Variable shape : list Z.
  Variable l : list ventry.             (* the entries of the user's view *)
  Variable sub : list (Z * Z).          (* subarray_slices *)
  Variable vsh : list Z.                (* mask.shape *)
  Variable mv : idx -> bool.

  Local Notation STEP := (g_loop2 shape (PVTuple l) (map slice_of_pair sub) (vsh, mv)).

  Lemma loop2_brk : forall xs acc mi use, fold_left STEP xs (acc, mi, use, true) = (acc, mi, use, true).
  Proof. induction xs as [|x xs IH]; intros; [reflexivity|]. simpl fold_left. apply IH. Qed.

  Lemma loop2_short : forall k acc mi use, (length l <= k)%nat ->
    STEP (acc, mi, use, false) (Z.of_nat k) = (acc ++ [VSlice (snth (map slice_of_pair sub) mi)], mi + 1, use, false).
  Proof.
    intros k acc mi use H. unfold g_loop2, compute_statistic_loop2. cbv beta iota zeta.
    unfold view_len, view_entries, zlen. destruct (Z.of_nat k >=? Z.of_nat (length l)) eqn:E; [reflexivity|lia].
  Qed.

  Lemma loop2_int : forall k acc mi use i, (k < length l)%nat -> nth k l (VInt 0) = VInt i ->
    STEP (acc, mi, use, false) (Z.of_nat k) = (acc ++ [VInt i], mi, use, false).
  Proof.
    intros k acc mi use i H Hn. unfold g_loop2, compute_statistic_loop2. cbv beta iota zeta.
    unfold view_len, vnth, view_entries, zlen. rewrite Nat2Z.id, Hn.
    destruct (Z.of_nat k >=? Z.of_nat (length l)) eqn:E; [lia|]. reflexivity.
  Qed.

  Lemma step_test : forall v,
    negb (is_none (ventry_step (VSlice v))) && negb (oz_eqb (ventry_step (VSlice v)) 1) = step_not_one v.
  Proof. intros v. unfold ventry_step, step_not_one, oz_eqb, is_none. destruct (sl_step v); reflexivity. Qed.

  Lemma loop2_bail : forall k acc mi use v, (k < length l)%nat -> nth k l (VInt 0) = VSlice v -> step_not_one v = true ->
    STEP (acc, mi, use, false) (Z.of_nat k) = (l, mi, false, true).
  Proof.
    intros k acc mi use v H Hn Hs. unfold g_loop2, compute_statistic_loop2. cbv beta iota zeta.
    unfold view_len, vnth, view_entries, zlen. rewrite Nat2Z.id, Hn.
    destruct (Z.of_nat k >=? Z.of_nat (length l)) eqn:E; [lia|]. cbn [ventry_is_slice]. rewrite step_test, Hs. reflexivity.
  Qed.

  Lemma loop2_slice : forall k acc mi use v vb ve vs sb se,
    (k < length l)%nat -> nth k l (VInt 0) = VSlice v -> step_not_one v = false ->
    slice_indices v (znth shape (Z.of_nat k)) = Some (vb, ve, vs) ->
    slice_indices (snth (map slice_of_pair sub) mi) (znth vsh mi) = Some (sb, se, 1) ->
    STEP (acc, mi, use, false) (Z.of_nat k) =
    (acc ++ [VSlice (Slice (Some (vb + sb)) (Some (vb + se)) None)], mi + 1, use, false).
  Proof.
    intros k acc mi use v vb ve vs sb se H Hn Hs Hv Hsub. unfold g_loop2, compute_statistic_loop2. cbv beta iota zeta.
    unfold view_len, vnth, view_entries, zlen. rewrite Nat2Z.id, Hn.
    destruct (Z.of_nat k >=? Z.of_nat (length l)) eqn:E; [lia|]. cbn [ventry_is_slice]. rewrite step_test, Hs.
    unfold ventry_indices, indices_t. cbn [fst]. rewrite Hv, Hsub. reflexivity.
  Qed.

  Lemma snth_sub : forall mi p r, skipn mi sub = p :: r -> snth (map slice_of_pair sub) (Z.of_nat mi) = slice_of_pair p.
  Proof.
    intros mi p r H. unfold snth. rewrite Nat2Z.id.
    rewrite nth_indep with (d' := slice_of_pair (0, 0)).
    - rewrite map_nth. f_equal. apply (skipn_cons_nth _ mi sub p r (0, 0)). exact H.
    - rewrite map_length. destruct (Nat.lt_ge_cases mi (length sub)) as [Hlt|Hge]; [exact Hlt|].
      rewrite skipn_all2 in H by exact Hge. discriminate.
  Qed.

  (* the loop from position k on, against new_view_e on the remaining dimensions *)
  Lemma loop2_new_view_e : forall shape' k l' sub' mi acc,
    skipn k shape = shape' -> skipn k l = l' -> skipn mi sub = sub' ->
    skipn mi vsh = sel_shape (view_sel shape' l') ->
    Forall (fun n => 0 <= n) shape' ->
    bounds_ok sub' (sel_shape (view_sel shape' l')) ->
    match new_view_e shape' l' sub' with
    | Some r =>
      fold_left STEP (py_range (Z.of_nat k) (Z.of_nat (k + length shape')) 1) (acc, Z.of_nat mi, true, false)
      = (acc ++ r, Z.of_nat (mi + length sub'), true, false)
    | None =>
      exists mi', fold_left STEP (py_range (Z.of_nat k) (Z.of_nat (k + length shape')) 1) (acc, Z.of_nat mi, true, false)
                  = (l, mi', false, true)
    end.
  Proof.
    induction shape' as [|n sh IH]; intros k l' sub' mi acc Hshape Hl Hsub Hvsh Hpos Hb.
    - simpl in Hb. apply bounds_ok_nil_inv in Hb. rewrite Hb. simpl. rewrite py_range1_nil by lia. simpl.
      rewrite app_nil_r. f_equal. f_equal. f_equal. lia.
    - pose proof (Forall_inv Hpos) as Hn. pose proof (Forall_inv_tail Hpos) as Hpos'. simpl in Hn. subst l' sub'.
      destruct (skipn_cons_nth _ k shape n sh 0 Hshape) as [Hnk Hshape'].
      rewrite py_range1_cons by (simpl; lia).
      replace (Z.of_nat k + 1) with (Z.of_nat (S k)) by lia.
      replace (Z.of_nat (k + length (n :: sh))) with (Z.of_nat (S k + length sh)) by (simpl; lia).
      rewrite fold_left_cons.
      destruct (skipn k l) as [|[i|v] l''] eqn:El.
      + (* the view is shorter than the data *)
        simpl in Hb, Hvsh. destruct (bounds_ok_cons_inv _ _ _ Hb) as (ss & se & sub'' & Hsk & Hp1 & Hp2 & Hp3 & Hb').
        rewrite Hsk.
        destruct (skipn_cons_nth _ mi sub (ss, se) sub'' (0, 0) Hsk) as [_ Hsk'].
        rewrite loop2_short by (apply skipn_nil_length; exact El).
        rewrite (snth_sub mi (ss, se) sub'' Hsk).
        replace (Z.of_nat mi + 1) with (Z.of_nat (S mi)) by lia.
        assert (Hv' : skipn (S mi) vsh = sel_shape (view_sel sh [])).
        { destruct (skipn_cons_nth _ mi vsh _ _ 0 Hvsh) as [_ H]. exact H. }
        specialize (IH (S k) [] sub'' (S mi) (acc ++ [VSlice (slice_of_pair (ss, se))]) Hshape' (skipn_nil_S _ k l El) Hsk' Hv' Hpos' Hb').
        simpl new_view_e. destruct (new_view_e sh [] sub'') as [r|].
        * rewrite IH, <- app_assoc. simpl. f_equal. f_equal. f_equal. lia.
        * exact IH.
      + (* an integer entry: passed through, mask_idim stays *)
        destruct (skipn_cons_nth _ k l (VInt i) l'' (VInt 0) El) as [Hnth El'].
        assert (Hlen : (k < length l)%nat).
        { destruct (Nat.lt_ge_cases k (length l)) as [H|H]; [exact H|]. rewrite skipn_all2 in El by exact H. discriminate. }
        rewrite (loop2_int k acc (Z.of_nat mi) true i Hlen Hnth).
        simpl in Hb, Hvsh.
        specialize (IH (S k) l'' (skipn mi sub) mi (acc ++ [VInt i]) Hshape' El' eq_refl Hvsh Hpos' Hb).
        simpl new_view_e. destruct (new_view_e sh l'' (skipn mi sub)) as [r|].
        * rewrite IH, <- app_assoc. reflexivity.
        * exact IH.
      + (* a slice *)
        destruct (skipn_cons_nth _ k l (VSlice v) l'' (VInt 0) El) as [Hnth El'].
        assert (Hlen : (k < length l)%nat).
        { destruct (Nat.lt_ge_cases k (length l)) as [H|H]; [exact H|]. rewrite skipn_all2 in El by exact H. discriminate. }
        simpl in Hb, Hvsh. destruct (bounds_ok_cons_inv _ _ _ Hb) as (ss & se & sub'' & Hsk & Hp1 & Hp2 & Hp3 & Hb').
        rewrite Hsk.
        rewrite new_view_e_cons_slice.
        destruct (step_not_one v) eqn:Es.
        * rewrite (loop2_bail k acc (Z.of_nat mi) true v Hlen Hnth Es). rewrite loop2_brk. eexists. reflexivity.
        * destruct (slice_indices_step1 v n Hn Es) as [vb [ve [Hsi [Hvb Hve]]]].
          rewrite Hsi.
          destruct (skipn_cons_nth _ mi sub (ss, se) sub'' (0, 0) Hsk) as [_ Hsk'].
          destruct (skipn_cons_nth _ mi vsh _ _ 0 Hvsh) as [Hvn Hv'].
          assert (Hsub1 : slice_indices (snth (map slice_of_pair sub) (Z.of_nat mi)) (znth vsh (Z.of_nat mi)) = Some (ss, se, 1)).
          { rewrite (snth_sub mi (ss, se) sub'' Hsk), znth_nat, Hvn. unfold slice_of_pair. cbn [fst snd].
            apply slice_indices_new; lia. }
          rewrite (loop2_slice k acc (Z.of_nat mi) true v vb ve 1 ss se Hlen Hnth Es); [|rewrite znth_nat, Hnk; exact Hsi|exact Hsub1].
          replace (Z.of_nat mi + 1) with (Z.of_nat (S mi)) by lia.
          specialize (IH (S k) l'' sub'' (S mi) (acc ++ [VSlice (Slice (Some (vb + ss)) (Some (vb + se)) None)])
                         Hshape' El' Hsk' Hv' Hpos' Hb').
          destruct (new_view_e sh l'' sub'') as [r|].
          -- rewrite IH, <- app_assoc. simpl. f_equal. f_equal. f_equal. lia.
          -- exact IH.
  Qed.
End Loop2.

(* view = None: new_view_e on the empty view is subarray_slices itself *)
Lemma new_view_e_nil : forall shape sub, length sub = length shape ->
  new_view_e shape [] sub = Some (map VSlice (map slice_of_pair sub)).
Proof.
  induction shape as [|n shape IH]; intros sub H; destruct sub as [|[s e] sub]; simpl in H; try lia; [reflexivity|].
  simpl. rewrite IH by lia. reflexivity.
Qed.

(* ---------- "[x[i] for i in range(len(x)) if i not in axis]" ---------- *)

Lemma out_shape_app : forall sh red x r, length red = length sh ->
  out_shape (sh ++ [x]) (red ++ [r]) = out_shape sh red ++ (if r then [] else [x]).
Proof.
  induction sh as [|n sh IH]; intros red x r H; destruct red as [|b red]; simpl in H; try lia.
  - simpl. destruct r; reflexivity.
  - simpl. rewrite IH by lia. destruct b; reflexivity.
Qed.

Lemma out_pairs_app : forall sh red x r, length red = length sh ->
  out_pairs (sh ++ [x]) (red ++ [r]) = out_pairs sh red ++ (if r then [] else [x]).
Proof.
  induction sh as [|n sh IH]; intros red x r H; destruct red as [|b red]; simpl in H; try lia.
  - simpl. destruct r; reflexivity.
  - simpl. rewrite IH by lia. destruct b; reflexivity.
Qed.

Lemma range0_S : forall n, range0 (Z.of_nat (S n)) = range0 (Z.of_nat n) ++ [Z.of_nat n].
Proof.
  intros n. unfold range0. rewrite (py_range1_app 0 (Z.of_nat n) (Z.of_nat (S n))) by lia. f_equal.
  rewrite py_range1_cons by lia. rewrite py_range1_nil by lia. reflexivity.
Qed.

Lemma map_filter_range_ext : forall (X : Type) (f g : Z -> X) (p : Z -> bool) n,
  (forall i, 0 <= i < n -> f i = g i) -> map f (filter p (range0 n)) = map g (filter p (range0 n)).
Proof.
  intros X f g p n H. apply map_ext_in. intros i Hi. apply filter_In in Hi. destruct Hi as [Hi _].
  apply In_range0 in Hi. apply H. exact Hi.
Qed.

Lemma out_shape_filter : forall (p : Z -> bool) sh,
  out_shape sh (map p (range0 (zlen sh))) = map (fun i => znth sh i) (filter (fun i => negb (p i)) (range0 (zlen sh))).
Proof.
  intros p sh. induction sh as [|x sh IH] using rev_ind; [reflexivity|].
  unfold zlen in *. rewrite app_length. simpl length. rewrite Nat.add_1_r. rewrite range0_S, map_app. simpl map.
  rewrite out_shape_app; [|rewrite map_length; unfold range0; rewrite py_range1_length; lia].
  rewrite IH, filter_app, map_app. f_equal.
  - apply map_filter_range_ext. intros i Hi. rewrite <- (Z2Nat.id i) by lia. rewrite !znth_nat. rewrite app_nth1 by lia. reflexivity.
  - simpl. destruct (p (Z.of_nat (length sh))); simpl; [reflexivity|]. rewrite znth_nat, nth_middle. reflexivity.
Qed.

Lemma out_pairs_filter : forall (p : Z -> bool) (sub : list (Z * Z)),
  out_pairs sub (map p (range0 (zlen sub))) =
  map (fun i => nth (Z.to_nat i) sub (0, 0)) (filter (fun i => negb (p i)) (range0 (zlen sub))).
Proof.
  intros p sh. induction sh as [|x sh IH] using rev_ind; [reflexivity|].
  unfold zlen in *. rewrite app_length. simpl length. rewrite Nat.add_1_r. rewrite range0_S, map_app. simpl map.
  rewrite out_pairs_app; [|rewrite map_length; unfold range0; rewrite py_range1_length; lia].
  rewrite IH, filter_app, map_app. f_equal.
  - apply map_filter_range_ext. intros i Hi. rewrite app_nth1 by lia. reflexivity.
  - simpl. destruct (p (Z.of_nat (length sh))); simpl; [reflexivity|]. rewrite Nat2Z.id, nth_middle. reflexivity.
Qed.

Lemma out_shape_all_true : forall sh red, (forall b, In b red -> b = true) -> length red = length sh -> out_shape sh red = [].
Proof.
  induction sh as [|n sh IH]; intros red H Hl; destruct red as [|b red]; simpl in Hl; try lia; [reflexivity|].
  simpl. rewrite (H b (or_introl eq_refl)). apply IH; [intros b' Hb'; apply H; right; exact Hb'|lia].
Qed.

Lemma out_shape_length_eq : forall sh sh' red, length sh = length sh' -> length (out_shape sh red) = length (out_shape sh' red).
Proof.
  induction sh as [|n sh IH]; intros sh' red H; destruct sh' as [|n' sh']; simpl in H; try lia; try reflexivity.
  destruct red as [|b red]; [reflexivity|]. simpl. destruct b; simpl; [apply IH; lia|f_equal; apply IH; lia].
Qed.

Lemma out_pairs_length_eq : forall (sub : list (Z * Z)) (sh : list Z) red, length sub = length sh ->
  length (out_pairs sub red) = length (out_shape sh red).
Proof.
  induction sub as [|p sub IH]; intros sh red H; destruct sh as [|n sh]; simpl in H; try lia; try reflexivity.
  destruct red as [|b red]; [reflexivity|]. simpl. destruct b; simpl; [apply IH; lia|f_equal; apply IH; lia].
Qed.
