(* C10 -- the translated Data.compute_histogram (coq/gen/Gen_stat.v), 1-d call, agrees with the hand model histogram1. *)
From Coq Require Import ZArith List Bool Lia QArith Qround.
Import ListNotations.
From GV Require Import Common.PyInt gen.Gen_array C10.Model C10.Lemmas1.
Open Scope Z_scope.

Definition pt : Type := (option Q * option Q * bool * Q)%type.
Definition fx (p : pt) : hval := let '(x, lx, _, _) := p in (x, lx).
Definition fw (p : pt) : hval := let '(_, _, _, w) := p in (Some w, None).
Definition fs (p : pt) : bool := let '(_, _, s, _) := p in s.

(* the 1-d call, as run_case tag 7 makes it (weights and a selection given, log = [lg]) *)
Definition gen_hist1 (lg : bool) (lo hi llo lhi : Q) (n : Z) (pts : list pt) : result hist_out :=
  gen_compute_histogram [map fx pts; []; map fw pts] [0] true [(mk_num lo llo, mk_num hi lhi)] [n] (Some [lg]) (Some (map fs pts)).

Definition b_and (a b : list bool) : list bool := map (fun '(u, v) => andb u v) (combine a b).
Definition h_isnan (a : list hval) : list bool := map (fun v => match fst v with Some _ => false | None => true end) a.
Definition h_zero : hnum := (Some (inject_Z 0), None).

(* the end of the function: zero-width range, widening of the upper end, the kernel *)
Definition h1_fin (xmin xmax : hnum) (x : list hval) (w : option (list hval)) (n : Z) : result hist_out :=
  let xmax := if h_numb Qeq_bool xmax xmin then h_num2 Qplus xmin (Some (inject_Z 1), None) else xmax in
  let xmax := h_num2 Qplus xmax (h_num2 Qmult (Some (inject_Z 10), None) (Some 0%Q, None)) in
  Ok (h_hist1d x (xmin, xmax) n w).

(* the translated function specialised to this call: every step in the order of the source *)
Definition h1_spec (lg : bool) (lo hi llo lhi : Q) (n : Z) (pts : list pt) : result hist_out :=
  let x0 := h_index (map fx pts) (map fs pts) in
  let w0 := h_index (map fw pts) (map fs pts) in
  let '(xmin, xmax) := py_sorted2 hnum (h_numb qlt_b) (mk_num lo llo) (mk_num hi lhi) in
  let keep := b_and (b_and (h_cmp (fun q b => qle_b b q) x0 xmin) (h_cmp (fun q b => qle_b q b) x0 xmax)) (map negb (h_isnan x0)) in
  let x := h_index x0 keep in
  let w := h_index w0 keep in
  if zlen x =? 0 then Ok HZeros
  else if lg then
         if h_numb qlt_b xmin h_zero || h_numb qlt_b xmax h_zero then Ok HZeros
         else h1_fin (snd xmin, snd xmin) (snd xmax, snd xmax) (map (fun v => (snd v, snd v)) x) (Some w) n
       else h1_fin xmin xmax x (Some w) n.

Lemma gen_hist1_spec : forall lg lo hi llo lhi n pts, gen_hist1 lg lo hi llo lhi n pts = h1_spec lg lo hi llo lhi n pts.
Proof.
  intros. unfold gen_hist1, gen_compute_histogram, compute_histogram, h1_spec, h1_fin.
  cbn [zlen length Z.of_nat Pos.of_succ_nat Pos.succ Z.gtb Z.eqb Z.geb Z.compare Pos.compare Pos.compare_cont
       cnth rnth bnth nth Z.to_nat Pos.to_nat Pos.iter_op Nat.add Pos.eqb is_none negb andb unopt oget_cid oget_arr oz_truthy oz_get znth Z.ltb].
  fold (b_and) (h_isnan). fold h_zero.
  destruct (py_sorted2 hnum (h_numb qlt_b) (mk_num lo llo) (mk_num hi lhi)) as [xmin xmax] eqn:E.
  cbn [is_none negb oget_arr].

  destruct lg; reflexivity.
Qed.

(* ---------- list facts: boolean-mask indexing of arrays that are maps over one list of points ---------- *)
Lemma h_index_map : forall (X : Type) (f : X -> hval) (g : X -> bool) (l : list X),
  h_index (map f l) (map g l) = map f (filter g l).
Proof.
  intros X f g l. unfold h_index. induction l as [|x l IH]; [reflexivity|]. simpl.
  destruct (g x); simpl; [f_equal|]; exact IH.
Qed.

Lemma b_and_map : forall (X : Type) (g h : X -> bool) (l : list X),
  b_and (map g l) (map h l) = map (fun x => g x && h x) l.
Proof. intros X g h l. unfold b_and. induction l as [|x l IH]; [reflexivity|]. simpl. rewrite IH. reflexivity. Qed.

Lemma h_cmp_map : forall (X : Type) (f : X -> hval) (c : Q -> Q -> bool) (l : list X) n,
  h_cmp c (map f l) n = map (fun p => match fst (f p), fst n with Some q, Some b => c q b | _, _ => false end) l.
Proof. intros. unfold h_cmp. rewrite map_map. reflexivity. Qed.

Lemma filter_filter : forall (X : Type) (g h : X -> bool) (l : list X), filter h (filter g l) = filter (fun x => g x && h x) l.
Proof. intros X g h l. induction l as [|x l IH]; [reflexivity|]. simpl. destruct (g x); simpl; [destruct (h x); simpl; [f_equal|]|]; exact IH. Qed.

Lemma combine_map2 : forall (X Y Z' : Type) (f : X -> Y) (g : X -> Z') (l : list X),
  combine (map f l) (map g l) = map (fun x => (f x, g x)) l.
Proof. intros. induction l as [|x l IH]; [reflexivity|]. simpl. rewrite IH. reflexivity. Qed.

(* ---------- Q: the binning functions respect equality of the range ends ---------- *)
Open Scope Q_scope.

Lemma Qle_bool_compat : forall a a' b b', a == a' -> b == b' -> Qle_bool a b = Qle_bool a' b'.
Proof.
  intros a a' b b' Ha Hb. destruct (Qle_bool a b) eqn:E1; destruct (Qle_bool a' b') eqn:E2; try reflexivity.
  - apply Qle_bool_iff in E1. rewrite Ha, Hb in E1. apply Qle_bool_iff in E1. congruence.
  - apply Qle_bool_iff in E2. rewrite <- Ha, <- Hb in E2. apply Qle_bool_iff in E2. congruence.
Qed.

Lemma Qeq_bool_compat : forall a a' b b', a == a' -> b == b' -> Qeq_bool a b = Qeq_bool a' b'.
Proof.
  intros a a' b b' Ha Hb. destruct (Qeq_bool a b) eqn:E1; destruct (Qeq_bool a' b') eqn:E2; try reflexivity.
  - apply Qeq_bool_iff in E1. rewrite Ha, Hb in E1. apply Qeq_bool_iff in E1. congruence.
  - apply Qeq_bool_iff in E2. rewrite <- Ha, <- Hb in E2. apply Qeq_bool_iff in E2. congruence.
Qed.

Lemma bin_index_compat : forall lo lo' hi hi' n x, lo == lo' -> hi == hi' -> bin_index lo hi n x = bin_index lo' hi' n x.
Proof.
  intros lo lo' hi hi' n x Hlo Hhi. unfold bin_index, qlt_b.
  rewrite (Qle_bool_compat lo lo' x x Hlo (Qeq_refl x)), (Qle_bool_compat x x hi hi' (Qeq_refl x) Hhi), (Qeq_bool_compat lo lo' hi hi' Hlo Hhi).
  assert (Hf : Qfloor ((x - lo) * inject_Z n / (hi - lo)) = Qfloor ((x - lo') * inject_Z n / (hi' - lo'))).
  { apply Qfloor_comp. rewrite Hlo, Hhi. reflexivity. }
  rewrite Hf. reflexivity.
Qed.

Lemma on_edge_compat : forall lo lo' hi hi' n x, lo == lo' -> hi == hi' -> on_edge lo hi n x = on_edge lo' hi' n x.
Proof.
  intros lo lo' hi hi' n x Hlo Hhi. unfold on_edge, qlt_b.
  rewrite (Qle_bool_compat lo lo' x x Hlo (Qeq_refl x)), (Qle_bool_compat x x hi hi' (Qeq_refl x) Hhi), (Qeq_bool_compat lo lo' hi hi' Hlo Hhi).
  assert (Ht : (x - lo) * inject_Z n / (hi - lo) == (x - lo') * inject_Z n / (hi' - lo')) by (rewrite Hlo, Hhi; reflexivity).
  rewrite (Qfloor_comp _ _ Ht). rewrite (Qeq_bool_compat _ _ _ _ Ht (Qeq_refl _)). reflexivity.
Qed.

Lemma sort_range_compat : forall lo hi hi', hi == hi' ->
  fst (sort_range lo hi) == fst (sort_range lo hi') /\ snd (sort_range lo hi) == snd (sort_range lo hi').
Proof.
  intros lo hi hi' H. unfold sort_range, qlt_b. rewrite (Qle_bool_compat lo lo hi hi' (Qeq_refl lo) H).
  destruct (negb (Qle_bool lo hi')); simpl; split; (reflexivity || exact H).
Qed.

Lemma hist1_compat : forall lo hi hi' n p, hi == hi' -> hist1 lo hi n p = hist1 lo hi' n p.
Proof.
  intros lo hi hi' n p H. unfold hist1.
  destruct (sort_range_compat lo hi hi' H) as [H1 H2].
  destruct (sort_range lo hi) as [a b]. destruct (sort_range lo hi') as [a' b']. simpl in H1, H2.
  apply map_ext. intros k. f_equal. apply map_ext. intros [[x sel] w]. destruct x as [x|]; [|reflexivity].
  rewrite (bin_index_compat a a' b b' n x H1 H2). reflexivity.
Qed.

Lemma edge1_compat : forall lo hi hi' n p, hi == hi' -> edge1 lo hi n p = edge1 lo hi' n p.
Proof.
  intros lo hi hi' n p H. unfold edge1.
  destruct (sort_range_compat lo hi hi' H) as [H1 H2].
  destruct (sort_range lo hi) as [a b]. destruct (sort_range lo hi') as [a' b']. simpl in H1, H2.
  apply map_ext. intros k. f_equal. apply map_ext. intros [[x sel] w]. destruct x as [x|]; [|reflexivity].
  rewrite (on_edge_compat a a' b b' n x H1 H2). reflexivity.
Qed.

Lemma edge1_reversed : forall lo hi n pts, ~ lo == hi -> edge1 hi lo n pts = edge1 lo hi n pts.
Proof. intros. unfold edge1. rewrite sort_range_swap by assumption. reflexivity. Qed.
Close Scope Q_scope.

(* the points the hand model keeps *)
Definition keepm (slo shi : Q) (p : pt) : bool :=
  let '(x, _, sel, _) := p in match x with Some x => sel && qle_b slo x && qle_b x shi | None => false end.

Lemma keep_pred : forall (slo shi : Q) (a b : option Q) (p : pt),
  fs p && ((match fst (fx p), fst ((Some slo, a) : hnum) with Some q, Some b0 => qle_b b0 q | _, _ => false end
            && match fst (fx p), fst ((Some shi, b) : hnum) with Some q, Some b0 => qle_b q b0 | _, _ => false end)
           && negb (match fst (fx p) with Some _ => false | None => true end)) = keepm slo shi p.
Proof.
  intros slo shi a b [[[x lx] sel] w]. unfold fs, fx, keepm. cbn [fst]. destruct x as [x|].
  - cbn [negb]. rewrite andb_true_r, andb_assoc. reflexivity.
  - cbn. apply andb_false_r.
Qed.

Lemma zlen_map_nil : forall (X Y : Type) (f : X -> Y) (l : list X), (zlen (map f l) =? 0) = match l with [] => true | _ :: _ => false end.
Proof. intros X Y f l. destruct l; [reflexivity|]. unfold zlen. simpl. reflexivity. Qed.

Lemma kept_sel : forall slo shi (pts : list pt) p, In p (filter (keepm slo shi) pts) -> fs p = true /\ exists x, fst (fx p) = Some x.
Proof.
  intros slo shi pts [[[x lx] sel] w] H. apply filter_In in H. destruct H as [_ H]. unfold keepm in H. destruct x as [x|]; [|discriminate].
  apply andb_true_iff in H. destruct H as [H _]. apply andb_true_iff in H. destruct H as [H _]. split; [exact H|exists x; reflexivity].
Qed.

(* the list of (value, selected, weight) the kernel sees: linear / log *)
Lemma pts_lin : forall (kept : list pt), (forall p, In p kept -> fs p = true) ->
  map (fun '(v, wv) => (fst v, true, wv)) (combine (map fx kept) (h_weights (length (map fx kept)) (Some (map fw kept))))
  = map (fun '(x, _, sel, w) => (x, sel, w)) kept.
Proof.
  intros kept H. unfold h_weights. rewrite map_map. rewrite combine_map2, map_map.
  apply map_ext_in. intros [[[x lx] sel] w] Hin. specialize (H _ Hin). unfold fs in H. subst sel. reflexivity.
Qed.

Lemma pts_log : forall (kept : list pt), (forall p, In p kept -> fs p = true) ->
  map (fun '(v, wv) => (fst v, true, wv))
      (combine (map (fun v : hval => (snd v, snd v)) (map fx kept))
               (h_weights (length (map (fun v : hval => (snd v, snd v)) (map fx kept))) (Some (map fw kept))))
  = map (fun '(_, lx, sel, w) => (lx, sel, w)) kept.
Proof.
  intros kept H. unfold h_weights. rewrite !map_map. rewrite combine_map2, map_map.
  apply map_ext_in. intros [[[x lx] sel] w] Hin. specialize (H _ Hin). unfold fs in H. subst sel. reflexivity.
Qed.

Open Scope Q_scope.
Lemma widen_zero : forall b : Q, b + inject_Z 10 * 0 == b.
Proof. intros b. ring. Qed.
Close Scope Q_scope.

Lemma index_keep : forall (f : pt -> hval) (slo shi : Q) (a b : option Q) (pts : list pt),
  h_index (map f (filter fs pts))
          (b_and (b_and (h_cmp (fun q b0 => qle_b b0 q) (map fx (filter fs pts)) (Some slo, a))
                        (h_cmp (fun q b0 => qle_b q b0) (map fx (filter fs pts)) (Some shi, b)))
                 (map negb (h_isnan (map fx (filter fs pts)))))
  = map f (filter (keepm slo shi) pts).
Proof.
  intros f slo shi a b pts. rewrite !h_cmp_map. unfold h_isnan. rewrite !map_map. rewrite !b_and_map.
  rewrite h_index_map, filter_filter. f_equal. apply filter_ext. intros p. apply keep_pred.
Qed.

Lemma histogram1_unfold : forall lg lo hi llo lhi n pts,
  histogram1 lg lo hi llo lhi n pts =
  let '(slo, shi) := sort_range lo hi in
  match filter (keepm slo shi) pts with
  | [] => HZeros
  | _ :: _ =>
    if lg then
      if qlt_b slo 0 || qlt_b shi 0 then HZeros
      else if Qeq_bool slo 0 then HError
      else HBins (hist1 llo lhi n (map (fun '(_, lx, sel, w) => (lx, sel, w)) (filter (keepm slo shi) pts)))
                 (edge1 llo lhi n (map (fun '(_, lx, sel, w) => (lx, sel, w)) (filter (keepm slo shi) pts)))
    else HBins (hist1 lo hi n (map (fun '(x, _, sel, w) => (x, sel, w)) (filter (keepm slo shi) pts)))
               (edge1 lo hi n (map (fun '(x, _, sel, w) => (x, sel, w)) (filter (keepm slo shi) pts)))
  end.
Proof. intros. unfold histogram1. destruct (sort_range lo hi) as [slo shi]. reflexivity. Qed.

Open Scope Q_scope.
(* the end of the function on a non-degenerate range [a', b'] (images or raw values), whatever the order the model is given *)
Lemma h1_fin_bins : forall (a' b' : Q) (ia ib : option Q) (x : list hval) (w : option (list hval)) n (P : list (option Q * bool * Q)),
  ~ a' == b' ->
  map (fun '(v, wv) => (fst v, true, wv)) (combine x (h_weights (length x) w)) = P ->
  h1_fin (Some a', ia) (Some b', ib) x w n = Ok (HBins (hist1 a' b' n P) (edge1 a' b' n P)).
Proof.
  intros a' b' ia ib x w n P Hne HP. unfold h1_fin, h_numb, h_num2, h_hist1d. cbn [fst snd].
  destruct (Qeq_bool b' a') eqn:E; [apply Qeq_bool_iff in E; exfalso; apply Hne; symmetry; exact E|].
  cbn [fst snd]. rewrite HP.
  rewrite (hist1_compat a' (b' + inject_Z 10 * 0) b' n P (widen_zero b')), (edge1_compat a' (b' + inject_Z 10 * 0) b' n P (widen_zero b')).
  reflexivity.
Qed.
Close Scope Q_scope.

Open Scope Q_scope.
(* a range end whose logarithm does not exist makes the kernel refuse the range *)
Lemma h1_fin_error : forall (xmax : hnum) (x : list hval) (w : option (list hval)) n, h1_fin (None, None) xmax x w n = Ok HError.
Proof.
  intros xmax x w n. unfold h1_fin, h_numb, h_num2, h_hist1d. cbn [fst snd].
  destruct (fst xmax); reflexivity.
Qed.

(* both branches below the empty test, for a sorted range slo < shi whose images are a' (of slo) and b' (of shi) *)
Lemma h1_tail : forall (lg : bool) (slo shi a' b' : Q) n (pts : list pt),
  slo < shi -> (lg = true -> ~ a' == b') ->
  (if lg
   then if h_numb qlt_b (Some slo, if Qle_bool slo 0 then None else Some a') h_zero
           || h_numb qlt_b (Some shi, if Qle_bool shi 0 then None else Some b') h_zero
        then Ok HZeros
        else h1_fin (snd (Some slo, if Qle_bool slo 0 then None else Some a'), snd (Some slo, if Qle_bool slo 0 then None else Some a'))
                    (snd (Some shi, if Qle_bool shi 0 then None else Some b'), snd (Some shi, if Qle_bool shi 0 then None else Some b'))
                    (map (fun v : hval => (snd v, snd v)) (map fx (filter (keepm slo shi) pts)))
                    (Some (map fw (filter (keepm slo shi) pts))) n
   else h1_fin (Some slo, if Qle_bool slo 0 then None else Some a') (Some shi, if Qle_bool shi 0 then None else Some b')
               (map fx (filter (keepm slo shi) pts)) (Some (map fw (filter (keepm slo shi) pts))) n)
  = Ok (if lg
        then if qlt_b slo 0 || qlt_b shi 0 then HZeros
             else if Qeq_bool slo 0 then HError
                  else HBins (hist1 a' b' n (map (fun '(_, lx, sel, w) => (lx, sel, w)) (filter (keepm slo shi) pts)))
                             (edge1 a' b' n (map (fun '(_, lx, sel, w) => (lx, sel, w)) (filter (keepm slo shi) pts)))
        else HBins (hist1 slo shi n (map (fun '(x, _, sel, w) => (x, sel, w)) (filter (keepm slo shi) pts)))
                   (edge1 slo shi n (map (fun '(x, _, sel, w) => (x, sel, w)) (filter (keepm slo shi) pts)))).
Proof.
  intros lg slo shi a' b' n pts Hlt Hab.
  assert (Hsel : forall p, In p (filter (keepm slo shi) pts) -> fs p = true) by (intros p Hp; apply (kept_sel slo shi pts p Hp)).
  destruct lg.
  - unfold h_numb at 1 2. unfold h_zero. cbn [fst].
    change (inject_Z 0) with 0.
    destruct (qlt_b slo 0 || qlt_b shi 0) eqn:Eneg; [reflexivity|].
    apply orb_false_iff in Eneg. destruct Eneg as [E1 E2]. apply qlt_b_false_iff in E1. apply qlt_b_false_iff in E2.
    cbn [snd].
    destruct (Qeq_bool slo 0) eqn:E0.
    + apply Qeq_bool_iff in E0.
      assert (Hle : Qle_bool slo 0 = true) by (apply Qle_bool_iff; rewrite E0; apply Qle_refl).
      rewrite Hle. apply h1_fin_error.
    + assert (Hs : 0 < slo).
      { destruct (Qlt_le_dec 0 slo) as [H|H]; [exact H|]. exfalso.
        assert (slo == 0) by (apply Qle_antisym; assumption). apply Qeq_bool_iff in H0. congruence. }
      assert (Hle1 : Qle_bool slo 0 = false).
      { destruct (Qle_bool slo 0) eqn:E; [|reflexivity]. apply Qle_bool_iff in E. exfalso. apply (Qlt_not_le _ _ Hs E). }
      assert (Hle2 : Qle_bool shi 0 = false).
      { destruct (Qle_bool shi 0) eqn:E; [|reflexivity]. apply Qle_bool_iff in E. exfalso.
        apply (Qlt_not_le 0 shi); [apply Qlt_trans with slo; assumption|exact E]. }
      rewrite Hle1, Hle2.
      apply h1_fin_bins; [apply Hab; reflexivity|]. apply pts_log. exact Hsel.
  - apply h1_fin_bins; [intros H; rewrite H in Hlt; apply (Qlt_irrefl _ Hlt)|]. apply pts_lin. exact Hsel.
Qed.
Close Scope Q_scope.

Lemma empty_case : forall (X : Type) (l : list X) (T : result hist_out) (M : hist_out), T = Ok M ->
  (if match l with [] => true | _ :: _ => false end then Ok HZeros else T) = Ok match l with [] => HZeros | _ :: _ => M end.
Proof. intros X l T M H. destruct l; [reflexivity|exact H]. Qed.

Theorem gen_hist1_equiv : forall lg lo hi llo lhi n pts,
  ~ (lo == hi)%Q -> (lg = true -> ~ (llo == lhi)%Q) ->
  gen_hist1 lg lo hi llo lhi n pts = Ok (histogram1 lg lo hi llo lhi n pts).
Proof.
  intros lg lo hi llo lhi n pts Hne Hlne. rewrite gen_hist1_spec. unfold h1_spec.
  rewrite !h_index_map. unfold py_sorted2, h_numb at 1. unfold mk_num at 1 2. cbn [fst].
  rewrite histogram1_unfold. unfold sort_range.
  destruct (qlt_b hi lo) eqn:Erev; unfold mk_num; rewrite !index_keep; rewrite zlen_map_nil.
  - (* reversed range: sorted (hi, lo); the images go with their ends *)
    apply qlt_b_iff in Erev.
    apply empty_case.
    etransitivity; [apply (h1_tail lg hi lo lhi llo n pts Erev); intros H1 H2; apply (Hlne H1); symmetry; exact H2|].
    f_equal. destruct lg.
    + rewrite (hist1_reversed llo lhi) by (apply Hlne; reflexivity).
      rewrite (edge1_reversed llo lhi) by (apply Hlne; reflexivity). reflexivity.
    + rewrite (hist1_reversed lo hi) by exact Hne. rewrite (edge1_reversed lo hi) by exact Hne. reflexivity.
  - apply qlt_b_false_iff in Erev.
    assert (Hlt : (lo < hi)%Q).
    { destruct (Qlt_le_dec lo hi) as [H|H]; [exact H|]. exfalso. apply Hne. apply Qle_antisym; assumption. }
    apply empty_case.
    etransitivity; [apply (h1_tail lg lo hi llo lhi n pts Hlt Hlne)|]. reflexivity.
Qed.
