From Coq Require Import ZArith List Bool QArith Qround.
Import ListNotations.
From GV Require Import Common.PyInt gen.Gen_array C10.Model C10.Lemmas C10.Discharge C10.GenEquiv.
From GV Require C20.Model C20.OdometerProof.
Open Scope Z_scope.

(* Each selected finite value inside the closed range is counted in exactly one bin (the equal-width
   interval that contains it), none outside, so the bins sum to the number (weight) of in-range selected
   values; both ends of the range are counted (x = hi in the last bin); reversed ranges are sorted first. *)
Theorem histogram_partition :
  forall (lo hi : Q) (n : Z) (pts : list (option Q * bool * Q)), (0 < n)%Z ->
    (qsum (hist1 lo hi n pts) == in_range_total lo hi pts)%Q /\
    zlen (hist1 lo hi n pts) = n /\
    (~ (lo == hi)%Q -> hist1 hi lo n pts = hist1 lo hi n pts /\ in_range_total hi lo pts = in_range_total lo hi pts) /\
    ((lo <= hi)%Q -> forall x : Q,
        ((lo <= x <= hi)%Q -> length (filter (opt_eqb (bin_index lo hi n x)) (range0 n)) = 1%nat) /\
        (~ (lo <= x <= hi)%Q -> filter (opt_eqb (bin_index lo hi n x)) (range0 n) = [])) /\
    ((lo < hi)%Q ->
        bin_index lo hi n hi = Some (n - 1) /\ bin_index lo hi n lo = Some 0 /\
        (forall x k, bin_index lo hi n x = Some k ->
                     0 <= k < n /\
                     (lo + inject_Z k * bin_width lo hi n <= x)%Q /\ (x <= lo + (inject_Z k + 1) * bin_width lo hi n)%Q) /\
        (forall x k, on_edge lo hi n x = Some k ->
                     0 < k < n /\ (x == lo + inject_Z k * bin_width lo hi n)%Q /\ bin_index lo hi n x = Some k)).
Proof. exact Lemmas.histogram_partition. Qed.
Print Assumptions histogram_partition.

(* The code-shaped histogram (sorted range, closed-range keep, log early returns, binning of the images
   under any monotone map L): whenever bins are returned they sum to the weight of the selected finite
   values inside the closed range of the raw values. *)
Theorem histogram_code_total :
  forall (L : Q -> Q), (forall a b : Q, (0 < a)%Q -> (a <= b)%Q -> (L a <= L b)%Q) ->
  forall lg lo hi n pts l e, (0 < n)%Z ->
    images_ok L pts ->
    histogram1 lg lo hi (L lo) (L hi) n pts = HBins l e ->
    (qsum l == in_range_total lo hi (raw pts))%Q.
Proof. exact Lemmas.histogram_code_total. Qed.
Print Assumptions histogram_code_total.

(* The optimised computation (minimal sub-array of the mask, recombination of the view with it, bail-out on
   strided views, NaN padding) has the documented shape and every element is R applied to the kept values of
   the corresponding lane of the textbook computation, in the same order (so no assumption on R beyond
   R [] = NaN is needed); NaN exactly where the lane has no kept value. *)
Theorem statistic_equals_definition :
  forall (A res : Type) (R : list A -> res) (nan : res), R [] = nan ->
  forall shape (a : idx -> A) (filt : A -> bool) (m : option (idx -> bool)) (view : list slice) (red : list bool),
    Forall (fun n => 0 <= n) shape ->
    length red = length shape ->
    fst (stat_view A res R nan shape a filt m view red) = out_shape (vshape (view_pos shape view)) red /\
    forall o, in_box (out_shape (vshape (view_pos shape view)) red) o ->
      snd (stat_view A res R nan shape a filt m view red) o =
      R (map a (filter (fun c => mask_fun m c && filt (a c)) (lanep (view_pos shape view) red o))).
Proof. exact Lemmas.statistic_equals_definition. Qed.
Print Assumptions statistic_equals_definition.

(* The same for views that contain integers (scalar entries: the public API and every IndexedData.compute_statistic):
   a dimension of the data disappears, the position in subarray_slices and the axis of the data run apart in the
   view recombination; `red` refers to the axes of the viewed array. *)
Theorem statistic_equals_definition_int_views :
  forall (A res : Type) (R : list A -> res) (nan : res), R [] = nan ->
  forall shape (a : idx -> A) (filt : A -> bool) (m : option (idx -> bool)) (view : list ventry) (red : list bool),
    Forall (fun n => 0 <= n) shape ->
    length red = length (sel_shape (view_sel shape view)) ->
    fst (stat_view_e A res R nan shape a filt m view red) = out_shape (sel_shape (view_sel shape view)) red /\
    forall o, in_box (out_shape (sel_shape (view_sel shape view)) red) o ->
      snd (stat_view_e A res R nan shape a filt m view red) o =
      R (map a (filter (fun c => mask_fun_e m c && filt (a c))
                       (map (to_under_e (view_sel shape view)) (lane0 (sel_shape (view_sel shape view)) red o)))).
Proof. exact Lemmas.statistic_equals_definition_int_views. Qed.
Print Assumptions statistic_equals_definition_int_views.

(* Data.compute_statistic as a whole, outside the chunk loop and the SliceSubsetState shortcut *)
Theorem compute_statistic_unchunked :
  forall (A res : Type) (R : list A -> res) (nan zero : res), R [] = nan ->
  forall fuel shape (a : idx -> A) filt (s : selection) view axes ncm r,
    Forall (fun n => 0 <= n) shape ->
    (match view, axes with
     | None, Some ax => (0 <? zlen ax) && (zlen ax =? zlen shape - 1) && (zprod shape >? ncm) && negb (is_slices s)
     | _, _ => false
     end = false) ->
    (is_slices s = true -> view <> None \/ axes <> None) ->
    compute_statistic A res R nan zero fuel shape a filt s view axes ncm = Ok r ->
    let v := match view with None => [] | Some v => v end in
    let red := red_of_axes (zlen shape) axes in
    fst r = out_shape (vshape (view_pos shape v)) red /\
    forall o, in_box (out_shape (vshape (view_pos shape v)) red) o ->
      snd r o = R (map a (filter (fun c => mask_fun (mask_of shape s) c && filt (a c)) (lanep (view_pos shape v) red o))).
Proof. exact Lemmas.compute_statistic_unchunked. Qed.
Print Assumptions compute_statistic_unchunked.

(* The SliceSubsetState shortcut (view=None, axis=None; data = data[slices], no mask): the scalar result is R applied
   to the values at the cells where the mask "mask[slices] = True" is set and the filters pass, in row-major order. *)
Theorem slice_shortcut :
  forall (A res : Type) (R : list A -> res) (nan : res), R [] = nan ->
  forall shape (a : idx -> A) (filt : A -> bool) (sl : list slice) (red : list bool),
    Forall (fun n => 0 <= n) shape -> Forall Lemmas5.pos_step sl ->
    length red = length shape -> (forall b, In b red -> b = true) ->
    fst (stat_view A res R nan shape a filt None sl red) = [] /\
    snd (stat_view A res R nan shape a filt None sl red) [] =
    R (map a (filter (fun c => slices_mask shape sl c && filt (a c)) (lanep (view_pos shape []) red []))).
Proof. exact Lemmas.slice_shortcut. Qed.
Print Assumptions slice_shortcut.

(* Chunking is irrelevant: for ANY list of chunks [ca, cb) x (everything) that lie inside the array and
   cover the kept axis, the chunk loop produces element by element the unchunked textbook value. *)
Theorem chunking_irrelevant :
  forall (A res : Type) (R : list A -> res) (nan zero : res), R [] = nan ->
  forall shape (a : idx -> A) filt (m : option (idx -> bool)) (ai : nat) (chunks : list (list (Z * Z))) (k : Z),
    Forall (fun n => 0 <= n) shape -> (ai < length shape)%nat ->
    chunks_ok shape ai chunks ->
    (forall j, 0 <= j < nth ai shape 0 -> covered ai chunks j) ->
    0 <= k < nth ai shape 0 ->
    nth (Z.to_nat k) (chunk_loop A res R nan zero shape a filt m (red_axis (length shape) ai) (Z.of_nat ai) chunks) nan
    = R (map a (filter (fun c => mask_fun m c && filt (a c)) (lanep (view_pos shape []) (red_axis (length shape) ai) [k]))).
Proof. exact Lemmas.chunking_irrelevant. Qed.
Print Assumptions chunking_irrelevant.

(* ... and both hypotheses hold for the hand model of iterate_chunks (C20.Model.m_chunks) with the chunk
   shape compute_statistic uses (the full shape except c >= 1 along the kept axis). *)
Theorem chunking_hypotheses_hold_for_m_chunks :
  forall shape ai c, Forall (fun n => 0 < n) shape -> (ai < length shape)%nat -> 0 < c ->
    chunks_ok shape ai (C20.Model.m_chunks shape (cs_of shape ai c)) /\
    forall j, 0 <= j < nth ai shape 0 -> covered ai (C20.Model.m_chunks shape (cs_of shape ai c)) j.
Proof. exact Lemmas.chunking_hypotheses_hold_for_m_chunks. Qed.
Print Assumptions chunking_hypotheses_hold_for_m_chunks.

(* ... and for the machine-translated generator itself (Gen_array.iterate_chunks, any fuel >= fuel_for shape): it returns
   a chunk list (equal to m_chunks by C20.OdometerProof.iterate_chunks_is_product_fuel, proved over the translated code)
   on which the chunk loop produces element by element the unchunked textbook value.  The chunk length must fit the
   kept axis (c <= shape[ai]); cs_of does not clamp, and the code's own chunk length fits (next theorem). *)
Theorem chunking_irrelevant_translated :
  forall (A res : Type) (R : list A -> res) (nan zero : res), R [] = nan ->
  forall shape (a : idx -> A) filt (m : option (idx -> bool)) (ai : nat) (c : Z) (fuel : nat),
    Forall (fun n => 0 < n) shape -> (ai < length shape)%nat ->
    0 < c -> c <= nth ai shape 0 ->
    (C20.Model.fuel_for shape <= fuel)%nat ->
    exists chunks,
      iterate_chunks fuel shape (Some (cs_of shape ai c)) None = Ok chunks /\
      forall k, 0 <= k < nth ai shape 0 ->
        nth (Z.to_nat k) (chunk_loop A res R nan zero shape a filt m (red_axis (length shape) ai) (Z.of_nat ai) chunks) nan
        = R (map a (filter (fun c => mask_fun m c && filt (a c)) (lanep (view_pos shape []) (red_axis (length shape) ai) [k]))).
Proof. exact Discharge.chunking_irrelevant_translated. Qed.
Print Assumptions chunking_irrelevant_translated.

(* ... with the chunk shape exactly as compute_statistic builds it: chunk_shape[ai] = chunk_len = max(1, shape[ai] *
   n_chunk_max // prod(shape)), which fits because the chunked branch is taken only when prod(shape) > n_chunk_max. *)
Theorem chunking_irrelevant_translated_chunk_len :
  forall (A res : Type) (R : list A -> res) (nan zero : res), R [] = nan ->
  forall shape (a : idx -> A) filt (m : option (idx -> bool)) (ai : nat) (ncm : Z) (fuel : nat),
    Forall (fun n => 0 < n) shape -> (ai < length shape)%nat ->
    zprod shape > ncm ->
    (C20.Model.fuel_for shape <= fuel)%nat ->
    exists chunks,
      iterate_chunks fuel shape (Some (zupd shape (Z.of_nat ai) (chunk_len shape (Z.of_nat ai) ncm))) None = Ok chunks /\
      forall k, 0 <= k < nth ai shape 0 ->
        nth (Z.to_nat k) (chunk_loop A res R nan zero shape a filt m (red_axis (length shape) ai) (Z.of_nat ai) chunks) nan
        = R (map a (filter (fun c => mask_fun m c && filt (a c)) (lanep (view_pos shape []) (red_axis (length shape) ai) [k]))).
Proof. exact Discharge.chunking_irrelevant_translated_chunk_len. Qed.
Print Assumptions chunking_irrelevant_translated_chunk_len.

(* ================= the TRANSLATED Data.compute_statistic =================
   gen_compute_statistic is coq/gen/Gen_stat.v (regenerated statement by statement from glue/core/data.py on every run) with its
   opaque numpy operations instantiated on the model's arrays (Model.v, Section GenInst).  chunk_cond is the code's own test for the
   chunk loop, shortcut its test for the SliceSubsetState shortcut; pv / entries turn an optional view into the Python value / its entries. *)

(* Equivalence: outside the chunk loop and the shortcut the translated function returns what the hand model's stat_view_e
   returns: the same shape and the same value at every index of that shape. *)
Theorem translated_equals_hand_model :
  forall (A res : Type) (R : list A -> res) (nan zero : res) (isfin ispos : A -> bool) shape (a : idx -> A) (unb : garr A -> garr A) (st : Z)
         rf fuel (s : selection) (ax : pyaxis) (fin pos : bool) (o : option (list ventry)) ncm,
    unb_sound A res R isfin ispos unb st ->
    Forall (fun n => 0 <= n) shape ->
    chunk_cond shape s ax (pv o) ncm = false ->
    shortcut s ax (pv o) = false ->
    let M := stat_view_e A res R nan shape a (filt_of A isfin ispos fin pos) (mask_of shape s) (entries o)
                         (red_of_axes (zlen (sel_shape (view_sel shape (entries o)))) (axes_of ax)) in
    exists r, gen_compute_statistic A res R nan zero isfin ispos shape a unb (S rf) fuel st s ax fin pos (pv o) ncm = Ok r /\
              fst r = fst M /\ forall o', in_box (fst r) o' -> snd r o' = snd M o'.
Proof. exact GenEquiv.translated_equals_hand_model. Qed.
Print Assumptions translated_equals_hand_model.

(* The translated function (any view with integers and slices of any step, any selection, axis None / int / tuple, finite and
   positive flags) has the documented shape and every element is R applied to exactly the selected, filtered values of the
   corresponding lane of the viewed array, in row-major order. *)
Theorem translated_statistic_equals_definition :
  forall (A res : Type) (R : list A -> res) (nan zero : res), R [] = nan ->
  forall (isfin ispos : A -> bool) shape (a : idx -> A) (unb : garr A -> garr A) (st : Z) rf fuel (s : selection) (ax : pyaxis) (fin pos : bool)
         (o : option (list ventry)) ncm,
    unb_sound A res R isfin ispos unb st ->
    Forall (fun n => 0 <= n) shape ->
    chunk_cond shape s ax (pv o) ncm = false ->
    shortcut s ax (pv o) = false ->
    let sels := view_sel shape (entries o) in
    let vsh := sel_shape sels in
    let red := red_of_axes (zlen vsh) (axes_of ax) in
    exists r, gen_compute_statistic A res R nan zero isfin ispos shape a unb (S rf) fuel st s ax fin pos (pv o) ncm = Ok r /\
      fst r = out_shape vsh red /\
      forall o', in_box (out_shape vsh red) o' ->
        snd r o' = R (map a (filter (fun c => sel_fun shape s c && filt_of A isfin ispos fin pos (a c))
                                    (map (to_under_e sels) (lane0 vsh red o')))).
Proof. exact GenEquiv.translated_statistic_equals_definition. Qed.
Print Assumptions translated_statistic_equals_definition.

(* The SliceSubsetState shortcut of the translated function. *)
Theorem translated_slice_shortcut :
  forall (A res : Type) (R : list A -> res) (nan zero : res), R [] = nan ->
  forall (isfin ispos : A -> bool) shape (a : idx -> A) (unb : garr A -> garr A) (st : Z) rf fuel (sl : list slice) (fin pos : bool) ncm,
    unb_sound A res R isfin ispos unb st ->
    Forall (fun n => 0 <= n) shape -> Forall Lemmas5.pos_step sl ->
    exists r, gen_compute_statistic A res R nan zero isfin ispos shape a unb (S rf) fuel st (SelSlices sl) AxNone fin pos PVNone ncm = Ok r /\
      fst r = [] /\
      snd r [] = R (map a (filter (fun c => slices_mask shape sl c && filt_of A isfin ispos fin pos (a c))
                                  (lanep (view_pos shape []) (red_of_axes (zlen shape) None) []))).
Proof. exact GenEquiv.translated_slice_shortcut. Qed.
Print Assumptions translated_slice_shortcut.

(* Chunking is irrelevant for the translated function as a whole: when its own chunk condition holds (view None, the axis tuple L is
   every axis except ai, more elements than n_chunk_max, not a SliceSubsetState) it computes the chunk shape, runs the translated
   iterate_chunks, calls itself on every chunk and assembles a result whose element k is the unchunked textbook value. *)
Theorem translated_chunking_irrelevant :
  forall (A res : Type) (R : list A -> res) (nan zero : res), R [] = nan ->
  forall (isfin ispos : A -> bool) shape (a : idx -> A) (unb : garr A -> garr A) (st : Z) (ai : nat) (L : list Z) (s : selection) (fin pos : bool) rf fuel ncm,
    unb_sound A res R isfin ispos unb st ->
    Forall (fun n => 0 < n) shape -> (ai < length shape)%nat ->
    (forall i, 0 <= i < zlen shape -> existsb (Z.eqb i) L = negb (i =? Z.of_nat ai)) ->
    g_is_slice_state s = false ->
    0 < zlen L -> zlen L = zlen shape - 1 ->
    zprod shape > ncm ->
    (C20.Model.fuel_for shape <= fuel)%nat ->
    exists r,
      gen_compute_statistic A res R nan zero isfin ispos shape a unb (S (S rf)) fuel st s (AxTuple L) fin pos PVNone ncm = Ok r /\
      fst r = [nth ai shape 0] /\
      forall k, 0 <= k < nth ai shape 0 ->
        snd r [k] = R (map a (filter (fun c => sel_fun shape s c && filt_of A isfin ispos fin pos (a c))
                                     (lanep (view_pos shape []) (red_axis (length shape) ai) [k]))).
Proof. exact GenEquiv.translated_chunking_irrelevant. Qed.
Print Assumptions translated_chunking_irrelevant.

(* ================= the TRANSLATED Data.compute_histogram =================
   gen_hist1 is the 1-d call of coq/gen/Gen_stat.v compute_histogram (regenerated statement by statement from glue/core/data.py) on lists
   of points (value, image under log10, selected, weight), with a selection, weights and log = [lg] (Model.v, Section HistInst). *)

(* Equivalence: for every range with distinct ends (in log mode: distinct images of the ends) the translated function returns exactly what
   the hand model histogram1 returns (zeros / error / the bins and the per-edge weights). *)
Theorem translated_histogram_equals_hand_model :
  forall lg (lo hi llo lhi : Q) n (pts : list (option Q * option Q * bool * Q)),
    ~ (lo == hi)%Q -> (lg = true -> ~ (llo == lhi)%Q) ->
    gen_hist1 lg lo hi llo lhi n pts = Ok (histogram1 lg lo hi llo lhi n pts).
Proof. exact GenEquiv.translated_histogram_equals_hand_model. Qed.
Print Assumptions translated_histogram_equals_hand_model.

(* Whenever the translated function returns bins they sum to the weight of the selected finite values inside the closed range of the raw
   values (log: binning of the images under any monotone map L). *)
Theorem translated_histogram_code_total :
  forall (L : Q -> Q), (forall a b : Q, (0 < a)%Q -> (a <= b)%Q -> (L a <= L b)%Q) ->
  forall lg (lo hi : Q) n pts l e, (0 < n)%Z ->
    images_ok L pts ->
    ~ (lo == hi)%Q -> (lg = true -> ~ (L lo == L hi)%Q) ->
    gen_hist1 lg lo hi (L lo) (L hi) n pts = Ok (HBins l e) ->
    (qsum l == in_range_total lo hi (raw pts))%Q.
Proof. exact GenEquiv.translated_histogram_code_total. Qed.
Print Assumptions translated_histogram_code_total.

(* ================= the unbroadcast shortcut of Data.compute_statistic =================
   "if axis is None and mask is None and statistic not in ('sum', 'percentile'): data = unbroadcast(data)".  The four theorems about the
   translated function above assume unb_sound: for the statistics the guard lets through, the kernel gives the same overall result on the
   unbroadcast array (R is invariant under the uniform repetition of its sample: minimum, maximum, mean, median).  unb is ANY function. *)

(* For the sum and the percentiles the guard keeps the shortcut away: the theorems hold with nothing assumed about unbroadcast. *)
Theorem unb_sound_sum_percentile :
  forall (A res : Type) (R : list A -> res) (isfin ispos : A -> bool) (unb : garr A -> garr A) (st : Z),
    st = 4 \/ st = 5 -> unb_sound A res R isfin ispos unb st.
Proof. exact GenEquiv.unb_sound_sum_percentile. Qed.
Print Assumptions unb_sound_sum_percentile.

(* Without the guard the shortcut is wrong for the sum (the defect repaired in /repo): with R = sum and the unbroadcast of a pixel
   coordinate component the hypothesis is false (6 on the unbroadcast array, 18 on the array itself). *)
Theorem unbroadcast_shortcut_sum_refuted :
  ~ unb_sound Z Z R_sum (fun _ => true) (fun _ => true) (bc_unbroadcast [true; false]) 0.
Proof. exact GenEquiv.unbroadcast_shortcut_sum_refuted. Qed.
Print Assumptions unbroadcast_shortcut_sum_refuted.
