(* C10 — non-vacuity examples and sanity evaluations of the model. *)
From Coq Require Import ZArith List Bool QArith Qround Lia.
Import ListNotations.
From GV Require Import Common.Wire Common.PyInt C10.Model C10.Lemmas C10.GenEquiv.
From GV Require C20.Model.
Open Scope Z_scope.

(* a 3 x 4 array whose cell value is its flat position; mask set on a 2 x 2 block; view [1:, :] ; collapse axis 0 *)
Definition ex_shape := [3; 4].
Definition ex_a (i : idx) : Z := flat_index ex_shape i.
Definition ex_m (i : idx) : bool := match i with [r; c] => (1 <=? r) && (r <=? 2) && (1 <=? c) && (c <=? 2) | _ => false end.
Definition ex_view := [Slice (Some 1) None None].
Definition ex_red := [true; false].

(* R = identity on the list of kept values, NaN = [] : satisfies the only hypothesis on R *)
Example ex_R_nil : (fun l : list Z => l) [] = []. Proof. reflexivity. Qed.

Eval vm_compute in
  (let '(sh, r) := stat_view Z (list Z) (fun l => l) [] ex_shape ex_a (fun _ => true) (Some ex_m) ex_view ex_red in
   (sh, map r (box sh))).
(* = ([4], [[]; [5; 9]; [6; 10]; []]) : padded with NaN (= []) outside the bounding box *)

Example ex_stat :
  (let '(sh, r) := stat_view Z (list Z) (fun l => l) [] ex_shape ex_a (fun _ => true) (Some ex_m) ex_view ex_red in
   (sh, map r (box sh))) = ([4], [[]; [5; 9]; [6; 10]; []]).
Proof. vm_compute. reflexivity. Qed.

(* the hypotheses of statistic_equals_definition are met by this instance (non-vacuity) *)
Example ex_hyps : Forall (fun n => 0 <= n) ex_shape /\ length ex_red = length ex_shape.
Proof. split; [repeat constructor; lia|reflexivity]. Qed.

(* the crop really happens here: the recombined view reads rows 1..2 and columns 1..2 only *)
Example ex_new_view :
  option_map (view_pos ex_shape) (new_view ex_shape ex_view (bbox 2 [[0; 1]; [0; 2]; [1; 1]; [1; 2]])) = Some [[1; 2]; [1; 2]].
Proof. vm_compute. reflexivity. Qed.

(* a strided view bails out *)
Example ex_bail : new_view ex_shape [Slice None None (Some 2)] [(0, 1); (1, 3)] = None.
Proof. reflexivity. Qed.

(* chunk loop: 3 x 4 array, keep axis 0, chunks of one row: hypotheses of chunking_irrelevant hold for m_chunks *)
Example ex_chunks : chunks_ok ex_shape 0 (C20.Model.m_chunks ex_shape (cs_of ex_shape 0 1)) /\
                    forall j, 0 <= j < nth 0%nat ex_shape 0 -> covered 0 (C20.Model.m_chunks ex_shape (cs_of ex_shape 0 1)) j.
Proof. apply chunking_hypotheses_hold_for_m_chunks; [repeat constructor; lia|simpl; lia|lia]. Qed.

Eval vm_compute in (C20.Model.m_chunks ex_shape (cs_of ex_shape 0 1)).

Eval vm_compute in
  (chunk_loop Z (list Z) (fun l => l) [] [-1] ex_shape ex_a (fun _ => true) (Some ex_m) (red_axis 2 0) 0
              (C20.Model.m_chunks ex_shape (cs_of ex_shape 0 1))).
(* = [[]; [5; 6]; [9; 10]] *)

Example ex_chunk_loop :
  chunk_loop Z (list Z) (fun l => l) [] [-1] ex_shape ex_a (fun _ => true) (Some ex_m) (red_axis 2 0) 0
             (C20.Model.m_chunks ex_shape (cs_of ex_shape 0 1)) = [[]; [5; 6]; [9; 10]].
Proof. vm_compute. reflexivity. Qed.

(* histograms: 5 values 0..4 over [0, 4] with 4 bins: x = hi in the last bin, totals = 5 *)
Open Scope Q_scope.
Definition ex_pts : list (option Q * bool * Q) :=
  [(Some 0, true, 1); (Some 1, true, 1); (Some 2, true, 1); (Some 3, true, 1); (Some 4, true, 1); (None, true, 1); (Some 5, true, 1); (Some 2, false, 1)].
Example ex_hist : map Qred (hist1 0 4 4 ex_pts) = [1; 1; 1; 2]. Proof. vm_compute. reflexivity. Qed.
Example ex_hist_rev : map Qred (hist1 4 0 4 ex_pts) = [1; 1; 1; 2]. Proof. vm_compute. reflexivity. Qed.
Example ex_edges : map Qred (edge1 0 4 4 ex_pts) = [0; 1; 1; 1]. Proof. vm_compute. reflexivity. Qed.
Example ex_total : Qred (in_range_total 0 4 ex_pts) = 5. Proof. vm_compute. reflexivity. Qed.
Example ex_hyp_hist : 0 < 4 /\ (0 < 4)%Z. Proof. split; reflexivity. Qed.
(* the identity is monotone: a legitimate instance of the abstract log map *)
Example ex_mono : forall a b : Q, 0 < a -> a <= b -> (fun x => x) a <= (fun x => x) b. Proof. intros a b _ H. exact H. Qed.

(* ---------- the translated skeleton (coq/gen/Gen_stat.v) on the same instance ---------- *)
Close Scope Q_scope.
Open Scope Z_scope.
Definition ex_gen (s : selection) (ax : pyaxis) (v : pyview) (ncm : Z) :=
  match gen_compute_statistic Z (list Z) (fun l => l) [] [(-1)%Z] (fun _ => true) (fun c => (0 <? c)%Z) ex_shape ex_a (fun d => d) 2 20 0%Z s ax true false v ncm with
  | Ok (sh, r) => Some (sh, map r (box sh))
  | Err _ => None
  end.

(* view (slice(1, None),), mask on the 2 x 2 block, axis=0: the same padded result as the hand model *)
Example ex_gen_stat : ex_gen (SelMask ex_m) (AxInt 0) (PVTuple [VSlice (Slice (Some 1) None None)]) 40000000
                      = Some ([4], [[]; [5; 9]; [6; 10]; []]).
Proof. vm_compute. reflexivity. Qed.

(* an integer entry in the view: row 2, columns 1:, no axis *)
Example ex_gen_int_view : ex_gen (SelMask ex_m) AxNone (PVTuple [VInt 2; VSlice (Slice (Some 1) None None)]) 40000000
                          = Some ([], [[9; 10]]).
Proof. vm_compute. reflexivity. Qed.

(* a strided view bails out of the crop (no padding) *)
Example ex_gen_bail : ex_gen (SelMask ex_m) (AxInt 0) (PVTuple [VSlice (Slice None None None); VSlice (Slice None None (Some 2))]) 40000000
                      = Some ([2], [[]; [6; 10]]).
Proof. vm_compute. reflexivity. Qed.

(* the chunk loop: axis=(0,), 12 elements > n_chunk_max = 5: chunks of 1 column; equal to the unchunked result *)
Example ex_gen_chunked : ex_gen (SelMask ex_m) (AxTuple [0]) PVNone 5 = ex_gen (SelMask ex_m) (AxTuple [0]) PVNone 40000000
                         /\ ex_gen (SelMask ex_m) (AxTuple [0]) PVNone 5 = Some ([4], [[]; [5; 9]; [6; 10]; []]).
Proof. vm_compute. split; reflexivity. Qed.

(* the hypotheses of translated_statistic_equals_definition / translated_chunking_irrelevant are met (non-vacuity) *)
Example ex_gen_hyps :
  chunk_cond ex_shape (SelMask ex_m) (AxInt 0) (pv (Some [VSlice (Slice (Some 1) None None)])) 40000000 = false /\
  shortcut (SelMask ex_m) (AxInt 0) (pv (Some [VSlice (Slice (Some 1) None None)])) = false /\
  chunk_cond ex_shape (SelMask ex_m) (AxTuple [0]) PVNone 5 = true /\
  (forall i, 0 <= i < zlen ex_shape -> existsb (Z.eqb i) [0] = negb (i =? Z.of_nat 1)) /\
  zprod ex_shape > 5 /\ (C20.Model.fuel_for ex_shape <= 20)%nat.
Proof.
  repeat split; try reflexivity.
  - intros i Hi. unfold ex_shape, zlen in Hi. simpl in Hi. assert (i = 0 \/ i = 1) as [-> | ->] by lia; reflexivity.
  - vm_compute. lia.
Qed.

(* SliceSubsetState shortcut *)
Example ex_gen_shortcut : ex_gen (SelSlices [Slice (Some 1) None None; Slice None (Some 2) None]) AxNone PVNone 40000000
                          = Some ([], [[4; 5; 8; 9]]).
Proof. vm_compute. reflexivity. Qed.

(* the translated histogram: 4 bins over [0, 4], values 0 1 2 4 4 (one unselected 3, one NaN), weights 1 *)
Open Scope Q_scope.
Definition ex_hpts : list (option Q * option Q * bool * Q) :=
  [(Some 0, None, true, 1); (Some 1, None, true, 1); (Some 2, None, true, 1); (Some 3, None, false, 1);
   (Some 4, None, true, 1); (Some 4, None, true, 1); (None, None, true, 1)].
Example ex_gen_hist : gen_hist1 false 0 4 0 4 4 ex_hpts = Ok (HBins [1; 1; 1; 2] [0; 1; 1; 0]).
Proof. vm_compute. reflexivity. Qed.
Example ex_gen_hist_reversed : gen_hist1 false 4 0 4 0 4 ex_hpts = gen_hist1 false 0 4 0 4 4 ex_hpts.
Proof. vm_compute. reflexivity. Qed.
Example ex_gen_hist_hyps : ~ (0 == 4) /\ (false = true -> ~ (0 == 4)).
Proof. split; [intros H; discriminate H|intros H; discriminate H]. Qed.
Close Scope Q_scope.
