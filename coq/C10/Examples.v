(* C10 — non-vacuity examples and sanity evaluations of the model. *)
From Coq Require Import ZArith List Bool QArith Qround Lia.
Import ListNotations.
From GV Require Import Common.Wire Common.PyInt C10.Model C10.Lemmas.
From GV Require C20.Model.
Open Scope Z_scope.

(* a 3 x 4 array whose cell value is its flat position; mask set on a 2 x 2 block; view [1:, :] ; collapse axis 0 *)
Definition ex_shape := [3; 4].
Definition ex_a (i : idx) : Z := flat_index ex_shape i.
Definition ex_m (i : idx) : bool := match i with [r; c] => (1 <=? r) && (r <=? 2) && (1 <=? c) && (c <=? 2) | _ => false end.
Definition ex_view := [Slice (Some 1) None None].
Definition ex_red := [true; false].

(* R = identity on the list of kept values, NaN = [] : satisfies the only hypothesis on R *)
Example ex_R_nil : (fun l : list Z => l) [] = []. Proof. reflexivity. Qed.

Eval vm_compute in
  (let '(sh, r) := stat_view Z (list Z) (fun l => l) [] ex_shape ex_a (fun _ => true) (Some ex_m) ex_view ex_red in
   (sh, map r (box sh))).
(* = ([4], [[]; [5; 9]; [6; 10]; []]) : padded with NaN (= []) outside the bounding box *)

Example ex_stat :
  (let '(sh, r) := stat_view Z (list Z) (fun l => l) [] ex_shape ex_a (fun _ => true) (Some ex_m) ex_view ex_red in
   (sh, map r (box sh))) = ([4], [[]; [5; 9]; [6; 10]; []]).
Proof. vm_compute. reflexivity. Qed.

(* the hypotheses of statistic_equals_definition are met by this instance (non-vacuity) *)
Example ex_hyps : Forall (fun n => 0 <= n) ex_shape /\ length ex_red = length ex_shape.
Proof. split; [repeat constructor; lia|reflexivity]. Qed.

(* the crop really happens here: the recombined view reads rows 1..2 and columns 1..2 only *)
Example ex_new_view :
  option_map (view_pos ex_shape) (new_view ex_shape ex_view (bbox 2 [[0; 1]; [0; 2]; [1; 1]; [1; 2]])) = Some [[1; 2]; [1; 2]].
Proof. vm_compute. reflexivity. Qed.

(* a strided view bails out *)
Example ex_bail : new_view ex_shape [Slice None None (Some 2)] [(0, 1); (1, 3)] = None.
Proof. reflexivity. Qed.

(* chunk loop: 3 x 4 array, keep axis 0, chunks of one row: hypotheses of chunking_irrelevant hold for m_chunks *)
Example ex_chunks : chunks_ok ex_shape 0 (C20.Model.m_chunks ex_shape (cs_of ex_shape 0 1)) /\
                    forall j, 0 <= j < nth 0%nat ex_shape 0 -> covered 0 (C20.Model.m_chunks ex_shape (cs_of ex_shape 0 1)) j.
Proof. apply chunking_hypotheses_hold_for_m_chunks; [repeat constructor; lia|simpl; lia|lia]. Qed.

Eval vm_compute in (C20.Model.m_chunks ex_shape (cs_of ex_shape 0 1)).

Eval vm_compute in
  (chunk_loop Z (list Z) (fun l => l) [] [-1] ex_shape ex_a (fun _ => true) (Some ex_m) (red_axis 2 0) 0
              (C20.Model.m_chunks ex_shape (cs_of ex_shape 0 1))).
(* = [[]; [5; 6]; [9; 10]] *)

Example ex_chunk_loop :
  chunk_loop Z (list Z) (fun l => l) [] [-1] ex_shape ex_a (fun _ => true) (Some ex_m) (red_axis 2 0) 0
             (C20.Model.m_chunks ex_shape (cs_of ex_shape 0 1)) = [[]; [5; 6]; [9; 10]].
Proof. vm_compute. reflexivity. Qed.

(* histograms: 5 values 0..4 over [0, 4] with 4 bins: x = hi in the last bin, totals = 5 *)
Open Scope Q_scope.
Definition ex_pts : list (option Q * bool * Q) :=
  [(Some 0, true, 1); (Some 1, true, 1); (Some 2, true, 1); (Some 3, true, 1); (Some 4, true, 1); (None, true, 1); (Some 5, true, 1); (Some 2, false, 1)].
Example ex_hist : map Qred (hist1 0 4 4 ex_pts) = [1; 1; 1; 2]. Proof. vm_compute. reflexivity. Qed.
Example ex_hist_rev : map Qred (hist1 4 0 4 ex_pts) = [1; 1; 1; 2]. Proof. vm_compute. reflexivity. Qed.
Example ex_edges : map Qred (edge1 0 4 4 ex_pts) = [0; 1; 1; 1]. Proof. vm_compute. reflexivity. Qed.
Example ex_total : Qred (in_range_total 0 4 ex_pts) = 5. Proof. vm_compute. reflexivity. Qed.
Example ex_hyp_hist : 0 < 4 /\ (0 < 4)%Z. Proof. split; reflexivity. Qed.
(* the identity is monotone: a legitimate instance of the abstract log map *)
Example ex_mono : forall a b : Q, 0 < a -> a <= b -> (fun x => x) a <= (fun x => x) b. Proof. intros a b _ H. exact H. Qed.
