From Coq Require Import ZArith List Bool.
Import ListNotations.
From GV Require Import C18.Lemmas.
Open Scope Z_scope.

(* After every history of collection operations (append / remove a dataset, create / remove a subset group, save and
   restore the session) and viewer operations (add_data, remove_data, add_subset of any current subset of a dataset in
   the collection - also when the viewer does not show that dataset -, remove_layer of a dataset's own layer), with
   `given` = the datasets handed to the viewer with add_data and not taken away since (by remove_data, remove_layer or
   removal from the collection):  the artist list and state.layers are the same duplicate-free list; the dataset layers
   are exactly the given datasets, all in the collection; every subset layer is a member of data.subsets of a dataset
   that is in the collection (nothing remains for removed datasets, subsets or groups, also for subsets handed over
   alone); every current subset of a given dataset has its layer (so: exactly one); where dc.remove detaches grouped
   subsets (fx = true, the C06 repair) every subset layer belongs to a live group. *)
Theorem viewer_inv_reachable : forall (fx : bool) (ops : list dop),
  no_blocks ops = true ->
  let r := run_d ops (init_v fx, None) [] in
  let st := fst (fst r) in
  let given := snd r in
  sls st = arts st /\ NoDup (arts st) /\ NoDup given /\
  (forall d, In d given -> In d (dc st)) /\
  (forall d, In (LData d) (arts st) <-> In d given) /\
  (forall s d g, In (LSub s d g) (arts st) -> In d (dc st) /\ exists lv, In (mkSub s d g lv) (subs st)) /\
  (forall s d g lv, In d given -> In (mkSub s d g lv) (subs st) -> In (LSub s d g) (arts st)) /\
  (fx = true -> forall s d g, In (LSub s d g) (arts st) -> In g (groups st)).
Proof. exact Lemmas.viewer_inv_reachable. Qed.
Print Assumptions viewer_inv_reachable.

(* The statement above is about the block-aware run_d that run_case executes; its guard excludes histories in which the USER
   opens a delay_callback(viewer.state, 'layers') block around viewer operations (not part of the property's quantifier).
   FULL statement without the guard:  forall fx ops, snd (fst (run_d ops ...)) = None -> <the same conclusion>.
   It is false of the faithful model of the unchanged code: inside such a block (1) remove_data d; add_data d leaves d given but
   without a layer, (2) add_data d; remove_data d leaves an artist without a layer state. Both are reproduced on the code and
   kept out of the generated blocks (ASSUMPTIONS); every other block shape is covered by correspondence + oracle only. *)
Theorem viewer_blocks_refuted :
  (exists ops, let r := run_d ops (init_v true, None) [] in
     snd (fst r) = None /\ ~ (forall d, In (LData d) (arts (fst (fst r))) <-> In d (snd r))) /\
  (exists ops, let r := run_d ops (init_v true, None) [] in
     snd (fst r) = None /\ sls (fst (fst r)) <> arts (fst (fst r))).
Proof. exact Lemmas.viewer_blocks_refuted. Qed.
Print Assumptions viewer_blocks_refuted.

(* After any history of picker operations (append / remove / set datasets, clear, filter flags, explicit selections),
   dataset mutations (add / remove / reorder / rename components), collection removals and hub delay blocks: the
   selection is one of the offered values (None only if None is offered or nothing is offered), and whenever no hub
   message is held back by an open delay block the offered attributes are exactly the attributes of the picker's
   datasets that pass the kind filters, in order. *)
Theorem picker_inv_reachable : forall ds fl defidx hasdc ops,
  let st := run_p ops (init_p ds fl defidx hasdc) in
  sel_ok (p_ch st) (p_sel st) /\
  (p_pending st = [] -> attrs_of (p_ch st) = spec_cids (p_fl st) (p_ds st) (p_datas st)).
Proof. exact Lemmas.picker_inv_reachable. Qed.
Print Assumptions picker_inv_reachable.

(* ManualDataComboHelper / DataCollectionComboHelper: the choices are exactly the helper's datasets (its own list, or
   the collection), and the selection is one of them or None when there are none. *)
Theorem dpicker_inv_reachable : forall manual dcl ops,
  let st := run_dp ops (init_dp manual dcl) in
  dp_ch st = map CAtt (if dp_manual st then dp_list st else dp_dc st) /\ sel_ok (dp_ch st) (dp_sel st).
Proof. exact Lemmas.dpicker_inv_reachable. Qed.
Print Assumptions dpicker_inv_reachable.

(* Reference data with at least two dimensions: after any sequence of assignments to x_att, y_att, x_att_world,
   y_att_world and changes of the reference data, the two pixel axes are distinct axes of the reference data and the
   world axes are the same two axes. *)
Theorem image_axes_distinct : forall (n : Z) (ops : list aop),
  2 <= n ->
  let a := run_a ops (init_a n) in
  2 <= a_n a /\ 0 <= a_x a < a_n a /\ 0 <= a_y a < a_n a /\ a_x a <> a_y a /\ a_xw a = a_x a /\ a_yw a = a_y a.
Proof. exact Lemmas.image_axes_distinct. Qed.
Print Assumptions image_axes_distinct.

(* ---- the functions TRANSLATED from glue/viewers/common/viewer.py, glue/core/layer_artist.py and
   glue/viewers/common/layer_artist.py (coq/gen/Gen_viewer.v, regenerated on every run; Model.v part 5 adds the collection
   as environment: gstep / grun) ---- *)

(* One step of the translated machine is one step of the hand model, for every operation (collection: append / remove a
   dataset, new / remove subset group, save-restore, with the hub messages delivered through the translated subscription
   table of register_to_hub; viewer: add_data, remove_data, add_subset, remove_layer): from related states (grel: same
   collection, same artist list, artists and layer states of the heap in step: hinv) both machines reach related states
   with the same status.  Covers translated Viewer.add_data / add_subset / remove_data / remove_subset / remove_layer,
   _add_subset / _remove_subset / _remove_data with their filters, LayerArtist.__init__, LayerArtistContainer.append /
   remove / pop / _notify / __contains__ / __iter__ / layers, the two sync callbacks and the callback recursion (knot). *)
Theorem gen_step_refines : forall (o : op) (st : vstate) (p : vstate * Gen_viewer.heap),
  grel st p ->
  grel (fst (step o st)) (fst (gstep o p)) /\ snd (step o st) = snd (gstep o p).
Proof. exact Lemmas.gen_step_refines. Qed.
Print Assumptions gen_step_refines.

(* Translated _sync_state_layers and _sync_layer_artist_container change nothing on a heap whose artists and layer states
   are in step, whatever callbacks they are given. *)
Theorem gen_sync_idle : forall cb h, hinv h ->
  Gen_viewer.Viewer__sync_state_layers cb h = h /\ Gen_viewer.Viewer__sync_layer_artist_container cb h = h.
Proof. exact Lemmas.gen_sync_idle. Qed.
Print Assumptions gen_sync_idle.

(* viewer_inv_reachable, about the translated definitions: after every history (same operations and same guard as
   viewer_inv_reachable) run through the translated functions, the callback recursion never ran out of fuel, and the
   container's artists and state.layers (read off the translated heap) satisfy the whole invariant. *)
Theorem gen_viewer_inv_reachable : forall (fx : bool) (ops : list dop),
  no_blocks ops = true ->
  let r := grun ops (ginit fx) [] in
  let st := gview (fst r) in
  let given := snd r in
  Gen_viewer.h_err (snd (fst r)) = false /\
  sls st = arts st /\ NoDup (arts st) /\ NoDup given /\
  (forall d, In d given -> In d (dc st)) /\
  (forall d, In (LData d) (arts st) <-> In d given) /\
  (forall s d g, In (LSub s d g) (arts st) -> In d (dc st) /\ exists lv, In (mkSub s d g lv) (subs st)) /\
  (forall s d g lv, In d given -> In (mkSub s d g lv) (subs st) -> In (LSub s d g) (arts st)) /\
  (fx = true -> forall s d g, In (LSub s d g) (arts st) -> In g (groups st)).
Proof. exact Lemmas.gen_viewer_inv_reachable. Qed.
Print Assumptions gen_viewer_inv_reachable.

(* ---- the functions TRANSLATED from glue/core/data_combo_helper.py (coq/gen/Gen_picker.v, regenerated on every run; Model.v
   part 6: gpstep = part 2 with refresh and the message handling replaced by the translated refresh, _filter_msg and the
   subscription table of register_to_hub) ---- *)

(* One step of the translated picker machine is one step of the hand model, as long as the helper's datasets are datasets
   of the configuration (pk, preserved by every step whose operation hands over known datasets only). *)
Theorem gen_picker_step_refines : forall ids o st, pk ids st -> op_known ids o = true ->
  gpstep o st = pstep o st /\ pk ids (fst (pstep o st)).
Proof. exact Lemmas.gen_picker_step_refines. Qed.
Print Assumptions gen_picker_step_refines.

(* picker_inv_reachable, about the translated definitions. *)
Theorem gen_picker_inv_reachable : forall ds fl defidx hasdc ops,
  pops_known (map di_id ds) ops = true ->
  let st := run_gp ops (init_p ds fl defidx hasdc) in
  sel_ok (p_ch st) (p_sel st) /\
  (p_pending st = [] -> attrs_of (p_ch st) = spec_cids (p_fl st) (p_ds st) (p_datas st)).
Proof. exact Lemmas.gen_picker_inv_reachable. Qed.
Print Assumptions gen_picker_inv_reachable.

(* Translated ComponentIDComboHelper.refresh offers exactly the attributes of the helper's datasets that pass the kind
   filters (numeric / datetime / categorical main components, derived components under numeric+derived, pixel and world
   coordinates under their flags), in order, whatever the flags and the datasets. *)
Theorem gen_refresh_attrs : forall st, pknown st ->
  attrs_of (map of_gchoice (Gen_picker.ComponentIDComboHelper_refresh (helper_of st))) = spec_cids (p_fl st) (p_ds st) (p_datas st).
Proof. exact Lemmas.gen_refresh_attrs. Qed.
Print Assumptions gen_refresh_attrs.

(* Translated remove_data / _remove_data / clear / the seven flag setters: the guard of the single-dataset helper, the
   membership test, and a refresh exactly when something changed. *)
Theorem gen_picker_procs : forall h d b,
  Gen_picker.ComponentIDComboHelper_remove_data h d =
    (if Gen_picker.hp_manual h then None
     else if Gen_picker.data_mem d (Gen_picker.hp_data h)
          then Some (Gen_picker.mark_refresh (Gen_picker.set_data (Gen_picker.remove_data_ref d (Gen_picker.hp_data h)) h))
          else Some h) /\
  Gen_picker.ComponentIDComboHelper__remove_data h d = Gen_picker.ComponentIDComboHelper_remove_data h d /\
  Gen_picker.ComponentIDComboHelper_clear h = Some (Gen_picker.mark_refresh (Gen_picker.set_data [] h)) /\
  Gen_picker.ComponentIDComboHelper_set_numeric h b = Some (Gen_picker.mark_refresh (Gen_picker.set_flag_numeric b h)) /\
  Gen_picker.ComponentIDComboHelper_set_datetime h b = Some (Gen_picker.mark_refresh (Gen_picker.set_flag_datetime b h)) /\
  Gen_picker.ComponentIDComboHelper_set_categorical h b = Some (Gen_picker.mark_refresh (Gen_picker.set_flag_categorical b h)) /\
  Gen_picker.ComponentIDComboHelper_set_pixel_coord h b = Some (Gen_picker.mark_refresh (Gen_picker.set_flag_pixel_coord b h)) /\
  Gen_picker.ComponentIDComboHelper_set_world_coord h b = Some (Gen_picker.mark_refresh (Gen_picker.set_flag_world_coord b h)) /\
  Gen_picker.ComponentIDComboHelper_set_derived h b = Some (Gen_picker.mark_refresh (Gen_picker.set_flag_derived b h)) /\
  Gen_picker.ComponentIDComboHelper_set_none h b = Some (Gen_picker.mark_refresh (Gen_picker.set_flag_none b h)).
Proof. exact Lemmas.gen_picker_procs. Qed.
Print Assumptions gen_picker_procs.

(* ---- the dataset pickers TRANSLATED from glue/core/data_combo_helper.py (Gen_picker.v, second half; Model.v part 7: gdpstep) ---- *)

(* One step of the translated machine (ManualDataComboHelper.append_data / remove_data / set_multiple_data with
   unique_data_iter, BaseDataComboHelper.refresh / _on_data_update, the subscription tables of the two classes with their
   filters) is one step of the hand model, while the manual helper's list is duplicate-free (preserved). *)
Theorem gen_dpicker_step_refines : forall o st, NoDup (dp_list st) ->
  gdpstep o st = dpstep o st /\ NoDup (dp_list (fst (dpstep o st))).
Proof. exact Lemmas.gen_dpicker_step_refines. Qed.
Print Assumptions gen_dpicker_step_refines.

(* dpicker_inv_reachable, about the translated definitions. *)
Theorem gen_dpicker_inv_reachable : forall manual dcl ops,
  let st := run_gdp ops (init_dp manual dcl) in
  dp_ch st = map CAtt (if dp_manual st then dp_list st else dp_dc st) /\ sel_ok (dp_ch st) (dp_sel st).
Proof. exact Lemmas.gen_dpicker_inv_reachable. Qed.
Print Assumptions gen_dpicker_inv_reachable.

(* ---- the update handlers of the translated viewer (no structural effect; their calls are compared with the real viewer's
   by the viewer_updates stream) ---- *)

(* Translated _update_subset: nothing for a style change; otherwise update() on the artists showing that subset. *)
Theorem gen_update_subset_spec : forall cb m h,
  Gen_viewer.Viewer__update_subset cb m h =
  if Gen_viewer.msg_attribute m =? Gen_viewer.ATTR_style then h
  else fold_left (fun h a => Gen_viewer.ev (Gen_viewer.EUpdate (Gen_viewer.art_layer a)) h)
                 (filter (fun a => layer_eqb (Gen_viewer.art_layer a) (Gen_viewer.msg_obj m)) (Gen_viewer.h_artists h)) h.
Proof. exact Lemmas.gen_update_subset_spec. Qed.
Print Assumptions gen_update_subset_spec.

(* Translated _update_data / _update_data_numerical for a message about dataset d: only when d itself is shown; then
   update() (and _on_components_changed when the message carries components_changed) on the artists of d and of its
   subsets, in zorder order. *)
Theorem gen_update_data_spec : forall cb m h d, Gen_viewer.msg_obj m = LData d ->
  Gen_viewer.Viewer__update_data cb m h =
  (if has (LData d) (heap_arts h)
   then fold_left (fun h a => if layer_data (Gen_viewer.art_layer a) =? d then upd_calls (Gen_viewer.msg_has_components_changed m) a h else h)
                  (Gen_viewer.sort_by (fun x => Gen_viewer.art_z x) (Gen_viewer.h_artists h)) h
   else h) /\
  Gen_viewer.Viewer__update_data_numerical cb m h = Gen_viewer.Viewer__update_data cb m h.
Proof. exact Lemmas.gen_update_data_spec. Qed.
Print Assumptions gen_update_data_spec.
