From Coq Require Import ZArith List Bool.
Import ListNotations.
From GV Require Import C18.Lemmas.
Open Scope Z_scope.

(* After every history of collection operations (append / remove a dataset, create / remove a subset group, save and
   restore the session) and viewer operations (add_data, remove_data, add_subset of any current subset of a dataset in
   the collection - also when the viewer does not show that dataset -, remove_layer of a dataset's own layer), with
   `given` = the datasets handed to the viewer with add_data and not taken away since (by remove_data, remove_layer or
   removal from the collection):  the artist list and state.layers are the same duplicate-free list; the dataset layers
   are exactly the given datasets, all in the collection; every subset layer is a member of data.subsets of a dataset
   that is in the collection (nothing remains for removed datasets, subsets or groups, also for subsets handed over
   alone); every current subset of a given dataset has its layer (so: exactly one); where dc.remove detaches grouped
   subsets (fx = true, the C06 repair) every subset layer belongs to a live group. *)
Theorem viewer_inv_reachable : forall (fx : bool) (ops : list dop),
  no_blocks ops = true ->
  let r := run_d ops (init_v fx, None) [] in
  let st := fst (fst r) in
  let given := snd r in
  sls st = arts st /\ NoDup (arts st) /\ NoDup given /\
  (forall d, In d given -> In d (dc st)) /\
  (forall d, In (LData d) (arts st) <-> In d given) /\
  (forall s d g, In (LSub s d g) (arts st) -> In d (dc st) /\ exists lv, In (mkSub s d g lv) (subs st)) /\
  (forall s d g lv, In d given -> In (mkSub s d g lv) (subs st) -> In (LSub s d g) (arts st)) /\
  (fx = true -> forall s d g, In (LSub s d g) (arts st) -> In g (groups st)).
Proof. exact Lemmas.viewer_inv_reachable. Qed.
Print Assumptions viewer_inv_reachable.

(* The statement above is about the block-aware run_d that run_case executes; its guard excludes histories in which the USER
   opens a delay_callback(viewer.state, 'layers') block around viewer operations (not part of the property's quantifier).
   FULL statement without the guard:  forall fx ops, snd (fst (run_d ops ...)) = None -> <the same conclusion>.
   It is false of the faithful model of the unchanged code: inside such a block (1) remove_data d; add_data d leaves d given but
   without a layer, (2) add_data d; remove_data d leaves an artist without a layer state. Both are reproduced on the code and
   kept out of the generated blocks (ASSUMPTIONS); every other block shape is covered by correspondence + oracle only. *)
Theorem viewer_blocks_refuted :
  (exists ops, let r := run_d ops (init_v true, None) [] in
     snd (fst r) = None /\ ~ (forall d, In (LData d) (arts (fst (fst r))) <-> In d (snd r))) /\
  (exists ops, let r := run_d ops (init_v true, None) [] in
     snd (fst r) = None /\ sls (fst (fst r)) <> arts (fst (fst r))).
Proof. exact Lemmas.viewer_blocks_refuted. Qed.
Print Assumptions viewer_blocks_refuted.

(* After any history of picker operations (append / remove / set datasets, clear, filter flags, explicit selections),
   dataset mutations (add / remove / reorder / rename components), collection removals and hub delay blocks: the
   selection is one of the offered values (None only if None is offered or nothing is offered), and whenever no hub
   message is held back by an open delay block the offered attributes are exactly the attributes of the picker's
   datasets that pass the kind filters, in order. *)
Theorem picker_inv_reachable : forall ds fl defidx hasdc ops,
  let st := run_p ops (init_p ds fl defidx hasdc) in
  sel_ok (p_ch st) (p_sel st) /\
  (p_pending st = [] -> attrs_of (p_ch st) = spec_cids (p_fl st) (p_ds st) (p_datas st)).
Proof. exact Lemmas.picker_inv_reachable. Qed.
Print Assumptions picker_inv_reachable.

(* ManualDataComboHelper / DataCollectionComboHelper: the choices are exactly the helper's datasets (its own list, or
   the collection), and the selection is one of them or None when there are none. *)
Theorem dpicker_inv_reachable : forall manual dcl ops,
  let st := run_dp ops (init_dp manual dcl) in
  dp_ch st = map CAtt (if dp_manual st then dp_list st else dp_dc st) /\ sel_ok (dp_ch st) (dp_sel st).
Proof. exact Lemmas.dpicker_inv_reachable. Qed.
Print Assumptions dpicker_inv_reachable.

(* Reference data with at least two dimensions: after any sequence of assignments to x_att, y_att, x_att_world,
   y_att_world and changes of the reference data, the two pixel axes are distinct axes of the reference data and the
   world axes are the same two axes. *)
Theorem image_axes_distinct : forall (n : Z) (ops : list aop),
  2 <= n ->
  let a := run_a ops (init_a n) in
  2 <= a_n a /\ 0 <= a_x a < a_n a /\ 0 <= a_y a < a_n a /\ a_x a <> a_y a /\ a_xw a = a_x a /\ a_yw a = a_y a.
Proof. exact Lemmas.image_axes_distinct. Qed.
Print Assumptions image_axes_distinct.
