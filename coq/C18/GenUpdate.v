(* C18 — translated viewer, the update handlers (no structural effect): what _update_subset / _update_data /
   _update_data_numerical call, and on which artists. *)
From Coq Require Import ZArith List Bool Lia.
Import ListNotations.
From GV Require Import Common.Wire C18.Model C18.LemmasViewer C18.GenEquiv1.
From GV Require gen.Gen_viewer.
Open Scope Z_scope.

(* the calls made for one artist by _update_data *)
Definition upd_calls (cc : bool) (a : G.artist) (h : G.heap) : G.heap :=
  let h := G.ev (G.EUpdate (G.art_layer a)) h in
  if cc then G.ev (G.EOnComponentsChanged (G.art_layer a)) h else h.

Lemma filter_none : forall (A : Type) (p : A -> bool) l, (forall x, In x l -> p x = false) -> filter p l = [].
Proof.
  intros A p l. induction l as [| x t IH]; intros H; simpl; [reflexivity |].
  rewrite (H x) by (left; reflexivity). apply IH. intros y Hy. apply H. right. exact Hy.
Qed.

(* SubsetUpdateMessage: nothing for a style change; otherwise update() on the artists of that subset (if it is shown) *)
Theorem gen_update_subset_spec : forall cb m h,
  G.Viewer__update_subset cb m h =
  if G.msg_attribute m =? G.ATTR_style then h
  else fold_left (fun h a => G.ev (G.EUpdate (G.art_layer a)) h)
                 (filter (fun a => layer_eqb (G.art_layer a) (G.msg_obj m)) (G.h_artists h)) h.
Proof.
  intros cb m h. unfold G.Viewer__update_subset. destruct (G.msg_attribute m =? G.ATTR_style); [reflexivity |].
  rewrite contains_has. destruct (has (G.msg_obj m) (heap_arts h)) eqn:E; [reflexivity |].
  apply has_false in E. rewrite filter_none; [reflexivity |].
  intros a Ha. destruct (layer_eqb (G.art_layer a) (G.msg_obj m)) eqn:Ea; [| reflexivity].
  apply layer_eqb_eq in Ea. exfalso. apply E. rewrite <- Ea. unfold heap_arts. apply in_map. exact Ha.
Qed.

(* a data message about dataset d (ComponentsChanged, ExternallyDerivableComponentsChanged, NumericalDataChanged): only when the
   dataset itself is shown; then update() (and _on_components_changed when the message carries components_changed) on the
   artists of d and of its subsets, in zorder order *)
Theorem gen_update_data_spec : forall cb m h d, G.msg_obj m = LData d ->
  G.Viewer__update_data cb m h =
  (if has (LData d) (heap_arts h)
   then fold_left (fun h a => if layer_data (G.art_layer a) =? d then upd_calls (G.msg_has_components_changed m) a h else h)
                  (G.sort_by (fun x => G.art_z x) (G.h_artists h)) h
   else h) /\
  G.Viewer__update_data_numerical cb m h = G.Viewer__update_data cb m h.
Proof.
  intros cb m h d Hm. split; [| reflexivity].
  unfold G.Viewer__update_data. rewrite contains_has, Hm. destruct (has (LData d) (heap_arts h)); [| reflexivity].
  unfold G.LayerArtistContainer___iter__.
  generalize (G.sort_by (fun x => G.art_z x) (G.h_artists h)) as L. intros L. revert h.
  induction L as [| a t IH]; intros h; [reflexivity |]. cbn [fold_left]. rewrite <- IH. f_equal.
  unfold upd_calls. destruct (G.art_layer a) as [e | s e g]; cbn [G.is_data negb G.obj_data layer_data G.layer_eqb];
    destruct (e =? d); reflexivity.
Qed.

(* none of them touches the artists, the layer states or anything but the trace *)
Theorem gen_update_frame : forall cb m h,
  set_trace [] (G.Viewer__update_subset cb m h) = set_trace [] h /\
  set_trace [] (G.Viewer__update_data cb m h) = set_trace [] h.
Proof.
  intros cb m h. split.
  - rewrite gen_update_subset_spec. destruct (G.msg_attribute m =? G.ATTR_style); [reflexivity |].
    generalize (filter (fun a => layer_eqb (G.art_layer a) (G.msg_obj m)) (G.h_artists h)) as L. intros L. revert h.
    induction L as [| a t IH]; intros h; [reflexivity |]. cbn [fold_left]. rewrite IH. reflexivity.
  - unfold G.Viewer__update_data. destruct (G.LayerArtistContainer___contains__ (G.msg_obj m) h); [| reflexivity].
    generalize (G.LayerArtistContainer___iter__ h) as L. intros L.
    assert (Hgen : forall L h0, set_trace [] (fold_left (fun h1 layer_artist =>
              if negb (G.is_data (G.art_layer layer_artist))
              then if G.layer_eqb (G.obj_data (G.art_layer layer_artist)) (G.msg_obj m)
                   then let h2 := G.ev (G.EUpdate (G.art_layer layer_artist)) h1 in
                        let h3 := (if G.msg_has_components_changed m then G.ev (G.EOnComponentsChanged (G.art_layer layer_artist)) h2 else h2) in h3
                   else h1
              else if G.layer_eqb (G.art_layer layer_artist) (G.msg_obj m)
                   then let h2 := G.ev (G.EUpdate (G.art_layer layer_artist)) h1 in
                        let h3 := (if G.msg_has_components_changed m then G.ev (G.EOnComponentsChanged (G.art_layer layer_artist)) h2 else h2) in h3
                   else h1) L h0) = set_trace [] h0).
    { clear L. induction L as [| a t IH]; intros h0; [reflexivity |]. cbn [fold_left]. rewrite IH.
      destruct (negb (G.is_data (G.art_layer a))); [destruct (G.layer_eqb (G.obj_data (G.art_layer a)) (G.msg_obj m)) | destruct (G.layer_eqb (G.art_layer a) (G.msg_obj m))];
        try reflexivity; cbv zeta; destruct (G.msg_has_components_changed m); reflexivity. }
    apply Hgen.
Qed.
