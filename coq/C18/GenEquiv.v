(* C18 — translated viewer, part 6: histories.  On every history without user-opened delay blocks the translated machine
   (Model.v part 5: coq/gen/Gen_viewer.v + the collection) and the hand model make the same steps, and the invariant of
   viewer_inv_reachable is transported to the translated definitions. *)
From Coq Require Import ZArith List Bool Lia.
Import ListNotations.
From GV Require Import Common.Wire C18.Model C18.LemmasViewer C18.LemmasViewer2 C18.LemmasBlocks C18.GenEquiv1 C18.GenEquiv2 C18.GenEquiv3 C18.GenEquiv4.
From GV Require gen.Gen_viewer.
Open Scope Z_scope.

Lemma ghost_same_dc : forall o (a b : vstate) given, dc a = dc b -> ghost_step o a given = ghost_step o b given.
Proof. intros o a b given H. destruct o; simpl; try reflexivity. rewrite H. reflexivity. Qed.

Lemma grun_refines : forall ops st p given, no_blocks ops = true -> grel st p ->
  let r := run_d ops (st, None) given in
  let g := grun ops p given in
  snd (fst r) = None /\ grel (fst (fst r)) (fst g) /\ snd r = snd g.
Proof.
  induction ops as [| x t IH]; intros st p given Hg Hr; simpl.
  - tauto.
  - simpl in Hg. apply andb_true_iff in Hg. destruct Hg as [Hx Ht]. destruct x as [o | |]; try discriminate Hx.
    cbn [dstep gdstep fst snd is_some dghost].
    destruct (gstep_refines o st p Hr) as [R1 _].
    assert (Eg : ghost_step o st given = ghost_step o (fst p) given).
    { apply ghost_same_dc. destruct Hr as ((_ & D & _) & _). symmetry. exact D. }
    rewrite Eg. apply IH; assumption.
Qed.

Lemma grel_init : forall fx, grel (init_v fx) (ginit fx).
Proof.
  intros fx. unfold grel, ginit; simpl. split; [apply same_coll_refl |]. split; [reflexivity |]. split; [reflexivity |].
  split; [| split; [reflexivity | intros d; reflexivity]].
  constructor; simpl; try reflexivity; try constructor. intros a [].
Qed.

(* the step-by-step agreement, as cited by Property.v *)
Theorem gen_step_refines : forall (o : op) (st : vstate) (p : vstate * Gen_viewer.heap),
  grel st p ->
  grel (fst (step o st)) (fst (gstep o p)) /\ snd (step o st) = snd (gstep o p).
Proof. intros o st p Hr. rewrite <- step_d_false. apply gstep_refines. exact Hr. Qed.

(* the two callbacks that keep container and state.layers in step are idle on a heap in step (whatever they would call back) *)
Theorem gen_sync_idle : forall cb h, hinv h ->
  Gen_viewer.Viewer__sync_state_layers cb h = h /\ Gen_viewer.Viewer__sync_layer_artist_container cb h = h.
Proof.
  intros cb h Hi. split.
  - apply sync_state_noop. intros s Hs. apply has_In. rewrite (hi_layers h Hi) in Hs. apply in_map_iff in Hs.
    destruct Hs as [a [Ea Ha]]. subst s. simpl. unfold heap_arts. apply in_map. exact Ha.
  - apply sync_container_noop. intros a Ha. apply has_In. rewrite (hinv_sls h Hi). unfold heap_arts. apply in_map. exact Ha.
Qed.

Theorem gen_viewer_inv_reachable : forall (fx : bool) (ops : list dop),
  no_blocks ops = true ->
  let r := grun ops (ginit fx) [] in
  let st := gview (fst r) in
  let given := snd r in
  Gen_viewer.h_err (snd (fst r)) = false /\
  sls st = arts st /\ NoDup (arts st) /\ NoDup given /\
  (forall d, In d given -> In d (dc st)) /\
  (forall d, In (LData d) (arts st) <-> In d given) /\
  (forall s d g, In (LSub s d g) (arts st) -> In d (dc st) /\ exists lv, In (mkSub s d g lv) (subs st)) /\
  (forall s d g lv, In d given -> In (mkSub s d g lv) (subs st) -> In (LSub s d g) (arts st)) /\
  (fx = true -> forall s d g, In (LSub s d g) (arts st) -> In g (groups st)).
Proof.
  intros fx ops Hg.
  destruct (grun_refines ops (init_v fx) (ginit fx) [] Hg (grel_init fx)) as (_ & Hr & Egiven).
  pose proof (LemmasBlocks.viewer_inv_reachable fx ops Hg) as Hv.
  cbv zeta in Hv. cbv zeta.
  set (r := grun ops (ginit fx) []) in *.
  set (st0 := fst (fst (run_d ops (init_v fx, None) []))) in *.
  rewrite Egiven in Hv.
  destruct Hr as ((F1 & F2 & F3 & F4 & F5) & Ha & Hs & Hi & _).
  assert (Earts : arts (gview (fst r)) = arts st0) by exact Ha.
  assert (Esls : sls (gview (fst r)) = arts st0).
  { unfold gview; simpl. rewrite (hinv_sls _ Hi). exact Ha. }
  assert (Edc : dc (gview (fst r)) = dc st0) by exact F2.
  assert (Egr : groups (gview (fst r)) = groups st0) by exact F3.
  assert (Esb : subs (gview (fst r)) = subs st0) by exact F4.
  rewrite Earts, Esls, Edc, Egr, Esb.
  split; [apply (hi_err _ Hi) |].
  destruct Hv as (V1 & V2 & V3 & V4 & V5 & V6 & V7 & V8).
  split; [reflexivity |]. tauto.
Qed.
