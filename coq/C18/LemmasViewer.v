(* C18 part 1 — the viewer mirrors the collection *)
From Coq Require Import ZArith List Bool Lia.
Import ListNotations.
From GV Require Import Common.Wire C18.Model C18.LemmasPicker.
Open Scope Z_scope.

(* ------------------------------------------------------------------ generic list facts *)
Lemma In_zremove : forall x y l, In y (zremove x l) <-> In y l /\ y <> x.
Proof.
  intros x y l. unfold zremove. rewrite filter_In. split; intros [A B]; split; try exact A.
  - apply negb_true_iff in B. apply Z.eqb_neq in B. exact B.
  - apply negb_true_iff. apply Z.eqb_neq. exact B.
Qed.

Lemma NoDup_filter' : forall (A : Type) (f : A -> bool) l, NoDup l -> NoDup (filter f l).
Proof.
  intros A f l H. induction H as [| x l Hn Hd IH]; simpl; [constructor |].
  destruct (f x); [constructor; [| exact IH] | exact IH].
  intro Hin. apply filter_In in Hin. tauto.
Qed.

Lemma NoDup_snoc : forall (A : Type) (l : list A) x, NoDup l -> ~ In x l -> NoDup (l ++ [x]).
Proof.
  intros A l x H Hn. induction H as [| y l Hy Hd IH]; simpl.
  - constructor; [tauto | constructor].
  - constructor.
    + intro Hin. apply in_app_or in Hin. destruct Hin as [Hin | [Hin | []]]; [tauto |]. subst. apply Hn. left. reflexivity.
    + apply IH. intro Hin. apply Hn. right. exact Hin.
Qed.

Lemma filter_all : forall (A : Type) (f : A -> bool) l, (forall x, In x l -> f x = true) -> filter f l = l.
Proof.
  intros A f l H. induction l as [| x t IH]; simpl; [reflexivity |].
  rewrite (H x (or_introl eq_refl)). f_equal. apply IH. intros y Hy. apply H. right. exact Hy.
Qed.

Lemma filter_ext_in' : forall (A : Type) (f g : A -> bool) l, (forall x, In x l -> f x = g x) -> filter f l = filter g l.
Proof.
  intros A f g l H. induction l as [| x t IH]; simpl; [reflexivity |].
  rewrite (H x (or_introl eq_refl)). rewrite IH; [reflexivity |]. intros y Hy. apply H. right. exact Hy.
Qed.

(* ------------------------------------------------------------------ layers *)
Lemma layer_eqb_eq : forall a b, layer_eqb a b = true <-> a = b.
Proof.
  intros [d | s d g] [e | s' d' g']; simpl; split; intros H; try discriminate.
  - apply Z.eqb_eq in H. congruence.
  - inversion H. apply Z.eqb_refl.
  - apply andb_true_iff in H. destruct H as [H H3]. apply andb_true_iff in H. destruct H as [H1 H2].
    apply Z.eqb_eq in H1, H2, H3. congruence.
  - inversion H. rewrite !Z.eqb_refl. reflexivity.
Qed.

Lemma has_In : forall l ls, has l ls = true <-> In l ls.
Proof.
  intros l ls. unfold has. rewrite existsb_exists. split.
  - intros [x [Hx E]]. apply layer_eqb_eq in E. subst. exact Hx.
  - intros H. exists l. split; [exact H | apply layer_eqb_eq; reflexivity].
Qed.

Lemma has_false : forall l ls, has l ls = false <-> ~ In l ls.
Proof. intros l ls. rewrite <- has_In. destruct (has l ls); split; intro H; congruence. Qed.

(* the two sync callbacks, on lists *)
Lemma filter_has_self : forall l, filter (fun a => has a l) l = l.
Proof. intros l. apply filter_all. intros x Hx. apply has_In. exact Hx. Qed.

Lemma filter_has_filter : forall p l, filter (fun a => has a (filter p l)) l = filter p l.
Proof.
  intros p l. apply filter_ext_in'. intros x Hx.
  destruct (p x) eqn:E.
  - apply has_In. apply filter_In. split; assumption.
  - apply has_false. intro H. apply filter_In in H. destruct H as [_ H]. congruence.
Qed.

(* ------------------------------------------------------------------ the viewer primitives when artists and layer states agree *)
Definition same_coll (a b : vstate) : Prop :=
  fixed a = fixed b /\ dc a = dc b /\ groups a = groups b /\ subs a = subs b /\ next a = next b.

Lemma same_coll_refl : forall a, same_coll a a.
Proof. intros a. unfold same_coll. tauto. Qed.

Lemma same_coll_trans : forall a b c, same_coll a b -> same_coll b c -> same_coll a c.
Proof. unfold same_coll. intros a b c (A1 & A2 & A3 & A4 & A5) (B1 & B2 & B3 & B4 & B5). repeat split; congruence. Qed.

Definition vsync (st : vstate) : Prop := sls st = arts st /\ NoDup (arts st).

Lemma add_layer_spec : forall l st, vsync st -> ~ In l (arts st) ->
  arts (add_layer l st) = arts st ++ [l] /\ sls (add_layer l st) = arts st ++ [l] /\ same_coll (add_layer l st) st.
Proof.
  intros l st [Hs Hn] Hl. unfold add_layer, sync_container, sync_state_layers, set_v; simpl.
  rewrite Hs.
  assert (E1 : filter (fun a => has a (arts st ++ [l])) (arts st) = arts st).
  { apply filter_all. intros x Hx. apply has_In. apply in_or_app. left. exact Hx. }
  rewrite E1. rewrite filter_has_self.
  repeat split; reflexivity.
Qed.

Lemma add_subset_layer_spec : forall l st, vsync st ->
  vsync (add_subset_layer l st) /\ same_coll (add_subset_layer l st) st /\
  (forall x, In x (arts (add_subset_layer l st)) <-> In x (arts st) \/ x = l).
Proof.
  intros l st Hv. unfold add_subset_layer. destruct (has l (arts st)) eqn:E.
  - split; [exact Hv |]. split; [apply same_coll_refl |]. intros x. split; [tauto |].
    intros [H | H]; [exact H | subst; apply has_In; exact E].
  - apply has_false in E. destruct (add_layer_spec l st Hv E) as [A [B C]].
    split; [| split; [exact C |]].
    + unfold vsync. rewrite A, B. split; [reflexivity |]. apply NoDup_snoc; [apply Hv | exact E].
    + intros x. rewrite A. rewrite in_app_iff. simpl. intuition congruence.
Qed.

Lemma remove_data_spec : forall d st, vsync st ->
  arts (remove_data d st) = filter (fun l => negb (layer_data l =? d)) (arts st) /\
  sls (remove_data d st) = arts (remove_data d st) /\ same_coll (remove_data d st) st.
Proof.
  intros d st [Hs Hn]. unfold remove_data, sync_container, sync_state_layers, set_v; simpl.
  rewrite Hs. rewrite filter_has_filter. rewrite filter_has_self.
  repeat split; reflexivity.
Qed.

Lemma remove_subset_spec : forall l st, vsync st ->
  arts (remove_subset l st) = filter (fun a => negb (layer_eqb l a)) (arts st) /\
  sls (remove_subset l st) = arts (remove_subset l st) /\ same_coll (remove_subset l st) st.
Proof.
  intros l st [Hs Hn]. unfold remove_subset. destruct (has l (arts st)) eqn:E.
  - unfold sync_container, sync_state_layers, set_v; simpl. rewrite Hs.
    rewrite filter_has_filter. rewrite filter_has_self. repeat split; reflexivity.
  - apply has_false in E. split; [| split; [exact Hs | apply same_coll_refl]].
    symmetry. apply filter_all. intros x Hx. apply negb_true_iff.
    destruct (layer_eqb l x) eqn:E2; [| reflexivity]. apply layer_eqb_eq in E2. subst. contradiction.
Qed.

Lemma vsync_filter : forall st a p, vsync st -> arts a = filter p (arts st) -> sls a = arts a -> vsync a.
Proof. intros st a p [Hs Hn] Ha Hsa. split; [exact Hsa |]. rewrite Ha. apply NoDup_filter'. exact Hn. Qed.

(* folds of handlers *)
Lemma fold_add_subsets : forall L st, vsync st ->
  let st' := fold_left (fun v s => add_subset_layer (lay s) v) L st in
  vsync st' /\ same_coll st' st /\ (forall x, In x (arts st') <-> In x (arts st) \/ exists s, In s L /\ x = lay s).
Proof.
  induction L as [| s t IH]; intros st Hv; simpl.
  - split; [exact Hv |]. split; [apply same_coll_refl |]. intros x. split; [tauto |]. intros [H | [s [[] _]]]. exact H.
  - destruct (add_subset_layer_spec (lay s) st Hv) as [A [B C]].
    destruct (IH _ A) as [A' [B' C']].
    split; [exact A' |]. split; [eapply same_coll_trans; eassumption |].
    intros x. rewrite C'. rewrite C. split.
    + intros [[H | H] | [s' [H1 H2]]]; [tauto | right; exists s; tauto | right; exists s'; tauto].
    + intros [H | [s' [[H1 | H1] H2]]]; [tauto | subst; tauto | right; exists s'; tauto].
Qed.

Lemma fold_created : forall L st, vsync st ->
  let st' := fold_left (fun v s => on_sub_created s v) L st in
  vsync st' /\ same_coll st' st /\
  (forall x, In x (arts st') <-> In x (arts st) \/ exists s, In s L /\ x = lay s /\ In (LData (s_d s)) (arts st)).
Proof.
  induction L as [| s t IH]; intros st Hv; simpl.
  - split; [exact Hv |]. split; [apply same_coll_refl |]. intros x. split; [tauto |]. intros [H | [s [[] _]]]. exact H.
  - assert (Hstep : vsync (on_sub_created s st) /\ same_coll (on_sub_created s st) st /\
                    (forall x, In x (arts (on_sub_created s st)) <-> In x (arts st) \/ (x = lay s /\ In (LData (s_d s)) (arts st)))).
    { unfold on_sub_created. destruct (has (LData (s_d s)) (arts st)) eqn:E.
      - apply has_In in E. destruct (add_subset_layer_spec (lay s) st Hv) as [A [B C]].
        split; [exact A |]. split; [exact B |]. intros x. rewrite C. tauto.
      - apply has_false in E. split; [exact Hv |]. split; [apply same_coll_refl |]. intros x. tauto. }
    destruct Hstep as [A [B C]].
    destruct (IH _ A) as [A' [B' C']].
    split; [exact A' |]. split; [eapply same_coll_trans; eassumption |].
    assert (Hd : forall d, In (LData d) (arts (on_sub_created s st)) <-> In (LData d) (arts st)).
    { intros d. rewrite C. split; [| tauto]. intros [H | [H _]]; [exact H | discriminate]. }
    intros x. rewrite C'. rewrite C. split.
    + intros [[H | [H1 H2]] | [s' [H1 [H2 H3]]]].
      * tauto.
      * right. exists s. tauto.
      * right. exists s'. rewrite Hd in H3. tauto.
    + intros [H | [s' [[H1 | H1] [H2 H3]]]].
      * tauto.
      * subst s'. tauto.
      * right. exists s'. rewrite Hd. tauto.
Qed.

Lemma fold_deleted : forall L st, vsync st ->
  let st' := fold_left (fun v s => on_sub_deleted s v) L st in
  vsync st' /\ same_coll st' st /\
  (forall x, In x (arts st') <-> In x (arts st) /\ forall s, In s L -> x <> lay s).
Proof.
  induction L as [| s t IH]; intros st Hv; simpl.
  - split; [exact Hv |]. split; [apply same_coll_refl |]. intros x. split; [| tauto]. intros H. split; [exact H | intros s []].
  - unfold on_sub_deleted at 2.
    destruct (remove_subset_spec (lay s) st Hv) as [A [B C]].
    assert (Hv1 : vsync (remove_subset (lay s) st)) by (eapply vsync_filter; eassumption).
    destruct (IH _ Hv1) as [A' [B' C']].
    split; [exact A' |]. split; [eapply same_coll_trans; eassumption |].
    intros x. rewrite C'. rewrite A. rewrite filter_In. split.
    + intros [[H1 H2] H3]. split; [exact H1 |]. intros s' [Hs | Hs]; [| apply H3; exact Hs].
      subst s'. intro Hx. subst x. apply negb_true_iff in H2.
      assert (layer_eqb (lay s) (lay s) = true) by (apply layer_eqb_eq; reflexivity). congruence.
    + intros [H1 H2]. split; [split; [exact H1 |] |].
      * apply negb_true_iff. destruct (layer_eqb (lay s) x) eqn:E; [| reflexivity].
        apply layer_eqb_eq in E. exfalso. apply (H2 s); [left; reflexivity | congruence].
      * intros s' Hs. apply H2. right. exact Hs.
Qed.

(* ------------------------------------------------------------------ subsets *)
Lemma new_subs_props : forall ps n,
  Forall (fun s => n <= s_id s < n + Z.of_nat (length ps) /\ s_live s = true /\ In (s_d s, s_g s) ps) (new_subs n ps) /\
  NoDup (map s_id (new_subs n ps)).
Proof.
  induction ps as [| [d g] t IH]; intros n; simpl.
  - split; constructor.
  - destruct (IH (n + 1)) as [A B]. split.
    + constructor; [simpl; split; [lia | split; [reflexivity | left; reflexivity]] |].
      eapply Forall_impl; [| exact A]. simpl. intros s [H1 [H2 H3]]. split; [lia | split; [exact H2 | right; exact H3]].
    + simpl. constructor; [| exact B].
      intro Hin. apply in_map_iff in Hin. destruct Hin as [s [Hs1 Hs2]].
      rewrite Forall_forall in A. specialize (A s Hs2). lia.
Qed.

Lemma new_subs_length : forall ps n, length (new_subs n ps) = length ps.
Proof. induction ps as [| [d g] t IH]; intros n; simpl; [reflexivity | rewrite IH; reflexivity]. Qed.

Lemma NoDup_map_inj : forall (l : list sub) a b, NoDup (map s_id l) -> In a l -> In b l -> s_id a = s_id b -> a = b.
Proof.
  induction l as [| x t IH]; intros a b Hn Ha Hb E; [destruct Ha |].
  simpl in Hn. inversion Hn as [| ? ? Hx Ht]; subst.
  destruct Ha as [Ha | Ha]; destruct Hb as [Hb | Hb]; subst.
  - reflexivity.
  - exfalso. apply Hx. rewrite E. apply in_map. exact Hb.
  - exfalso. apply Hx. rewrite <- E. apply in_map. exact Ha.
  - apply IH; assumption.
Qed.

Lemma NoDup_map_app : forall (a b : list sub), NoDup (map s_id a) -> NoDup (map s_id b) ->
  (forall x y, In x a -> In y b -> s_id x <> s_id y) -> NoDup (map s_id (a ++ b)).
Proof.
  induction a as [| x t IH]; intros b Ha Hb Hd; simpl; [exact Hb |].
  simpl in Ha. inversion Ha as [| ? ? Hx Ht]; subst.
  constructor.
  - rewrite map_app. intro Hin. apply in_app_or in Hin. destruct Hin as [Hin | Hin]; [contradiction |].
    apply in_map_iff in Hin. destruct Hin as [y [E Hy]]. apply (Hd x y); [left; reflexivity | exact Hy | congruence].
  - apply IH; [exact Ht | exact Hb |]. intros p q Hp Hq. apply Hd; [right; exact Hp | exact Hq].
Qed.

Lemma NoDup_map_filter : forall (f : sub -> bool) l, NoDup (map s_id l) -> NoDup (map s_id (filter f l)).
Proof.
  intros f l. induction l as [| x t IH]; intros H; simpl; [constructor |].
  simpl in H. inversion H as [| ? ? Hx Ht]; subst.
  destruct (f x); simpl; [constructor; [| apply IH; exact Ht] | apply IH; exact Ht].
  intro Hin. apply Hx. apply in_map_iff in Hin. destruct Hin as [y [E Hy]]. apply filter_In in Hy.
  apply in_map_iff. exists y. tauto.
Qed.

Lemma sub_eta : forall x, x = mkSub (s_id x) (s_d x) (s_g x) (s_live x).
Proof. intros [a b c d]. reflexivity. Qed.

(* ------------------------------------------------------------------ invariants *)
Definition cinv (st : vstate) : Prop :=
  NoDup (dc st) /\ NoDup (groups st) /\ NoDup (map s_id (subs st)) /\
  Forall (fun s => s_id s < next st) (subs st) /\
  (fixed st = true -> Forall (fun s => s_live s = true /\ In (s_d s) (dc st) /\ In (s_g s) (groups st)) (subs st)).

(* the viewer relative to the collection and to `given` (the datasets handed over with add_data and not taken away since):
   - the dataset layers are exactly the given datasets, all of them in the collection;
   - every subset layer is a current subset (a member of data.subsets) of a dataset that is in the collection:
     nothing remains for removed datasets, subsets or groups, also for subsets that were handed over alone;
   - every current subset of a given dataset has its layer *)
Definition vinv (st : vstate) (given : list Z) : Prop :=
  vsync st /\ NoDup given /\ (forall d, In d given -> In d (dc st)) /\
  (forall d, In (LData d) (arts st) <-> In d given) /\
  (forall s d g, In (LSub s d g) (arts st) -> In d (dc st) /\ exists lv, In (mkSub s d g lv) (subs st)) /\
  (forall x, In x (subs st) -> In (s_d x) given -> In (lay x) (arts st)).

Lemma lay_eq : forall x s d g, lay x = LSub s d g <-> exists lv, x = mkSub s d g lv.
Proof.
  intros [a b c e] s d g. unfold lay; simpl. split.
  - intros H. inversion H. exists e. reflexivity.
  - intros [lv H]. inversion H. reflexivity.
Qed.

Lemma mk_same_coll : forall st st', same_coll st' st ->
  fixed st' = fixed st /\ dc st' = dc st /\ groups st' = groups st /\ subs st' = subs st /\ next st' = next st.
Proof. intros st st' H. exact H. Qed.

Lemma cinv_same_coll : forall st st', same_coll st' st -> cinv st -> cinv st'.
Proof.
  intros st st' (A & B & C & D & E) H. unfold cinv in *. rewrite A, B, C, D, E. exact H.
Qed.

Ltac same_coll_rw H :=
  let A := fresh "Hfx" in let B := fresh "Hdc" in let C := fresh "Hgr" in let D := fresh "Hsb" in let E := fresh "Hnx" in
  destruct H as (A & B & C & D & E).

(* ---- the collection invariant ---- *)
Lemma step_cinv : forall o st, vsync st -> cinv st -> cinv (fst (step o st)).
Proof.
  intros o st Hv (Hdc & Hgr & Hids & Hlt & Hfx).
  destruct o as [d | d | g | g | d | d | s d g | | d]; simpl.
  - (* Append *)
    destruct (zmem d (dc st)) eqn:Ed; simpl; [unfold cinv; tauto |].
    apply zmem_false in Ed.
    set (nw := new_subs (next st) (map (fun g => (d, g)) (groups st))).
    set (st1 := mkV _ _ _ _ _ _ _).
    assert (Hv1 : vsync st1) by exact Hv.
    destruct (fold_created nw st1 Hv1) as [_ [Hsc _]].
    apply (cinv_same_coll st1); [exact Hsc |].
    destruct (new_subs_props (map (fun g => (d, g)) (groups st)) (next st)) as [Hp Hnd]. fold nw in Hp, Hnd.
    rewrite Forall_forall in Hp.
    unfold cinv, st1; simpl. split; [apply NoDup_snoc; assumption |]. split; [exact Hgr |].
    split; [| split].
    + apply NoDup_map_app; [exact Hids | exact Hnd |]. intros x y Hx Hy.
      rewrite Forall_forall in Hlt. specialize (Hlt x Hx). specialize (Hp y Hy). lia.
    + apply Forall_app. split.
      * eapply Forall_impl; [| exact Hlt]. simpl. intros a Ha. lia.
      * apply Forall_forall. intros y Hy. specialize (Hp y Hy). unfold nw in Hp |- *. rewrite new_subs_length in *. lia.
    + intros Hf. apply Forall_app. split.
      * eapply Forall_impl; [| exact (Hfx Hf)]. simpl. intros a [A1 [A2 A3]]. split; [exact A1 |]. split; [apply in_or_app; left; exact A2 | exact A3].
      * apply Forall_forall. intros y Hy. destruct (Hp y Hy) as [_ [L Hin]]. split; [exact L |].
        apply in_map_iff in Hin. destruct Hin as [g [Hg1 Hg2]]. inversion Hg1. subst.
        split; [apply in_or_app; right; left; reflexivity | exact Hg2].
  - (* Remove *)
    destruct (negb (zmem d (dc st))) eqn:Ed; simpl; [unfold cinv; tauto |].
    set (st1 := mkV _ _ _ _ _ _ _).
    assert (Hv1 : vsync st1) by exact Hv.
    destruct (remove_data_spec d st1 Hv1) as [_ [_ Hsc]].
    apply (cinv_same_coll st1); [exact Hsc |].
    unfold cinv, st1; simpl. split; [apply NoDup_filter'; exact Hdc |]. split; [exact Hgr |].
    destruct (fixed st) eqn:Ef.
    + split; [apply NoDup_map_filter; exact Hids |]. split.
      * apply Forall_forall. intros x Hx. apply filter_In in Hx. rewrite Forall_forall in Hlt. apply Hlt. tauto.
      * intros _. specialize (Hfx eq_refl). rewrite Forall_forall in Hfx. apply Forall_forall. intros x Hx.
        apply filter_In in Hx. destruct Hx as [Hx Hp]. destruct (Hfx x Hx) as [L [D G]].
        split; [exact L |]. split; [| exact G]. apply In_zremove. split; [exact D |].
        rewrite L in Hp. rewrite andb_true_r in Hp. apply negb_true_iff in Hp. apply Z.eqb_neq in Hp. exact Hp.
    + assert (Hm : map s_id (map (fun s => if s_d s =? d then unlive s else s) (subs st)) = map s_id (subs st)).
      { rewrite map_map. apply map_ext. intros a. destruct (s_d a =? d); reflexivity. }
      split; [rewrite Hm; exact Hids |]. split; [| discriminate].
      apply Forall_forall. intros x Hx. apply in_map_iff in Hx. destruct Hx as [y [E Hy]].
      rewrite Forall_forall in Hlt. specialize (Hlt y Hy). destruct (s_d y =? d); subst x; simpl; exact Hlt.
  - (* NewGroup *)
    destruct (zmem g (groups st)) eqn:Eg; simpl; [unfold cinv; tauto |].
    apply zmem_false in Eg.
    set (nw := new_subs (next st) (map (fun d => (d, g)) (dc st))).
    set (st1 := mkV _ _ _ _ _ _ _).
    assert (Hv1 : vsync st1) by exact Hv.
    destruct (fold_created nw st1 Hv1) as [_ [Hsc _]].
    apply (cinv_same_coll st1); [exact Hsc |].
    destruct (new_subs_props (map (fun d => (d, g)) (dc st)) (next st)) as [Hp Hnd]. fold nw in Hp, Hnd.
    rewrite Forall_forall in Hp.
    unfold cinv, st1; simpl. split; [exact Hdc |]. split; [apply NoDup_snoc; assumption |].
    split; [| split].
    + apply NoDup_map_app; [exact Hids | exact Hnd |]. intros x y Hx Hy.
      rewrite Forall_forall in Hlt. specialize (Hlt x Hx). specialize (Hp y Hy). lia.
    + apply Forall_app. split.
      * eapply Forall_impl; [| exact Hlt]. simpl. intros a Ha. lia.
      * apply Forall_forall. intros y Hy. specialize (Hp y Hy). unfold nw in Hp |- *. rewrite new_subs_length in *. lia.
    + intros Hf. apply Forall_app. split.
      * eapply Forall_impl; [| exact (Hfx Hf)]. simpl. intros a [A1 [A2 A3]]. split; [exact A1 |]. split; [exact A2 | apply in_or_app; left; exact A3].
      * apply Forall_forall. intros y Hy. destruct (Hp y Hy) as [_ [L Hin]]. split; [exact L |].
        apply in_map_iff in Hin. destruct Hin as [d0 [Hg1 Hg2]]. inversion Hg1. subst.
        split; [exact Hg2 | apply in_or_app; right; left; reflexivity].
  - (* RemoveGroup *)
    destruct (negb (zmem g (groups st))) eqn:Eg; simpl; [unfold cinv; tauto |].
    set (dead := filter _ (subs st)).
    set (st1 := mkV _ _ _ _ _ _ _).
    assert (Hv1 : vsync st1) by exact Hv.
    destruct (fold_deleted dead st1 Hv1) as [_ [Hsc _]].
    apply (cinv_same_coll st1); [exact Hsc |].
    unfold cinv, st1; simpl. split; [exact Hdc |]. split; [apply NoDup_filter'; exact Hgr |].
    split; [apply NoDup_map_filter; exact Hids |]. split.
    + apply Forall_forall. intros x Hx. apply filter_In in Hx. rewrite Forall_forall in Hlt. apply Hlt. tauto.
    + intros Hf. specialize (Hfx Hf). rewrite Forall_forall in Hfx. apply Forall_forall. intros x Hx.
      apply filter_In in Hx. destruct Hx as [Hx Hp]. destruct (Hfx x Hx) as [L [D G]].
      split; [exact L |]. split; [exact D |]. apply In_zremove. split; [exact G |].
      rewrite L in Hp. rewrite andb_true_r in Hp. apply negb_true_iff in Hp. apply Z.eqb_neq in Hp. exact Hp.
  - (* AddData *)
    unfold add_data. destruct (has (LData d) (arts st)) eqn:E0; simpl; [unfold cinv; tauto |].
    destruct (negb (zmem d (dc st))) eqn:E1; simpl; [unfold cinv; tauto |].
    apply has_false in E0.
    destruct (add_layer_spec (LData d) st Hv E0) as [A [B C]].
    assert (Hv1 : vsync (add_layer (LData d) st)).
    { split; [rewrite A, B; reflexivity | rewrite A; apply NoDup_snoc; [apply Hv | exact E0]]. }
    destruct (fold_add_subsets (dsubs (subs st) d) _ Hv1) as [_ [Hsc _]].
    apply (cinv_same_coll st); [eapply same_coll_trans; eassumption | unfold cinv; tauto].
  - (* RemoveData *)
    destruct (remove_data_spec d st Hv) as [_ [_ Hsc]].
    apply (cinv_same_coll st); [exact Hsc | unfold cinv; tauto].
  - (* AddSubset *)
    destruct (zmem d (dc st) && sub_known (subs st) s d g); simpl; [| unfold cinv; tauto].
    destruct (add_subset_layer_spec (LSub s d g) st Hv) as [_ [Hsc _]].
    apply (cinv_same_coll st); [exact Hsc | unfold cinv; tauto].
  - (* SaveRestore *)
    unfold cinv; simpl. split; [exact Hdc |]. split; [exact Hgr |].
    split; [apply NoDup_map_filter; exact Hids |]. split.
    + apply Forall_forall. intros x Hx. apply filter_In in Hx. rewrite Forall_forall in Hlt. apply Hlt. tauto.
    + intros Hf. specialize (Hfx Hf). rewrite Forall_forall in Hfx. apply Forall_forall. intros x Hx.
      apply filter_In in Hx. apply Hfx. tauto.
  - (* RemoveLayer *)
    destruct (remove_subset_spec (LData d) st Hv) as [_ [_ Hsc]].
    apply (cinv_same_coll st); [exact Hsc | unfold cinv; tauto].
Qed.
