(* C18 part 4 — image viewer axes stay distinct axes of the reference data *)
From Coq Require Import ZArith List Bool Lia.
Import ListNotations.
From GV Require Import Common.Wire C18.Model.
Open Scope Z_scope.

Definition ainv (a : axes) : Prop := 2 <= a_n a /\ axes_ok a.

Lemma init_a_inv : forall n, 2 <= n -> ainv (init_a n).
Proof. intros n Hn. unfold ainv, axes_ok, init_a; simpl. lia. Qed.

Lemma astep_inv : forall o a, ainv a -> ainv (fst (astep o a)).
Proof.
  intros o a [Hn (Hx & Hy & Hne & Hxw & Hyw)].
  destruct a as [n x y xw yw]; simpl in *. subst xw yw.
  unfold ainv, axes_ok.
  destruct o as [v | v | v | v | m]; simpl; unfold in_range, on_xw, on_yw, other_axis; simpl.
  - destruct ((0 <=? v) && (v <? n)) eqn:Hr; simpl; [| lia].
    apply andb_true_iff in Hr. destruct Hr as [H0 H1]. apply Z.leb_le in H0. apply Z.ltb_lt in H1.
    destruct (v =? x) eqn:E1; simpl; [lia |].
    apply Z.eqb_neq in E1.
    destruct (v =? y) eqn:E3; simpl.
    + apply Z.eqb_eq in E3. subst v. destruct (y =? n - 1) eqn:E4; simpl; [apply Z.eqb_eq in E4 | apply Z.eqb_neq in E4]; lia.
    + apply Z.eqb_neq in E3. lia.
  - destruct ((0 <=? v) && (v <? n)) eqn:Hr; simpl; [| lia].
    apply andb_true_iff in Hr. destruct Hr as [H0 H1]. apply Z.leb_le in H0. apply Z.ltb_lt in H1.
    destruct (v =? y) eqn:E1; simpl; [lia |].
    apply Z.eqb_neq in E1.
    destruct (v =? x) eqn:E3; simpl.
    + apply Z.eqb_eq in E3. subst v. destruct (x =? n - 1) eqn:E4; simpl; [apply Z.eqb_eq in E4 | apply Z.eqb_neq in E4]; lia.
    + apply Z.eqb_neq in E3. lia.
  - destruct ((0 <=? v) && (v <? n)) eqn:Hr; simpl; [| lia].
    apply andb_true_iff in Hr. destruct Hr as [H0 H1]. apply Z.leb_le in H0. apply Z.ltb_lt in H1.
    destruct (v =? x) eqn:E1; simpl; [lia |].
    apply Z.eqb_neq in E1.
    destruct (v =? y) eqn:E3; simpl.
    + apply Z.eqb_eq in E3. subst v. destruct (y =? n - 1) eqn:E4; simpl; [apply Z.eqb_eq in E4 | apply Z.eqb_neq in E4]; lia.
    + apply Z.eqb_neq in E3. lia.
  - destruct ((0 <=? v) && (v <? n)) eqn:Hr; simpl; [| lia].
    apply andb_true_iff in Hr. destruct Hr as [H0 H1]. apply Z.leb_le in H0. apply Z.ltb_lt in H1.
    destruct (v =? y) eqn:E1; simpl; [lia |].
    apply Z.eqb_neq in E1.
    destruct (v =? x) eqn:E3; simpl.
    + apply Z.eqb_eq in E3. subst v. destruct (x =? n - 1) eqn:E4; simpl; [apply Z.eqb_eq in E4 | apply Z.eqb_neq in E4]; lia.
    + apply Z.eqb_neq in E3. lia.
  - destruct (m <? 2) eqn:E; simpl; [lia |]. apply Z.ltb_ge in E. lia.
Qed.

Lemma run_a_inv : forall ops a, ainv a -> ainv (run_a ops a).
Proof.
  induction ops as [| o t IH]; intros a Ha; simpl; [exact Ha |].
  apply IH. apply astep_inv. exact Ha.
Qed.

(* full statement: for a reference dataset with at least two dimensions, after any sequence of
   assignments to x_att, y_att, x_att_world, y_att_world (and changes of the reference data) the
   two pixel axes are distinct axes of the reference data and the world axes are the same axes *)
Theorem image_axes_distinct : forall (n : Z) (ops : list aop),
  2 <= n ->
  let a := run_a ops (init_a n) in
  2 <= a_n a /\ 0 <= a_x a < a_n a /\ 0 <= a_y a < a_n a /\ a_x a <> a_y a /\ a_xw a = a_x a /\ a_yw a = a_y a.
Proof.
  intros n ops Hn a. subst a.
  destruct (run_a_inv ops (init_a n) (init_a_inv n Hn)) as [H1 H2]. unfold axes_ok in H2. tauto.
Qed.

(* every assignment of a value that is not an axis of the reference data is rejected and changes nothing *)
Lemma astep_rejects : forall a v, in_range (a_n a) v = false ->
  astep (SetX v) a = (a, 1) /\ astep (SetY v) a = (a, 1) /\ astep (SetXW v) a = (a, 1) /\ astep (SetYW v) a = (a, 1).
Proof. intros a v H. simpl. rewrite H. simpl. auto. Qed.
