(* C18 — the functions translated from glue/core/data_combo_helper.py (coq/gen/Gen_picker.v) against part 2 of the hand
   model: ComponentIDComboHelper.refresh computes all_choices, the subscription table + _filter_msg compute `handle`,
   and the machine of Model.v part 6 makes the steps of part 2. *)
From Coq Require Import ZArith List Bool Lia.
Import ListNotations.
From GV Require Import Common.Wire C18.Model C18.LemmasPicker.
From GV Require gen.Gen_picker.
Module P := Gen_picker.
Open Scope Z_scope.

Definition gatt (c : P.gcid) : P.gchoice := P.GAtt (P.c_id c).

Lemma fold_sel : forall (K : P.gcid -> bool) L init,
  fold_left (fun cids cid => if K cid then cids ++ [P.GAtt (P.c_id cid)] else cids) L init = init ++ map gatt (filter K L).
Proof.
  intros K L. induction L as [| x t IH]; intros init; simpl; [rewrite app_nil_r; reflexivity |].
  destruct (K x); rewrite IH; [simpl; rewrite <- app_assoc; reflexivity | reflexivity].
Qed.

Lemma fold_all : forall L init,
  fold_left (fun cids cid => cids ++ [P.GAtt (P.c_id cid)]) L init = init ++ map gatt L.
Proof.
  intros L. induction L as [| x t IH]; intros init; simpl; [rewrite app_nil_r; reflexivity |].
  rewrite IH. rewrite <- app_assoc. reflexivity.
Qed.

Lemma len_gt1 : forall (A : Type) (x : A) l, (Z.of_nat (length (x :: l)) >? 1) = negb (isnil l).
Proof. intros A x [| y t]; [reflexivity |]. simpl length. unfold isnil. cbn [negb]. apply Z.gtb_lt. lia. Qed.

Lemma len_gt0 : forall (A : Type) (l : list A), (Z.of_nat (length l) >? 0) = negb (isnil l).
Proof. intros A [| y t]; [reflexivity |]. simpl length. unfold isnil. cbn [negb]. apply Z.gtb_lt. lia. Qed.

Lemma isnil_map : forall (A B : Type) (f : A -> B) l, isnil (map f l) = isnil l.
Proof. intros A B f [| x t]; reflexivity. Qed.

(* the block one dataset contributes, in closed form *)
Definition kind_test (h : P.helper) (cid : P.gcid) : bool :=
  ((P.c_kind cid =? 0) && P.hp_numeric h) || ((P.c_kind cid =? 1) && P.hp_datetime h) || ((P.c_kind cid =? 2) && P.hp_categorical h).

Definition gblock (h : P.helper) (multi : bool) (data : P.gdata) : list P.gchoice :=
  let ders := map gatt (filter (fun cid => P.c_owned cid) (P.gd_derived data)) in
  let ms := map gatt (filter (kind_test h) (P.gd_main data)) in
  let cs := (if P.hp_pixel_coord h then map gatt (P.gd_pixel data) else []) ++ (if P.hp_world_coord h then map gatt (P.gd_world data) else []) in
  (if multi then (if P.label_is_none (P.gd_label data) || P.label_eqb (P.gd_label data) P.LABEL_empty then [P.GSepText 5] else [P.GSepLabel (P.gd_id data)]) else []) ++
  (if isnil ms then [] else
     if P.hp_pixel_coord h || P.hp_world_coord h || (P.hp_derived h && negb (isnil ders)) then P.GSepText 2 :: ms else ms) ++
  (if P.hp_numeric h && P.hp_derived h then (if isnil ders then [] else P.GSepText 3 :: ders) else []) ++
  (if P.hp_pixel_coord h || P.hp_world_coord h then (if isnil cs then [] else P.GSepText 4 :: cs) else []).

Lemma refresh_closed : forall h,
  P.ComponentIDComboHelper_refresh h =
  (if P.hp_none h then [P.GNone] else []) ++ flat_map (gblock h (Z.of_nat (length (P.hp_data h)) >? 1)) (P.hp_data h).
Proof.
  intros h. unfold P.ComponentIDComboHelper_refresh. cbv zeta.
  match goal with |- fold_left ?F _ ?c0 = _ => set (F0 := F); set (init := c0) end.
  assert (HF : forall choices data, F0 choices data = choices ++ gblock h (Z.of_nat (length (P.hp_data h)) >? 1) data).
  { intros choices data. subst F0. cbv beta.
    rewrite (fold_sel (kind_test h)).
    rewrite fold_all.
    cbn [app].
    rewrite !len_gt1. rewrite !len_gt0. rewrite !isnil_map.
    unfold gblock. cbv zeta. rewrite !isnil_map.
    set (ders := filter (fun cid => P.c_owned cid) (P.gd_derived data)).
    set (ms := filter (kind_test h) (P.gd_main data)).
    destruct (Z.of_nat (length (P.hp_data h)) >? 1);
      destruct (P.label_is_none (P.gd_label data) || P.label_eqb (P.gd_label data) P.LABEL_empty);
      destruct (P.hp_numeric h); destruct (P.hp_derived h); destruct (P.hp_pixel_coord h); destruct (P.hp_world_coord h);
      destruct ms as [| m0 mt]; destruct ders as [| d0 dt];
      cbn [andb orb negb isnil map app tl fst snd];
      try rewrite !len_gt1; try rewrite !isnil_map;
      destruct (P.gd_pixel data) as [| p0 pt]; destruct (P.gd_world data) as [| w0 wt];
      cbn [andb orb negb isnil map app tl fst snd];
      rewrite <- ?app_assoc; rewrite ?app_nil_r; reflexivity. }
  assert (Hfold : forall L c, fold_left F0 L c = c ++ flat_map (gblock h (Z.of_nat (length (P.hp_data h)) >? 1)) L).
  { induction L as [| x t IH]; intros c; simpl; [rewrite app_nil_r; reflexivity |].
    rewrite HF, IH. rewrite <- app_assoc. reflexivity. }
  rewrite Hfold. subst init. destruct (P.hp_none h); reflexivity.
Qed.

(* ------------------------------------------------------------------ against the hand model's data_choices / all_choices *)
Lemma conv_main : forall l, map of_gchoice (map gatt (map to_cid_main l)) = map CAtt (map fst l).
Proof. induction l as [| x t IH]; simpl; [reflexivity | rewrite IH; reflexivity]. Qed.
Lemma conv_der : forall l, map of_gchoice (map gatt (map to_cid_der l)) = map CAtt (map fst l).
Proof. induction l as [| x t IH]; simpl; [reflexivity | rewrite IH; reflexivity]. Qed.
Lemma conv_coord : forall l, map of_gchoice (map gatt (map to_cid_coord l)) = map CAtt l.
Proof. induction l as [| x t IH]; simpl; [reflexivity | rewrite IH; reflexivity]. Qed.
Lemma owned_all : forall l, filter (fun cid => P.c_owned cid) (map to_cid_der l) = map to_cid_der l.
Proof. induction l as [| x t IH]; simpl; [reflexivity | rewrite IH; reflexivity]. Qed.
Lemma kind_filter : forall st l,
  filter (kind_test (helper_of st)) (map to_cid_main l) = map to_cid_main (filter (fun p => kind_ok (p_fl st) (snd p)) l).
Proof.
  intros st l. induction l as [| x t IH]; simpl; [reflexivity |].
  change (kind_test (helper_of st) (to_cid_main x)) with (kind_ok (p_fl st) (snd x)).
  destruct (kind_ok (p_fl st) (snd x)); simpl; rewrite IH; reflexivity.
Qed.

Lemma gblock_hand : forall st multi di,
  map of_gchoice (gblock (helper_of st) multi (to_gdata di)) = data_choices (p_fl st) multi di.
Proof.
  intros st multi di. unfold gblock, data_choices, mains, coords. cbv zeta.
  cbn [to_gdata P.gd_main P.gd_derived P.gd_pixel P.gd_world P.gd_label P.gd_id
       helper_of P.hp_none P.hp_numeric P.hp_datetime P.hp_categorical P.hp_pixel_coord P.hp_world_coord P.hp_derived].
  rewrite kind_filter, owned_all. rewrite !isnil_map.
  set (fm := filter (fun p => kind_ok (p_fl st) (snd p)) (di_main di)).
  change (P.label_is_none (Some 1) || P.label_eqb (Some 1) P.LABEL_empty) with false. cbv iota.
  destruct multi; destruct (f_num (p_fl st)); destruct (f_der (p_fl st)); destruct (f_pix (p_fl st)); destruct (f_wor (p_fl st));
    destruct fm as [| m0 mt]; destruct (di_der di) as [| d0 dt]; destruct (di_pix di) as [| p0 pt]; destruct (di_wor di) as [| w0 wt];
    cbn [andb orb negb isnil map app of_gchoice gatt to_cid_main to_cid_der to_cid_coord P.c_id fst snd];
    rewrite ?app_nil_r; repeat (rewrite map_app; cbn [map of_gchoice gatt to_cid_coord P.c_id]); rewrite ?app_nil_r;
    repeat rewrite conv_main; repeat rewrite conv_der; repeat rewrite conv_coord; rewrite ?app_nil_r; reflexivity.
Qed.

(* every dataset of the helper is one of the datasets of the configuration *)
Definition pknown (st : pstate) : Prop := forall d, In d (p_datas st) -> find_d d (p_ds st) <> None.

Lemma gdatas_length : forall ds datas, (forall d, In d datas -> find_d d ds <> None) -> length (gdatas ds datas) = length datas.
Proof.
  intros ds datas. induction datas as [| d t IH]; intros H; simpl; [reflexivity |].
  destruct (find_d d ds) eqn:E; [| exfalso; apply (H d); [left; reflexivity | exact E]].
  simpl. f_equal. apply IH. intros x Hx. apply H. right. exact Hx.
Qed.

Lemma gen_refresh_choices : forall st, pknown st ->
  map of_gchoice (P.ComponentIDComboHelper_refresh (helper_of st)) = all_choices (p_fl st) (p_ds st) (p_datas st).
Proof.
  intros st Hk. rewrite refresh_closed. unfold all_choices.
  cbn [helper_of P.hp_none P.hp_data]. rewrite (gdatas_length _ _ Hk).
  rewrite Z.gtb_ltb. rewrite map_app. f_equal; [destruct (f_none (p_fl st)); reflexivity |].
  set (multi := 1 <? Z.of_nat (length (p_datas st))).
  unfold gdatas. generalize (p_datas st) as datas. induction datas as [| d t IH]; simpl; [reflexivity |].
  destruct (find_d d (p_ds st)) as [di |]; simpl.
  - rewrite ?app_nil_r. rewrite map_app. rewrite IH. f_equal. apply gblock_hand.
  - exact IH.
Qed.

Lemma grefresh_eq : forall st, pknown st -> grefresh st = refresh st.
Proof. intros st Hk. unfold grefresh, refresh. rewrite (gen_refresh_choices st Hk). reflexivity. Qed.

(* ------------------------------------------------------------------ the subscription table and the filter *)
Lemma find_d_id : forall d ds di, find_d d ds = Some di -> di_id di = d.
Proof.
  intros d ds. induction ds as [| x t IH]; intros di H; simpl in H; [discriminate |].
  destruct (di_id x =? d) eqn:E; [inversion H; subst; apply Z.eqb_eq; exact E | apply IH; exact H].
Qed.

Lemma data_mem_gdatas : forall ds datas x, (forall d, In d datas -> find_d d ds <> None) ->
  P.data_mem x (gdatas ds datas) = zmem x datas.
Proof.
  intros ds datas x. unfold P.data_mem, zmem, gdatas. induction datas as [| d t IH]; intros H; simpl; [reflexivity |].
  destruct (find_d d ds) as [di |] eqn:E; [| exfalso; apply (H d); [left; reflexivity | exact E]].
  simpl. rewrite IH by (intros y Hy; apply H; right; exact Hy).
  rewrite (find_d_id _ _ _ E). rewrite (Z.eqb_sym d x). reflexivity.
Qed.

Lemma ghandle_eq : forall m st, pknown st ->
  (forall st', p_ds st' = p_ds st -> (forall d, In d (p_datas st') -> In d (p_datas st)) -> pknown st') ->
  ghandle m st = handle m st.
Proof.
  intros m st Hk Hsub. destruct m as [d | d]; unfold ghandle, handle, P.dispatch, P.subscriptions, P.subscribe_calls;
    cbn [helper_of P.hp_has_dc]; unfold P.ComponentIDComboHelper__filter_msg, P.msg_data; cbn [helper_of P.hp_data].
  - rewrite (data_mem_gdatas _ _ d Hk).
    destruct (p_hasdc st); cbn; destruct (zmem d (p_datas st)); try reflexivity; apply grefresh_eq; exact Hk.
  - destruct (p_hasdc st); cbn; [| reflexivity].
    destruct (zmem d (p_datas st)); [| reflexivity]. apply grefresh_eq. apply Hsub; [reflexivity |].
    simpl. intros x Hx. unfold zremove in Hx. apply filter_In in Hx. tauto.
Qed.

(* the invariant under which the two machines agree: the helper's datasets are among the identities `ids` of the configuration *)
Definition pk (ids : list Z) (st : pstate) : Prop :=
  (forall d, In d (p_datas st) -> In d ids) /\ map di_id (p_ds st) = ids.

Lemma find_d_in : forall d ds, In d (map di_id ds) -> find_d d ds <> None.
Proof.
  intros d ds. induction ds as [| x t IH]; intros H; simpl in *; [destruct H |].
  destruct (di_id x =? d) eqn:E; [discriminate |]. apply IH. destruct H as [H | H]; [apply Z.eqb_neq in E; contradiction | exact H].
Qed.

Lemma pk_known : forall ids st, pk ids st -> pknown st.
Proof. intros ids st [H1 H2] d Hd. apply find_d_in. rewrite H2. apply H1. exact Hd. Qed.

Lemma pk_same : forall ids st st', pk ids st -> p_ds st' = p_ds st -> (forall d, In d (p_datas st') -> In d (p_datas st)) -> pk ids st'.
Proof. intros ids st st' [H1 H2] E Hs. split; [intros d Hd; apply H1; apply Hs; exact Hd | rewrite E; exact H2]. Qed.

Lemma pk_refresh : forall ids st, pk ids st -> pk ids (refresh st).
Proof. intros ids st H. apply (pk_same ids st); [exact H | reflexivity | tauto]. Qed.

Lemma pk_handle : forall ids m st, pk ids st -> pk ids (handle m st).
Proof.
  intros ids m st H. destruct m as [d | d]; unfold handle.
  - destruct (zmem d (p_datas st)); [apply pk_refresh |]; exact H.
  - destruct (p_hasdc st && zmem d (p_datas st)); [| exact H]. apply pk_refresh.
    apply (pk_same ids st); [exact H | reflexivity |]. simpl. intros x Hx. unfold zremove in Hx. apply filter_In in Hx. tauto.
Qed.

Lemma ghandle_pk : forall ids m st, pk ids st -> ghandle m st = handle m st.
Proof.
  intros ids m st H. apply ghandle_eq; [apply (pk_known ids); exact H |].
  intros st' E Hs. apply (pk_known ids). apply (pk_same ids st); assumption.
Qed.

Lemma post_pk : forall ids m st, pk ids st -> post_with ghandle m st = post m st /\ pk ids (post m st).
Proof.
  intros ids m st H. unfold post_with, post. destruct (p_delay st).
  - split; [reflexivity |]. apply (pk_same ids st); [exact H | reflexivity | tauto].
  - split; [apply (ghandle_pk ids); exact H | apply pk_handle; exact H].
Qed.

Lemma upd_ids : forall d f ds, (forall di, di_id (f di) = di_id di) -> map di_id (upd_d d f ds) = map di_id ds.
Proof.
  intros d f ds Hf. unfold upd_d. rewrite map_map. apply map_ext. intros di. destruct (di_id di =? d); [apply Hf | reflexivity].
Qed.

Lemma pk_with_ds : forall ids st d f, pk ids st -> (forall di, di_id (f di) = di_id di) -> pk ids (with_ds st (upd_d d f (p_ds st))).
Proof. intros ids st d f [H1 H2] Hf. split; [exact H1 |]. simpl. rewrite upd_ids by exact Hf. exact H2. Qed.

Lemma dedup_in : forall l seen x, In x (dedup l seen) -> In x l.
Proof.
  induction l as [| y t IH]; intros seen x H; simpl in *; [exact H |].
  destruct (zmem y seen); [right; eapply IH; exact H |]. destruct H as [H | H]; [left; exact H | right; eapply IH; exact H].
Qed.

Definition op_known (ids : list Z) (o : pop) : bool :=
  match o with
  | PAppend d => zmem d ids
  | PSetMultiple l => forallb (fun d => zmem d ids) l
  | _ => true
  end.

Lemma zmem_In : forall x l, zmem x l = true -> In x l.
Proof. intros x l H. unfold zmem in H. apply existsb_exists in H. destruct H as [y [Hy E]]. apply Z.eqb_eq in E. subst. exact Hy. Qed.

Lemma pstep_agree : forall ids o st, pk ids st -> op_known ids o = true ->
  gpstep o st = pstep o st /\ pk ids (fst (pstep o st)).
Proof.
  intros ids o st H Ho. unfold gpstep.
  assert (HR : forall st', pk ids st' -> grefresh st' = refresh st') by (intros st' H'; apply grefresh_eq; apply (pk_known ids); exact H').
  assert (Hsub : forall l, (forall d, In d l -> In d ids) -> pk ids (with_datas st l)).
  { intros l Hl. destruct H as [H1 H2]. split; [exact Hl | exact H2]. }
  destruct o; cbn [pstep_with pstep op_known] in *.
  - (* PAppend *)
    destruct (zmem d (p_datas st)); [split; [reflexivity | exact H] |].
    assert (Hp : pk ids (with_datas st (p_datas st ++ [d]))).
    { apply Hsub. intros x Hx. apply in_app_or in Hx. destruct Hx as [Hx | [Hx | []]]; [apply H; exact Hx | subst; apply zmem_In; exact Ho]. }
    rewrite (HR _ Hp). split; [reflexivity | apply pk_refresh; exact Hp].
  - (* PRemove *)
    destruct (zmem d (p_datas st)); [| split; [reflexivity | exact H]].
    assert (Hp : pk ids (with_datas st (zremove d (p_datas st)))).
    { apply Hsub. intros x Hx. unfold zremove in Hx. apply filter_In in Hx. apply H. tauto. }
    rewrite (HR _ Hp). split; [reflexivity | apply pk_refresh; exact Hp].
  - (* PSetMultiple *)
    assert (Hp : pk ids (with_datas st (dedup l []))).
    { apply Hsub. intros x Hx. apply dedup_in in Hx. rewrite forallb_forall in Ho. apply zmem_In. apply Ho. exact Hx. }
    rewrite (HR _ Hp). split; [reflexivity | apply pk_refresh; exact Hp].
  - (* PClear *)
    assert (Hp : pk ids (with_datas st [])) by (apply Hsub; intros x []).
    rewrite (HR _ Hp). split; [reflexivity | apply pk_refresh; exact Hp].
  - (* PFlag *)
    assert (Hp : pk ids (with_fl st (set_flag (p_fl st) k b))) by (apply (pk_same ids st); [exact H | reflexivity | tauto]).
    rewrite (HR _ Hp). split; [reflexivity | apply pk_refresh; exact Hp].
  - (* PSelect *)
    destruct (sel_in (Some c) (p_ch st)); (split; [reflexivity |]); [apply (pk_same ids st); [exact H | reflexivity | tauto] | exact H].
  - (* DAddMain *)
    match goal with |- context [post_with ghandle ?m ?s] => destruct (post_pk ids m s) as [E1 E2] end;
      [apply pk_with_ds; [exact H | reflexivity] |]. rewrite E1. split; [reflexivity | exact E2].
  - (* DAddDer *)
    match goal with |- context [post_with ghandle ?m ?s] => destruct (post_pk ids m s) as [E1 E2] end;
      [apply pk_with_ds; [exact H | reflexivity] |]. rewrite E1. split; [reflexivity | exact E2].
  - (* DRemoveComp *)
    destruct (dependents d c (p_ds st)) as [| a rest].
    + match goal with |- context [post_with ghandle ?m ?s] => destruct (post_pk ids m s) as [E1 E2] end;
        [apply pk_with_ds; [exact H | reflexivity] |]. rewrite E1. split; [reflexivity | exact E2].
    + cbv zeta.
      destruct (post_pk ids (MChanged d) (with_ds st (upd_d d (fun di => rm_comp a (rm_comp c di)) (p_ds st)))) as [E1 E2];
        [apply pk_with_ds; [exact H | reflexivity] |]. rewrite E1.
      set (s1 := post (MChanged d) (with_ds st (upd_d d (fun di => rm_comp a (rm_comp c di)) (p_ds st)))) in *.
      assert (Hfold : forall L s, pk ids s ->
                fold_left (fun s0 a' => post_with ghandle (MChanged d) (with_ds s0 (upd_d d (rm_comp a') (p_ds s0)))) L s =
                fold_left (fun s0 a' => post (MChanged d) (with_ds s0 (upd_d d (rm_comp a') (p_ds s0)))) L s /\
                pk ids (fold_left (fun s0 a' => post (MChanged d) (with_ds s0 (upd_d d (rm_comp a') (p_ds s0)))) L s)).
      { induction L as [| x t IH]; intros s Hs; cbn [fold_left]; [split; [reflexivity | exact Hs] |].
        destruct (post_pk ids (MChanged d) (with_ds s (upd_d d (rm_comp x) (p_ds s)))) as [F1 F2];
          [apply pk_with_ds; [exact Hs | reflexivity] |].
        rewrite F1. apply IH. exact F2. }
      destruct (Hfold rest s1 E2) as [G1 G2]. rewrite G1.
      set (s2 := fold_left (fun s0 a' => post (MChanged d) (with_ds s0 (upd_d d (rm_comp a') (p_ds s0)))) rest s1) in *.
      destruct (post_pk ids (MChanged d) (with_ds s2 (upd_d d (fun di => di) (p_ds s2)))) as [K1 K2];
        [apply pk_with_ds; [exact G2 | reflexivity] |]. rewrite K1. split; [reflexivity | exact K2].
  - (* DReorder *)
    match goal with |- context [post_with ghandle ?m ?s] => destruct (post_pk ids m s) as [E1 E2] end;
      [apply pk_with_ds; [exact H | reflexivity] |]. rewrite E1. split; [reflexivity | exact E2].
  - (* DRename *) split; [reflexivity | exact H].
  - (* DcRemove *)
    destruct (zmem d (p_dc st)); [| split; [reflexivity | exact H]].
    match goal with |- context [post_with ghandle ?m ?s] => destruct (post_pk ids m s) as [E1 E2] end;
      [apply (pk_same ids st); [exact H | reflexivity | tauto] |]. rewrite E1. split; [reflexivity | exact E2].
  - (* DelayBegin *) split; [reflexivity |]. apply (pk_same ids st); [exact H | reflexivity | tauto].
  - (* DelayEnd *)
    assert (Hfold : forall L s, pk ids s -> fold_left (fun s0 m => ghandle m s0) L s = fold_left (fun s0 m => handle m s0) L s /\
                                          pk ids (fold_left (fun s0 m => handle m s0) L s)).
    { induction L as [| x t IH]; intros s Hs; cbn [fold_left]; [split; [reflexivity | exact Hs] |].
      rewrite (ghandle_pk ids x s Hs). apply IH. apply pk_handle. exact Hs. }
    destruct (Hfold (p_pending st) (with_queue st false [])) as [G1 G2];
      [apply (pk_same ids st); [exact H | reflexivity | tauto] |]. rewrite G1. split; [reflexivity | exact G2].
Qed.

Lemma run_gp_eq : forall ids ops st, pk ids st -> pops_known ids ops = true -> run_gp ops st = run_p ops st.
Proof.
  intros ids ops. induction ops as [| o t IH]; intros st H Ho; [reflexivity |].
  simpl in Ho. apply andb_true_iff in Ho. destruct Ho as [Ho Ht].
  cbn [run_gp run_p]. destruct (pstep_agree ids o st H Ho) as [E Hp]. rewrite E. apply IH; assumption.
Qed.

Lemma pk_init : forall ds fl defidx hasdc, pk (map di_id ds) (init_p ds fl defidx hasdc).
Proof. intros. split; [intros d [] | reflexivity]. Qed.

(* picker_inv_reachable, about the translated refresh / dispatch *)
Theorem gen_picker_inv_reachable : forall ds fl defidx hasdc ops,
  pops_known (map di_id ds) ops = true ->
  let st := run_gp ops (init_p ds fl defidx hasdc) in
  sel_ok (p_ch st) (p_sel st) /\
  (p_pending st = [] -> attrs_of (p_ch st) = spec_cids (p_fl st) (p_ds st) (p_datas st)).
Proof.
  intros ds fl defidx hasdc ops Hk. cbv zeta.
  rewrite (run_gp_eq (map di_id ds) ops _ (pk_init ds fl defidx hasdc) Hk).
  apply LemmasPicker.picker_inv_reachable.
Qed.

(* what translated refresh offers, directly: for a helper all of whose datasets are known, exactly the filtered attributes *)
Theorem gen_refresh_attrs : forall st, pknown st ->
  attrs_of (map of_gchoice (Gen_picker.ComponentIDComboHelper_refresh (helper_of st))) = spec_cids (p_fl st) (p_ds st) (p_datas st).
Proof. intros st Hk. rewrite (gen_refresh_choices st Hk). apply all_choices_attrs. Qed.

Theorem gen_picker_step_refines : forall ids o st, pk ids st -> op_known ids o = true ->
  gpstep o st = pstep o st /\ pk ids (fst (pstep o st)).
Proof. exact pstep_agree. Qed.

(* the translated procedures that change the helper's datasets and flags: each refreshes exactly when it changes something
   (clear and the setters: always), remove_data only for a dataset the helper has, and refuses a single-dataset helper *)
Theorem gen_picker_procs : forall h d b,
  Gen_picker.ComponentIDComboHelper_remove_data h d =
    (if Gen_picker.hp_manual h then None
     else if Gen_picker.data_mem d (Gen_picker.hp_data h)
          then Some (Gen_picker.mark_refresh (Gen_picker.set_data (Gen_picker.remove_data_ref d (Gen_picker.hp_data h)) h))
          else Some h) /\
  Gen_picker.ComponentIDComboHelper__remove_data h d = Gen_picker.ComponentIDComboHelper_remove_data h d /\
  Gen_picker.ComponentIDComboHelper_clear h = Some (Gen_picker.mark_refresh (Gen_picker.set_data [] h)) /\
  Gen_picker.ComponentIDComboHelper_set_numeric h b = Some (Gen_picker.mark_refresh (Gen_picker.set_flag_numeric b h)) /\
  Gen_picker.ComponentIDComboHelper_set_datetime h b = Some (Gen_picker.mark_refresh (Gen_picker.set_flag_datetime b h)) /\
  Gen_picker.ComponentIDComboHelper_set_categorical h b = Some (Gen_picker.mark_refresh (Gen_picker.set_flag_categorical b h)) /\
  Gen_picker.ComponentIDComboHelper_set_pixel_coord h b = Some (Gen_picker.mark_refresh (Gen_picker.set_flag_pixel_coord b h)) /\
  Gen_picker.ComponentIDComboHelper_set_world_coord h b = Some (Gen_picker.mark_refresh (Gen_picker.set_flag_world_coord b h)) /\
  Gen_picker.ComponentIDComboHelper_set_derived h b = Some (Gen_picker.mark_refresh (Gen_picker.set_flag_derived b h)) /\
  Gen_picker.ComponentIDComboHelper_set_none h b = Some (Gen_picker.mark_refresh (Gen_picker.set_flag_none b h)).
Proof. intros h d b. repeat split; reflexivity. Qed.
