(* C18 part 1, continued — every operation preserves "the layers are exactly what is wanted" *)
From Coq Require Import ZArith List Bool Lia.
Import ListNotations.
From GV Require Import Common.Wire C18.Model C18.LemmasPicker C18.LemmasViewer.
Open Scope Z_scope.

Lemma zremove_notin : forall d l, ~ In d l -> zremove d l = l.
Proof.
  intros d l H. unfold zremove. apply filter_all. intros x Hx. apply negb_true_iff. apply Z.eqb_neq. intro E. subst. contradiction.
Qed.

Lemma new_subs_data : forall d gs n s, In s (new_subs n (map (fun g => (d, g)) gs)) -> s_d s = d /\ s_live s = true.
Proof.
  intros d gs n s Hs. destruct (new_subs_props (map (fun g => (d, g)) gs) n) as [Hp _].
  rewrite Forall_forall in Hp. destruct (Hp s Hs) as [_ [L Hin]].
  apply in_map_iff in Hin. destruct Hin as [g [E _]]. inversion E. split; [reflexivity | exact L].
Qed.

Lemma new_subs_group : forall g ds n s, In s (new_subs n (map (fun d => (d, g)) ds)) -> s_g s = g /\ In (s_d s) ds /\ s_live s = true.
Proof.
  intros g ds n s Hs. destruct (new_subs_props (map (fun d => (d, g)) ds) n) as [Hp _].
  rewrite Forall_forall in Hp. destruct (Hp s Hs) as [_ [L Hin]].
  apply in_map_iff in Hin. destruct Hin as [d [E Hd]]. inversion E. subst. split; [reflexivity | split; [exact Hd | exact L]].
Qed.

(* ---------------- Append ---------------- *)
Lemma vinv_append : forall d st given, cinv st -> vinv st given -> vinv (fst (step (Append d) st)) (ghost_step (Append d) st given).
Proof.
  intros d st given Hc (Hv & Hng & Hinc & Hw). simpl.
  destruct (zmem d (dc st)) eqn:Ed; simpl; [unfold vinv; tauto |].
  apply zmem_false in Ed.
  set (nw := new_subs (next st) (map (fun g => (d, g)) (groups st))).
  set (st1 := mkV _ _ _ _ _ _ _).
  assert (Hv1 : vsync st1) by exact Hv.
  destruct (fold_created nw st1 Hv1) as [Hv' [Hsc Ha]].
  destruct Hsc as (_ & Hdc & _ & Hsb & _).
  assert (Hnot : ~ In d given) by (intro H; apply Ed; apply Hinc; exact H).
  unfold vinv. split; [exact Hv' |]. split; [exact Hng |]. split.
  - intros x Hx. rewrite Hdc. unfold st1; simpl. apply in_or_app. left. apply Hinc. exact Hx.
  - intros l. rewrite Ha. rewrite Hsb. unfold st1 at 1 2; simpl.
    assert (Hno : ~ exists s, In s nw /\ l = lay s /\ In (LData (s_d s)) (arts st)).
    { intros [s [Hs [_ Hd]]]. destruct (new_subs_data _ _ _ _ Hs) as [E _]. rewrite E in Hd.
      apply Hnot. apply (Hw (LData d)). exact Hd. }
    rewrite Hw. split.
    + intros [H | H]; [| contradiction]. destruct l as [d' | s d' g]; simpl in *; [exact H |].
      destruct H as [H1 [lv H2]]. split; [exact H1 |]. exists lv. apply in_or_app. left. exact H2.
    + intros H. left. destruct l as [d' | s d' g]; simpl in *; [exact H |].
      destruct H as [H1 [lv H2]]. split; [exact H1 |]. exists lv. apply in_app_or in H2. destruct H2 as [H2 | H2]; [exact H2 |].
      exfalso. destruct (new_subs_data _ _ _ _ H2) as [E _]. simpl in E. subst d'. contradiction.
Qed.

(* ---------------- Remove ---------------- *)
Lemma subs_after_remove_other : forall fx d sb s d' g, d' <> d ->
  ((exists lv, In (mkSub s d' g lv)
      (if fx : bool then filter (fun x => negb ((s_d x =? d) && s_live x)) sb
       else map (fun x => if s_d x =? d then unlive x else x) sb))
   <-> exists lv, In (mkSub s d' g lv) sb).
Proof.
  intros fx d sb s d' g Hne. destruct fx.
  - split; intros [lv H]; exists lv.
    + apply filter_In in H. tauto.
    + apply filter_In. split; [exact H |]. simpl. apply negb_true_iff. apply andb_false_iff. left. apply Z.eqb_neq. exact Hne.
  - split; intros [lv H].
    + apply in_map_iff in H. destruct H as [y [E Hy]]. destruct (s_d y =? d) eqn:E2.
      * apply Z.eqb_eq in E2. unfold unlive in E. inversion E. congruence.
      * subst y. exists lv. exact Hy.
    + exists lv. apply in_map_iff. exists (mkSub s d' g lv). split; [| exact H]. simpl.
      destruct (d' =? d) eqn:E2; [apply Z.eqb_eq in E2; contradiction | reflexivity].
Qed.

Lemma wanted_after_filter_data : forall d sb sb' given l,
  (forall s d' g, d' <> d -> ((exists lv, In (mkSub s d' g lv) sb') <-> exists lv, In (mkSub s d' g lv) sb)) ->
  (wanted sb given l /\ layer_data l <> d <-> wanted sb' (zremove d given) l).
Proof.
  intros d sb sb' given l H. destruct l as [d' | s d' g]; simpl.
  - rewrite In_zremove. tauto.
  - rewrite In_zremove. split.
    + intros [[H1 H2] H3]. split; [tauto |]. apply H; assumption.
    + intros [[H1 H3] H2]. split; [split; [exact H1 |] | exact H3]. apply (H s d' g H3). exact H2.
Qed.

Lemma vinv_remove : forall d st given, cinv st -> vinv st given -> vinv (fst (step (Remove d) st)) (ghost_step (Remove d) st given).
Proof.
  intros d st given Hc (Hv & Hng & Hinc & Hw). simpl.
  destruct (negb (zmem d (dc st))) eqn:Ed; simpl.
  - apply negb_true_iff in Ed. apply zmem_false in Ed.
    rewrite zremove_notin; [unfold vinv; tauto |]. intro H. apply Ed. apply Hinc. exact H.
  - set (st1 := mkV _ _ _ _ _ _ _).
    assert (Hv1 : vsync st1) by exact Hv.
    destruct (remove_data_spec d st1 Hv1) as [Ha [Hs Hsc]].
    destruct Hsc as (_ & Hdc & _ & Hsb & _).
    unfold vinv. split; [eapply vsync_filter; eassumption |]. split; [apply NoDup_filter'; exact Hng |]. split.
    + intros x Hx. apply In_zremove in Hx. rewrite Hdc. unfold st1; simpl. apply In_zremove. split; [apply Hinc; tauto | tauto].
    + intros l. rewrite Ha. rewrite Hsb. rewrite filter_In. unfold st1; simpl.
      rewrite <- (wanted_after_filter_data d (subs st)).
      * rewrite Hw. rewrite negb_true_iff. rewrite Z.eqb_neq. tauto.
      * intros s d' g Hne. apply subs_after_remove_other. exact Hne.
Qed.

(* ---------------- RemoveData ---------------- *)
Lemma vinv_remove_data : forall d st given, cinv st -> vinv st given -> vinv (fst (step (RemoveData d) st)) (ghost_step (RemoveData d) st given).
Proof.
  intros d st given Hc (Hv & Hng & Hinc & Hw). simpl.
  destruct (remove_data_spec d st Hv) as [Ha [Hs Hsc]].
  destruct Hsc as (_ & Hdc & _ & Hsb & _).
  unfold vinv. split; [eapply vsync_filter; eassumption |]. split; [apply NoDup_filter'; exact Hng |]. split.
  - intros x Hx. apply In_zremove in Hx. rewrite Hdc. apply Hinc. tauto.
  - intros l. rewrite Ha. rewrite filter_In. rewrite Hsb.
    rewrite <- (wanted_after_filter_data d (subs st)).
    + rewrite Hw. rewrite negb_true_iff. rewrite Z.eqb_neq. tauto.
    + intros. tauto.
Qed.

(* ---------------- NewGroup ---------------- *)
Lemma vinv_new_group : forall g st given, cinv st -> vinv st given -> vinv (fst (step (NewGroup g) st)) (ghost_step (NewGroup g) st given).
Proof.
  intros g st given Hc (Hv & Hng & Hinc & Hw). simpl.
  destruct (zmem g (groups st)) eqn:Eg; simpl; [unfold vinv; tauto |].
  set (nw := new_subs (next st) (map (fun d => (d, g)) (dc st))).
  set (st1 := mkV _ _ _ _ _ _ _).
  assert (Hv1 : vsync st1) by exact Hv.
  destruct (fold_created nw st1 Hv1) as [Hv' [Hsc Ha]].
  destruct Hsc as (_ & Hdc & _ & Hsb & _).
  unfold vinv. split; [exact Hv' |]. split; [exact Hng |]. split.
  - intros x Hx. rewrite Hdc. unfold st1; simpl. apply Hinc. exact Hx.
  - intros l. rewrite Ha. rewrite Hsb. unfold st1 at 1 2 3; simpl. rewrite Hw.
    destruct l as [d | s d g']; simpl.
    + split; [| tauto]. intros [H | [s [_ [H _]]]]; [exact H | discriminate].
    + split.
      * intros [[H1 [lv H2]] | [s0 [Hs0 [E Hd]]]].
        -- split; [exact H1 |]. exists lv. apply in_or_app. left. exact H2.
        -- symmetry in E. apply lay_eq in E. destruct E as [lv E]. subst s0. simpl in Hd.
           split; [apply (Hw (LData d)); exact Hd |]. exists lv. apply in_or_app. right. exact Hs0.
      * intros [H1 [lv H2]]. apply in_app_or in H2. destruct H2 as [H2 | H2].
        -- left. split; [exact H1 |]. exists lv. exact H2.
        -- right. exists (mkSub s d g' lv). split; [exact H2 |]. split; [reflexivity |]. simpl. apply (Hw (LData d)). exact H1.
Qed.

(* ---------------- RemoveGroup ---------------- *)
Lemma vinv_remove_group : forall g st given, cinv st -> vinv st given -> vinv (fst (step (RemoveGroup g) st)) (ghost_step (RemoveGroup g) st given).
Proof.
  intros g st given Hc (Hv & Hng & Hinc & Hw). simpl.
  destruct (negb (zmem g (groups st))) eqn:Eg; simpl; [unfold vinv; tauto |].
  set (p := fun s : sub => (s_g s =? g) && s_live s).
  set (dead := filter _ (subs st)).
  set (st1 := mkV _ _ _ _ _ _ _).
  assert (Hv1 : vsync st1) by exact Hv.
  destruct (fold_deleted dead st1 Hv1) as [Hv' [Hsc Ha]].
  destruct Hsc as (_ & Hdc & _ & Hsb & _).
  destruct Hc as (_ & _ & Hids & _).
  unfold vinv. split; [exact Hv' |]. split; [exact Hng |]. split.
  - intros x Hx. rewrite Hdc. unfold st1; simpl. apply Hinc. exact Hx.
  - intros l. rewrite Ha. rewrite Hsb. unfold st1 at 1 2; simpl. rewrite Hw.
    destruct l as [d | s d g']; simpl.
    + split; [tauto |]. intros H. split; [exact H |]. intros s _. discriminate.
    + split.
      * intros [[H1 [lv H2]] H3]. split; [exact H1 |]. exists lv. apply filter_In. split; [exact H2 |].
        apply negb_true_iff. destruct (p (mkSub s d g' lv)) eqn:Ep; [| exact Ep].
        exfalso. apply (H3 (mkSub s d g' lv)); [apply filter_In; split; [exact H2 | exact Ep] | reflexivity].
      * intros [H1 [lv H2]]. apply filter_In in H2. destruct H2 as [H2 Hp]. apply negb_true_iff in Hp.
        split; [split; [exact H1 | exists lv; exact H2] |].
        intros s' Hs' E. apply filter_In in Hs'. destruct Hs' as [Hs' Hp'].
        symmetry in E. apply lay_eq in E. destruct E as [lv' E].
        assert (s' = mkSub s d g' lv).
        { apply (NoDup_map_inj (subs st)); [exact Hids | exact Hs' | exact H2 | subst s'; reflexivity]. }
        clear E. subst s'. unfold p in Hp, Hp'. simpl in Hp, Hp'. congruence.
Qed.

(* ---------------- AddData ---------------- *)
Lemma vinv_add_data : forall d st given, cinv st -> vinv st given -> vinv (fst (step (AddData d) st)) (ghost_step (AddData d) st given).
Proof.
  intros d st given Hc (Hv & Hng & Hinc & Hw). simpl. unfold add_data.
  destruct (has (LData d) (arts st)) eqn:E0; simpl.
  - apply has_In in E0. apply (Hw (LData d)) in E0. simpl in E0. apply zmem_In in E0. rewrite E0. simpl. rewrite andb_false_r.
    unfold vinv; tauto.
  - apply has_false in E0.
    destruct (zmem d (dc st)) eqn:E1; simpl; [| unfold vinv; tauto].
    assert (Hnot : ~ In d given) by (intro H; apply E0; apply (Hw (LData d)); exact H).
    assert (E2 : zmem d given = false) by (apply zmem_false; exact Hnot). rewrite E2. simpl.
    apply zmem_In in E1.
    destruct (add_layer_spec (LData d) st Hv E0) as [A [B C]].
    assert (Hv1 : vsync (add_layer (LData d) st)).
    { split; [rewrite A, B; reflexivity | rewrite A; apply NoDup_snoc; [apply Hv | exact E0]]. }
    destruct (fold_add_subsets (dsubs (subs st) d) _ Hv1) as [Hv' [Hsc Ha]].
    destruct Hsc as (_ & Hdc & _ & Hsb & _). destruct C as (_ & Cdc & _ & Csb & _).
    unfold vinv. split; [exact Hv' |]. split; [apply NoDup_snoc; assumption |]. split.
    + intros x Hx. rewrite Hdc, Cdc. apply in_app_or in Hx. destruct Hx as [Hx | [Hx | []]]; [apply Hinc; exact Hx | subst; exact E1].
    + intros l. rewrite Ha. rewrite A. rewrite Hsb, Csb. rewrite in_app_iff. rewrite Hw. simpl.
      destruct l as [d' | s d' g]; simpl.
      * rewrite in_app_iff. simpl. split.
        -- intros [[H | [H | []]] | [s [_ H]]]; [tauto | inversion H; tauto | discriminate].
        -- intros [H | [H | []]]; [tauto | subst; tauto].
      * rewrite in_app_iff. simpl. split.
        -- intros [[[H1 H2] | [H | []]] | [s0 [Hs0 E]]]; [tauto | discriminate |].
           symmetry in E. apply lay_eq in E. destruct E as [lv E]. subst s0.
           unfold dsubs in Hs0. apply filter_In in Hs0. destruct Hs0 as [Hs0 Hd]. simpl in Hd. apply Z.eqb_eq in Hd. subst d'.
           split; [tauto |]. exists lv. exact Hs0.
        -- intros [[H1 | [H1 | []]] [lv H2]].
           ++ left. left. split; [exact H1 | exists lv; exact H2].
           ++ subst d'. right. exists (mkSub s d g lv). split; [| reflexivity].
              unfold dsubs. apply filter_In. split; [exact H2 | simpl; apply Z.eqb_refl].
Qed.

(* ---------------- AddSubset ---------------- *)
Lemma vinv_add_subset : forall s d g st given, cinv st -> vinv st given -> vinv (fst (step (AddSubset s d g) st)) (ghost_step (AddSubset s d g) st given).
Proof.
  intros s d g st given Hc (Hv & Hng & Hinc & Hw). simpl.
  destruct (has (LData d) (arts st) && sub_known (subs st) s d g) eqn:E; simpl; [| unfold vinv; tauto].
  apply andb_true_iff in E. destruct E as [E1 E2]. apply has_In in E1.
  unfold sub_known in E2. apply existsb_exists in E2. destruct E2 as [x [Hx E2]].
  apply andb_true_iff in E2. destruct E2 as [E2 E5]. apply andb_true_iff in E2. destruct E2 as [E3 E4].
  apply Z.eqb_eq in E3, E4, E5.
  assert (Hwant : wanted (subs st) given (LSub s d g)).
  { simpl. split; [apply (Hw (LData d)); exact E1 |]. exists (s_live x). rewrite (sub_eta x) in Hx. rewrite E3, E4, E5 in Hx. exact Hx. }
  destruct (add_subset_layer_spec (LSub s d g) st Hv) as [Hv' [Hsc Ha]].
  destruct Hsc as (_ & Hdc & _ & Hsb & _).
  unfold vinv. split; [exact Hv' |]. split; [exact Hng |]. split.
  - intros y Hy. rewrite Hdc. apply Hinc. exact Hy.
  - intros l. rewrite Ha. rewrite Hsb. rewrite Hw. split; [| tauto]. intros [H | H]; [exact H | subst; exact Hwant].
Qed.

(* ---------------- SaveRestore ---------------- *)
Lemma vinv_save_restore : forall st given, cinv st -> vinv st given -> vinv (fst (step SaveRestore st)) (ghost_step SaveRestore st given).
Proof.
  intros st given Hc (Hv & Hng & Hinc & Hw). simpl.
  unfold vinv. split; [exact Hv |]. split; [exact Hng |]. split; [exact Hinc |].
  simpl. intros l. rewrite Hw. destruct l as [d | s d g]; simpl; [tauto |].
  split; intros [H1 [lv H2]]; (split; [exact H1 |]); exists lv.
  - apply filter_In. split; [exact H2 |]. simpl. apply zmem_In. apply Hinc. exact H1.
  - apply filter_In in H2. tauto.
Qed.

Lemma step_vinv : forall o st given, cinv st -> vinv st given -> vinv (fst (step o st)) (ghost_step o st given).
Proof.
  intros o st given Hc Hv. destruct o.
  - apply vinv_append; assumption.
  - apply vinv_remove; assumption.
  - apply vinv_new_group; assumption.
  - apply vinv_remove_group; assumption.
  - apply vinv_add_data; assumption.
  - apply vinv_remove_data; assumption.
  - apply vinv_add_subset; assumption.
  - apply vinv_save_restore; assumption.
Qed.

Lemma step_fixed : forall o st, vsync st -> fixed (fst (step o st)) = fixed st.
Proof.
  intros o st Hv. destruct o as [d | d | g | g | d | d | s d g |]; cbn [step].
  - destruct (zmem d (dc st)); simpl; [reflexivity |].
    match goal with |- fixed (fold_left ?f ?nw ?s1) = _ =>
      assert (Hv1 : vsync s1) by exact Hv; destruct (fold_created nw s1 Hv1) as [_ [Hsc _]]; destruct Hsc as [H _]; exact H end.
  - destruct (negb (zmem d (dc st))); [reflexivity |]. cbn [fst].
    match goal with |- fixed (remove_data ?dd ?s1) = _ =>
      assert (Hv1 : vsync s1) by exact Hv; destruct (remove_data_spec d s1 Hv1) as [_ [_ Hsc]]; destruct Hsc as [H _]; exact H end.
  - destruct (zmem g (groups st)); simpl; [reflexivity |].
    match goal with |- fixed (fold_left ?f ?nw ?s1) = _ =>
      assert (Hv1 : vsync s1) by exact Hv; destruct (fold_created nw s1 Hv1) as [_ [Hsc _]]; destruct Hsc as [H _]; exact H end.
  - destruct (negb (zmem g (groups st))); simpl; [reflexivity |].
    match goal with |- fixed (fold_left ?f ?dead ?s1) = _ =>
      assert (Hv1 : vsync s1) by exact Hv; destruct (fold_deleted dead s1 Hv1) as [_ [Hsc _]]; destruct Hsc as [H _]; exact H end.
  - unfold add_data. destruct (has (LData d) (arts st)) eqn:E0; simpl; [reflexivity |].
    destruct (negb (zmem d (dc st))); simpl; [reflexivity |].
    apply has_false in E0. destruct (add_layer_spec (LData d) st Hv E0) as [A [B C]].
    assert (Hv1 : vsync (add_layer (LData d) st)).
    { split; [rewrite A, B; reflexivity | rewrite A; apply NoDup_snoc; [apply Hv | exact E0]]. }
    destruct (fold_add_subsets (dsubs (subs st) d) _ Hv1) as [_ [Hsc _]]. destruct Hsc as [H _]. destruct C as [C _]. congruence.
  - cbn [fst]. destruct (remove_data_spec d st Hv) as [_ [_ Hsc]]. destruct Hsc as [H _]. exact H.
  - destruct (has (LData d) (arts st) && sub_known (subs st) s d g); simpl; [| reflexivity].
    destruct (add_subset_layer_spec (LSub s d g) st Hv) as [_ [Hsc _]]. destruct Hsc as [H _]. exact H.
  - reflexivity.
Qed.

(* ---------------- reachability ---------------- *)
Definition full_inv (fx : bool) (st : vstate) (given : list Z) : Prop :=
  fixed st = fx /\ cinv st /\ vinv st given.

Lemma run_v_inv : forall fx ops st given, full_inv fx st given ->
  full_inv fx (fst (run_v ops st given)) (snd (run_v ops st given)).
Proof.
  intros fx ops. induction ops as [| o t IH]; intros st given H; simpl; [exact H |].
  apply IH. destruct H as [Hf [Hc Hv]]. pose proof Hv as [Hvs _].
  split; [rewrite step_fixed; assumption |]. split; [apply step_cinv; assumption | apply step_vinv; assumption].
Qed.

Lemma init_inv : forall fx, full_inv fx (init_v fx) [].
Proof.
  intros fx. unfold full_inv, init_v, cinv, vinv, vsync; simpl.
  split; [reflexivity |]. split.
  - repeat split; try constructor.
  - split; [split; [reflexivity | constructor] |]. split; [constructor |]. split; [intros d [] |].
    intros l. split; [intros [] |]. destruct l; simpl; [intros [] | intros [[] _]].
Qed.

(* full statement.  After every history of collection operations (append / remove a dataset, create / remove a subset
   group, save and restore the session) and viewer operations (add_data, remove_data, add_subset of a current subset of
   a shown dataset), with `given` = the datasets handed to the viewer and not taken away since:
   - the artist list and state.layers are the same list, without repetition;
   - every given dataset is still in the collection;
   - the dataset layers are exactly the given datasets, the subset layers are exactly the current subsets (members of
     data.subsets) of the given datasets: one layer each, nothing else;
   - on a tree where dc.remove detaches the grouped subsets (C06 repaired) every subset layer belongs to a live group. *)
Theorem viewer_inv_reachable : forall (fx : bool) (ops : list op),
  let st := fst (run_v ops (init_v fx) []) in
  let given := snd (run_v ops (init_v fx) []) in
  sls st = arts st /\ NoDup (arts st) /\ NoDup given /\
  (forall d, In d given -> In d (dc st)) /\
  (forall d, In (LData d) (arts st) <-> In d given) /\
  (forall s d g, In (LSub s d g) (arts st) <-> In d given /\ exists lv, In (mkSub s d g lv) (subs st)) /\
  (fx = true -> forall s d g, In (LSub s d g) (arts st) -> In d (dc st) /\ In g (groups st)).
Proof.
  intros fx ops st given.
  destruct (run_v_inv fx ops _ _ (init_inv fx)) as [Hf [Hc Hv]]. fold st in Hf, Hc, Hv. fold given in Hv.
  destruct Hv as ([Hs Hn] & Hng & Hinc & Hw).
  split; [exact Hs |]. split; [exact Hn |]. split; [exact Hng |]. split; [exact Hinc |].
  split; [intros d; apply (Hw (LData d)) |]. split; [intros s d g; apply (Hw (LSub s d g)) |].
  intros Hfx s d g Hin. apply (Hw (LSub s d g)) in Hin. simpl in Hin. destruct Hin as [Hd [lv Hin]].
  destruct Hc as (_ & _ & _ & _ & Hfix). rewrite Hf in Hfix. specialize (Hfix Hfx).
  rewrite Forall_forall in Hfix. destruct (Hfix _ Hin) as [_ [A B]]. simpl in A, B. tauto.
Qed.
