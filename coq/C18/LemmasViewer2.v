(* C18 part 1, continued — every operation preserves "the layers are exactly what is wanted" *)
From Coq Require Import ZArith List Bool Lia.
Import ListNotations.
From GV Require Import Common.Wire C18.Model C18.LemmasPicker C18.LemmasViewer.
Open Scope Z_scope.

Lemma zremove_notin : forall d l, ~ In d l -> zremove d l = l.
Proof.
  intros d l H. unfold zremove. apply filter_all. intros x Hx. apply negb_true_iff. apply Z.eqb_neq. intro E. subst. contradiction.
Qed.

Lemma new_subs_data : forall d gs n s, In s (new_subs n (map (fun g => (d, g)) gs)) -> s_d s = d /\ s_live s = true.
Proof.
  intros d gs n s Hs. destruct (new_subs_props (map (fun g => (d, g)) gs) n) as [Hp _].
  rewrite Forall_forall in Hp. destruct (Hp s Hs) as [_ [L Hin]].
  apply in_map_iff in Hin. destruct Hin as [g [E _]]. inversion E. split; [reflexivity | exact L].
Qed.

Lemma new_subs_group : forall g ds n s, In s (new_subs n (map (fun d => (d, g)) ds)) -> s_g s = g /\ In (s_d s) ds /\ s_live s = true.
Proof.
  intros g ds n s Hs. destruct (new_subs_props (map (fun d => (d, g)) ds) n) as [Hp _].
  rewrite Forall_forall in Hp. destruct (Hp s Hs) as [_ [L Hin]].
  apply in_map_iff in Hin. destruct Hin as [d [E Hd]]. inversion E. subst. split; [reflexivity | split; [exact Hd | exact L]].
Qed.

(* ---------------- Append ---------------- *)
Lemma vinv_append : forall d st given, cinv st -> vinv st given -> vinv (fst (step (Append d) st)) (ghost_step (Append d) st given).
Proof.
  intros d st given Hc (Hv & Hng & Hinc & Hd & Hs & Hcmp). simpl.
  destruct (zmem d (dc st)) eqn:Ed; simpl; [unfold vinv; tauto |].
  apply zmem_false in Ed.
  set (nw := new_subs (next st) (map (fun g => (d, g)) (groups st))).
  set (st1 := mkV _ _ _ _ _ _ _).
  assert (Hv1 : vsync st1) by exact Hv.
  destruct (fold_created nw st1 Hv1) as [Hv' [Hsc Ha]].
  destruct Hsc as (_ & Hdc & _ & Hsb & _).
  assert (Hnot : ~ In d given) by (intro H; apply Ed; apply Hinc; exact H).
  assert (Hsame : forall l, In l (arts (fold_left (fun v s => on_sub_created s v) nw st1)) <-> In l (arts st)).
  { intros l. rewrite Ha. unfold st1 at 1 2; simpl. split; [| tauto].
    intros [H | [s [Hs0 [_ Hd0]]]]; [exact H |].
    destruct (new_subs_data _ _ _ _ Hs0) as [E _]. rewrite E in Hd0. exfalso. apply Hnot. apply Hd. exact Hd0. }
  unfold vinv. split; [exact Hv' |]. split; [exact Hng |]. split; [| split; [| split]].
  - intros x Hx. rewrite Hdc. unfold st1; simpl. apply in_or_app. left. apply Hinc. exact Hx.
  - intros d'. rewrite Hsame. apply Hd.
  - intros s d' g Hin. rewrite Hsame in Hin. destruct (Hs s d' g Hin) as [A [lv B]].
    rewrite Hdc, Hsb. unfold st1; simpl. split; [apply in_or_app; left; exact A |]. exists lv. apply in_or_app. left. exact B.
  - intros x Hx Hg. rewrite Hsame. rewrite Hsb in Hx. unfold st1 in Hx; simpl in Hx. apply in_app_or in Hx. destruct Hx as [Hx | Hx].
    + apply Hcmp; assumption.
    + exfalso. destruct (new_subs_data _ _ _ _ Hx) as [E _]. rewrite E in Hg. contradiction.
Qed.

(* ---------------- Remove ---------------- *)
Lemma subs_after_remove_other : forall fx d sb s d' g, d' <> d ->
  ((exists lv, In (mkSub s d' g lv)
      (if fx : bool then filter (fun x => negb ((s_d x =? d) && s_live x)) sb
       else map (fun x => if s_d x =? d then unlive x else x) sb))
   <-> exists lv, In (mkSub s d' g lv) sb).
Proof.
  intros fx d sb s d' g Hne. destruct fx.
  - split; intros [lv H]; exists lv.
    + apply filter_In in H. tauto.
    + apply filter_In. split; [exact H |]. simpl. apply negb_true_iff. apply andb_false_iff. left. apply Z.eqb_neq. exact Hne.
  - split; intros [lv H].
    + apply in_map_iff in H. destruct H as [y [E Hy]]. destruct (s_d y =? d) eqn:E2.
      * apply Z.eqb_eq in E2. unfold unlive in E. inversion E. congruence.
      * subst y. exists lv. exact Hy.
    + exists lv. apply in_map_iff. exists (mkSub s d' g lv). split; [| exact H]. simpl.
      destruct (d' =? d) eqn:E2; [apply Z.eqb_eq in E2; contradiction | reflexivity].
Qed.

Lemma subs_after_remove_back : forall (fx : bool) d sb x, s_d x <> d ->
  In x (if fx then filter (fun x => negb ((s_d x =? d) && s_live x)) sb
        else map (fun x => if s_d x =? d then unlive x else x) sb) -> In x sb.
Proof.
  intros fx d sb x Hne H. destruct fx.
  - apply filter_In in H. tauto.
  - apply in_map_iff in H. destruct H as [y [E Hy]]. destruct (s_d y =? d) eqn:E2.
    + apply Z.eqb_eq in E2. subst x. simpl in Hne. contradiction.
    + subst y. exact Hy.
Qed.

Lemma vinv_remove : forall d st given, cinv st -> vinv st given -> vinv (fst (step (Remove d) st)) (ghost_step (Remove d) st given).
Proof.
  intros d st given Hc (Hv & Hng & Hinc & Hd & Hs & Hcmp). simpl.
  destruct (negb (zmem d (dc st))) eqn:Ed; simpl.
  - apply negb_true_iff in Ed. apply zmem_false in Ed.
    rewrite zremove_notin; [unfold vinv; tauto |]. intro H. apply Ed. apply Hinc. exact H.
  - set (st1 := mkV _ _ _ _ _ _ _).
    assert (Hv1 : vsync st1) by exact Hv.
    destruct (remove_data_spec d st1 Hv1) as [Ha [Hss Hsc]].
    destruct Hsc as (_ & Hdc & _ & Hsb & _).
    assert (Hin : forall l, In l (arts (remove_data d st1)) <-> In l (arts st) /\ layer_data l <> d).
    { intros l. rewrite Ha. rewrite filter_In. unfold st1; simpl. rewrite negb_true_iff. rewrite Z.eqb_neq. tauto. }
    unfold vinv. split; [eapply vsync_filter; eassumption |]. split; [apply NoDup_filter'; exact Hng |]. split; [| split; [| split]].
    + intros x Hx. apply In_zremove in Hx. rewrite Hdc. unfold st1; simpl. apply In_zremove. split; [apply Hinc; tauto | tauto].
    + intros d'. rewrite Hin. simpl. rewrite Hd. rewrite In_zremove. tauto.
    + intros s d' g H. apply Hin in H. simpl in H. destruct H as [H Hne]. destruct (Hs s d' g H) as [A B].
      rewrite Hdc, Hsb. unfold st1; simpl. split; [apply In_zremove; tauto |]. apply subs_after_remove_other; assumption.
    + intros x Hx Hg. apply In_zremove in Hg. destruct Hg as [Hg Hne]. rewrite Hsb in Hx. unfold st1 in Hx; simpl in Hx.
      apply subs_after_remove_back in Hx; [| exact Hne].
      apply Hin. split; [apply Hcmp; assumption |]. destruct x; simpl in *. exact Hne.
Qed.

(* ---------------- RemoveData ---------------- *)
Lemma vinv_remove_data : forall d st given, cinv st -> vinv st given -> vinv (fst (step (RemoveData d) st)) (ghost_step (RemoveData d) st given).
Proof.
  intros d st given Hc (Hv & Hng & Hinc & Hd & Hs & Hcmp). simpl.
  destruct (remove_data_spec d st Hv) as [Ha [Hss Hsc]].
  destruct Hsc as (_ & Hdc & _ & Hsb & _).
  assert (Hin : forall l, In l (arts (remove_data d st)) <-> In l (arts st) /\ layer_data l <> d).
  { intros l. rewrite Ha. rewrite filter_In. rewrite negb_true_iff. rewrite Z.eqb_neq. tauto. }
  unfold vinv. split; [eapply vsync_filter; eassumption |]. split; [apply NoDup_filter'; exact Hng |]. split; [| split; [| split]].
  - intros x Hx. apply In_zremove in Hx. rewrite Hdc. apply Hinc. tauto.
  - intros d'. rewrite Hin. simpl. rewrite Hd. rewrite In_zremove. tauto.
  - intros s d' g H. apply Hin in H. destruct H as [H _]. rewrite Hdc, Hsb. apply Hs. exact H.
  - intros x Hx Hg. apply In_zremove in Hg. destruct Hg as [Hg Hne]. rewrite Hsb in Hx.
    apply Hin. split; [apply Hcmp; assumption |]. destruct x; simpl in *. exact Hne.
Qed.

(* ---------------- RemoveLayer (the dataset's own layer only) ---------------- *)
Lemma vinv_remove_layer : forall d st given, cinv st -> vinv st given -> vinv (fst (step (RemoveLayer d) st)) (ghost_step (RemoveLayer d) st given).
Proof.
  intros d st given Hc (Hv & Hng & Hinc & Hd & Hs & Hcmp). simpl.
  destruct (remove_subset_spec (LData d) st Hv) as [Ha [Hss Hsc]].
  destruct Hsc as (_ & Hdc & _ & Hsb & _).
  assert (Hin : forall l, In l (arts (remove_subset (LData d) st)) <-> In l (arts st) /\ l <> LData d).
  { intros l. rewrite Ha. rewrite filter_In. rewrite negb_true_iff. split; intros [A B]; split; try exact A.
    - intro E. subst l. assert (layer_eqb (LData d) (LData d) = true) by (apply layer_eqb_eq; reflexivity). congruence.
    - destruct (layer_eqb (LData d) l) eqn:E; [| reflexivity]. apply layer_eqb_eq in E. congruence. }
  unfold vinv. split; [eapply vsync_filter; eassumption |]. split; [apply NoDup_filter'; exact Hng |]. split; [| split; [| split]].
  - intros x Hx. apply In_zremove in Hx. rewrite Hdc. apply Hinc. tauto.
  - intros d'. rewrite Hin. rewrite Hd. rewrite In_zremove. split.
    + intros [A B]. split; [exact A |]. intro E. apply B. congruence.
    + intros [A B]. split; [exact A |]. intro E. apply B. congruence.
  - intros s d' g H. apply Hin in H. destruct H as [H _]. rewrite Hdc, Hsb. apply Hs. exact H.
  - intros x Hx Hg. apply In_zremove in Hg. destruct Hg as [Hg _]. rewrite Hsb in Hx.
    apply Hin. split; [apply Hcmp; assumption | discriminate].
Qed.

(* ---------------- NewGroup ---------------- *)
Lemma vinv_new_group : forall g st given, cinv st -> vinv st given -> vinv (fst (step (NewGroup g) st)) (ghost_step (NewGroup g) st given).
Proof.
  intros g st given Hc (Hv & Hng & Hinc & Hd & Hs & Hcmp). simpl.
  destruct (zmem g (groups st)) eqn:Eg; simpl; [unfold vinv; tauto |].
  set (nw := new_subs (next st) (map (fun d => (d, g)) (dc st))).
  set (st1 := mkV _ _ _ _ _ _ _).
  assert (Hv1 : vsync st1) by exact Hv.
  destruct (fold_created nw st1 Hv1) as [Hv' [Hsc Ha]].
  destruct Hsc as (_ & Hdc & _ & Hsb & _).
  unfold vinv. split; [exact Hv' |]. split; [exact Hng |]. split; [| split; [| split]].
  - intros x Hx. rewrite Hdc. unfold st1; simpl. apply Hinc. exact Hx.
  - intros d. rewrite Ha. unfold st1 at 1 2; simpl. rewrite Hd. split; [| tauto].
    intros [H | [s [_ [H _]]]]; [exact H | discriminate].
  - intros s d g' H. apply Ha in H. unfold st1 at 1 2 in H; simpl in H. rewrite Hdc, Hsb. unfold st1; simpl.
    destruct H as [H | [s0 [Hs0 [E _]]]].
    + destruct (Hs s d g' H) as [A [lv B]]. split; [exact A |]. exists lv. apply in_or_app. left. exact B.
    + symmetry in E. apply lay_eq in E. destruct E as [lv E]. subst s0.
      destruct (new_subs_group _ _ _ _ Hs0) as [_ [A _]]. simpl in A.
      split; [exact A |]. exists lv. apply in_or_app. right. exact Hs0.
  - intros x Hx Hg. apply Ha. unfold st1 at 1 2; simpl. rewrite Hsb in Hx. unfold st1 in Hx; simpl in Hx.
    apply in_app_or in Hx. destruct Hx as [Hx | Hx].
    + left. apply Hcmp; assumption.
    + right. exists x. split; [exact Hx |]. split; [reflexivity |]. apply Hd. exact Hg.
Qed.

(* ---------------- RemoveGroup ---------------- *)
Lemma vinv_remove_group : forall g st given, cinv st -> vinv st given -> vinv (fst (step (RemoveGroup g) st)) (ghost_step (RemoveGroup g) st given).
Proof.
  intros g st given Hc (Hv & Hng & Hinc & Hd & Hs & Hcmp). simpl.
  destruct (negb (zmem g (groups st))) eqn:Eg; simpl; [unfold vinv; tauto |].
  set (p := fun s : sub => (s_g s =? g) && s_live s).
  set (dead := filter _ (subs st)).
  set (st1 := mkV _ _ _ _ _ _ _).
  assert (Hv1 : vsync st1) by exact Hv.
  destruct (fold_deleted dead st1 Hv1) as [Hv' [Hsc Ha]].
  destruct Hsc as (_ & Hdc & _ & Hsb & _).
  destruct Hc as (_ & _ & Hids & _).
  unfold vinv. split; [exact Hv' |]. split; [exact Hng |]. split; [| split; [| split]].
  - intros x Hx. rewrite Hdc. unfold st1; simpl. apply Hinc. exact Hx.
  - intros d. rewrite Ha. unfold st1 at 1; simpl. rewrite Hd. split; [tauto |]. intros H. split; [exact H |]. intros s _. discriminate.
  - intros s d g' H. apply Ha in H. unfold st1 at 1 in H; simpl in H. destruct H as [H H3].
    destruct (Hs s d g' H) as [A [lv B]]. rewrite Hdc, Hsb. unfold st1; simpl. split; [exact A |].
    exists lv. apply filter_In. split; [exact B |].
    apply negb_true_iff. destruct (p (mkSub s d g' lv)) eqn:Ep; [| exact Ep].
    exfalso. apply (H3 (mkSub s d g' lv)); [apply filter_In; split; [exact B | exact Ep] | reflexivity].
  - intros x Hx Hg. rewrite Hsb in Hx. unfold st1 in Hx; simpl in Hx. apply filter_In in Hx. destruct Hx as [Hx Hp].
    apply negb_true_iff in Hp.
    apply Ha. unfold st1 at 1; simpl. split; [apply Hcmp; assumption |].
    intros s' Hs' E. apply filter_In in Hs'. destruct Hs' as [Hs' Hp'].
    assert (s' = x).
    { apply (NoDup_map_inj (subs st)); [exact Hids | exact Hs' | exact Hx |]. destruct x, s'; unfold lay in E; simpl in *. congruence. }
    subst s'. fold p in Hp'. unfold p in Hp, Hp'. congruence.
Qed.

(* ---------------- AddData ---------------- *)
Lemma vinv_add_data : forall d st given, cinv st -> vinv st given -> vinv (fst (step (AddData d) st)) (ghost_step (AddData d) st given).
Proof.
  intros d st given Hc (Hv & Hng & Hinc & Hd & Hs & Hcmp). simpl. unfold add_data.
  destruct (has (LData d) (arts st)) eqn:E0; simpl.
  - apply has_In in E0. apply Hd in E0. apply zmem_In in E0. rewrite E0. simpl. rewrite andb_false_r.
    unfold vinv; tauto.
  - apply has_false in E0.
    destruct (zmem d (dc st)) eqn:E1; simpl; [| unfold vinv; tauto].
    assert (Hnot : ~ In d given) by (intro H; apply E0; apply Hd; exact H).
    assert (E2 : zmem d given = false) by (apply zmem_false; exact Hnot). rewrite E2. simpl.
    apply zmem_In in E1.
    destruct (add_layer_spec (LData d) st Hv E0) as [A [B C]].
    assert (Hv1 : vsync (add_layer (LData d) st)).
    { split; [rewrite A, B; reflexivity | rewrite A; apply NoDup_snoc; [apply Hv | exact E0]]. }
    destruct (fold_add_subsets (dsubs (subs st) d) _ Hv1) as [Hv' [Hsc Ha]].
    destruct Hsc as (_ & Hdc & _ & Hsb & _). destruct C as (_ & Cdc & _ & Csb & _).
    unfold vinv. split; [exact Hv' |]. split; [apply NoDup_snoc; assumption |]. split; [| split; [| split]].
    + intros x Hx. rewrite Hdc, Cdc. apply in_app_or in Hx. destruct Hx as [Hx | [Hx | []]]; [apply Hinc; exact Hx | subst; exact E1].
    + intros d'. rewrite Ha. rewrite A. rewrite !in_app_iff. simpl. rewrite Hd. split.
      * intros [[H | [H | []]] | [s [_ H]]]; [tauto | inversion H; tauto | discriminate].
      * intros [H | [H | []]]; [tauto | subst; tauto].
    + intros s d' g H. apply Ha in H. rewrite A in H. rewrite in_app_iff in H. simpl in H. rewrite Hdc, Cdc, Hsb, Csb.
      destruct H as [[H | [H | []]] | [s0 [Hs0 E]]]; [apply Hs; exact H | discriminate |].
      symmetry in E. apply lay_eq in E. destruct E as [lv E]. subst s0.
      unfold dsubs in Hs0. apply filter_In in Hs0. destruct Hs0 as [Hs0 Hdd]. simpl in Hdd. apply Z.eqb_eq in Hdd. subst d'.
      split; [exact E1 |]. exists lv. exact Hs0.
    + intros x Hx Hg. rewrite Hsb, Csb in Hx. apply Ha. rewrite A. rewrite in_app_iff.
      apply in_app_or in Hg. destruct Hg as [Hg | [Hg | []]].
      * left. left. apply Hcmp; assumption.
      * right. exists x. split; [| reflexivity]. unfold dsubs. apply filter_In. split; [exact Hx |]. apply Z.eqb_eq. symmetry. exact Hg.
Qed.

(* ---------------- AddSubset ---------------- *)
Lemma vinv_add_subset : forall s d g st given, cinv st -> vinv st given -> vinv (fst (step (AddSubset s d g) st)) (ghost_step (AddSubset s d g) st given).
Proof.
  intros s d g st given Hc (Hv & Hng & Hinc & Hd & Hs & Hcmp). simpl.
  destruct (zmem d (dc st) && sub_known (subs st) s d g) eqn:E; simpl; [| unfold vinv; tauto].
  apply andb_true_iff in E. destruct E as [E1 E2]. apply zmem_In in E1.
  unfold sub_known in E2. apply existsb_exists in E2. destruct E2 as [x [Hx E2]].
  apply andb_true_iff in E2. destruct E2 as [E2 E5]. apply andb_true_iff in E2. destruct E2 as [E3 E4].
  apply Z.eqb_eq in E3, E4, E5.
  assert (Hknown : exists lv, In (mkSub s d g lv) (subs st)).
  { exists (s_live x). rewrite (sub_eta x) in Hx. rewrite E3, E4, E5 in Hx. exact Hx. }
  destruct (add_subset_layer_spec (LSub s d g) st Hv) as [Hv' [Hsc Ha]].
  destruct Hsc as (_ & Hdc & _ & Hsb & _).
  unfold vinv. split; [exact Hv' |]. split; [exact Hng |]. split; [| split; [| split]].
  - intros y Hy. rewrite Hdc. apply Hinc. exact Hy.
  - intros d'. rewrite Ha. rewrite Hd. split; [| tauto]. intros [H | H]; [exact H | discriminate].
  - intros s' d' g' H. apply Ha in H. rewrite Hdc, Hsb. destruct H as [H | H]; [apply Hs; exact H |].
    inversion H. subst. split; [exact E1 | exact Hknown].
  - intros y Hy Hg. rewrite Hsb in Hy. apply Ha. left. apply Hcmp; assumption.
Qed.

(* ---------------- SaveRestore ---------------- *)
Lemma vinv_save_restore : forall st given, cinv st -> vinv st given -> vinv (fst (step SaveRestore st)) (ghost_step SaveRestore st given).
Proof.
  intros st given Hc (Hv & Hng & Hinc & Hd & Hs & Hcmp). simpl.
  unfold vinv. split; [exact Hv |]. split; [exact Hng |]. split; [exact Hinc |]. split; [exact Hd |]. simpl. split.
  - intros s d g H. destruct (Hs s d g H) as [A [lv B]]. split; [exact A |]. exists lv.
    apply filter_In. split; [exact B |]. simpl. apply zmem_In. exact A.
  - intros x Hx Hg. apply filter_In in Hx. apply Hcmp; tauto.
Qed.

Lemma step_vinv : forall o st given, cinv st -> vinv st given -> vinv (fst (step o st)) (ghost_step o st given).
Proof.
  intros o st given Hc Hv. destruct o.
  - apply vinv_append; assumption.
  - apply vinv_remove; assumption.
  - apply vinv_new_group; assumption.
  - apply vinv_remove_group; assumption.
  - apply vinv_add_data; assumption.
  - apply vinv_remove_data; assumption.
  - apply vinv_add_subset; assumption.
  - apply vinv_save_restore; assumption.
  - apply vinv_remove_layer; assumption.
Qed.

Lemma step_fixed : forall o st, vsync st -> fixed (fst (step o st)) = fixed st.
Proof.
  intros o st Hv. destruct o as [d | d | g | g | d | d | s d g | | d]; cbn [step].
  - destruct (zmem d (dc st)); simpl; [reflexivity |].
    match goal with |- fixed (fold_left ?f ?nw ?s1) = _ =>
      assert (Hv1 : vsync s1) by exact Hv; destruct (fold_created nw s1 Hv1) as [_ [Hsc _]]; destruct Hsc as [H _]; exact H end.
  - destruct (negb (zmem d (dc st))); [reflexivity |]. cbn [fst].
    match goal with |- fixed (remove_data ?dd ?s1) = _ =>
      assert (Hv1 : vsync s1) by exact Hv; destruct (remove_data_spec d s1 Hv1) as [_ [_ Hsc]]; destruct Hsc as [H _]; exact H end.
  - destruct (zmem g (groups st)); simpl; [reflexivity |].
    match goal with |- fixed (fold_left ?f ?nw ?s1) = _ =>
      assert (Hv1 : vsync s1) by exact Hv; destruct (fold_created nw s1 Hv1) as [_ [Hsc _]]; destruct Hsc as [H _]; exact H end.
  - destruct (negb (zmem g (groups st))); simpl; [reflexivity |].
    match goal with |- fixed (fold_left ?f ?dead ?s1) = _ =>
      assert (Hv1 : vsync s1) by exact Hv; destruct (fold_deleted dead s1 Hv1) as [_ [Hsc _]]; destruct Hsc as [H _]; exact H end.
  - unfold add_data. destruct (has (LData d) (arts st)) eqn:E0; simpl; [reflexivity |].
    destruct (negb (zmem d (dc st))); simpl; [reflexivity |].
    apply has_false in E0. destruct (add_layer_spec (LData d) st Hv E0) as [A [B C]].
    assert (Hv1 : vsync (add_layer (LData d) st)).
    { split; [rewrite A, B; reflexivity | rewrite A; apply NoDup_snoc; [apply Hv | exact E0]]. }
    destruct (fold_add_subsets (dsubs (subs st) d) _ Hv1) as [_ [Hsc _]]. destruct Hsc as [H _]. destruct C as [C _]. congruence.
  - cbn [fst]. destruct (remove_data_spec d st Hv) as [_ [_ Hsc]]. destruct Hsc as [H _]. exact H.
  - destruct (zmem d (dc st) && sub_known (subs st) s d g); simpl; [| reflexivity].
    destruct (add_subset_layer_spec (LSub s d g) st Hv) as [_ [Hsc _]]. destruct Hsc as [H _]. exact H.
  - reflexivity.
  - cbn [fst]. destruct (remove_subset_spec (LData d) st Hv) as [_ [_ Hsc]]. destruct Hsc as [H _]. exact H.
Qed.

(* ---------------- reachability ---------------- *)
Definition full_inv (fx : bool) (st : vstate) (given : list Z) : Prop :=
  fixed st = fx /\ cinv st /\ vinv st given.

Lemma run_v_inv : forall fx ops st given, full_inv fx st given ->
  full_inv fx (fst (run_v ops st given)) (snd (run_v ops st given)).
Proof.
  intros fx ops. induction ops as [| o t IH]; intros st given H; simpl; [exact H |].
  apply IH. destruct H as [Hf [Hc Hv]]. pose proof Hv as [Hvs _].
  split; [rewrite step_fixed; assumption |]. split; [apply step_cinv; assumption | apply step_vinv; assumption].
Qed.

Lemma init_inv : forall fx, full_inv fx (init_v fx) [].
Proof.
  intros fx. unfold full_inv, init_v, cinv, vinv, vsync; simpl.
  split; [reflexivity |]. split.
  - repeat split; try constructor.
  - split; [split; [reflexivity | constructor] |]. split; [constructor |]. split; [intros d [] |].
    split; [intros d; tauto |]. split; [intros s d g [] | intros x []].
Qed.

(* full statement.  After every history of collection operations (append / remove a dataset, create / remove a subset
   group, save and restore the session) and viewer operations (add_data, remove_data, add_subset of any current subset
   of a dataset in the collection - also when the viewer does not show that dataset -, remove_layer of a dataset's own
   layer), with `given` = the datasets handed to the viewer with add_data and not taken away since:
   - the artist list and state.layers are the same list, without repetition;
   - the dataset layers are exactly the given datasets, all of them in the collection;
   - every subset layer is a current subset (member of data.subsets) of a dataset that is in the collection: nothing
     remains for removed datasets, subsets or groups;
   - every current subset of a given dataset has its layer (with the previous item and NoDup: exactly one);
   - on a tree where dc.remove detaches the grouped subsets (C06 repaired) every subset layer belongs to a live group. *)
Theorem viewer_inv_reachable : forall (fx : bool) (ops : list op),
  let st := fst (run_v ops (init_v fx) []) in
  let given := snd (run_v ops (init_v fx) []) in
  sls st = arts st /\ NoDup (arts st) /\ NoDup given /\
  (forall d, In d given -> In d (dc st)) /\
  (forall d, In (LData d) (arts st) <-> In d given) /\
  (forall s d g, In (LSub s d g) (arts st) -> In d (dc st) /\ exists lv, In (mkSub s d g lv) (subs st)) /\
  (forall s d g lv, In d given -> In (mkSub s d g lv) (subs st) -> In (LSub s d g) (arts st)) /\
  (fx = true -> forall s d g, In (LSub s d g) (arts st) -> In g (groups st)).
Proof.
  intros fx ops st given.
  destruct (run_v_inv fx ops _ _ (init_inv fx)) as [Hf [Hc Hv]]. fold st in Hf, Hc, Hv. fold given in Hv.
  destruct Hv as ([Hs Hn] & Hng & Hinc & Hd & Hsub & Hcmp).
  split; [exact Hs |]. split; [exact Hn |]. split; [exact Hng |]. split; [exact Hinc |].
  split; [exact Hd |]. split; [exact Hsub |].
  split; [intros s d g lv H1 H2; apply (Hcmp (mkSub s d g lv)); assumption |].
  intros Hfx s d g Hin. destruct (Hsub s d g Hin) as [_ [lv Hx]].
  destruct Hc as (_ & _ & _ & _ & Hfix). rewrite Hf in Hfix. specialize (Hfix Hfx).
  rewrite Forall_forall in Hfix. destruct (Hfix _ Hx) as [_ [_ B]]. exact B.
Qed.
