(* C18 — re-exports the proofs used by Property.v
   LemmasViewer / LemmasViewer2 : the viewer mirrors the collection (part 1)
   LemmasBlocks                 : the block-aware executable run_d; guarded theorem and refutation inside blocks
   LemmasPicker                 : attribute pickers and dataset pickers (parts 2-3)
   LemmasAxes                   : image viewer axes (part 4) *)
From GV Require Export C18.Model C18.LemmasPicker C18.LemmasViewer C18.LemmasViewer2 C18.LemmasBlocks C18.LemmasAxes.

Definition viewer_inv_reachable := LemmasBlocks.viewer_inv_reachable.
Definition viewer_inv_reachable_plain := LemmasViewer2.viewer_inv_reachable.
Definition viewer_blocks_refuted := LemmasBlocks.viewer_blocks_refuted.
Definition picker_inv_reachable := LemmasPicker.picker_inv_reachable.
Definition dpicker_inv_reachable := LemmasPicker.dpicker_inv_reachable.
Definition image_axes_distinct := LemmasAxes.image_axes_distinct.
