(* C18 — re-exports the proofs used by Property.v
   LemmasViewer / LemmasViewer2 : the viewer mirrors the collection (part 1)
   LemmasBlocks                 : the block-aware executable run_d; guarded theorem and refutation inside blocks
   LemmasPicker                 : attribute pickers and dataset pickers (parts 2-3)
   LemmasAxes                   : image viewer axes (part 4)
   GenEquiv1 .. GenEquiv4, GenEquiv : the functions translated from viewer.py / layer_artist.py (coq/gen/Gen_viewer.v) against
                                  the hand model (part 5)
   GenPicker                    : the functions translated from data_combo_helper.py (coq/gen/Gen_picker.v) against part 2 (part 6)
   GenDPicker                   : the translated dataset pickers against part 3 (part 7) *)
From GV Require Export C18.Model C18.LemmasPicker C18.LemmasViewer C18.LemmasViewer2 C18.LemmasBlocks C18.LemmasAxes
                       C18.GenEquiv1 C18.GenEquiv2 C18.GenEquiv3 C18.GenEquiv4 C18.GenEquiv C18.GenUpdate C18.GenPicker C18.GenDPicker.

Definition viewer_inv_reachable := LemmasBlocks.viewer_inv_reachable.
Definition viewer_inv_reachable_plain := LemmasViewer2.viewer_inv_reachable.
Definition viewer_blocks_refuted := LemmasBlocks.viewer_blocks_refuted.
Definition picker_inv_reachable := LemmasPicker.picker_inv_reachable.
Definition dpicker_inv_reachable := LemmasPicker.dpicker_inv_reachable.
Definition image_axes_distinct := LemmasAxes.image_axes_distinct.
Definition gen_step_refines := GenEquiv.gen_step_refines.
Definition gen_sync_idle := GenEquiv.gen_sync_idle.
Definition gen_viewer_inv_reachable := GenEquiv.gen_viewer_inv_reachable.
Definition gen_picker_step_refines := GenPicker.gen_picker_step_refines.
Definition gen_picker_inv_reachable := GenPicker.gen_picker_inv_reachable.
Definition gen_refresh_attrs := GenPicker.gen_refresh_attrs.
Definition gen_picker_procs := GenPicker.gen_picker_procs.
Definition gen_dpicker_step_refines := GenDPicker.gen_dpicker_step_refines.
Definition gen_dpicker_inv_reachable := GenDPicker.gen_dpicker_inv_reachable.
Definition gen_update_subset_spec := GenUpdate.gen_update_subset_spec.
Definition gen_update_data_spec := GenUpdate.gen_update_data_spec.
