(* C18 — translated viewer, part 5: Viewer.remove_subset / remove_layer / the SubsetDeleteMessage subscription against the
   hand model; Viewer.remove_data (layer states dropped inside delay_callback(state, 'layers'), the container pruned by the
   held-back callback) and the DataCollectionDeleteMessage subscription. *)
From Coq Require Import ZArith List Bool Lia.
Import ListNotations.
From GV Require Import Common.Wire C18.Model C18.LemmasViewer C18.LemmasViewer2 C18.LemmasBlocks C18.GenEquiv1 C18.GenEquiv2 C18.GenEquiv3.
From GV Require gen.Gen_viewer.
Open Scope Z_scope.

Lemma K_knot2 : forall h, K h = G.knot (S (S (S (S (length (G.h_artists h) + length (G.h_layers h)))))).
Proof. reflexivity. Qed.

Definition drop (x : layer) (l : list layer) : list layer := filter (fun a => negb (layer_eqb x a)) l.

(* ------------------------------------------------------------------ remove_layer, remove_subset, SubsetDeleteMessage *)
Lemma remove_layer_spec : forall x h, hinv h ->
  exists h', G.Viewer_remove_layer (K h) x h = h' /\ hinv h' /\ heap_arts h' = drop x (heap_arts h) /\
             G.h_dc h' = G.h_dc h /\ G.h_subsets h' = G.h_subsets h.
Proof.
  intros x h Hi. unfold G.Viewer_remove_layer. rewrite K_knot2.
  destruct (pop_spec (S (S (length (G.h_artists h) + length (G.h_layers h)))) x h Hi) as [tr E]. rewrite E. eexists. split; [reflexivity |].
  split; [apply hinv_set_trace; apply hinv_kept; exact Hi |]. split; [| split; reflexivity].
  change (heap_arts (set_trace tr (kept (fun a => negb (layer_eqb x (G.art_layer a))) h)))
    with (heap_arts (kept (fun a => (fun y => negb (layer_eqb x y)) (G.art_layer a)) h)).
  apply kept_arts.
Qed.

Lemma drop_absent : forall x l, ~ In x l -> drop x l = l.
Proof.
  intros x l H. apply filter_all. intros y Hy. apply negb_true_iff. destruct (layer_eqb x y) eqn:E; [| reflexivity].
  apply layer_eqb_eq in E. subst. contradiction.
Qed.

Lemma remove_subset_gen : forall x h, hinv h ->
  exists h', G.Viewer_remove_subset (K h) x h = h' /\ hinv h' /\ heap_arts h' = drop x (heap_arts h) /\
             G.h_dc h' = G.h_dc h /\ G.h_subsets h' = G.h_subsets h.
Proof.
  intros x h Hi. unfold G.Viewer_remove_subset. rewrite contains_has. destruct (has x (heap_arts h)) eqn:E.
  - apply (remove_layer_spec x h Hi).
  - apply has_false in E. exists h. rewrite (drop_absent _ _ E). tauto.
Qed.

Lemma send_delete : forall x h, hinv h ->
  exists h', send G.C_SubsetDeleteMessage x h = h' /\ hinv h' /\ heap_arts h' = drop x (heap_arts h) /\
             G.h_dc h' = G.h_dc h /\ G.h_subsets h' = G.h_subsets h.
Proof.
  intros x h Hi. unfold send, G.deliver.
  change (find (fun e => G.mclass_eqb (fst (fst e)) (G.msg_class (G.mkMsg G.C_SubsetDeleteMessage x 1 false))) G.subscriptions)
    with (Some (G.C_SubsetDeleteMessage, G.H__remove_subset, Some G.F__has_data_or_subset)).
  cbn [snd fst G.run_filter G.run_handler].
  change (G.Viewer__has_data_or_subset (G.mkMsg G.C_SubsetDeleteMessage x 1 false) h) with (has x (heap_arts h)).
  destruct (has x (heap_arts h)) eqn:E.
  - unfold G.Viewer__remove_subset. cbn [G.msg_obj]. apply (remove_subset_gen x h Hi).
  - apply has_false in E. exists h. rewrite (drop_absent _ _ E). tauto.
Qed.

Lemma hand_remove_subset : forall l st, vsync st ->
  arts (remove_subset l st) = drop l (arts st) /\ vsync (remove_subset l st) /\ same_coll (remove_subset l st) st.
Proof.
  intros l st Hv. destruct (remove_subset_spec l st Hv) as (A & B & C). split; [exact A |]. split; [| exact C].
  eapply vsync_filter; eassumption.
Qed.

Lemma fold_deleted_both : forall L st h,
  vsync st -> hinv h -> heap_arts h = arts st ->
  let st' := fold_left (fun v s => on_sub_deleted s v) L st in
  let h' := fold_left (fun h s => send G.C_SubsetDeleteMessage (lay s) h) L h in
  vsync st' /\ same_coll st' st /\ hinv h' /\ heap_arts h' = arts st' /\ G.h_dc h' = G.h_dc h /\ G.h_subsets h' = G.h_subsets h.
Proof.
  intros L. induction L as [| s t IH]; intros st h Hv Hi Ha; simpl.
  - split; [exact Hv |]. split; [apply same_coll_refl |]. tauto.
  - unfold on_sub_deleted at 2. destruct (hand_remove_subset (lay s) st Hv) as (A1 & V1 & C1).
    destruct (send_delete (lay s) h Hi) as (h1 & E1 & Hi1 & B1 & D1 & S1). rewrite E1.
    assert (Ha1 : heap_arts h1 = arts (remove_subset (lay s) st)) by (rewrite B1, A1, Ha; reflexivity).
    destruct (IH (remove_subset (lay s) st) h1 V1 Hi1 Ha1) as (V2 & C2 & Hi2 & A2 & D2 & S2).
    split; [exact V2 |]. split; [eapply same_coll_trans; eassumption |]. split; [exact Hi2 |]. split; [exact A2 |].
    rewrite D2, D1, S2, S1. tauto.
Qed.

(* ------------------------------------------------------------------ remove_data *)
Definition on_data (d : Z) (x : layer) : bool := layer_data x =? d.

Definition gen_match (data : layer) (s : G.lstate) : bool :=
  if G.is_data (G.ls_layer s) then G.layer_eqb (G.ls_layer s) data else G.layer_eqb (G.obj_data (G.ls_layer s)) data.

Lemma gen_match_eq : forall d s, gen_match (LData d) s = on_data d (G.ls_layer s).
Proof. intros d [i [e | s e g]]; reflexivity. Qed.

(* inside the delay block: removals from state.layers call nothing back *)
Lemma fold_delayed : forall (m : G.lstate -> bool) (body : G.heap -> G.lstate -> G.heap),
  (forall h s, 0 < G.h_delay h -> body h s = if m s then G.hset_layers (G.remove_lstate s (G.h_layers h)) h else h) ->
  forall L h, 0 < G.h_delay h ->
  fold_left body L h = G.hset_layers (fold_left (fun ls s => if m s then G.remove_lstate s ls else ls) L (G.h_layers h)) h.
Proof.
  intros m body Hb L. induction L as [| s t IH]; intros h Hd; cbn [fold_left].
  - destruct h; reflexivity.
  - rewrite (Hb h s Hd). destruct (m s).
    + rewrite IH by exact Hd. reflexivity.
    + apply IH. exact Hd.
Qed.

Lemma filter_filter : forall (A : Type) (p q : A -> bool) l, filter p (filter q l) = filter (fun x => q x && p x) l.
Proof.
  intros A p q l. induction l as [| x t IH]; simpl; [reflexivity |].
  destruct (q x); simpl; [destruct (p x); rewrite IH; reflexivity | exact IH].
Qed.

Lemma ids_inj : forall (A : Type) (k : A -> Z) l a b, NoDup (map k l) -> In a l -> In b l -> k a = k b -> a = b.
Proof.
  intros A k l. induction l as [| x t IH]; intros a b Hn Ha Hb E; [destruct Ha |].
  simpl in Hn. inversion Hn as [| ? ? Hx Ht]; subst.
  destruct Ha as [Ha | Ha]; destruct Hb as [Hb | Hb]; subst.
  - reflexivity.
  - exfalso. apply Hx. rewrite E. apply in_map. exact Hb.
  - exfalso. apply Hx. rewrite <- E. apply in_map. exact Ha.
  - apply IH; assumption.
Qed.

(* removing, one after the other and by identity, the marked elements of L *)
Lemma fold_remove_marked : forall (A : Type) (k : A -> Z) (rm : A -> list A -> list A) (m : A -> bool),
  (forall s l, NoDup (map k l) -> rm s l = filter (fun x => negb (k x =? k s)) l) ->
  forall L l, NoDup (map k l) ->
  fold_left (fun l s => if m s then rm s l else l) L l = filter (fun x => negb (existsb (fun s => m s && (k x =? k s)) L)) l.
Proof.
  intros A k rm m Hrm L. induction L as [| s t IH]; intros l Hn; cbn [fold_left existsb].
  - symmetry. apply filter_all. reflexivity.
  - destruct (m s) eqn:Em; cbn [andb orb].
    + rewrite IH by (rewrite Hrm by exact Hn; apply NoDup_map_filter_gen; exact Hn).
      rewrite Hrm by exact Hn. rewrite filter_filter. apply filter_ext_in'. intros x _.
      destruct (k x =? k s); reflexivity.
    + apply IH. exact Hn.
Qed.

Lemma fold_remove_all : forall (A : Type) (k : A -> Z) (rm : A -> list A -> list A) (m : A -> bool),
  (forall s l, NoDup (map k l) -> rm s l = filter (fun x => negb (k x =? k s)) l) ->
  forall L l, NoDup (map k l) -> (forall x, In x l -> In x L) -> (forall x, In x L -> In x l) ->
  fold_left (fun l s => if m s then rm s l else l) L l = filter (fun x => negb (m x)) l.
Proof.
  intros A k rm m Hrm L l Hn H1 H2. rewrite (fold_remove_marked A k rm m Hrm L l Hn).
  apply filter_ext_in'. intros x Hx. f_equal. destruct (m x) eqn:Em.
  - apply existsb_exists. exists x. split; [apply H1; exact Hx |]. rewrite Em, Z.eqb_refl. reflexivity.
  - apply not_true_is_false. intro H. apply existsb_exists in H. destruct H as [s [Hs E]].
    apply andb_true_iff in E. destruct E as [E1 E2]. apply Z.eqb_eq in E2.
    assert (x = s) by (apply (ids_inj A k l); [exact Hn | exact Hx | apply H2; exact Hs | exact E2]). subst s. congruence.
Qed.

Lemma lstates_eqb_length : forall a b, G.lstates_eqb a b = true -> length a = length b.
Proof.
  induction a as [| x t IH]; intros [| y r] H; simpl in *; try discriminate; [reflexivity |].
  apply andb_true_iff in H. f_equal. apply IH. tauto.
Qed.

Lemma filter_len_le : forall (A : Type) (p : A -> bool) l, (length (filter p l) <= length l)%nat.
Proof. intros A p l. induction l as [| x t IH]; simpl; [lia |]. destruct (p x); simpl; lia. Qed.

Lemma filter_length_all : forall (A : Type) (p : A -> bool) l, length (filter p l) = length l -> filter p l = l.
Proof.
  intros A p l. induction l as [| x t IH]; intros H; simpl in *; [reflexivity |].
  destruct (p x); simpl in *.
  - f_equal. apply IH. lia.
  - pose proof (filter_len_le A p t). lia.
Qed.

Lemma lstates_eqb_refl : forall a, G.lstates_eqb a a = true.
Proof. induction a as [| x t IH]; simpl; [reflexivity | rewrite Z.eqb_refl, IH; reflexivity]. Qed.

(* the held-back 'layers' callback: _sync_layer_artist_container when the layer states are those of the artists passing q *)
Lemma sync_container_fold : forall f (LS : list layer) (q : G.artist -> bool) (A : list G.artist)
    (body : G.heap -> G.artist -> G.heap),
  NoDup (map G.art_id A) ->
  (forall h a, body h a = if negb (has (G.art_layer a) LS) then G.LayerArtistContainer_remove (G.knot (S f)) a h else h) ->
  (forall a, In a A -> has (G.art_layer a) LS = q a) ->
  forall L h,
  (forall a, In a L -> In a A) -> (forall b, In b (G.h_artists h) -> In b A) -> NoDup (map G.art_id (G.h_artists h)) ->
  (forall b, In b A -> q b = true -> In b (G.h_artists h)) ->
  (forall s, In s (G.h_layers h) -> exists b, In b A /\ q b = true /\ G.art_layer b = G.ls_layer s) ->
  G.h_ignore_change h = false ->
  exists tr, fold_left body L h =
    set_trace tr (G.hset_artists (filter (fun b => negb (existsb (fun a => negb (q a) && (G.art_id b =? G.art_id a)) L)) (G.h_artists h)) h).
Proof.
  intros f LS q A body HnA Hb Hq L. induction L as [| a t IH]; intros h HL Hsub Hn Hkeep Hst Hic; cbn [fold_left existsb].
  - exists (G.h_trace h). rewrite (filter_all _ _ (G.h_artists h)) by reflexivity. destruct h; reflexivity.
  - rewrite Hb. rewrite (Hq a) by (apply HL; left; reflexivity).
    assert (HLt : forall a0, In a0 t -> In a0 A) by (intros a0 H0; apply HL; right; exact H0).
    destruct (q a) eqn:Eq; cbn [negb andb orb].
    + apply IH; assumption.
    + unfold G.LayerArtistContainer_remove. destruct (G.artist_mem a (G.h_artists h)) eqn:Em.
      * rewrite remove_artist_filter by exact Hn.
        set (B' := filter (fun x => negb (G.art_id x =? G.art_id a)) (G.h_artists h)).
        set (h1 := G.ev (G.EArtistRemove (G.art_layer a)) (G.hset_artists B' h)).
        rewrite notify_knot by (subst h1; simpl; exact Hic).
        assert (Hkeep1 : forall b, In b A -> q b = true -> In b B').
        { intros b HbA Hqb. subst B'. apply filter_In. split; [apply Hkeep; assumption |].
          apply negb_true_iff. apply Z.eqb_neq. intro E.
          assert (b = a) by (apply (ids_inj _ G.art_id A); [exact HnA | exact HbA | apply HL; left; reflexivity | exact E]).
          subst b. congruence. }
        rewrite sync_state_noop.
        2:{ intros s Hs. change (G.h_layers h1) with (G.h_layers h) in Hs. destruct (Hst s Hs) as (b & HbA & Hqb & El).
            apply has_In. rewrite <- El. unfold heap_arts. apply in_map. apply Hkeep1; assumption. }
        destruct (IH h1) as [tr Etr].
        -- exact HLt.
        -- intros b Hb'. change (G.h_artists h1) with B' in Hb'. subst B'. apply filter_In in Hb'. apply Hsub. tauto.
        -- change (G.h_artists h1) with B'. subst B'. apply NoDup_map_filter_gen. exact Hn.
        -- exact Hkeep1.
        -- exact Hst.
        -- exact Hic.
        -- rewrite Etr. exists tr. change (G.h_artists h1) with B'. subst B' h1. rewrite filter_filter.
           unfold set_trace, G.hset_artists, G.ev; simpl. f_equal.
           apply filter_ext_in'. intros x _. destruct (G.art_id x =? G.art_id a); reflexivity.
      * (* not (any more) in the container: nothing happens *)
        destruct (IH h HLt Hsub Hn Hkeep Hst Hic) as [tr Etr]. rewrite Etr. exists tr. f_equal. f_equal.
        apply filter_ext_in'. intros x Hx. destruct (G.art_id x =? G.art_id a) eqn:E; [| reflexivity].
        exfalso. apply Z.eqb_eq in E. assert (G.artist_mem a (G.h_artists h) = true); [| congruence].
        unfold G.artist_mem. apply existsb_exists. exists x. split; [exact Hx | apply Z.eqb_eq; exact E].
Qed.

Lemma marked_filter : forall (A : Type) (k : A -> Z) (m : A -> bool) L l,
  NoDup (map k l) -> (forall x, In x l -> In x L) -> (forall x, In x L -> In x l) ->
  filter (fun x => negb (existsb (fun s => m s && (k x =? k s)) L)) l = filter (fun x => negb (m x)) l.
Proof.
  intros A k m L l Hn H1 H2.
  apply filter_ext_in'. intros x Hx. f_equal. destruct (m x) eqn:Em.
  - apply existsb_exists. exists x. split; [apply H1; exact Hx |]. rewrite Em, Z.eqb_refl. reflexivity.
  - apply not_true_is_false. intro H. apply existsb_exists in H. destruct H as [s [Hs E]].
    apply andb_true_iff in E. destruct E as [E1 E2]. apply Z.eqb_eq in E2.
    assert (x = s) by (apply (ids_inj A k l); [exact Hn | exact Hx | apply H2; exact Hs | exact E2]). subst s. congruence.
Qed.

Lemma layers_inj : forall (l : list G.artist) a b, NoDup (map G.art_layer l) -> In a l -> In b l -> G.art_layer a = G.art_layer b -> a = b.
Proof.
  induction l as [| x t IH]; intros a b Hn Ha Hb E; [destruct Ha |].
  simpl in Hn. inversion Hn as [| ? ? Hx Ht]; subst.
  destruct Ha as [Ha | Ha]; destruct Hb as [Hb | Hb]; subst.
  - reflexivity.
  - exfalso. apply Hx. rewrite E. apply in_map. exact Hb.
  - exfalso. apply Hx. rewrite <- E. apply in_map. exact Ha.
  - apply IH; assumption.
Qed.

Lemma filter_map_comm : forall (A B : Type) (g : A -> B) (p : B -> bool) l, filter p (map g l) = map g (filter (fun x => p (g x)) l).
Proof. intros A B g p l. induction l as [| x t IH]; simpl; [reflexivity |]. destruct (p (g x)); simpl; rewrite IH; reflexivity. Qed.

Lemma hinv_pruned : forall q h h', hinv h ->
  G.h_artists h' = filter q (G.h_artists h) -> G.h_layers h' = map G.art_state (filter q (G.h_artists h)) ->
  G.h_next h' = G.h_next h -> G.h_delay h' = 0 -> G.h_ignore_change h' = false -> G.h_ignore_empty h' = false -> G.h_err h' = false ->
  hinv h'.
Proof.
  intros q h h' [H1 H2 H3 H4 H5 H6 H7 H8 H9] Ea El En Ed Eic Eie Eer. constructor; try assumption.
  - rewrite El, Ea. reflexivity.
  - rewrite Ea. apply NoDup_map_filter_gen. exact H2.
  - rewrite Ea. apply NoDup_map_filter_gen. exact H3.
  - intros a Ha. rewrite Ea in Ha. apply filter_In in Ha. rewrite En. apply H4. tauto.
  - rewrite Ea. apply incr_filter. exact H5.
Qed.

Lemma remove_data_gen : forall d h, hinv h ->
  exists h', G.Viewer_remove_data (K h) (LData d) h = h' /\ hinv h' /\
             heap_arts h' = filter (fun l => negb (layer_data l =? d)) (heap_arts h) /\
             G.h_dc h' = G.h_dc h /\ G.h_subsets h' = G.h_subsets h.
Proof.
  intros d h Hi. rewrite K_knot2. set (f := S (S (length (G.h_artists h) + length (G.h_layers h)))).
  set (A := G.h_artists h). set (q := fun a : G.artist => negb (on_data d (G.art_layer a))).
  assert (HlA : G.h_layers h = map G.art_state A) by apply (hi_layers h Hi).
  unfold G.Viewer_remove_data. cbv zeta.
  unfold G.delay_enter. rewrite (hi_delay h Hi). cbn [Z.eqb].
  set (h0 := G.hset_delay 1 (G.h_layers h) h).
  change (G.h_layers h0) with (G.h_layers h).
  match goal with |- context [fold_left ?b (rev (G.h_layers h)) h0] => set (body := b) end.
  assert (Hb : forall h1 s, 0 < G.h_delay h1 ->
            body h1 s = if gen_match (LData d) s then G.hset_layers (G.remove_lstate s (G.h_layers h1)) h1 else h1).
  { intros h1 s Hd. subst body. cbv beta. unfold gen_match, G.state_layers_remove, G.layers_notify.
    rewrite delay_hset_layers. assert (E : 0 <? G.h_delay h1 = true) by (apply Z.ltb_lt; exact Hd). rewrite E.
    destruct (G.is_data (G.ls_layer s)); reflexivity. }
  rewrite (fold_delayed (gen_match (LData d)) body Hb (rev (G.h_layers h)) h0) by (subst h0; simpl; lia).
  change (G.h_layers h0) with (G.h_layers h).
  assert (Hnl : NoDup (map G.ls_id (G.h_layers h))) by (rewrite HlA, map_state_id; apply (hi_ids h Hi)).
  rewrite (fold_remove_all G.lstate G.ls_id G.remove_lstate (gen_match (LData d)) remove_lstate_filter (rev (G.h_layers h)) (G.h_layers h) Hnl)
    by (intros x; rewrite <- in_rev; tauto).
  assert (EF : filter (fun x => negb (gen_match (LData d) x)) (G.h_layers h) = map G.art_state (filter q A)).
  { rewrite HlA. rewrite filter_map_comm. f_equal. apply filter_ext_in'. intros a _. rewrite gen_match_eq. reflexivity. }
  rewrite EF.
  set (h2 := G.hset_layers (map G.art_state (filter q A)) h0).
  unfold G.delay_exit. change (G.h_delay h2) with 1. cbn [Z.ltb Z.compare Z.sub Z.add Z.opp Z.pos_sub].
  change (1 <? 1) with false. cbv iota.
  set (h3 := G.hset_delay 0 (G.h_old h2) h2).
  change (G.h_old h3) with (G.h_layers h). change (G.h_layers h3) with (map G.art_state (filter q A)).
  assert (Harts : forall l, map G.art_layer (filter q l) = filter (fun l0 => negb (layer_data l0 =? d)) (map G.art_layer l)).
  { intros l. rewrite filter_map_comm. reflexivity. }
  destruct (G.lstates_eqb (G.h_layers h) (map G.art_state (filter q A))) eqn:Eeq.
  - (* nothing was dropped: echo does not call back *)
    assert (EA : filter q A = A).
    { apply filter_length_all. apply lstates_eqb_length in Eeq. rewrite HlA, !map_length in Eeq. lia. }
    exists h3. split; [reflexivity |]. split.
    + apply (hinv_pruned q h h3 Hi); try reflexivity; try (subst h3 h2 h0; simpl).
      * fold A. rewrite EA. reflexivity.
      * apply (hi_ic h Hi).
      * apply (hi_ie h Hi).
      * apply (hi_err h Hi).
    + split; [| split; reflexivity]. unfold heap_arts. change (G.h_artists h3) with A. fold A. rewrite <- Harts, EA. reflexivity.
  - rewrite knot_layers. unfold G.Viewer__sync_layer_artist_container. cbv zeta.
    unfold G.LayerArtistContainer___iter__. change (G.h_artists h3) with A.
    rewrite sort_by_sorted by apply (hi_z h Hi).
    match goal with |- context [fold_left ?b A h3] => set (body2 := b) end.
    set (LS := map G.art_layer (filter q A)).
    destruct (sync_container_fold f LS q A body2 (hi_ids h Hi)) with (L := A) (h := h3) as [tr Etr].
    + intros h1 a. subst body2 LS. cbv beta. change (G.h_layers h3) with (map G.art_state (filter q A)).
      rewrite map_map. reflexivity.
    + intros a Ha. subst LS. destruct (q a) eqn:Eq.
      * apply has_In. apply in_map. apply filter_In. tauto.
      * apply has_false. intro Hin. apply in_map_iff in Hin. destruct Hin as [b [Eb Hb']]. apply filter_In in Hb'.
        assert (b = a) by (apply (layers_inj A); [apply (hi_nodup h Hi) | tauto | exact Ha | exact Eb]). subst b.
        destruct Hb' as [_ Hb']. congruence.
    + tauto.
    + tauto.
    + apply (hi_ids h Hi).
    + tauto.
    + intros s Hs. change (G.h_layers h3) with (map G.art_state (filter q A)) in Hs. apply in_map_iff in Hs.
      destruct Hs as [b [Eb Hb']]. apply filter_In in Hb'. exists b. subst s. simpl. tauto.
    + apply (hi_ic h Hi).
    + rewrite Etr. change (G.h_artists h3) with A.
      rewrite (marked_filter G.artist G.art_id (fun a => negb (q a)) A A (hi_ids h Hi)) by tauto.
      assert (Eqq : filter (fun x => negb (negb (q x))) A = filter q A) by (apply filter_ext_in'; intros x _; apply negb_involutive).
      rewrite Eqq.
      eexists. split; [reflexivity |]. split.
      * apply (hinv_pruned q h _ Hi); try reflexivity; simpl; [apply (hi_ic h Hi) | apply (hi_ie h Hi) | apply (hi_err h Hi)].
      * split; [| split; reflexivity]. unfold heap_arts; simpl. apply Harts.
Qed.

(* ------------------------------------------------------------------ DataCollectionDeleteMessage; all operations *)
Lemma send_dc_delete : forall d h, hinv h ->
  exists h', send G.C_DataCollectionDeleteMessage (LData d) h = h' /\ hinv h' /\
             heap_arts h' = filter (fun l => negb (layer_data l =? d)) (heap_arts h) /\
             G.h_dc h' = G.h_dc h /\ G.h_subsets h' = G.h_subsets h.
Proof.
  intros d h Hi. unfold send, G.deliver.
  change (find (fun e => G.mclass_eqb (fst (fst e)) (G.msg_class (G.mkMsg G.C_DataCollectionDeleteMessage (LData d) 1 false))) G.subscriptions)
    with (Some (G.C_DataCollectionDeleteMessage, G.H__remove_data, @None G.fname)).
  cbn [snd fst G.run_handler]. unfold G.Viewer__remove_data. cbn [G.msg_obj]. apply (remove_data_gen d h Hi).
Qed.

Lemma hand_remove_data : forall d st, vsync st ->
  arts (remove_data d st) = filter (fun l => negb (layer_data l =? d)) (arts st) /\ vsync (remove_data d st) /\ same_coll (remove_data d st) st.
Proof.
  intros d st Hv. destruct (remove_data_spec d st Hv) as (A & B & C). split; [exact A |]. split; [| exact C].
  eapply vsync_filter; eassumption.
Qed.

Lemma gstep_refines : forall o st p, grel st p ->
  grel (fst (step_d false o st)) (fst (gstep o p)) /\ snd (step_d false o st) = snd (gstep o p).
Proof.
  intros o st p Hr. destruct (growth_op o) eqn:Ho.
  { rewrite step_d_false. apply gstep_growth; assumption. }
  destruct p as [c h]. pose proof (grel_vsync _ _ Hr) as Hv.
  destruct Hr as (Hc & Ha & Hs & Hi & Hd & Hsub). simpl in Hc, Ha, Hi, Hd, Hsub.
  destruct Hc as (C1 & C2 & C3 & C4 & C5).
  destruct o as [d | d | g | g | d | d | s d g | | d]; try discriminate Ho; unfold gstep; cbn [fst snd step_d].
  - (* Remove *)
    rewrite C1, C2, C3, C4, C5. destruct (zmem d (dc st)) eqn:Ed; cbn [negb].
    2:{ simpl. split; [| reflexivity]. unfold grel; simpl. unfold same_coll. tauto. }
    set (sb := if fixed st then filter (fun s => negb ((s_d s =? d) && s_live s)) (subs st)
               else map (fun s => if s_d s =? d then unlive s else s) (subs st)).
    set (gone := if fixed st then filter (fun s => (s_d s =? d) && s_live s) (subs st) else []).
    set (st1 := mkV (fixed st) (zremove d (dc st)) (groups st) sb (next st) (arts st) (sls st)).
    set (c1 := mkV (fixed st) (zremove d (dc st)) (groups st) sb (next st) [] []).
    rewrite fold_deleted_d_false. change (remove_data_d false d st1) with (remove_data d st1).
    assert (Hv1 : vsync st1) by exact Hv.
    destruct (hand_remove_data d st1 Hv1) as (A1 & V1 & S1).
    destruct (send_dc_delete d (load_coll c1 h) (hinv_load c1 h Hi)) as (h1 & E1 & Hi1 & B1 & D1 & Sb1). rewrite E1.
    assert (Ha1 : heap_arts h1 = arts (remove_data d st1)) by (rewrite B1, A1; change (heap_arts (load_coll c1 h)) with (heap_arts h); rewrite Ha; reflexivity).
    destruct (fold_deleted_both gone (remove_data d st1) h1 V1 Hi1 Ha1) as (V2 & S2 & Hi2 & A2 & D2 & Sb2).
    cbn [fst snd]. split; [| reflexivity]. unfold grel; cbn [fst snd].
    assert (SC : same_coll (fold_left (fun v s => on_sub_deleted s v) gone (remove_data d st1)) st1) by (eapply same_coll_trans; eassumption).
    destruct SC as (F1 & F2 & F3 & F4 & F5). simpl in F1, F2, F3, F4, F5.
    split; [unfold same_coll; simpl; rewrite F1, F2, F3, F4, F5; tauto |].
    split; [exact A2 |]. split; [apply sls_of_vsync; exact V2 |]. split; [exact Hi2 |].
    split; [rewrite D2, D1, F2; reflexivity |]. intros d'. rewrite Sb2, Sb1, F4. reflexivity.
  - (* RemoveGroup *)
    rewrite C1, C2, C3, C4, C5. destruct (zmem g (groups st)) eqn:Eg; cbn [negb].
    2:{ simpl. split; [| reflexivity]. unfold grel; simpl. unfold same_coll. tauto. }
    set (dead := filter (fun s => (s_g s =? g) && s_live s) (subs st)).
    set (sb := filter (fun s => negb ((s_g s =? g) && s_live s)) (subs st)).
    set (st1 := mkV (fixed st) (dc st) (zremove g (groups st)) sb (next st) (arts st) (sls st)).
    set (c1 := mkV (fixed st) (dc st) (zremove g (groups st)) sb (next st) [] []).
    rewrite fold_deleted_d_false.
    assert (Hv1 : vsync st1) by exact Hv.
    destruct (fold_deleted_both dead st1 (load_coll c1 h) Hv1 (hinv_load c1 h Hi) Ha) as (V2 & S2 & Hi2 & A2 & D2 & Sb2).
    cbn [fst snd]. split; [| reflexivity]. unfold grel; cbn [fst snd].
    destruct S2 as (F1 & F2 & F3 & F4 & F5). simpl in F1, F2, F3, F4, F5.
    split; [unfold same_coll; simpl; rewrite F1, F2, F3, F4, F5; tauto |].
    split; [exact A2 |]. split; [apply sls_of_vsync; exact V2 |]. split; [exact Hi2 |].
    split; [rewrite D2, F2; reflexivity |]. intros d'. rewrite Sb2, F4. reflexivity.
  - (* RemoveData *)
    change (remove_data_d false d st) with (remove_data d st).
    destruct (hand_remove_data d st Hv) as (A1 & V1 & S1).
    destruct (remove_data_gen d h Hi) as (h1 & E1 & Hi1 & B1 & D1 & Sb1). rewrite E1.
    cbn [fst snd]. split; [| reflexivity]. unfold grel; cbn [fst snd].
    destruct S1 as (F1 & F2 & F3 & F4 & F5).
    split; [unfold same_coll; rewrite F1, F2, F3, F4, F5; tauto |].
    split; [rewrite B1, A1, Ha; reflexivity |]. split; [apply sls_of_vsync; exact V1 |]. split; [exact Hi1 |].
    split; [rewrite D1, F2; exact Hd |]. intros d'. rewrite Sb1, F4. apply Hsub.
  - (* RemoveLayer *)
    change (remove_subset_d false (LData d) st) with (remove_subset (LData d) st).
    destruct (hand_remove_subset (LData d) st Hv) as (A1 & V1 & S1).
    destruct (remove_layer_spec (LData d) h Hi) as (h1 & E1 & Hi1 & B1 & D1 & Sb1). rewrite E1.
    cbn [fst snd]. split; [| reflexivity]. unfold grel; cbn [fst snd].
    destruct S1 as (F1 & F2 & F3 & F4 & F5).
    split; [unfold same_coll; rewrite F1, F2, F3, F4, F5; tauto |].
    split; [rewrite B1, A1, Ha; reflexivity |]. split; [apply sls_of_vsync; exact V1 |]. split; [exact Hi1 |].
    split; [rewrite D1, F2; exact Hd |]. intros d'. rewrite Sb1, F4. apply Hsub.
Qed.
