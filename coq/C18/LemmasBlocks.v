(* C18 part 1b — delay blocks: outside blocks the block-aware handlers are the handlers of part 1, so the invariant of
   part 1 holds for the executable run_d on every history without blocks; two block shapes refute it inside blocks *)
From Coq Require Import ZArith List Bool Lia.
Import ListNotations.
From GV Require Import Common.Wire C18.Model C18.LemmasPicker C18.LemmasViewer C18.LemmasViewer2.
Open Scope Z_scope.

Lemma fold_created_d_false : forall L st,
  fold_left (fun v s => on_sub_created_d false s v) L st = fold_left (fun v s => on_sub_created s v) L st.
Proof. induction L as [| s t IH]; intros st; simpl; [reflexivity |]. rewrite IH. reflexivity. Qed.

Lemma fold_deleted_d_false : forall L st,
  fold_left (fun v s => on_sub_deleted_d false s v) L st = fold_left (fun v s => on_sub_deleted s v) L st.
Proof. induction L as [| s t IH]; intros st; simpl; [reflexivity |]. rewrite IH. reflexivity. Qed.

Lemma fold_add_d_false : forall L st,
  fold_left (fun v s => add_subset_layer_d false (lay s) v) L st = fold_left (fun v s => add_subset_layer (lay s) v) L st.
Proof. induction L as [| s t IH]; intros st; simpl; [reflexivity |]. rewrite IH. reflexivity. Qed.

(* after remove_data d no artist of dataset d is left, whatever the state was *)
Lemma remove_data_no_layer_of : forall d st a, In a (arts (remove_data d st)) -> layer_data a <> d.
Proof.
  intros d st a H. unfold remove_data, sync_state_layers, sync_container, set_v in H; simpl in H.
  apply filter_In in H. destruct H as [_ H]. apply has_In in H. apply filter_In in H. destruct H as [_ H].
  apply negb_true_iff in H. apply Z.eqb_neq in H. exact H.
Qed.

(* ... so the SubsetDeleteMessages that follow the removal of the dataset (C06 repair) find nothing to do *)
Lemma fold_deleted_noop : forall d L st,
  (forall a, In a (arts st) -> layer_data a <> d) -> (forall s, In s L -> s_d s = d) ->
  fold_left (fun v s => on_sub_deleted s v) L st = st.
Proof.
  intros d L. induction L as [| s t IH]; intros st Ha Hl; simpl; [reflexivity |].
  assert (E : on_sub_deleted s st = st).
  { unfold on_sub_deleted, remove_subset. destruct (has (lay s) (arts st)) eqn:E; [| reflexivity].
    apply has_In in E. apply Ha in E. simpl in E. exfalso. apply E. apply Hl. left. reflexivity. }
  rewrite E. apply IH; [exact Ha |]. intros x Hx. apply Hl. right. exact Hx.
Qed.

Lemma step_d_false : forall o st, step_d false o st = step o st.
Proof.
  intros o st. destruct o as [d | d | g | g | d | d | s d g | | d]; simpl.
  - destruct (zmem d (dc st)); [reflexivity |]. rewrite fold_created_d_false. reflexivity.
  - destruct (negb (zmem d (dc st))); [reflexivity |]. f_equal.
    rewrite fold_deleted_d_false.
    change (remove_data_d false d ?x) with (remove_data d x).
    destruct (fixed st); [| reflexivity].
    apply (fold_deleted_noop d).
    + intros a Ha. eapply remove_data_no_layer_of. exact Ha.
    + intros s Hs. apply filter_In in Hs. destruct Hs as [_ Hs]. apply andb_true_iff in Hs. destruct Hs as [Hs _].
      apply Z.eqb_eq in Hs. exact Hs.
  - destruct (zmem g (groups st)); [reflexivity |]. rewrite fold_created_d_false. reflexivity.
  - destruct (negb (zmem g (groups st))); [reflexivity |]. rewrite fold_deleted_d_false. reflexivity.
  - unfold add_data_d, add_data. destruct (has (LData d) (arts st)); [reflexivity |].
    destruct (negb (zmem d (dc st))); [reflexivity |]. rewrite fold_add_d_false. reflexivity.
  - reflexivity.
  - reflexivity.
  - reflexivity.
  - reflexivity.
Qed.

Lemma run_d_no_blocks : forall fx ops st given,
  no_blocks ops = true -> full_inv fx st given ->
  let r := run_d ops (st, None) given in
  full_inv fx (fst (fst r)) (snd r) /\ snd (fst r) = None.
Proof.
  intros fx ops. induction ops as [| x t IH]; intros st given Hnb Hinv; simpl in *.
  - split; [exact Hinv | reflexivity].
  - destruct x as [o | |]; simpl in Hnb; try discriminate.
    simpl. rewrite step_d_false.
    apply IH; [exact Hnb |].
    destruct Hinv as [Hf [Hc Hv]]. pose proof Hv as [Hvs _].
    split; [rewrite step_fixed; assumption |]. split; [apply step_cinv; assumption | apply step_vinv; assumption].
Qed.

(* full statement (partial in one respect, see below).  For the executable, block-aware run_d that run_case runs, and every
   history WITHOUT delay blocks on state.layers: the conclusion of part 1. *)
Theorem viewer_inv_reachable : forall (fx : bool) (ops : list dop),
  no_blocks ops = true ->
  let r := run_d ops (init_v fx, None) [] in
  let st := fst (fst r) in
  let given := snd r in
  sls st = arts st /\ NoDup (arts st) /\ NoDup given /\
  (forall d, In d given -> In d (dc st)) /\
  (forall d, In (LData d) (arts st) <-> In d given) /\
  (forall s d g, In (LSub s d g) (arts st) -> In d (dc st) /\ exists lv, In (mkSub s d g lv) (subs st)) /\
  (forall s d g lv, In d given -> In (mkSub s d g lv) (subs st) -> In (LSub s d g) (arts st)) /\
  (fx = true -> forall s d g, In (LSub s d g) (arts st) -> In g (groups st)).
Proof.
  intros fx ops Hnb r st given.
  destruct (run_d_no_blocks fx ops _ _ Hnb (init_inv fx)) as [[Hf [Hc Hv]] _]. fold r in Hf, Hc, Hv. fold st in Hf, Hc, Hv. fold given in Hv.
  destruct Hv as ([Hs Hn] & Hng & Hinc & Hd & Hsub & Hcmp).
  split; [exact Hs |]. split; [exact Hn |]. split; [exact Hng |]. split; [exact Hinc |].
  split; [exact Hd |]. split; [exact Hsub |].
  split; [intros s d g lv H1 H2; apply (Hcmp (mkSub s d g lv)); assumption |].
  intros Hfx s d g Hin. destruct (Hsub s d g Hin) as [_ [lv Hx]].
  destruct Hc as (_ & _ & _ & _ & Hfix). rewrite Hf in Hfix. specialize (Hfix Hfx).
  rewrite Forall_forall in Hfix. destruct (Hfix _ Hx) as [_ [_ B]]. exact B.
Qed.

(* The guard no_blocks cannot simply be dropped: the faithful model of the unchanged code leaves the invariant inside a
   user-opened delay_callback(viewer.state, 'layers') block in two shapes (both reproduced on the implementation):
   (1) remove_data d then add_data d in one block: add_data sees the artist that is still waiting to be pruned and does
       nothing, the block exit prunes it - the dataset was given last, yet has no layer;
   (2) add_data d then remove_data d in one block: state.layers is back to its value at block entry, so echo does not fire
       the callback and the artist is never pruned - artists and state.layers disagree. *)
Theorem viewer_blocks_refuted :
  (exists ops, let r := run_d ops (init_v true, None) [] in
     snd (fst r) = None /\ ~ (forall d, In (LData d) (arts (fst (fst r))) <-> In d (snd r))) /\
  (exists ops, let r := run_d ops (init_v true, None) [] in
     snd (fst r) = None /\ sls (fst (fst r)) <> arts (fst (fst r))).
Proof.
  split.
  - exists [Plain (Append 0); Plain (AddData 0); LBegin; Plain (RemoveData 0); Plain (AddData 0); LEnd].
    vm_compute. split; [reflexivity |]. intros H. destruct (H 0) as [_ H2]. destruct (H2 (or_introl eq_refl)).
  - exists [Plain (Append 0); LBegin; Plain (AddData 0); Plain (RemoveData 0); LEnd].
    vm_compute. split; [reflexivity | discriminate].
Qed.
