(* C18 parts 2-3 — attribute pickers and dataset pickers *)
From Coq Require Import ZArith List Bool Lia.
Import ListNotations.
From GV Require Import Common.Wire C18.Model.
Open Scope Z_scope.

(* ------------------------------------------------------------------ generic *)
Lemma zmem_In : forall x l, zmem x l = true <-> In x l.
Proof.
  intros x l. unfold zmem. rewrite existsb_exists. split.
  - intros [y [Hy E]]. apply Z.eqb_eq in E. subst. exact Hy.
  - intros H. exists x. split; [exact H | apply Z.eqb_refl].
Qed.

Lemma zmem_false : forall x l, zmem x l = false <-> ~ In x l.
Proof.
  intros x l. rewrite <- zmem_In. destruct (zmem x l); split; intro H; congruence.
Qed.

(* ------------------------------------------------------------------ the selection rule *)
Lemma atts_of_app : forall a b, atts_of (a ++ b) = atts_of a ++ atts_of b.
Proof.
  induction a as [| c t IH]; intros b; simpl; [reflexivity |].
  destruct c; simpl; rewrite IH; reflexivity.
Qed.

Lemma In_atts_none : forall ch, In None (atts_of ch) <-> In CNone ch.
Proof.
  induction ch as [| c t IH]; simpl; [tauto |].
  destruct c; simpl; rewrite IH; intuition congruence.
Qed.

Lemma In_atts_some : forall ch c, In (Some c) (atts_of ch) <-> In (CAtt c) ch.
Proof.
  induction ch as [| x t IH]; intros c; simpl; [tauto |].
  destruct x; simpl; rewrite IH; intuition congruence.
Qed.

Lemma In_atts_sel_ok : forall ch sel, In sel (atts_of ch) -> sel_ok ch sel.
Proof.
  intros ch [c |] H; simpl.
  - apply In_atts_some. exact H.
  - left. apply In_atts_none. exact H.
Qed.

Lemma sel_in_In : forall sel ch, sel_in sel ch = true -> In sel (atts_of ch).
Proof.
  intros sel ch H. unfold sel_in in H. apply existsb_exists in H. destruct H as [c [Hc Hm]].
  destruct c as [| k d | x]; destruct sel as [y |]; simpl in Hm; try discriminate.
  - apply In_atts_none. exact Hc.
  - apply Z.eqb_eq in Hm. subst. apply In_atts_some. exact Hc.
Qed.

Lemma py_nth_In : forall (A : Type) (l : list A) i a, py_nth l i = Some a -> In a l.
Proof.
  intros A l i a H. unfold py_nth in H.
  destruct ((_ <? 0) || (_ >=? _)); [discriminate |].
  eapply nth_error_In. exact H.
Qed.

Lemma last_In : forall (A : Type) (l : list A) d, l <> [] -> In (last l d) l.
Proof.
  induction l as [| x t IH]; intros d H; [congruence |].
  destruct t as [| y t']; [left; reflexivity |].
  right. apply IH. discriminate.
Qed.

(* whatever the choices and the old selection, the new selection is legal *)
Lemma choices_updated_ok : forall defidx ch sel, sel_ok ch (choices_updated defidx ch sel).
Proof.
  intros defidx ch sel. unfold choices_updated.
  destruct ch as [| c0 ct]; [simpl; right; reflexivity |].
  destruct (sel_in sel (c0 :: ct)) eqn:Hin.
  - apply In_atts_sel_ok. apply sel_in_In. exact Hin.
  - destruct (atts_of (c0 :: ct)) as [| a0 rest] eqn:Hat.
    + simpl. right. exact Hat.
    + apply In_atts_sel_ok. rewrite Hat.
      destruct (py_nth (a0 :: rest) defidx) as [a |] eqn:Hn.
      * eapply py_nth_In. exact Hn.
      * destruct (defidx >? 0).
        -- apply last_In. discriminate.
        -- left. reflexivity.
Qed.

(* a selection that is still offered is kept *)
Lemma choices_updated_keeps : forall defidx ch sel, sel_in sel ch = true -> choices_updated defidx ch sel = sel.
Proof.
  intros defidx ch sel H. unfold choices_updated. destruct ch as [| c t]; [discriminate |]. rewrite H. reflexivity.
Qed.

(* ------------------------------------------------------------------ refresh offers exactly the filtered attributes *)
Lemma attrs_of_app : forall a b, attrs_of (a ++ b) = attrs_of a ++ attrs_of b.
Proof.
  induction a as [| c t IH]; intros b; simpl; [reflexivity |].
  destruct c; simpl; rewrite IH; reflexivity.
Qed.

Lemma attrs_of_map_CAtt : forall l, attrs_of (map CAtt l) = l.
Proof. induction l as [| x t IH]; simpl; [reflexivity | rewrite IH; reflexivity]. Qed.

Lemma isnil_true : forall (A : Type) (l : list A), isnil l = true -> l = [].
Proof. intros A [| x t] H; [reflexivity | discriminate]. Qed.

Lemma data_choices_attrs : forall fl multi di, attrs_of (data_choices fl multi di) = data_atts fl di.
Proof.
  intros fl multi di. unfold data_choices, data_atts.
  repeat rewrite attrs_of_app.
  assert (H1 : attrs_of (if multi then [CSep 1 (di_id di)] else []) = []) by (destruct multi; reflexivity).
  rewrite H1. simpl app.
  f_equal; [| f_equal].
  - destruct (isnil (mains fl di)) eqn:E.
    + apply isnil_true in E. rewrite E. reflexivity.
    + rewrite attrs_of_app, attrs_of_map_CAtt.
      destruct (f_pix fl || f_wor fl || (f_der fl && negb (isnil (map fst (di_der di))))); reflexivity.
  - destruct (f_num fl && f_der fl); [| reflexivity].
    destruct (isnil (map fst (di_der di))) eqn:E.
    + apply isnil_true in E. rewrite E. reflexivity.
    + simpl. apply attrs_of_map_CAtt.
  - destruct (f_pix fl || f_wor fl) eqn:E.
    + destruct (isnil (coords fl di)) eqn:E2.
      * apply isnil_true in E2. rewrite E2. reflexivity.
      * simpl. apply attrs_of_map_CAtt.
    + apply orb_false_iff in E. destruct E as [Ep Ew]. unfold coords. rewrite Ep, Ew. reflexivity.
Qed.

Lemma attrs_of_flat_map : forall (f : Z -> list choice) (g : Z -> list Z) l,
  (forall x, attrs_of (f x) = g x) -> attrs_of (flat_map f l) = flat_map g l.
Proof.
  intros f g l H. induction l as [| x t IH]; simpl; [reflexivity |].
  rewrite attrs_of_app, H, IH. reflexivity.
Qed.

Lemma all_choices_attrs : forall fl ds datas, attrs_of (all_choices fl ds datas) = spec_cids fl ds datas.
Proof.
  intros fl ds datas. unfold all_choices, spec_cids. rewrite attrs_of_app.
  assert (H0 : attrs_of (if f_none fl then [CNone] else []) = []) by (destruct (f_none fl); reflexivity).
  rewrite H0. simpl.
  apply attrs_of_flat_map. intros d. destruct (find_d d ds) as [di |]; [apply data_choices_attrs | reflexivity].
Qed.

(* ------------------------------------------------------------------ the invariant of the attribute picker *)
Definition chok (st : pstate) : Prop := attrs_of (p_ch st) = spec_cids (p_fl st) (p_ds st) (p_datas st).
(* either the choices are right, or a change of one of the picker's datasets is still queued *)
Definition pinv (st : pstate) : Prop :=
  sel_ok (p_ch st) (p_sel st) /\
  (p_delay st = false -> p_pending st = []) /\
  (chok st \/ exists d, In d (p_datas st) /\ In (MChanged d) (p_pending st)).

Lemma refresh_chok : forall st, chok (refresh st).
Proof. intros st. unfold chok, refresh; simpl. apply all_choices_attrs. Qed.

Lemma refresh_sel_ok : forall st, sel_ok (p_ch (refresh st)) (p_sel (refresh st)).
Proof. intros st. unfold refresh; simpl. apply choices_updated_ok. Qed.

Lemma refresh_pinv : forall st, (p_delay st = false -> p_pending st = []) -> pinv (refresh st).
Proof.
  intros st H. unfold pinv. split; [apply refresh_sel_ok |]. split; [exact H |]. left. apply refresh_chok.
Qed.

(* datasets other than d are untouched by an update of d *)
Lemma find_d_upd_other : forall d d' f ds, d' <> d -> (forall di, di_id (f di) = di_id di) ->
  find_d d' (upd_d d f ds) = find_d d' ds.
Proof.
  intros d d' f ds Hne Hid. induction ds as [| di t IH]; simpl; [reflexivity |].
  destruct (di_id di =? d) eqn:E.
  - rewrite Hid. apply Z.eqb_eq in E. destruct (di_id di =? d') eqn:E2; [apply Z.eqb_eq in E2; congruence | exact IH].
  - destruct (di_id di =? d'); [reflexivity | exact IH].
Qed.

Lemma spec_cids_upd_other : forall fl d f ds datas, ~ In d datas -> (forall di, di_id (f di) = di_id di) ->
  spec_cids fl (upd_d d f ds) datas = spec_cids fl ds datas.
Proof.
  intros fl d f ds datas Hn Hid. unfold spec_cids.
  induction datas as [| x t IH]; simpl; [reflexivity |].
  rewrite find_d_upd_other; [| intro E; apply Hn; left; congruence | exact Hid].
  rewrite IH; [reflexivity |]. intro H. apply Hn. right. exact H.
Qed.

Lemma handle_keeps_queue : forall m st, p_delay (handle m st) = p_delay st /\ p_pending (handle m st) = p_pending st.
Proof.
  intros [d | d] st; simpl.
  - destruct (zmem d (p_datas st)); simpl; auto.
  - destruct (p_hasdc st && zmem d (p_datas st)); simpl; auto.
Qed.

Lemma handle_sel_ok : forall m st, sel_ok (p_ch st) (p_sel st) -> sel_ok (p_ch (handle m st)) (p_sel (handle m st)).
Proof.
  intros [d | d] st H; simpl.
  - destruct (zmem d (p_datas st)); [apply refresh_sel_ok | exact H].
  - destruct (p_hasdc st && zmem d (p_datas st)); [apply refresh_sel_ok | exact H].
Qed.

(* delivering the queued messages in order ends with the right choices *)
Lemma flush_chok : forall pend st,
  (chok st \/ exists d, In d (p_datas st) /\ In (MChanged d) pend) ->
  chok (fold_left (fun s m => handle m s) pend st).
Proof.
  induction pend as [| m t IH]; intros st H; simpl.
  - destruct H as [H | [d [_ []]]]. exact H.
  - apply IH. destruct m as [d | d]; simpl.
    + destruct (zmem d (p_datas st)) eqn:E.
      * left. apply refresh_chok.
      * destruct H as [H | [d0 [Hd0 Hin]]]; [left; exact H |].
        right. exists d0. split; [exact Hd0 |].
        destruct Hin as [Heq | Hin]; [| exact Hin].
        inversion Heq. subst d0. apply zmem_false in E. contradiction.
    + destruct (p_hasdc st && zmem d (p_datas st)) eqn:E.
      * left. apply refresh_chok.
      * destruct H as [H | [d0 [Hd0 Hin]]]; [left; exact H |].
        right. exists d0. split; [exact Hd0 |].
        destruct Hin as [Heq | Hin]; [discriminate | exact Hin].
Qed.

Lemma flush_sel_ok : forall pend st, sel_ok (p_ch st) (p_sel st) ->
  sel_ok (p_ch (fold_left (fun s m => handle m s) pend st)) (p_sel (fold_left (fun s m => handle m s) pend st)).
Proof.
  induction pend as [| m t IH]; intros st H; simpl; [exact H |]. apply IH. apply handle_sel_ok. exact H.
Qed.

Lemma flush_queue : forall pend st,
  p_delay (fold_left (fun s m => handle m s) pend st) = p_delay st /\
  p_pending (fold_left (fun s m => handle m s) pend st) = p_pending st.
Proof.
  induction pend as [| m t IH]; intros st; simpl; [auto |].
  destruct (IH (handle m st)) as [A B]. destruct (handle_keeps_queue m st) as [C D].
  rewrite A, B, C, D. auto.
Qed.

(* a data-side change of dataset d followed by the (possibly queued) ComponentsChangedMessage *)
Lemma post_changed_pinv : forall st d f,
  pinv st -> (forall di, di_id (f di) = di_id di) ->
  pinv (post (MChanged d) (with_ds st (upd_d d f (p_ds st)))).
Proof.
  intros st d f [Hs [Hq Hc]] Hid. unfold post. simpl p_delay.
  destruct (p_delay st) eqn:Ed.
  - unfold pinv; simpl. split; [exact Hs |]. split; [discriminate |].
    destruct (zmem d (p_datas st)) eqn:E.
    + right. exists d. split; [apply zmem_In; exact E | apply in_or_app; right; left; reflexivity].
    + apply zmem_false in E. destruct Hc as [Hc | [d0 [A B]]].
      * left. unfold chok in *; simpl. rewrite spec_cids_upd_other; assumption.
      * right. exists d0. split; [exact A | apply in_or_app; left; exact B].
  - simpl handle. simpl p_datas.
    destruct (zmem d (p_datas st)) eqn:E.
    + apply refresh_pinv. simpl. intros _. apply Hq. reflexivity.
    + apply zmem_false in E. unfold pinv; simpl. split; [exact Hs |]. split; [intros _; apply Hq; reflexivity |].
      left. rewrite (Hq eq_refl) in Hc. destruct Hc as [Hc | [d0 [_ []]]].
      unfold chok in *; simpl. rewrite spec_cids_upd_other; assumption.
Qed.

Lemma fold_post_pinv : forall d rest st, pinv st ->
  pinv (fold_left (fun s a' => post (MChanged d) (with_ds s (upd_d d (rm_comp a') (p_ds s)))) rest st).
Proof.
  intros d rest. induction rest as [| a t IH]; intros st H; simpl; [exact H |].
  apply IH. apply post_changed_pinv; [exact H | reflexivity].
Qed.

Lemma pstep_pinv : forall o st, pinv st -> pinv (fst (pstep o st)).
Proof.
  intros o st Hinv. pose proof Hinv as [Hs [Hq Hc]].
  destruct o; simpl.
  - (* PAppend *) destruct (zmem d (p_datas st)); simpl; [exact Hinv | apply refresh_pinv; exact Hq].
  - (* PRemove *) destruct (zmem d (p_datas st)); simpl; [apply refresh_pinv; exact Hq | exact Hinv].
  - apply refresh_pinv; exact Hq.
  - apply refresh_pinv; exact Hq.
  - apply refresh_pinv; exact Hq.
  - (* PSelect *) destruct (sel_in (Some c) (p_ch st)) eqn:E; simpl; [| exact Hinv].
    unfold pinv; simpl. split; [| split; [exact Hq | exact Hc]].
    apply In_atts_some. apply sel_in_In. exact E.
  - apply post_changed_pinv; [exact Hinv | reflexivity].
  - apply post_changed_pinv; [exact Hinv | reflexivity].
  - (* DRemoveComp: a cascade of (update; message) steps *)
    destruct (dependents d c (p_ds st)) as [| a rest]; simpl.
    + apply post_changed_pinv; [exact Hinv | reflexivity].
    + apply post_changed_pinv; [| reflexivity].
      apply fold_post_pinv.
      apply post_changed_pinv; [exact Hinv | reflexivity].
  - apply post_changed_pinv; [exact Hinv | reflexivity].
  - exact Hinv.
  - (* DcRemove *)
    destruct (zmem d (p_dc st)); simpl; [| exact Hinv].
    unfold post; simpl p_delay. destruct (p_delay st) eqn:Ed.
    + unfold pinv; simpl. split; [exact Hs |]. split; [discriminate |].
      destruct Hc as [Hc | [d0 [A B]]]; [left; exact Hc | right; exists d0; split; [exact A | apply in_or_app; left; exact B]].
    + simpl handle. simpl p_hasdc. simpl p_datas.
      destruct (p_hasdc st && zmem d (p_datas st)).
      * apply refresh_pinv. simpl. intros _. apply Hq. reflexivity.
      * unfold pinv; simpl. split; [exact Hs |]. split; [intros _; apply Hq; reflexivity | exact Hc].
  - (* DelayBegin *) unfold pinv; simpl. split; [exact Hs |]. split; [discriminate | exact Hc].
  - (* DelayEnd *)
    set (st0 := with_queue st false []).
    unfold pinv. destruct (flush_queue (p_pending st) st0) as [A B].
    split; [apply flush_sel_ok; exact Hs |].
    split; [intros _; rewrite B; reflexivity |].
    left. apply flush_chok. exact Hc.
Qed.

Lemma run_p_pinv : forall ops st, pinv st -> pinv (run_p ops st).
Proof.
  induction ops as [| o t IH]; intros st H; simpl; [exact H |]. apply IH. apply pstep_pinv. exact H.
Qed.

Lemma init_p_pinv : forall ds fl defidx hasdc, pinv (init_p ds fl defidx hasdc).
Proof.
  intros. unfold pinv, init_p; simpl. split; [right; reflexivity |]. split; [reflexivity |]. left. reflexivity.
Qed.

(* full statement: after any history of picker operations, dataset mutations, collection removals and hub delay
   blocks, the selection is one of the offered values (None only when None is offered or nothing is), and - whenever no
   hub message is held back by an open delay block - the offered attributes are exactly the attributes of the picker's
   datasets that pass the kind filters, in order *)
Theorem picker_inv_reachable : forall ds fl defidx hasdc ops,
  let st := run_p ops (init_p ds fl defidx hasdc) in
  sel_ok (p_ch st) (p_sel st) /\
  (p_pending st = [] -> attrs_of (p_ch st) = spec_cids (p_fl st) (p_ds st) (p_datas st)).
Proof.
  intros ds fl defidx hasdc ops st.
  destruct (run_p_pinv ops _ (init_p_pinv ds fl defidx hasdc)) as [Hs [_ Hc]].
  fold st in Hs, Hc. split; [exact Hs |].
  intros Hp. destruct Hc as [Hc | [d [_ Hin]]]; [exact Hc |]. rewrite Hp in Hin. destruct Hin.
Qed.

(* outside delay blocks nothing is ever held back *)
Lemma picker_queue_empty : forall ds fl defidx hasdc ops,
  let st := run_p ops (init_p ds fl defidx hasdc) in p_delay st = false -> p_pending st = [].
Proof.
  intros ds fl defidx hasdc ops st.
  destruct (run_p_pinv ops _ (init_p_pinv ds fl defidx hasdc)) as [_ [Hq _]]. exact Hq.
Qed.

(* ------------------------------------------------------------------ dataset pickers *)
Definition dpinv (st : dpstate) : Prop :=
  dp_ch st = map CAtt (dp_source st) /\ sel_ok (dp_ch st) (dp_sel st).

Lemma dp_refresh_inv : forall st, dpinv (dp_refresh st).
Proof.
  intros st. unfold dpinv, dp_refresh, dp_source; simpl. split; [reflexivity | apply choices_updated_ok].
Qed.

Lemma dpstep_inv : forall o st, dpinv st -> dpinv (fst (dpstep o st)).
Proof.
  intros o st Hinv. pose proof Hinv as [Hc Hs].
  destruct o; simpl.
  - destruct (negb (dp_manual st) || zmem d (dp_list st)); simpl; [exact Hinv | apply dp_refresh_inv].
  - destruct (dp_manual st && zmem d (dp_list st)); simpl; [apply dp_refresh_inv | exact Hinv].
  - destruct (dp_manual st); simpl; [apply dp_refresh_inv | exact Hinv].
  - destruct (sel_in (Some d) (dp_ch st)) eqn:E; simpl; [| exact Hinv].
    unfold dpinv; simpl. split; [exact Hc |]. apply In_atts_some. apply sel_in_In. exact E.
  - destruct (zmem d (dp_dc st)); simpl; [exact Hinv |].
    destruct (dp_manual st) eqn:Em; simpl; [| apply dp_refresh_inv].
    unfold dpinv, dp_source in *; simpl. rewrite Em in *. split; assumption.
  - destruct (negb (zmem d (dp_dc st))); simpl; [exact Hinv |].
    destruct (dp_manual st) eqn:Em; simpl; [| apply dp_refresh_inv].
    destruct (zmem d (dp_list st)); simpl; [apply dp_refresh_inv |].
    unfold dpinv, dp_source in *; simpl. rewrite Em in *. split; assumption.
Qed.

Lemma init_dp_inv : forall manual dcl, dpinv (init_dp manual dcl).
Proof.
  intros [|] dcl; unfold init_dp.
  - unfold dpinv, dp_source; simpl. split; [reflexivity | right; reflexivity].
  - apply dp_refresh_inv.
Qed.

Theorem dpicker_inv_reachable : forall manual dcl ops,
  let st := run_dp ops (init_dp manual dcl) in
  dp_ch st = map CAtt (if dp_manual st then dp_list st else dp_dc st) /\ sel_ok (dp_ch st) (dp_sel st).
Proof.
  intros manual dcl ops. simpl.
  assert (H : forall ops st, dpinv st -> dpinv (run_dp ops st)).
  { induction ops0 as [| o t IH]; intros st H; simpl; [exact H | apply IH; apply dpstep_inv; exact H]. }
  exact (H ops _ (init_dp_inv manual dcl)).
Qed.
