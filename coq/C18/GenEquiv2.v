(* C18 — translated viewer, part 2: add_data, delivery of SubsetCreateMessage through the subscription table of
   register_to_hub, and the step-by-step agreement of the translated machine (Model.v part 5) with the hand model on the
   operations that go through these functions (append a dataset, new subset group, add_data, add_subset, save/restore). *)
From Coq Require Import ZArith List Bool Lia.
Import ListNotations.
From GV Require Import Common.Wire C18.Model C18.LemmasViewer C18.LemmasViewer2 C18.LemmasBlocks C18.GenEquiv1.
From GV Require gen.Gen_viewer.
Open Scope Z_scope.

Lemma fold_left_map : forall (A B C : Type) (f : A -> C -> A) (g : B -> C) L a,
  fold_left f (map g L) a = fold_left (fun a x => f a (g x)) L a.
Proof. intros A B C f g L. induction L as [| x t IH]; intros a; simpl; [reflexivity | apply IH]. Qed.

(* ------------------------------------------------------------------ add_data *)
Lemma fold_add_subsets_gen : forall f L h, hinv h ->
  exists h', fold_left (fun h subset => G.heap_of (G.Viewer_add_subset (G.knot (S f)) subset h)) L h = h' /\ hinv h' /\
             heap_arts h' = fold_left (fun l x => add_if_new x l) L (heap_arts h) /\
             G.h_dc h' = G.h_dc h /\ G.h_subsets h' = G.h_subsets h.
Proof.
  intros f L. induction L as [| x t IH]; intros h Hi; cbn [fold_left].
  - exists h. tauto.
  - destruct (add_subset_spec f x h Hi) as (h1 & E1 & Hi1 & A1 & D1 & S1). rewrite E1.
    destruct (IH h1 Hi1) as (h2 & E2 & Hi2 & A2 & D2 & S2). exists h2.
    split; [exact E2 |]. split; [exact Hi2 |]. rewrite A2, A1, D2, D1, S2, S1. tauto.
Qed.

Lemma add_data_dup : forall cb d h, has (LData d) (heap_arts h) = true ->
  G.Viewer_add_data cb (LData d) h = G.Done true h.
Proof.
  intros cb d h H. unfold G.Viewer_add_data. cbn [G.Viewer_allow_duplicate_data negb andb].
  rewrite contains_has, H. reflexivity.
Qed.

Lemma add_data_not_in_dc : forall cb d h, has (LData d) (heap_arts h) = false -> zmem d (G.h_dc h) = false ->
  G.Viewer_add_data cb (LData d) h = G.Raised G.E_IncompatibleData h.
Proof.
  intros cb d h H Hd. unfold G.Viewer_add_data. cbn [G.Viewer_allow_duplicate_data negb andb].
  rewrite contains_has, H. cbn [G.Viewer_large_data_size G.is_some andb].
  change (G.dc_contains (LData d) h) with (zmem d (G.h_dc h)). rewrite Hd. reflexivity.
Qed.

Lemma add_data_new : forall f d h, hinv h -> has (LData d) (heap_arts h) = false -> zmem d (G.h_dc h) = true ->
  exists h', G.Viewer_add_data (G.knot (S f)) (LData d) h = G.Done true h' /\ hinv h' /\
             heap_arts h' = fold_left (fun l x => add_if_new x l) (G.h_subsets h d) (heap_arts h ++ [LData d]) /\
             G.h_dc h' = G.h_dc h /\ G.h_subsets h' = G.h_subsets h.
Proof.
  intros f d h Hi H Hd. unfold G.Viewer_add_data. cbn [G.Viewer_allow_duplicate_data negb andb].
  rewrite contains_has, H. cbn [G.Viewer_large_data_size G.is_some andb].
  change (G.dc_contains (LData d) h) with (zmem d (G.h_dc h)). rewrite Hd. cbn [negb G.registry_lookup].
  apply has_false in H.
  destruct (make_layer f (LData d) h Hi H) as (a & h1 & tr & E1 & E2 & E3). rewrite E1.
  cbv beta iota zeta. rewrite E3.
  set (h2 := G.Viewer_draw_legend (G.knot (S f)) (G.ev (G.EUpdate (G.art_layer a)) (set_trace tr (added (LData d) h)))).
  assert (Hi2 : hinv h2).
  { subst h2. pose proof (hinv_added (LData d) h Hi H) as [X1 X2 X3 X4 X5 X6 X7 X8 X9]. constructor; assumption. }
  change (G.subsets_of (LData d) h2) with (G.h_subsets h d).
  destruct (fold_add_subsets_gen f (G.h_subsets h d) h2 Hi2) as (h3 & E & Hi3 & A3 & D3 & S3).
  exists h3. split; [f_equal; exact E |]. split; [exact Hi3 |]. split; [| split; [exact D3 | exact S3]].
  rewrite A3. change (heap_arts h2) with (heap_arts (added (LData d) h)). rewrite added_arts. reflexivity.
Qed.

Definition f0 (h : G.heap) : nat := S (S (S (length (G.h_artists h) + length (G.h_layers h)))).
Lemma K_knot : forall h, K h = G.knot (S (f0 h)).
Proof. reflexivity. Qed.

(* ------------------------------------------------------------------ SubsetCreateMessage through register_to_hub's table *)
Lemma send_create : forall s h, hinv h ->
  exists h', send G.C_SubsetCreateMessage (lay s) h = h' /\ hinv h' /\
             heap_arts h' = (if has (LData (s_d s)) (heap_arts h) then add_if_new (lay s) (heap_arts h) else heap_arts h) /\
             G.h_dc h' = G.h_dc h /\ G.h_subsets h' = G.h_subsets h.
Proof.
  intros s h Hi. unfold send, G.deliver.
  change (find (fun e => G.mclass_eqb (fst (fst e)) (G.msg_class (G.mkMsg G.C_SubsetCreateMessage (lay s) 1 false))) G.subscriptions)
    with (Some (G.C_SubsetCreateMessage, G.H__add_subset, Some G.F__subset_has_data)).
  cbn [snd fst G.run_filter G.run_handler].
  change (G.Viewer__subset_has_data (G.mkMsg G.C_SubsetCreateMessage (lay s) 1 false) h) with (has (LData (s_d s)) (heap_arts h)).
  destruct (has (LData (s_d s)) (heap_arts h)) eqn:E.
  - unfold G.Viewer__add_subset. cbn [G.msg_obj]. rewrite K_knot. apply add_subset_spec. exact Hi.
  - exists h. tauto.
Qed.

(* ------------------------------------------------------------------ the hand model on a state in step, as list functions *)
Lemma hand_add_subset : forall l st, vsync st ->
  arts (add_subset_layer l st) = add_if_new l (arts st) /\ vsync (add_subset_layer l st) /\ same_coll (add_subset_layer l st) st.
Proof.
  intros l st Hv. destruct (add_subset_layer_spec l st Hv) as [A [B _]]. split; [| tauto].
  unfold add_subset_layer, add_if_new. destruct (has l (arts st)) eqn:E; [reflexivity |].
  apply has_false in E. apply (add_layer_spec l st Hv E).
Qed.

Lemma hand_created : forall s st, vsync st ->
  arts (on_sub_created s st) = (if has (LData (s_d s)) (arts st) then add_if_new (lay s) (arts st) else arts st) /\
  vsync (on_sub_created s st) /\ same_coll (on_sub_created s st) st.
Proof.
  intros s st Hv. unfold on_sub_created. destruct (has (LData (s_d s)) (arts st)).
  - apply hand_add_subset. exact Hv.
  - split; [reflexivity |]. split; [exact Hv | apply same_coll_refl].
Qed.

(* ------------------------------------------------------------------ the relation between the two machines *)
Definition grel (st : vstate) (p : vstate * G.heap) : Prop :=
  same_coll (fst p) st /\ heap_arts (snd p) = arts st /\ sls st = arts st /\ hinv (snd p) /\
  G.h_dc (snd p) = dc st /\ (forall d, G.h_subsets (snd p) d = map lay (dsubs (subs st) d)).

Lemma grel_vsync : forall st p, grel st p -> vsync st.
Proof.
  intros st p (_ & A & S & Hi & _). split; [exact S |]. rewrite <- A. apply (hi_nodup _ Hi).
Qed.

Lemma hinv_load : forall c h, hinv h -> hinv (load_coll c h).
Proof. intros c h []. constructor; assumption. Qed.

Lemma fold_created_both : forall nw st (c : vstate) h,
  vsync st -> hinv h -> heap_arts h = arts st ->
  let st' := fold_left (fun v s => on_sub_created s v) nw st in
  let h' := fold_left (fun h s => send G.C_SubsetCreateMessage (lay s) h) nw h in
  vsync st' /\ same_coll st' st /\ hinv h' /\ heap_arts h' = arts st' /\ G.h_dc h' = G.h_dc h /\ G.h_subsets h' = G.h_subsets h.
Proof.
  intros nw. induction nw as [| s t IH]; intros st c h Hv Hi Ha; simpl.
  - split; [exact Hv |]. split; [apply same_coll_refl |]. tauto.
  - destruct (hand_created s st Hv) as (A1 & V1 & C1).
    destruct (send_create s h Hi) as (h1 & E1 & Hi1 & B1 & D1 & S1). rewrite E1.
    assert (Ha1 : heap_arts h1 = arts (on_sub_created s st)) by (rewrite B1, A1, Ha; reflexivity).
    destruct (IH (on_sub_created s st) c h1 V1 Hi1 Ha1) as (V2 & C2 & Hi2 & A2 & D2 & S2).
    split; [exact V2 |]. split; [eapply same_coll_trans; eassumption |]. split; [exact Hi2 |]. split; [exact A2 |].
    rewrite D2, D1, S2, S1. tauto.
Qed.

(* the operations whose viewer side is add_data / add_subset / the SubsetCreateMessage handler *)
Definition growth_op (o : op) : bool :=
  match o with Append _ | NewGroup _ | AddData _ | AddSubset _ _ _ | SaveRestore => true | _ => false end.

Lemma sls_of_vsync : forall st, vsync st -> sls st = arts st.
Proof. intros st [H _]. exact H. Qed.

Lemma gstep_growth : forall o st p, growth_op o = true -> grel st p ->
  grel (fst (step o st)) (fst (gstep o p)) /\ snd (step o st) = snd (gstep o p).
Proof.
  intros o st [c h] Ho Hr. pose proof (grel_vsync _ _ Hr) as Hv.
  destruct Hr as (Hc & Ha & Hs & Hi & Hd & Hsub). simpl in Hc, Ha, Hi, Hd, Hsub.
  destruct Hc as (C1 & C2 & C3 & C4 & C5).
  destruct o as [d | d | g | g | d | d | s d g | | d]; try discriminate Ho; unfold gstep; cbn [fst snd step].
  - (* Append *)
    rewrite C2, C3, C4, C5, C1. destruct (zmem d (dc st)) eqn:Ed.
    + simpl. split; [| reflexivity]. unfold grel; simpl. unfold same_coll. tauto.
    + set (nw := new_subs (next st) (map (fun g => (d, g)) (groups st))).
      set (st1 := mkV (fixed st) (dc st ++ [d]) (groups st) (subs st ++ nw) (next st + Z.of_nat (length nw)) (arts st) (sls st)).
      set (c1 := mkV (fixed st) (dc st ++ [d]) (groups st) (subs st ++ nw) (next st + Z.of_nat (length nw)) [] []).
      assert (Hv1 : vsync st1) by exact Hv.
      destruct (fold_created_both nw st1 c1 (load_coll c1 h) Hv1 (hinv_load c1 h Hi) Ha) as (V2 & S2 & Hi2 & A2 & D2 & Sb2).
      simpl. split; [| reflexivity]. unfold grel; simpl.
      destruct S2 as (F1 & F2 & F3 & F4 & F5). simpl in F1, F2, F3, F4, F5.
      split; [unfold same_coll; simpl; rewrite F1, F2, F3, F4, F5; tauto |].
      split; [exact A2 |]. split; [apply sls_of_vsync; exact V2 |]. split; [exact Hi2 |].
      split; [rewrite D2, F2; reflexivity |]. intros d'. rewrite Sb2, F4. reflexivity.
  - (* NewGroup *)
    rewrite C2, C3, C4, C5, C1. destruct (zmem g (groups st)) eqn:Eg.
    + simpl. split; [| reflexivity]. unfold grel; simpl. unfold same_coll. tauto.
    + set (nw := new_subs (next st) (map (fun d => (d, g)) (dc st))).
      set (st1 := mkV (fixed st) (dc st) (groups st ++ [g]) (subs st ++ nw) (next st + Z.of_nat (length nw)) (arts st) (sls st)).
      set (c1 := mkV (fixed st) (dc st) (groups st ++ [g]) (subs st ++ nw) (next st + Z.of_nat (length nw)) [] []).
      assert (Hv1 : vsync st1) by exact Hv.
      destruct (fold_created_both nw st1 c1 (load_coll c1 h) Hv1 (hinv_load c1 h Hi) Ha) as (V2 & S2 & Hi2 & A2 & D2 & Sb2).
      simpl. split; [| reflexivity]. unfold grel; simpl.
      destruct S2 as (F1 & F2 & F3 & F4 & F5). simpl in F1, F2, F3, F4, F5.
      split; [unfold same_coll; simpl; rewrite F1, F2, F3, F4, F5; tauto |].
      split; [exact A2 |]. split; [apply sls_of_vsync; exact V2 |]. split; [exact Hi2 |].
      split; [rewrite D2, F2; reflexivity |]. intros d'. rewrite Sb2, F4. reflexivity.
  - (* AddData *)
    unfold add_data. rewrite <- Ha. destruct (has (LData d) (heap_arts h)) eqn:E.
    + rewrite (add_data_dup _ d h E). simpl. split; [| reflexivity]. unfold grel, same_coll; simpl. tauto.
    + rewrite <- Hd. destruct (zmem d (G.h_dc h)) eqn:Ed; cbn [negb].
      * rewrite K_knot. destruct (add_data_new (f0 h) d h Hi E Ed) as (h' & E' & Hi' & A' & D' & S'). rewrite E'.
        cbn [fst snd]. split; [| reflexivity].
        set (st1 := add_layer (LData d) st).
        apply has_false in E. rewrite Ha in E.
        destruct (add_layer_spec (LData d) st Hv E) as (L1 & L2 & L3).
        assert (Hv1 : vsync st1).
        { split; [unfold st1; rewrite L1, L2; reflexivity |]. unfold st1. rewrite L1. apply NoDup_snoc; [apply Hv | exact E]. }
        assert (Hgen : forall L v, vsync v ->
                  arts (fold_left (fun v s => add_subset_layer (lay s) v) L v) = fold_left (fun l x => add_if_new x l) (map lay L) (arts v) /\
                  vsync (fold_left (fun v s => add_subset_layer (lay s) v) L v) /\
                  same_coll (fold_left (fun v s => add_subset_layer (lay s) v) L v) v).
        { induction L as [| x t IH]; intros v Hvv; simpl; [split; [reflexivity | split; [exact Hvv | apply same_coll_refl]] |].
          destruct (hand_add_subset (lay x) v Hvv) as (X1 & X2 & X3).
          destruct (IH _ X2) as (Y1 & Y2 & Y3). rewrite Y1, X1. split; [reflexivity |]. split; [exact Y2 |].
          eapply same_coll_trans; eassumption. }
        destruct (Hgen (dsubs (subs st) d) st1 Hv1) as (G1 & G2 & G3).
        unfold grel; cbn [fst snd].
        assert (SC : same_coll (fold_left (fun v s => add_subset_layer (lay s) v) (dsubs (subs st) d) st1) st)
          by (eapply same_coll_trans; [exact G3 | exact L3]).
        destruct SC as (F1 & F2 & F3 & F4 & F5).
        split; [unfold same_coll; rewrite F1, F2, F3, F4, F5; tauto |].
        split; [rewrite A', G1, Hsub; unfold st1; rewrite L1, Ha; reflexivity |].
        split; [apply sls_of_vsync; exact G2 |]. split; [exact Hi' |].
        split; [rewrite D', F2; exact Hd |]. intros d'. rewrite S', F4. apply Hsub.
      * rewrite (add_data_not_in_dc _ d h E Ed). simpl. split; [| reflexivity]. unfold grel, same_coll; simpl. tauto.
  - (* AddSubset *)
    rewrite C2, C4. destruct (zmem d (dc st) && sub_known (subs st) s d g) eqn:Eg; cbn [fst snd].
    + split; [| reflexivity]. rewrite K_knot.
      destruct (add_subset_spec (f0 h) (LSub s d g) h Hi) as (h' & E' & Hi' & A' & D' & S'). rewrite E'.
      destruct (hand_add_subset (LSub s d g) st Hv) as (X1 & X2 & X3). destruct X3 as (F1 & F2 & F3 & F4 & F5).
      unfold grel; cbn [fst snd].
      split; [unfold same_coll; rewrite F1, F2, F3, F4, F5; tauto |].
      split; [rewrite A', X1, Ha; reflexivity |]. split; [apply sls_of_vsync; exact X2 |]. split; [exact Hi' |].
      split; [rewrite D', F2; exact Hd |]. intros d'. rewrite S', F4. apply Hsub.
    + split; [| reflexivity]. unfold grel, same_coll; simpl. tauto.
  - (* SaveRestore *)
    rewrite C1, C2, C3, C4, C5. simpl. split; [| reflexivity]. unfold grel; simpl.
    split; [unfold same_coll; simpl; tauto |]. split; [exact Ha |]. split; [exact Hs |]. split; [apply hinv_load; exact Hi |].
    split; [reflexivity |]. intros d'. reflexivity.
Qed.
