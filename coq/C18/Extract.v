From Coq Require Import ZArith ExtrOcamlBasic.
From GV Require Import Common.Wire C18.Model.
Extraction "c18_model.ml" run_case Z.add Z.mul Z.div_eucl Z.opp.
