(* C18 — the functions translated from glue/viewers/common/viewer.py, glue/core/layer_artist.py and
   glue/viewers/common/layer_artist.py (coq/gen/Gen_viewer.v) : what each of them computes on a heap in which the
   artists and the layer states are in step (hinv).  Part 1: the container, the two sync callbacks, the constructor,
   add_subset, add_data. *)
From Coq Require Import ZArith List Bool Lia.
Import ListNotations.
From GV Require Import Common.Wire C18.Model C18.LemmasViewer.
From GV Require gen.Gen_viewer.
Module G := Gen_viewer.
Open Scope Z_scope.

(* ------------------------------------------------------------------ the heap with another trace *)
Definition set_trace (tr : list G.event) (h : G.heap) : G.heap :=
  G.mkHeap (G.h_artists h) (G.h_layers h) (G.h_dc h) (G.h_subsets h) (G.h_size h) (G.h_next h)
           (G.h_delay h) (G.h_old h) (G.h_ignore_change h) (G.h_ignore_empty h) (G.h_warn h) (G.h_err h) tr.

Lemma heap_eta : forall h, set_trace (G.h_trace h) h = h.
Proof. intros []. reflexivity. Qed.

(* artists and layer states in step: the k-th layer state is the state of the k-th artist; no layer twice; identities
   distinct and below the allocation counter; zorders increasing; no delay block open; nothing ignored; no error *)
Fixpoint incr (l : list Z) : Prop :=
  match l with [] => True | x :: r => (forall y, In y r -> x < y) /\ incr r end.

Record hinv (h : G.heap) : Prop := mkHinv {
  hi_layers : G.h_layers h = map G.art_state (G.h_artists h);
  hi_nodup : NoDup (map G.art_layer (G.h_artists h));
  hi_ids : NoDup (map G.art_id (G.h_artists h));
  hi_next : forall a, In a (G.h_artists h) -> G.art_id a < G.h_next h;
  hi_z : incr (map G.art_z (G.h_artists h));
  hi_delay : G.h_delay h = 0;
  hi_ic : G.h_ignore_change h = false;
  hi_ie : G.h_ignore_empty h = false;
  hi_err : G.h_err h = false
}.

Lemma hinv_set_trace : forall tr h, hinv h -> hinv (set_trace tr h).
Proof. intros tr h []. constructor; assumption. Qed.

(* ------------------------------------------------------------------ lists *)
Lemma geqb_eq : forall a b, G.layer_eqb a b = layer_eqb a b.
Proof. reflexivity. Qed.

Lemma layer_eqb_refl : forall a, layer_eqb a a = true.
Proof. intros a. apply layer_eqb_eq. reflexivity. Qed.

Lemma layer_mem_has : forall x l, G.layer_mem x l = has x l.
Proof. reflexivity. Qed.

Lemma contains_has : forall x h, G.LayerArtistContainer___contains__ x h = has x (heap_arts h).
Proof.
  intros x h. unfold G.LayerArtistContainer___contains__, heap_arts, has.
  induction (G.h_artists h) as [| a t IH]; simpl; [reflexivity |]. rewrite IH. reflexivity.
Qed.

Lemma fold_noop : forall (A : Type) (body : G.heap -> A -> G.heap) (L : list A) h,
  (forall a, In a L -> body h a = h) -> fold_left body L h = h.
Proof.
  intros A body L. induction L as [| a t IH]; intros h H; simpl; [reflexivity |].
  rewrite (H a) by (left; reflexivity). apply IH. intros b Hb. apply H. right. exact Hb.
Qed.

Lemma iter_live_noop : forall (A : Type) (get : G.heap -> list A) body fuel i h,
  (length (get h) <= i + fuel)%nat -> (forall x, In x (get h) -> body x h = h) ->
  G.iter_live fuel i get body h = h.
Proof.
  intros A get body fuel. induction fuel as [| f IH]; intros i h Hl Hb; simpl.
  - destruct (nth_error (get h) i) eqn:E; [| reflexivity].
    exfalso. assert (nth_error (get h) i <> None) by congruence. apply nth_error_Some in H. lia.
  - destruct (nth_error (get h) i) eqn:E; [| reflexivity].
    rewrite (Hb a) by (eapply nth_error_In; exact E). apply IH; [lia | exact Hb].
Qed.

(* walking over a prefix on which the body does nothing *)
Lemma iter_live_prefix : forall (A : Type) (get : G.heap -> list A) body h l1 pre rest fuel,
  get h = pre ++ l1 ++ rest -> (forall x, In x l1 -> body x h = h) ->
  G.iter_live (length l1 + fuel) (length pre) get body h = G.iter_live fuel (length pre + length l1) get body h.
Proof.
  intros A get body h l1. induction l1 as [| x t IH]; intros pre rest fuel Hg Hb; simpl.
  - rewrite Nat.add_0_r. reflexivity.
  - assert (E : nth_error (get h) (length pre) = Some x).
    { rewrite Hg. rewrite nth_error_app2 by lia. rewrite Nat.sub_diag. reflexivity. }
    rewrite E. rewrite (Hb x) by (left; reflexivity).
    specialize (IH (pre ++ [x]) rest fuel). rewrite app_length in IH. simpl in IH.
    replace (length pre + S (length t))%nat with (length pre + 1 + length t)%nat by lia.
    replace (S (length pre)) with (length pre + 1)%nat by lia.
    apply IH.
    + rewrite Hg. rewrite <- app_assoc. reflexivity.
    + intros y Hy. apply Hb. right. exact Hy.
Qed.

(* sorted(artists, key=zorder) is the artist list itself when the zorders increase *)
Lemma insert_by_last : forall (A : Type) (f : A -> Z) x acc,
  (forall y, In y acc -> f y <= f x) -> G.insert_by f x acc = acc ++ [x].
Proof.
  intros A f x acc. induction acc as [| y r IH]; intros H; simpl; [reflexivity |].
  assert (f y <= f x) by (apply H; left; reflexivity).
  destruct (f x <? f y) eqn:E; [lia |]. rewrite IH; [reflexivity |]. intros z Hz. apply H. right. exact Hz.
Qed.

Lemma sort_by_sorted : forall (A : Type) (f : A -> Z) l, incr (map f l) -> G.sort_by f l = l.
Proof.
  intros A f l. unfold G.sort_by.
  assert (Hgen : forall l acc, incr (map f (acc ++ l)) -> fold_left (fun acc x => G.insert_by f x acc) l acc = acc ++ l).
  { clear l. induction l as [| x t IH]; intros acc H; simpl; [rewrite app_nil_r; reflexivity |].
    rewrite insert_by_last.
    - rewrite IH; rewrite <- app_assoc; [reflexivity | exact H].
    - intros y Hy. clear IH. induction acc as [| z r IHr]; [destruct Hy |].
      simpl in H. destruct H as [H1 H2]. destruct Hy as [Hy | Hy].
      + subst z. assert (f y < f x); [| lia]. apply H1. rewrite map_app. apply in_or_app. right. left. reflexivity.
      + apply IHr; assumption. }
  intros H. apply (Hgen l []). exact H.
Qed.

Lemma incr_app : forall l x, incr l -> (forall y, In y l -> y < x) -> incr (l ++ [x]).
Proof.
  induction l as [| a t IH]; intros x H Hx; simpl; [tauto |].
  destruct H as [H1 H2]. split.
  - intros y Hy. apply in_app_or in Hy. destruct Hy as [Hy | [Hy | []]]; [apply H1; exact Hy | subst; apply Hx; left; reflexivity].
  - apply IH; [exact H2 |]. intros y Hy. apply Hx. right. exact Hy.
Qed.

Lemma incr_filter : forall (A : Type) (f : A -> Z) p l, incr (map f l) -> incr (map f (filter p l)).
Proof.
  intros A f p l. induction l as [| a t IH]; intros H; simpl; [exact I |].
  simpl in H. destruct H as [H1 H2]. destruct (p a); simpl; [| apply IH; exact H2].
  split; [| apply IH; exact H2]. intros y Hy. apply H1. apply in_map_iff in Hy. destruct Hy as [b [Eb Hb]].
  apply filter_In in Hb. apply in_map_iff. exists b. tauto.
Qed.

Lemma list_max_ge : forall l y, In y l -> y <= G.list_max l.
Proof.
  intros l. unfold G.list_max.
  assert (Hgen : forall l acc y, (In y l \/ y <= acc) -> y <= fold_left Z.max l acc).
  { clear l. induction l as [| x t IH]; intros acc y H; simpl.
    - destruct H as [[] | H]. exact H.
    - apply IH. destruct H as [[H | H] | H]; [subst; right; lia | left; exact H | right; lia]. }
  intros y Hy. apply Hgen. left. exact Hy.
Qed.

(* list.remove(x) by identity, when identities are distinct *)
Lemma remove_artist_filter : forall a l, NoDup (map G.art_id l) ->
  G.remove_artist a l = filter (fun x => negb (G.art_id x =? G.art_id a)) l.
Proof.
  intros a l. induction l as [| x t IH]; intros Hn; simpl; [reflexivity |].
  simpl in Hn. inversion Hn as [| ? ? Hx Ht]; subst.
  destruct (G.art_id x =? G.art_id a) eqn:E; simpl.
  - symmetry. apply filter_all. intros y Hy. apply negb_true_iff. apply Z.eqb_neq. intro Ey.
    apply Hx. apply Z.eqb_eq in E. rewrite E, <- Ey. apply in_map. exact Hy.
  - rewrite IH by exact Ht. reflexivity.
Qed.

Lemma remove_lstate_filter : forall s l, NoDup (map G.ls_id l) ->
  G.remove_lstate s l = filter (fun x => negb (G.ls_id x =? G.ls_id s)) l.
Proof.
  intros a l. induction l as [| x t IH]; intros Hn; simpl; [reflexivity |].
  simpl in Hn. inversion Hn as [| ? ? Hx Ht]; subst.
  destruct (G.ls_id x =? G.ls_id a) eqn:E; simpl.
  - symmetry. apply filter_all. intros y Hy. apply negb_true_iff. apply Z.eqb_neq. intro Ey.
    apply Hx. apply Z.eqb_eq in E. rewrite E, <- Ey. apply in_map. exact Hy.
  - rewrite IH by exact Ht. reflexivity.
Qed.

Lemma map_state_id : forall l, map G.ls_id (map G.art_state l) = map G.art_id l.
Proof. intros l. rewrite map_map. reflexivity. Qed.
Lemma map_state_layer : forall l, map G.ls_layer (map G.art_state l) = map G.art_layer l.
Proof. intros l. rewrite map_map. reflexivity. Qed.

Lemma NoDup_map_filter_gen : forall (A B : Type) (f : A -> B) p l, NoDup (map f l) -> NoDup (map f (filter p l)).
Proof.
  intros A B f p l. induction l as [| x t IH]; intros H; simpl; [constructor |].
  simpl in H. inversion H as [| ? ? Hx Ht]; subst.
  destruct (p x); simpl; [constructor; [| apply IH; exact Ht] | apply IH; exact Ht].
  intro Hin. apply Hx. apply in_map_iff in Hin. destruct Hin as [y [E Hy]]. apply filter_In in Hy.
  apply in_map_iff. exists y. tauto.
Qed.

(* ------------------------------------------------------------------ the two sync callbacks do nothing on a heap in step *)
Lemma sync_state_noop : forall cb h,
  (forall s, In s (G.h_layers h) -> has (G.ls_layer s) (heap_arts h) = true) ->
  G.Viewer__sync_state_layers cb h = h.
Proof.
  intros cb h H. unfold G.Viewer__sync_state_layers.
  apply iter_live_noop; [simpl; lia |].
  intros s Hs. rewrite contains_has. rewrite (H s Hs). reflexivity.
Qed.

Lemma in_sort_by : forall (A : Type) (f : A -> Z) l x, In x (G.sort_by f l) -> In x l.
Proof.
  intros A f l x. unfold G.sort_by.
  assert (Hins : forall y acc, In x (G.insert_by f y acc) -> x = y \/ In x acc).
  { intros y acc. induction acc as [| z r IH]; simpl; [intros [H | []]; left; congruence |].
    destruct (f y <? f z); simpl; [intros [H | [H | H]]; [left; congruence | right; left; exact H | right; right; exact H] |].
    intros [H | H]; [right; left; exact H |]. destruct (IH H) as [H' | H']; [left; exact H' | right; right; exact H']. }
  assert (Hgen : forall l acc, In x (fold_left (fun acc y => G.insert_by f y acc) l acc) -> In x l \/ In x acc).
  { clear l. induction l as [| y t IH]; intros acc H; simpl in *; [right; exact H |].
    destruct (IH _ H) as [H' | H']; [left; right; exact H' |].
    destruct (Hins _ _ H') as [H'' | H'']; [left; left; congruence | right; exact H'']. }
  intros H. destruct (Hgen l [] H) as [H' | []]. exact H'.
Qed.

Lemma sync_container_noop : forall cb h,
  (forall a, In a (G.h_artists h) -> has (G.art_layer a) (heap_sls h) = true) ->
  G.Viewer__sync_layer_artist_container cb h = h.
Proof.
  intros cb h H. unfold G.Viewer__sync_layer_artist_container.
  apply fold_noop. intros a Ha. unfold G.LayerArtistContainer___iter__ in Ha. apply in_sort_by in Ha.
  change (G.layer_mem (G.art_layer a) (map (fun layer_state => G.ls_layer layer_state) (G.h_layers h)))
    with (has (G.art_layer a) (heap_sls h)).
  rewrite (H a Ha). reflexivity.
Qed.

(* the recursion through the callbacks, one level *)
Lemma knot_layers : forall f h,
  G.cb_layers (G.knot (S f)) h = G.ev G.EDrawLegend (G.Viewer__sync_layer_artist_container (G.knot f) h).
Proof. reflexivity. Qed.
Lemma knot_changed : forall f h, G.cb_changed (G.knot (S f)) h = G.Viewer__sync_state_layers (G.knot f) h.
Proof. reflexivity. Qed.
Lemma knot_empty : forall f h, G.cb_empty (G.knot (S f)) h = h.
Proof. reflexivity. Qed.

Lemma notify_knot : forall f h, G.h_ignore_change h = false ->
  G.LayerArtistContainer__notify (G.knot (S f)) h = G.Viewer__sync_state_layers (G.knot f) h.
Proof.
  intros f h Hic. unfold G.LayerArtistContainer__notify. rewrite Hic. cbn [negb].
  rewrite knot_changed.
  destruct (negb (G.h_ignore_empty (G.Viewer__sync_state_layers (G.knot f) h)) &&
            (G.LayerArtistContainer___len__ (G.Viewer__sync_state_layers (G.knot f) h) =? 0)); reflexivity.
Qed.

(* membership in the lists of a heap in step *)
Lemma hinv_sls : forall h, hinv h -> heap_sls h = heap_arts h.
Proof. intros h Hi. unfold heap_sls, heap_arts. rewrite (hi_layers h Hi). apply map_state_layer. Qed.

Lemma has_self : forall (l : list layer) x, In x l -> has x l = true.
Proof. intros l x H. apply has_In. exact H. Qed.

(* ------------------------------------------------------------------ add_subset / the constructor / container.append *)
(* the heap after a layer artist for x has been created and appended *)
Definition new_z (h : G.heap) : Z := G.list_max (map G.art_z (G.h_artists h) ++ [0]) + 1.
Definition new_art (x : layer) (h : G.heap) : G.artist := G.mkArt (G.h_next h) x (new_z h).
Definition added (x : layer) (h : G.heap) : G.heap :=
  G.mkHeap (G.h_artists h ++ [new_art x h]) (G.h_layers h ++ [G.art_state (new_art x h)]) (G.h_dc h) (G.h_subsets h) (G.h_size h)
           (G.h_next h + 1) (G.h_delay h) (G.h_old h) (G.h_ignore_change h) (G.h_ignore_empty h) (G.h_warn h) (G.h_err h) (G.h_trace h).

Lemma fresh_id : forall h, hinv h -> forall (x : layer) z, G.artist_mem (G.mkArt (G.h_next h) x z) (G.h_artists h) = false.
Proof.
  intros h Hi x z. unfold G.artist_mem. apply not_true_is_false. intro H. apply existsb_exists in H.
  destruct H as [a [Ha E]]. simpl in E. apply Z.eqb_eq in E. pose proof (hi_next h Hi a Ha). lia.
Qed.

Lemma fresh_state : forall h, hinv h -> forall x : layer, G.lstate_mem (G.mkLS (G.h_next h) x) (G.h_layers h) = false.
Proof.
  intros h Hi x. unfold G.lstate_mem. apply not_true_is_false. intro H. apply existsb_exists in H.
  destruct H as [s [Hs E]]. simpl in E. apply Z.eqb_eq in E. rewrite (hi_layers h Hi) in Hs.
  apply in_map_iff in Hs. destruct Hs as [a [Ea Ha]]. subst s. simpl in E. pose proof (hi_next h Hi a Ha). lia.
Qed.

Lemma set_zorder_last : forall (l : list G.artist) n (x : layer) z0 z,
  (forall a, In a l -> G.art_id a <> n) ->
  map (fun y => if G.art_id y =? n then G.mkArt (G.art_id y) (G.art_layer y) z else y) (l ++ [G.mkArt n x z0]) = l ++ [G.mkArt n x z].
Proof.
  intros l n x z0 z H. rewrite map_app. simpl. rewrite Z.eqb_refl. f_equal.
  rewrite <- (map_id l) at 2. apply map_ext_in. intros a Ha. destruct (G.art_id a =? n) eqn:E; [| reflexivity].
  apply Z.eqb_eq in E. exfalso. exact (H a Ha E).
Qed.

Lemma hinv_added : forall x h, hinv h -> ~ In x (heap_arts h) -> hinv (added x h).
Proof.
  intros x h Hi Hx. destruct Hi as [H1 H2 H3 H4 H5 H6 H7 H8 H9]. constructor; simpl; try assumption.
  - rewrite H1. rewrite map_app. reflexivity.
  - rewrite map_app. simpl. apply NoDup_snoc; [exact H2 | exact Hx].
  - rewrite map_app. simpl. apply NoDup_snoc; [exact H3 |]. intro Hin. apply in_map_iff in Hin.
    destruct Hin as [a [Ea Ha]]. pose proof (H4 a Ha). lia.
  - intros a Ha. apply in_app_or in Ha. destruct Ha as [Ha | [Ha | []]]; [pose proof (H4 a Ha); lia | subst a; simpl; lia].
  - rewrite map_app. simpl. apply incr_app; [exact H5 |]. intros y Hy. unfold new_z.
    assert (y <= G.list_max (map G.art_z (G.h_artists h) ++ [0])); [| lia].
    apply list_max_ge. apply in_or_app. left. exact Hy.
Qed.

Lemma added_arts : forall x h, heap_arts (added x h) = heap_arts h ++ [x].
Proof. intros x h. unfold heap_arts, added; simpl. rewrite map_app. reflexivity. Qed.

(* LayerArtist(viewer.state, layer=x) followed by container.append(artist) *)
Lemma make_layer : forall f x h, hinv h -> ~ In x (heap_arts h) ->
  exists a h1 tr, G.LayerArtist___init__ (G.knot (S f)) x h = (a, h1) /\ G.art_layer a = x /\
                  G.LayerArtistContainer_append (G.knot (S f)) a h1 = set_trace tr (added x h).
Proof.
  intros f x h Hi Hx.
  unfold G.LayerArtist___init__, G.new_layer_state.
  change (G.h_layers (G.hset_next (G.h_next h + 1) h)) with (G.h_layers h).
  rewrite (fresh_state h Hi x). cbn [negb].
  unfold G.state_layers_append, G.layers_notify.
  change (G.h_delay (G.hset_layers (G.h_layers (G.hset_next (G.h_next h + 1) h) ++ [G.mkLS (G.h_next h) x]) (G.hset_next (G.h_next h + 1) h)))
    with (G.h_delay h).
  rewrite (hi_delay h Hi). cbn [Z.ltb Z.compare].
  rewrite knot_layers.
  rewrite sync_container_noop.
  2:{ intros a Ha. simpl in Ha. unfold heap_sls; simpl. rewrite map_app. apply has_In. apply in_or_app. left.
      rewrite (hi_layers h Hi). rewrite map_state_layer. apply in_map. exact Ha. }
  cbn [G.lstate_zorder G.ls_id].
  eexists. eexists. 
  assert (Happ : exists tr, G.LayerArtistContainer_append (G.knot (S f)) (G.mkArt (G.h_next h) x 0)
            (G.ev G.EDrawLegend (G.hset_layers (G.h_layers (G.hset_next (G.h_next h + 1) h) ++ [G.mkLS (G.h_next h) x]) (G.hset_next (G.h_next h + 1) h)))
          = set_trace tr (added x h)).
  { unfold G.LayerArtistContainer_append.
    match goal with |- context [G.LayerArtistContainer__notify _ ?hh] => set (h3 := hh) end.
    rewrite notify_knot by (subst h3; simpl; apply (hi_ic h Hi)).
    assert (E3 : exists tr, h3 = set_trace tr (added x h)).
    { subst h3. unfold G.set_zorder, G.hset_artists, G.ev, G.hset_layers, G.hset_next; simpl.
      rewrite set_zorder_last.
      2:{ intros a Ha. pose proof (hi_next h Hi a Ha). lia. }
      eexists. unfold set_trace, added, new_art, new_z; simpl. rewrite map_app. simpl. reflexivity. }
    destruct E3 as [tr E3]. rewrite E3.
    rewrite sync_state_noop.
    2:{ intros s Hs. simpl in Hs. unfold heap_arts; simpl. rewrite map_app. apply has_In.
        apply in_app_or in Hs. destruct Hs as [Hs | [Hs | []]].
        - apply in_or_app. left. rewrite (hi_layers h Hi) in Hs. apply in_map_iff in Hs. destruct Hs as [a [Ea Ha]].
          subst s. simpl. apply in_map. exact Ha.
        - subst s. apply in_or_app. right. left. reflexivity. }
    exists tr. reflexivity. }
  destruct Happ as [tr Happ]. exists tr. split; [reflexivity |]. split; [reflexivity | exact Happ].
Qed.

Lemma add_subset_new : forall f x h, hinv h -> ~ In x (heap_arts h) ->
  exists tr, G.Viewer_add_subset (G.knot (S f)) x h = G.Done true (set_trace tr (added x h)).
Proof.
  intros f x h Hi Hx.
  unfold G.Viewer_add_subset. cbn [G.Viewer_allow_duplicate_subset negb andb].
  rewrite contains_has. assert (Eh : has x (heap_arts h) = false) by (apply has_false; exact Hx). rewrite Eh.
  cbn [G.registry_lookup].
  destruct (make_layer f x h Hi Hx) as (a & h1 & tr & E1 & E2 & E3). rewrite E1.
  cbv beta iota zeta. rewrite E3.
  eexists. unfold G.Viewer_draw_legend, G.ev, set_trace; simpl. reflexivity.
Qed.

Lemma add_subset_dup : forall cb x h, In x (heap_arts h) -> G.Viewer_add_subset cb x h = G.Done true h.
Proof.
  intros cb x h Hx. unfold G.Viewer_add_subset. cbn [G.Viewer_allow_duplicate_subset negb andb].
  rewrite contains_has. rewrite (has_self _ _ Hx). reflexivity.
Qed.

(* add_subset, in terms of the hand model's add_subset_layer on the artist list *)
Definition add_if_new (x : layer) (l : list layer) : list layer := if has x l then l else l ++ [x].

Lemma add_subset_spec : forall f x h, hinv h ->
  exists h', G.heap_of (G.Viewer_add_subset (G.knot (S f)) x h) = h' /\ hinv h' /\
             heap_arts h' = add_if_new x (heap_arts h) /\
             G.h_dc h' = G.h_dc h /\ G.h_subsets h' = G.h_subsets h.
Proof.
  intros f x h Hi. unfold add_if_new. destruct (has x (heap_arts h)) eqn:E.
  - apply has_In in E. rewrite (add_subset_dup _ _ _ E). exists h. simpl. tauto.
  - apply has_false in E. destruct (add_subset_new f x h Hi E) as [tr Htr]. rewrite Htr. simpl.
    eexists. split; [reflexivity |]. split; [apply hinv_set_trace; apply hinv_added; assumption |].
    split; [| split; reflexivity]. change (heap_arts (set_trace tr (added x h))) with (heap_arts (added x h)). apply added_arts.
Qed.
