(* C18 — viewers and attribute pickers mirror the collection: executable model.

   Part 1  collection x viewer: the DataCollection (datasets, subset groups, every
           dataset's subsets) and one viewer {artists; state.layers} with the hub
           subscriptions of glue/viewers/common/viewer.py as handlers.
   Part 2  ComponentIDComboHelper (glue/core/data_combo_helper.py) on top of
           echo's SelectionCallbackProperty._choices_updated, with hub delay blocks.
   Part 3  ManualDataComboHelper / DataCollectionComboHelper.
   Part 4  ImageViewerState x_att / y_att / x_att_world / y_att_world.
   Definitions only; proofs are in Lemmas*.v. *)
From Coq Require Import ZArith List Bool.
Import ListNotations.
From GV Require Import Common.Wire.
From GV Require gen.Gen_viewer gen.Gen_picker.
Open Scope Z_scope.

(* ------------------------------------------------------------------ generic *)
Definition zmem (x : Z) (l : list Z) : bool := existsb (Z.eqb x) l.
Definition zremove (x : Z) (l : list Z) : list Z := filter (fun y => negb (y =? x)) l.
Definition isnil {A} (l : list A) : bool := match l with [] => true | _ => false end.

(* ================================================================== part 1 *)
(* a layer = the dataset or subset it shows.  The type is the one declared in the preamble of the translated code
   (coq/gen/Gen_viewer.v, regenerated from glue/viewers/common/viewer.py on every run), so that the hand model and the
   translated functions of part 5 speak about the same values:
     Inductive layer := LData (d : Z) | LSub (s d g : Z). *)
Notation layer := Gen_viewer.layer.
Notation LData := Gen_viewer.LData.
Notation LSub := Gen_viewer.LSub.

Definition layer_eqb (a b : layer) : bool :=
  match a, b with
  | LData d, LData e => d =? e
  | LSub s d g, LSub s' d' g' => (s =? s') && (d =? d') && (g =? g')
  | _, _ => false
  end.
Definition layer_data (l : layer) : Z := match l with LData d => d | LSub _ d _ => d end.
Definition has (l : layer) (ls : list layer) : bool := existsb (layer_eqb l) ls.

(* a subset object: identity, dataset, group, and whether its group still lists it
   (false = the stray subset a dataset keeps after dc.remove on the tree without the C06 repair) *)
Record sub := mkSub { s_id : Z; s_d : Z; s_g : Z; s_live : bool }.
Definition lay (s : sub) : layer := LSub (s_id s) (s_d s) (s_g s).
Definition unlive (s : sub) : sub := mkSub (s_id s) (s_d s) (s_g s) false.

Record vstate := mkV {
  fixed : bool;            (* does SubsetGroup._remove_data detach the subset from the dataset (C06 repair)? probed by the harness *)
  dc : list Z;             (* datasets in the collection, in order *)
  groups : list Z;         (* subset groups, in order *)
  subs : list sub;         (* every subset held by some dataset (data.subsets), in creation order *)
  next : Z;                (* next fresh subset identity *)
  arts : list layer;       (* viewer._layer_artist_container.artists (their .layer) *)
  sls : list layer         (* viewer.state.layers (their .layer) *)
}.

Definition set_v (st : vstate) (a s : list layer) : vstate :=
  mkV (fixed st) (dc st) (groups st) (subs st) (next st) a s.

Definition dsubs (sb : list sub) (d : Z) : list sub := filter (fun s => s_d s =? d) sb.

Fixpoint new_subs (n : Z) (pairs : list (Z * Z)) : list sub :=
  match pairs with
  | [] => []
  | (d, g) :: t => mkSub n d g true :: new_subs (n + 1) t
  end.

(* --- the two synchronisation callbacks (viewer.py 177-188) --- *)
Definition sync_state_layers (st : vstate) : vstate :=
  set_v st (arts st) (filter (fun l => has l (arts st)) (sls st)).
Definition sync_container (st : vstate) : vstate :=
  set_v st (filter (fun a => has a (sls st)) (arts st)) (sls st).

(* LayerArtist.__init__ appends the new layer state (-> 'layers' callback), then
   the container appends the artist (-> on_changed callback) *)
Definition add_layer (l : layer) (st : vstate) : vstate :=
  let st1 := sync_container (set_v st (arts st) (sls st ++ [l])) in
  sync_state_layers (set_v st1 (arts st1 ++ [l]) (sls st1)).

Definition add_subset_layer (l : layer) (st : vstate) : vstate :=
  if has l (arts st) then st else add_layer l st.

(* Viewer.add_data: status 0 = added / already there, 1 = IncompatibleDataException *)
Definition add_data (d : Z) (st : vstate) : vstate * Z :=
  if has (LData d) (arts st) then (st, 0)
  else if negb (zmem d (dc st)) then (st, 1)
  else (fold_left (fun v s => add_subset_layer (lay s) v) (dsubs (subs st) d) (add_layer (LData d) st), 0).

(* Viewer.remove_data: layer states of the dataset and of its subsets are dropped inside a
   delay block, then the 'layers' callback prunes the container *)
Definition remove_data (d : Z) (st : vstate) : vstate :=
  sync_state_layers (sync_container (set_v st (arts st) (filter (fun l => negb (layer_data l =? d)) (sls st)))).

(* Viewer.remove_subset: container.pop(subset) then the on_changed callback *)
Definition remove_subset (l : layer) (st : vstate) : vstate :=
  if has l (arts st)
  then sync_container (sync_state_layers (set_v st (filter (fun a => negb (layer_eqb l a)) (arts st)) (sls st)))
  else st.

(* hub handlers with their filters *)
Definition on_sub_created (s : sub) (st : vstate) : vstate :=
  if has (LData (s_d s)) (arts st) then add_subset_layer (lay s) st else st.
Definition on_sub_deleted (s : sub) (st : vstate) : vstate := remove_subset (lay s) st.

Inductive op :=
| Append (d : Z) | Remove (d : Z) | NewGroup (g : Z) | RemoveGroup (g : Z)
| AddData (d : Z) | RemoveData (d : Z) | AddSubset (s d g : Z) | SaveRestore
| RemoveLayer (d : Z)     (* viewer.remove_layer(data): only the dataset's own layer artist goes, its subsets' layers stay *).

Definition sub_known (sb : list sub) (s d g : Z) : bool :=
  existsb (fun x => (s_id x =? s) && (s_d x =? d) && (s_g x =? g)) sb.

Definition step (o : op) (st : vstate) : vstate * Z :=
  match o with
  | Append d =>
      if zmem d (dc st) then (st, 0) else
      let nw := new_subs (next st) (map (fun g => (d, g)) (groups st)) in
      let st1 := mkV (fixed st) (dc st ++ [d]) (groups st) (subs st ++ nw) (next st + Z.of_nat (length nw)) (arts st) (sls st) in
      (fold_left (fun v s => on_sub_created s v) nw st1, 0)
  | Remove d =>
      if negb (zmem d (dc st)) then (st, 0) else
      let sb := if fixed st
                then filter (fun s => negb ((s_d s =? d) && s_live s)) (subs st)
                else map (fun s => if s_d s =? d then unlive s else s) (subs st) in
      (remove_data d (mkV (fixed st) (zremove d (dc st)) (groups st) sb (next st) (arts st) (sls st)), 0)
  | NewGroup g =>
      if zmem g (groups st) then (st, 0) else
      let nw := new_subs (next st) (map (fun d => (d, g)) (dc st)) in
      let st1 := mkV (fixed st) (dc st) (groups st ++ [g]) (subs st ++ nw) (next st + Z.of_nat (length nw)) (arts st) (sls st) in
      (fold_left (fun v s => on_sub_created s v) nw st1, 0)
  | RemoveGroup g =>
      if negb (zmem g (groups st)) then (st, 0) else
      let dead := filter (fun s => (s_g s =? g) && s_live s) (subs st) in
      let st1 := mkV (fixed st) (dc st) (zremove g (groups st))
                     (filter (fun s => negb ((s_g s =? g) && s_live s)) (subs st)) (next st) (arts st) (sls st) in
      (fold_left (fun v s => on_sub_deleted s v) dead st1, 0)
  | AddData d => add_data d st
  | RemoveData d => (remove_data d st, 0)
  | AddSubset s d g =>
      (* in the stated domain only: a current subset of a dataset of the collection (the viewer need not show the dataset) *)
      if zmem d (dc st) && sub_known (subs st) s d g then (add_subset_layer (LSub s d g) st, 0) else (st, 2)
  | RemoveLayer d => (remove_subset (LData d) st, 0)      (* container.pop(layer) + the on_changed callback *)
  | SaveRestore =>
      (* datasets outside the collection are not part of the saved session *)
      (mkV (fixed st) (dc st) (groups st) (filter (fun s => zmem (s_d s) (dc st)) (subs st)) (next st) (arts st) (sls st), 0)
  end.

(* ghost: which datasets has the viewer been given (and not had taken away again)?
   computed from the operation and the collection BEFORE the step, independently of the handlers *)
Definition ghost_step (o : op) (st : vstate) (given : list Z) : list Z :=
  match o with
  | AddData d => if zmem d (dc st) && negb (zmem d given) then given ++ [d] else given
  | RemoveData d => zremove d given
  | Remove d => zremove d given
  | RemoveLayer d => zremove d given
  | _ => given
  end.

Definition init_v (fx : bool) : vstate := mkV fx [] [] [] 0 [] [].

Fixpoint run_v (ops : list op) (st : vstate) (given : list Z) : vstate * list Z :=
  match ops with
  | [] => (st, given)
  | o :: t => run_v t (fst (step o st)) (ghost_step o st given)
  end.

(* ------------------------------------------------------------------ part 1b: delay blocks on state.layers
   While a `delay_callback(viewer.state, 'layers')` block is open (dl = true) the 'layers' callback
   _sync_layer_artist_container is held back until the block is left; the container's own on_changed callback
   (_sync_state_layers) still runs at once.  The functions below are the handlers of part 1 with that one difference;
   with dl = false they are the handlers of part 1 (step_d_false in the proofs). *)
Definition sync_container_d (dl : bool) (st : vstate) : vstate := if dl then st else sync_container st.

Definition add_layer_d (dl : bool) (l : layer) (st : vstate) : vstate :=
  let st1 := sync_container_d dl (set_v st (arts st) (sls st ++ [l])) in
  sync_state_layers (set_v st1 (arts st1 ++ [l]) (sls st1)).
Definition add_subset_layer_d (dl : bool) (l : layer) (st : vstate) : vstate :=
  if has l (arts st) then st else add_layer_d dl l st.
Definition add_data_d (dl : bool) (d : Z) (st : vstate) : vstate * Z :=
  if has (LData d) (arts st) then (st, 0)
  else if negb (zmem d (dc st)) then (st, 1)
  else (fold_left (fun v s => add_subset_layer_d dl (lay s) v) (dsubs (subs st) d) (add_layer_d dl (LData d) st), 0).
Definition remove_data_d (dl : bool) (d : Z) (st : vstate) : vstate :=
  sync_state_layers (sync_container_d dl (set_v st (arts st) (filter (fun l => negb (layer_data l =? d)) (sls st)))).
Definition remove_subset_d (dl : bool) (l : layer) (st : vstate) : vstate :=
  if has l (arts st)
  then sync_container_d dl (sync_state_layers (set_v st (filter (fun a => negb (layer_eqb l a)) (arts st)) (sls st)))
  else st.
Definition on_sub_created_d (dl : bool) (s : sub) (st : vstate) : vstate :=
  if has (LData (s_d s)) (arts st) then add_subset_layer_d dl (lay s) st else st.
Definition on_sub_deleted_d (dl : bool) (s : sub) (st : vstate) : vstate := remove_subset_d dl (lay s) st.

Definition step_d (dl : bool) (o : op) (st : vstate) : vstate * Z :=
  match o with
  | Append d =>
      if zmem d (dc st) then (st, 0) else
      let nw := new_subs (next st) (map (fun g => (d, g)) (groups st)) in
      let st1 := mkV (fixed st) (dc st ++ [d]) (groups st) (subs st ++ nw) (next st + Z.of_nat (length nw)) (arts st) (sls st) in
      (fold_left (fun v s => on_sub_created_d dl s v) nw st1, 0)
  | Remove d =>
      if negb (zmem d (dc st)) then (st, 0) else
      let sb := if fixed st
                then filter (fun s => negb ((s_d s =? d) && s_live s)) (subs st)
                else map (fun s => if s_d s =? d then unlive s else s) (subs st) in
      (* with the C06 repair every live subset of d is deleted by its group: one SubsetDeleteMessage each *)
      let gone := if fixed st then filter (fun s => (s_d s =? d) && s_live s) (subs st) else [] in
      (fold_left (fun v s => on_sub_deleted_d dl s v) gone
         (remove_data_d dl d (mkV (fixed st) (zremove d (dc st)) (groups st) sb (next st) (arts st) (sls st))), 0)
  | NewGroup g =>
      if zmem g (groups st) then (st, 0) else
      let nw := new_subs (next st) (map (fun d => (d, g)) (dc st)) in
      let st1 := mkV (fixed st) (dc st) (groups st ++ [g]) (subs st ++ nw) (next st + Z.of_nat (length nw)) (arts st) (sls st) in
      (fold_left (fun v s => on_sub_created_d dl s v) nw st1, 0)
  | RemoveGroup g =>
      if negb (zmem g (groups st)) then (st, 0) else
      let dead := filter (fun s => (s_g s =? g) && s_live s) (subs st) in
      let st1 := mkV (fixed st) (dc st) (zremove g (groups st))
                     (filter (fun s => negb ((s_g s =? g) && s_live s)) (subs st)) (next st) (arts st) (sls st) in
      (fold_left (fun v s => on_sub_deleted_d dl s v) dead st1, 0)
  | AddData d => add_data_d dl d st
  | RemoveData d => (remove_data_d dl d st, 0)
  | AddSubset s d g =>
      if zmem d (dc st) && sub_known (subs st) s d g then (add_subset_layer_d dl (LSub s d g) st, 0) else (st, 2)
  | RemoveLayer d => (remove_subset_d dl (LData d) st, 0)
  | SaveRestore =>
      (mkV (fixed st) (dc st) (groups st) (filter (fun s => zmem (s_d s) (dc st)) (subs st)) (next st) (arts st) (sls st), 0)
  end.

(* operations with delay blocks: entering the block (echo remembers the value of state.layers), leaving it (the
   held-back callback runs now - but only if state.layers differs from the remembered value) *)
Inductive dop := Plain (o : op) | LBegin | LEnd.

Fixpoint layers_eqb (a b : list layer) : bool :=
  match a, b with
  | [], [] => true
  | x :: a', y :: b' => layer_eqb x y && layers_eqb a' b'
  | _, _ => false
  end.
Definition is_some {A} (o : option A) : bool := match o with Some _ => true | None => false end.

Definition dstep (x : dop) (p : vstate * option (list layer)) : (vstate * option (list layer)) * Z :=
  match x with
  | Plain o => let r := step_d (is_some (snd p)) o (fst p) in ((fst r, snd p), snd r)
  | LBegin => (match snd p with None => (fst p, Some (sls (fst p))) | Some _ => p end, 0)
  | LEnd =>
      (match snd p with
       | Some snap => (if layers_eqb snap (sls (fst p)) then fst p else sync_state_layers (sync_container (fst p)), None)
       | None => p
       end, 0)
  end.
Definition dghost (x : dop) (st : vstate) (given : list Z) : list Z :=
  match x with Plain o => ghost_step o st given | _ => given end.

Fixpoint run_d (ops : list dop) (p : vstate * option (list layer)) (given : list Z) : (vstate * option (list layer)) * list Z :=
  match ops with
  | [] => (p, given)
  | x :: t => run_d t (fst (dstep x p)) (dghost x (fst p) given)
  end.

Definition no_blocks (ops : list dop) : bool := forallb (fun x => match x with Plain _ => true | _ => false end) ops.

(* ================================================================== part 5: the TRANSLATED viewer as a second machine
   coq/gen/Gen_viewer.v (regenerated from glue/viewers/common/viewer.py, glue/core/layer_artist.py and
   glue/viewers/common/layer_artist.py on every run) provides Viewer.add_data / remove_data / add_subset / remove_subset /
   remove_layer, the hub handlers with the subscription table of register_to_hub, the two sync callbacks and the container,
   all over its own heap.  Here: the environment (the collection, as in part 1, sending the hub messages the real collection
   sends) and the wire.  Definitions only; C18/GenEquiv*.v prove that this machine makes the steps of part 1. *)

Definition gfuel (h : Gen_viewer.heap) : nat := S (S (S (S (length (Gen_viewer.h_artists h) + length (Gen_viewer.h_layers h))))).
Definition K (h : Gen_viewer.heap) : Gen_viewer.callbacks := Gen_viewer.knot (gfuel h).

(* the viewer reads the collection through session.data_collection and data.subsets *)
Definition load_coll (c : vstate) (h : Gen_viewer.heap) : Gen_viewer.heap :=
  Gen_viewer.mkHeap (Gen_viewer.h_artists h) (Gen_viewer.h_layers h) (dc c) (fun d => map lay (dsubs (subs c) d)) (Gen_viewer.h_size h) (Gen_viewer.h_next h)
           (Gen_viewer.h_delay h) (Gen_viewer.h_old h) (Gen_viewer.h_ignore_change h) (Gen_viewer.h_ignore_empty h) (Gen_viewer.h_warn h) (Gen_viewer.h_err h) (Gen_viewer.h_trace h).

(* hub.broadcast(cls(x)) as far as the viewer is concerned (attribute code 1: not 'style') *)
Definition send (cls : Gen_viewer.mclass) (x : layer) (h : Gen_viewer.heap) : Gen_viewer.heap := Gen_viewer.deliver (K h) (Gen_viewer.mkMsg cls x 1 false) h.

Definition heap_arts (h : Gen_viewer.heap) : list layer := map Gen_viewer.art_layer (Gen_viewer.h_artists h).
Definition heap_sls (h : Gen_viewer.heap) : list layer := map Gen_viewer.ls_layer (Gen_viewer.h_layers h).

(* the collection part of a vstate (arts / sls unused) paired with the heap of the translated viewer *)
Definition gstep (o : op) (p : vstate * Gen_viewer.heap) : (vstate * Gen_viewer.heap) * Z :=
  let c := fst p in
  let h := snd p in
  match o with
  | Append d =>
      if zmem d (dc c) then (p, 0) else
      let nw := new_subs (next c) (map (fun g => (d, g)) (groups c)) in
      let c1 := mkV (fixed c) (dc c ++ [d]) (groups c) (subs c ++ nw) (next c + Z.of_nat (length nw)) [] [] in
      ((c1, fold_left (fun h s => send Gen_viewer.C_SubsetCreateMessage (lay s) h) nw (load_coll c1 h)), 0)
  | Remove d =>
      if negb (zmem d (dc c)) then (p, 0) else
      let sb := if fixed c
                then filter (fun s => negb ((s_d s =? d) && s_live s)) (subs c)
                else map (fun s => if s_d s =? d then unlive s else s) (subs c) in
      let gone := if fixed c then filter (fun s => (s_d s =? d) && s_live s) (subs c) else [] in
      let c1 := mkV (fixed c) (zremove d (dc c)) (groups c) sb (next c) [] [] in
      ((c1, fold_left (fun h s => send Gen_viewer.C_SubsetDeleteMessage (lay s) h) gone
                      (send Gen_viewer.C_DataCollectionDeleteMessage (LData d) (load_coll c1 h))), 0)
  | NewGroup g =>
      if zmem g (groups c) then (p, 0) else
      let nw := new_subs (next c) (map (fun d => (d, g)) (dc c)) in
      let c1 := mkV (fixed c) (dc c) (groups c ++ [g]) (subs c ++ nw) (next c + Z.of_nat (length nw)) [] [] in
      ((c1, fold_left (fun h s => send Gen_viewer.C_SubsetCreateMessage (lay s) h) nw (load_coll c1 h)), 0)
  | RemoveGroup g =>
      if negb (zmem g (groups c)) then (p, 0) else
      let dead := filter (fun s => (s_g s =? g) && s_live s) (subs c) in
      let c1 := mkV (fixed c) (dc c) (zremove g (groups c))
                    (filter (fun s => negb ((s_g s =? g) && s_live s)) (subs c)) (next c) [] [] in
      ((c1, fold_left (fun h s => send Gen_viewer.C_SubsetDeleteMessage (lay s) h) dead (load_coll c1 h)), 0)
  | AddData d =>
      match Gen_viewer.Viewer_add_data (K h) (LData d) h with
      | Gen_viewer.Done _ h' => ((c, h'), 0)
      | Gen_viewer.Raised _ h' => ((c, h'), 1)
      end
  | RemoveData d => ((c, Gen_viewer.Viewer_remove_data (K h) (LData d) h), 0)
  | AddSubset s d g =>
      if zmem d (dc c) && sub_known (subs c) s d g
      then ((c, Gen_viewer.heap_of (Gen_viewer.Viewer_add_subset (K h) (LSub s d g) h)), 0) else (p, 2)
  | RemoveLayer d => ((c, Gen_viewer.Viewer_remove_layer (K h) (LData d) h), 0)
  | SaveRestore =>
      let c1 := mkV (fixed c) (dc c) (groups c) (filter (fun s => zmem (s_d s) (dc c)) (subs c)) (next c) [] [] in
      ((c1, load_coll c1 h), 0)
  end.

(* user-level delay_callback(viewer.state, 'layers') blocks: echo's enter / exit *)
Definition gdstep (x : dop) (p : vstate * Gen_viewer.heap) : (vstate * Gen_viewer.heap) * Z :=
  match x with
  | Plain o => gstep o p
  | LBegin => ((fst p, if Gen_viewer.h_delay (snd p) =? 0 then Gen_viewer.delay_enter (snd p) else snd p), 0)
  | LEnd => ((fst p, if Gen_viewer.h_delay (snd p) =? 0 then snd p else Gen_viewer.delay_exit (K (snd p)) (snd p)), 0)
  end.

Fixpoint grun (ops : list dop) (p : vstate * Gen_viewer.heap) (given : list Z) : (vstate * Gen_viewer.heap) * list Z :=
  match ops with
  | [] => (p, given)
  | x :: t => grun t (fst (gdstep x p)) (dghost x (fst p) given)
  end.

Definition ginit (fx : bool) : vstate * Gen_viewer.heap :=
  (init_v fx, Gen_viewer.mkHeap [] [] [] (fun _ => []) (fun _ => 0) 0 0 [] false false true false []).

(* the observable viewer state of the translated machine, in the shape of part 1 *)
Definition gview (p : vstate * Gen_viewer.heap) : vstate := set_v (fst p) (heap_arts (snd p)) (heap_sls (snd p)).

(* ================================================================== part 2 *)
Inductive choice := CNone | CSep (k d : Z) | CAtt (c : Z).

(* what a non-separator choice stands for as a selection value: None or an attribute *)
Fixpoint atts_of (ch : list choice) : list (option Z) :=
  match ch with
  | [] => []
  | CNone :: t => None :: atts_of t
  | CSep _ _ :: t => atts_of t
  | CAtt c :: t => Some c :: atts_of t
  end.

Definition sel_matches (sel : option Z) (c : choice) : bool :=
  match c, sel with
  | CNone, None => true
  | CAtt x, Some y => x =? y
  | _, _ => false
  end.
Definition sel_in (sel : option Z) (ch : list choice) : bool := existsb (sel_matches sel) ch.

(* Python list indexing with negative indices; None = IndexError *)
Definition py_nth {A} (l : list A) (i : Z) : option A :=
  let n := Z.of_nat (length l) in
  let j := if i <? 0 then i + n else i in
  if (j <? 0) || (j >=? n) then None else nth_error l (Z.to_nat j).

(* echo.SelectionCallbackProperty._choices_updated *)
Definition choices_updated (defidx : Z) (ch : list choice) (sel : option Z) : option Z :=
  match ch with
  | [] => None
  | _ =>
    if sel_in sel ch then sel else
    match atts_of ch with
    | [] => None
    | a0 :: rest =>
      match py_nth (a0 :: rest) defidx with
      | Some a => a
      | None => if defidx >? 0 then last (a0 :: rest) a0 else a0
      end
    end
  end.

(* a dataset as the pickers see it: main components with their kind
   (0 numerical, 1 datetime, 2 categorical), derived components owned by the dataset (with the
   main component each depends on), pixel and world coordinate components *)
Record dinfo := mkD { di_id : Z; di_main : list (Z * Z); di_der : list (Z * Z); di_pix : list Z; di_wor : list Z }.
Record flags := mkF { f_num : bool; f_dt : bool; f_cat : bool; f_pix : bool; f_wor : bool; f_der : bool; f_none : bool }.

Definition kind_ok (fl : flags) (k : Z) : bool :=
  ((k =? 0) && f_num fl) || ((k =? 1) && f_dt fl) || ((k =? 2) && f_cat fl).
Definition mains (fl : flags) (di : dinfo) : list Z := map fst (filter (fun p => kind_ok fl (snd p)) (di_main di)).
Definition coords (fl : flags) (di : dinfo) : list Z :=
  (if f_pix fl then di_pix di else []) ++ (if f_wor fl then di_wor di else []).

(* ComponentIDComboHelper.refresh, one dataset *)
Definition data_choices (fl : flags) (multi : bool) (di : dinfo) : list choice :=
  let ms := mains fl di in
  let ders := map fst (di_der di) in
  (if multi then [CSep 1 (di_id di)] else []) ++
  (if isnil ms then [] else
     (if f_pix fl || f_wor fl || (f_der fl && negb (isnil ders)) then [CSep 2 0] else []) ++ map CAtt ms) ++
  (if f_num fl && f_der fl then (if isnil ders then [] else CSep 3 0 :: map CAtt ders) else []) ++
  (if f_pix fl || f_wor fl then (if isnil (coords fl di) then [] else CSep 4 0 :: map CAtt (coords fl di)) else []).

Fixpoint find_d (d : Z) (ds : list dinfo) : option dinfo :=
  match ds with
  | [] => None
  | di :: t => if di_id di =? d then Some di else find_d d t
  end.

Definition all_choices (fl : flags) (ds : list dinfo) (datas : list Z) : list choice :=
  (if f_none fl then [CNone] else []) ++
  flat_map (fun d => match find_d d ds with
                     | Some di => data_choices fl (1 <? Z.of_nat (length datas)) di
                     | None => [] end) datas.

(* the specification the choices are compared with: the filtered attributes, no separators *)
Definition data_atts (fl : flags) (di : dinfo) : list Z :=
  mains fl di ++ (if f_num fl && f_der fl then map fst (di_der di) else []) ++ coords fl di.
Definition spec_atts (fl : flags) (ds : list dinfo) (datas : list Z) : list (option Z) :=
  (if f_none fl then [None] else []) ++
  map Some (flat_map (fun d => match find_d d ds with Some di => data_atts fl di | None => [] end) datas).

Inductive pmsg := MChanged (d : Z) | MDcRemove (d : Z).

Record pstate := mkP {
  p_ds : list dinfo; p_fl : flags; p_datas : list Z; p_ch : list choice; p_sel : option Z;
  p_def : Z; p_hasdc : bool; p_delay : bool; p_pending : list pmsg;
  p_dc : list Z            (* datasets still in the collection *) }.

Definition refresh (st : pstate) : pstate :=
  let ch := all_choices (p_fl st) (p_ds st) (p_datas st) in
  mkP (p_ds st) (p_fl st) (p_datas st) ch (choices_updated (p_def st) ch (p_sel st))
      (p_def st) (p_hasdc st) (p_delay st) (p_pending st) (p_dc st).

Definition with_datas (st : pstate) (l : list Z) : pstate :=
  mkP (p_ds st) (p_fl st) l (p_ch st) (p_sel st) (p_def st) (p_hasdc st) (p_delay st) (p_pending st) (p_dc st).
Definition with_ds (st : pstate) (l : list dinfo) : pstate :=
  mkP l (p_fl st) (p_datas st) (p_ch st) (p_sel st) (p_def st) (p_hasdc st) (p_delay st) (p_pending st) (p_dc st).
Definition with_fl (st : pstate) (f : flags) : pstate :=
  mkP (p_ds st) f (p_datas st) (p_ch st) (p_sel st) (p_def st) (p_hasdc st) (p_delay st) (p_pending st) (p_dc st).
Definition with_sel (st : pstate) (s : option Z) : pstate :=
  mkP (p_ds st) (p_fl st) (p_datas st) (p_ch st) s (p_def st) (p_hasdc st) (p_delay st) (p_pending st) (p_dc st).
Definition with_queue (st : pstate) (b : bool) (q : list pmsg) : pstate :=
  mkP (p_ds st) (p_fl st) (p_datas st) (p_ch st) (p_sel st) (p_def st) (p_hasdc st) b q (p_dc st).

(* message handlers, with the subscription filters evaluated at delivery time *)
Definition handle (m : pmsg) (st : pstate) : pstate :=
  match m with
  | MChanged d => if zmem d (p_datas st) then refresh st else st
  | MDcRemove d => if p_hasdc st && zmem d (p_datas st) then refresh (with_datas st (zremove d (p_datas st))) else st
  end.
Definition post (m : pmsg) (st : pstate) : pstate :=
  if p_delay st then with_queue st true (p_pending st ++ [m]) else handle m st.

Fixpoint dedup (l : list Z) (seen : list Z) : list Z :=
  match l with
  | [] => []
  | x :: t => if zmem x seen then dedup t seen else x :: dedup t (x :: seen)
  end.

Definition set_flag (fl : flags) (k : Z) (b : bool) : flags :=
  match k with
  | 0 => mkF b (f_dt fl) (f_cat fl) (f_pix fl) (f_wor fl) (f_der fl) (f_none fl)
  | 1 => mkF (f_num fl) b (f_cat fl) (f_pix fl) (f_wor fl) (f_der fl) (f_none fl)
  | 2 => mkF (f_num fl) (f_dt fl) b (f_pix fl) (f_wor fl) (f_der fl) (f_none fl)
  | 3 => mkF (f_num fl) (f_dt fl) (f_cat fl) b (f_wor fl) (f_der fl) (f_none fl)
  | 4 => mkF (f_num fl) (f_dt fl) (f_cat fl) (f_pix fl) b (f_der fl) (f_none fl)
  | 5 => mkF (f_num fl) (f_dt fl) (f_cat fl) (f_pix fl) (f_wor fl) b (f_none fl)
  | _ => mkF (f_num fl) (f_dt fl) (f_cat fl) (f_pix fl) (f_wor fl) (f_der fl) b
  end.

Definition upd_d (d : Z) (f : dinfo -> dinfo) (ds : list dinfo) : list dinfo :=
  map (fun di => if di_id di =? d then f di else di) ds.

Definition rm_comp (c : Z) (di : dinfo) : dinfo :=
  mkD (di_id di) (filter (fun p => negb (fst p =? c)) (di_main di))
      (filter (fun p => negb (fst p =? c)) (di_der di)) (di_pix di) (di_wor di).
Definition dependents (d c : Z) (ds : list dinfo) : list Z :=
  match find_d d ds with
  | Some di => map fst (filter (fun p => snd p =? c) (di_der di))
  | None => []
  end.

Definition reorder (l : list Z) (main : list (Z * Z)) : list (Z * Z) :=
  flat_map (fun c => filter (fun p => fst p =? c) main) l.

Inductive pop :=
| PAppend (d : Z) | PRemove (d : Z) | PSetMultiple (l : list Z) | PClear
| PFlag (k : Z) (b : bool) | PSelect (c : Z)
| DAddMain (d c k : Z) | DAddDer (d c dep : Z) | DRemoveComp (d c : Z) | DReorder (d : Z) (l : list Z) | DRename (d c : Z)
| DcRemove (d : Z) | DelayBegin | DelayEnd.

(* status: 0 ok, 1 ValueError (selection not among the choices) *)
Definition pstep (o : pop) (st : pstate) : pstate * Z :=
  match o with
  | PAppend d => if zmem d (p_datas st) then (st, 0) else (refresh (with_datas st (p_datas st ++ [d])), 0)
  | PRemove d => if zmem d (p_datas st) then (refresh (with_datas st (zremove d (p_datas st))), 0) else (st, 0)
  | PSetMultiple l => (refresh (with_datas st (dedup l [])), 0)
  | PClear => (refresh (with_datas st []), 0)
  | PFlag k b => (refresh (with_fl st (set_flag (p_fl st) k b)), 0)
  | PSelect c => if sel_in (Some c) (p_ch st) then (with_sel st (Some c), 0) else (st, 1)
  | DAddMain d c k =>
      (post (MChanged d) (with_ds st (upd_d d (fun di => mkD (di_id di) (di_main di ++ [(c, k)]) (di_der di) (di_pix di) (di_wor di)) (p_ds st))), 0)
  | DAddDer d c dep =>
      (post (MChanged d) (with_ds st (upd_d d (fun di => mkD (di_id di) (di_main di) (di_der di ++ [(c, dep)]) (di_pix di) (di_wor di)) (p_ds st))), 0)
  | DRemoveComp d c =>
      (* Data.remove_component: the component is popped, then every derived component that depends on it is removed
         (each removal broadcasts its own ComponentsChangedMessage while the later dependents are still there),
         then the message for the component itself goes out *)
      match dependents d c (p_ds st) with
      | [] => (post (MChanged d) (with_ds st (upd_d d (rm_comp c) (p_ds st))), 0)
      | a :: rest =>
        let s1 := post (MChanged d) (with_ds st (upd_d d (fun di => rm_comp a (rm_comp c di)) (p_ds st))) in
        let s2 := fold_left (fun s a' => post (MChanged d) (with_ds s (upd_d d (rm_comp a') (p_ds s)))) rest s1 in
        (post (MChanged d) (with_ds s2 (upd_d d (fun di => di) (p_ds s2))), 0)
      end
  | DReorder d l =>
      (post (MChanged d) (with_ds st (upd_d d (fun di => mkD (di_id di) (reorder l (di_main di)) (di_der di) (di_pix di) (di_wor di)) (p_ds st))), 0)
  | DRename d c => (st, 0)
  | DcRemove d =>
      if zmem d (p_dc st)
      then (post (MDcRemove d) (mkP (p_ds st) (p_fl st) (p_datas st) (p_ch st) (p_sel st) (p_def st) (p_hasdc st)
                                    (p_delay st) (p_pending st) (zremove d (p_dc st))), 0)
      else (st, 0)
  | DelayBegin => (with_queue st true (p_pending st), 0)
  | DelayEnd => (fold_left (fun s m => handle m s) (p_pending st) (with_queue st false []), 0)
  end.

Fixpoint run_p (ops : list pop) (st : pstate) : pstate :=
  match ops with
  | [] => st
  | o :: t => run_p t (fst (pstep o st))
  end.

Definition init_p (ds : list dinfo) (fl : flags) (defidx : Z) (hasdc : bool) : pstate :=
  mkP ds fl [] [] None defidx hasdc false [] (map di_id ds).

(* ================================================================== part 6: the TRANSLATED ComponentIDComboHelper
   coq/gen/Gen_picker.v (regenerated from glue/core/data_combo_helper.py on every run) provides refresh (the list handed to
   `self.choices = ..`), _filter_msg and the subscription table of register_to_hub (dispatch).  The machine below is part 2
   with `refresh` and `handle` replaced by them; echo's _choices_updated, the hub's delay queue and the dataset mutations
   stay as in part 2.  Definitions only; C18/GenPicker.v proves that the two machines agree. *)
Definition to_cid_main (p : Z * Z) : Gen_picker.gcid := Gen_picker.mkCid (fst p) (snd p) false.
Definition to_cid_der (p : Z * Z) : Gen_picker.gcid := Gen_picker.mkCid (fst p) 0 true.      (* owned by the dataset: cid.parent is data *)
Definition to_cid_coord (c : Z) : Gen_picker.gcid := Gen_picker.mkCid c 0 false.
Definition to_gdata (di : dinfo) : Gen_picker.gdata :=
  Gen_picker.mkData (di_id di) (Some 1) (map to_cid_main (di_main di)) (map to_cid_der (di_der di))
                    (map to_cid_coord (di_pix di)) (map to_cid_coord (di_wor di)).
Definition gdatas (ds : list dinfo) (datas : list Z) : list Gen_picker.gdata :=
  flat_map (fun d => match find_d d ds with Some di => [to_gdata di] | None => [] end) datas.
Definition helper_of (st : pstate) : Gen_picker.helper :=
  Gen_picker.mkHelper (f_none (p_fl st)) (f_num (p_fl st)) (f_dt (p_fl st)) (f_cat (p_fl st)) (f_pix (p_fl st)) (f_wor (p_fl st))
                      (f_der (p_fl st)) (gdatas (p_ds st) (p_datas st)) false (p_hasdc st) 0.
Definition of_gchoice (c : Gen_picker.gchoice) : choice :=
  match c with
  | Gen_picker.GNone => CNone
  | Gen_picker.GSepLabel d => CSep 1 d
  | Gen_picker.GSepText k => CSep k 0
  | Gen_picker.GAtt a => CAtt a
  end.

Definition grefresh (st : pstate) : pstate :=
  let ch := map of_gchoice (Gen_picker.ComponentIDComboHelper_refresh (helper_of st)) in
  mkP (p_ds st) (p_fl st) (p_datas st) ch (choices_updated (p_def st) ch (p_sel st))
      (p_def st) (p_hasdc st) (p_delay st) (p_pending st) (p_dc st).

(* the hub hands a message to the helper: class and dataset -> the entry of register_to_hub, its filter, its handler
   (_remove_data = remove_data(msg.data): translated as ComponentIDComboHelper_remove_data, restated in the machine) *)
Definition ghandle (m : pmsg) (st : pstate) : pstate :=
  match m with
  | MChanged d =>
      match Gen_picker.dispatch (helper_of st) Gen_picker.C_ComponentsChangedMessage d with
      | Some Gen_picker.H_refresh => grefresh st
      | _ => st
      end
  | MDcRemove d =>
      match Gen_picker.dispatch (helper_of st) Gen_picker.C_DataCollectionDeleteMessage d with
      | Some Gen_picker.H__remove_data => if zmem d (p_datas st) then grefresh (with_datas st (zremove d (p_datas st))) else st
      | _ => st
      end
  end.

(* part 2's pstep over an arbitrary refresh R and message handler Hd *)
Definition post_with (Hd : pmsg -> pstate -> pstate) (m : pmsg) (st : pstate) : pstate :=
  if p_delay st then with_queue st true (p_pending st ++ [m]) else Hd m st.
Definition pstep_with (R : pstate -> pstate) (Hd : pmsg -> pstate -> pstate) (o : pop) (st : pstate) : pstate * Z :=
  match o with
  | PAppend d => if zmem d (p_datas st) then (st, 0) else (R (with_datas st (p_datas st ++ [d])), 0)
  | PRemove d => if zmem d (p_datas st) then (R (with_datas st (zremove d (p_datas st))), 0) else (st, 0)
  | PSetMultiple l => (R (with_datas st (dedup l [])), 0)
  | PClear => (R (with_datas st []), 0)
  | PFlag k b => (R (with_fl st (set_flag (p_fl st) k b)), 0)
  | PSelect c => if sel_in (Some c) (p_ch st) then (with_sel st (Some c), 0) else (st, 1)
  | DAddMain d c k =>
      (post_with Hd (MChanged d) (with_ds st (upd_d d (fun di => mkD (di_id di) (di_main di ++ [(c, k)]) (di_der di) (di_pix di) (di_wor di)) (p_ds st))), 0)
  | DAddDer d c dep =>
      (post_with Hd (MChanged d) (with_ds st (upd_d d (fun di => mkD (di_id di) (di_main di) (di_der di ++ [(c, dep)]) (di_pix di) (di_wor di)) (p_ds st))), 0)
  | DRemoveComp d c =>
      match dependents d c (p_ds st) with
      | [] => (post_with Hd (MChanged d) (with_ds st (upd_d d (rm_comp c) (p_ds st))), 0)
      | a :: rest =>
        let s1 := post_with Hd (MChanged d) (with_ds st (upd_d d (fun di => rm_comp a (rm_comp c di)) (p_ds st))) in
        let s2 := fold_left (fun s a' => post_with Hd (MChanged d) (with_ds s (upd_d d (rm_comp a') (p_ds s)))) rest s1 in
        (post_with Hd (MChanged d) (with_ds s2 (upd_d d (fun di => di) (p_ds s2))), 0)
      end
  | DReorder d l =>
      (post_with Hd (MChanged d) (with_ds st (upd_d d (fun di => mkD (di_id di) (reorder l (di_main di)) (di_der di) (di_pix di) (di_wor di)) (p_ds st))), 0)
  | DRename d c => (st, 0)
  | DcRemove d =>
      if zmem d (p_dc st)
      then (post_with Hd (MDcRemove d) (mkP (p_ds st) (p_fl st) (p_datas st) (p_ch st) (p_sel st) (p_def st) (p_hasdc st)
                                          (p_delay st) (p_pending st) (zremove d (p_dc st))), 0)
      else (st, 0)
  | DelayBegin => (with_queue st true (p_pending st), 0)
  | DelayEnd => (fold_left (fun s m => Hd m s) (p_pending st) (with_queue st false []), 0)
  end.
Definition gpstep : pop -> pstate -> pstate * Z := pstep_with grefresh ghandle.
Fixpoint run_gp (ops : list pop) (st : pstate) : pstate :=
  match ops with
  | [] => st
  | o :: t => run_gp t (fst (gpstep o st))
  end.
(* every dataset the history hands to the helper is one of the datasets of the configuration *)
Definition pops_known (ids : list Z) (ops : list pop) : bool :=
  forallb (fun o => match o with
                    | PAppend d => zmem d ids
                    | PSetMultiple l => forallb (fun d => zmem d ids) l
                    | _ => true
                    end) ops.

(* ================================================================== part 3 *)
(* ManualDataComboHelper (manual = true: own list, collection removal prunes it) and
   DataCollectionComboHelper (manual = false: the choices are the collection itself) *)
Record dpstate := mkDP { dp_manual : bool; dp_dc : list Z; dp_list : list Z; dp_ch : list choice; dp_sel : option Z }.

Definition dp_source (st : dpstate) : list Z := if dp_manual st then dp_list st else dp_dc st.
Definition dp_refresh (st : dpstate) : dpstate :=
  let ch := map CAtt (dp_source st) in
  mkDP (dp_manual st) (dp_dc st) (dp_list st) ch (choices_updated 0 ch (dp_sel st)).

Inductive dpop := DPAppend (d : Z) | DPRemove (d : Z) | DPSetMultiple (l : list Z) | DPSelect (d : Z)
                | DPDcAdd (d : Z) | DPDcRemove (d : Z).

Definition dpstep (o : dpop) (st : dpstate) : dpstate * Z :=
  match o with
  | DPAppend d => if negb (dp_manual st) || zmem d (dp_list st) then (st, 0)
                  else (dp_refresh (mkDP true (dp_dc st) (dp_list st ++ [d]) (dp_ch st) (dp_sel st)), 0)
  | DPRemove d => if dp_manual st && zmem d (dp_list st)
                  then (dp_refresh (mkDP true (dp_dc st) (zremove d (dp_list st)) (dp_ch st) (dp_sel st)), 0) else (st, 0)
  | DPSetMultiple l => if dp_manual st then (dp_refresh (mkDP true (dp_dc st) (dedup l []) (dp_ch st) (dp_sel st)), 0) else (st, 0)
  | DPSelect d => if sel_in (Some d) (dp_ch st) then (mkDP (dp_manual st) (dp_dc st) (dp_list st) (dp_ch st) (Some d), 0) else (st, 1)
  | DPDcAdd d =>
      if zmem d (dp_dc st) then (st, 0) else
      let st1 := mkDP (dp_manual st) (dp_dc st ++ [d]) (dp_list st) (dp_ch st) (dp_sel st) in
      (if dp_manual st then st1 else dp_refresh st1, 0)
  | DPDcRemove d =>
      if negb (zmem d (dp_dc st)) then (st, 0) else
      let st1 := mkDP (dp_manual st) (zremove d (dp_dc st)) (dp_list st) (dp_ch st) (dp_sel st) in
      if dp_manual st
      then (if zmem d (dp_list st) then dp_refresh (mkDP true (dp_dc st1) (zremove d (dp_list st)) (dp_ch st) (dp_sel st)) else st1, 0)
      else (dp_refresh st1, 0)
  end.

Fixpoint run_dp (ops : list dpop) (st : dpstate) : dpstate :=
  match ops with
  | [] => st
  | o :: t => run_dp t (fst (dpstep o st))
  end.
Definition init_dp (manual : bool) (dcl : list Z) : dpstate :=
  let st := mkDP manual dcl [] [] None in if manual then st else dp_refresh st.

(* ================================================================== part 7: the TRANSLATED dataset pickers
   ManualDataComboHelper.append_data / remove_data / set_multiple_data, unique_data_iter, BaseDataComboHelper.refresh /
   _on_data_update and the two subscription tables (coq/gen/Gen_picker.v, second half) in place of the hand-written cases of
   part 3; the collection and echo's selection rule stay as in part 3.  C18/GenDPicker.v proves the two machines equal. *)
Definition dh_of (st : dpstate) : Gen_picker.dhelper := Gen_picker.mkDH (dp_source st) 0.
(* the helper after a translated procedure: its dataset list (a manual helper owns it), and a refresh of the choices if one was made *)
Definition dp_apply (st : dpstate) (h' : Gen_picker.dhelper) : dpstate :=
  let st1 := if dp_manual st then mkDP true (dp_dc st) (Gen_picker.dh_datasets h') (dp_ch st) (dp_sel st) else st in
  if 0 <? Gen_picker.dh_refreshes h' then dp_refresh st1 else st1.
Definition dp_deliver (st : dpstate) (c : Gen_picker.dclass) (m : Gen_picker.dmsg) : dpstate :=
  dp_apply st (if dp_manual st then Gen_picker.ManualDataComboHelper_deliver (dh_of st) c m
               else Gen_picker.DataCollectionComboHelper_deliver (dh_of st) c m).

Definition gdpstep (o : dpop) (st : dpstate) : dpstate * Z :=
  match o with
  | DPAppend d => if dp_manual st then (dp_apply st (Gen_picker.ManualDataComboHelper_append_data (dh_of st) d true), 0) else (st, 0)
  | DPRemove d => if dp_manual st then (dp_apply st (Gen_picker.ManualDataComboHelper_remove_data (dh_of st) d), 0) else (st, 0)
  | DPSetMultiple l => if dp_manual st then (dp_apply st (Gen_picker.ManualDataComboHelper_set_multiple_data (dh_of st) l), 0) else (st, 0)
  | DPSelect d => if sel_in (Some d) (dp_ch st) then (mkDP (dp_manual st) (dp_dc st) (dp_list st) (dp_ch st) (Some d), 0) else (st, 1)
  | DPDcAdd d =>
      if zmem d (dp_dc st) then (st, 0) else
      let st1 := mkDP (dp_manual st) (dp_dc st ++ [d]) (dp_list st) (dp_ch st) (dp_sel st) in
      (dp_deliver st1 Gen_picker.D_DataCollectionAddMessage (Gen_picker.mkDMsg true (-1) d false), 0)
  | DPDcRemove d =>
      if negb (zmem d (dp_dc st)) then (st, 0) else
      let st1 := mkDP (dp_manual st) (zremove d (dp_dc st)) (dp_list st) (dp_ch st) (dp_sel st) in
      (dp_deliver st1 Gen_picker.D_DataCollectionDeleteMessage (Gen_picker.mkDMsg true (-1) d false), 0)
  end.
Fixpoint run_gdp (ops : list dpop) (st : dpstate) : dpstate :=
  match ops with
  | [] => st
  | o :: t => run_gdp t (fst (gdpstep o st))
  end.

(* ================================================================== part 4 *)
(* image viewer axes, as axis numbers of the reference dataset (n dimensions).
   x, y index pixel_component_ids; xw, yw index the choices of x_att_world / y_att_world
   (world_component_ids when the data has coords, else pixel_component_ids) *)
Record axes := mkA { a_n : Z; a_x : Z; a_y : Z; a_xw : Z; a_yw : Z }.

Definition other_axis (n v : Z) : Z := if v =? n - 1 then n - 2 else n - 1.

(* _on_xatt_world_change followed by the forced _on_yatt_world_change *)
Definition on_xw (a : axes) : axes :=
  let yw := if a_xw a =? a_yw a then other_axis (a_n a) (a_xw a) else a_yw a in
  mkA (a_n a) (a_xw a) yw (a_xw a) yw.
Definition on_yw (a : axes) : axes :=
  let xw := if a_yw a =? a_xw a then other_axis (a_n a) (a_yw a) else a_xw a in
  mkA (a_n a) xw (a_yw a) xw (a_yw a).

Inductive aop := SetX (v : Z) | SetY (v : Z) | SetXW (v : Z) | SetYW (v : Z) | SetRef (n : Z).

Definition in_range (n v : Z) : bool := (0 <=? v) && (v <? n).

(* status 0 ok, 1 = value is not an axis of the reference data (rejected / outside the domain) *)
Definition astep (o : aop) (a : axes) : axes * Z :=
  match o with
  | SetXW v => if negb (in_range (a_n a) v) then (a, 1) else
               if v =? a_xw a then (a, 0) else (on_xw (mkA (a_n a) (a_x a) (a_y a) v (a_yw a)), 0)
  | SetYW v => if negb (in_range (a_n a) v) then (a, 1) else
               if v =? a_yw a then (a, 0) else (on_yw (mkA (a_n a) (a_x a) (a_y a) (a_xw a) v), 0)
  | SetX v => if negb (in_range (a_n a) v) then (a, 1) else
              if v =? a_x a then (a, 0) else
              (* _on_xatt_change sets x_att_world; nothing more happens when that is not a change *)
              if v =? a_xw a then (mkA (a_n a) v (a_y a) (a_xw a) (a_yw a), 0)
              else (on_xw (mkA (a_n a) v (a_y a) v (a_yw a)), 0)
  | SetY v => if negb (in_range (a_n a) v) then (a, 1) else
              if v =? a_y a then (a, 0) else
              if v =? a_yw a then (mkA (a_n a) (a_x a) v (a_xw a) (a_yw a), 0)
              else (on_yw (mkA (a_n a) (a_x a) v (a_xw a) v), 0)
  | SetRef n => if n <? 2 then (a, 1) else (mkA n (n - 1) (n - 2) (n - 1) (n - 2), 0)
  end.

Definition init_a (n : Z) : axes := mkA n (n - 1) (n - 2) (n - 1) (n - 2).

Fixpoint run_a (ops : list aop) (a : axes) : axes :=
  match ops with
  | [] => a
  | o :: t => run_a t (fst (astep o a))
  end.

(* ================================================================== specifications used by the theorems *)
(* the attributes among the choices (separators and the None entry dropped) *)
Fixpoint attrs_of (ch : list choice) : list Z :=
  match ch with
  | [] => []
  | CAtt c :: t => c :: attrs_of t
  | _ :: t => attrs_of t
  end.
(* the filtered attributes of the picker's datasets, straight from the datasets *)
Definition spec_cids (fl : flags) (ds : list dinfo) (datas : list Z) : list Z :=
  flat_map (fun d => match find_d d ds with Some di => data_atts fl di | None => [] end) datas.
(* the selection is one of the offered values; nothing is selected only if None is offered or nothing is *)
Definition sel_ok (ch : list choice) (sel : option Z) : Prop :=
  match sel with
  | Some c => In (CAtt c) ch
  | None => In CNone ch \/ atts_of ch = []
  end.
Definition axes_ok (a : axes) : Prop :=
  0 <= a_x a < a_n a /\ 0 <= a_y a < a_n a /\ a_x a <> a_y a /\ a_xw a = a_x a /\ a_yw a = a_y a.

(* ================================================================== wire *)
Definition dec_op (t : tree) : op :=
  match t with
  | T 1 [T d _] => Append d
  | T 2 [T d _] => Remove d
  | T 3 [T g _] => NewGroup g
  | T 4 [T g _] => RemoveGroup g
  | T 5 [T d _] => AddData d
  | T 6 [T d _] => RemoveData d
  | T 7 [T d _; T g _; T k _] => AddSubset k d g      (* resolved against the state in trace_v *)
  | T 9 [T d _] => RemoveLayer d
  | _ => SaveRestore
  end.

(* subsets travel as (dataset, group, rank among the dataset's subsets of that group) *)
Definition rank_of (sb : list sub) (s : sub) : Z :=
  Z.of_nat (length (filter (fun x => (s_d x =? s_d s) && (s_g x =? s_g s) && (s_id x <? s_id s)) sb)).
Definition find_sub (sb : list sub) (d g k : Z) : option sub :=
  find (fun x => (s_d x =? d) && (s_g x =? g) && (rank_of sb x =? k)) sb.
Definition find_sid (sb : list sub) (sid : Z) : option sub := find (fun x => s_id x =? sid) sb.

Definition enc_layer (sb : list sub) (l : layer) : tree :=
  match l with
  | LData d => T 0 [leaf d]
  | LSub s d g =>
      match find_sid sb s with
      | Some x => T 1 [leaf d; leaf g; leaf (rank_of sb x)]
      | None => T 1 [leaf d; leaf g; leaf (-1)]
      end
  end.

Definition enc_vstate (known : list Z) (status : Z) (st : vstate) : tree :=
  T status [ T 0 (map (enc_layer (subs st)) (arts st));
             T 0 (map (enc_layer (subs st)) (sls st));
             zs (dc st); zs (groups st);
             T 0 (map (fun d => T d (map (fun s => T 0 [leaf (s_g s); leaf (of_bool (s_live s))]) (dsubs (subs st) d))) known) ].

Definition resolve_op (st : vstate) (o : op) : op :=
  match o with
  | AddSubset k d g => match find_sub (subs st) d g k with Some x => AddSubset (s_id x) d g | None => AddSubset (-1) d g end
  | _ => o
  end.

Definition dec_dop (t : tree) : dop :=
  match t with
  | T 10 _ => LBegin
  | T 11 _ => LEnd
  | _ => Plain (dec_op t)
  end.
Definition resolve_dop (st : vstate) (x : dop) : dop :=
  match x with Plain o => Plain (resolve_op st o) | _ => x end.

Fixpoint trace_v (known : list Z) (ops : list dop) (p : vstate * option (list layer)) (given : list Z) : list tree :=
  match ops with
  | [] => []
  | x :: t =>
    let x' := resolve_dop (fst p) x in
    let '(p', status) := dstep x' p in
    let given' := dghost x' (fst p) given in
    T 0 [enc_vstate known status (fst p'); zs given'] :: trace_v known t p' given'
  end.

Definition enc_event (e : Gen_viewer.event) : tree :=
  match e with
  | Gen_viewer.EDrawLegend => T 1 []
  | Gen_viewer.EUpdate l => T 2 [T 0 [leaf (layer_data l); leaf (match l with LData _ => -1 | LSub _ _ g => g end)]]
  | Gen_viewer.EArtistRemove l => T 3 [T 0 [leaf (layer_data l); leaf (match l with LData _ => -1 | LSub _ _ g => g end)]]
  | Gen_viewer.EOnComponentsChanged l => T 4 [T 0 [leaf (layer_data l); leaf (match l with LData _ => -1 | LSub _ _ g => g end)]]
  | Gen_viewer.EWarn => T 5 []
  end.
Definition clear_trace (h : Gen_viewer.heap) : Gen_viewer.heap :=
  Gen_viewer.mkHeap (Gen_viewer.h_artists h) (Gen_viewer.h_layers h) (Gen_viewer.h_dc h) (Gen_viewer.h_subsets h) (Gen_viewer.h_size h) (Gen_viewer.h_next h)
           (Gen_viewer.h_delay h) (Gen_viewer.h_old h) (Gen_viewer.h_ignore_change h) (Gen_viewer.h_ignore_empty h) (Gen_viewer.h_warn h) (Gen_viewer.h_err h) [].

(* wire-level operations of the translated machine only: a history step, or the update messages the hub carried during one
   step of the implementation (SubsetUpdateMessage 1, NumericalDataChangedMessage 2, ComponentsChangedMessage 3,
   ExternallyDerivableComponentsChangedMessage 4; sender = dataset d (g < 0) or the k-th subset of d in group g; attribute code
   0 = 'style'; has the message a components_changed attribute).  They have no structural effect (the hand model does not see
   them); the translated _update_subset / _update_data / _update_data_numerical answer with artist.update() calls on the trace. *)
Inductive gwop := GD (x : dop) | GMsgs (ms : list (Z * (Z * Z * Z) * Z * bool)).
Definition dec_gmsg (t : tree) : Z * (Z * Z * Z) * Z * bool :=
  match t with
  | T cls [T d _; T g _; T k _; T attr _; T cc _] => (cls, (d, g, k), attr, negb (cc =? 0))
  | _ => (0, (0, 0, 0), 0, false)
  end.
Definition dec_gwop (t : tree) : gwop :=
  match t with
  | T 12 ms => GMsgs (map dec_gmsg ms)
  | _ => GD (dec_dop t)
  end.
Definition gclass_of (c : Z) : Gen_viewer.mclass :=
  match c with
  | 1 => Gen_viewer.C_SubsetUpdateMessage
  | 2 => Gen_viewer.C_NumericalDataChangedMessage
  | 3 => Gen_viewer.C_ComponentsChangedMessage
  | _ => Gen_viewer.C_ExternallyDerivableComponentsChangedMessage
  end.
Definition resolve_layer (sb : list sub) (dgk : Z * Z * Z) : layer :=
  let '(d, g, k) := dgk in
  if g <? 0 then LData d else match find_sub sb d g k with Some x => lay x | None => LSub (-1) d g end.
Definition deliver_update (c : vstate) (m : Z * (Z * Z * Z) * Z * bool) (h : Gen_viewer.heap) : Gen_viewer.heap :=
  let '(cls, dgk, attr, cc) := m in
  Gen_viewer.deliver (K h) (Gen_viewer.mkMsg (gclass_of cls) (resolve_layer (subs c) dgk) attr cc) h.

Fixpoint gtrace_v (known : list Z) (ops : list gwop) (p : vstate * Gen_viewer.heap) (given : list Z) : list tree :=
  match ops with
  | [] => []
  | GD x :: t =>
    let x' := resolve_dop (fst p) x in
    let p0 := (fst p, clear_trace (snd p)) in
    let '(p', status) := gdstep x' p0 in
    let given' := dghost x' (fst p) given in
    T 0 [enc_vstate known status (gview p'); zs given';
         T (of_bool (Gen_viewer.h_err (snd p'))) (map enc_event (Gen_viewer.h_trace (snd p')))] :: gtrace_v known t p' given'
  | GMsgs ms :: t =>
    let p' := (fst p, fold_left (fun h m => deliver_update (fst p) m h) ms (clear_trace (snd p))) in
    T 0 [enc_vstate known 0 (gview p'); zs given;
         T (of_bool (Gen_viewer.h_err (snd p'))) (map enc_event (Gen_viewer.h_trace (snd p')))] :: gtrace_v known t p' given
  end.

Definition dec_pair (t : tree) : Z * Z := (tag (kid 0 t), tag (kid 1 t)).
Definition dec_dinfo (t : tree) : dinfo :=
  mkD (tag (kid 0 t)) (map dec_pair (kids (kid 1 t))) (map dec_pair (kids (kid 2 t))) (to_zs (kid 3 t)) (to_zs (kid 4 t)).
Definition dec_flags (t : tree) : flags :=
  match to_bools t with
  | [a; b; c; d; e; f; g] => mkF a b c d e f g
  | _ => mkF true true true false false true false
  end.
Definition nz (t : tree) : bool := negb (tag t =? 0).

Definition dec_pop (t : tree) : pop :=
  match t with
  | T 1 [T d _] => PAppend d
  | T 2 [T d _] => PRemove d
  | T 3 [l] => PSetMultiple (to_zs l)
  | T 4 _ => PClear
  | T 5 [T k _; b] => PFlag k (nz b)
  | T 6 [T c _] => PSelect c
  | T 7 [T d _; T c _; T k _] => DAddMain d c k
  | T 8 [T d _; T c _; T dep _] => DAddDer d c dep
  | T 9 [T d _; T c _] => DRemoveComp d c
  | T 10 [T d _; l] => DReorder d (to_zs l)
  | T 11 [T d _; T c _] => DRename d c
  | T 12 [T d _] => DcRemove d
  | T 13 _ => DelayBegin
  | _ => DelayEnd
  end.

Definition enc_choice (c : choice) : tree :=
  match c with CNone => T 0 [] | CSep k d => T 1 [leaf k; leaf d] | CAtt a => T 2 [leaf a] end.
Definition enc_pstate (status : Z) (st : pstate) : tree :=
  T status [T 0 (map enc_choice (p_ch st)); of_opt_z (p_sel st); zs (p_datas st)].

Fixpoint trace_p (ops : list pop) (st : pstate) : list tree :=
  match ops with
  | [] => []
  | o :: t => let '(st', status) := pstep o st in enc_pstate status st' :: trace_p t st'
  end.

Fixpoint gtrace_p (ops : list pop) (st : pstate) : list tree :=
  match ops with
  | [] => []
  | o :: t => let '(st', status) := gpstep o st in enc_pstate status st' :: gtrace_p t st'
  end.

Definition dec_dpop (t : tree) : dpop :=
  match t with
  | T 1 [T d _] => DPAppend d
  | T 2 [T d _] => DPRemove d
  | T 3 [l] => DPSetMultiple (to_zs l)
  | T 4 [T d _] => DPSelect d
  | T 5 [T d _] => DPDcAdd d
  | T _ (T d _ :: _) => DPDcRemove d
  | _ => DPDcRemove (-1)
  end.
Fixpoint trace_dp (ops : list dpop) (st : dpstate) : list tree :=
  match ops with
  | [] => []
  | o :: t => let '(st', status) := dpstep o st in
              T status [T 0 (map enc_choice (dp_ch st')); of_opt_z (dp_sel st')] :: trace_dp t st'
  end.

Fixpoint gtrace_dp (ops : list dpop) (st : dpstate) : list tree :=
  match ops with
  | [] => []
  | o :: t => let '(st', status) := gdpstep o st in
              T status [T 0 (map enc_choice (dp_ch st')); of_opt_z (dp_sel st')] :: gtrace_dp t st'
  end.

Definition dec_aop (t : tree) : aop :=
  match t with
  | T 1 [T v _] => SetX v
  | T 2 [T v _] => SetY v
  | T 3 [T v _] => SetXW v
  | T 4 [T v _] => SetYW v
  | T _ (T n _ :: _) => SetRef n
  | _ => SetRef 0
  end.
Fixpoint trace_a (ops : list aop) (a : axes) : list tree :=
  match ops with
  | [] => []
  | o :: t => let '(a', status) := astep o a in
              T status [leaf (a_x a'); leaf (a_y a'); leaf (a_xw a'); leaf (a_yw a')] :: trace_a t a'
  end.

Definition run_case (t : tree) : tree :=
  match t with
  | T 1 [fx; known; T _ ops] => T 0 (trace_v (to_zs known) (map dec_dop ops) (init_v (nz fx), None) [])
  | T 2 [T _ ds; fl; T defidx _; hasdc; T _ ops] =>
      T 0 (trace_p (map dec_pop ops) (init_p (map dec_dinfo ds) (dec_flags fl) defidx (nz hasdc)))
  | T 3 [manual; dcl; T _ ops] => T 0 (trace_dp (map dec_dpop ops) (init_dp (nz manual) (to_zs dcl)))
  | T 4 [T n _; T _ ops] => T 0 (trace_a (map dec_aop ops) (init_a n))
  | T 7 [manual; dcl; T _ ops] => T 0 (gtrace_dp (map dec_dpop ops) (init_dp (nz manual) (to_zs dcl)))     (* the translated dataset pickers *)
  | T 6 [T _ ds; fl; T defidx _; hasdc; T _ ops] =>      (* the translated ComponentIDComboHelper *)
      T 0 (gtrace_p (map dec_pop ops) (init_p (map dec_dinfo ds) (dec_flags fl) defidx (nz hasdc)))
  | T 5 [fx; known; T _ ops] => T 0 (gtrace_v (to_zs known) (map dec_gwop ops) (ginit (nz fx)) [])     (* the translated viewer *)
  | _ => err (-2)
  end.
