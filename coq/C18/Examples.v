(* C18 — non-vacuity examples and sanity runs of the executable model *)
From Coq Require Import ZArith List Bool.
Import ListNotations.
From GV Require Import Common.Wire C18.Model C18.Lemmas.
Open Scope Z_scope.

(* ---- part 1: a history with re-append after removal, group creation / removal, save / restore ---- *)
Definition hist1 : list op :=
  [Append 0; Append 1; NewGroup 0; AddData 0; AddData 1; NewGroup 1; Remove 0; Append 0; AddData 0; RemoveGroup 0; SaveRestore; RemoveData 1].

(* tree without the C06 repair: dataset 0 keeps the stray subsets 0 and 2 of groups 0 and 1 after remove/append;
   group 0's removal deletes only its live subsets, so the stray subset 0 of the dead group stays (and has a layer) *)
Example run_unfixed :
  let st := fst (run_v hist1 (init_v false) []) in
  (arts st, sls st, snd (run_v hist1 (init_v false) [])) =
  ([LData 0; LSub 0 0 0; LSub 2 0 1; LSub 5 0 1], [LData 0; LSub 0 0 0; LSub 2 0 1; LSub 5 0 1], [0]).
Proof. vm_compute. reflexivity. Qed.

(* repaired tree: one subset per live group *)
Example run_fixed :
  let st := fst (run_v hist1 (init_v true) []) in
  (arts st, snd (run_v hist1 (init_v true) []), groups st) = ([LData 0; LSub 5 0 1], [0], [1]).
Proof. vm_compute. reflexivity. Qed.

(* the theorem applies to a state with several layers: not vacuous *)
Example viewer_nonvacuous :
  let st := fst (run_v [Append 0; Append 1; NewGroup 0; AddData 0; AddData 1; NewGroup 1] (init_v true) []) in
  length (arts st) = 6%nat /\ sls st = arts st.
Proof. vm_compute. split; reflexivity. Qed.

(* add_data of a dataset that is not in the collection is refused (status 1) and changes nothing *)
Example add_data_refused : step (AddData 3) (init_v true) = (init_v true, 1).
Proof. reflexivity. Qed.

(* a subset layer without its dataset's layer: handed over alone (sub 0 of dataset 0), or left behind by remove_layer
   (sub 1 of dataset 1); deleting the group removes both, although neither dataset has a layer *)
Example lone_subset_layers :
  let h := [Append 0; Append 1; NewGroup 0; AddSubset 0 0 0; AddData 1; RemoveLayer 1] in
  (arts (fst (run_v h (init_v true) [])), snd (run_v h (init_v true) []),
   arts (fst (run_v (h ++ [RemoveGroup 0]) (init_v true) []))) = ([LSub 0 0 0; LSub 1 1 0], [], []).
Proof. vm_compute. reflexivity. Qed.

(* a dataset swap inside one delay block on state.layers: inside the block the artist of dataset 0 is still there, at the
   block exit it is pruned *)
Example block_swap :
  let h := [Plain (Append 0); Plain (Append 1); Plain (AddData 0); LBegin; Plain (RemoveData 0); Plain (AddData 1)] in
  (arts (fst (fst (run_d h (init_v true, None) []))), sls (fst (fst (run_d h (init_v true, None) []))),
   arts (fst (fst (run_d (h ++ [LEnd]) (init_v true, None) [])))) = ([LData 0; LData 1], [LData 1], [LData 1]).
Proof. vm_compute. reflexivity. Qed.

(* ---- part 2: the selected attribute is removed inside a hub delay block ---- *)
Definition ds1 : list dinfo := [mkD 0 [(10, 0); (11, 2); (12, 0)] [] [13] []; mkD 1 [(20, 0)] [] [21] []].
Definition fl1 : flags := mkF true true true false false true false.

Example picker_delay :
  let st := run_p [PAppend 0; PSelect 11; DelayBegin; DRemoveComp 0 11; DAddMain 0 14 2] (init_p ds1 fl1 0 true) in
  (* inside the block: the data changed, the message is queued, the picker still shows the old choices *)
  (attrs_of (p_ch st), p_sel st, p_pending st) = ([10; 11; 12], Some 11, [MChanged 0; MChanged 0]).
Proof. vm_compute. reflexivity. Qed.

Example picker_delay_end :
  let st := run_p [PAppend 0; PSelect 11; DelayBegin; DRemoveComp 0 11; DAddMain 0 14 2; DelayEnd] (init_p ds1 fl1 0 true) in
  (attrs_of (p_ch st), p_sel st, p_pending st) = ([10; 12; 14], Some 10, []).
Proof. vm_compute. reflexivity. Qed.

(* two datasets: separators carry the dataset label; filters drop the categorical attribute *)
Example picker_two_datasets :
  p_ch (run_p [PSetMultiple [1; 0; 1]; PFlag 2 false] (init_p ds1 fl1 1 false)) =
  [CSep 1 1; CAtt 20; CSep 1 0; CAtt 10; CAtt 12].
Proof. vm_compute. reflexivity. Qed.

(* default_index beyond the end falls back to the last attribute, negative indices count from the end *)
Example picker_default_index :
  (p_sel (run_p [PAppend 0] (init_p ds1 fl1 5 false)), p_sel (run_p [PAppend 0] (init_p ds1 fl1 (-2) false))) = (Some 12, Some 11).
Proof. vm_compute. reflexivity. Qed.

(* an explicit selection that is not offered is rejected *)
Example picker_reject : snd (pstep (PSelect 20) (run_p [PAppend 0] (init_p ds1 fl1 0 false))) = 1.
Proof. vm_compute. reflexivity. Qed.

(* ---- part 4 ---- *)
Example axes_run :
  let a := run_a [SetXW 1; SetY 1; SetX 0; SetYW 0] (init_a 3) in (a_x a, a_y a, a_xw a, a_yw a) = (2, 0, 2, 0).
Proof. vm_compute. reflexivity. Qed.

(* the hypothesis 2 <= n of image_axes_distinct is needed: a 1-d reference dataset has no two distinct axes *)
Example axes_1d_counterexample : let a := init_a 1 in ~ (0 <= a_y a < a_n a).
Proof. vm_compute. intros [H _]. apply H. reflexivity. Qed.

(* removing a component on which two derived components depend: the first dependent's removal is announced while the
   second is still there, so a selection that falls on the second one (default_index 5 -> last attribute) is replaced again *)
Definition ds2 : list dinfo := [mkD 0 [(0, 0); (1, 2)] [(7, 0); (9, 0)] [2] []].
Example picker_cascade :
  let st := run_p [PAppend 0; PSelect 7; DRemoveComp 0 0] (init_p ds2 fl1 5 false) in
  (attrs_of (p_ch st), p_sel st) = ([1], Some 1).
Proof. vm_compute. reflexivity. Qed.

(* ---- the translated machine (Model.v part 5 over coq/gen/Gen_viewer.v) ---- *)
Definition gen_demo_ops : list dop :=
  [Plain (Append 0); Plain (NewGroup 7); Plain (AddData 0); Plain (Append 1); Plain (NewGroup 8); Plain (AddSubset 3 1 8)].
(* the hypothesis of gen_viewer_inv_reachable holds; the viewer ends with 4 layers (dataset 0, its two subsets, the lone
   subset of dataset 1), layer states in step, no fuel exhaustion *)
Example gen_demo_plain : no_blocks gen_demo_ops = true.
Proof. reflexivity. Qed.
Example gen_demo_layers :
  let r := grun gen_demo_ops (ginit true) [] in
  arts (gview (fst r)) = [LData 0; LSub 0 0 7; LSub 2 0 8; LSub 3 1 8] /\
  sls (gview (fst r)) = arts (gview (fst r)) /\ snd r = [0] /\ Gen_viewer.h_err (snd (fst r)) = false.
Proof. vm_compute. repeat split. Qed.
(* the same history on the hand model: same layers *)
Example gen_demo_hand :
  arts (fst (fst (run_d gen_demo_ops (init_v true, None) []))) = [LData 0; LSub 0 0 7; LSub 2 0 8; LSub 3 1 8].
Proof. vm_compute. reflexivity. Qed.
(* removal through the translated functions: remove_data prunes state.layers inside its delay block and the container
   through the held-back 'layers' callback *)
Example gen_demo_remove :
  let r := grun (gen_demo_ops ++ [Plain (RemoveData 0)]) (ginit true) [] in
  arts (gview (fst r)) = [LSub 3 1 8] /\ sls (gview (fst r)) = [LSub 3 1 8] /\ Gen_viewer.h_err (snd (fst r)) = false.
Proof. vm_compute. repeat split. Qed.
(* grel is inhabited beyond the initial state *)
Example gen_demo_rel : grel (fst (step (Append 0) (init_v true))) (fst (gstep (Append 0) (ginit true))).
Proof. apply (gen_step_refines (Append 0)). apply grel_init. Qed.

(* ---- the translated picker machine (Model.v part 6 over coq/gen/Gen_picker.v) ---- *)
Definition gp_ds : list dinfo := [mkD 0 [(10, 0); (11, 2)] [(12, 10)] [13; 14] [15; 16]; mkD 1 [(20, 1)] [] [21] []].
Definition gp_ops : list pop := [PAppend 0; PAppend 1; PFlag 3 true; DRemoveComp 0 10; PSelect 11; DcRemove 0].
Example gp_known : pops_known (map di_id gp_ds) gp_ops = true.
Proof. reflexivity. Qed.
Example gp_run :
  let st := run_gp gp_ops (init_p gp_ds (mkF true true true false false true false) 0 true) in
  p_datas st = [1] /\ attrs_of (p_ch st) = [20; 21] /\ p_sel st = Some 20.
Proof. vm_compute. repeat split. Qed.
Example gp_same_as_hand :
  run_gp gp_ops (init_p gp_ds (mkF true true true false false true false) 0 true) =
  run_p gp_ops (init_p gp_ds (mkF true true true false false true false) 0 true).
Proof. vm_compute. reflexivity. Qed.

(* ---- the translated dataset pickers (Model.v part 7) ---- *)
Example gdp_run :
  let st := run_gdp [DPSetMultiple [2; 0; 2; 1]; DPSelect 1; DPDcRemove 1; DPAppend 0; DPRemove 2] (init_dp true [0; 1; 2]) in
  dp_list st = [0] /\ dp_ch st = [CAtt 0] /\ dp_sel st = Some 0.
Proof. vm_compute. repeat split. Qed.
Example gdp_collection :
  let st := run_gdp [DPDcAdd 3; DPSelect 3; DPDcRemove 3] (init_dp false [0; 1]) in
  dp_ch st = [CAtt 0; CAtt 1] /\ dp_sel st = Some 0.
Proof. vm_compute. repeat split. Qed.
