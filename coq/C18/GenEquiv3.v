(* C18 — translated viewer, part 4: removal of one artist (container.remove / pop, hence Viewer.remove_subset,
   remove_layer and the SubsetDeleteMessage subscription). *)
From Coq Require Import ZArith List Bool Lia.
Import ListNotations.
From GV Require Import Common.Wire C18.Model C18.LemmasViewer C18.GenEquiv1.
From GV Require gen.Gen_viewer.
Open Scope Z_scope.

(* the heap in which only the artists satisfying p (and their layer states) are left *)
Definition kept (p : G.artist -> bool) (h : G.heap) : G.heap :=
  G.mkHeap (filter p (G.h_artists h)) (map G.art_state (filter p (G.h_artists h))) (G.h_dc h) (G.h_subsets h) (G.h_size h)
           (G.h_next h) (G.h_delay h) (G.h_old h) (G.h_ignore_change h) (G.h_ignore_empty h) (G.h_warn h) (G.h_err h) (G.h_trace h).

Lemma hinv_kept : forall p h, hinv h -> hinv (kept p h).
Proof.
  intros p h [H1 H2 H3 H4 H5 H6 H7 H8 H9]. constructor; simpl; try assumption; try reflexivity.
  - apply NoDup_map_filter_gen. exact H2.
  - apply NoDup_map_filter_gen. exact H3.
  - intros a Ha. apply filter_In in Ha. apply H4. tauto.
  - apply incr_filter. exact H5.
Qed.

Lemma kept_arts : forall q h, heap_arts (kept (fun a => q (G.art_layer a)) h) = filter q (heap_arts h).
Proof.
  intros q h. unfold heap_arts, kept; simpl. induction (G.h_artists h) as [| a t IH]; simpl; [reflexivity |].
  destruct (q (G.art_layer a)); simpl; rewrite IH; reflexivity.
Qed.

Lemma filter_split : forall (A : Type) (p : A -> bool) l1 a l2,
  (forall y, In y (l1 ++ l2) -> p y = true) -> p a = false -> filter p (l1 ++ a :: l2) = l1 ++ l2.
Proof.
  intros A p l1 a l2 H Ha. rewrite filter_app. simpl. rewrite Ha. rewrite <- filter_app. apply filter_all. exact H.
Qed.

Lemma NoDup_map_mid : forall (A B : Type) (f : A -> B) l1 a l2, NoDup (map f (l1 ++ a :: l2)) ->
  forall y, In y (l1 ++ l2) -> f y <> f a.
Proof.
  intros A B f l1 a l2 H y Hy E. rewrite map_app in H. simpl in H. apply NoDup_remove_2 in H. apply H.
  rewrite <- E. rewrite <- map_app. apply in_map. exact Hy.
Qed.

Lemma iter_live_step : forall (A : Type) fuel i (get : G.heap -> list A) body h x,
  nth_error (get h) i = Some x -> G.iter_live (S fuel) i get body h = G.iter_live fuel (S i) get body (body x h).
Proof. intros A fuel i get body h x H. simpl. rewrite H. reflexivity. Qed.

Lemma delay_hset_layers : forall v h, G.h_delay (G.hset_layers v h) = G.h_delay h.
Proof. reflexivity. Qed.

(* _sync_state_layers when exactly one layer state has lost its artist *)
Lemma sync_state_one_stale : forall f h l1 a l2,
  G.h_artists h = l1 ++ l2 -> G.h_layers h = map G.art_state (l1 ++ a :: l2) ->
  NoDup (map G.art_layer (l1 ++ a :: l2)) -> NoDup (map G.art_id (l1 ++ a :: l2)) -> G.h_delay h = 0 ->
  exists tr, G.Viewer__sync_state_layers (G.knot (S f)) h = set_trace tr (G.hset_layers (map G.art_state (l1 ++ l2)) h).
Proof.
  intros f h l1 a l2 Ha Hl Hn Hid Hd.
  unfold G.Viewer__sync_state_layers.
  set (body := fun (layer_state : G.lstate) (h0 : G.heap) =>
                 if negb (G.LayerArtistContainer___contains__ (G.ls_layer layer_state) h0)
                 then let h1 := G.state_layers_remove (G.knot (S f)) layer_state h0 in h1 else h0).
  assert (Hl' : G.h_layers h = [] ++ map G.art_state l1 ++ G.art_state a :: map G.art_state l2).
  { rewrite Hl, map_app. reflexivity. }
  replace (S (length (G.h_layers h))) with (length (map G.art_state l1) + S (S (length l2)))%nat
    by (rewrite Hl, !map_length, app_length; simpl; lia).
  change 0%nat with (length (@nil G.lstate)).
  rewrite (iter_live_prefix G.lstate (fun h => G.h_layers h) body h (map G.art_state l1) [] (G.art_state a :: map G.art_state l2) _ Hl').
  2:{ intros s Hs. unfold body. rewrite contains_has. unfold heap_arts. rewrite Ha.
      apply in_map_iff in Hs. destruct Hs as [b [Eb Hb]]. subst s. cbn [G.art_state G.ls_layer].
      rewrite (has_self _ (G.art_layer b)); [reflexivity |]. apply in_map. apply in_or_app. left. exact Hb. }
  cbn [length Nat.add].
  assert (En : nth_error (G.h_layers h) (length (map G.art_state l1)) = Some (G.art_state a)).
  { rewrite Hl'. cbn [app]. rewrite nth_error_app2 by lia. rewrite Nat.sub_diag. reflexivity. }
  rewrite (iter_live_step _ _ _ (fun h => G.h_layers h) body h _ En).
  (* the stale state is removed; the 'layers' callback finds nothing to do *)
  assert (Eb : exists tr, body (G.art_state a) h = set_trace tr (G.hset_layers (map G.art_state (l1 ++ l2)) h)).
  { unfold body. rewrite contains_has. unfold heap_arts. rewrite Ha. cbn [G.art_state G.ls_layer].
    assert (Hx : has (G.art_layer a) (map G.art_layer (l1 ++ l2)) = false).
    { apply has_false. intro Hin. apply in_map_iff in Hin. destruct Hin as [y [Ey Hy]].
      exact (NoDup_map_mid _ _ G.art_layer l1 a l2 Hn y Hy Ey). }
    rewrite Hx. cbn [negb].
    unfold G.state_layers_remove, G.layers_notify.
    rewrite delay_hset_layers.
    rewrite Hd. cbn [Z.ltb Z.compare]. rewrite knot_layers.
    rewrite remove_lstate_filter by (rewrite Hl, map_state_id; exact Hid).
    match goal with |- context [filter ?p (G.h_layers h)] => assert (Ef : filter p (G.h_layers h) = map G.art_state (l1 ++ l2)) end.
    { rewrite Hl. rewrite !map_app. cbn [map]. rewrite filter_split; [reflexivity | |].
      - intros y Hy. rewrite <- map_app in Hy. apply in_map_iff in Hy. destruct Hy as [b [Eb Hb]]. subst y. cbn.
        apply negb_true_iff. apply Z.eqb_neq. exact (NoDup_map_mid _ _ G.art_id l1 a l2 Hid b Hb).
      - cbn. rewrite Z.eqb_refl. reflexivity. }
    rewrite Ef.
    rewrite sync_container_noop.
    2:{ intros b Hb. change (G.h_artists (G.hset_layers (map G.art_state (l1 ++ l2)) h)) with (G.h_artists h) in Hb.
        unfold heap_sls. cbn [G.hset_layers G.h_layers]. rewrite map_state_layer. apply has_In. apply in_map. rewrite <- Ha. exact Hb. }
    eexists. unfold G.ev, set_trace, G.hset_layers; simpl. reflexivity. }
  destruct Eb as [tr Eb]. rewrite Eb.
  exists tr. apply iter_live_noop.
  - cbn. rewrite map_length, app_length, map_length. lia.
  - intros s Hs. cbn in Hs. unfold body. rewrite contains_has.
    change (heap_arts (set_trace tr (G.hset_layers (map G.art_state (l1 ++ l2)) h))) with (heap_arts h).
    unfold heap_arts. rewrite Ha. apply in_map_iff in Hs. destruct Hs as [b [Eb' Hb]]. subst s. cbn [G.art_state G.ls_layer].
    rewrite (has_self _ (G.art_layer b)); [reflexivity |]. apply in_map. exact Hb.
Qed.

(* container.remove(a) for an artist of a heap in step *)
Lemma remove_one : forall f h l1 a l2, hinv h -> G.h_artists h = l1 ++ a :: l2 ->
  exists tr, G.LayerArtistContainer_remove (G.knot (S (S f))) a h = set_trace tr (kept (fun y => negb (G.art_id y =? G.art_id a)) h).
Proof.
  intros f h l1 a l2 Hi Ha. unfold G.LayerArtistContainer_remove.
  assert (Em : G.artist_mem a (G.h_artists h) = true).
  { unfold G.artist_mem. apply existsb_exists. exists a. split; [rewrite Ha; apply in_or_app; right; left; reflexivity | apply Z.eqb_refl]. }
  rewrite Em. rewrite remove_artist_filter by apply (hi_ids h Hi).
  pose proof (hi_ids h Hi) as Hid. pose proof (hi_nodup h Hi) as Hn. rewrite Ha in Hid, Hn.
  assert (Ef : filter (fun x => negb (G.art_id x =? G.art_id a)) (G.h_artists h) = l1 ++ l2).
  { rewrite Ha. apply filter_split.
    - intros y Hy. apply negb_true_iff. apply Z.eqb_neq. exact (NoDup_map_mid _ _ G.art_id l1 a l2 Hid y Hy).
    - rewrite Z.eqb_refl. reflexivity. }
  rewrite Ef.
  set (h1 := G.ev (G.EArtistRemove (G.art_layer a)) (G.hset_artists (l1 ++ l2) h)).
  rewrite notify_knot by (subst h1; simpl; apply (hi_ic h Hi)).
  assert (P1 : G.h_artists h1 = l1 ++ l2) by reflexivity.
  assert (P2 : G.h_layers h1 = map G.art_state (l1 ++ a :: l2)) by (subst h1; simpl; rewrite (hi_layers h Hi), Ha; reflexivity).
  assert (P3 : G.h_delay h1 = 0) by (subst h1; simpl; apply (hi_delay h Hi)).
  destruct (sync_state_one_stale f h1 l1 a l2 P1 P2 Hn Hid P3) as [tr Etr].
  rewrite Etr. exists tr. subst h1. unfold kept, set_trace, G.hset_layers, G.ev, G.hset_artists; simpl. rewrite Ef. reflexivity.
Qed.

(* container.pop(x): the artists whose layer is x *)
Lemma pop_spec : forall f x h, hinv h ->
  exists tr, G.LayerArtistContainer_pop (G.knot (S (S f))) x h = set_trace tr (kept (fun a => negb (layer_eqb x (G.art_layer a))) h).
Proof.
  intros f x h Hi. unfold G.LayerArtistContainer_pop.
  destruct (has x (heap_arts h)) eqn:E.
  - apply has_In in E. unfold heap_arts in E. apply in_map_iff in E. destruct E as [a [Ea Hin]].
    apply in_split in Hin. destruct Hin as [l1 [l2 Hs]].
    pose proof (hi_nodup h Hi) as Hn. rewrite Hs in Hn.
    assert (Ef : forall q, (forall y, q y = layer_eqb (G.art_layer y) x) -> filter q (G.h_artists h) = [a]).
    { intros q Hq. rewrite Hs. rewrite filter_app. simpl. rewrite (Hq a). rewrite Ea. rewrite layer_eqb_refl.
      assert (Z1 : forall l, (forall y, In y l -> In y (l1 ++ l2)) -> filter q l = []).
      { induction l as [| y t IH]; intros Hl; [reflexivity |]. simpl. rewrite (Hq y).
        destruct (layer_eqb (G.art_layer y) x) eqn:Ey.
        - apply layer_eqb_eq in Ey. exfalso. apply (NoDup_map_mid _ _ G.art_layer l1 a l2 Hn y); [apply Hl; left; reflexivity | congruence].
        - apply IH. intros z Hz. apply Hl. right. exact Hz. }
      rewrite (Z1 l1) by (intros y Hy; apply in_or_app; left; exact Hy).
      rewrite (Z1 l2) by (intros y Hy; apply in_or_app; right; exact Hy). reflexivity. }
    rewrite (Ef (fun a0 => G.layer_eqb (G.art_layer a0) x)) by (intros; reflexivity).
    cbn [fold_left]. destruct (remove_one f h l1 a l2 Hi Hs) as [tr Etr]. rewrite Etr. exists tr. f_equal.
    unfold kept. f_equal.
    + apply filter_ext_in'. intros y Hy. rewrite Hs in Hy. f_equal.
      destruct (G.art_id y =? G.art_id a) eqn:E1.
      * apply Z.eqb_eq in E1. pose proof (hi_ids h Hi) as Hid. rewrite Hs in Hid.
        assert (y = a).
        { apply in_app_or in Hy. destruct Hy as [Hy | [Hy | Hy]]; [| congruence |];
            exfalso; apply (NoDup_map_mid _ _ G.art_id l1 a l2 Hid y); [apply in_or_app; left; exact Hy | exact E1 | apply in_or_app; right; exact Hy | exact E1]. }
        subst y. rewrite Ea. symmetry. apply layer_eqb_refl.
      * destruct (layer_eqb x (G.art_layer y)) eqn:E2; [| reflexivity]. apply layer_eqb_eq in E2.
        apply in_app_or in Hy. destruct Hy as [Hy | [Hy | Hy]]; [| subst y; rewrite Z.eqb_refl in E1; discriminate |];
          exfalso; apply (NoDup_map_mid _ _ G.art_layer l1 a l2 Hn y); [apply in_or_app; left; exact Hy | congruence | apply in_or_app; right; exact Hy | congruence].
    + f_equal. apply filter_ext_in'. intros y Hy. rewrite Hs in Hy. f_equal.
      destruct (G.art_id y =? G.art_id a) eqn:E1.
      * apply Z.eqb_eq in E1. pose proof (hi_ids h Hi) as Hid. rewrite Hs in Hid.
        assert (y = a).
        { apply in_app_or in Hy. destruct Hy as [Hy | [Hy | Hy]]; [| congruence |];
            exfalso; apply (NoDup_map_mid _ _ G.art_id l1 a l2 Hid y); [apply in_or_app; left; exact Hy | exact E1 | apply in_or_app; right; exact Hy | exact E1]. }
        subst y. rewrite Ea. symmetry. apply layer_eqb_refl.
      * destruct (layer_eqb x (G.art_layer y)) eqn:E2; [| reflexivity]. apply layer_eqb_eq in E2.
        apply in_app_or in Hy. destruct Hy as [Hy | [Hy | Hy]]; [| subst y; rewrite Z.eqb_refl in E1; discriminate |];
          exfalso; apply (NoDup_map_mid _ _ G.art_layer l1 a l2 Hn y); [apply in_or_app; left; exact Hy | congruence | apply in_or_app; right; exact Hy | congruence].
  - apply has_false in E.
    assert (Ef : filter (fun a0 => G.layer_eqb (G.art_layer a0) x) (G.h_artists h) = []).
    { assert (Z1 : forall l, (forall y, In y l -> In y (G.h_artists h)) -> filter (fun a0 => G.layer_eqb (G.art_layer a0) x) l = []).
      { induction l as [| y t IH]; intros Hl; [reflexivity |]. simpl. rewrite geqb_eq.
        destruct (layer_eqb (G.art_layer y) x) eqn:Ey.
        - apply layer_eqb_eq in Ey. exfalso. apply E. unfold heap_arts. rewrite <- Ey. apply in_map. apply Hl. left. reflexivity.
        - apply IH. intros z Hz. apply Hl. right. exact Hz. }
      apply Z1. tauto. }
    rewrite Ef. cbn [fold_left]. exists (G.h_trace h).
    assert (Ek : filter (fun a => negb (layer_eqb x (G.art_layer a))) (G.h_artists h) = G.h_artists h).
    { apply filter_all. intros y Hy. apply negb_true_iff. destruct (layer_eqb x (G.art_layer y)) eqn:Ey; [| reflexivity].
      apply layer_eqb_eq in Ey. exfalso. apply E. unfold heap_arts. rewrite Ey. apply in_map. exact Hy. }
    unfold kept, set_trace. rewrite Ek. rewrite <- (hi_layers h Hi). destruct h; reflexivity.
Qed.
