(* C18 — the dataset pickers translated from glue/core/data_combo_helper.py (coq/gen/Gen_picker.v, second half) against
   part 3 of the hand model: the machine of Model.v part 7 makes the steps of part 3 while the manual helper's list has no
   duplicates (an invariant of both machines). *)
From Coq Require Import ZArith List Bool Lia.
Import ListNotations.
From GV Require Import Common.Wire C18.Model C18.LemmasPicker C18.LemmasViewer.
From GV Require gen.Gen_picker.
Module P := Gen_picker.
Open Scope Z_scope.

Lemma idmem_zmem : forall x l, P.idmem x l = zmem x l.
Proof. reflexivity. Qed.

Lemma zmem_app1 : forall y acc x, zmem y (acc ++ [x]) = (y =? x) || zmem y acc.
Proof. intros y acc x. unfold zmem. rewrite existsb_app. simpl. rewrite orb_false_r. apply orb_comm. Qed.

(* unique_data_iter is the hand model's dedup *)
Lemma unique_dedup : forall l, P.unique_data_iter l = dedup l [].
Proof.
  intros l. unfold P.unique_data_iter. cbv zeta.
  assert (Hgen : forall l acc seen, (forall x, zmem x acc = zmem x seen) ->
            fold_left (fun datasets_new dataset => if negb (P.idmem dataset datasets_new) then datasets_new ++ [dataset] else datasets_new) l acc
            = acc ++ dedup l seen).
  { clear l. induction l as [| x t IH]; intros acc seen H; simpl; [rewrite app_nil_r; reflexivity |].
    rewrite idmem_zmem, H. destruct (zmem x seen) eqn:E; cbn [negb].
    - apply IH. exact H.
    - rewrite (IH (acc ++ [x]) (x :: seen)); [rewrite <- app_assoc; reflexivity |].
      intros y. rewrite zmem_app1. unfold zmem at 2. simpl. rewrite H. reflexivity. }
  apply (Hgen l [] []). reflexivity.
Qed.

Lemma dedup_props : forall l seen, NoDup (dedup l seen) /\ (forall x, In x (dedup l seen) -> zmem x seen = false).
Proof.
  induction l as [| x t IH]; intros seen; simpl; [split; [constructor | intros x []] |].
  destruct (zmem x seen) eqn:E; [apply IH |].
  destruct (IH (x :: seen)) as [N H]. split.
  - constructor; [| exact N]. intro Hin. specialize (H x Hin). unfold zmem in H. simpl in H. rewrite Z.eqb_refl in H. discriminate.
  - intros y [Hy | Hy]; [subst; exact E |]. specialize (H y Hy). unfold zmem in *. simpl in H. apply orb_false_iff in H. tauto.
Qed.

Lemma zmem_false_notin : forall x l, zmem x l = false <-> ~ In x l.
Proof.
  intros x l. unfold zmem. split.
  - intros H Hin. assert (existsb (Z.eqb x) l = true) by (apply existsb_exists; exists x; split; [exact Hin | apply Z.eqb_refl]). congruence.
  - intros H. apply not_true_is_false. intro E. apply existsb_exists in E. destruct E as [y [Hy Ey]]. apply Z.eqb_eq in Ey. subst. contradiction.
Qed.

(* appending, without refresh, the elements of a duplicate-free list that are not yet there *)
Lemma fold_append_new : forall L h, NoDup L -> (forall x, In x L -> ~ In x (P.dh_datasets h)) ->
  fold_left (fun self_ data => P.ManualDataComboHelper_append_data self_ data false) L h = P.mkDH (P.dh_datasets h ++ L) (P.dh_refreshes h).
Proof.
  induction L as [| x t IH]; intros h Hn Hd; simpl; [rewrite app_nil_r; destruct h; reflexivity |].
  inversion Hn as [| ? ? Hx Ht]; subst.
  unfold P.ManualDataComboHelper_append_data at 2. rewrite idmem_zmem.
  assert (E : zmem x (P.dh_datasets h) = false) by (apply zmem_false_notin; apply Hd; left; reflexivity). rewrite E.
  cbv zeta. cbv iota.
  rewrite IH; [simpl; rewrite <- app_assoc; reflexivity | exact Ht |].
  intros y Hy Hin. simpl in Hin. apply in_app_or in Hin. destruct Hin as [Hin | [Hin | []]]; [apply (Hd y); [right; exact Hy | exact Hin] | subst; contradiction].
Qed.

Lemma idremove_zremove : forall d l, NoDup l -> P.idremove d l = zremove d l.
Proof.
  intros d l. unfold zremove. induction l as [| x t IH]; intros Hn; simpl; [reflexivity |].
  inversion Hn as [| ? ? Hx Ht]; subst. destruct (x =? d) eqn:E; simpl.
  - apply Z.eqb_eq in E. subst. symmetry. apply filter_all. intros y Hy. apply negb_true_iff. apply Z.eqb_neq. intro; subst; contradiction.
  - rewrite IH by exact Ht. reflexivity.
Qed.

(* the invariant: a manual helper's list has no duplicates *)
Definition dpk (st : dpstate) : Prop := NoDup (dp_list st).

Lemma dp_eta_manual : forall st, dp_manual st = true -> mkDP true (dp_dc st) (dp_list st) (dp_ch st) (dp_sel st) = st.
Proof. intros [m a b c d] H. simpl in H. subst. reflexivity. Qed.

Lemma NoDup_zremove : forall d l, NoDup l -> NoDup (zremove d l).
Proof. intros d l H. unfold zremove. apply NoDup_filter'. exact H. Qed.

Lemma NoDup_snoc_z : forall l (x : Z), NoDup l -> ~ In x l -> NoDup (l ++ [x]).
Proof. intros l x H Hx. apply NoDup_snoc; assumption. Qed.

Lemma manual_delete : forall l d,
  P.ManualDataComboHelper_deliver (P.mkDH l 0) P.D_DataCollectionDeleteMessage (P.mkDMsg true (-1) d false) =
  if zmem d l then P.mkDH (P.idremove d l) 1 else P.mkDH l 0.
Proof.
  intros l d. unfold P.ManualDataComboHelper_deliver.
  change (find (fun e => P.dclass_eqb (fst (fst e)) P.D_DataCollectionDeleteMessage) P.ManualDataComboHelper_subscriptions)
    with (Some (P.D_DataCollectionDeleteMessage, P.DH__remove_data_msg, P.DF_Manual__filter_msg_dc)).
  cbn [snd fst P.run_dfilter P.run_dhandler P.ManualDataComboHelper__filter_msg_dc P.dm_sender_is_dc].
  unfold P.ManualDataComboHelper__remove_data_msg, P.ManualDataComboHelper_remove_data. cbn [P.dm_data P.dh_datasets].
  change (P.idmem d l) with (zmem d l). destruct (zmem d l); reflexivity.
Qed.

Lemma gdpstep_eq : forall o st, dpk st -> gdpstep o st = dpstep o st /\ dpk (fst (dpstep o st)).
Proof.
  intros o st Hk. unfold dpk in *.
  destruct o as [d | d | l | d | d | d]; cbn [gdpstep dpstep].
  - (* DPAppend *)
    destruct (dp_manual st) eqn:Em; cbn [negb orb]; [| split; [reflexivity | exact Hk]].
    unfold P.ManualDataComboHelper_append_data, dh_of, dp_source. rewrite Em. cbn [P.dh_datasets]. rewrite idmem_zmem.
    destruct (zmem d (dp_list st)) eqn:E.
    + unfold dp_apply. rewrite Em. cbn. rewrite (dp_eta_manual st Em). split; [reflexivity | exact Hk].
    + unfold dp_apply. rewrite Em. cbn. split; [reflexivity |]. apply NoDup_snoc_z; [exact Hk | apply zmem_false_notin; exact E].
  - (* DPRemove *)
    destruct (dp_manual st) eqn:Em; cbn [andb]; [| split; [reflexivity | exact Hk]].
    unfold P.ManualDataComboHelper_remove_data, dh_of, dp_source. rewrite Em. cbn [P.dh_datasets]. rewrite idmem_zmem.
    destruct (zmem d (dp_list st)) eqn:E; cbn [negb].
    + unfold dp_apply. rewrite Em. cbn. rewrite (idremove_zremove d _ Hk). split; [reflexivity | apply NoDup_zremove; exact Hk].
    + unfold dp_apply. rewrite Em. cbn. rewrite (dp_eta_manual st Em). split; [reflexivity | exact Hk].
  - (* DPSetMultiple *)
    destruct (dp_manual st) eqn:Em; [| split; [reflexivity | exact Hk]].
    unfold P.ManualDataComboHelper_set_multiple_data. cbv zeta.
    rewrite unique_dedup. destruct (dedup_props l []) as [N _].
    rewrite fold_append_new; [| exact N | intros x _ []].
    unfold dp_apply. rewrite Em. cbn. split; [reflexivity | exact N].
  - (* DPSelect *)
    destruct (sel_in (Some d) (dp_ch st)); split; try reflexivity; exact Hk.
  - (* DPDcAdd *)
    destruct (zmem d (dp_dc st)); [split; [reflexivity | exact Hk] |].
    unfold dp_deliver. cbn [dp_manual]. destruct (dp_manual st) eqn:Em.
    + (* manual helpers do not listen to DataCollectionAddMessage *)
      unfold dp_apply. cbn. split; [reflexivity | exact Hk].
    + unfold dp_apply. cbn. split; [reflexivity | exact Hk].
  - (* DPDcRemove *)
    destruct (zmem d (dp_dc st)); cbn [negb]; [| split; [reflexivity | exact Hk]].
    unfold dp_deliver. cbn [dp_manual]. destruct (dp_manual st) eqn:Em.
    + unfold dh_of, dp_source. cbn [dp_manual dp_list]. rewrite manual_delete.
      destruct (zmem d (dp_list st)) eqn:E.
      * unfold dp_apply. cbn. rewrite (idremove_zremove d _ Hk). split; [reflexivity | apply NoDup_zremove; exact Hk].
      * unfold dp_apply. cbn. split; [reflexivity | exact Hk].
    + unfold dp_apply. cbn -[P.idremove P.idmem zmem zremove dp_refresh]. split; [reflexivity | exact Hk].
Qed.

Lemma run_gdp_eq : forall ops st, dpk st -> run_gdp ops st = run_dp ops st.
Proof.
  induction ops as [| o t IH]; intros st Hk; [reflexivity |]. cbn [run_gdp run_dp].
  destruct (gdpstep_eq o st Hk) as [E Hk']. rewrite E. apply IH. exact Hk'.
Qed.

Lemma dpk_init : forall manual dcl, dpk (init_dp manual dcl).
Proof. intros manual dcl. unfold dpk, init_dp. destruct manual; simpl; constructor. Qed.

Theorem gen_dpicker_step_refines : forall o st, NoDup (dp_list st) -> gdpstep o st = dpstep o st /\ NoDup (dp_list (fst (dpstep o st))).
Proof. exact gdpstep_eq. Qed.

(* dpicker_inv_reachable, about the translated procedures and subscription tables *)
Theorem gen_dpicker_inv_reachable : forall manual dcl ops,
  let st := run_gdp ops (init_dp manual dcl) in
  dp_ch st = map CAtt (if dp_manual st then dp_list st else dp_dc st) /\ sel_ok (dp_ch st) (dp_sel st).
Proof.
  intros manual dcl ops. cbv zeta. rewrite (run_gdp_eq ops _ (dpk_init manual dcl)). apply LemmasPicker.dpicker_inv_reachable.
Qed.
