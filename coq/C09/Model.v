(* C09 — executable model of glue.core.subset.roi_to_subset_state (repaired: a rotated rectangle on a categorical axis takes
   the polygon path), CategoricalROI.from_range, glue.utils.geometry.polygon_line_intersections and of the to_mask of the
   subset states the dispatch can return.  Geometry is C08's model over Q.  Definitions only. *)
From Coq Require Import ZArith List Bool QArith Qround.
Import ListNotations.
From GV Require Import Common.Wire C08.Model.
Open Scope Q_scope.

(* an axis is numeric, or categorical with n categories (codes 0 .. n-1 = indices into the sorted unique labels) *)
Inductive kind := KNum | KCat (n : Z).
Inductive axis := AX | AY.
Definition is_cat (k : kind) : bool := match k with KCat _ => true | KNum => false end.

(* the value of a data element on one axis: a category code, a finite number, or NaN *)
Inductive coord := ECode (k : Z) | EVal (q : Q) | ENaN.
Definition elem := (coord * coord)%type.
(* plotted position (the category index for categorical axes) *)
Definition plot (c : coord) : option Q :=
  match c with ECode k => Some (inject_Z k) | EVal q => Some q | ENaN => None end.
Definition get (a : axis) (e : elem) : coord := match a with AX => fst e | AY => snd e end.

(* ---------- the display jitter of a categorical component ----------
   The array data[att] hands to to_mask is the component's own categorical_ndarray: its elements are the labels (here: the index k of
   the label in the component's categories), and when jitter is switched on (CategoricalComponent(..., jitter='uniform') /
   .jitter(method='uniform')) its .codes property returns k + j with a random display offset j in [-1/2, 1/2).  Arrays obtained
   through a view (data[att, view], .ravel()) carry no offset.  Every to_mask of this dispatch reads the labels. *)
Inductive jcoord := JCode (k : Z) (j : Q) | JVal (q : Q) | JNaN.
Definition jelem := (jcoord * jcoord)%type.
(* what to_mask reads *)
Definition label_of (c : jcoord) : coord :=
  match c with JCode k _ => ECode k | JVal q => EVal q | JNaN => ENaN end.
Definition strip (e : jelem) : elem := (label_of (fst e), label_of (snd e)).
(* categorical_ndarray.codes: _codes + _jitter *)
Definition displayed (c : jcoord) : option Q :=
  match c with JCode k j => Some (inject_Z k + j) | JVal q => Some q | JNaN => None end.
Definition set_jitter (c : jcoord) (j : Q) : jcoord := match c with JCode k _ => JCode k j | _ => c end.
(* the same elements carrying another vector of offsets (one pair per element) *)
Definition jitter_elems (es : list jelem) (js : list (Q * Q)) : list jelem :=
  map (fun p => (set_jitter (fst (fst p)) (fst (snd p)), set_jitter (snd (fst p)) (snd (snd p)))) (combine es js).
(* the nearest integer (round half up): recovers the category index from a displayed coordinate *)
Definition nearest (q : Q) : Z := Qfloor (q + (1 # 2)).

(* the region handed to roi_to_subset_state: a 2-d region (with the vertex arrays its to_polygon() returns, used only for
   round shapes, whose 100-gon the harness supplies) or a CategoricalROI (set of category codes) *)
Inductive roi9 :=
| R2 (r : roi) (given_polygon : list pt)
| RCat (codes : list Z).

(* the subset states the dispatch can return *)
Inductive state :=
| SRange (a : axis) (lo hi : Q)                      (* RangeSubsetState: lo <= v <= hi *)
| SCat (a : axis) (codes : list Z)                   (* CategoricalROISubsetState: label in the roi's categories *)
| SAnd (s1 s2 : state)                               (* AndState *)
| SCat2D (sel : list (Z * list Z))                   (* CategoricalROISubsetState2D: x label -> set of y labels *)
| SMulti (cat_axis : axis) (sel : list (Z * list (Q * Q)))  (* CategoricalMultiRangeSubsetState: label -> closed ranges *)
| SRoi (r : roi)                                     (* RoiSubsetState: roi.contains(x, y) *)
| SError.                                            (* the call raises (CategoricalROI on numeric axes) *)

Definition zrange (n : Z) : list Z := map Z.of_nat (seq 0 (Z.to_nat n)).
Definition zmem (k : Z) (l : list Z) : bool := existsb (Z.eqb k) l.

(* ---------- CategoricalROI.from_range: categories[ceil(lo) : ceil(hi)] with negative bounds reset to 0 ---------- *)
Definition clamp_ceil (q : Q) : Z := if Qltb 0 q then Qceiling q else 0%Z.
Definition from_range (n : Z) (lo hi : Q) : list Z :=
  filter (fun k => (clamp_ceil lo <=? k)%Z && (k <? clamp_ceil hi)%Z) (zrange n).

Definition range_state (a : axis) (k : kind) (lo hi : Q) : state :=
  match k with KCat n => SCat a (from_range n lo hi) | KNum => SRange a lo hi end.

(* ---------- the label level of from_range / CategoricalROI.contains ----------
   A label is identified with its rank in ascending label order; `cats` = the component's categories in plot order (any order,
   no repetition), so the plotted position of label nth k cats is k. *)
(* categories[lo:hi] with lo, hi the clamped ceilings (a Python slice: indices lo <= i < hi, clipped to the length) *)
Definition slice_cats (cats : list Z) (lo hi : Q) : list Z :=
  skipn (Z.to_nat (clamp_ceil lo)) (firstn (Z.to_nat (clamp_ceil hi)) cats).
(* update_categories: np.unique = ascending, without repetition *)
Fixpoint zinsert_uniq (x : Z) (l : list Z) : list Z :=
  match l with
  | [] => [x]
  | y :: t => if (x <? y)%Z then x :: l else if (x =? y)%Z then l else y :: zinsert_uniq x t
  end.
Definition zunique (l : list Z) : list Z := fold_right zinsert_uniq [] l.
Definition stored_from_range (cats : list Z) (lo hi : Q) : list Z := zunique (slice_cats cats lo hi).
(* np.searchsorted(stored, x) on ascending stored categories: the number of stored labels below x *)
Definition searchsorted (stored : list Z) (x : Z) : nat := length (filter (fun y => (y <? x)%Z) stored).
(* CategoricalROI.contains: stored[min(searchsorted(stored, x), len - 1)] == x ; empty -> False *)
Definition cat_contains_ss (stored : list Z) (x : Z) : bool :=
  match stored with
  | [] => false
  | _ => (nth (Nat.min (searchsorted stored x) (length stored - 1)) stored 0 =? x)%Z
  end.

(* ---------- polygon_line_intersections(px, py, xval = k) ---------- *)
Definition swap (p : pt) : pt := (snd p, fst p).
(* "make sure that the polygon is closed" *)
Definition close_poly (vs : list pt) : list pt :=
  match vs with [] => [] | a :: _ => if pt_eqb (last vs a) a then vs else vs ++ [a] end.
(* vertices that intersect *)
Definition vertex_hits (vs : list pt) (k : Q) : list Q := map snd (filter (fun v => Qeqb (fst v) k) vs).
(* segments (excluding vertices) that intersect: the ordinate of the intersection *)
Definition proper_cross (k : Q) (e : pt * pt) : list Q :=
  let a := fst e in let b := snd e in
  if (Qltb (fst a) k && Qltb k (fst b)) || (Qltb (fst b) k && Qltb k (fst a))
  then [Qred (snd a + (snd b - snd a) * (k - fst a) / (fst b - fst a))] else [].
Definition line_ordinates (closed : list pt) (k : Q) : list Q :=
  vertex_hits closed k ++ flat_map (proper_cross k) (edges_open closed).
(* np.sort(np.unique(...)) *)
Fixpoint insert_uniq (x : Q) (l : list Q) : list Q :=
  match l with
  | [] => [x]
  | y :: t => if Qltb x y then x :: l else if Qeqb x y then l else y :: insert_uniq x t
  end.
Definition sort_unique (l : list Q) : list Q := fold_right insert_uniq [] l.
Fixpoint pairs (l : list Q) : list (Q * Q) :=
  match l with a :: ((b :: _) as t) => (a, b) :: pairs t | _ => [] end.
(* points_inside_poly with the even-odd rule taken along the vertical ray (matplotlib oracle: any ray, off the boundary) *)
Definition inside_v (vs : list pt) : pt -> bool :=
  let keep := bbox_keep vs in
  let sw := map swap vs in
  fun p => keep p && crossing_odd sw (swap p).
Definition midpoint (s : Q * Q) : Q := Qred ((1 # 2) * (fst s + snd s)).
Definition segments (vs : list pt) (k : Q) : list (Q * Q) :=
  let c := close_poly vs in
  let ins := inside_v c in
  filter (fun s => ins (k, midpoint s)) (pairs (sort_unique (line_ordinates c k))).

(* ---------- the polygon-like paths ---------- *)
Definition poly_vertices (r : roi) (given : list pt) : list pt :=
  match r with
  | Rect x0 x1 y0 y1 b c s => rect_to_polygon x0 x1 y0 y1 b c s
  | Poly vs => vs
  | _ => given
  end.
Definition nonempty {A B} (p : A * list B) : bool := match snd p with [] => false | _ => true end.
Definition cat2d (r : roi) (nx ny : Z) : list (Z * list Z) :=
  let ct := contains r in
  filter nonempty (map (fun i => (i, filter (fun j => ct (inject_Z i, inject_Z j)) (zrange ny))) (zrange nx)).
Definition multi (vs : list pt) (n : Z) : list (Z * list (Q * Q)) :=
  filter nonempty (map (fun i => (i, segments vs (inject_Z i))) (zrange n)).

(* ---------- roi_to_subset_state ---------- *)
Definition roi_to_state (r : roi9) (xk yk : kind) : state :=
  match r with
  | R2 (Range isx lo hi) _ =>
    if isx then range_state AX xk lo hi else range_state AY yk lo hi
  | RCat codes => if is_cat xk || is_cat yk then SCat AX codes else SError
  | R2 r0 given =>
    if is_cat xk || is_cat yk then
      match r0 with
      | Rect x0 x1 y0 y1 B0 _ _ => SAnd (range_state AX xk x0 x1) (range_state AY yk y0 y1)
      | _ =>
        match xk, yk with
        | KCat nx, KCat ny => SCat2D (cat2d r0 nx ny)
        | KCat nx, KNum => SMulti AX (multi (poly_vertices r0 given) nx)
        | KNum, KCat ny => SMulti AY (multi (map swap (poly_vertices r0 given)) ny)
        | KNum, KNum => SRoi r0
        end
      end
    else SRoi r0
  end.

(* which of the code paths a call takes (for dispatch_total) *)
Inductive path := PRangeCat | PRangeNum | PRectAnd | PCatRoi | PPoly2D | PPolyMixed | PNumeric | PRaises.
Definition path_of (r : roi9) (xk yk : kind) : path :=
  match r with
  | R2 (Range isx _ _) _ => if is_cat (if isx then xk else yk) then PRangeCat else PRangeNum
  | RCat _ => if is_cat xk || is_cat yk then PCatRoi else PRaises
  | R2 r0 _ =>
    if is_cat xk || is_cat yk then
      match r0 with
      | Rect _ _ _ _ B0 _ _ => PRectAnd
      | _ => if is_cat xk && is_cat yk then PPoly2D else PPolyMixed
      end
    else PNumeric
  end.
Definition shape_of (s : state) : path :=
  match s with
  | SRange _ _ _ => PRangeNum | SCat _ _ => PRangeCat | SAnd _ _ => PRectAnd | SCat2D _ => PPoly2D
  | SMulti _ _ => PPolyMixed | SRoi _ => PNumeric | SError => PRaises
  end.

(* ---------- to_mask of the returned state, element by element ---------- *)
Fixpoint assoc {B} (k : Z) (l : list (Z * B)) : option B :=
  match l with [] => None | (k', v) :: t => if Z.eqb k k' then Some v else assoc k t end.

Fixpoint sem (s : state) (e : elem) : bool :=
  match s with
  | SRange a lo hi => match plot (get a e) with Some v => Qleb lo v && Qleb v hi | None => false end
  | SCat a codes => match get a e with ECode k => zmem k codes | _ => false end
  | SAnd s1 s2 => sem s1 e && sem s2 e
  | SCat2D sel =>
    match e with
    | (ECode i, ECode j) => match assoc i sel with Some js => zmem j js | None => false end
    | _ => false
    end
  | SMulti a sel =>
    let c := get a e in
    let v := get (match a with AX => AY | AY => AX end) e in
    match c, v with
    | ECode i, EVal q =>
      match assoc i sel with Some segs => existsb (fun s => Qleb (fst s) q && Qleb q (snd s)) segs | None => false end
    | _, _ => false
    end
  | SRoi r => match plot (fst e), plot (snd e) with Some x, Some y => contains r (x, y) | _, _ => false end
  | SError => false
  end.

(* the mask of a dataset whose categorical arrays carry display offsets *)
Definition mask_j (s : state) (es : list jelem) : list bool := map (fun e => sem s (strip e)) es.

(* the reference: the element's plotted position lies in the region *)
(* a range region looks at one coordinate only; the other one may be missing *)
Definition plotted (r : roi9) (e : elem) : option pt :=
  match r with
  | R2 (Range isx _ _) _ =>
    match plot (get (if isx then AX else AY) e) with Some v => Some (v, v) | None => None end
  | _ => match plot (fst e), plot (snd e) with Some x, Some y => Some (x, y) | _, _ => None end
  end.
Definition roi_contains (r : roi9) (e : elem) : bool :=
  match r with
  | R2 r0 _ => match plotted r e with Some p => contains r0 p | None => false end
  | RCat codes => match fst e with ECode k => zmem k codes | _ => false end
  end.
Definition roi_near (eps : Q) (r : roi9) (e : elem) : bool :=
  match r with
  | R2 r0 _ => match plotted r e with Some p => near eps r0 p | None => false end
  | RCat _ => false
  end.

(* ---------- wire ---------- *)
Definition dec_kind (t : tree) : kind := match t with T 0 _ => KNum | T _ (T n _ :: _) => KCat n | _ => KNum end.
Definition dec_coord (t : tree) : coord :=
  match t with
  | T 1 [T k _] => ECode k
  | T 2 [q] => EVal (dec_q q)
  | _ => ENaN
  end.
Definition dec_elem (t : tree) : elem :=
  match t with T _ [a; b] => (dec_coord a, dec_coord b) | _ => (ENaN, ENaN) end.
(* (1 k) = a category index without offset, (3 k j) = with the offset j the component adds for display *)
Definition dec_jcoord (t : tree) : jcoord :=
  match t with
  | T 1 [T k _] => JCode k 0
  | T 3 [T k _; j] => JCode k (dec_q j)
  | T 2 [q] => JVal (dec_q q)
  | _ => JNaN
  end.
Definition dec_jelem (t : tree) : jelem :=
  match t with T _ [a; b] => (dec_jcoord a, dec_jcoord b) | _ => (JNaN, JNaN) end.
Definition dec_roi9 (t : tree) : option roi9 :=
  match t with
  | T 7 [cats] => Some (RCat (to_zs cats))
  | T 8 [r; T _ poly] => match dec_roi r with Some r0 => Some (R2 r0 (map dec_pt poly)) | None => None end
  | _ => match dec_roi t with Some r0 => Some (R2 r0 []) | None => None end
  end.
Definition enc_axis (a : axis) : tree := leaf (match a with AX => 0 | AY => 1 end)%Z.
Fixpoint enc_state (s : state) : tree :=
  match s with
  | SRange a lo hi => T 1 [enc_axis a; enc_q lo; enc_q hi]
  | SCat a codes => T 2 [enc_axis a; zs codes]
  | SAnd s1 s2 => T 3 [enc_state s1; enc_state s2]
  | SCat2D sel => T 4 (map (fun p => T 0 [leaf (fst p); zs (snd p)]) sel)
  | SMulti a sel => T 5 (enc_axis a :: map (fun p => T 0 (leaf (fst p) :: map (fun s => T 0 [enc_q (fst s); enc_q (snd s)]) (snd p))) sel)
  | SRoi _ => T 6 []
  | SError => T 7 []
  end.

(* (1 eps roi xkind ykind (0 elems...)) -> (0 state (0 sem bits) (0 contains bits) (0 near bits)) ;
   (2 n lo hi) -> codes of from_range ; (3 (0 vertices) k) -> segments ;
   (4 (0 category ranks in plot order) lo hi (0 queried ranks)) -> (0 stored categories, contains bits) *)
Definition run_case (t : tree) : tree :=
  match t with
  | T 1 [eps; r; xk; yk; T _ es] =>
    match dec_roi9 r with
    | None => err 2
    | Some r9 =>
      let st := roi_to_state r9 (dec_kind xk) (dec_kind yk) in
      let jels := map dec_jelem es in
      let els := map strip jels in
      T 0 [enc_state st; bools (mask_j st jels); bools (map (roi_contains r9) els); bools (map (roi_near (dec_q eps) r9) els)]
    end
  | T 2 [T n _; lo; hi] => zs (from_range n (dec_q lo) (dec_q hi))
  | T 4 [cats; lo; hi; xs] =>
    let st := stored_from_range (to_zs cats) (dec_q lo) (dec_q hi) in
    T 0 [zs st; bools (map (cat_contains_ss st) (to_zs xs))]
  | T 3 [T _ vs; k] => T 0 (map (fun s => T 0 [enc_q (fst s); enc_q (snd s)]) (segments (map dec_pt vs) (dec_q k)))
  | _ => err 2
  end.
