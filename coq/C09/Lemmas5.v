(* C09 — scale equivariance of the polygon / line-intersection path: multiplying the numeric axis by s > 0 (region and data)
   does not change which elements are selected.  (A change that merges intersection ordinates with an ABSOLUTE tolerance breaks
   exactly this.) *)
From Coq Require Import ZArith List Bool QArith Qround Lqa Lia Setoid Morphisms.
Import ListNotations.
From GV Require Import Common.Wire C08.Model C08.QBase C08.Lemmas1 C08.Lemmas2 C08.Lemmas3 C09.Model C09.Lemmas1 C09.Lemmas2 C09.Lemmas3.
Open Scope Q_scope.

(* the numeric axis is the ordinate of the line x = k *)
Definition scale_y (s : Q) (p : pt) : pt := (fst p, s * snd p).

Lemma Qltb_scale s a b : 0 < s -> Qltb (s * a) (s * b) = Qltb a b.
Proof. intros Hs. apply eq_true_iff_eq. rewrite !Qltb_lt. split; intros; nra. Qed.
Lemma Qeqb_scale s a b : ~ s == 0 -> Qeqb (s * a) (s * b) = Qeqb a b.
Proof.
  intros Hs. apply eq_true_iff_eq. rewrite !Qeqb_eq. split; intros H.
  - apply (Qmult_inj_l a b s Hs). exact H.
  - rewrite H. reflexivity.
Qed.

Lemma close_poly_scale s vs : ~ s == 0 -> close_poly (map (scale_y s) vs) = map (scale_y s) (close_poly vs).
Proof.
  intros Hs. destruct vs as [|a t]; [reflexivity|].
  cbn [map]. unfold close_poly.
  change (scale_y s a :: map (scale_y s) t) with (map (scale_y s) (a :: t)). rewrite last_map.
  assert (E : pt_eqb (scale_y s (last (a :: t) a)) (scale_y s a) = pt_eqb (last (a :: t) a) a).
  { unfold pt_eqb, scale_y. cbn [fst snd]. rewrite (Qeqb_scale s _ _ Hs). reflexivity. }
  rewrite E. destruct (pt_eqb (last (a :: t) a) a); [reflexivity|]. rewrite map_app. reflexivity.
Qed.

(* every crossing ordinate of the scaled polygon is s times a crossing ordinate of the original *)
Lemma ordinates_scale s c k y' : ~ s == 0 -> In y' (line_ordinates (map (scale_y s) c) k) ->
  exists y, In y (line_ordinates c k) /\ y' == s * y.
Proof.
  intros Hs Hin. unfold line_ordinates in *. apply in_app_or in Hin. destruct Hin as [Hin|Hin].
  - unfold vertex_hits in Hin. apply in_map_iff in Hin. destruct Hin as [p [<- Hp]]. apply filter_In in Hp. destruct Hp as [Hp Hk].
    apply in_map_iff in Hp. destruct Hp as [p0 [<- Hp0]]. exists (snd p0). split; [|reflexivity].
    apply in_or_app. left. unfold vertex_hits. apply in_map. apply filter_In. split; assumption.
  - rewrite edges_open_map in Hin. apply in_flat_map in Hin. destruct Hin as [e [He Hy]].
    apply in_map_iff in He. destruct He as [[a b] [<- Hab]]. cbn [fst snd] in Hy.
    unfold proper_cross in Hy. cbn [fst snd scale_y] in Hy.
    destruct ((Qltb (fst a) k && Qltb k (fst b)) || (Qltb (fst b) k && Qltb k (fst a))) eqn:C; [|destruct Hy].
    destruct Hy as [<-|[]].
    exists (Qred (snd a + (snd b - snd a) * (k - fst a) / (fst b - fst a))). split.
    + apply in_or_app. right. apply in_flat_map. exists (a, b). split; [assumption|]. unfold proper_cross. cbn [fst snd]. rewrite C. left. reflexivity.
    + rewrite !Qred_correct. apply orb_true_iff in C. field. destruct C as [C|C]; b2p; lra.
Qed.

(* the even-odd parity along the line is unchanged *)
Lemma edge_cross_scale s v k a b : 0 < s ->
  edge_cross (swap (k, s * v)) (swap (scale_y s a)) (swap (scale_y s b)) = edge_cross (swap (k, v)) (swap a) (swap b).
Proof.
  intros Hs. unfold edge_cross, swap, scale_y. cbn [fst snd].
  destruct (eqb (Qltb k (fst a)) (Qltb k (fst b))); [reflexivity|].
  assert (E1 : (s * v - s * snd a) * (fst b - fst a) == s * ((v - snd a) * (fst b - fst a))) by ring.
  assert (E2 : (k - fst a) * (s * snd b - s * snd a) == s * ((k - fst a) * (snd b - snd a))) by ring.
  rewrite (Qltb_comp _ _ E1 _ _ E2), (Qltb_comp _ _ E2 _ _ E1), !(Qltb_scale s) by assumption. reflexivity.
Qed.

Lemma crossing_odd_scale s c k v : 0 < s ->
  crossing_odd (map swap (map (scale_y s) c)) (swap (k, s * v)) = crossing_odd (map swap c) (swap (k, v)).
Proof.
  intros Hs. unfold crossing_odd. rewrite !map_map, !edges_map, !map_map. f_equal.
  apply map_ext. intros [a b]. cbn [fst snd]. apply (edge_cross_scale s v k a b Hs).
Qed.

(* segments_scale: region and value multiplied by s > 0 - same selection *)
Theorem segments_scale vs k v s : 0 < s ->
  (forall y, In y (line_ordinates (close_poly vs) k) -> ~ y == v) ->
  existsb (fun g => Qleb (fst g) (s * v) && Qleb (s * v) (snd g)) (segments (map (scale_y s) vs) k) =
  existsb (fun g => Qleb (fst g) v && Qleb v (snd g)) (segments vs k).
Proof.
  intros Hs Hne. assert (Hs0 : ~ s == 0) by lra.
  rewrite (segments_sem vs k v Hne). rewrite segments_sem.
  - rewrite (close_poly_scale s vs Hs0). apply crossing_odd_scale. exact Hs.
  - intros y' Hy'. rewrite (close_poly_scale s vs Hs0) in Hy'.
    destruct (ordinates_scale s _ k y' Hs0 Hy') as [y [Hy E]]. intros H. apply (Hne y Hy).
    rewrite E in H. apply (Qmult_inj_l y v s Hs0). exact H.
Qed.

(* and for the subset state of the mixed path *)
Theorem mixed_path_scale vs n i v s : 0 < s -> (0 <= i < n)%Z ->
  (forall y, In y (line_ordinates (close_poly vs) (inject_Z i)) -> ~ y == v) ->
  sem (SMulti AX (multi (map (scale_y s) vs) n)) (ECode i, EVal (s * v)) = sem (SMulti AX (multi vs n)) (ECode i, EVal v).
Proof.
  intros Hs Hi Hne. assert (Hs0 : ~ s == 0) by lra.
  rewrite (mixed_path_sem vs n i v Hi Hne). rewrite mixed_path_sem; [|exact Hi|].
  - rewrite (close_poly_scale s vs Hs0). apply crossing_odd_scale. exact Hs.
  - intros y' Hy'. rewrite (close_poly_scale s vs Hs0) in Hy'.
    destruct (ordinates_scale s _ _ y' Hs0 Hy') as [y [Hy E]]. intros H. apply (Hne y Hy).
    rewrite E in H. apply (Qmult_inj_l y v s Hs0). exact H.
Qed.
