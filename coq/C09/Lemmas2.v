(* C09 — polygon / line intersections: the even-odd parity along a vertical line is constant between consecutive
   crossing ordinates (mixed_polygon_segments). *)
From Coq Require Import ZArith List Bool QArith Qround Lqa Lia Setoid Morphisms.
Import ListNotations.
From GV Require Import Common.Wire C08.Model C08.QBase C08.Lemmas1 C08.Lemmas2 C08.Lemmas3 C09.Model.
Open Scope Q_scope.

(* ordinate at which the line through a and b meets the vertical line x = k *)
Definition yint (a b : pt) (k : Q) : Q := snd a + (snd b - snd a) * (k - fst a) / (fst b - fst a).

(* along the vertical ray, an edge whose end points lie on different sides of x = k is crossed exactly by the points below yint *)
Lemma edge_cross_v a b k v : Qltb k (fst a) <> Qltb k (fst b) ->
  (edge_cross (swap (k, v)) (swap a) (swap b) = true <-> v < yint a b k).
Proof.
  intros Hf. unfold edge_cross, swap, yint. cbn [fst snd].
  destruct (Qltb k (fst a)) eqn:Fa, (Qltb k (fst b)) eqn:Fb; try congruence; cbn [eqb]; b2p.
  - assert (D : Qltb 0 (fst b - fst a) = false) by (b2p; lra). rewrite D. rewrite Qltb_lt.
    set (dx := fst b - fst a) in *. assert (Hdx : dx < 0) by (unfold dx; lra).
    set (t := (snd b - snd a) * (k - fst a) / dx).
    assert (Et : t * dx == (snd b - snd a) * (k - fst a)) by (unfold t; field; lra).
    split; intros H; nra.
  - assert (D : Qltb 0 (fst b - fst a) = true) by (b2p; lra). rewrite D. rewrite Qltb_lt.
    set (dx := fst b - fst a) in *. assert (Hdx : 0 < dx) by (unfold dx; lra).
    set (t := (snd b - snd a) * (k - fst a) / dx).
    assert (Et : t * dx == (snd b - snd a) * (k - fst a)) by (unfold t; field; lra).
    split; intros H; nra.
Qed.

Lemma edge_cross_v_same a b k v : Qltb k (fst a) = Qltb k (fst b) ->
  edge_cross (swap (k, v)) (swap a) (swap b) = false.
Proof. intros Hf. unfold edge_cross, swap. cbn [fst snd]. rewrite Hf, eqb_reflx. reflexivity. Qed.

(* such an edge contributes its crossing ordinate to the list polygon_line_intersections builds *)
Lemma ordinate_listed vs a b k : In (a, b) (edges_open vs) -> Qltb k (fst a) <> Qltb k (fst b) ->
  exists y0, In y0 (line_ordinates vs k) /\ y0 == yint a b k.
Proof.
  intros Hin Hf. destruct (edges_open_in vs (a, b) Hin) as [Ia Ib]. cbn [fst snd] in Ia, Ib.
  unfold line_ordinates.
  destruct (Qltb k (fst a)) eqn:Fa, (Qltb k (fst b)) eqn:Fb; try congruence; b2p.
  - (* fst b <= k < fst a *)
    destruct (Qeq_dec (fst b) k) as [E|NE].
    + exists (snd b). split.
      * apply in_or_app. left. unfold vertex_hits. apply in_map. apply filter_In. split; [assumption|]. b2p. assumption.
      * unfold yint. rewrite <- E. field. lra.
    + exists (Qred (yint a b k)). split; [|apply Qred_correct].
      apply in_or_app. right. apply in_flat_map. exists (a, b). split; [assumption|].
      unfold proper_cross. cbn [fst snd].
      assert (C : (Qltb (fst a) k && Qltb k (fst b)) || (Qltb (fst b) k && Qltb k (fst a)) = true).
      { apply orb_true_iff. right. b2p; lra. }
      rewrite C. left. reflexivity.
  - (* fst a <= k < fst b *)
    destruct (Qeq_dec (fst a) k) as [E|NE].
    + exists (snd a). split.
      * apply in_or_app. left. unfold vertex_hits. apply in_map. apply filter_In. split; [assumption|]. b2p. assumption.
      * unfold yint. rewrite <- E. field. lra.
    + exists (Qred (yint a b k)). split; [|apply Qred_correct].
      apply in_or_app. right. apply in_flat_map. exists (a, b). split; [assumption|].
      unfold proper_cross. cbn [fst snd].
      assert (C : (Qltb (fst a) k && Qltb k (fst b)) || (Qltb (fst b) k && Qltb k (fst a)) = true).
      { apply orb_true_iff. left. b2p; lra. }
      rewrite C. left. reflexivity.
Qed.

(* the vertex list handed to the inside test is closed: its last vertex repeats the first *)
Definition closed_ok (vs : list pt) : Prop :=
  match vs with [] => True | a :: _ => pteq (last vs a) a end.

Lemma close_poly_closed vs : closed_ok (close_poly vs).
Proof.
  destruct vs as [|a t]; [exact I|]. unfold close_poly.
  destruct (pt_eqb (last (a :: t) a) a) eqn:E.
  - unfold closed_ok. unfold pt_eqb in E. b2p. split; assumption.
  - change ((a :: t) ++ [a]) with (a :: (t ++ [a])). unfold closed_ok.
    change (a :: t ++ [a]) with ((a :: t) ++ [a]). rewrite last_snoc. apply pteq_refl.
Qed.

(* mixed_polygon_segments: between two ordinates v, v' with no crossing ordinate of x = k in [min, max], the even-odd
   parity of (k, v) and (k, v') along the vertical ray is the same *)
Theorem mixed_polygon_segments vs k v v' : closed_ok vs ->
  (forall y, In y (line_ordinates vs k) -> ~ (qmin v v' <= y /\ y <= qmax v v')) ->
  crossing_odd (map swap vs) (swap (k, v)) = crossing_odd (map swap vs) (swap (k, v')).
Proof.
  intros Hc Hfree. unfold crossing_odd. rewrite edges_map, !map_map. f_equal.
  apply map_ext_in. intros [a b] Hin. cbn [fst snd].
  destruct (bool_dec (Qltb k (fst a)) (Qltb k (fst b))) as [Hs|Hd].
  - rewrite !edge_cross_v_same by assumption. reflexivity.
  - (* a side change: the edge is one of the listed ones (the closing edge of a closed list is degenerate) *)
    assert (Ho : In (a, b) (edges_open vs)).
    { destruct vs as [|a0 t]; [destruct Hin|]. unfold edges in Hin. apply in_app_or in Hin.
      destruct Hin as [|[E|[]]]; [assumption|]. exfalso. injection E as <- <-.
      cbn in Hc. destruct Hc as [Hx _]. apply Hd. apply Qltb_comp; [reflexivity|exact Hx]. }
    destruct (ordinate_listed vs a b k Ho Hd) as [y0 [Hy0 Ey]].
    specialize (Hfree y0 Hy0).
    apply eq_true_iff_eq. rewrite !(edge_cross_v a b k) by assumption. rewrite <- Ey.
    revert Hfree. dabs; intros; split; intros; destruct (Qlt_le_dec v y0), (Qlt_le_dec v' y0); try lra; exfalso; apply Hfree; split; lra.
Qed.
