(* C09 — meaning of the numpy / Python primitives the generated file coq/gen/Gen_catroi.v refers to (TRUSTED, hand-written;
   definitions only).  Labels are integers (their rank in ascending label order), as in C09/Model.v. *)
From Coq Require Import ZArith List Bool QArith Qround.
Import ListNotations.
From GV Require Import Common.PyInt C08.Model C09.Model.
Open Scope Z_scope.

(* seq[a:b] on a list: CPython's index normalisation (Common.PyInt.slice_indices: negative bounds count from the end, everything is
   clipped to [0, len]), then the elements at start <= i < stop *)
Definition py_slice (l : list Z) (a b : option Z) : list Z :=
  match slice_indices (Slice a b None) (zlen l) with
  | Some (s, e, _) => skipn (Z.to_nat s) (firstn (Z.to_nat e) l)
  | None => []
  end.

(* np.unique: ascending, without repetition *)
Definition np_unique (l : list Z) : list Z := zunique l.

(* np.searchsorted(a, v) (side='left') on an ascending array: the number of entries below v *)
Definition np_searchsorted (a : list Z) (v : Z) : Z := Z.of_nat (searchsorted a v).
(* side='right': the number of entries not above v *)
Definition np_searchsorted_right (a : list Z) (v : Z) : Z := Z.of_nat (length (filter (fun y => y <=? v) a)).

(* an attribute that may be None *)
Definition is_none {A} (o : option A) : bool := match o with None => true | Some _ => false end.
Definition the (o : option (list Z)) : list Z := match o with Some l => l | None => [] end.

(* float comparisons / rounding on rationals *)
Definition q_lt (a b : Q) : bool := Qltb a b.
Definition q_le (a b : Q) : bool := Qleb a b.
Definition q_eq (a b : Q) : bool := Qeqb a b.

(* ---------- the decision tree of roi_to_subset_state ---------- *)
(* the class of the region, as far as isinstance tests can tell *)
Inductive roi_class := CRange | CRectangular | CCategorical | CPolygonal | CCircular | CElliptical | CAnnulus | COther.
Definition cls_eqb (a b : roi_class) : bool :=
  match a, b with
  | CRange, CRange | CRectangular, CRectangular | CCategorical, CCategorical | CPolygonal, CPolygonal
  | CCircular, CCircular | CElliptical, CElliptical | CAnnulus, CAnnulus | COther, COther => true
  | _, _ => false
  end.
(* what a call returns: the constructor of the subset state and the attributes / category lists it is given *)
Inductive dleaf :=
| LFromRange (on_x : bool)        (* CategoricalROISubsetState.from_range(categories, att, roi.min, roi.max) *)
| LRange (on_x : bool)            (* RangeSubsetState(roi.min, roi.max, att) *)
| LAndOfRanges                    (* AndState(x range -> this function, y range -> this function) *)
| LCategorical                    (* CategoricalROISubsetState(roi=roi, att=x_att) *)
| LLattice2D                      (* CategoricalROISubsetState2D over x_categories x y_categories *)
| LMultiRange (cat_on_x : bool)   (* CategoricalMultiRangeSubsetState; polygon vertices swapped when the categories are on y *)
| LRoi (polygonised : bool).      (* RoiSubsetState; polygonised = a PolygonalROI is built from roi.to_polygon() first *)
