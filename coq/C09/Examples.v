(* C09 — non-vacuity: concrete instances of the hypotheses of Property.v, and sanity runs. *)
From Coq Require Import ZArith List Bool QArith Qround Lqa Lia.
Import ListNotations.
From GV Require Import Common.Wire C08.Model C09.Model C09.Lemmas.
From GV Require gen.Gen_catroi.
Open Scope Q_scope.

(* from_range: ceil on both bounds, clamps at 0; an integer lower bound is included (boundary), an integer upper bound is not *)
Example fr1 : from_range 4 (1 # 2) (5 # 2) = [1; 2]%Z. Proof. vm_compute. reflexivity. Qed.
Example fr2 : from_range 4 (-3) 1 = [0]%Z. Proof. vm_compute. reflexivity. Qed.
Example fr3 : from_range 4 1 3 = [1; 2]%Z. Proof. vm_compute. reflexivity. Qed.
Example fr_hyp : (0 <= 2 < 4)%Z /\ ~ inject_Z 2 == 1 # 2 /\ ~ inject_Z 2 == 5 # 2.
Proof. split; [lia|]. split; intro H; vm_compute in H; discriminate. Qed.

(* explicit category order c, a, d, b (ranks 2, 0, 3, 1): the range (1/2, 5/2) selects positions 1, 2 = labels a, d;
   the stored categories are ascending ([0; 3]) and the binary search accepts exactly a and d *)
Example label_hyp : NoDup [2; 0; 3; 1]%Z /\ (0 <= 2 < Z.of_nat (length [2; 0; 3; 1]%Z))%Z.
Proof. split; [repeat constructor; cbn; intuition discriminate|cbn; lia]. Qed.
Example label_stored : stored_from_range [2; 0; 3; 1]%Z (1 # 2) (5 # 2) = [0; 3]%Z. Proof. vm_compute. reflexivity. Qed.
Example label_contains : map (cat_contains_ss (stored_from_range [2; 0; 3; 1]%Z (1 # 2) (5 # 2))) [0; 1; 2; 3]%Z = [true; false; false; true].
Proof. vm_compute. reflexivity. Qed.
(* on an unsorted stored list the binary search misses: why from_range has to go through np.unique *)
Example label_unsorted_misses : cat_contains_ss [2; 0; 3]%Z 2 = false. Proof. vm_compute. reflexivity. Qed.

(* an unrotated rectangle over (categorical x with 3 labels, numeric y) is the And of a category set and an inclusive range *)
Example rect_state :
  roi_to_state (R2 (Rect (- (1 # 2)) (5 # 2) (3 # 4) (3 # 2) B0 1 0) []) (KCat 3) KNum
  = SAnd (SCat AX [0; 1; 2]%Z) (SRange AY (3 # 4) (3 # 2)).
Proof. vm_compute. reflexivity. Qed.
Example rect_hyp :
  is_cat (KCat 3) || is_cat KNum = true /\ coord_ok (KCat 3) (ECode 1) /\ coord_ok KNum (EVal 1) /\
  plot (ECode 1) = Some (inject_Z 1) /\ plot (EVal 1) = Some 1.
Proof. repeat split; cbn; lia. Qed.
Example rect_sel : sem (roi_to_state (R2 (Rect (- (1 # 2)) (5 # 2) (3 # 4) (3 # 2) B0 1 0) []) (KCat 3) KNum) (ECode 1, EVal 1) = true.
Proof. vm_compute. reflexivity. Qed.
Example rect_nan : sem (roi_to_state (R2 (Rect (- (1 # 2)) (5 # 2) (3 # 4) (3 # 2) B0 1 0) []) (KCat 3) KNum) (ECode 1, ENaN) = false.
Proof. vm_compute. reflexivity. Qed.

(* the repaired dispatch: a rotated rectangle on a categorical axis goes through the polygon path (F-C09) *)
Example rotated_rect_state :
  roi_to_state (R2 (Rect 0 2 0 1 Bgen (3 # 5) (4 # 5)) []) (KCat 3) KNum = SMulti AX [(1%Z, [(- (1 # 3), 4 # 3)])].
Proof. vm_compute. reflexivity. Qed.
Example rotated_rect_path : path_of (R2 (Rect 0 2 0 1 Bgen (3 # 5) (4 # 5)) []) (KCat 3) KNum = PPolyMixed.
Proof. reflexivity. Qed.

(* both axes categorical: a circle of radius 5/4 about (1,1) over a 3 x 3 lattice selects the plus-shaped set *)
Example circle_2d :
  roi_to_state (R2 (Circle 1 1 (5 # 4)) []) (KCat 3) (KCat 3) = SCat2D [(0, [1]); (1, [0; 1; 2]); (2, [1])]%Z.
Proof. vm_compute. reflexivity. Qed.

(* line intersections of a W-shaped polygon: a vertex hit on x = 1 and x = 2 *)
Definition Wpoly : list pt := [(- (1 # 2), 0); (1, 3); (2, 1 # 2); (3, 3); (7 # 2, 0)].
Example W_closed : closed_ok (close_poly Wpoly). Proof. apply close_poly_closed. Qed.
Example W_ordinates : line_ordinates (close_poly Wpoly) 2 = [1 # 2; 0]. Proof. vm_compute. reflexivity. Qed.
Example W_segments : segments Wpoly 1 = [(0, 3)] /\ segments Wpoly 2 = [(0, 1 # 2)]. Proof. vm_compute. split; reflexivity. Qed.
(* the hypothesis of mixed_polygon_segments is satisfiable: no ordinate of x = 2 lies in [1/8, 3/8] *)
Example W_gap : forall y, In y (line_ordinates (close_poly Wpoly) 2) -> ~ (qmin (1 # 8) (3 # 8) <= y /\ y <= qmax (1 # 8) (3 # 8)).
Proof.
  rewrite W_ordinates. intros y [<-|[<-|[]]]; vm_compute; intros [H1 H2]; try (apply H1; reflexivity); try (apply H2; reflexivity).
Qed.
Example W_parity : crossing_odd (map swap (close_poly Wpoly)) (swap (2, 1 # 8)) = true /\
                   crossing_odd (map swap (close_poly Wpoly)) (swap (2, 1)) = false.
Proof. vm_compute. split; reflexivity. Qed.

(* the W polygon with its ordinates multiplied by 2^-40: the segments scale along, the selection of the scaled value is the same *)
Example W_scaled_segments : segments (map (scale_y (1 # 1099511627776)) Wpoly) 1 = [(0, 3 # 1099511627776)].
Proof. vm_compute. reflexivity. Qed.
Example W_scale_hyp : 0 < 1 # 1099511627776. Proof. reflexivity. Qed.

(* wire: x categorical with 3 labels, y numeric, rotated rectangle, three elements *)
Example wire_run :
  run_case (T 1 [T 0 [leaf 0; leaf 1];
                 T 1 [T 0 [leaf 0; leaf 1]; T 0 [leaf 2; leaf 1]; T 0 [leaf 0; leaf 1]; T 0 [leaf 1; leaf 1]; leaf 2; T 0 [leaf 3; leaf 5]; T 0 [leaf 4; leaf 5]];
                 T 1 [leaf 3]; leaf 0;
                 T 0 [T 0 [T 1 [leaf 1]; T 2 [T 0 [leaf 1; leaf 1]]]; T 0 [T 1 [leaf 0]; T 2 [T 0 [leaf 1; leaf 1]]]; T 0 [T 1 [leaf 1]; T 0 []]]])
  = T 0 [T 5 [leaf 0; T 0 [leaf 1; T 0 [T 0 [leaf (-1); leaf 3]; T 0 [leaf 4; leaf 3]]]]; T 0 [leaf 1; leaf 0; leaf 0]; T 0 [leaf 1; leaf 0; leaf 0]; T 0 [leaf 0; leaf 0; leaf 0]].
Proof. vm_compute. reflexivity. Qed.

(* display jitter: category 2 drawn at 2 - 2/5 and category 1 drawn at 1 + 2/5, range (3/2, 7/2) over 5 categories: the index decides *)
Example jitter_example :
  mask_j (roi_to_state (R2 (Range true (3 # 2) (7 # 2)) []) (KCat 5) KNum)
         [(JCode 2 (- (2 # 5)), JVal 0); (JCode 1 (2 # 5), JVal 0)] = [true; false].
Proof. vm_compute. reflexivity. Qed.
(* a lookup by the truncated displayed coordinate would take the first element for category 1; the nearest integer gives 2 *)
Example truncation_differs : Qfloor (inject_Z 2 + - (2 # 5)) = 1%Z /\ nearest (inject_Z 2 + - (2 # 5)) = 2%Z.
Proof. vm_compute. split; reflexivity. Qed.
(* the translated functions on concrete input: categories (c, a, b) = ranks (2, 0, 1), range (1/2, 5/2) keeps positions 1, 2 = labels a, b *)
Example translated_example :
  Gen_catroi.from_range_stored [2; 0; 1]%Z (1 # 2) (5 # 2) = [0; 1]%Z /\
  Gen_catroi.contains (Some [0; 1]%Z) 1%Z = true /\ Gen_catroi.contains (Some [0; 1]%Z) 2%Z = false /\
  Gen_catroi.dispatch CRectangular true false true false true = LAndOfRanges /\
  Gen_catroi.dispatch CRectangular true false true false false = LMultiRange true.
Proof. vm_compute. repeat split; reflexivity. Qed.
