From Coq Require Import ZArith ExtrOcamlBasic.
From GV Require Import Common.Wire C09.Model.
Extraction "c09_model.ml" run_case Z.add Z.mul Z.div_eucl Z.opp.
