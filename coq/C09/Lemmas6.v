(* C09 — the display jitter of categorical components: the selection ignores it, and the category index it reads is the nearest
   integer of the displayed coordinate. *)
From Coq Require Import ZArith List Bool QArith Qround Lqa Lia.
Import ListNotations.
From GV Require Import Common.Wire C08.Model C08.QBase C09.Model C09.Lemmas1.
Open Scope Q_scope.

Lemma label_of_set_jitter c j : label_of (set_jitter c j) = label_of c.
Proof. destruct c; reflexivity. Qed.

Lemma strip_set_jitter e jx jy : strip (set_jitter (fst e) jx, set_jitter (snd e) jy) = strip e.
Proof. unfold strip. cbn [fst snd]. rewrite !label_of_set_jitter. reflexivity. Qed.

Lemma mask_j_plain st es : mask_j st es = map (sem st) (map strip es).
Proof. unfold mask_j. rewrite map_map. reflexivity. Qed.

(* jitter_ignored: whatever offsets the categorical arrays carry (one pair per element, no bound needed), the mask is the mask of
   the offset-free elements *)
Theorem jitter_ignored st : forall es js, length js = length es ->
  mask_j st (jitter_elems es js) = map (sem st) (map strip es).
Proof.
  induction es as [|e es IH]; intros [|p js] Hlen; cbn in Hlen; try discriminate; [reflexivity|].
  unfold jitter_elems, mask_j in *. cbn [combine map fst snd].
  rewrite strip_set_jitter. f_equal. apply IH. lia.
Qed.

Corollary jitter_ignored_pair st es js js' : length js = length es -> length js' = length es ->
  mask_j st (jitter_elems es js) = mask_j st (jitter_elems es js').
Proof. intros H H'. rewrite !jitter_ignored by assumption. reflexivity. Qed.

(* the category index is the nearest integer of the displayed coordinate k + j, for every offset -1/2 <= j < 1/2 *)
Theorem displayed_nearest k j : -(1 # 2) <= j -> j < 1 # 2 -> nearest (inject_Z k + j) = k.
Proof.
  intros Hlo Hhi. unfold nearest.
  set (x := inject_Z k + j + (1 # 2)).
  pose proof (Qfloor_le x) as H1. pose proof (Qlt_floor x) as H2.
  assert (A : inject_Z (Qfloor x) < inject_Z (k + 1)).
  { rewrite inject_Z_plus. unfold x in *. change (inject_Z 1) with 1. lra. }
  assert (B : inject_Z k < inject_Z (Qfloor x + 1)).
  { unfold x in *. lra. }
  rewrite <- Zlt_Qlt in A, B. lia.
Qed.

(* range_jitter_exact: a range region over a categorical axis selects an element displayed at d = k + j (|j| < 1/2, any number of
   categories, k not on an edge) exactly when the nearest category position of d lies strictly inside the range *)
Theorem range_jitter_exact n lo hi k j d : (0 <= k < n)%Z -> -(1 # 2) <= j -> j < 1 # 2 ->
  ~ inject_Z k == lo -> ~ inject_Z k == hi -> displayed (JCode k j) = Some d ->
  (zmem k (from_range n lo hi) = true <-> lo < inject_Z (nearest d) /\ inject_Z (nearest d) < hi).
Proof.
  intros Hk Hj1 Hj2 Hlo Hhi Hd. cbn in Hd. injection Hd as <-.
  rewrite displayed_nearest by assumption. rewrite zmem_in. apply from_range_exact; assumption.
Qed.

(* the same through the dispatch: the state a range region gives on a categorical x axis, applied to an element whose array carries
   the offset j *)
Theorem range_dispatch_jitter n lo hi g yk k j c : (0 <= k < n)%Z -> -(1 # 2) <= j -> j < 1 # 2 ->
  ~ inject_Z k == lo -> ~ inject_Z k == hi ->
  mask_j (roi_to_state (R2 (Range true lo hi) g) (KCat n) yk) [(JCode k j, c)] =
  [Qltb lo (inject_Z (nearest (inject_Z k + j))) && Qltb (inject_Z (nearest (inject_Z k + j))) hi].
Proof.
  intros Hk Hj1 Hj2 Hlo Hhi. rewrite displayed_nearest by assumption.
  unfold mask_j. cbn [map]. f_equal.
  cbn [roi_to_state range_state strip label_of fst snd sem get].
  destruct (zmem k (from_range n lo hi)) eqn:E.
  - apply zmem_in in E. apply from_range_exact in E; try assumption. destruct E as [E1 E2].
    symmetry. apply andb_true_iff. split; apply Qltb_lt; assumption.
  - symmetry. apply not_true_iff_false. intros H. apply andb_true_iff in H. destruct H as [H1 H2].
    apply Qltb_lt in H1, H2.
    assert (In k (from_range n lo hi)) as Hin by (apply from_range_exact; auto).
    apply zmem_in in Hin. congruence.
Qed.
