(* C09 — a drawn region becomes a selection of exactly the points the region contains.
   Statements only; proofs are `exact` of lemmas of C09/Lemmas*.v.  `sem st e` is the mask bit of element e under the
   returned subset state; plotted positions are category indices on categorical axes. *)
From Coq Require Import ZArith List Bool QArith.
Import ListNotations.
From GV Require Import Common.Wire C08.Model C09.Model C09.Lemmas.
From GV Require gen.Gen_catroi.
Open Scope Q_scope.

(* from_range_exact: for any number of categories, a category index k different from both bounds is kept by
   CategoricalROI.from_range exactly when lo < k < hi (ceil rounding and the clamps at 0 included) *)
Theorem from_range_exact : forall n lo hi k, (0 <= k < n)%Z -> ~ inject_Z k == lo -> ~ inject_Z k == hi ->
  (In k (from_range n lo hi) <-> lo < inject_Z k /\ inject_Z k < hi).
Proof. exact Lemmas.from_range_exact. Qed.
Print Assumptions from_range_exact.

(* label_path_exact: the label level of the same path, for a component whose categories are listed in ANY order without repetition
   (labels = their rank in ascending label order): from_range stores np.unique of the slice, contains binary-searches the stored
   labels; the label plotted at position k is accepted exactly when from_range selects the index k *)
Theorem label_path_exact : forall cats lo hi k, NoDup cats -> (0 <= k < Z.of_nat (length cats))%Z ->
  cat_contains_ss (stored_from_range cats lo hi) (nth (Z.to_nat k) cats 0%Z) = zmem k (from_range (Z.of_nat (length cats)) lo hi).
Proof. exact Lemmas.label_path_exact. Qed.
Print Assumptions label_path_exact.

(* range regions: only the region's own axis matters; numeric (inclusive range) and categorical (from_range) alike *)
Theorem range_dispatch : forall (isx : bool) lo hi g xk yk e v,
  let a := if isx then AX else AY in
  coord_ok (if isx then xk else yk) (get a e) -> plot (get a e) = Some v -> ~ v == lo -> ~ v == hi ->
  sem (roi_to_state (R2 (Range isx lo hi) g) xk yk) e = range_contains isx lo hi (v, v).
Proof. exact Lemmas.range_dispatch. Qed.
Print Assumptions range_dispatch.

(* rect_decomposition: unrotated rectangle, at least one categorical axis (three of the four axis-kind combinations):
   And(x range, y range) selects e exactly when its plotted position is in the rectangle, off the edge lines *)
Theorem rect_decomposition : forall x0 x1 y0 y1 c s g xk yk e px py,
  is_cat xk || is_cat yk = true ->
  coord_ok xk (fst e) -> coord_ok yk (snd e) -> plot (fst e) = Some px -> plot (snd e) = Some py ->
  ~ px == x0 -> ~ px == x1 -> ~ py == y0 -> ~ py == y1 ->
  sem (roi_to_state (R2 (Rect x0 x1 y0 y1 B0 c s) g) xk yk) e = rect_contains x0 x1 y0 y1 B0 c s (px, py).
Proof. exact Lemmas.rect_decomposition. Qed.
Print Assumptions rect_decomposition.

(* categorical_2d_polygon: both axes categorical, any polygon-like region (rotated rectangles included after the repair):
   the selection dictionary built over the full lattice selects (i, j) exactly when contains (i, j) *)
Theorem categorical_2d_polygon : forall r g nx ny i j, (0 <= i < nx)%Z -> (0 <= j < ny)%Z ->
  (forall isx lo hi, r <> Range isx lo hi) -> (forall x0 x1 y0 y1 c s, r <> Rect x0 x1 y0 y1 B0 c s) ->
  sem (roi_to_state (R2 r g) (KCat nx) (KCat ny)) (ECode i, ECode j) = contains r (inject_Z i, inject_Z j).
Proof. exact Lemmas.categorical_2d_dispatch. Qed.
Print Assumptions categorical_2d_polygon.

(* mixed_polygon_segments: on the closed vertex list polygon_line_intersections works with, the even-odd parity along the
   line x = k is the same at v and v' when no crossing ordinate (vertex hit or proper crossing) lies in [min v v', max v v'] *)
Theorem mixed_polygon_segments : forall vs k v v', closed_ok vs ->
  (forall y, In y (line_ordinates vs k) -> ~ (qmin v v' <= y /\ y <= qmax v v')) ->
  crossing_odd (map swap vs) (swap (k, v)) = crossing_odd (map swap vs) (swap (k, v')).
Proof. exact Lemmas.mixed_polygon_segments. Qed.
Print Assumptions mixed_polygon_segments.

Theorem close_poly_closed : forall vs, closed_ok (close_poly vs).
Proof. exact Lemmas.close_poly_closed. Qed.
Print Assumptions close_poly_closed.

(* segments_sem: polygon_line_intersections end to end (sorted unique ordinates, mid-point test): an ordinate v that is not
   itself a crossing ordinate lies in a kept segment exactly when the even-odd parity at (k, v) is odd *)
Theorem segments_sem : forall vs k v, (forall y, In y (line_ordinates (close_poly vs) k) -> ~ y == v) ->
  existsb (fun s => Qleb (fst s) v && Qleb v (snd s)) (segments vs k) =
  crossing_odd (map swap (close_poly vs)) (swap (k, v)).
Proof. exact Lemmas.segments_sem. Qed.
Print Assumptions segments_sem.

(* mixed path, categorical x / numeric y and numeric x / categorical y: selected <-> odd parity at the plotted position *)
Theorem mixed_path_sem : forall vs n i v, (0 <= i < n)%Z ->
  (forall y, In y (line_ordinates (close_poly vs) (inject_Z i)) -> ~ y == v) ->
  sem (SMulti AX (multi vs n)) (ECode i, EVal v) = crossing_odd (map swap (close_poly vs)) (swap (inject_Z i, v)).
Proof. exact Lemmas.mixed_path_sem. Qed.
Print Assumptions mixed_path_sem.

Theorem mixed_path_sem_y : forall vs n j v, (0 <= j < n)%Z ->
  (forall y, In y (line_ordinates (close_poly (map swap vs)) (inject_Z j)) -> ~ y == v) ->
  sem (SMulti AY (multi (map swap vs) n)) (EVal v, ECode j) =
  crossing_odd (map swap (close_poly (map swap vs))) (swap (inject_Z j, v)).
Proof. exact Lemmas.mixed_path_sem_y. Qed.
Print Assumptions mixed_path_sem_y.

(* segments_scale / mixed_path_scale: multiplying the numeric axis by any s > 0 (vertices and value alike) does not change the
   selection - whatever the magnitude of the numeric attribute (no absolute tolerance may enter the intersection logic) *)
Theorem segments_scale : forall vs k v s, 0 < s ->
  (forall y, In y (line_ordinates (close_poly vs) k) -> ~ y == v) ->
  existsb (fun g => Qleb (fst g) (s * v) && Qleb (s * v) (snd g)) (segments (map (scale_y s) vs) k) =
  existsb (fun g => Qleb (fst g) v && Qleb v (snd g)) (segments vs k).
Proof. exact Lemmas.segments_scale. Qed.
Print Assumptions segments_scale.

Theorem mixed_path_scale : forall vs n i v s, 0 < s -> (0 <= i < n)%Z ->
  (forall y, In y (line_ordinates (close_poly vs) (inject_Z i)) -> ~ y == v) ->
  sem (SMulti AX (multi (map (scale_y s) vs) n)) (ECode i, EVal (s * v)) = sem (SMulti AX (multi vs n)) (ECode i, EVal v).
Proof. exact Lemmas.mixed_path_scale. Qed.
Print Assumptions mixed_path_scale.

(* numeric_numeric: with two numeric attributes the state is the region itself *)
Theorem numeric_numeric : forall r g e x y, (forall isx lo hi, r <> Range isx lo hi) ->
  plot (fst e) = Some x -> plot (snd e) = Some y ->
  sem (roi_to_state (R2 r g) KNum KNum) e = contains r (x, y).
Proof. exact Lemmas.numeric_numeric. Qed.
Print Assumptions numeric_numeric.

(* missing values are never selected by a 2-d region, on every path *)
Theorem nan_not_selected : forall r g xk yk e, (forall isx lo hi, r <> Range isx lo hi) ->
  fst e = ENaN \/ snd e = ENaN -> sem (roi_to_state (R2 r g) xk yk) e = false.
Proof. exact Lemmas.nan_not_selected. Qed.
Print Assumptions nan_not_selected.

(* dispatch_total: every (region class, axis kinds) takes exactly one code path and returns a state of that path's shape *)
Theorem dispatch_total : forall r xk yk, path_shape (path_of r xk yk) (roi_to_state r xk yk) = true.
Proof. exact Lemmas.dispatch_total. Qed.
Print Assumptions dispatch_total.

(* jitter_ignored: the categorical arrays of a dataset may carry display offsets (CategoricalComponent jitter: .codes = index + j);
   whatever the offsets - one pair (x, y) per element, in particular every vector with |j| < 1/2 - the mask the model computes (the one
   run_case returns) is the mask of the offset-free elements *)
Theorem jitter_ignored : forall st es js, length js = length es ->
  mask_j st (jitter_elems es js) = map (sem st) (map strip es).
Proof. exact Lemmas.jitter_ignored. Qed.
Print Assumptions jitter_ignored.

(* displayed_nearest: for -1/2 <= j < 1/2 the category index is the nearest integer of the displayed coordinate k + j *)
Theorem displayed_nearest : forall k j, -(1 # 2) <= j -> j < 1 # 2 -> nearest (inject_Z k + j) = k.
Proof. exact Lemmas.displayed_nearest. Qed.
Print Assumptions displayed_nearest.

(* range_jitter_exact: from_range selects an element displayed at d = k + j exactly when the nearest category position of d lies
   strictly between the bounds (any number of categories, k on neither bound) *)
Theorem range_jitter_exact : forall n lo hi k j d, (0 <= k < n)%Z -> -(1 # 2) <= j -> j < 1 # 2 ->
  ~ inject_Z k == lo -> ~ inject_Z k == hi -> displayed (JCode k j) = Some d ->
  (zmem k (from_range n lo hi) = true <-> lo < inject_Z (nearest d) /\ inject_Z (nearest d) < hi).
Proof. exact Lemmas.range_jitter_exact. Qed.
Print Assumptions range_jitter_exact.

(* range_dispatch_jitter: the same through roi_to_state and the mask of a jittered element *)
Theorem range_dispatch_jitter : forall n lo hi g yk k j c, (0 <= k < n)%Z -> -(1 # 2) <= j -> j < 1 # 2 ->
  ~ inject_Z k == lo -> ~ inject_Z k == hi ->
  mask_j (roi_to_state (R2 (Range true lo hi) g) (KCat n) yk) [(JCode k j, c)] =
  [Qltb lo (inject_Z (nearest (inject_Z k + j))) && Qltb (inject_Z (nearest (inject_Z k + j))) hi].
Proof. exact Lemmas.range_dispatch_jitter. Qed.
Print Assumptions range_dispatch_jitter.

(* ---- the source itself: coq/gen/Gen_catroi.v is regenerated from glue/core/roi.py and glue/core/subset.py on every run ---- *)

(* from_range_translated: what CategoricalROI.from_range (rounding of the bounds, the slice, update_categories) stores, translated from
   the source, is the model's stored_from_range - for all category lists and all bounds *)
Theorem from_range_translated : forall cats lo hi, Gen_catroi.from_range_stored cats lo hi = stored_from_range cats lo hi.
Proof. exact Lemmas.from_range_translated. Qed.
Print Assumptions from_range_translated.

(* contains_translated: CategoricalROI.contains, translated from the source, is the model's cat_contains_ss *)
Theorem contains_translated : forall stored x, Gen_catroi.contains (Some stored) x = cat_contains_ss stored x.
Proof. exact Lemmas.contains_translated. Qed.
Print Assumptions contains_translated.

(* dispatch_translated: the state built at the leaf which the translated decision tree of roi_to_subset_state reaches is the model's
   roi_to_state, for every region class and every pair of axis kinds *)
Theorem dispatch_translated : forall r xk yk, build r xk yk = roi_to_state r xk yk.
Proof. exact Lemmas.dispatch_translated. Qed.
Print Assumptions dispatch_translated.
