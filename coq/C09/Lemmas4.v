(* C09 — the label level of the range path: CategoricalROI.from_range stores np.unique of the slice of the component's categories
   (any category order), CategoricalROI.contains binary-searches the stored labels; together they select a label exactly when its
   position in the category order is selected by the code-level from_range. *)
From Coq Require Import ZArith List Bool QArith Qround Lqa Lia Setoid Morphisms.
Import ListNotations.
From GV Require Import Common.Wire C08.Model C08.QBase C09.Model C09.Lemmas1.
Open Scope Z_scope.

(* strictly ascending *)
Fixpoint zsorted (l : list Z) : Prop :=
  match l with [] => True | a :: t => (forall y, In y t -> a < y) /\ zsorted t end.

Lemma zinsert_uniq_In x l y : In y (zinsert_uniq x l) <-> y = x \/ In y l.
Proof.
  induction l as [|a t IH]; cbn [zinsert_uniq].
  - cbn. intuition.
  - destruct (x <? a) eqn:E1; [cbn; intuition|].
    destruct (x =? a) eqn:E2.
    + apply Z.eqb_eq in E2. subst. cbn. intuition.
    + cbn [In]. rewrite IH. intuition.
Qed.

Lemma zinsert_uniq_sorted x l : zsorted l -> zsorted (zinsert_uniq x l).
Proof.
  induction l as [|a t IH]; cbn [zinsert_uniq]; intros Hs.
  - cbn. split; [intros y []|exact I].
  - destruct Hs as [Ha Ht]. destruct (x <? a) eqn:E1.
    + apply Z.ltb_lt in E1. cbn [zsorted]. split; [|split; assumption].
      intros y [<-|Hy]; [assumption|]. specialize (Ha y Hy). lia.
    + apply Z.ltb_ge in E1. destruct (x =? a) eqn:E2; [split; assumption|]. apply Z.eqb_neq in E2.
      cbn [zsorted]. split; [|apply IH; assumption].
      intros y Hy. apply zinsert_uniq_In in Hy. destruct Hy as [->|Hy]; [lia|apply Ha; assumption].
Qed.

Lemma zunique_sorted l : zsorted (zunique l).
Proof. induction l as [|a t IH]; cbn; [exact I|]. apply zinsert_uniq_sorted. exact IH. Qed.
Lemma zunique_In l y : In y (zunique l) <-> In y l.
Proof.
  induction l as [|a t IH]; [reflexivity|]. cbn [zunique fold_right]. rewrite zinsert_uniq_In. fold (zunique t). rewrite IH. cbn. intuition.
Qed.

(* the binary search of CategoricalROI.contains is membership on ascending stored categories *)
Lemma cat_contains_ss_skip a b t x : a < x ->
  cat_contains_ss (a :: b :: t) x = cat_contains_ss (b :: t) x.
Proof.
  intros H. unfold cat_contains_ss, searchsorted.
  assert (E : (a <? x) = true) by (apply Z.ltb_lt; exact H).
  assert (Hf : filter (fun y => y <? x) (a :: b :: t) = a :: filter (fun y => y <? x) (b :: t)).
  { change (filter (fun y => y <? x) (a :: b :: t)) with (if a <? x then a :: filter (fun y => y <? x) (b :: t) else filter (fun y => y <? x) (b :: t)).
    rewrite E. reflexivity. }
  rewrite Hf. set (fl := filter (fun y => y <? x) (b :: t)).
  assert (L1 : length (a :: fl) = S (length fl)) by reflexivity.
  assert (L2 : (length (a :: b :: t) - 1 = S (length (b :: t) - 1))%nat) by (cbn [length]; lia).
  rewrite L1, L2. rewrite <- Nat.succ_min_distr. reflexivity.
Qed.

Lemma filter_lt_nil a t x : (forall y, In y t -> a < y) -> x <= a -> filter (fun y => y <? x) t = [].
Proof.
  intros Ha Hx. induction t as [|b t IH]; [reflexivity|]. cbn [filter].
  assert (a < b) by (apply Ha; left; reflexivity).
  assert (Eb : (b <? x) = false) by (apply Z.ltb_ge; lia). rewrite Eb. apply IH. intros y Hy. apply Ha. right. exact Hy.
Qed.

Lemma cat_contains_ss_sorted stored x : zsorted stored -> (cat_contains_ss stored x = true <-> In x stored).
Proof.
  induction stored as [|a t IH]; [cbn; intuition discriminate|].
  intros [Ha Ht]. destruct (Z_lt_le_dec a x) as [Hlt|Hge].
  - destruct t as [|b t'].
    + unfold cat_contains_ss, searchsorted. cbn [filter]. assert (E : (a <? x) = true) by (apply Z.ltb_lt; exact Hlt). rewrite E.
      cbn. rewrite Z.eqb_eq. split; [lia|intros [->|[]]; lia].
    + rewrite (cat_contains_ss_skip a b t' x Hlt), (IH Ht). split; [intros H; right; exact H|intros [->|H]; [lia|exact H]].
  - unfold cat_contains_ss, searchsorted. cbn [filter].
    assert (E : (a <? x) = false) by (apply Z.ltb_ge; exact Hge). rewrite E.
    rewrite (filter_lt_nil a t x Ha Hge). cbn [length Nat.min nth]. rewrite Z.eqb_eq. split; [intros ->; left; reflexivity|].
    intros [->|Hx]; [reflexivity|]. specialize (Ha x Hx). lia.
Qed.

(* a Python slice l[a:b] *)
Lemma slice_In_ex (l : list Z) a b x :
  In x (skipn a (firstn b l)) <-> exists i, (a <= i < b)%nat /\ (i < length l)%nat /\ nth i l 0 = x.
Proof.
  revert a b. induction l as [|h t IH]; intros a b.
  - rewrite firstn_nil, skipn_nil. cbn. split; [intros []|intros [i [_ [H _]]]; lia].
  - destruct b as [|b'].
    + cbn [firstn]. rewrite skipn_nil. cbn. split; [intros []|intros [i [H _]]; lia].
    + cbn [firstn]. destruct a as [|a'].
      * cbn [skipn In]. rewrite <- (skipn_O (firstn b' t)), IH. split.
        -- intros [<-|[i [H1 [H2 H3]]]]; [exists 0%nat; cbn; repeat split; lia|exists (S i); cbn [length nth]; repeat split; try lia; exact H3].
        -- intros [[|i] [H1 [H2 H3]]]; [left; exact H3|right; exists i; cbn [length nth] in *; repeat split; try lia; exact H3].
      * cbn [skipn]. rewrite IH. split.
        -- intros [i [H1 [H2 H3]]]. exists (S i). cbn [length nth]. repeat split; try lia; exact H3.
        -- intros [[|i] [H1 [H2 H3]]]; [lia|]. exists i. cbn [length nth] in *. repeat split; try lia; exact H3.
Qed.

Lemma slice_In (l : list Z) a b k : NoDup l -> (k < length l)%nat ->
  (In (nth k l 0) (skipn a (firstn b l)) <-> (a <= k < b)%nat).
Proof.
  intros Hnd Hk. rewrite slice_In_ex. split.
  - intros [i [H1 [H2 H3]]]. assert (i = k) by (apply (proj1 (NoDup_nth l 0) Hnd); assumption). subst. exact H1.
  - intros H. exists k. repeat split; try lia.
Qed.

Lemma clamp_ceil_nonneg q : 0 <= clamp_ceil q.
Proof.
  unfold clamp_ceil. destruct (Qltb 0 q) eqn:E; [|lia]. apply Qltb_lt in E.
  assert (0 < Qceiling q) by (apply lt_ceil_iff; exact E). lia.
Qed.

(* label_path_exact: for a component whose categories are given in ANY order (no repetition), the label at plot position k is
   accepted by the stored-and-sorted CategoricalROI exactly when the code-level from_range selects k *)
Theorem label_path_exact cats lo hi k : NoDup cats -> 0 <= k < Z.of_nat (length cats) ->
  cat_contains_ss (stored_from_range cats lo hi) (nth (Z.to_nat k) cats 0) = zmem k (from_range (Z.of_nat (length cats)) lo hi).
Proof.
  intros Hnd Hk. apply eq_true_iff_eq.
  unfold stored_from_range. rewrite (cat_contains_ss_sorted _ _ (zunique_sorted _)), zunique_In.
  unfold slice_cats. rewrite (slice_In cats _ _ (Z.to_nat k) Hnd) by lia.
  rewrite zmem_in. unfold from_range. rewrite filter_In, zrange_in, andb_true_iff, Z.leb_le, Z.ltb_lt.
  pose proof (clamp_ceil_nonneg lo). pose proof (clamp_ceil_nonneg hi). split; intros; lia.
Qed.
