(* C09 — polygon_line_intersections end to end: the kept segments (sorted unique ordinates, mid-point test) contain an
   ordinate v that is not a crossing ordinate exactly when the even-odd parity at (k, v) is odd. *)
From Coq Require Import ZArith List Bool QArith Qround Lqa Lia Setoid Morphisms.
Import ListNotations.
From GV Require Import Common.Wire C08.Model C08.QBase C08.Lemmas1 C08.Lemmas2 C08.Lemmas3 C09.Model C09.Lemmas1 C09.Lemmas2.
Open Scope Q_scope.

(* ------------------------------------------------------------------ np.sort(np.unique(...)) *)
Fixpoint ssorted (l : list Q) : Prop :=
  match l with [] => True | a :: t => (forall y, In y t -> a < y) /\ ssorted t end.

Lemma insert_uniq_In x l y : In y (insert_uniq x l) -> y = x \/ In y l.
Proof.
  induction l as [|a t IH]; cbn [insert_uniq].
  - intros [<-|[]]. left; reflexivity.
  - destruct (Qltb x a); [intros [<-|H]; [left; reflexivity|right; assumption]|].
    destruct (Qeqb x a); [intros H; right; assumption|].
    intros [<-|H]; [right; left; reflexivity|]. destruct (IH H); [left; assumption|right; right; assumption].
Qed.

Lemma insert_uniq_sorted x l : ssorted l -> ssorted (insert_uniq x l).
Proof.
  induction l as [|a t IH]; cbn [insert_uniq]; intros Hs.
  - cbn. split; [intros y []|exact I].
  - destruct Hs as [Ha Ht].
    destruct (Qltb x a) eqn:E1; b2p.
    + cbn [ssorted]. split; [|split; assumption].
      intros y [<-|Hy]; [assumption|]. specialize (Ha y Hy). lra.
    + destruct (Qeqb x a) eqn:E2; b2p; [split; assumption|].
      cbn [ssorted]. split; [|apply IH; assumption].
      intros y Hy. destruct (insert_uniq_In x t y Hy) as [->|Hy']; [|apply Ha; assumption].
      destruct (Qeq_dec x a); [contradiction|lra].
Qed.

Lemma sort_unique_sorted l : ssorted (sort_unique l).
Proof. induction l as [|a t IH]; cbn; [exact I|]. apply insert_uniq_sorted. exact IH. Qed.

Lemma sort_unique_In l y : In y (sort_unique l) -> In y l.
Proof.
  induction l as [|a t IH]; cbn [sort_unique fold_right]; [intros []|].
  intros H. destruct (insert_uniq_In a _ y H) as [->|H']; [left; reflexivity|right; apply IH; exact H'].
Qed.

Lemma insert_uniq_has x l : exists y, In y (insert_uniq x l) /\ y == x.
Proof.
  induction l as [|a t IH]; cbn [insert_uniq].
  - exists x. split; [left; reflexivity|reflexivity].
  - destruct (Qltb x a); [exists x; split; [left; reflexivity|reflexivity]|].
    destruct (Qeqb x a) eqn:E; b2p.
    + exists a. split; [left; reflexivity|symmetry; assumption].
    + destruct IH as [y [Hy Ey]]. exists y. split; [right; assumption|assumption].
Qed.
Lemma insert_uniq_keeps x l y : In y l -> In y (insert_uniq x l).
Proof.
  induction l as [|a t IH]; [intros []|]. cbn [insert_uniq]. intros Hy.
  destruct (Qltb x a); [right; assumption|]. destruct (Qeqb x a); [assumption|].
  destruct Hy as [<-|Hy]; [left; reflexivity|right; apply IH; assumption].
Qed.
Lemma sort_unique_has l y : In y l -> exists y', In y' (sort_unique l) /\ y' == y.
Proof.
  induction l as [|a t IH]; [intros []|]. cbn [sort_unique fold_right]. intros [<-|Hy].
  - apply insert_uniq_has.
  - destruct (IH Hy) as [y' [H1 H2]]. exists y'. split; [apply insert_uniq_keeps; assumption|assumption].
Qed.

(* ------------------------------------------------------------------ consecutive pairs of a sorted list *)
Lemma pairs_spec S a b : ssorted S -> In (a, b) (pairs S) ->
  a < b /\ In a S /\ In b S /\ forall y, In y S -> y <= a \/ b <= y.
Proof.
  induction S as [|a0 [|b0 t] IH]; [intros _ []|intros _ []|].
  intros Hs. change (pairs (a0 :: b0 :: t)) with ((a0, b0) :: pairs (b0 :: t)). intros [E|Hin].
  - injection E as <- <-. destruct Hs as [H0 [Hb Ht]].
    split; [apply H0; left; reflexivity|]. split; [left; reflexivity|]. split; [right; left; reflexivity|].
    intros y [<-|[<-|Hy]]; [left; lra|right; lra|right]. specialize (Hb y Hy). lra.
  - destruct Hs as [H0 Hs']. destruct (IH Hs' Hin) as [Hab [Ia [Ib Hc]]].
    split; [assumption|]. split; [right; assumption|]. split; [right; assumption|].
    intros y [<-|Hy]; [|apply Hc; assumption]. left. specialize (H0 a Ia). lra.
Qed.

Lemma locate S v : ssorted S -> S <> [] -> (forall y, In y S -> ~ y == v) ->
  (forall y, In y S -> v < y) \/ (forall y, In y S -> y < v) \/ exists a b, In (a, b) (pairs S) /\ a < v /\ v < b.
Proof.
  induction S as [|a [|b t] IH]; [congruence| |]; intros Hs _ Hne.
  - assert (~ a == v) by (apply Hne; left; reflexivity).
    destruct (Qlt_le_dec v a); [left|right; left]; intros y [E|[]]; subst y; [assumption|].
    destruct (Qeq_dec a v); [contradiction|lra].
  - destruct Hs as [Ha Hs'].
    assert (Na : ~ a == v) by (apply Hne; left; reflexivity).
    destruct (Qlt_le_dec v a) as [Hlt|Hge].
    + left. intros y [<-|Hy]; [assumption|]. specialize (Ha y Hy). lra.
    + assert (Hav : a < v) by (destruct (Qeq_dec a v); [contradiction|lra]).
      destruct (IH Hs') as [H1|[H2|[a' [b' [Hin [H3 H4]]]]]]; [congruence|intros y Hy; apply Hne; right; assumption| | |].
      * right; right. exists a, b. split; [left; reflexivity|]. split; [assumption|apply H1; left; reflexivity].
      * right; left. intros y [<-|Hy]; [assumption|apply H2; assumption].
      * right; right. exists a', b'. split; [right; assumption|split; assumption].
Qed.

(* ------------------------------------------------------------------ the inside test along the vertical ray *)
Lemma map_fst_swap vs : map fst (map swap vs) = map snd vs.
Proof. rewrite map_map. apply map_ext. intros [x y]. reflexivity. Qed.
Lemma map_snd_swap vs : map snd (map swap vs) = map fst vs.
Proof. rewrite map_map. apply map_ext. intros [x y]. reflexivity. Qed.

Lemma bbox_keep_swap vs p : bbox_keep (map swap vs) (swap p) = bbox_keep vs p.
Proof.
  unfold bbox_keep. cbv zeta. rewrite map_fst_swap, map_snd_swap. unfold swap. cbn [fst snd].
  destruct (Qleb _ (fst p)), (Qleb (fst p) _), (Qleb _ (snd p)), (Qleb (snd p) _); reflexivity.
Qed.

Lemma inside_v_eq vs p : inside_v vs p = crossing_odd (map swap vs) (swap p).
Proof.
  unfold inside_v. cbv zeta. destruct (crossing_odd (map swap vs) (swap p)) eqn:E; [|apply andb_false_r].
  pose proof (poly_prefilter_sound _ _ E) as K. rewrite bbox_keep_swap in K. rewrite K. reflexivity.
Qed.

Lemma parity_all_false l : (forall b, In b l -> b = false) -> parity l = false.
Proof.
  induction l as [|b t IH]; [reflexivity|]. intros H. cbn [parity].
  rewrite (H b (or_introl eq_refl)), IH; [reflexivity|]. intros b' Hb'. apply H. right. assumption.
Qed.

Lemma side_change_listed vs k a b : closed_ok vs -> In (a, b) (edges vs) -> Qltb k (fst a) <> Qltb k (fst b) ->
  exists y0, In y0 (line_ordinates vs k) /\ y0 == yint a b k.
Proof.
  intros Hc Hin Hd. apply ordinate_listed; [|assumption].
  destruct vs as [|a0 t]; [destruct Hin|]. unfold edges in Hin. apply in_app_or in Hin.
  destruct Hin as [|[E|[]]]; [assumption|]. exfalso. injection E as <- <-.
  cbn in Hc. destruct Hc as [Hx _]. apply Hd. apply Qltb_comp; [reflexivity|exact Hx].
Qed.

(* above every crossing ordinate the ray meets nothing; below every one it meets each side change, an even number *)
Lemma parity_above vs k v : closed_ok vs -> (forall y, In y (line_ordinates vs k) -> y < v) ->
  crossing_odd (map swap vs) (swap (k, v)) = false.
Proof.
  intros Hc Hall. unfold crossing_odd. rewrite edges_map, map_map. apply parity_all_false.
  intros bb Hb. apply in_map_iff in Hb. destruct Hb as [[a b] [<- Hin]]. cbn [fst snd].
  destruct (bool_dec (Qltb k (fst a)) (Qltb k (fst b))) as [Hs|Hd]; [apply edge_cross_v_same; assumption|].
  destruct (side_change_listed vs k a b Hc Hin Hd) as [y0 [Hy0 Ey]]. specialize (Hall y0 Hy0).
  destruct (edge_cross (swap (k, v)) (swap a) (swap b)) eqn:E; [|reflexivity].
  apply (edge_cross_v a b k v Hd) in E. lra.
Qed.

Lemma parity_below vs k v : closed_ok vs -> (forall y, In y (line_ordinates vs k) -> v < y) ->
  crossing_odd (map swap vs) (swap (k, v)) = false.
Proof.
  intros Hc Hall. unfold crossing_odd. rewrite edges_map, map_map.
  rewrite <- (cycle_parity (fun a => Qltb k (fst a)) vs). f_equal.
  apply map_ext_in. intros [a b] Hin. cbn [fst snd].
  destruct (bool_dec (Qltb k (fst a)) (Qltb k (fst b))) as [Hs|Hd].
  - rewrite (edge_cross_v_same a b k v Hs), Hs. destruct (Qltb k (fst b)); reflexivity.
  - destruct (side_change_listed vs k a b Hc Hin Hd) as [y0 [Hy0 Ey]]. specialize (Hall y0 Hy0).
    assert (E : edge_cross (swap (k, v)) (swap a) (swap b) = true) by (apply (edge_cross_v a b k v Hd); lra).
    rewrite E. destruct (Qltb k (fst a)), (Qltb k (fst b)); try reflexivity; congruence.
Qed.

Lemma midpoint_between a b : a < b -> a < midpoint (a, b) /\ midpoint (a, b) < b.
Proof. intros H. unfold midpoint. cbn [fst snd]. rewrite Qred_correct. split; lra. Qed.

(* ------------------------------------------------------------------ segments_sem *)
Theorem segments_sem vs k v : (forall y, In y (line_ordinates (close_poly vs) k) -> ~ y == v) ->
  existsb (fun s => Qleb (fst s) v && Qleb v (snd s)) (segments vs k) =
  crossing_odd (map swap (close_poly vs)) (swap (k, v)).
Proof.
  intros Hne. unfold segments. cbv zeta.
  set (c := close_poly vs) in *. set (S := sort_unique (line_ordinates c k)).
  pose proof (close_poly_closed vs) as Hc. fold c in Hc.
  pose proof (sort_unique_sorted (line_ordinates c k)) as Hs. fold S in Hs.
  assert (HneS : forall y, In y S -> ~ y == v) by (intros y Hy; apply Hne; apply sort_unique_In; exact Hy).
  (* no ordinate strictly inside a pair of consecutive sorted ordinates *)
  assert (Hgap : forall a b, In (a, b) (pairs S) -> forall y, In y (line_ordinates c k) -> y <= a \/ b <= y).
  { intros a b Hin y Hy. destruct (sort_unique_has _ y Hy) as [y' [Hy' Ey]]. fold S in Hy'.
    destruct (pairs_spec S a b Hs Hin) as [_ [_ [_ Hcons]]]. destruct (Hcons y' Hy'); [left|right]; lra. }
  assert (Hsame : forall a b, In (a, b) (pairs S) -> a < v -> v < b ->
            crossing_odd (map swap c) (swap (k, v)) = crossing_odd (map swap c) (swap (k, midpoint (a, b)))).
  { intros a b Hin H1 H2. destruct (pairs_spec S a b Hs Hin) as [Hab _]. destruct (midpoint_between a b Hab) as [M1 M2].
    apply mixed_polygon_segments; [exact Hc|]. intros y Hy [L1 L2].
    destruct (Hgap a b Hin y Hy); revert L1 L2; dabs; intros; lra. }
  apply eq_true_iff_eq. split.
  - intros H. apply existsb_exists in H. destruct H as [[a b] [Hin Hv]]. cbn [fst snd] in Hv.
    apply filter_In in Hin. destruct Hin as [Hin HF]. b2p.
    destruct (pairs_spec S a b Hs Hin) as [Hab [Ia [Ib _]]].
    assert (a < v) by (destruct (Qeq_dec a v); [exfalso; apply (HneS a Ia); assumption|lra]).
    assert (v < b) by (destruct (Qeq_dec b v); [exfalso; apply (HneS b Ib); assumption|lra]).
    rewrite (Hsame a b Hin) by assumption. rewrite <- inside_v_eq. exact HF.
  - intros Hodd.
    destruct S as [|s0 S'] eqn:ES.
    + (* no ordinate at all *)
      rewrite parity_above in Hodd; [discriminate|exact Hc|].
      intros y Hy. destruct (sort_unique_has _ y Hy) as [y' [Hy' _]]. fold S in Hy'. rewrite ES in Hy'. destruct Hy'.
    + destruct (locate (s0 :: S') v Hs) as [H1|[H2|[a [b [Hin [H3 H4]]]]]]; [congruence|exact HneS| | |].
      * rewrite parity_below in Hodd; [discriminate|exact Hc|].
        intros y Hy. destruct (sort_unique_has _ y Hy) as [y' [Hy' Ey]]. fold S in Hy'. rewrite ES in Hy'.
        specialize (H1 y' Hy'). lra.
      * rewrite parity_above in Hodd; [discriminate|exact Hc|].
        intros y Hy. destruct (sort_unique_has _ y Hy) as [y' [Hy' Ey]]. fold S in Hy'. rewrite ES in Hy'.
        specialize (H2 y' Hy'). lra.
      * apply existsb_exists. exists (a, b). cbn [fst snd]. split; [|b2p; lra].
        apply filter_In. split; [exact Hin|]. rewrite inside_v_eq. rewrite <- (Hsame a b Hin H3 H4). exact Hodd.
Qed.

(* the mixed path (x categorical, y numeric): the state selects (i, v) exactly when the even-odd parity at (i, v) is odd,
   for every value v that is not a crossing ordinate of the line x = i (those lie on the polygon's boundary) *)
Theorem mixed_path_sem vs n i v : (0 <= i < n)%Z ->
  (forall y, In y (line_ordinates (close_poly vs) (inject_Z i)) -> ~ y == v) ->
  sem (SMulti AX (multi vs n)) (ECode i, EVal v) = crossing_odd (map swap (close_poly vs)) (swap (inject_Z i, v)).
Proof.
  intros Hi Hne. cbn [sem get fst snd]. unfold multi.
  rewrite (assoc_map_filter (fun i0 => segments vs (inject_Z i0)) nonempty).
  assert (Ei : existsb (Z.eqb i) (zrange n) = true) by (apply (zmem_in i); apply zrange_in; assumption).
  rewrite Ei. cbn [andb]. rewrite <- (segments_sem vs (inject_Z i) v Hne).
  unfold nonempty. cbn [snd]. destruct (segments vs (inject_Z i)); reflexivity.
Qed.

(* the same with the categorical attribute on the y axis: the code swaps the vertex arrays *)
Theorem mixed_path_sem_y vs n j v : (0 <= j < n)%Z ->
  (forall y, In y (line_ordinates (close_poly (map swap vs)) (inject_Z j)) -> ~ y == v) ->
  sem (SMulti AY (multi (map swap vs) n)) (EVal v, ECode j) =
  crossing_odd (map swap (close_poly (map swap vs))) (swap (inject_Z j, v)).
Proof.
  intros Hj Hne. cbn [sem get fst snd]. unfold multi.
  rewrite (assoc_map_filter (fun i0 => segments (map swap vs) (inject_Z i0)) nonempty).
  assert (Ei : existsb (Z.eqb j) (zrange n) = true) by (apply (zmem_in j); apply zrange_in; assumption).
  rewrite Ei. cbn [andb]. rewrite <- (segments_sem (map swap vs) (inject_Z j) v Hne).
  unfold nonempty. cbn [snd]. destruct (segments (map swap vs) (inject_Z j)); reflexivity.
Qed.
