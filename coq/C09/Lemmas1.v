(* C09 — from_range rounding, rectangle decomposition, the 2-d categorical dictionary, missing values, dispatch. *)
From Coq Require Import ZArith List Bool QArith Qround Lqa Lia Setoid Morphisms.
Import ListNotations.
From GV Require Import Common.Wire C08.Model C08.QBase C08.Lemmas1 C08.Lemmas2 C08.Lemmas3 C09.Model.
Open Scope Q_scope.

(* ------------------------------------------------------------------ integers and ceilings *)
Lemma zrange_in n k : In k (zrange n) <-> (0 <= k < n)%Z.
Proof.
  unfold zrange. rewrite in_map_iff. split.
  - intros [i [<- Hi]]. apply in_seq in Hi. lia.
  - intros H. exists (Z.to_nat k). split; [lia|]. apply in_seq. lia.
Qed.

Lemma ceil_le_iff x z : (Qceiling x <= z)%Z <-> x <= inject_Z z.
Proof.
  split; intros H.
  - pose proof (Qle_ceiling x). rewrite Zle_Qle in H. lra.
  - pose proof (Qceiling_lt x) as L.
    assert (H0 : inject_Z (Qceiling x - 1) < inject_Z z) by lra.
    rewrite <- Zlt_Qlt in H0. lia.
Qed.
Lemma lt_ceil_iff x z : (z < Qceiling x)%Z <-> inject_Z z < x.
Proof.
  split; intros H.
  - destruct (Qlt_le_dec (inject_Z z) x) as [|Hle]; [assumption|]. apply ceil_le_iff in Hle. lia.
  - destruct (Z_lt_le_dec z (Qceiling x)) as [|Hle]; [assumption|]. apply ceil_le_iff in Hle. lra.
Qed.

Lemma clamp_ceil_le lo k : (0 <= k)%Z -> ((clamp_ceil lo <= k)%Z <-> lo <= inject_Z k).
Proof.
  intros Hk. unfold clamp_ceil. destruct (Qltb 0 lo) eqn:E; b2p.
  - apply ceil_le_iff.
  - assert (0 <= inject_Z k) by (change (inject_Z 0 <= inject_Z k); rewrite <- Zle_Qle; assumption). split; intros; [lra|assumption].
Qed.
Lemma lt_clamp_ceil hi k : (0 <= k)%Z -> ((k < clamp_ceil hi)%Z <-> inject_Z k < hi).
Proof.
  intros Hk. unfold clamp_ceil. destruct (Qltb 0 hi) eqn:E; b2p.
  - apply lt_ceil_iff.
  - assert (0 <= inject_Z k) by (change (inject_Z 0 <= inject_Z k); rewrite <- Zle_Qle; assumption). split; intros; [lia|lra].
Qed.

Lemma from_range_in n lo hi k :
  In k (from_range n lo hi) <-> (0 <= k < n)%Z /\ lo <= inject_Z k /\ inject_Z k < hi.
Proof.
  unfold from_range. rewrite filter_In, zrange_in, andb_true_iff, Z.leb_le, Z.ltb_lt. split.
  - intros [Hk [H1 H2]]. split; [assumption|]. split; [apply clamp_ceil_le|apply lt_clamp_ceil]; auto; lia.
  - intros [Hk [H1 H2]]. split; [assumption|]. split; [apply clamp_ceil_le|apply lt_clamp_ceil]; auto; lia.
Qed.

(* from_range_exact: a category index different from both bounds is selected exactly when it lies strictly between them *)
Theorem from_range_exact n lo hi k : (0 <= k < n)%Z -> ~ inject_Z k == lo -> ~ inject_Z k == hi ->
  (In k (from_range n lo hi) <-> lo < inject_Z k /\ inject_Z k < hi).
Proof.
  intros Hk Hlo Hhi. rewrite from_range_in. split.
  - intros [_ [H1 H2]]. split; [|assumption]. destruct (Qeq_dec (inject_Z k) lo); [contradiction|lra].
  - intros [H1 H2]. split; [assumption|]. split; lra.
Qed.

Lemma zmem_in k l : zmem k l = true <-> In k l.
Proof.
  unfold zmem. rewrite existsb_exists. split.
  - intros [x [Hin E]]. apply Z.eqb_eq in E. subst. assumption.
  - intros H. exists k. split; [assumption|apply Z.eqb_refl].
Qed.

(* ------------------------------------------------------------------ range states *)
(* a value of an axis of the given kind *)
Definition coord_ok (k : kind) (c : coord) : Prop :=
  match k, c with
  | KCat n, ECode i => (0 <= i < n)%Z
  | KNum, EVal _ => True
  | _, _ => False
  end.

Lemma range_state_sem a k lo hi e v : coord_ok k (get a e) -> plot (get a e) = Some v ->
  ~ v == lo -> ~ v == hi ->
  sem (range_state a k lo hi) e = Qltb lo v && Qltb v hi.
Proof.
  intros Hok Hp Hlo Hhi. destruct k as [|n]; cbn [range_state sem].
  - (* numeric: inclusive range against the open region *)
    rewrite Hp. apply eq_true_iff_eq. rewrite !andb_true_iff, !Qleb_le, !Qltb_lt.
    split; intros [H1 H2]; split; try lra;
      destruct (Qeq_dec v lo); destruct (Qeq_dec v hi); try contradiction; lra.
  - destruct (get a e) as [i| |] eqn:G; cbn in Hok; try contradiction.
    cbn in Hp. injection Hp as <-.
    apply eq_true_iff_eq. rewrite zmem_in, andb_true_iff, !Qltb_lt.
    apply from_range_exact; assumption.
Qed.

(* rect_decomposition: an unrotated rectangle with a categorical axis becomes And(x range, y range); off the four edge lines this
   selects exactly the elements whose plotted position is in the rectangle, for each of the axis-kind combinations *)
Theorem rect_decomposition x0 x1 y0 y1 c s g xk yk e px py :
  is_cat xk || is_cat yk = true ->
  coord_ok xk (fst e) -> coord_ok yk (snd e) -> plot (fst e) = Some px -> plot (snd e) = Some py ->
  ~ px == x0 -> ~ px == x1 -> ~ py == y0 -> ~ py == y1 ->
  sem (roi_to_state (R2 (Rect x0 x1 y0 y1 B0 c s) g) xk yk) e = rect_contains x0 x1 y0 y1 B0 c s (px, py).
Proof.
  intros Hc Hx Hy Px Py N1 N2 N3 N4. cbn [roi_to_state]. rewrite Hc. cbn [sem].
  rewrite (range_state_sem AX xk x0 x1 e px Hx Px N1 N2), (range_state_sem AY yk y0 y1 e py Hy Py N3 N4).
  unfold rect_contains. cbn [fst snd]. rewrite andb_assoc. reflexivity.
Qed.

(* a range region looks at its own axis only *)
Theorem range_dispatch (isx : bool) lo hi g xk yk e v :
  let a := if isx then AX else AY in
  coord_ok (if isx then xk else yk) (get a e) -> plot (get a e) = Some v -> ~ v == lo -> ~ v == hi ->
  sem (roi_to_state (R2 (Range isx lo hi) g) xk yk) e = range_contains isx lo hi (v, v).
Proof.
  intros a Hok Hp N1 N2. cbn [roi_to_state]. unfold range_contains.
  destruct isx; cbn [fst snd]; apply range_state_sem; assumption.
Qed.

(* ------------------------------------------------------------------ both axes categorical *)
Lemma assoc_map_filter {B} (g : Z -> B) (P : Z * B -> bool) l i :
  assoc i (filter P (map (fun k => (k, g k)) l)) = if existsb (Z.eqb i) l && P (i, g i) then Some (g i) else None.
Proof.
  induction l as [|k t IH]; [reflexivity|].
  cbn [map filter existsb]. destruct (Z.eqb i k) eqn:E.
  - apply Z.eqb_eq in E. subst k. cbn [orb andb]. destruct (P (i, g i)) eqn:EP.
    + cbn [assoc]. rewrite Z.eqb_refl. reflexivity.
    + rewrite IH, ?EP, andb_false_r. reflexivity.
  - cbn [orb]. destruct (P (k, g k)).
    + cbn [assoc]. rewrite E. exact IH.
    + exact IH.
Qed.

(* categorical_2d_polygon: the dictionary built over the full lattice selects (i, j) exactly when the region contains it *)
Theorem categorical_2d_polygon r nx ny i j : (0 <= i < nx)%Z -> (0 <= j < ny)%Z ->
  sem (SCat2D (cat2d r nx ny)) (ECode i, ECode j) = contains r (inject_Z i, inject_Z j).
Proof.
  intros Hi Hj. cbn [sem]. unfold cat2d. cbv zeta.
  rewrite (assoc_map_filter (fun i0 => filter (fun j0 => contains r (inject_Z i0, inject_Z j0)) (zrange ny)) nonempty).
  assert (Ei : existsb (Z.eqb i) (zrange nx) = true) by (apply (zmem_in i); apply zrange_in; assumption).
  rewrite Ei. cbn [andb].
  set (js := filter (fun j0 => contains r (inject_Z i, inject_Z j0)) (zrange ny)).
  assert (Hjs : zmem j js = contains r (inject_Z i, inject_Z j)).
  { apply eq_true_iff_eq. rewrite zmem_in. unfold js. rewrite filter_In, zrange_in. tauto. }
  unfold nonempty. cbn [snd]. destruct js as [|j0 t] eqn:Ejs.
  - rewrite <- Hjs. reflexivity.
  - exact Hjs.
Qed.

Theorem categorical_2d_dispatch r g nx ny i j : (0 <= i < nx)%Z -> (0 <= j < ny)%Z ->
  (forall isx lo hi, r <> Range isx lo hi) -> (forall x0 x1 y0 y1 c s, r <> Rect x0 x1 y0 y1 B0 c s) ->
  sem (roi_to_state (R2 r g) (KCat nx) (KCat ny)) (ECode i, ECode j) = contains r (inject_Z i, inject_Z j).
Proof.
  intros Hi Hj NR NB.
  destruct r as [x0 x1 y0 y1 b c s| | | |isx lo hi|]; try (cbn [roi_to_state is_cat orb]; apply categorical_2d_polygon; assumption).
  - destruct b; try (cbn [roi_to_state is_cat orb]; apply categorical_2d_polygon; assumption).
    exfalso. apply (NB x0 x1 y0 y1 c s). reflexivity.
  - exfalso. apply (NR isx lo hi). reflexivity.
Qed.

(* ------------------------------------------------------------------ missing values *)
(* an element with a missing (NaN) coordinate is never selected by a 2-d region *)
Theorem nan_not_selected r g xk yk e : (forall isx lo hi, r <> Range isx lo hi) ->
  fst e = ENaN \/ snd e = ENaN -> sem (roi_to_state (R2 r g) xk yk) e = false.
Proof.
  intros NR Hn. destruct e as [ex ey]. cbn [fst snd] in Hn.
  assert (Hroi : sem (SRoi r) (ex, ey) = false).
  { destruct Hn as [-> | ->]; cbn [sem fst snd plot]; [reflexivity|]. destruct (plot ex); reflexivity. }
  assert (Hand : forall x0 x1 y0 y1, sem (SAnd (range_state AX xk x0 x1) (range_state AY yk y0 y1)) (ex, ey) = false).
  { intros. cbn [sem]. destruct Hn as [-> | ->].
    - destruct xk; cbn [range_state sem get fst plot]; reflexivity.
    - apply andb_false_iff. right. destruct yk; cbn [range_state sem get snd plot]; reflexivity. }
  assert (H2d : forall sel, sem (SCat2D sel) (ex, ey) = false).
  { intros. cbn [sem]. destruct Hn as [-> | ->]; [reflexivity|destruct ex; reflexivity]. }
  assert (Hm : forall a sel, sem (SMulti a sel) (ex, ey) = false).
  { intros a sel. destruct Hn as [-> | ->]; destruct a; cbn [sem get fst snd]; try reflexivity;
      try (destruct ex; reflexivity); try (destruct ey; reflexivity). }
  destruct r as [x0 x1 y0 y1 b c s| | | |isx lo hi|]; cbn [roi_to_state].
  - destruct (is_cat xk || is_cat yk); [|apply Hroi]. destruct b; [apply Hand| |]; destruct xk, yk; auto.
  - destruct (is_cat xk || is_cat yk); [|apply Hroi]. destruct xk, yk; auto.
  - destruct (is_cat xk || is_cat yk); [|apply Hroi]. destruct xk, yk; auto.
  - destruct (is_cat xk || is_cat yk); [|apply Hroi]. destruct xk, yk; auto.
  - exfalso. apply (NR isx lo hi). reflexivity.
  - destruct (is_cat xk || is_cat yk); [|apply Hroi]. destruct xk, yk; auto.
Qed.

(* ------------------------------------------------------------------ dispatch *)
Definition path_shape (p : path) (s : state) : bool :=
  match p, s with
  | PRangeCat, SCat _ _ | PRangeNum, SRange _ _ _ | PRectAnd, SAnd _ _ | PCatRoi, SCat AX _
  | PPoly2D, SCat2D _ | PPolyMixed, SMulti _ _ | PNumeric, SRoi _ | PRaises, SError => true
  | _, _ => false
  end.

(* dispatch_total: every (region, axis kinds) takes exactly one of the code paths (path_of is a function) and the
   state returned has the shape of that path *)
Theorem dispatch_total r xk yk : path_shape (path_of r xk yk) (roi_to_state r xk yk) = true.
Proof.
  destruct r as [r g|codes].
  - destruct r as [x0 x1 y0 y1 b c s| | | |isx lo hi|]; destruct xk, yk; try destruct b; try destruct isx; reflexivity.
  - destruct xk, yk; reflexivity.
Qed.

(* a region between two numeric attributes is kept as it is: the state is roi.contains itself *)
Theorem numeric_numeric r g e x y : (forall isx lo hi, r <> Range isx lo hi) ->
  plot (fst e) = Some x -> plot (snd e) = Some y ->
  sem (roi_to_state (R2 r g) KNum KNum) e = contains r (x, y).
Proof.
  intros NR Px Py.
  destruct r as [x0 x1 y0 y1 b c s| | | |isx lo hi|]; cbn [roi_to_state is_cat orb sem]; try (rewrite Px, Py; reflexivity).
  exfalso. apply (NR isx lo hi). reflexivity.
Qed.
