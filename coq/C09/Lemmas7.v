(* C09 — the functions translated from the source (coq/gen/Gen_catroi.v: CategoricalROI.from_range / update_categories / contains,
   the decision tree of roi_to_subset_state) are the model's. *)
From Coq Require Import ZArith List Bool QArith Qround Lqa Lia.
Import ListNotations.
From GV Require Import Common.Wire Common.PyInt C08.Model C08.QBase C09.Model C09.PyNum C09.Lemmas1.
From GV Require gen.Gen_catroi.
Open Scope Z_scope.

(* ------------------------------------------------------------------ from_range *)
Lemma clamp_ceil_nonneg q : 0 <= clamp_ceil q.
Proof.
  unfold clamp_ceil. destruct (Qltb 0 q) eqn:E; [|lia].
  apply Qltb_lt in E. pose proof (Qle_ceiling q) as H.
  assert (A : (inject_Z 0 < inject_Z (Qceiling q))%Q) by (change (inject_Z 0) with 0%Q; lra).
  rewrite <- Zlt_Qlt in A. lia.
Qed.

Lemma py_slice_nonneg (l : list Z) a b : 0 <= a -> 0 <= b ->
  py_slice l (Some a) (Some b) = skipn (Z.to_nat a) (firstn (Z.to_nat b) l).
Proof.
  intros Ha Hb. unfold py_slice, slice_indices. cbn [sl_step sl_start sl_stop].
  change (1 =? 0) with false. change (1 <? 0) with false. cbv iota.
  destruct (a <? 0) eqn:Ea; [lia|]. destruct (b <? 0) eqn:Eb; [lia|].
  unfold zlen.
  assert (F : forall e, Z.of_nat (length l) <= e -> firstn (Z.to_nat e) l = firstn (length l) l).
  { intros e He. rewrite firstn_all. apply firstn_all2. lia. }
  destruct (b >=? Z.of_nat (length l)) eqn:E2; destruct (a >=? Z.of_nat (length l)) eqn:E1.
  - rewrite Nat2Z.id. rewrite (F b) by lia. rewrite firstn_all.
    rewrite !skipn_all2; [reflexivity| lia | lia].
  - rewrite Nat2Z.id. rewrite (F b) by lia. reflexivity.
  - rewrite !skipn_all2; [reflexivity| | ].
    + rewrite firstn_length. lia.
    + rewrite firstn_length. lia.
  - reflexivity.
Qed.

(* from_range_translated: what the source of CategoricalROI.from_range (+ update_categories) stores is the model's stored_from_range *)
Theorem from_range_translated cats lo hi : Gen_catroi.from_range_stored cats lo hi = stored_from_range cats lo hi.
Proof.
  unfold Gen_catroi.from_range_stored, stored_from_range, slice_cats, np_unique, q_lt.
  change (inject_Z 0) with 0%Q.
  change (if Qltb 0 lo then Qceiling lo else 0) with (clamp_ceil lo).
  change (if Qltb 0 hi then Qceiling hi else 0) with (clamp_ceil hi).
  cbv zeta. rewrite py_slice_nonneg by apply clamp_ceil_nonneg. reflexivity.
Qed.

(* ------------------------------------------------------------------ contains *)
Theorem contains_translated stored x : Gen_catroi.contains (Some stored) x = cat_contains_ss stored x.
Proof.
  unfold Gen_catroi.contains, cat_contains_ss. cbn [is_none the orb].
  destruct stored as [|y t]; [reflexivity|].
  set (l := y :: t).
  assert (Hlen : (0 < length l)%nat) by (unfold l; cbn; lia).
  unfold zlen. destruct (Z.of_nat (length l) =? 0) eqn:E; [lia|].
  cbv zeta. unfold np_searchsorted, znth.
  set (s := searchsorted l x).
  assert (Hi : Z.min (Z.of_nat s) (Z.of_nat (length l) - 1) = Z.of_nat (Nat.min s (length l - 1))) by lia.
  rewrite Hi. destruct (Z.of_nat (Nat.min s (length l - 1)) <? 0) eqn:E2;
    [apply Z.ltb_lt in E2; generalize (Nat2Z.is_nonneg (Nat.min s (length l - 1))); intros; exfalso; apply (Z.lt_irrefl 0); eapply Z.le_lt_trans; eassumption|].
  rewrite Nat2Z.id. reflexivity.
Qed.
Theorem contains_translated_none x : Gen_catroi.contains None x = false.
Proof. reflexivity. Qed.

(* ------------------------------------------------------------------ the decision tree *)
Definition class_of (r : roi9) : roi_class :=
  match r with
  | RCat _ => CCategorical
  | R2 (Rect _ _ _ _ _ _ _) _ => CRectangular
  | R2 (Ellipse _ _ _ _ _ _ _) _ => CElliptical
  | R2 (Circle _ _ _) _ => CCircular
  | R2 (Annulus _ _ _ _) _ => CAnnulus
  | R2 (Range _ _ _) _ => CRange
  | R2 (Poly _) _ => CPolygonal
  end.
Definition ori_of (r : roi9) : bool := match r with R2 (Range isx _ _) _ => isx | _ => true end.
(* the rectangle test np.isclose(theta mod pi, 0, atol=1e-9): the harness reproduces it and hands the model the branch B0 *)
Definition aligned_of (r : roi9) : bool := match r with R2 (Rect _ _ _ _ B0 _ _) _ => true | _ => false end.
Definition ax (on_x : bool) : axis := if on_x then AX else AY.

(* the state a range region gives when only its own attribute / category list is passed (the two recursive calls of the rectangle branch) *)
Definition build_range (on_x : bool) (lo hi : Q) (k : kind) : state :=
  match Gen_catroi.dispatch CRange on_x false (on_x && is_cat k) (negb on_x && is_cat k) false with
  | LFromRange ox => match k with KCat n => SCat (ax ox) (from_range n lo hi) | KNum => SError end
  | LRange ox => SRange (ax ox) lo hi
  | _ => SError
  end.

(* the subset state built at the leaf the translated decision tree reaches (use_pretransform = False) *)
Definition build (r : roi9) (xk yk : kind) : state :=
  match Gen_catroi.dispatch (class_of r) (ori_of r) false (is_cat xk) (is_cat yk) (aligned_of r), r with
  | LFromRange ox, R2 (Range _ lo hi) _ =>
    match (if ox then xk else yk) with KCat n => SCat (ax ox) (from_range n lo hi) | KNum => SError end
  | LRange ox, R2 (Range _ lo hi) _ => SRange (ax ox) lo hi
  | LAndOfRanges, R2 (Rect x0 x1 y0 y1 _ _ _) _ => SAnd (build_range true x0 x1 xk) (build_range false y0 y1 yk)
  | LCategorical, RCat codes => SCat AX codes
  | LLattice2D, R2 r0 _ => match xk, yk with KCat nx, KCat ny => SCat2D (cat2d r0 nx ny) | _, _ => SError end
  | LMultiRange true, R2 r0 given => match xk with KCat nx => SMulti AX (multi (poly_vertices r0 given) nx) | KNum => SError end
  | LMultiRange false, R2 r0 given => match yk with KCat ny => SMulti AY (multi (map swap (poly_vertices r0 given)) ny) | KNum => SError end
  | LRoi false, R2 r0 _ => SRoi r0
  | LRoi true, RCat _ => if Gen_catroi.categorical_to_polygon_raises then SError else SCat AX []
  | _, _ => SError
  end.

(* dispatch_translated: following the translated decision tree of roi_to_subset_state gives the state of the model's roi_to_state,
   for every region and every pair of axis kinds *)
Theorem dispatch_translated r xk yk : build r xk yk = roi_to_state r xk yk.
Proof.
  destruct r as [r0 given|codes]; [destruct r0 as [x0 x1 y0 y1 b c s|xc yc rx ry b c s|xc yc rr|xc yc ri ro|isx lo hi|vs]|];
    try destruct b; try destruct isx; destruct xk as [|nx]; destruct yk as [|ny]; reflexivity.
Qed.
