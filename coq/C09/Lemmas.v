(* C09 — the lemmas Property.v refers to (Lemmas1: rounding, decomposition, 2-d dictionary, NaN, dispatch; Lemmas2/3: line intersections). *)
From GV Require Export C08.Model C08.QBase C09.Model C09.Lemmas1 C09.Lemmas2 C09.Lemmas3 C09.Lemmas4 C09.Lemmas5 C09.Lemmas6 C09.PyNum C09.Lemmas7.

Definition from_range_exact := Lemmas1.from_range_exact.
Definition rect_decomposition := Lemmas1.rect_decomposition.
Definition range_dispatch := Lemmas1.range_dispatch.
Definition categorical_2d_polygon := Lemmas1.categorical_2d_polygon.
Definition categorical_2d_dispatch := Lemmas1.categorical_2d_dispatch.
Definition nan_not_selected := Lemmas1.nan_not_selected.
Definition dispatch_total := Lemmas1.dispatch_total.
Definition numeric_numeric := Lemmas1.numeric_numeric.
Definition mixed_polygon_segments := Lemmas2.mixed_polygon_segments.
Definition close_poly_closed := Lemmas2.close_poly_closed.
Definition segments_sem := Lemmas3.segments_sem.
Definition mixed_path_sem := Lemmas3.mixed_path_sem.
Definition mixed_path_sem_y := Lemmas3.mixed_path_sem_y.
Definition label_path_exact := Lemmas4.label_path_exact.
Definition segments_scale := Lemmas5.segments_scale.
Definition mixed_path_scale := Lemmas5.mixed_path_scale.
Definition jitter_ignored := Lemmas6.jitter_ignored.
Definition displayed_nearest := Lemmas6.displayed_nearest.
Definition range_jitter_exact := Lemmas6.range_jitter_exact.
Definition range_dispatch_jitter := Lemmas6.range_dispatch_jitter.
Definition from_range_translated := Lemmas7.from_range_translated.
Definition contains_translated := Lemmas7.contains_translated.
Definition dispatch_translated := Lemmas7.dispatch_translated.
