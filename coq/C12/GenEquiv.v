(* C12 — the functions translated from glue/core/state.py (gen/Gen_dispatch.v, regenerated on every run) compute what the
   hand-written model of Model.v computes:
     the whole class VersionedDict          = [step]                      (gstep_eq, grun_eq)
     lookup_class_with_patches              = [resolve_in]                (loop_resolve, gen_resolve_in_eq)
     the saver / loader decorators          = [step .. (SetItem ..)]      (saver_eq)
     GlueSerializer._dispatch               = [save_lookup] / [saver_of_in]   (ser_dispatch_spec, gen_saver_of_in_eq)
     GlueSerializer.do                      = dispatch + [stamp]          (ser_do_spec)
     GlueUnSerializer._dispatch             = [load_walk] / [loader_of_in]    (unser_dispatch_spec, gen_loader_of_in_eq)
     the interpreter over all of them       = [run_reg_ops]               (grun_reg_ops_eq)
   and the theorems of Lemmas.v transported to the translated definitions. *)
From Coq Require Import ZArith List Bool Lia String.
Import ListNotations.
From GV Require Import Common.Wire gen.Gen_tables gen.Gen_dispatch C12.Model C12.Lemmas.
Open Scope Z_scope.

(* ================================================================= the prelude's dict operations are the model's *)

Lemma dd_lookup_eq : forall k d, dd_lookup k d = lookup k d.
Proof. reflexivity. Qed.
Lemma d_getitem_eq : forall v vs, d_getitem v vs = vget v vs.
Proof. reflexivity. Qed.
Lemma d_contains_eq : forall v vs, d_contains v vs = has v vs.
Proof. reflexivity. Qed.
Lemma dd_touch_eq : forall k d, dd_touch k d = touch k d.
Proof. reflexivity. Qed.
Lemma dd_update_eq : forall k vs d, dd_update k vs d = update k vs d.
Proof. reflexivity. Qed.
Lemma dd_contains_eq : forall k d, dd_contains k d = is_some (lookup k d).
Proof. reflexivity. Qed.

(* self._data[k] as the code sees it *)
Definition seen (d : vd) (k : Z) : versions := match lookup k (touch k d) with Some vs => vs | None => [] end.

Lemma dd_getitem_eq : forall k d, dd_getitem k d = (touch k d, seen d k).
Proof. reflexivity. Qed.

Lemma touch_present : forall k d vs, lookup k d = Some vs -> touch k d = d.
Proof. intros k d vs H. unfold touch. now rewrite H. Qed.

Lemma touch_touch : forall k d, touch k (touch k d) = touch k d.
Proof.
  intros k d. destruct (lookup_touch_self d k) as [vs [H _]]. eapply touch_present; eassumption.
Qed.

Lemma seen_touch : forall k d, seen (touch k d) k = seen d k.
Proof. intros k d. unfold seen. now rewrite touch_touch. Qed.

Lemma seen_present : forall k d vs, lookup k d = Some vs -> seen d k = vs.
Proof. intros k d vs H. unfold seen. rewrite (touch_present k d vs H). now rewrite H. Qed.

Lemma py_max_keys : forall vs : versions,
  py_max (d_keys vs) = match vs with [] => None | _ => Some (zmax_list (map fst vs)) end.
Proof. intros [|p vs]; reflexivity. Qed.

Lemma d_setitem_fresh : forall v x vs, vget v vs = None -> d_setitem v x vs = vs ++ [(v, x)].
Proof.
  induction vs as [|[v' x'] vs IH]; simpl; intros H; [reflexivity|].
  destruct (v' =? v); [discriminate|]. now rewrite IH.
Qed.

(* ================================================================= A. the class VersionedDict *)

Definition oc_of_newest (r : res) : outcome (Z * Z) :=
  match r with RPair x v => Ret (x, v) | RValueError => Raise ValueError | _ => Raise KeyError end.

Lemma newest_cases : forall vs, (exists x v, newest vs = RPair x v) \/ newest vs = RValueError \/ newest vs = RKeyError.
Proof.
  intros [|p vs]; [right; left; reflexivity|]. cbn [newest].
  destruct (vget (zmax_list (map fst (p :: vs))) (p :: vs)); [left; eauto | right; right; reflexivity].
Qed.

Lemma vd_contains_spec : forall o k d, vd_contains o k d = (d, Ret (is_some (lookup k d))).
Proof. reflexivity. Qed.

Lemma vd_len_spec : forall o d, vd_len o d = (d, Ret (Z.of_nat (List.length d))).
Proof. reflexivity. Qed.

(* never removes anything, always refuses *)
Lemma vd_delitem_spec : forall o k d, vd_delitem o k d = (d, Raise ValueError).
Proof. reflexivity. Qed.

Lemma vd_getitem_spec : forall o k d,
  vd_getitem o k d = (d, match lookup k d with None => Raise KeyError | Some vs => oc_of_newest (newest vs) end).
Proof.
  intros o k d. unfold vd_getitem. rewrite dd_contains_eq.
  destruct (lookup k d) as [vs|] eqn:E; cbn [is_some negb]; [|reflexivity].
  rewrite dd_getitem_eq, (touch_present k d vs E), (seen_present k d vs E), py_max_keys.
  destruct vs as [|p vs]; [reflexivity|]. cbn [newest]. rewrite d_getitem_eq.
  destruct (vget (zmax_list (map fst (p :: vs))) (p :: vs)); reflexivity.
Qed.

Lemma vd_get_latest_spec : forall o k d,
  vd_get_version o k None d =
  (d, match lookup k d with
      | None => Raise KeyError
      | Some vs => match newest vs with RPair x _ => Ret x | RValueError => Raise ValueError | _ => Raise KeyError end
      end).
Proof.
  intros o k d. unfold vd_get_version. rewrite dd_contains_eq.
  destruct (lookup k d) as [vs|] eqn:E; cbn [is_some negb]; [|reflexivity].
  rewrite dd_getitem_eq, (touch_present k d vs E), (seen_present k d vs E), py_max_keys.
  destruct vs as [|p vs]; [reflexivity|]. cbn [newest]. rewrite d_getitem_eq.
  destruct (vget (zmax_list (map fst (p :: vs))) (p :: vs)); reflexivity.
Qed.

Lemma stored_touch_self : forall d k v, stored (touch k d) k v = vget v (seen d k).
Proof.
  intros d k v. unfold stored, seen. destruct (lookup_touch_self d k) as [vs [H _]]. now rewrite H.
Qed.

(* get_version(k, v) reads self._data[k]: the entry is created *)
Lemma vd_get_version_spec : forall o k v d,
  vd_get_version o k (Some v) d =
  (touch k d, match stored (touch k d) k v with Some x => Ret x | None => Raise KeyError end).
Proof.
  intros o k v d. unfold vd_get_version. rewrite dd_getitem_eq, d_getitem_eq, stored_touch_self.
  destruct (vget v (seen d k)); reflexivity.
Qed.

Lemma vd_setitem_badkey : forall o key val d, List.length key <> 2%nat -> vd_setitem o key val d = (d, Raise ValueError).
Proof.
  intros o key val d H. unfold vd_setitem.
  destruct (Z.of_nat (List.length key) =? 2) eqn:E; [apply Z.eqb_eq in E; lia | reflexivity].
Qed.

(* the translated __setitem__ is the model's step, for every object given as the version *)
Lemma vd_setitem_spec : forall o k raw val d,
  vd_setitem o [k; raw] val d =
  (fst (step d (SetItem k (py_int o raw) val)),
   match snd (step d (SetItem k (py_int o raw) val)) with
   | RNone => Ret tt | RValueError => Raise ValueError | _ => Raise KeyError end).
Proof.
  intros o k raw val d. unfold vd_setitem. cbn [List.length Z.of_nat Pos.of_succ_nat Pos.succ Z.eqb Pos.eqb negb].
  destruct (py_int o raw) as [ver|]; [|reflexivity].
  cbn [step]. destruct (ver <? 1); [reflexivity|].
  fold (seen d k).
  destruct (ver >? 1) eqn:G; cbn [andb].
  - rewrite dd_getitem_eq, d_contains_eq.
    destruct (has (ver - 1) (seen d k)); cbn [negb]; [|reflexivity].
    rewrite dd_getitem_eq, touch_touch, seen_touch, d_contains_eq.
    destruct (has ver (seen d k)) eqn:Hh; [reflexivity|].
    rewrite dd_getitem_eq, touch_touch, seen_touch, dd_update_eq.
    rewrite d_setitem_fresh; [reflexivity|].
    unfold has in Hh. destruct (vget ver (seen d k)); [discriminate | reflexivity].
  - rewrite dd_getitem_eq, d_contains_eq.
    destruct (has ver (seen d k)) eqn:Hh; [reflexivity|].
    rewrite dd_getitem_eq, touch_touch, seen_touch, dd_update_eq.
    rewrite d_setitem_fresh; [reflexivity|].
    unfold has in Hh. destruct (vget ver (seen d k)); [discriminate | reflexivity].
Qed.

Lemma step_setitem_res : forall d k ver val,
  snd (step d (SetItem k ver val)) = RNone \/ snd (step d (SetItem k ver val)) = RValueError \/
  snd (step d (SetItem k ver val)) = RKeyError.
Proof.
  intros d k [ver|] val; cbn [step]; [|right; left; reflexivity].
  destruct (ver <? 1); [right; left; reflexivity|].
  destruct (_ && _); [right; right; reflexivity|].
  destruct (has _ _); [right; right; reflexivity | left; reflexivity].
Qed.

Lemma wire_int_raw_of : forall ver, wire_int (raw_of ver) = ver.
Proof.
  intros [x|]; unfold wire_int, raw_of; [|reflexivity].
  rewrite Z.even_mul. cbn [Z.even orb]. now rewrite Z.mul_comm, Z.div_mul by lia.
Qed.

(* every operation of the class, through the translated methods, is the model's step *)
Theorem gstep_eq : forall o d op_, (forall ver, py_int o (raw_of ver) = ver) -> gstep o d op_ = step d op_.
Proof.
  intros o d op_ Hint. destruct op_ as [k ver val | | k | k | k v | k | ]; unfold gstep.
  - rewrite vd_setitem_spec, Hint.
    destruct (step d (SetItem k ver val)) as [d1 r] eqn:E. cbn [fst snd].
    pose proof (step_setitem_res d k ver val) as C. rewrite E in C. cbn [snd] in C.
    destruct C as [C|[C|C]]; subst r; reflexivity.
  - rewrite vd_setitem_badkey by (cbn; lia). reflexivity.
  - rewrite vd_getitem_spec. cbn [step]. destruct (lookup k d) as [vs|]; [|reflexivity].
    destruct (newest_cases vs) as [[x [v C]]|[C|C]]; rewrite C; reflexivity.
  - rewrite vd_get_latest_spec. cbn [step]. destruct (lookup k d) as [vs|]; [|reflexivity].
    destruct (newest_cases vs) as [[x [v C]]|[C|C]]; rewrite C; reflexivity.
  - rewrite vd_get_version_spec. cbn [step]. unfold stored.
    destruct (lookup k (touch k d)) as [vs|]; [|reflexivity].
    destruct (vget v vs); reflexivity.
  - reflexivity.
  - reflexivity.
Qed.

Theorem grun_eq : forall o ops_ d, (forall ver, py_int o (raw_of ver) = ver) -> grun o d ops_ = run d ops_.
Proof.
  intros o ops_. induction ops_ as [|x r IH]; intros d Hint; [reflexivity|].
  cbn [grun run]. rewrite gstep_eq by assumption. destruct (step d x) as [d1 y]. now rewrite IH.
Qed.

(* ================================================================= B. lookup_class_with_patches *)

Lemma patch_table_getitem : forall ps nm, d_getitem nm (patch_table ps) = patch_lookup_in ps nm.
Proof.
  intros ps nm. unfold patch_lookup_in, patch_table.
  induction ps as [|p ps IH]; [reflexivity|]. cbn [map d_getitem find].
  destruct (p_from p =? nm); [reflexivity | exact IH].
Qed.

Theorem loop_resolve : forall o ps, path_patches o = patch_table ps -> forall fuel nm,
  lookup_class_with_patches_loop1 o fuel nm =
  match resolve_in ps fuel nm with Some t => Next t | None => Done OutOfFuel end.
Proof.
  intros o ps Hp. induction fuel as [|f IH]; intros nm;
    cbn [lookup_class_with_patches_loop1 resolve_in]; unfold d_contains; rewrite Hp, patch_table_getitem;
    destruct (patch_lookup_in ps nm) as [t|]; try reflexivity.
  apply IH.
Qed.

Theorem lookup_class_with_patches_spec : forall o ps, path_patches o = patch_table ps -> forall fuel nm,
  lookup_class_with_patches o fuel nm =
  match resolve_in ps fuel nm with Some t => lookup_class o t | None => OutOfFuel end.
Proof.
  intros o ps Hp fuel nm. unfold lookup_class_with_patches. rewrite (loop_resolve o ps Hp).
  destruct (resolve_in ps fuel nm) as [t|]; [|reflexivity].
  destruct (lookup_class o t); reflexivity.
Qed.

Theorem gen_resolve_in_eq : forall ps fuel nm,
  gen_resolve_in ps fuel nm = match resolve_in ps fuel nm with Some t => Ret t | None => OutOfFuel end.
Proof.
  intros ps fuel nm. unfold gen_resolve_in. rewrite (lookup_class_with_patches_spec _ ps) by reflexivity.
  destruct (resolve_in ps fuel nm); reflexivity.
Qed.

(* more fuel never changes an answer *)
Lemma resolve_in_more_fuel : forall ps f nm t, resolve_in ps f nm = Some t -> forall f', (f <= f')%nat -> resolve_in ps f' nm = Some t.
Proof.
  intros ps. induction f as [|f IH]; intros nm t H f' L.
  - cbn [resolve_in] in H. destruct (patch_lookup_in ps nm) eqn:E; [discriminate|].
    destruct f'; cbn [resolve_in]; now rewrite E.
  - destruct f' as [|f']; [lia|]. cbn [resolve_in] in *. destruct (patch_lookup_in ps nm); [|assumption].
    apply IH; [assumption | lia].
Qed.

(* ================================================================= C. the decorators *)

Theorem saver_spec : forall o c raw val d,
  saver o c raw val d =
  (fst (step d (SetItem c (py_int o raw) val)),
   match snd (step d (SetItem c (py_int o raw) val)) with
   | RNone => Ret val | RValueError => Raise ValueError | _ => Raise KeyError end).
Proof.
  intros o c raw val d. unfold saver, ser_serializes. rewrite vd_setitem_spec.
  pose proof (step_setitem_res d c (py_int o raw) val) as C.
  destruct (step d (SetItem c (py_int o raw) val)) as [d1 r]. cbn [fst snd] in *.
  destruct C as [C|[C|C]]; subst r; reflexivity.
Qed.

Theorem loader_spec : forall o c raw val d,
  loader o c raw val d =
  (fst (step d (SetItem c (py_int o raw) val)),
   match snd (step d (SetItem c (py_int o raw) val)) with
   | RNone => Ret val | RValueError => Raise ValueError | _ => Raise KeyError end).
Proof.
  intros o c raw val d. unfold loader, unser_unserializes. rewrite vd_setitem_spec.
  pose proof (step_setitem_res d c (py_int o raw) val) as C.
  destruct (step d (SetItem c (py_int o raw) val)) as [d1 r]. cbn [fst snd] in *.
  destruct C as [C|[C|C]]; subst r; reflexivity.
Qed.

(* ================================================================= D. GlueSerializer._dispatch and do *)

Definition ctl_of_save (r : option (Z * res)) : ctl unit (Z * Z) :=
  match r with None => Next tt | Some (_, x) => Done (oc_of_newest x) end.

Lemma ser_loop_spec : forall o mro_ d, ser_dispatch_loop1 o mro_ d = (d, ctl_of_save (save_lookup d mro_)).
Proof.
  intros o mro_ d. induction mro_ as [|t r IH]; [reflexivity|].
  cbn [ser_dispatch_loop1 save_lookup]. rewrite vd_contains_spec.
  destruct (lookup t d) as [vs|] eqn:E; cbn [is_some]; [|exact IH].
  rewrite vd_getitem_spec, E. cbn [ctl_of_save].
  destruct (newest_cases vs) as [[x [v C]]|[C|C]]; rewrite C; reflexivity.
Qed.

(* __gluestate__ wins with version 1; otherwise the first class of the MRO with an entry, and what d[typ] gives for it *)
Theorem ser_dispatch_spec : forall o obj d,
  ser_dispatch o obj d =
  (d, if hasattr_ o obj "__gluestate__" then Ret (getattr_ o (py_type o obj) "__gluestate__", 1)
      else match save_lookup d (mro o (py_type o obj)) with
           | None => Raise GlueSerializeError
           | Some (_, x) => oc_of_newest x
           end).
Proof.
  intros o obj d. unfold ser_dispatch. destruct (hasattr_ o obj "__gluestate__"); [reflexivity|].
  rewrite ser_loop_spec. destruct (save_lookup d (mro o (py_type o obj))) as [[t x]|]; [|reflexivity].
  cbn [ctl_of_save]. destruct x; reflexivity.
Qed.

Lemma set_contains_app : forall x a b, set_contains x (a ++ b) = set_contains x a || set_contains x b.
Proof. intros. unfold set_contains. apply existsb_app. Qed.

Lemma filter_absent : forall x s, set_contains x s = false -> filter (fun y => negb (y =? x)) s = s.
Proof.
  induction s as [|y s IH]; [reflexivity|]. unfold set_contains. cbn [existsb filter]. intros H.
  apply orb_false_iff in H. destruct H as [H1 H2]. rewrite (Z.eqb_sym y x), H1. cbn [negb]. f_equal. now apply IH.
Qed.

Lemma set_remove_add : forall x s, set_contains x s = false -> set_remove x (set_add x s) = Some s.
Proof.
  intros x s H. unfold set_add. rewrite H. unfold set_remove. rewrite set_contains_app, H.
  unfold set_contains at 1. cbn [existsb]. rewrite Z.eqb_refl. cbn [orb].
  rewrite filter_app, (filter_absent x s H). cbn [filter]. rewrite Z.eqb_refl. cbn [negb]. now rewrite app_nil_r.
Qed.

(* do = the literal shortcuts, the circularity check, _dispatch, the saver call, then [stamp];
   an exception of _dispatch leaves the object in _working, as in the code *)
Theorem ser_do_spec : forall o obj d w,
  isinstance_ o obj "str" = false -> in_global o "literals" (py_type o obj) = false ->
  in_global o "builtin_iterables" (py_type o obj) && flat_literals o obj = false ->
  set_contains obj w = false ->
  ser_do o obj d w =
  match snd (ser_dispatch o obj d) with
  | Ret (f, v) => (d, w, Ret (PRec (stamp o obj v (call_saver o f obj))))
  | Raise e => (d, set_add obj w, Raise e)
  | OutOfFuel => (d, set_add obj w, OutOfFuel)
  end.
Proof.
  intros o obj d w H1 H2 H3 H4. unfold ser_do. rewrite H1, H2. unfold py_id. rewrite H4.
  assert (R : forall T (a b : T), (if in_global o "builtin_iterables" (py_type o obj) then if flat_literals o obj then a else b else b) = b).
  { intros T a b. destruct (in_global o "builtin_iterables" (py_type o obj)); [|reflexivity].
    cbn [andb] in H3. now rewrite H3. }
  rewrite R. clear R.
  rewrite ser_dispatch_spec. cbn [snd].
  set (r := if hasattr_ o obj "__gluestate__" then _ else _).
  destruct r as [[f v]|e|]; try reflexivity.
  unfold stamp, type_name_written. rewrite (set_remove_add obj w H4).
  destruct (isinstance_ o obj "types.FunctionType"); [destruct (v >? 1); reflexivity|].
  destruct (isinstance_ o obj "types.MethodType"); destruct (v >? 1); reflexivity.
Qed.

(* ================================================================= E. GlueUnSerializer._dispatch *)

Lemma unser_loop_spec : forall o v mro_ d,
  unser_dispatch_loop1 o v mro_ d =
  (fst (load_walk d mro_ v), match snd (load_walk d mro_ v) with Some (_, x) => Done (Ret x) | None => Next tt end).
Proof.
  intros o v mro_. induction mro_ as [|t r IH]; intros d; [reflexivity|].
  cbn [unser_dispatch_loop1 load_walk]. rewrite vd_get_version_spec.
  destruct (stored (touch t d) t v) as [x|]; [reflexivity|]. cbn [exc_eqb]. apply IH.
Qed.

(* rec['_type'] through the rename loop and lookup_class; __setgluestate__ wins; otherwise the MRO walk for exactly
   rec.get('_protocol', 1), which creates an empty entry for every class it visits *)
Theorem unser_dispatch_spec : forall o ps fuel rc d c,
  path_patches o = patch_table ps -> sd_getitem "_type" rc = Some c ->
  unser_dispatch o fuel rc d =
  match resolve_in ps fuel c with
  | None => (d, OutOfFuel)
  | Some nm =>
    match lookup_class o nm with
    | Ret typ =>
        if typ =? py_None then (d, Raise GlueSerializeError)
        else if hasattr_ o typ "__setgluestate__" then (d, Ret (getattr_ o typ "__setgluestate__"))
        else let w := load_walk d (mro o typ) (sd_get "_protocol" 1 rc) in
             (fst w, match snd w with Some (_, x) => Ret x | None => Raise GlueSerializeError end)
    | Raise e => (d, Raise e)
    | OutOfFuel => (d, OutOfFuel)
    end
  end.
Proof.
  intros o ps fuel rc d c Hp Ht. unfold unser_dispatch. rewrite Ht, (lookup_class_with_patches_spec o ps Hp).
  destruct (resolve_in ps fuel c) as [nm|]; [|reflexivity].
  destruct (lookup_class o nm) as [typ|e|]; try reflexivity.
  destruct (typ =? py_None); [reflexivity|].
  destruct (hasattr_ o typ "__setgluestate__"); [reflexivity|].
  rewrite unser_loop_spec. cbv zeta.
  destruct (snd (load_walk d (mro o typ) (sd_get "_protocol" 1 rc))) as [[t x]|]; reflexivity.
Qed.

Lemma stored_touch_any : forall d k' k v, stored (touch k' d) k v = stored d k v.
Proof.
  intros d k' k v. unfold stored. rewrite lookup_touch. destruct (lookup k d); [reflexivity|].
  destruct (k' =? k); reflexivity.
Qed.

(* the walk finds what the side-effect-free lookup of the model finds *)
Lemma load_walk_lookup : forall mro_ d v, snd (load_walk d mro_ v) = load_lookup d mro_ v.
Proof.
  induction mro_ as [|t r IH]; intros d v; [reflexivity|]. cbn [load_walk load_lookup].
  rewrite stored_touch_any. destruct (stored d t v); [reflexivity|].
  rewrite IH. clear IH. revert d. induction r as [|t' r IH']; intros d; [reflexivity|].
  cbn [load_lookup]. rewrite stored_touch_any. destruct (stored d t' v); [reflexivity | apply IH'].
Qed.

(* and never stores or changes a version *)
Lemma load_walk_stored : forall mro_ d v k v', stored (fst (load_walk d mro_ v)) k v' = stored d k v'.
Proof.
  induction mro_ as [|t r IH]; intros d v k v'; [reflexivity|]. cbn [load_walk].
  destruct (stored (touch t d) t v); cbn [fst]; [apply stored_touch_any|].
  rewrite IH. apply stored_touch_any.
Qed.

(* ================================================================= the interpreter over registrations, saves and loads *)

Lemma wf_step_fst : forall d o, wf d -> wf (fst (step d o)).
Proof. exact step_wf. Qed.

Lemma wf_load_walk : forall mro_ d v, wf d -> wf (fst (load_walk d mro_ v)).
Proof.
  induction mro_ as [|t r IH]; intros d v W; [assumption|]. cbn [load_walk].
  destruct (stored (touch t d) t v); cbn [fst]; [now apply wf_touch|]. apply IH. now apply wf_touch.
Qed.

Lemma save_lookup_wf : forall d mro_ t x, wf d -> save_lookup d mro_ = Some (t, x) ->
  x = RValueError \/ exists f v, x = RPair f v /\ 1 <= v.
Proof.
  intros d mro_ t x W. induction mro_ as [|t0 r IH]; cbn [save_lookup]; [discriminate|].
  destruct (lookup t0 d) as [vs|] eqn:E; [|exact IH]. intros H. inversion H; subst t0 x. clear H.
  destruct vs as [|p vs]; [left; reflexivity|]. right.
  destruct (newest_wfv (p :: vs) (W t _ E)) as [f [_ Hn]]; [discriminate|].
  exists f, (Z.of_nat (List.length (p :: vs))). split; [exact Hn|]. cbn [List.length]. lia.
Qed.

Definition loads_ok (ops_ : list rop) : Prop :=
  forall c v, In (DoLoad c v) ops_ -> c <> py_None.

Lemma reg_ops_int : forall cl ver, py_int (reg_ops cl) (raw_of ver) = ver.
Proof. intros. apply wire_int_raw_of. Qed.

Theorem grun_reg_ops_eq : forall cl ops_ sv lv, wf sv -> loads_ok ops_ ->
  grun_reg_ops (reg_ops cl) sv lv ops_ = run_reg_ops cl sv lv ops_.
Proof.
  intros cl ops_. induction ops_ as [|x r IH]; intros sv lv W L; [reflexivity|].
  assert (L' : loads_ok r) by (intros c v H; apply (L c v); now right).
  destruct x as [c ver val | c ver val | c | c v]; cbn [grun_reg_ops run_reg_ops].
  - rewrite saver_spec, reg_ops_int.
    pose proof (step_setitem_res sv c ver val) as C. pose proof (wf_step_fst sv (SetItem c ver val) W) as W1.
    destruct (step sv (SetItem c ver val)) as [sv1 y]. cbn [fst snd] in *.
    rewrite IH by assumption. destruct C as [C|[C|C]]; subst y; reflexivity.
  - rewrite loader_spec, reg_ops_int.
    pose proof (step_setitem_res lv c ver val) as C.
    destruct (step lv (SetItem c ver val)) as [lv1 y]. cbn [fst snd] in *.
    rewrite IH by assumption. destruct C as [C|[C|C]]; subst y; reflexivity.
  - rewrite ser_do_spec by reflexivity. rewrite ser_dispatch_spec. cbn [snd].
    change (hasattr_ (reg_ops cl) c "__gluestate__") with false. cbv iota.
    change (mro (reg_ops cl) (py_type (reg_ops cl) c)) with (mro_of cl c).
    destruct (save_lookup sv (mro_of cl c)) as [[t y]|] eqn:E.
    + destruct (save_lookup_wf sv _ t y W E) as [C|[f [v [C Hv]]]]; subst y; cbn [oc_of_newest].
      * rewrite IH by assumption. reflexivity.
      * rewrite IH by assumption. f_equal.
        unfold stamp, type_name_written. cbn [isinstance_ reg_ops getattr_ py_type dotted call_saver].
        change (str_is "__module__" "__module__") with true. change (str_is "__name__" "__module__") with false.
        cbv iota. rewrite Z.eqb_refl.
        destruct (v >? 1) eqn:G.
        -- reflexivity.
        -- assert (v = 1) by (rewrite Z.gtb_ltb in G; apply Z.ltb_ge in G; lia). subst v. reflexivity.
    + rewrite IH by assumption. reflexivity.
  - rewrite (unser_dispatch_spec (reg_ops cl) [] 0%nat (rec_full c v) lv c) by reflexivity.
    cbn [resolve_in patch_lookup_in find option_map lookup_class reg_ops].
    assert (N : (c =? py_None) = false) by (apply Z.eqb_neq; apply (L c v); now left).
    rewrite N.
    change (sd_get "_protocol" 1 (rec_full c v)) with v.
    change (hasattr_ (reg_ops cl) c "__setgluestate__") with false.
    change (mro (reg_ops cl) c) with (mro_of cl c). cbv zeta iota.
    destruct (load_walk lv (mro_of cl c) v) as [lv1 [[t f]|]]; cbn [fst snd]; rewrite IH by assumption; reflexivity.
Qed.
