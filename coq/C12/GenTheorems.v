(* C12 — the translated dispatch over the regenerated tables is the model's saver_of / loader_of, and the theorems of
   Lemmas.v stated about the translated definitions (gen/Gen_dispatch.v). *)
From Coq Require Import ZArith List Bool Lia String.
Import ListNotations.
From GV Require Import Common.Wire gen.Gen_tables gen.Gen_dispatch C12.Model C12.Lemmas C12.GenEquiv.
Open Scope Z_scope.

(* ================================================================= the registries built from the tables *)

Definition fids (t : Z) (vs : list Z) : versions := map (fun v => (v, fid t v)) vs.

Lemma lookup_reg_of_savers : forall sv t,
  lookup t (reg_of_savers sv) = option_map (fids t) (saver_versions_in sv t).
Proof.
  intros sv t. unfold saver_versions_in, reg_of_savers. induction sv as [|r sv IH]; [reflexivity|].
  cbn [map lookup find]. destruct (s_cls r =? t) eqn:E; [|exact IH].
  apply Z.eqb_eq in E. subst t. reflexivity.
Qed.

Lemma lookup_reg_of_loaders : forall lv t,
  lookup t (reg_of_loaders lv) = option_map (fids t) (loader_versions_in lv t).
Proof.
  intros lv t. unfold loader_versions_in, reg_of_loaders. induction lv as [|r lv IH]; [reflexivity|].
  cbn [map lookup find]. destruct (l_cls r =? t) eqn:E; [|exact IH].
  apply Z.eqb_eq in E. subst t. reflexivity.
Qed.

Lemma fold_max_In : forall l a, fold_left Z.max l a = a \/ In (fold_left Z.max l a) l.
Proof.
  induction l as [|x l IH]; intros a; [now left|]. cbn [fold_left].
  destruct (IH (Z.max a x)) as [H|H]; [|right; now right].
  rewrite H. destruct (Z.max_spec a x) as [[_ M]|[_ M]]; rewrite M; [right; now left | now left].
Qed.

Lemma zmax_list_In : forall l, l <> [] -> In (zmax_list l) l.
Proof.
  intros [|x l] H; [congruence|]. unfold zmax_list. cbn [hd].
  destruct (fold_max_In (x :: l) x) as [E|E]; [rewrite E; now left | exact E].
Qed.

Lemma map_fst_fids : forall t vs, map fst (fids t vs) = vs.
Proof. intros t vs. unfold fids. rewrite map_map. cbn [fst]. apply map_id. Qed.

Lemma vget_fids : forall t vs v, vget v (fids t vs) = if zmem v vs then Some (fid t v) else None.
Proof.
  intros t vs v. unfold fids, zmem. induction vs as [|a vs IH]; [reflexivity|]. cbn [map vget existsb].
  rewrite (Z.eqb_sym v a). destruct (a =? v) eqn:E; [apply Z.eqb_eq in E; subst a; reflexivity | exact IH].
Qed.

Lemma zmem_true_In : forall x l, In x l -> zmem x l = true.
Proof.
  intros x l H. unfold zmem. apply existsb_exists. exists x. split; [assumption | apply Z.eqb_refl].
Qed.

Lemma newest_fids : forall t vs, vs <> [] -> newest (fids t vs) = RPair (fid t (zmax_list vs)) (zmax_list vs).
Proof.
  intros t vs NE. unfold newest. destruct (fids t vs) as [|p q] eqn:F.
  - destruct vs; [congruence | discriminate].
  - rewrite <- F, map_fst_fids, vget_fids, (zmem_true_In _ _ (zmax_list_In vs NE)). reflexivity.
Qed.

Definition rows_nonempty (sv : list saver_row) : Prop := forall r, In r sv -> s_versions r <> [].

Lemma save_lookup_first_saver : forall sv, rows_nonempty sv -> forall mro_,
  save_lookup (reg_of_savers sv) mro_ =
  match first_saver sv mro_ with Some (Reg t v) => Some (t, RPair (fid t v) v) | _ => None end.
Proof.
  intros sv NE. induction mro_ as [|t r IH]; [reflexivity|]. cbn [save_lookup first_saver].
  rewrite lookup_reg_of_savers. destruct (saver_versions_in sv t) as [vs|] eqn:E; cbn [option_map]; [|exact IH].
  rewrite newest_fids; [reflexivity|].
  unfold saver_versions_in in E. destruct (find (fun r0 => s_cls r0 =? t) sv) as [r0|] eqn:F; [|discriminate].
  inversion E; subst vs. apply NE. apply find_some in F. tauto.
Qed.

Lemma load_lookup_first_loader : forall lv mro_ v,
  load_lookup (reg_of_loaders lv) mro_ v =
  match first_loader lv mro_ v with Some (Reg t v') => Some (t, fid t v') | _ => None end.
Proof.
  intros lv mro_ v. induction mro_ as [|t r IH]; [reflexivity|]. cbn [load_lookup first_loader].
  unfold stored. rewrite lookup_reg_of_loaders.
  destruct (loader_versions_in lv t) as [vs|]; cbn [option_map]; [|exact IH].
  rewrite vget_fids. destruct (zmem v vs); [reflexivity | exact IH].
Qed.

(* what the model's answer looks like as a result of the translated _dispatch *)
Definition enc_saver (h : option how) : outcome (Z * Z) :=
  match h with Some (Meth p) => Ret (meth_id p, 1) | Some (Reg t v) => Ret (fid t v, v) | None => Raise GlueSerializeError end.
Definition enc_loader (h : option how) : outcome Z :=
  match h with Some (Meth p) => Ret (meth_id p) | Some (Reg t v) => Ret (fid t v) | None => Raise GlueSerializeError end.

Lemma first_saver_reg : forall sv mro_ p, first_saver sv mro_ <> Some (Meth p).
Proof.
  intros sv mro_ p. induction mro_ as [|t r IH]; cbn [first_saver]; [discriminate|].
  destruct (saver_versions_in sv t); [discriminate | exact IH].
Qed.

Lemma first_loader_reg : forall lv mro_ v p, first_loader lv mro_ v <> Some (Meth p).
Proof.
  intros lv mro_ v p. induction mro_ as [|t r IH]; cbn [first_loader]; [discriminate|].
  destruct (loader_versions_in lv t) as [vs|]; [destruct (zmem v vs); [discriminate | exact IH] | exact IH].
Qed.

(* GlueSerializer._dispatch, translated, over ANY saver table and class table = saver_of_in *)
Theorem gen_saver_of_in_eq : forall sv cl c, rows_nonempty sv -> find_cls_in cl (c_id c) = Some c ->
  gen_saver_of_in sv cl c = enc_saver (saver_of_in sv c).
Proof.
  intros sv cl c NE F. unfold gen_saver_of_in. rewrite ser_dispatch_spec. cbn [snd].
  cbn [hasattr_ getattr_ py_type mro tbl_ops_in]. rewrite F.
  change (str_is "__gluestate__" "__gluestate__") with true. cbv iota.
  unfold saver_of_in. destruct (c_gs c) as [p|]; cbn [is_some]; [reflexivity|].
  rewrite (save_lookup_first_saver sv NE).
  destruct (first_saver sv (c_mro c)) as [[p|t v]|] eqn:E; try reflexivity.
  exfalso. exact (first_saver_reg _ _ _ E).
Qed.

Lemma sd_get_protocol_rec_of : forall c v, 1 <= v -> sd_get "_protocol" 1 (rec_of c v) = v.
Proof.
  intros c v H. unfold rec_of. destruct (v >? 1) eqn:G; [reflexivity|].
  rewrite Z.gtb_ltb in G. apply Z.ltb_ge in G. assert (v = 1) by lia. subst v. reflexivity.
Qed.

Lemma sd_getitem_type_rec_of : forall c v, sd_getitem "_type" (rec_of c v) = Some c.
Proof. intros c v. unfold rec_of. destruct (v >? 1); reflexivity. Qed.

(* GlueUnSerializer._dispatch, translated, on the record {_type: c, _protocol: v} = loader_of_in *)
Theorem gen_loader_of_in_eq : forall lv cl c v, find_cls_in cl (c_id c) = Some c -> c_id c <> py_None -> 1 <= v ->
  gen_loader_of_in lv cl c v = enc_loader (loader_of_in lv c v).
Proof.
  intros lv cl c v F N Hv. unfold gen_loader_of_in.
  rewrite (unser_dispatch_spec _ [] 0%nat _ _ (c_id c)) by (reflexivity || apply sd_getitem_type_rec_of).
  cbn [resolve_in patch_lookup_in find option_map lookup_class tbl_ops_in]. unfold lc_id.
  apply Z.eqb_neq in N. rewrite N.
  cbn [hasattr_ getattr_ mro tbl_ops_in]. rewrite F.
  change (str_is "__setgluestate__" "__gluestate__") with false.
  change (str_is "__setgluestate__" "__setgluestate__") with true. cbv iota zeta.
  unfold loader_of_in. destruct (c_sgs c) as [p|]; cbn [is_some snd]; [reflexivity|].
  rewrite sd_get_protocol_rec_of by assumption. rewrite load_walk_lookup, load_lookup_first_loader.
  destruct (first_loader lv (c_mro c) v) as [[p|t v']|] eqn:E; try reflexivity.
  exfalso. exact (first_loader_reg _ _ _ _ E).
Qed.

(* ---- the instance: the regenerated tables *)
Fixpoint nodupb (l : list Z) : bool :=
  match l with [] => true | x :: r => negb (zmem x r) && nodupb r end.

Lemma find_cls_in_self : forall cl, nodupb (map c_id cl) = true -> forall c, In c cl -> find_cls_in cl (c_id c) = Some c.
Proof.
  unfold find_cls_in. induction cl as [|a cl IH]; intros ND c Hc; [contradiction|].
  cbn [map nodupb] in ND. apply andb_true_iff in ND. destruct ND as [NA ND]. cbn [find].
  destruct Hc as [Hc|Hc]; [subst a; now rewrite Z.eqb_refl|].
  destruct (c_id a =? c_id c) eqn:E; [|now apply IH].
  exfalso. apply Z.eqb_eq in E. apply negb_true_iff in NA.
  assert (zmem (c_id a) (map c_id cl) = true) by (apply zmem_true_In; rewrite E; now apply in_map).
  congruence.
Qed.

Lemma classes_nodup : nodupb (map c_id classes) = true.
Proof. vm_compute. reflexivity. Qed.

Lemma classes_not_none : forallb (fun c => negb (c_id c =? py_None)) classes = true.
Proof. vm_compute. reflexivity. Qed.

Lemma savers_nonempty : rows_nonempty savers.
Proof. intros r Hr. exact (proj2 (proj1 registry_consecutive r Hr)). Qed.

Theorem gen_saver_of_eq : forall c, In c classes -> gen_saver_of c = enc_saver (saver_of c).
Proof.
  intros c Hc. apply gen_saver_of_in_eq; [exact savers_nonempty | exact (find_cls_in_self _ classes_nodup c Hc)].
Qed.

Theorem gen_loader_of_eq : forall c v, In c classes -> 1 <= v -> gen_loader_of c v = enc_loader (loader_of c v).
Proof.
  intros c v Hc Hv. apply gen_loader_of_in_eq; [exact (find_cls_in_self _ classes_nodup c Hc) | | exact Hv].
  pose proof (proj1 (forallb_forall _ _) classes_not_none c Hc) as H. cbv beta in H.
  apply negb_true_iff in H. now apply Z.eqb_neq.
Qed.

(* ================================================================= the theorems, about the translated definitions *)

(* VersionedDict (translated): for every sequence of operations the stored versions of each key are exactly 1..n, a stored value
   is never replaced or lost, d[k] (the translated __getitem__) is the newest *)
Theorem gen_versions_consecutive_write_once : forall (o : ops) (ops_ : list op),
  (forall ver, py_int o (raw_of ver) = ver) ->
  let d := fst (grun o vd_init ops_) in
  (forall k vs, dd_lookup k d = Some vs -> map fst vs = zseq 1 (List.length vs))
  /\ (forall pre post k v x, ops_ = pre ++ post -> stored (fst (grun o vd_init pre)) k v = Some x -> stored d k v = Some x)
  /\ (forall k vs, dd_lookup k d = Some vs -> vs <> [] ->
        exists x, stored d k (Z.of_nat (List.length vs)) = Some x
                  /\ vd_getitem o k d = (d, Ret (x, Z.of_nat (List.length vs)))).
Proof.
  intros o ops_ Hint d. unfold d, vd_init. rewrite grun_eq by assumption.
  destruct (versions_consecutive_write_once ops_) as [A [B C]]. unfold final in *.
  split; [exact A|]. split.
  - intros pre post k v x E S. rewrite grun_eq in S by assumption. exact (B pre post k v x E S).
  - intros k vs L NE. destruct (C k vs L NE) as [x [S G]]. exists x. split; [exact S|].
    rewrite vd_getitem_spec. rewrite dd_lookup_eq in L. cbn [step] in G.
    cbv delta [ddict inner versions vd] in *. rewrite L. rewrite L in G. cbn [snd] in G.
    now rewrite G.
Qed.

(* the translated _dispatch picks the most derived registered class and its newest version, at every moment of every history
   of (translated) VersionedDict operations / decorator calls, and does not change the registry *)
Theorem gen_save_uses_newest_at_every_moment : forall (o : ops) (ops_ : list op) obj f v,
  (forall ver, py_int o (raw_of ver) = ver) ->
  let d := fst (grun o vd_init ops_) in
  hasattr_ o obj "__gluestate__" = false ->
  snd (ser_dispatch o obj d) = Ret (f, v) ->
  fst (ser_dispatch o obj d) = d /\
  exists pre t post vs, mro o (py_type o obj) = pre ++ t :: post /\ (forall t', In t' pre -> dd_contains t' d = false)
    /\ dd_lookup t d = Some vs /\ v = Z.of_nat (List.length vs) /\ stored d t v = Some f
    /\ (forall v' x', stored d t v' = Some x' -> v' <= v).
Proof.
  intros o ops_ obj f v Hint d HG. unfold d, vd_init. rewrite grun_eq by assumption.
  rewrite ser_dispatch_spec, HG. cbn [fst snd].
  match goal with |- context [save_lookup ?D _] => set (dd := D) end.
  destruct (save_lookup dd (mro o (py_type o obj))) as [[t x]|] eqn:E; [|intros H; discriminate H].
  destruct x; intros H; try discriminate H. inversion H; subst val ver. clear H. split; [reflexivity|].
  destruct (save_uses_newest_at_every_moment ops_ _ t f v E) as [pre [post [vs [M [P R]]]]].
  exists pre, t, post, vs. split; [exact M|]. split; [|exact R].
  intros t' Ht'. rewrite dd_contains_eq. change (is_some (lookup t' (final ops_)) = false). now rewrite (P t' Ht').
Qed.

(* the translated rename loop terminates for every name within |table| steps, on a name that is not a key *)
Theorem gen_patches_terminate : forall nm, exists t, gen_resolve nm = Ret t /\ d_contains t (patch_table patches) = false.
Proof.
  intros nm. destruct (patches_terminate nm) as [t [R K]]. exists t. unfold gen_resolve.
  rewrite gen_resolve_in_eq. unfold resolve in R. rewrite R. split; [reflexivity|].
  unfold d_contains. rewrite patch_table_getitem. unfold patch_lookup in K. now rewrite K.
Qed.

(* the bound is a bound: more fuel gives the same answer *)
Theorem gen_patches_fuel_bound : forall nm fuel, (List.length patches <= fuel)%nat ->
  gen_resolve_in patches fuel nm = gen_resolve nm.
Proof.
  intros nm fuel L. destruct (patches_terminate nm) as [t [R _]]. unfold gen_resolve. rewrite !gen_resolve_in_eq.
  unfold resolve in R. rewrite R, (resolve_in_more_fuel _ _ _ _ R fuel L). reflexivity.
Qed.

Theorem gen_patch_targets_in_package_resolve : forall p, In p patches ->
  exists t row, gen_resolve (p_from p) = Ret t /\ In row targets /\ t_name row = t /\
                (t_in_glue row = true -> t_importable row = true).
Proof.
  intros p Hp. destruct (patch_targets_in_package_resolve p Hp) as [t [row [R Q]]]. exists t, row.
  split; [|exact Q]. unfold gen_resolve. rewrite gen_resolve_in_eq. unfold resolve in R. now rewrite R.
Qed.

(* a save through the registry (translated _dispatch over the tables) uses the newest version of the class that is found *)
Theorem gen_save_uses_newest : forall c f v, In c classes -> gen_saver_of c = Ret (f, v) ->
  (exists p, c_gs c = Some p /\ f = meth_id p /\ v = 1) \/
  (exists t vs, f = fid t v /\ saver_versions t = Some vs /\ In v vs /\ (forall v', In v' vs -> v' <= v)).
Proof.
  intros c f v Hc H. rewrite (gen_saver_of_eq c Hc) in H.
  destruct (saver_of c) as [[p|t v0]|] eqn:E; cbn [enc_saver] in H; [| |discriminate].
  - left. inversion H. exists p. split; [|split; reflexivity].
    unfold saver_of, saver_of_in in E. destruct (c_gs c) as [q|]; [now inversion E|].
    exfalso. exact (first_saver_reg _ _ _ E).
  - right. inversion H; subst f v0. destruct (save_uses_newest c t v Hc E) as [vs Q]. exists t, vs. split; [reflexivity | exact Q].
Qed.

(* the whole pipeline of translated functions: for every (T, v) with a saver, an object of type T written by GlueSerializer.do when v
   was the newest version is stamped _type = T, _protocol = v, and GlueUnSerializer._dispatch (rename loop, lookup_class over the
   class table, MRO walk over today's loaders) selects the loader registered for (T, v) *)
Definition chk_roundtrip (r : saver_row) : bool :=
  forallb (fun v => zmem (s_cls r) write_only ||
    (match gen_written (s_cls r) v with
     | Ret (PRec rc) => (sd_get "_type" (-1) rc =? s_cls r) && (sd_get "_protocol" 1 rc =? v)
     | _ => false end &&
     match gen_roundtrip (s_cls r) v with Ret f => f =? fid (s_cls r) v | _ => false end)) (s_versions r).

Lemma chk_roundtrip_ok : forallb chk_roundtrip savers = true.
Proof. vm_compute. reflexivity. Qed.

Theorem gen_every_saver_has_loader : forall r v, In r savers -> In v (s_versions r) ->
  In (s_cls r) write_only \/
  exists rc, gen_written (s_cls r) v = Ret (PRec rc) /\ sd_get "_type" (-1) rc = s_cls r /\ sd_get "_protocol" 1 rc = v /\
             snd (unser_dispatch full_ops (List.length patches) rc (reg_of_loaders loaders)) = Ret (fid (s_cls r) v).
Proof.
  intros r v Hr Hv.
  pose proof (proj1 (forallb_forall _ _) chk_roundtrip_ok r Hr) as H. unfold chk_roundtrip in H.
  pose proof (proj1 (forallb_forall _ _) H v Hv) as H'. cbv beta in H'.
  apply orb_true_iff in H'. destruct H' as [H'|H']; [left; now apply zmem_In|]. right.
  apply andb_true_iff in H'. destruct H' as [H1 H2]. unfold gen_roundtrip in H2.
  destruct (gen_written (s_cls r) v) as [[x|s x|x|rc]|e|]; try discriminate.
  apply andb_true_iff in H1. destruct H1 as [Ht Hp]. apply Z.eqb_eq in Ht. apply Z.eqb_eq in Hp.
  exists rc. split; [reflexivity|]. split; [exact Ht|]. split; [exact Hp|].
  destruct (snd (unser_dispatch full_ops (List.length patches) rc (reg_of_loaders loaders))) as [f|e|]; try discriminate.
  apply Z.eqb_eq in H2. now subst f.
Qed.

(* the decorator calls of the package (found by ast, in source order), run through the translated decorators from empty
   registries, are all accepted and build exactly the version lists of the live registries *)
Fixpoint replay (o : ops) (l : list (bool * Z * option Z * Z)) (sv lv : vd) : option (vd * vd) :=
  match l with
  | [] => Some (sv, lv)
  | (true, c, v, f) :: r =>
      match loader o c (match v with Some x => x | None => unser_unserializes_default_version end) f lv with
      | (lv1, Ret _) => replay o r sv lv1
      | _ => None
      end
  | (false, c, v, f) :: r =>
      match saver o c (match v with Some x => x | None => ser_serializes_default_version end) f sv with
      | (sv1, Ret _) => replay o r sv1 lv
      | _ => None
      end
  end.

Definition version_lists (d : vd) : list (Z * list Z) := map (fun e => (fst e, map fst (snd e))) d.

Theorem gen_registrations_replay :
  exists sv lv, replay full_ops registrations vd_init vd_init = Some (sv, lv)
    /\ version_lists sv = map (fun r => (s_cls r, s_versions r)) savers
    /\ version_lists lv = map (fun r => (l_cls r, l_versions r)) loaders.
Proof.
  destruct (replay full_ops registrations vd_init vd_init) as [[sv lv]|] eqn:E.
  - exists sv, lv. split; [reflexivity|]. revert E. vm_compute. intros E. inversion E. split; reflexivity.
  - exfalso. revert E. vm_compute. discriminate.
Qed.
