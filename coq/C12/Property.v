(* C12 — statements only.  Every theorem is proved in Lemmas.v. *)
From Coq Require Import ZArith List Bool String.
Import ListNotations.
From GV Require Import Common.Wire gen.Gen_tables gen.Gen_versioned gen.Gen_dispatch C12.Model C12.Lemmas C12.GenLink C12.GenEquiv C12.GenTheorems.
Open Scope Z_scope.

(* VersionedDict: for every sequence of operations (valid or invalid assignments, reads): stored versions of each key are
   exactly 1..n, a stored value is never replaced or lost, d[k] is the newest. *)
Theorem versions_consecutive_write_once : forall ops : list op,
  let d := final ops in
  (forall k vs, lookup k d = Some vs -> map fst vs = zseq 1 (List.length vs))
  /\ (forall pre post k v x, ops = pre ++ post -> stored (final pre) k v = Some x -> stored d k v = Some x)
  /\ (forall k vs, lookup k d = Some vs -> vs <> [] ->
        exists x, stored d k (Z.of_nat (List.length vs)) = Some x
                  /\ snd (step d (GetItem k)) = RPair x (Z.of_nat (List.length vs))).
Proof. exact Lemmas.versions_consecutive_write_once. Qed.
Print Assumptions versions_consecutive_write_once.

(* registrations interleaved with saves: at every moment a save uses the most specific registered class of the MRO and
   the newest version registered for it so far *)
Theorem save_uses_newest_at_every_moment : forall (ops : list op) (mro : list Z) t x v,
  let d := final ops in
  save_lookup d mro = Some (t, RPair x v) ->
  exists pre post vs, mro = pre ++ t :: post /\ (forall t', In t' pre -> lookup t' d = None)
    /\ lookup t d = Some vs /\ v = Z.of_nat (List.length vs) /\ stored d t v = Some x
    /\ (forall v' x', stored d t v' = Some x' -> v' <= v).
Proof. exact Lemmas.save_uses_newest_at_every_moment. Qed.
Print Assumptions save_uses_newest_at_every_moment.

Theorem registry_consecutive :
  (forall r, In r savers -> s_versions r = zseq 1 (List.length (s_versions r)) /\ s_versions r <> [])
  /\ (forall r, In r loaders -> l_versions r = zseq 1 (List.length (l_versions r)) /\ l_versions r <> []).
Proof. exact Lemmas.registry_consecutive. Qed.
Print Assumptions registry_consecutive.

Theorem save_uses_newest : forall c t v, In c classes -> saver_of c = Some (Reg t v) ->
  exists vs, saver_versions t = Some vs /\ In v vs /\ (forall v', In v' vs -> v' <= v).
Proof. exact Lemmas.save_uses_newest. Qed.
Print Assumptions save_uses_newest.

Theorem every_saver_has_loader : forall r v, In r savers -> In v (s_versions r) ->
  In (s_cls r) write_only \/
  exists c, find_cls (s_cls r) = Some c /\ loader_of c v = Some (Reg (s_cls r) v).
Proof. exact Lemmas.every_saver_has_loader. Qed.
Print Assumptions every_saver_has_loader.

Theorem every_loader_has_saver : forall r v, In r loaders -> In v (l_versions r) ->
  exists vs, saver_versions (l_cls r) = Some vs /\ In v vs.
Proof. exact Lemmas.every_loader_has_saver. Qed.
Print Assumptions every_loader_has_saver.

Theorem patches_terminate : forall nm, exists t, resolve nm = Some t /\ patch_lookup t = None.
Proof. exact Lemmas.patches_terminate. Qed.
Print Assumptions patches_terminate.

(* Full statement, false of the current rename table:  forall p, In p patches -> writes p = false. *)
Theorem patches_no_live_capture_refuted : exists p, In p patches /\ writes p = true.
Proof. exact Lemmas.patches_no_live_capture_refuted. Qed.
Print Assumptions patches_no_live_capture_refuted.

Theorem patches_no_live_capture_partial : forall p, In p patches ->
  ~ In (name_of (p_from p))
       ["glue.viewers.histogram.layer_artist.HistogramLayerArtist"%string;
        "glue.viewers.profile.layer_artist.ProfileLayerArtist"%string] ->
  writes p = false.
Proof. exact Lemmas.patches_no_live_capture_partial. Qed.
Print Assumptions patches_no_live_capture_partial.

Theorem patch_targets_in_package_resolve : forall p, In p patches ->
  exists t row, resolve (p_from p) = Some t /\ In row targets /\ t_name row = t /\
                (t_in_glue row = true -> t_importable row = true).
Proof. exact Lemmas.patch_targets_in_package_resolve. Qed.
Print Assumptions patch_targets_in_package_resolve.

(* ---- tie of the VersionedDict model to the source by translation: vd_setitem_guard is the guard sequence of
   VersionedDict.__setitem__ REGENERATED from glue/core/state.py on every run (tools/gen/gen_versioned.py) ---- *)

(* the model accepts / rejects an assignment exactly as the translated guards do *)
Theorem setitem_follows_generated_guard : forall (d : vd) (k ver val : Z),
  snd (step d (SetItem k (Some ver) val)) =
  res_of_code (vd_setitem_guard (fun v => has v (versions_seen d k)) ver).
Proof. exact GenLink.setitem_follows_generated_guard. Qed.
Print Assumptions setitem_follows_generated_guard.

Theorem setitem_state_follows_generated_guard : forall (d : vd) (k ver val : Z),
  (vd_setitem_guard (fun v => has v (versions_seen d k)) ver = 0%Z ->
     fst (step d (SetItem k (Some ver) val)) = update k (versions_seen d k ++ [(ver, val)]) (touch k d)) /\
  (vd_setitem_guard (fun v => has v (versions_seen d k)) ver <> 0%Z ->
     fst (step d (SetItem k (Some ver) val)) = d \/ fst (step d (SetItem k (Some ver) val)) = touch k d).
Proof. exact GenLink.setitem_state_follows_generated_guard. Qed.
Print Assumptions setitem_state_follows_generated_guard.

(* what the translated guards say: accepted iff version >= 1, the previous version is stored (or version = 1)
   and the version itself is not: "consecutive from 1, never overwritten" *)
Theorem generated_guard_spec : forall (has : Z -> bool) (ver : Z),
  vd_setitem_guard has ver = 0%Z <-> (1 <= ver)%Z /\ (ver = 1%Z \/ has (ver - 1)%Z = true) /\ has ver = false.
Proof. exact GenLink.generated_guard_spec. Qed.
Print Assumptions generated_guard_spec.

(* ---- round 5: the dispatch and lookup logic of glue/core/state.py TRANSLATED statement by statement (tools/gen/gen_dispatch.py ->
   coq/gen/Gen_dispatch.v, regenerated on every run): equivalence with the hand model, and the theorems about the translated definitions ---- *)

Theorem gstep_eq : forall o d op_, (forall ver, py_int o (raw_of ver) = ver) -> gstep o d op_ = step d op_.
Proof. exact GenEquiv.gstep_eq. Qed.
Print Assumptions gstep_eq.

Theorem grun_eq : forall o ops_ d, (forall ver, py_int o (raw_of ver) = ver) -> grun o d ops_ = run d ops_.
Proof. exact GenEquiv.grun_eq. Qed.
Print Assumptions grun_eq.

Theorem loop_resolve : forall o ps, path_patches o = patch_table ps -> forall fuel nm,
  lookup_class_with_patches_loop1 o fuel nm =
  match resolve_in ps fuel nm with Some t => Next t | None => Done OutOfFuel end.
Proof. exact GenEquiv.loop_resolve. Qed.
Print Assumptions loop_resolve.

Theorem lookup_class_with_patches_spec : forall o ps, path_patches o = patch_table ps -> forall fuel nm,
  lookup_class_with_patches o fuel nm =
  match resolve_in ps fuel nm with Some t => lookup_class o t | None => OutOfFuel end.
Proof. exact GenEquiv.lookup_class_with_patches_spec. Qed.
Print Assumptions lookup_class_with_patches_spec.

Theorem gen_resolve_in_eq : forall ps fuel nm,
  gen_resolve_in ps fuel nm = match resolve_in ps fuel nm with Some t => Ret t | None => OutOfFuel end.
Proof. exact GenEquiv.gen_resolve_in_eq. Qed.
Print Assumptions gen_resolve_in_eq.

Theorem saver_spec : forall o c raw val d,
  saver o c raw val d =
  (fst (step d (SetItem c (py_int o raw) val)),
   match snd (step d (SetItem c (py_int o raw) val)) with
   | RNone => Ret val | RValueError => Raise ValueError | _ => Raise KeyError end).
Proof. exact GenEquiv.saver_spec. Qed.
Print Assumptions saver_spec.

Theorem loader_spec : forall o c raw val d,
  loader o c raw val d =
  (fst (step d (SetItem c (py_int o raw) val)),
   match snd (step d (SetItem c (py_int o raw) val)) with
   | RNone => Ret val | RValueError => Raise ValueError | _ => Raise KeyError end).
Proof. exact GenEquiv.loader_spec. Qed.
Print Assumptions loader_spec.

Theorem ser_dispatch_spec : forall o obj d,
  ser_dispatch o obj d =
  (d, if hasattr_ o obj "__gluestate__" then Ret (getattr_ o (py_type o obj) "__gluestate__", 1)
      else match save_lookup d (mro o (py_type o obj)) with
           | None => Raise GlueSerializeError
           | Some (_, x) => oc_of_newest x
           end).
Proof. exact GenEquiv.ser_dispatch_spec. Qed.
Print Assumptions ser_dispatch_spec.

Theorem ser_do_spec : forall o obj d w,
  isinstance_ o obj "str" = false -> in_global o "literals" (py_type o obj) = false ->
  in_global o "builtin_iterables" (py_type o obj) && flat_literals o obj = false ->
  set_contains obj w = false ->
  ser_do o obj d w =
  match snd (ser_dispatch o obj d) with
  | Ret (f, v) => (d, w, Ret (PRec (stamp o obj v (call_saver o f obj))))
  | Raise e => (d, set_add obj w, Raise e)
  | OutOfFuel => (d, set_add obj w, OutOfFuel)
  end.
Proof. exact GenEquiv.ser_do_spec. Qed.
Print Assumptions ser_do_spec.

Theorem unser_dispatch_spec : forall o ps fuel rc d c,
  path_patches o = patch_table ps -> sd_getitem "_type" rc = Some c ->
  unser_dispatch o fuel rc d =
  match resolve_in ps fuel c with
  | None => (d, OutOfFuel)
  | Some nm =>
    match lookup_class o nm with
    | Ret typ =>
        if typ =? py_None then (d, Raise GlueSerializeError)
        else if hasattr_ o typ "__setgluestate__" then (d, Ret (getattr_ o typ "__setgluestate__"))
        else let w := load_walk d (mro o typ) (sd_get "_protocol" 1 rc) in
             (fst w, match snd w with Some (_, x) => Ret x | None => Raise GlueSerializeError end)
    | Raise e => (d, Raise e)
    | OutOfFuel => (d, OutOfFuel)
    end
  end.
Proof. exact GenEquiv.unser_dispatch_spec. Qed.
Print Assumptions unser_dispatch_spec.

Theorem grun_reg_ops_eq : forall cl ops_ sv lv, wf sv -> loads_ok ops_ ->
  grun_reg_ops (reg_ops cl) sv lv ops_ = run_reg_ops cl sv lv ops_.
Proof. exact GenEquiv.grun_reg_ops_eq. Qed.
Print Assumptions grun_reg_ops_eq.

Theorem gen_saver_of_in_eq : forall sv cl c, rows_nonempty sv -> find_cls_in cl (c_id c) = Some c ->
  gen_saver_of_in sv cl c = enc_saver (saver_of_in sv c).
Proof. exact GenTheorems.gen_saver_of_in_eq. Qed.
Print Assumptions gen_saver_of_in_eq.

Theorem gen_loader_of_in_eq : forall lv cl c v, find_cls_in cl (c_id c) = Some c -> c_id c <> py_None -> 1 <= v ->
  gen_loader_of_in lv cl c v = enc_loader (loader_of_in lv c v).
Proof. exact GenTheorems.gen_loader_of_in_eq. Qed.
Print Assumptions gen_loader_of_in_eq.

Theorem gen_saver_of_eq : forall c, In c classes -> gen_saver_of c = enc_saver (saver_of c).
Proof. exact GenTheorems.gen_saver_of_eq. Qed.
Print Assumptions gen_saver_of_eq.

Theorem gen_loader_of_eq : forall c v, In c classes -> 1 <= v -> gen_loader_of c v = enc_loader (loader_of c v).
Proof. exact GenTheorems.gen_loader_of_eq. Qed.
Print Assumptions gen_loader_of_eq.

Theorem gen_versions_consecutive_write_once : forall (o : ops) (ops_ : list op),
  (forall ver, py_int o (raw_of ver) = ver) ->
  let d := fst (grun o vd_init ops_) in
  (forall k vs, dd_lookup k d = Some vs -> map fst vs = zseq 1 (List.length vs))
  /\ (forall pre post k v x, ops_ = pre ++ post -> stored (fst (grun o vd_init pre)) k v = Some x -> stored d k v = Some x)
  /\ (forall k vs, dd_lookup k d = Some vs -> vs <> [] ->
        exists x, stored d k (Z.of_nat (List.length vs)) = Some x
                  /\ vd_getitem o k d = (d, Ret (x, Z.of_nat (List.length vs)))).
Proof. exact GenTheorems.gen_versions_consecutive_write_once. Qed.
Print Assumptions gen_versions_consecutive_write_once.

Theorem gen_save_uses_newest_at_every_moment : forall (o : ops) (ops_ : list op) obj f v,
  (forall ver, py_int o (raw_of ver) = ver) ->
  let d := fst (grun o vd_init ops_) in
  hasattr_ o obj "__gluestate__" = false ->
  snd (ser_dispatch o obj d) = Ret (f, v) ->
  fst (ser_dispatch o obj d) = d /\
  exists pre t post vs, mro o (py_type o obj) = pre ++ t :: post /\ (forall t', In t' pre -> dd_contains t' d = false)
    /\ dd_lookup t d = Some vs /\ v = Z.of_nat (List.length vs) /\ stored d t v = Some f
    /\ (forall v' x', stored d t v' = Some x' -> v' <= v).
Proof. exact GenTheorems.gen_save_uses_newest_at_every_moment. Qed.
Print Assumptions gen_save_uses_newest_at_every_moment.

Theorem gen_patches_terminate : forall nm, exists t, gen_resolve nm = Ret t /\ d_contains t (patch_table patches) = false.
Proof. exact GenTheorems.gen_patches_terminate. Qed.
Print Assumptions gen_patches_terminate.

Theorem gen_patches_fuel_bound : forall nm fuel, (List.length patches <= fuel)%nat ->
  gen_resolve_in patches fuel nm = gen_resolve nm.
Proof. exact GenTheorems.gen_patches_fuel_bound. Qed.
Print Assumptions gen_patches_fuel_bound.

Theorem gen_patch_targets_in_package_resolve : forall p, In p patches ->
  exists t row, gen_resolve (p_from p) = Ret t /\ In row targets /\ t_name row = t /\
                (t_in_glue row = true -> t_importable row = true).
Proof. exact GenTheorems.gen_patch_targets_in_package_resolve. Qed.
Print Assumptions gen_patch_targets_in_package_resolve.

Theorem gen_save_uses_newest : forall c f v, In c classes -> gen_saver_of c = Ret (f, v) ->
  (exists p, c_gs c = Some p /\ f = meth_id p /\ v = 1) \/
  (exists t vs, f = fid t v /\ saver_versions t = Some vs /\ In v vs /\ (forall v', In v' vs -> v' <= v)).
Proof. exact GenTheorems.gen_save_uses_newest. Qed.
Print Assumptions gen_save_uses_newest.

Theorem gen_every_saver_has_loader : forall r v, In r savers -> In v (s_versions r) ->
  In (s_cls r) write_only \/
  exists rc, gen_written (s_cls r) v = Ret (PRec rc) /\ sd_get "_type" (-1) rc = s_cls r /\ sd_get "_protocol" 1 rc = v /\
             snd (unser_dispatch full_ops (List.length patches) rc (reg_of_loaders loaders)) = Ret (fid (s_cls r) v).
Proof. exact GenTheorems.gen_every_saver_has_loader. Qed.
Print Assumptions gen_every_saver_has_loader.

Theorem gen_registrations_replay :
  exists sv lv, replay full_ops registrations vd_init vd_init = Some (sv, lv)
    /\ version_lists sv = map (fun r => (s_cls r, s_versions r)) savers
    /\ version_lists lv = map (fun r => (l_cls r, l_versions r)) loaders.
Proof. exact GenTheorems.gen_registrations_replay. Qed.
Print Assumptions gen_registrations_replay.

Theorem vd_delitem_spec : forall o k d, vd_delitem o k d = (d, Raise ValueError).
Proof. exact GenEquiv.vd_delitem_spec. Qed.
Print Assumptions vd_delitem_spec.

Theorem load_walk_stored : forall mro_ d v k v', stored (fst (load_walk d mro_ v)) k v' = stored d k v'.
Proof. exact GenEquiv.load_walk_stored. Qed.
Print Assumptions load_walk_stored.
