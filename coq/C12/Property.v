(* C12 — statements only.  Every theorem is proved in Lemmas.v. *)
From Coq Require Import ZArith List Bool String.
Import ListNotations.
From GV Require Import Common.Wire gen.Gen_tables gen.Gen_versioned C12.Model C12.Lemmas C12.GenLink.
Open Scope Z_scope.

(* VersionedDict: for every sequence of operations (valid or invalid assignments, reads): stored versions of each key are
   exactly 1..n, a stored value is never replaced or lost, d[k] is the newest. *)
Theorem versions_consecutive_write_once : forall ops : list op,
  let d := final ops in
  (forall k vs, lookup k d = Some vs -> map fst vs = zseq 1 (List.length vs))
  /\ (forall pre post k v x, ops = pre ++ post -> stored (final pre) k v = Some x -> stored d k v = Some x)
  /\ (forall k vs, lookup k d = Some vs -> vs <> [] ->
        exists x, stored d k (Z.of_nat (List.length vs)) = Some x
                  /\ snd (step d (GetItem k)) = RPair x (Z.of_nat (List.length vs))).
Proof. exact Lemmas.versions_consecutive_write_once. Qed.
Print Assumptions versions_consecutive_write_once.

(* registrations interleaved with saves: at every moment a save uses the most specific registered class of the MRO and
   the newest version registered for it so far *)
Theorem save_uses_newest_at_every_moment : forall (ops : list op) (mro : list Z) t x v,
  let d := final ops in
  save_lookup d mro = Some (t, RPair x v) ->
  exists pre post vs, mro = pre ++ t :: post /\ (forall t', In t' pre -> lookup t' d = None)
    /\ lookup t d = Some vs /\ v = Z.of_nat (List.length vs) /\ stored d t v = Some x
    /\ (forall v' x', stored d t v' = Some x' -> v' <= v).
Proof. exact Lemmas.save_uses_newest_at_every_moment. Qed.
Print Assumptions save_uses_newest_at_every_moment.

Theorem registry_consecutive :
  (forall r, In r savers -> s_versions r = zseq 1 (List.length (s_versions r)) /\ s_versions r <> [])
  /\ (forall r, In r loaders -> l_versions r = zseq 1 (List.length (l_versions r)) /\ l_versions r <> []).
Proof. exact Lemmas.registry_consecutive. Qed.
Print Assumptions registry_consecutive.

Theorem save_uses_newest : forall c t v, In c classes -> saver_of c = Some (Reg t v) ->
  exists vs, saver_versions t = Some vs /\ In v vs /\ (forall v', In v' vs -> v' <= v).
Proof. exact Lemmas.save_uses_newest. Qed.
Print Assumptions save_uses_newest.

Theorem every_saver_has_loader : forall r v, In r savers -> In v (s_versions r) ->
  In (s_cls r) write_only \/
  exists c, find_cls (s_cls r) = Some c /\ loader_of c v = Some (Reg (s_cls r) v).
Proof. exact Lemmas.every_saver_has_loader. Qed.
Print Assumptions every_saver_has_loader.

Theorem every_loader_has_saver : forall r v, In r loaders -> In v (l_versions r) ->
  exists vs, saver_versions (l_cls r) = Some vs /\ In v vs.
Proof. exact Lemmas.every_loader_has_saver. Qed.
Print Assumptions every_loader_has_saver.

Theorem patches_terminate : forall nm, exists t, resolve nm = Some t /\ patch_lookup t = None.
Proof. exact Lemmas.patches_terminate. Qed.
Print Assumptions patches_terminate.

(* Full statement, false of the current rename table:  forall p, In p patches -> writes p = false. *)
Theorem patches_no_live_capture_refuted : exists p, In p patches /\ writes p = true.
Proof. exact Lemmas.patches_no_live_capture_refuted. Qed.
Print Assumptions patches_no_live_capture_refuted.

Theorem patches_no_live_capture_partial : forall p, In p patches ->
  ~ In (name_of (p_from p))
       ["glue.viewers.histogram.layer_artist.HistogramLayerArtist"%string;
        "glue.viewers.profile.layer_artist.ProfileLayerArtist"%string] ->
  writes p = false.
Proof. exact Lemmas.patches_no_live_capture_partial. Qed.
Print Assumptions patches_no_live_capture_partial.

Theorem patch_targets_in_package_resolve : forall p, In p patches ->
  exists t row, resolve (p_from p) = Some t /\ In row targets /\ t_name row = t /\
                (t_in_glue row = true -> t_importable row = true).
Proof. exact Lemmas.patch_targets_in_package_resolve. Qed.
Print Assumptions patch_targets_in_package_resolve.

(* ---- tie of the VersionedDict model to the source by translation: vd_setitem_guard is the guard sequence of
   VersionedDict.__setitem__ REGENERATED from glue/core/state.py on every run (tools/gen/gen_versioned.py) ---- *)

(* the model accepts / rejects an assignment exactly as the translated guards do *)
Theorem setitem_follows_generated_guard : forall (d : vd) (k ver val : Z),
  snd (step d (SetItem k (Some ver) val)) =
  res_of_code (vd_setitem_guard (fun v => has v (versions_seen d k)) ver).
Proof. exact GenLink.setitem_follows_generated_guard. Qed.
Print Assumptions setitem_follows_generated_guard.

Theorem setitem_state_follows_generated_guard : forall (d : vd) (k ver val : Z),
  (vd_setitem_guard (fun v => has v (versions_seen d k)) ver = 0%Z ->
     fst (step d (SetItem k (Some ver) val)) = update k (versions_seen d k ++ [(ver, val)]) (touch k d)) /\
  (vd_setitem_guard (fun v => has v (versions_seen d k)) ver <> 0%Z ->
     fst (step d (SetItem k (Some ver) val)) = d \/ fst (step d (SetItem k (Some ver) val)) = touch k d).
Proof. exact GenLink.setitem_state_follows_generated_guard. Qed.
Print Assumptions setitem_state_follows_generated_guard.

(* what the translated guards say: accepted iff version >= 1, the previous version is stored (or version = 1)
   and the version itself is not: "consecutive from 1, never overwritten" *)
Theorem generated_guard_spec : forall (has : Z -> bool) (ver : Z),
  vd_setitem_guard has ver = 0%Z <-> (1 <= ver)%Z /\ (ver = 1%Z \/ has (ver - 1)%Z = true) /\ has ver = false.
Proof. exact GenLink.generated_guard_spec. Qed.
Print Assumptions generated_guard_spec.
