(* C12 — proofs.
   Part 1: VersionedDict invariant (all operation sequences, by induction).
   Part 2: theorems over the regenerated finite tables (boolean checkers evaluated by vm_compute, lifted with forallb_forall). *)
From Coq Require Import ZArith List Bool Lia String.
Import ListNotations.
From GV Require Import Common.Wire gen.Gen_tables C12.Model.
Open Scope Z_scope.

(* ================================================================= generic list facts *)

Lemma zseq_length : forall n a, List.length (zseq a n) = n.
Proof. induction n as [|n IH]; intros a; simpl; [reflexivity | now rewrite IH]. Qed.

Lemma zseq_In : forall n a x, In x (zseq a n) <-> a <= x < a + Z.of_nat n.
Proof.
  induction n as [|n IH]; intros a x; simpl.
  - lia.
  - rewrite IH. lia.
Qed.

Lemma zseq_snoc : forall n a, zseq a (S n) = zseq a n ++ [a + Z.of_nat n].
Proof.
  induction n as [|n IH]; intros a.
  - simpl. now rewrite Z.add_0_r.
  - change (zseq a (S (S n))) with (a :: zseq (a + 1) (S n)). rewrite IH. simpl.
    f_equal. f_equal. f_equal. lia.
Qed.

Lemma fold_max_zseq : forall n a b, fold_left Z.max (zseq a (S n)) b = Z.max b (a + Z.of_nat n).
Proof.
  induction n as [|n IH]; intros a b.
  - simpl. now rewrite Z.add_0_r.
  - change (zseq a (S (S n))) with (a :: zseq (a + 1) (S n)).
    change (fold_left Z.max (a :: zseq (a + 1) (S n)) b) with (fold_left Z.max (zseq (a + 1) (S n)) (Z.max b a)).
    rewrite IH. lia.
Qed.

Lemma zmax_zseq : forall n, zmax_list (zseq 1 (S n)) = 1 + Z.of_nat n.
Proof.
  intros n. unfold zmax_list. rewrite fold_max_zseq. simpl hd. lia.
Qed.

(* ================================================================= 1. VersionedDict *)

Definition wfv (vs : versions) : Prop := map fst vs = zseq 1 (List.length vs).
Definition wf (d : vd) : Prop := forall k vs, lookup k d = Some vs -> wfv vs.

Lemma lookup_app_none : forall d k e, lookup k d = None -> lookup k (d ++ e) = lookup k e.
Proof.
  induction d as [|[k' vs'] d IH]; intros k e H; simpl in *; [reflexivity|].
  destruct (k' =? k) eqn:E; [discriminate | now apply IH].
Qed.

Lemma lookup_app_some : forall d k e vs, lookup k d = Some vs -> lookup k (d ++ e) = Some vs.
Proof.
  induction d as [|[k' vs'] d IH]; intros k e vs H; simpl in *; [discriminate|].
  destruct (k' =? k) eqn:E; [assumption | now apply IH].
Qed.

Lemma lookup_touch : forall d k' k,
  lookup k (touch k' d) = match lookup k d with
                          | Some vs => Some vs
                          | None => if k' =? k then Some [] else None
                          end.
Proof.
  intros d k' k. unfold touch.
  destruct (lookup k' d) eqn:E'.
  - destruct (lookup k d) eqn:E; [reflexivity|].
    destruct (k' =? k) eqn:EK; [|reflexivity].
    apply Z.eqb_eq in EK. subst. congruence.
  - destruct (lookup k d) eqn:E.
    + now apply lookup_app_some.
    + rewrite lookup_app_none by assumption. simpl. destruct (k' =? k); reflexivity.
Qed.

Lemma lookup_touch_self : forall d k, exists vs, lookup k (touch k d) = Some vs /\
  (lookup k d = Some vs \/ (lookup k d = None /\ vs = [])).
Proof.
  intros d k. rewrite lookup_touch. destruct (lookup k d) eqn:E.
  - eexists; split; [reflexivity | now left].
  - rewrite Z.eqb_refl. eexists; split; [reflexivity | now right].
Qed.

Lemma lookup_update : forall d k' vs' k,
  lookup k (update k' vs' d) =
  match lookup k' d with
  | None => lookup k d
  | Some _ => if k' =? k then Some vs' else lookup k d
  end.
Proof.
  induction d as [|[k0 vs0] d IH]; intros k' vs' k; simpl; [reflexivity|].
  destruct (k0 =? k') eqn:E0.
  - apply Z.eqb_eq in E0. subst k0. simpl.
    destruct (k' =? k) eqn:EK; reflexivity.
  - simpl. rewrite IH.
    destruct (k0 =? k) eqn:EK.
    + destruct (lookup k' d); [|reflexivity].
      destruct (k' =? k) eqn:EK'; [|reflexivity].
      apply Z.eqb_eq in EK. apply Z.eqb_eq in EK'. subst. rewrite Z.eqb_refl in E0. discriminate.
    + reflexivity.
Qed.

Lemma vget_In : forall vs v x, vget v vs = Some x -> In v (map fst vs).
Proof.
  induction vs as [|[v' x'] vs IH]; intros v x H; simpl in *; [discriminate|].
  destruct (v' =? v) eqn:E.
  - left. now apply Z.eqb_eq.
  - right. eapply IH; eassumption.
Qed.

Lemma In_vget : forall vs v, In v (map fst vs) -> exists x, vget v vs = Some x.
Proof.
  induction vs as [|[v' x'] vs IH]; intros v H; simpl in *; [contradiction|].
  destruct (v' =? v) eqn:E.
  - eexists; reflexivity.
  - destruct H as [H|H]; [subst; rewrite Z.eqb_refl in E; discriminate|]. now apply IH.
Qed.

Lemma has_iff : forall vs v, wfv vs -> (has v vs = true <-> 1 <= v <= Z.of_nat (List.length vs)).
Proof.
  intros vs v W. unfold has. split.
  - destruct (vget v vs) eqn:E; [|discriminate]. intros _.
    apply vget_In in E. rewrite W in E. apply zseq_In in E. lia.
  - intros H. assert (I : In v (map fst vs)) by (rewrite W; apply zseq_In; lia).
    apply In_vget in I. destruct I as [x Hx]. now rewrite Hx.
Qed.

Lemma vget_app : forall vs v x e, vget v vs = Some x -> vget v (vs ++ e) = Some x.
Proof.
  induction vs as [|[v' x'] vs IH]; intros v x e H; simpl in *; [discriminate|].
  destruct (v' =? v); [assumption | now apply IH].
Qed.

Lemma wfv_snoc : forall vs ver val, wfv vs -> ver = Z.of_nat (List.length vs) + 1 -> wfv (vs ++ [(ver, val)]).
Proof.
  intros vs ver val W E. unfold wfv in *.
  rewrite map_app, app_length, W. simpl.
  replace (List.length vs + 1)%nat with (S (List.length vs)) by lia.
  rewrite zseq_snoc. f_equal. f_equal. lia.
Qed.

Lemma wf_touch : forall d k, wf d -> wf (touch k d).
Proof.
  intros d k W k0 vs H. rewrite lookup_touch in H.
  destruct (lookup k0 d) eqn:E.
  - inversion H; subst. eapply W; eassumption.
  - destruct (k =? k0); [|discriminate]. inversion H. reflexivity.
Qed.

(* a successful assignment stores exactly the next version *)
Lemma next_version : forall vs ver, wfv vs -> (ver <? 1) = false ->
  ((ver >? 1) && negb (has (ver - 1) vs)) = false -> has ver vs = false ->
  ver = Z.of_nat (List.length vs) + 1.
Proof.
  intros vs ver W H1 H2 H3.
  apply Z.ltb_ge in H1.
  assert (N : ~ (1 <= ver <= Z.of_nat (List.length vs))).
  { intros C. apply (has_iff vs ver W) in C. congruence. }
  apply andb_false_iff in H2. destruct H2 as [H2|H2].
  - assert (ver <= 1) by (destruct (ver >? 1) eqn:G; [discriminate | lia]). lia.
  - apply negb_false_iff in H2. apply (has_iff vs (ver - 1) W) in H2. lia.
Qed.

Lemma step_wf : forall d o, wf d -> wf (fst (step d o)).
Proof.
  intros d o W. destruct o as [k [ver|] val | | k | k | k v | k | ]; simpl; try assumption.
  - destruct (ver <? 1) eqn:H1; [assumption|].
    destruct (lookup_touch_self d k) as [vs [Ht Hd]]. rewrite Ht.
    assert (Wt : wf (touch k d)) by now apply wf_touch.
    assert (Wv : wfv vs) by (eapply Wt; eassumption).
    destruct ((ver >? 1) && negb (has (ver - 1) vs)) eqn:H2; [assumption|].
    destruct (has ver vs) eqn:H3; [assumption|].
    simpl. intros k0 vs0 H. rewrite lookup_update, Ht in H.
    destruct (k =? k0) eqn:EK.
    + inversion H; subst. apply wfv_snoc; [assumption|]. now apply next_version.
    + eapply Wt; eassumption.
  - destruct (lookup k d); assumption.
  - destruct (lookup k d); assumption.
  - now apply wf_touch.
Qed.

Lemma stored_touch : forall d k' k v x, stored d k v = Some x -> stored (touch k' d) k v = Some x.
Proof.
  intros d k' k v x H. unfold stored in *. rewrite lookup_touch.
  destruct (lookup k d); [assumption | discriminate].
Qed.

Lemma step_keeps : forall d o k v x, stored d k v = Some x -> stored (fst (step d o)) k v = Some x.
Proof.
  intros d o k v x H. destruct o as [k' [ver|] val | | k' | k' | k' v' | k' | ]; simpl; try assumption.
  - destruct (ver <? 1); [assumption|].
    destruct (lookup_touch_self d k') as [vs [Ht Hd]]. rewrite Ht.
    destruct ((ver >? 1) && negb (has (ver - 1) vs)); [now apply stored_touch|].
    destruct (has ver vs); [now apply stored_touch|].
    simpl. apply (stored_touch d k') in H. unfold stored in *. rewrite lookup_update, Ht.
    destruct (k' =? k) eqn:EK.
    + apply Z.eqb_eq in EK. subst k'. rewrite Ht in H. now apply vget_app.
    + assumption.
  - destruct (lookup k' d); assumption.
  - destruct (lookup k' d); assumption.
  - now apply stored_touch.
Qed.

Lemma run_fst_app : forall a b d, fst (run d (a ++ b)) = fst (run (fst (run d a)) b).
Proof.
  induction a as [|o a IH]; intros b d; simpl; [reflexivity|].
  destruct (step d o) as [d1 x] eqn:E.
  specialize (IH b d1).
  destruct (run d1 (a ++ b)) as [d2 xs] eqn:E2.
  destruct (run d1 a) as [d3 ys] eqn:E3. simpl in *. assumption.
Qed.

Lemma run_wf : forall ops d, wf d -> wf (fst (run d ops)).
Proof.
  induction ops as [|o ops IH]; intros d W; simpl; [assumption|].
  destruct (step d o) as [d1 x] eqn:E.
  assert (W1 : wf d1) by (replace d1 with (fst (step d o)) by (now rewrite E); now apply step_wf).
  specialize (IH d1 W1). destruct (run d1 ops) as [d2 xs]. assumption.
Qed.

Lemma run_keeps : forall ops d k v x, stored d k v = Some x -> stored (fst (run d ops)) k v = Some x.
Proof.
  induction ops as [|o ops IH]; intros d k v x H; simpl; [assumption|].
  destruct (step d o) as [d1 y] eqn:E.
  assert (H1 : stored d1 k v = Some x) by (replace d1 with (fst (step d o)) by (now rewrite E); now apply step_keeps).
  specialize (IH d1 k v x H1). destruct (run d1 ops) as [d2 xs]. assumption.
Qed.

Lemma wf_nil : wf [].
Proof. intros k vs H. discriminate. Qed.

Lemma newest_wfv : forall vs, wfv vs -> vs <> [] ->
  exists x, vget (Z.of_nat (List.length vs)) vs = Some x /\ newest vs = RPair x (Z.of_nat (List.length vs)).
Proof.
  intros vs W NE.
  destruct (List.length vs) as [|n] eqn:L; [destruct vs; [congruence | discriminate]|].
  assert (M : zmax_list (map fst vs) = Z.of_nat (S n)).
  { rewrite W, L, zmax_zseq. lia. }
  assert (I : In (Z.of_nat (S n)) (map fst vs)).
  { rewrite W, L. apply zseq_In. lia. }
  apply In_vget in I. destruct I as [x Hx].
  exists x. split; [assumption|].
  unfold newest. destruct vs as [|p vs']; [congruence|]. rewrite M, Hx. reflexivity.
Qed.

(* Full statement: for every sequence of operations (assignments, valid or not, and reads),
   (1) the versions stored for each key are exactly 1..n, (2) a stored value is never replaced or lost,
   (3) d[k] is the value of the newest version n. *)
Theorem versions_consecutive_write_once : forall ops : list op,
  let d := final ops in
  (forall k vs, lookup k d = Some vs -> map fst vs = zseq 1 (List.length vs))
  /\ (forall pre post k v x, ops = pre ++ post -> stored (final pre) k v = Some x -> stored d k v = Some x)
  /\ (forall k vs, lookup k d = Some vs -> vs <> [] ->
        exists x, stored d k (Z.of_nat (List.length vs)) = Some x
                  /\ snd (step d (GetItem k)) = RPair x (Z.of_nat (List.length vs))).
Proof.
  intros ops d. assert (W : wf d) by (apply run_wf, wf_nil).
  split; [|split].
  - intros k vs H. exact (W k vs H).
  - intros pre post k v x E H. subst ops. unfold d, final. rewrite run_fst_app. now apply run_keeps.
  - intros k vs H NE. destruct (newest_wfv vs (W k vs H) NE) as [x [Hx Hn]].
    exists x. split.
    + unfold stored. now rewrite H.
    + simpl. rewrite H. simpl. assumption.
Qed.

(* Registrations interleaved with saves: whatever was registered so far (any history [ops] of decorator calls, valid or not),
   a save of an object whose class has the MRO [mro] uses the first class of the MRO that has an entry, with the newest
   version n stored for it at that moment and the function stored for n.  This is the reference against which the real
   _dispatch (and any memo inside it) is compared by the `registration` stream. *)
Theorem save_uses_newest_at_every_moment : forall (ops : list op) (mro : list Z) t x v,
  let d := final ops in
  save_lookup d mro = Some (t, RPair x v) ->
  exists pre post vs, mro = pre ++ t :: post /\ (forall t', In t' pre -> lookup t' d = None)
    /\ lookup t d = Some vs /\ v = Z.of_nat (List.length vs) /\ stored d t v = Some x
    /\ (forall v' x', stored d t v' = Some x' -> v' <= v).
Proof.
  intros ops mro t x v d. assert (W : wf d) by (apply run_wf, wf_nil).
  induction mro as [|t0 mro IH]; simpl; intros H; [discriminate|].
  destruct (lookup t0 d) as [vs|] eqn:E.
  - inversion H as [[Ht Hn]]. subst t0.
    assert (NE : vs <> []) by (intros C; subst vs; simpl in Hn; discriminate).
    destruct (newest_wfv vs (W t vs E) NE) as [x0 [Hx Hn']]. rewrite Hn' in Hn. inversion Hn; subst x0 v.
    exists [], mro, vs. split; [reflexivity|]. split; [intros t' []|]. split; [assumption|]. split; [reflexivity|].
    split; [unfold stored; now rewrite E|].
    intros v' x' S. unfold stored in S. rewrite E in S. apply vget_In in S. rewrite (W t vs E) in S.
    apply zseq_In in S. lia.
  - destruct (IH H) as [pre [post [vs [M [P R]]]]].
    exists (t0 :: pre), post, vs. split; [simpl; now rewrite M|]. split; [|assumption].
    intros t' [Ht'|Ht']; [now subst | now apply P].
Qed.

(* ================================================================= 2. table theorems *)

Fixpoint zlist_eqb (a b : list Z) : bool :=
  match a, b with
  | [], [] => true
  | x :: a', y :: b' => (x =? y) && zlist_eqb a' b'
  | _, _ => false
  end.

Lemma zlist_eqb_eq : forall a b, zlist_eqb a b = true -> a = b.
Proof.
  induction a as [|x a IH]; intros [|y b] H; simpl in *; try discriminate; [reflexivity|].
  apply andb_true_iff in H. destruct H as [H1 H2]. apply Z.eqb_eq in H1. f_equal; [assumption | now apply IH].
Qed.

Definition is_nil {A} (l : list A) : bool := match l with [] => true | _ => false end.

Lemma zmem_In : forall x l, zmem x l = true -> In x l.
Proof.
  intros x l H. unfold zmem in H. apply existsb_exists in H. destruct H as [y [Hy E]].
  apply Z.eqb_eq in E. now subst.
Qed.

Definition consecutive (l : list Z) : bool := zlist_eqb l (zseq 1 (List.length l)) && negb (is_nil l).

Lemma consecutive_spec : forall l, consecutive l = true -> l = zseq 1 (List.length l) /\ l <> [].
Proof.
  intros l H. apply andb_true_iff in H. destruct H as [H1 H2]. split; [now apply zlist_eqb_eq|].
  destruct l; [discriminate | congruence].
Qed.

Definition chk_registry : bool :=
  forallb (fun r => consecutive (s_versions r)) savers && forallb (fun r => consecutive (l_versions r)) loaders.

Lemma chk_registry_ok : chk_registry = true.
Proof. vm_compute. reflexivity. Qed.

(* every registered type has versions exactly 1..n (n >= 1), in registration order, in both registries *)
Theorem registry_consecutive :
  (forall r, In r savers -> s_versions r = zseq 1 (List.length (s_versions r)) /\ s_versions r <> [])
  /\ (forall r, In r loaders -> l_versions r = zseq 1 (List.length (l_versions r)) /\ l_versions r <> []).
Proof.
  pose proof chk_registry_ok as H. unfold chk_registry in H. apply andb_true_iff in H. destruct H as [H1 H2].
  split; intros r Hr.
  - apply consecutive_spec. exact (proj1 (forallb_forall _ _) H1 r Hr).
  - apply consecutive_spec. exact (proj1 (forallb_forall _ _) H2 r Hr).
Qed.

Definition chk_newest (c : cls_row) : bool :=
  match saver_of c with
  | Some (Reg t v) => match saver_versions t with
                      | Some vs => zmem v vs && forallb (fun v' => v' <=? v) vs
                      | None => false
                      end
  | _ => true
  end.

Lemma chk_newest_ok : forallb chk_newest classes = true.
Proof. vm_compute. reflexivity. Qed.

(* a save through the registry always uses the newest version registered for the type that is found *)
Theorem save_uses_newest : forall c t v, In c classes -> saver_of c = Some (Reg t v) ->
  exists vs, saver_versions t = Some vs /\ In v vs /\ (forall v', In v' vs -> v' <= v).
Proof.
  intros c t v Hc Hs.
  pose proof (proj1 (forallb_forall _ _) chk_newest_ok c Hc) as H. unfold chk_newest in H. rewrite Hs in H.
  destruct (saver_versions t) as [vs|]; [|discriminate].
  apply andb_true_iff in H. destruct H as [H1 H2].
  exists vs. split; [reflexivity|]. split; [now apply zmem_In|].
  intros v' Hv'. apply Z.leb_le. exact (proj1 (forallb_forall _ _) H2 v' Hv').
Qed.

Definition how_eqb (a b : option how) : bool :=
  match a, b with
  | None, None => true
  | Some (Meth p), Some (Meth q) => p =? q
  | Some (Reg t v), Some (Reg t' v') => (t =? t') && (v =? v')
  | _, _ => false
  end.

Lemma how_eqb_eq : forall a b, how_eqb a b = true -> a = b.
Proof.
  intros [[p|t v]|] [[q|t' v']|] H; simpl in H; try discriminate; try reflexivity.
  - apply Z.eqb_eq in H. now subst.
  - apply andb_true_iff in H. destruct H as [H1 H2]. apply Z.eqb_eq in H1. apply Z.eqb_eq in H2. now subst.
Qed.

Definition chk_saver_loader (r : saver_row) : bool :=
  forallb (fun v => zmem (s_cls r) write_only ||
                    match find_cls (s_cls r) with
                    | Some c => how_eqb (loader_of c v) (Some (Reg (s_cls r) v))
                    | None => false
                    end) (s_versions r).

Lemma chk_saver_loader_ok : forallb chk_saver_loader savers = true.
Proof. vm_compute. reflexivity. Qed.

(* for every (T, v) with a registered saver, a record {_type: T, _protocol: v} is loaded by the loader registered
   for T itself at version v (types written but deliberately never read back are listed in write_only) *)
Theorem every_saver_has_loader : forall r v, In r savers -> In v (s_versions r) ->
  In (s_cls r) write_only \/
  exists c, find_cls (s_cls r) = Some c /\ loader_of c v = Some (Reg (s_cls r) v).
Proof.
  intros r v Hr Hv.
  pose proof (proj1 (forallb_forall _ _) chk_saver_loader_ok r Hr) as H. unfold chk_saver_loader in H.
  pose proof (proj1 (forallb_forall _ _) H v Hv) as H'. simpl in H'.
  apply orb_true_iff in H'. destruct H' as [H'|H'].
  - left. now apply zmem_In.
  - right. destruct (find_cls (s_cls r)) as [c|]; [|discriminate].
    exists c. split; [reflexivity | now apply how_eqb_eq].
Qed.

Definition chk_loader_saver (r : loader_row) : bool :=
  forallb (fun v => match saver_versions (l_cls r) with Some vs => zmem v vs | None => false end) (l_versions r).

Lemma chk_loader_saver_ok : forallb chk_loader_saver loaders = true.
Proof. vm_compute. reflexivity. Qed.

(* conversely, no loader version is registered without the saver of the same type and version *)
Theorem every_loader_has_saver : forall r v, In r loaders -> In v (l_versions r) ->
  exists vs, saver_versions (l_cls r) = Some vs /\ In v vs.
Proof.
  intros r v Hr Hv.
  pose proof (proj1 (forallb_forall _ _) chk_loader_saver_ok r Hr) as H. unfold chk_loader_saver in H.
  pose proof (proj1 (forallb_forall _ _) H v Hv) as H'. simpl in H'.
  destruct (saver_versions (l_cls r)) as [vs|]; [|discriminate].
  exists vs. split; [reflexivity | now apply zmem_In].
Qed.

(* ---------- renamed classes ---------- *)

Lemma resolve_in_nonkey : forall ps fuel nm t, resolve_in ps fuel nm = Some t -> patch_lookup_in ps t = None.
Proof.
  intros ps. induction fuel as [|f IH]; intros nm t H; simpl in H.
  - destruct (patch_lookup_in ps nm) eqn:E; [discriminate|]. inversion H; subst. assumption.
  - destruct (patch_lookup_in ps nm) eqn:E.
    + eapply IH; eassumption.
    + inversion H; subst. assumption.
Qed.

Definition chk_terminates (p : patch_row) : bool := is_some (resolve (p_from p)).

Lemma chk_terminates_ok : forallb chk_terminates patches = true.
Proof. vm_compute. reflexivity. Qed.

(* the redirection loop terminates for EVERY name (within |table| steps) and stops at a name that is not a key *)
Theorem patches_terminate : forall nm, exists t, resolve nm = Some t /\ patch_lookup t = None.
Proof.
  intros nm.
  assert (S : exists t, resolve nm = Some t).
  { unfold resolve. destruct (patch_lookup_in patches nm) as [t0|] eqn:E.
    - unfold patch_lookup_in in E.
      destruct (find (fun p => p_from p =? nm) patches) as [p|] eqn:F; [|discriminate].
      apply find_some in F. destruct F as [Hp Hn]. apply Z.eqb_eq in Hn.
      pose proof (proj1 (forallb_forall _ _) chk_terminates_ok p Hp) as H. unfold chk_terminates in H.
      rewrite Hn in H. unfold resolve in H.
      destruct (resolve_in patches (List.length patches) nm) as [t|]; [|discriminate]. now exists t.
    - exists nm. destruct (List.length patches); simpl; now rewrite E. }
  destruct S as [t Ht]. exists t. split; [assumption|].
  unfold patch_lookup. eapply resolve_in_nonkey. exact Ht.
Qed.

(* Full statement (FALSE of the current table, see _refuted):
     forall p, In p patches -> writes p = false
   i.e. no key of the rename table is the name of a concrete class that this package defines, uses and writes. *)
Definition known_captures : list string :=
  ["glue.viewers.histogram.layer_artist.HistogramLayerArtist"%string;
   "glue.viewers.profile.layer_artist.ProfileLayerArtist"%string].

Definition is_known (p : patch_row) : bool := existsb (String.eqb (name_of (p_from p))) known_captures.

Theorem patches_no_live_capture_refuted : exists p, In p patches /\ writes p = true.
Proof.
  destruct (find writes patches) as [p|] eqn:F.
  - apply find_some in F. exists p. exact F.
  - exfalso. revert F. vm_compute. discriminate.
Qed.

Lemma chk_capture_ok : forallb (fun p => is_known p || negb (writes p)) patches = true.
Proof. vm_compute. reflexivity. Qed.

Theorem patches_no_live_capture_partial : forall p, In p patches ->
  ~ In (name_of (p_from p)) known_captures -> writes p = false.
Proof.
  intros p Hp NK.
  pose proof (proj1 (forallb_forall _ _) chk_capture_ok p Hp) as H. simpl in H.
  apply orb_true_iff in H. destruct H as [H|H].
  - exfalso. apply NK. unfold is_known in H. apply existsb_exists in H.
    destruct H as [s [Hs E]]. apply String.eqb_eq in E. now rewrite E.
  - now apply negb_true_iff.
Qed.

Definition chk_target (p : patch_row) : bool :=
  match resolve (p_from p) with Some t => target_ok t | None => false end.

Lemma chk_target_ok : forallb chk_target patches = true.
Proof. vm_compute. reflexivity. Qed.

(* every redirection that ends inside this package (name starting with "glue.") ends at an importable object;
   targets in another package (names starting with glue_qt.) are exempt *)
Theorem patch_targets_in_package_resolve : forall p, In p patches ->
  exists t row, resolve (p_from p) = Some t /\ In row targets /\ t_name row = t /\
                (t_in_glue row = true -> t_importable row = true).
Proof.
  intros p Hp.
  pose proof (proj1 (forallb_forall _ _) chk_target_ok p Hp) as H. unfold chk_target in H.
  destruct (resolve (p_from p)) as [t|]; [|discriminate].
  unfold target_ok in H.
  destruct (find (fun r => t_name r =? t) targets) as [row|] eqn:F; [|discriminate].
  apply find_some in F. destruct F as [Hr Hn]. apply Z.eqb_eq in Hn.
  exists t, row. repeat split; try assumption.
  intros G. rewrite G in H. simpl in H. assumption.
Qed.
