(* C12 — non-vacuity examples and sanity evaluations. *)
From Coq Require Import ZArith List Bool String Lia.
Import ListNotations.
From GV Require Import Common.Wire gen.Gen_tables C12.Model C12.Lemmas.
Open Scope Z_scope.

(* a history with valid, skipping, overwriting, non-integer and non-positive assignments: three versions get stored for key 7 *)
Definition hist : list op :=
  [SetItem 7 (Some 1) 10; SetItem 7 (Some 3) 11; SetItem 7 (Some 2) 12; SetItem 7 (Some 2) 13; SetItem 8 None 14;
   SetItem 7 (Some 0) 15; SetItem 7 (Some 3) 16; GetVersion 9 1; GetItem 7].
Example hist_state : final hist = [(7, [(1, 10); (2, 12); (3, 16)]); (9, [])].
Proof. vm_compute. reflexivity. Qed.
Example hist_results : snd (run [] hist) =
  [RNone; RKeyError; RNone; RKeyError; RValueError; RValueError; RNone; RKeyError; RPair 16 3].
Proof. vm_compute. reflexivity. Qed.
(* the third clause of versions_consecutive_write_once is not vacuous: key 7 has a non-empty version list *)
Example hist_nonempty : exists vs, lookup 7 (final hist) = Some vs /\ vs <> [].
Proof. eexists. split; [vm_compute; reflexivity | discriminate]. Qed.
(* a key touched by a failed lookup holds no version: d[k] then raises ValueError (max of an empty sequence), as the code does *)
Example touched_key : snd (step (final hist) (GetItem 9)) = RValueError.
Proof. vm_compute. reflexivity. Qed.

(* the registries are not trivial: some type has five saver versions, some has four *)
Example five_versions : exists r, In r savers /\ s_versions r = [1; 2; 3; 4; 5].
Proof.
  destruct (find (fun r => Z.of_nat (List.length (s_versions r)) =? 5) savers) as [r|] eqn:F.
  - apply find_some in F. exists r. split; [exact (proj1 F)|].
    destruct (proj1 Lemmas.registry_consecutive r (proj1 F)) as [E _]. rewrite E.
    destruct F as [_ F]. apply Z.eqb_eq in F. replace (List.length (s_versions r)) with 5%nat by lia. reflexivity.
  - exfalso. revert F. vm_compute. discriminate.
Qed.

(* save_uses_newest has instances through the registry (its hypothesis is satisfiable) *)
Example some_registry_saver : exists c t v, In c classes /\ saver_of c = Some (Reg t v) /\ 1 < v.
Proof.
  destruct (find (fun c => match saver_of c with Some (Reg _ v) => 1 <? v | _ => false end) classes) as [c|] eqn:F.
  - apply find_some in F. destruct F as [Hc Hv].
    destruct (saver_of c) as [[p|t v]|] eqn:E; try discriminate.
    exists c, t, v. repeat split; try assumption. now apply Z.ltb_lt.
  - exfalso. revert F. vm_compute. discriminate.
Qed.

(* the rename table has chains of length > 1 (so termination is not one-step), and the two known captures are keys *)
Example chain : exists p t, In p patches /\ patch_lookup (p_to p) = Some t.
Proof.
  destruct (find (fun p => is_some (patch_lookup (p_to p))) patches) as [p|] eqn:F.
  - apply find_some in F. destruct F as [Hp Ht]. destruct (patch_lookup (p_to p)) as [t|] eqn:E; [|discriminate].
    exists p, t. split; assumption.
  - exfalso. revert F. vm_compute. discriminate.
Qed.
Example known_are_keys : forallb (fun s => existsb (fun p => String.eqb (name_of (p_from p)) s) patches) known_captures = true.
Proof. vm_compute. reflexivity. Qed.
Example partial_not_vacuous : exists p, In p patches /\ ~ In (name_of (p_from p)) known_captures.
Proof.
  destruct (find (fun p => negb (is_known p)) patches) as [p|] eqn:F.
  - apply find_some in F. destruct F as [Hp Hk]. exists p. split; [assumption|].
    intros I. apply negb_true_iff in Hk. unfold is_known in Hk.
    assert (existsb (String.eqb (name_of (p_from p))) known_captures = true).
    { apply existsb_exists. exists (name_of (p_from p)). split; [assumption | apply String.eqb_refl]. }
    congruence.
  - exfalso. revert F. vm_compute. discriminate.
Qed.

Eval vm_compute in (map (fun p => name_of (p_from p)) (filter writes patches)).
Eval vm_compute in (List.length classes, List.length patches, List.length savers, List.length loaders).

(* registrations interleaved with saves: class 2 has MRO [2; 1].  Saved before it has a saver of its own it uses class 1's
   newest; after (2, v1) is registered it uses its own; class 1 moves to v2 as soon as v2 is registered *)
Example interleaved :
  run_reg_ops [(1, [1]); (2, [2; 1])] [] []
    [RegSaver 1 (Some 1) 10; DoSave 2; DoSave 1; RegSaver 1 (Some 2) 11; DoSave 1; DoSave 2; RegSaver 2 (Some 1) 12; DoSave 2;
     RegSaver 3 (Some 2) 13; DoSave 3]
  = [RReg RNone; RUsed 2 1 10; RUsed 1 1 10; RReg RNone; RUsed 1 2 11; RUsed 2 2 11; RReg RNone; RUsed 2 1 12;
     RReg RKeyError; RRaises 1].      (* RUsed (_type stamped = the object's class) (version) (function) *)
Proof. vm_compute. reflexivity. Qed.

(* ================================================================= round 5: the translated functions (gen/Gen_dispatch.v) *)
From GV Require Import gen.Gen_dispatch C12.GenEquiv C12.GenTheorems.

(* the same history through the translated decorators / GlueSerializer.do / GlueUnSerializer._dispatch; a load of class 2 at
   version 1 walks [2; 1] and creates the empty entries of the loader registry on its way *)
Example interleaved_translated :
  grun_reg_ops (reg_ops [(1, [1]); (2, [2; 1])]) [] []
    [RegSaver 1 (Some 1) 10; DoSave 2; DoSave 1; RegSaver 1 (Some 2) 11; DoSave 1; DoSave 2; RegSaver 2 (Some 1) 12; DoSave 2;
     RegSaver 3 (Some 2) 13; DoSave 3; RegLoader 1 (Some 1) 20; DoLoad 2 1; DoLoad 2 2; RegLoader 1 None 21]
  = [RReg RNone; RUsed 2 1 10; RUsed 1 1 10; RReg RNone; RUsed 1 2 11; RUsed 2 2 11; RReg RNone; RUsed 2 1 12;
     RReg RKeyError; RRaises 1; RReg RNone; RUsed 2 1 20; RRaises 5; RReg RValueError].
Proof. vm_compute. reflexivity. Qed.

(* hypotheses of grun_reg_ops_eq / gen_versions_consecutive_write_once are met by the wire instance *)
Example wire_ops_int : forall ver, py_int (reg_ops []) (raw_of ver) = ver.
Proof. exact wire_int_raw_of. Qed.

(* all kinds of rejected assignments through the translated __setitem__: bad key, non-integer, 0, skipped, overwritten *)
Example translated_rejections :
  snd (grun (reg_ops []) vd_init
         [SetBadKey; SetItem 7 None 1; SetItem 7 (Some 0) 2; SetItem 7 (Some 2) 3; SetItem 7 (Some 1) 4; SetItem 7 (Some 1) 5;
          SetItem 7 (Some 2) 6; GetItem 7; GetVersion 8 1; Contains 8; GetItem 8; Len])
  = [RValueError; RValueError; RValueError; RKeyError; RNone; RKeyError; RNone; RPair 6 2; RKeyError; RBool true; RValueError; RVal 2].
Proof. vm_compute. reflexivity. Qed.

(* the translated __delitem__ *)
Example translated_delitem : vd_delitem (reg_ops []) 7 [(7, [(1, 4)])] = ([(7, [(1, 4)])], Raise ValueError).
Proof. reflexivity. Qed.

(* the rename loop needs fuel: a chain of length 2 exists in the table, and a cyclic table is reported as OutOfFuel, not as an answer *)
Example translated_loop_chain : exists p, In p patches /\ gen_resolve_in patches 0 (p_from p) = OutOfFuel.
Proof.
  destruct (find (fun p => match gen_resolve_in patches 0 (p_from p) with OutOfFuel => true | _ => false end) patches) as [p|] eqn:F.
  - apply find_some in F. exists p. split; [tauto|]. destruct F as [_ F]. destruct (gen_resolve_in patches 0 (p_from p)); congruence.
  - exfalso. revert F. vm_compute. discriminate.
Qed.
Example translated_loop_cycle :
  gen_resolve_in [mkPatch 1 2 false false; mkPatch 2 1 false false] 2 1 = OutOfFuel.
Proof. vm_compute. reflexivity. Qed.

(* the pipeline theorem is not vacuous: Data has five versions, the record of version 3 carries _protocol 3 and goes to loader (Data, 3);
   version 1 carries no _protocol *)
Example roundtrip_data :
  let t := name_id "glue.core.data.Data" in
  (exists r, In r savers /\ s_cls r = t /\ s_versions r = [1; 2; 3; 4; 5])
  /\ gen_written t 3 = Ret (PRec [("fn"%string, fid t 3); ("_type"%string, t); ("_protocol"%string, 3)])
  /\ gen_roundtrip t 3 = Ret (fid t 3)
  /\ gen_written t 1 = Ret (PRec [("fn"%string, fid t 1); ("_type"%string, t)]).
Proof.
  cbv zeta. split; [|vm_compute; repeat split; reflexivity].
  destruct (find (fun r => s_cls r =? name_id "glue.core.data.Data") savers) as [r|] eqn:F.
  - apply find_some in F. exists r. destruct F as [Hin E]. apply Z.eqb_eq in E. split; [exact Hin|]. split; [exact E|].
    revert Hin E. vm_compute. intros Hin E.
    repeat (destruct Hin as [Hin|Hin]; [subst r; try (vm_compute in E; discriminate E); try reflexivity|]). contradiction.
  - exfalso. revert F. vm_compute. discriminate.
Qed.

(* a class with __gluestate__ / __setgluestate__ (method dispatch) and a subclass that inherits a registered saver both occur *)
Example dispatch_kinds :
  (exists c p, In c classes /\ gen_saver_of c = Ret (meth_id p, 1))
  /\ (exists c t v, In c classes /\ gen_saver_of c = Ret (fid t v, v) /\ t <> c_id c).
Proof.
  split.
  - destruct (find (fun c => match c_gs c with Some _ => true | None => false end) classes) as [c|] eqn:F.
    + apply find_some in F. destruct F as [Hc G]. destruct (c_gs c) as [p|] eqn:E; [|discriminate].
      exists c, p. split; [exact Hc|]. rewrite (gen_saver_of_eq c Hc). unfold saver_of, saver_of_in. now rewrite E.
    + exfalso. revert F. vm_compute. discriminate.
  - destruct (find (fun c => match saver_of c with Some (Reg t _) => negb (t =? c_id c) | _ => false end) classes) as [c|] eqn:F.
    + apply find_some in F. destruct F as [Hc G]. destruct (saver_of c) as [[p|t v]|] eqn:E; try discriminate.
      exists c, t, v. split; [exact Hc|]. rewrite (gen_saver_of_eq c Hc), E. split; [reflexivity|].
      apply negb_true_iff in G. now apply Z.eqb_neq.
    + exfalso. revert F. vm_compute. discriminate.
Qed.

(* the decorator table is not empty and contains the five Data savers *)
Example registrations_data :
  List.length (filter (fun x => match x with (false, c, _, _) => c =? name_id "glue.core.data.Data" | _ => false end) registrations) = 5%nat.
Proof. vm_compute. reflexivity. Qed.
