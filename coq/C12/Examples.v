(* C12 — non-vacuity examples and sanity evaluations. *)
From Coq Require Import ZArith List Bool String Lia.
Import ListNotations.
From GV Require Import Common.Wire gen.Gen_tables C12.Model C12.Lemmas.
Open Scope Z_scope.

(* a history with valid, skipping, overwriting, non-integer and non-positive assignments: three versions get stored for key 7 *)
Definition hist : list op :=
  [SetItem 7 (Some 1) 10; SetItem 7 (Some 3) 11; SetItem 7 (Some 2) 12; SetItem 7 (Some 2) 13; SetItem 8 None 14;
   SetItem 7 (Some 0) 15; SetItem 7 (Some 3) 16; GetVersion 9 1; GetItem 7].
Example hist_state : final hist = [(7, [(1, 10); (2, 12); (3, 16)]); (9, [])].
Proof. vm_compute. reflexivity. Qed.
Example hist_results : snd (run [] hist) =
  [RNone; RKeyError; RNone; RKeyError; RValueError; RValueError; RNone; RKeyError; RPair 16 3].
Proof. vm_compute. reflexivity. Qed.
(* the third clause of versions_consecutive_write_once is not vacuous: key 7 has a non-empty version list *)
Example hist_nonempty : exists vs, lookup 7 (final hist) = Some vs /\ vs <> [].
Proof. eexists. split; [vm_compute; reflexivity | discriminate]. Qed.
(* a key touched by a failed lookup holds no version: d[k] then raises ValueError (max of an empty sequence), as the code does *)
Example touched_key : snd (step (final hist) (GetItem 9)) = RValueError.
Proof. vm_compute. reflexivity. Qed.

(* the registries are not trivial: some type has five saver versions, some has four *)
Example five_versions : exists r, In r savers /\ s_versions r = [1; 2; 3; 4; 5].
Proof.
  destruct (find (fun r => Z.of_nat (List.length (s_versions r)) =? 5) savers) as [r|] eqn:F.
  - apply find_some in F. exists r. split; [exact (proj1 F)|].
    destruct (proj1 Lemmas.registry_consecutive r (proj1 F)) as [E _]. rewrite E.
    destruct F as [_ F]. apply Z.eqb_eq in F. replace (List.length (s_versions r)) with 5%nat by lia. reflexivity.
  - exfalso. revert F. vm_compute. discriminate.
Qed.

(* save_uses_newest has instances through the registry (its hypothesis is satisfiable) *)
Example some_registry_saver : exists c t v, In c classes /\ saver_of c = Some (Reg t v) /\ 1 < v.
Proof.
  destruct (find (fun c => match saver_of c with Some (Reg _ v) => 1 <? v | _ => false end) classes) as [c|] eqn:F.
  - apply find_some in F. destruct F as [Hc Hv].
    destruct (saver_of c) as [[p|t v]|] eqn:E; try discriminate.
    exists c, t, v. repeat split; try assumption. now apply Z.ltb_lt.
  - exfalso. revert F. vm_compute. discriminate.
Qed.

(* the rename table has chains of length > 1 (so termination is not one-step), and the two known captures are keys *)
Example chain : exists p t, In p patches /\ patch_lookup (p_to p) = Some t.
Proof.
  destruct (find (fun p => is_some (patch_lookup (p_to p))) patches) as [p|] eqn:F.
  - apply find_some in F. destruct F as [Hp Ht]. destruct (patch_lookup (p_to p)) as [t|] eqn:E; [|discriminate].
    exists p, t. split; assumption.
  - exfalso. revert F. vm_compute. discriminate.
Qed.
Example known_are_keys : forallb (fun s => existsb (fun p => String.eqb (name_of (p_from p)) s) patches) known_captures = true.
Proof. vm_compute. reflexivity. Qed.
Example partial_not_vacuous : exists p, In p patches /\ ~ In (name_of (p_from p)) known_captures.
Proof.
  destruct (find (fun p => negb (is_known p)) patches) as [p|] eqn:F.
  - apply find_some in F. destruct F as [Hp Hk]. exists p. split; [assumption|].
    intros I. apply negb_true_iff in Hk. unfold is_known in Hk.
    assert (existsb (String.eqb (name_of (p_from p))) known_captures = true).
    { apply existsb_exists. exists (name_of (p_from p)). split; [assumption | apply String.eqb_refl]. }
    congruence.
  - exfalso. revert F. vm_compute. discriminate.
Qed.

Eval vm_compute in (map (fun p => name_of (p_from p)) (filter writes patches)).
Eval vm_compute in (List.length classes, List.length patches, List.length savers, List.length loaders).

(* registrations interleaved with saves: class 2 has MRO [2; 1].  Saved before it has a saver of its own it uses class 1's
   newest; after (2, v1) is registered it uses its own; class 1 moves to v2 as soon as v2 is registered *)
Example interleaved :
  run_reg_ops [(1, [1]); (2, [2; 1])] [] []
    [RegSaver 1 (Some 1) 10; DoSave 2; DoSave 1; RegSaver 1 (Some 2) 11; DoSave 1; DoSave 2; RegSaver 2 (Some 1) 12; DoSave 2;
     RegSaver 3 (Some 2) 13; DoSave 3]
  = [RReg RNone; RUsed 1 1 10; RUsed 1 1 10; RReg RNone; RUsed 1 2 11; RUsed 1 2 11; RReg RNone; RUsed 2 1 12;
     RReg RKeyError; RRaises 1].
Proof. vm_compute. reflexivity. Qed.
