(* C12 — executable model (definitions only).
   1. VersionedDict (glue/core/state.py) as a state machine over operations;
   2. saver / loader dispatch over the regenerated class table and registries (Gen_tables);
   3. renamed-class redirection: iterate PATH_PATCHES until a name that is not a key.
   4. the functions TRANSLATED from glue/core/state.py (gen/Gen_dispatch.v, regenerated on every run) instantiated on the wire
      (interpreters grun / grun_reg_ops, table instances gen_saver_of / gen_loader_of / gen_resolve / gen_roundtrip);
      C12/GenEquiv.v proves that they compute what the hand-written definitions of 1-3 compute.
   [run_case] is the wire entry point used by the correspondence harness. *)
From Coq Require Import ZArith List Bool String.
Import ListNotations.
From GV Require Import Common.Wire gen.Gen_tables gen.Gen_dispatch.
Open Scope Z_scope.

(* ================================================================= 1. VersionedDict *)

(* self._data : defaultdict(dict)  =  key -> {version: value}; both dicts keep insertion order *)
Definition versions := list (Z * Z).            (* (version, value), oldest first *)
Definition vd := list (Z * versions).

Inductive op :=
| SetItem (k : Z) (ver : option Z) (val : Z)   (* d[k, ver] = val ; ver = None: a version that int() rejects *)
| SetBadKey                                     (* d[(k,)] = ... : key is not a pair *)
| GetItem (k : Z)                               (* d[k] *)
| GetLatest (k : Z)                             (* d.get_version(k) *)
| GetVersion (k v : Z)                          (* d.get_version(k, v) *)
| Contains (k : Z)                              (* k in d *)
| Len.                                          (* len(d) *)

Inductive res := RNone | RVal (v : Z) | RPair (val ver : Z) | RBool (b : bool) | RKeyError | RValueError.

Fixpoint lookup (k : Z) (d : vd) : option versions :=
  match d with
  | [] => None
  | (k', vs) :: r => if k' =? k then Some vs else lookup k r
  end.

(* reading self._data[k] on a defaultdict creates the entry *)
Definition touch (k : Z) (d : vd) : vd :=
  match lookup k d with Some _ => d | None => d ++ [(k, [])] end.

Fixpoint update (k : Z) (vs : versions) (d : vd) : vd :=
  match d with
  | [] => []
  | (k', vs') :: r => if k' =? k then (k', vs) :: r else (k', vs') :: update k vs r
  end.

Fixpoint vget (v : Z) (vs : versions) : option Z :=
  match vs with
  | [] => None
  | (v', x) :: r => if v' =? v then Some x else vget v r
  end.

Definition has (v : Z) (vs : versions) : bool := match vget v vs with Some _ => true | None => false end.

(* Python max(vs) over the version keys; only called on a non-empty dict *)
Definition zmax_list (l : list Z) : Z := fold_left Z.max l (hd 0 l).

Definition newest (vs : versions) : res :=
  match vs with
  | [] => RValueError                          (* max() of an empty sequence *)
  | _ => let m := zmax_list (map fst vs) in
         match vget m vs with Some x => RPair x m | None => RKeyError end
  end.

Definition step (d : vd) (o : op) : vd * res :=
  match o with
  | SetBadKey => (d, RValueError)
  | SetItem k None val => (d, RValueError)
  | SetItem k (Some ver) val =>
      if ver <? 1 then (d, RValueError)
      else
        let d1 := touch k d in
        let vs := match lookup k d1 with Some vs => vs | None => [] end in
        if (ver >? 1) && negb (has (ver - 1) vs) then (d1, RKeyError)
        else if has ver vs then (d1, RKeyError)
        else (update k (vs ++ [(ver, val)]) d1, RNone)
  | GetItem k =>
      match lookup k d with
      | None => (d, RKeyError)
      | Some vs => (d, newest vs)
      end
  | GetLatest k =>
      match lookup k d with
      | None => (d, RKeyError)
      | Some vs => (d, match newest vs with RPair x _ => RVal x | r => r end)
      end
  | GetVersion k v =>
      let d1 := touch k d in
      (d1, match lookup k d1 with
           | Some vs => match vget v vs with Some x => RVal x | None => RKeyError end
           | None => RKeyError
           end)
  | Contains k => (d, RBool (match lookup k d with Some _ => true | None => false end))
  | Len => (d, RVal (Z.of_nat (List.length d)))
  end.

Fixpoint run (d : vd) (ops : list op) : vd * list res :=
  match ops with
  | [] => (d, [])
  | o :: r => let '(d1, x) := step d o in let '(d2, xs) := run d1 r in (d2, x :: xs)
  end.

Definition final (ops : list op) : vd := fst (run [] ops).

(* value stored for (k, v), if any *)
Definition stored (d : vd) (k v : Z) : option Z :=
  match lookup k d with Some vs => vget v vs | None => None end.

(* [a; a+1; ...; a+n-1] *)
Fixpoint zseq (a : Z) (n : nat) : list Z :=
  match n with O => [] | S n' => a :: zseq (a + 1) n' end.

(* ================================================================= 2. dispatch over the tables *)

Inductive how := Meth (provider : Z) | Reg (t : Z) (version : Z).

Definition find_cls_in (cl : list cls_row) (id : Z) : option cls_row := find (fun c => c_id c =? id) cl.
Definition saver_versions_in (sv : list saver_row) (t : Z) : option (list Z) :=
  option_map s_versions (find (fun r => s_cls r =? t) sv).
Definition loader_versions_in (lv : list loader_row) (t : Z) : option (list Z) :=
  option_map l_versions (find (fun r => l_cls r =? t) lv).

Definition zmem (x : Z) (l : list Z) : bool := existsb (Z.eqb x) l.

(* GlueSerializer._dispatch: __gluestate__ wins (version 1); otherwise the first class of the MRO that is in the
   registry, with its newest version *)
Fixpoint first_saver (sv : list saver_row) (mro : list Z) : option how :=
  match mro with
  | [] => None
  | t :: r => match saver_versions_in sv t with
              | Some vs => Some (Reg t (zmax_list vs))
              | None => first_saver sv r
              end
  end.
Definition saver_of_in (sv : list saver_row) (c : cls_row) : option how :=
  match c_gs c with Some p => Some (Meth p) | None => first_saver sv (c_mro c) end.

(* GlueUnSerializer._dispatch: __setgluestate__ wins; otherwise the first class of the MRO that has a loader
   registered for exactly the record's protocol version *)
Fixpoint first_loader (lv : list loader_row) (mro : list Z) (v : Z) : option how :=
  match mro with
  | [] => None
  | t :: r => match loader_versions_in lv t with
              | Some vs => if zmem v vs then Some (Reg t v) else first_loader lv r v
              | None => first_loader lv r v
              end
  end.
Definition loader_of_in (lv : list loader_row) (c : cls_row) (v : Z) : option how :=
  match c_sgs c with Some p => Some (Meth p) | None => first_loader lv (c_mro c) v end.

Definition find_cls := find_cls_in classes.
Definition saver_versions := saver_versions_in savers.
Definition loader_versions := loader_versions_in loaders.
Definition saver_of := saver_of_in savers.
Definition loader_of := loader_of_in loaders.

(* shape of the registered saver (t, version): 0 ordinary, 1 only raises, 2 returns {} *)
Definition saver_shape (t v : Z) : Z :=
  match find (fun r => s_cls r =? t) savers with
  | Some r => match find (fun p => fst p =? v) (combine (s_versions r) (s_shapes r)) with
              | Some p => snd p | None => 0 end
  | None => 0
  end.

(* ---- dispatch over registries that grow between saves (the saver / loader decorators are VersionedDict assignments,
        keyed by class).  The reference for every save is [save_lookup] recomputed from the registry as it is at that
        moment: any memo inside the implementation must be transparent with respect to it. *)
Fixpoint save_lookup (d : vd) (mro : list Z) : option (Z * res) :=
  match mro with
  | [] => None
  | t :: r => match lookup t d with
              | Some vs => Some (t, newest vs)      (* `typ in self.dispatch` ... `self.dispatch[typ]` *)
              | None => save_lookup d r
              end
  end.

Fixpoint load_lookup (d : vd) (mro : list Z) (v : Z) : option (Z * Z) :=
  match mro with
  | [] => None
  | t :: r => match stored d t v with
              | Some x => Some (t, x)
              | None => load_lookup d r v
              end
  end.

(* the same walk with its side effect: get_version(t, version) READS self._data[t], which creates an (empty) entry for every
   class of the MRO that is visited *)
Fixpoint load_walk (d : vd) (mro : list Z) (v : Z) : vd * option (Z * Z) :=
  match mro with
  | [] => (d, None)
  | t :: r => let d1 := touch t d in
              match stored d1 t v with
              | Some x => (d1, Some (t, x))
              | None => load_walk d1 r v
              end
  end.

Inductive rop :=
| RegSaver (c : Z) (ver : option Z) (val : Z)
| RegLoader (c : Z) (ver : option Z) (val : Z)
| DoSave (c : Z)
| DoLoad (c v : Z).

Definition mro_of (cl : list (Z * list Z)) (c : Z) : list Z :=
  match find (fun p => fst p =? c) cl with Some p => snd p | None => [c] end.

(* one result per operation: registration outcome / (_type, version, function) of the save or load *)
Inductive rres := RReg (r : res) | RUsed (t v x : Z) | RRaises (code : Z).

Fixpoint run_reg_ops (cl : list (Z * list Z)) (sv lv : vd) (ops : list rop) : list rres :=
  match ops with
  | [] => []
  | RegSaver c ver val :: r => let '(sv', x) := step sv (SetItem c ver val) in RReg x :: run_reg_ops cl sv' lv r
  | RegLoader c ver val :: r => let '(lv', x) := step lv (SetItem c ver val) in RReg x :: run_reg_ops cl sv lv' r
  | DoSave c :: r =>
      (match save_lookup sv (mro_of cl c) with
       | Some (t, RPair x v) => RUsed c v x       (* the record is stamped with the object's own class and the saver's version *)
       | Some (_, RValueError) => RRaises 1
       | Some (_, _) => RRaises 2
       | None => RRaises 5                      (* GlueSerializeError: don't know how to serialize *)
       end) :: run_reg_ops cl sv lv r
  | DoLoad c v :: r =>
      let '(lv', x) := load_walk lv (mro_of cl c) v in
      (match x with
       | Some (t, x) => RUsed c v x
       | None => RRaises 5
       end) :: run_reg_ops cl sv lv' r
  end.

(* ================================================================= 3. renamed classes *)

Definition patch_lookup_in (ps : list patch_row) (nm : Z) : option Z :=
  option_map p_to (find (fun p => p_from p =? nm) ps).

(* while name in PATH_PATCHES: name = PATH_PATCHES[name]   -- None = fuel exhausted *)
Fixpoint resolve_in (ps : list patch_row) (fuel : nat) (nm : Z) : option Z :=
  match patch_lookup_in ps nm with
  | None => Some nm
  | Some t => match fuel with O => None | S f => resolve_in ps f t end
  end.

Definition patch_lookup := patch_lookup_in patches.
Definition resolve (nm : Z) : option Z := resolve_in patches (List.length patches) nm.

Definition is_some {A} (o : option A) : bool := match o with Some _ => true | None => false end.

(* does this package today write `p_from p` as a _type?  (a concrete class defined here under that name, used by the
   package, with a saver by the dispatch rules) *)
Definition writes_in (cl : list cls_row) (sv : list saver_row) (p : patch_row) : bool :=
  p_live p && p_used p &&
  match find_cls_in cl (p_from p) with
  | Some c => negb (c_abstract c) && c_inpkg c && is_some (saver_of_in sv c)
  | None => false
  end.
Definition writes := writes_in classes savers.

Definition name_of (id : Z) : string :=
  match find (fun p => fst p =? id) names with Some p => snd p | None => EmptyString end.

Definition target_ok (t : Z) : bool :=
  match find (fun r => t_name r =? t) targets with
  | Some r => implb (t_in_glue r) (t_importable r)
  | None => false
  end.

(* ================================================================= 4. the translated functions on the wire *)

(* a version object on the wire: 2 * n is the integer n, an odd number is an object that int() rejects *)
Definition wire_int (x : Z) : option Z := if Z.even x then Some (x / 2) else None.
Definition raw_of (v : option Z) : Z := match v with Some x => 2 * x | None => 1 end.

Definition exc_code (e : exc) : Z :=
  match e with ValueError => 1 | KeyError => 2 | TypeError => 3 | GlueSerializeError => 5 end.
Definition oc_res {A} (f : A -> res) (r : outcome A) : res :=
  match r with Ret v => f v | Raise KeyError => RKeyError | Raise ValueError => RValueError | _ => RNone end.

Definition MODULE_MARK : Z := -7.
Definition str_is (a b : string) : bool := String.eqb a b.

(* hand model of the stamping done by GlueSerializer.do: the record returned by the saver gets the name of the object's type and,
   for versions above 1, the protocol version *)
Definition type_name_written (o : ops) (obj : Z) : Z :=
  if isinstance_ o obj "types.FunctionType" then intern o "types.FunctionType"
  else if isinstance_ o obj "types.MethodType" then intern o "types.MethodType"
  else dotted o (getattr_ o (py_type o obj) "__module__") (getattr_ o (py_type o obj) "__name__").
Definition stamp (o : ops) (obj version : Z) (r : sdict) : sdict :=
  let r1 := sd_setitem "_type" (type_name_written o obj) r in
  if version >? 1 then sd_setitem "_protocol" version r1 else r1.
Definition rec_full (c v : Z) : sdict := [("_type"%string, c); ("_protocol"%string, v)].

(* objects are their own class; an object has no __gluestate__; the saver function f returns {"fn": f} *)
Definition reg_ops (cl : list (Z * list Z)) : ops :=
  {| py_int := wire_int; py_type := fun x => x; mro := mro_of cl;
     hasattr_ := fun _ _ => false;
     getattr_ := fun x a => if str_is a "__module__" then MODULE_MARK else x;
     isinstance_ := fun _ _ => false; in_global := fun _ _ => false; flat_literals := fun _ => false;
     dotted := fun a b => if a =? MODULE_MARK then b else -1;
     intern := fun _ => -1; lookup_class := fun n => Ret n;
     call_saver := fun f _ => [("fn"%string, f)]; path_patches := [] |}.

(* VersionedDict operations through the translated methods *)
Definition gstep (o : ops) (d : vd) (op_ : op) : vd * res :=
  match op_ with
  | SetItem k ver val => let '(d1, r) := vd_setitem o [k; raw_of ver] val d in (d1, oc_res (fun _ => RNone) r)
  | SetBadKey => let '(d1, r) := vd_setitem o [7] 1 d in (d1, oc_res (fun _ => RNone) r)
  | GetItem k => let '(d1, r) := vd_getitem o k d in (d1, oc_res (fun p => RPair (fst p) (snd p)) r)
  | GetLatest k => let '(d1, r) := vd_get_version o k None d in (d1, oc_res RVal r)
  | GetVersion k v => let '(d1, r) := vd_get_version o k (Some v) d in (d1, oc_res RVal r)
  | Contains k => let '(d1, r) := vd_contains o k d in (d1, oc_res RBool r)
  | Len => let '(d1, r) := vd_len o d in (d1, oc_res RVal r)
  end.

Fixpoint grun (o : ops) (d : vd) (ops_ : list op) : vd * list res :=
  match ops_ with
  | [] => (d, [])
  | x :: r => let '(d1, y) := gstep o d x in let '(d2, ys) := grun o d1 r in (d2, y :: ys)
  end.

(* the record {_type: c, _protocol: v} as GlueSerializer.do leaves it (no _protocol for version 1) *)
Definition rec_of (c v : Z) : sdict :=
  if v >? 1 then [("_type"%string, c); ("_protocol"%string, v)] else [("_type"%string, c)].

(* registrations through the translated decorators, saves through GlueSerializer.do, loads through GlueUnSerializer._dispatch *)
Fixpoint grun_reg_ops (o : ops) (sv lv : vd) (ops_ : list rop) : list rres :=
  match ops_ with
  | [] => []
  | RegSaver c ver val :: r =>
      let '(sv1, x) := saver o c (raw_of ver) val sv in RReg (oc_res (fun _ => RNone) x) :: grun_reg_ops o sv1 lv r
  | RegLoader c ver val :: r =>
      let '(lv1, x) := loader o c (raw_of ver) val lv in RReg (oc_res (fun _ => RNone) x) :: grun_reg_ops o sv lv1 r
  | DoSave c :: r =>
      let '(sv1, _, x) := ser_do o c sv [] in
      (match x with
       | Ret (PRec rc) => RUsed (sd_get "_type" (-1) rc) (sd_get "_protocol" 1 rc) (sd_get "fn" (-1) rc)
       | Ret _ => RRaises 9
       | Raise e => RRaises (exc_code e)
       | OutOfFuel => RRaises 8
       end) :: grun_reg_ops o sv1 lv r
  | DoLoad c v :: r =>
      let '(lv1, x) := unser_dispatch o 0%nat (rec_full c v) lv in
      (match x with
       | Ret f => RUsed c v f
       | Raise e => RRaises (exc_code e)
       | OutOfFuel => RRaises 8
       end) :: grun_reg_ops o sv lv1 r
  end.

(* ---- the translated dispatch over the regenerated tables ---- *)
Definition fid (t v : Z) : Z := t * 1000 + v.              (* the function registered for (t, v) *)
Definition meth_id (p : Z) : Z := - p - 1.                  (* the __gluestate__ / __setgluestate__ that class p provides *)
Definition reg_of_savers (sv : list saver_row) : vd :=
  map (fun r => (s_cls r, map (fun v => (v, fid (s_cls r) v)) (s_versions r))) sv.
Definition reg_of_loaders (lv : list loader_row) : vd :=
  map (fun r => (l_cls r, map (fun v => (v, fid (l_cls r) v)) (l_versions r))) lv.
Definition patch_table (ps : list patch_row) : inner := map (fun p => (p_from p, p_to p)) ps.
Definition name_id (s : string) : Z :=
  match find (fun p => String.eqb (snd p) s) names with Some p => fst p | None => -1 end.

(* an object of class c is c; names of classes are their ids (type(obj).__module__ = __name__ = the id, "%s.%s" joins equal halves) *)
Definition tbl_ops_in (cl : list cls_row) (pp : inner) (lc : Z -> outcome Z) : ops :=
  {| py_int := fun x => Some x; py_type := fun x => x;
     mro := fun x => match find_cls_in cl x with Some r => c_mro r | None => [x] end;
     hasattr_ := fun x a => match find_cls_in cl x with
                            | Some r => if str_is a "__gluestate__" then is_some (c_gs r)
                                        else if str_is a "__setgluestate__" then is_some (c_sgs r) else false
                            | None => false
                            end;
     getattr_ := fun x a => match find_cls_in cl x with
                            | Some r => if str_is a "__gluestate__" then match c_gs r with Some p => meth_id p | None => x end
                                        else if str_is a "__setgluestate__" then match c_sgs r with Some p => meth_id p | None => x end
                                        else x
                            | None => x
                            end;
     isinstance_ := fun x a => if str_is a "types.FunctionType" then x =? name_id "builtins.function"
                               else if str_is a "types.MethodType" then x =? name_id "builtins.method" else false;
     in_global := fun _ _ => false; flat_literals := fun _ => false;
     dotted := fun a b => if a =? b then a else -1;
     intern := fun s => if str_is s "types.FunctionType" then name_id "builtins.function"
                        else if str_is s "types.MethodType" then name_id "builtins.method" else name_id s;
     lookup_class := lc;
     call_saver := fun f _ => [("fn"%string, f)]; path_patches := pp |}.

Definition lc_id (n : Z) : outcome Z := Ret n.
(* glue.utils.lookup_class over the class table: a name resolves to the row of that name, otherwise ValueError *)
Definition types_alias (n : Z) : Z :=          (* the aliases of the standard module `types` (a fact of Python, not of the package) *)
  if n =? name_id "types.BuiltinFunctionType" then name_id "builtins.builtin_function_or_method"
  else if n =? name_id "types.FunctionType" then name_id "builtins.function"
  else if n =? name_id "types.MethodType" then name_id "builtins.method" else n.
Definition lc_classes (n : Z) : outcome Z :=
  let n' := types_alias n in if is_some (find_cls n') then Ret n' else Raise ValueError.

Definition gen_saver_of_in (sv : list saver_row) (cl : list cls_row) (c : cls_row) : outcome (Z * Z) :=
  snd (ser_dispatch (tbl_ops_in cl [] lc_id) (c_id c) (reg_of_savers sv)).
Definition gen_loader_of_in (lv : list loader_row) (cl : list cls_row) (c : cls_row) (v : Z) : outcome Z :=
  snd (unser_dispatch (tbl_ops_in cl [] lc_id) 0%nat (rec_of (c_id c) v) (reg_of_loaders lv)).
Definition gen_saver_of := gen_saver_of_in savers classes.
Definition gen_loader_of := gen_loader_of_in loaders classes.

(* the rename loop alone (lookup_class = identity) *)
Definition gen_resolve_in (ps : list patch_row) (fuel : nat) (nm : Z) : outcome Z :=
  lookup_class_with_patches (tbl_ops_in [] (patch_table ps) lc_id) fuel nm.
Definition gen_resolve (nm : Z) : outcome Z := gen_resolve_in patches (List.length patches) nm.

(* save with the registry as it was when version v was the newest of class t, then load the record with today's loaders,
   today's rename table and the class table: the whole pipeline of translated functions *)
Definition savers_upto (t v : Z) : list saver_row :=
  map (fun r => if s_cls r =? t then mkSaver (s_cls r) (filter (fun v' => v' <=? v) (s_versions r)) (s_shapes r) else r) savers.
Definition full_ops : ops := tbl_ops_in classes (patch_table patches) lc_classes.
Definition gen_written (t v : Z) : outcome pyv :=
  snd (ser_do full_ops t (reg_of_savers (savers_upto t v)) []).
Definition gen_roundtrip (t v : Z) : outcome Z :=
  match gen_written t v with
  | Ret (PRec rc) => snd (unser_dispatch full_ops (List.length patches) rc (reg_of_loaders loaders))
  | Ret _ => Raise TypeError
  | Raise e => Raise e
  | OutOfFuel => OutOfFuel
  end.

(* ================================================================= wire *)

Definition KeyErr : Z := 2.
Definition ValueErr : Z := 1.

Definition dec_op (t : tree) : op :=
  match t with
  | T 0 [T k _; v; T val _] => SetItem k (opt_z v) val
  | T 1 [T k _] => GetItem k
  | T 2 [T k _] => GetLatest k
  | T 3 [T k _; T v _] => GetVersion k v
  | T 4 [T k _] => Contains k
  | T 5 _ => Len
  | _ => SetBadKey
  end.

Definition enc_res (r : res) : tree :=
  match r with
  | RNone => T 0 []
  | RVal v => T 1 [leaf v]
  | RPair x v => T 2 [leaf x; leaf v]
  | RBool b => T 3 [leaf (of_bool b)]
  | RKeyError => err KeyErr
  | RValueError => err ValueErr
  end.

Definition enc_vd (d : vd) : tree :=
  T 0 (map (fun '(k, vs) => T 0 [leaf k; T 0 (map (fun '(v, x) => T 0 [leaf v; leaf x]) vs)]) d).

Definition enc_how (h : option how) : tree :=
  match h with
  | None => T 0 []
  | Some (Meth p) => T 1 [leaf p]
  | Some (Reg t v) => T 2 [leaf t; leaf v]
  end.

Definition dec_rop (t : tree) : rop :=
  match t with
  | T 0 [T c _; v; T val _] => RegSaver c (opt_z v) val
  | T 1 [T c _; v; T val _] => RegLoader c (opt_z v) val
  | T 2 [T c _] => DoSave c
  | T 3 [T c _; T v _] => DoLoad c v
  | _ => DoSave (-1)
  end.

Definition enc_rres (r : rres) : tree :=
  match r with
  | RReg x => T 0 [enc_res x]
  | RUsed t v x => T 1 [leaf t; leaf v; leaf x]
  | RRaises c => err c
  end.

Definition how_of_fn (f v : Z) : how := if f <? 0 then Meth (- f - 1) else Reg (f / 1000) v.
Definition enc_oc_how (r : outcome how) : tree :=
  match r with Ret h => T 1 [enc_how (Some h)] | Raise GlueSerializeError => T 1 [enc_how None] | Raise e => err (exc_code e) | OutOfFuel => err 8 end.
Definition oc_map {A B} (f : A -> B) (r : outcome A) : outcome B :=
  match r with Ret v => Ret (f v) | Raise e => Raise e | OutOfFuel => OutOfFuel end.

Definition run_case (t : tree) : tree :=
  match t with
  | T 1 ops => let '(d, rs) := run [] (map dec_op ops) in T 0 [T 0 (map enc_res rs); enc_vd d]
  | T 10 [T c _] => match find_cls c with Some r => T 1 [enc_how (saver_of r)] | None => err (-3) end
  | T 11 [T c _; T v _] => match find_cls c with Some r => T 1 [enc_how (loader_of r v)] | None => err (-3) end
  | T 12 [T n _] => match resolve n with Some r => T 1 [leaf r] | None => T 0 [] end
  | T 13 [T n _] => match find (fun p => p_from p =? n) patches with
                    | Some p => T 3 [leaf (of_bool (writes p))] | None => err (-3) end
  | T 14 _ => zs [Z.of_nat (List.length classes); Z.of_nat (List.length patches);
                  Z.of_nat (List.length savers); Z.of_nat (List.length loaders);
                  fold_left Z.add (map c_id classes) 0; fold_left Z.add (map p_to patches) 0]
  | T 15 [T n _] => T 3 [leaf (of_bool (target_ok n))]
  (* registrations interleaved with saves and loads over throw-away classes: T 20 [classes (T id mro); ops] *)
  | T 20 [T _ cls; T _ ops] =>
      T 0 (map enc_rres (run_reg_ops (map (fun c => (tag c, to_zs c)) cls) [] [] (map dec_rop ops)))
  (* ---- the same entry points through the functions translated from state.py (Gen_dispatch) ---- *)
  | T 31 ops => let '(d, rs) := grun (reg_ops []) [] (map dec_op ops) in T 0 [T 0 (map enc_res rs); enc_vd d]
  | T 32 [T _ cls; T _ ops] =>
      T 0 (map enc_rres (grun_reg_ops (reg_ops (map (fun c => (tag c, to_zs c)) cls)) [] [] (map dec_rop ops)))
  | T 33 [T c _] => match find_cls c with
                    | Some r => enc_oc_how (oc_map (fun p => how_of_fn (fst p) (snd p)) (gen_saver_of r))
                    | None => err (-3) end
  | T 34 [T c _; T v _] => match find_cls c with
                           | Some r => enc_oc_how (oc_map (fun f => how_of_fn f v) (gen_loader_of r v))
                           | None => err (-3) end
  | T 35 [T n _] => match gen_resolve n with Ret r => T 1 [leaf r] | Raise e => err (exc_code e) | OutOfFuel => T 0 [] end
  | T 36 [T t _; T v _] =>
      match gen_written t v with
      | Ret (PRec rc) => T 1 [leaf (sd_get "_type" (-1) rc); leaf (sd_get "_protocol" 1 rc); leaf (sd_get "fn" (-1) rc);
                              enc_oc_how (oc_map (fun f => how_of_fn f v) (gen_roundtrip t v))]
      | Ret _ => err 9 | Raise e => err (exc_code e) | OutOfFuel => err 8
      end
  | T 37 _ => T 0 (map (fun '(l, c, v, f) => T (of_bool l) [leaf c; of_opt_z v; leaf f]) registrations)
  | _ => err (-2)
  end.
