From Coq Require Import ZArith ExtrOcamlBasic ExtrOcamlNativeString.
From GV Require Import Common.Wire C12.Model.
Extraction "c12_model.ml" run_case Z.add Z.mul Z.div_eucl Z.opp.
