(* C12 — the VersionedDict model's acceptance of an assignment is exactly the guard sequence of
   VersionedDict.__setitem__ as REGENERATED from glue/core/state.py on every run (coq/gen/Gen_versioned.v). *)
From Coq Require Import ZArith List Bool Lia.
Import ListNotations.
From GV Require Import Common.PyInt gen.Gen_versioned C12.Model.
Open Scope Z_scope.

Definition res_of_code (c : Z) : res :=
  if c =? 0 then RNone else if c =? PyInt.ValueError then RValueError else RKeyError.

(* the versions dict of key k as __setitem__ sees it (reading self._data[item] creates the entry) *)
Definition versions_seen (d : vd) (k : Z) : versions :=
  match lookup k (touch k d) with Some vs => vs | None => [] end.

(* the outcome (stored / ValueError / KeyError) of the model's assignment is the translated guard's *)
Lemma setitem_follows_generated_guard (d : vd) (k ver val : Z) :
  snd (step d (SetItem k (Some ver) val)) =
  res_of_code (vd_setitem_guard (fun v => has v (versions_seen d k)) ver).
Proof.
  unfold step, vd_setitem_guard, versions_seen, res_of_code.
  destruct (ver <? 1) eqn:E1; [reflexivity|]. cbn [snd].
  set (vs := match lookup k (touch k d) with Some vs => vs | None => [] end).
  destruct ((ver >? 1) && negb (has (ver - 1) vs)) eqn:E2; [reflexivity|].
  destruct (has ver vs) eqn:E3; reflexivity.
Qed.

(* guard = 0: the value is appended under that version; guard <> 0: no version of any key changes *)
Lemma setitem_state_follows_generated_guard (d : vd) (k ver val : Z) :
  (vd_setitem_guard (fun v => has v (versions_seen d k)) ver = 0 ->
     fst (step d (SetItem k (Some ver) val)) = update k (versions_seen d k ++ [(ver, val)]) (touch k d)) /\
  (vd_setitem_guard (fun v => has v (versions_seen d k)) ver <> 0 ->
     fst (step d (SetItem k (Some ver) val)) = d \/ fst (step d (SetItem k (Some ver) val)) = touch k d).
Proof.
  unfold step, vd_setitem_guard, versions_seen.
  set (vs := match lookup k (touch k d) with Some vs => vs | None => [] end).
  destruct (ver <? 1) eqn:E1; cbn [fst].
  - split; [unfold PyInt.ValueError; discriminate | left; reflexivity].
  - destruct ((ver >? 1) && negb (has (ver - 1) vs)) eqn:E2; cbn [fst].
    + split; [unfold KeyError; discriminate | right; reflexivity].
    + destruct (has ver vs) eqn:E3; cbn [fst].
      * split; [unfold KeyError; discriminate | right; reflexivity].
      * split; [reflexivity | congruence].
Qed.

(* what the translated guard means: an assignment is accepted iff version >= 1, the previous version exists
   (or version = 1) and the version itself is not yet stored — "consecutive from 1, never overwritten" *)
Lemma generated_guard_spec (has : Z -> bool) (ver : Z) :
  vd_setitem_guard has ver = 0 <-> 1 <= ver /\ (ver = 1 \/ has (ver - 1) = true) /\ has ver = false.
Proof.
  unfold vd_setitem_guard, PyInt.ValueError, KeyError.
  destruct (ver <? 1) eqn:E1; [split; [discriminate | lia]|].
  destruct (ver >? 1) eqn:E2; destruct (has (ver - 1)) eqn:E3; destruct (has ver) eqn:E4; cbn [andb negb];
    split; intros H; try discriminate; try reflexivity; try (repeat split; auto; lia);
    destruct H as (H1 & H2 & H3); try discriminate; destruct H2 as [H2|H2]; try discriminate; lia.
Qed.
